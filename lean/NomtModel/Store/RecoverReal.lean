import NomtModel.Store.Recover
/-!
# The recovery order as the code has it (no table fsync before the WAL is collapsed)

* `recoverTraceReal_crash_idempotent`: under **process crashes** (every issued effect survives) the real order is
  idempotent;
* the tiny instance `Toy` (also used for the non-vacuity examples of T4.2 / T3.2) shows that it is **not** under
  power loss: `toy_real_recovery_loses_table`.
-/
namespace NomtDisk
variable {Content MetaRec WalRec LogRec TreeAbs : Type}

/-! ## process-crash images: all issued effects, in issue order -/

theorem applyEffs_append (d : Disk Content MetaRec WalRec LogRec) (a b : List (Eff Content MetaRec WalRec LogRec)) :
    applyEffs d (a ++ b) = applyEffs (applyEffs d a) b := by
  simp [applyEffs, List.foldl_append]

theorem applyEff_comm (d : Disk Content MetaRec WalRec LogRec) (e1 e2 : Eff Content MetaRec WalRec LogRec)
    (h : e1.file ≠ e2.file) : applyEff (applyEff d e1) e2 = applyEff (applyEff d e2) e1 := by
  cases e1 <;> cases e2 <;> first | rfl | (exact absurd rfl h) | skip
  rename_i f1 pn1 c1 f2 pn2 c2
  simp only [Eff.file] at h
  simp only [applyEff]
  congr 1
  funext f' pn'
  by_cases h1 : f' = f1 ∧ pn' = pn1
  · have h2 : ¬ (f' = f2 ∧ pn' = pn2) := fun h2 => h (h1.1.symm.trans h2.1)
    rw [if_neg h2, if_pos h1, if_pos h1]
  · by_cases h2 : f' = f2 ∧ pn' = pn2
    · rw [if_pos h2, if_neg h1, if_pos h2]
    · rw [if_neg h2, if_neg h1, if_neg h1, if_neg h2]

theorem applyEffs_comm_one (e : Eff Content MetaRec WalRec LogRec) (f : File) (hf : e.file ≠ f)
    (es : List (Eff Content MetaRec WalRec LogRec)) (hes : ∀ e' ∈ es, e'.file = f) :
    ∀ d : Disk Content MetaRec WalRec LogRec, applyEff (applyEffs d es) e = applyEffs (applyEff d e) es := by
  induction es with
  | nil => intro d; rfl
  | cons e' es ih =>
    intro d
    simp only [applyEffs, List.foldl_cons] at ih ⊢
    rw [ih (fun e'' h => hes e'' (by simp [h]))]
    rw [applyEff_comm d e' e (by rw [hes e' (by simp)]; exact fun h => hf h.symm)]

/-- an fsync does not change what a process crash leaves behind -/
theorem applyEffs_partition (f : File) (es : List (Eff Content MetaRec WalRec LogRec)) :
    ∀ d : Disk Content MetaRec WalRec LogRec,
      applyEffs (applyEffs d (es.filter (fun e => decide (e.file = f)))) (es.filter (fun e => decide (e.file ≠ f)))
        = applyEffs d es := by
  induction es with
  | nil => intro d; rfl
  | cons e es ih =>
    intro d
    by_cases he : e.file = f
    · simp only [List.filter_cons, he, decide_true, if_true, ne_eq, not_true_eq_false, decide_false,
        Bool.false_eq_true, if_false]
      simp only [applyEffs, List.foldl_cons] at ih ⊢
      exact ih _
    · simp only [List.filter_cons, he, decide_false, Bool.false_eq_true, if_false, ne_eq, not_false_eq_true,
        decide_true, if_true]
      have := applyEffs_comm_one e f he (es.filter (fun e => decide (e.file = f)))
        (fun e' h => by simpa using (List.mem_filter.mp h).2) d
      simp only [applyEffs, List.foldl_cons] at ih this ⊢
      rw [this]
      exact ih _

/-- the effects of a trace, in order -/
def effsOf (tr : List (Ev Content MetaRec WalRec LogRec)) : List (Eff Content MetaRec WalRec LogRec) :=
  tr.filterMap (fun ev => match ev with | .eff e => some e | .fsync _ => none)

/-- the image a process crash leaves: the durable part plus ALL issued effects -/
def crashView (s : Exec Content MetaRec WalRec LogRec) : Disk Content MetaRec WalRec LogRec := applyEffs s.dur s.vol

theorem crashView_run (tr : List (Ev Content MetaRec WalRec LogRec)) :
    ∀ s : Exec Content MetaRec WalRec LogRec, crashView (run s tr) = applyEffs (crashView s) (effsOf tr) := by
  induction tr with
  | nil => intro s; rfl
  | cons ev tr ih =>
    intro s
    simp only [run, List.foldl_cons] at ih ⊢
    rw [ih]
    cases ev with
    | eff e =>
      simp only [effsOf, List.filterMap_cons]
      simp only [crashView, step, applyEffs_append]
      rfl
    | fsync f =>
      simp only [effsOf, List.filterMap_cons]
      simp only [crashView, step, applyEffs_partition]

theorem effsOf_prefix (p tr : List (Ev Content MetaRec WalRec LogRec)) (h : p <+: tr) : effsOf p <+: effsOf tr := by
  obtain ⟨r, rfl⟩ := h
  exact ⟨effsOf r, by simp [effsOf, List.filterMap_append]⟩

section real
variable (P : Params Content MetaRec WalRec TreeAbs) (L : LogParams MetaRec LogRec)

theorem effsOf_map_eff (es : List (Eff Content MetaRec WalRec LogRec)) : effsOf (es.map Ev.eff) = es := by
  induction es with
  | nil => rfl
  | cons e es ih => simp only [effsOf, List.map_cons, List.filterMap_cons] at ih ⊢; rw [ih]

/-- **the real recovery order is idempotent under process crashes** (which is why the nested-crash runs, which kill
the process, cannot see the missing table fsync) -/
theorem recoverTraceReal_crash_idempotent (d : Disk Content MetaRec WalRec LogRec) (hfun : WalFun P d)
    (p : List (Ev Content MetaRec WalRec LogRec)) (hp : p <+: recoverTraceReal P L d) :
    absOfL P L (crashView (run ⟨d, []⟩ p)) = absOfL P L d := by
  have hcases : (∃ w, d.wal = some w ∧ P.walSeqn w = P.seqn d.mt) ∨
      recoverTraceReal P L d = recoverTrace P L d := by
    cases hw : d.wal with
    | none => right; simp [recoverTraceReal, recoverTrace, recoverWalReal, recoverWal, hw]
    | some w =>
      by_cases hs : P.walSeqn w = P.seqn d.mt
      · left; exact ⟨w, rfl, hs⟩
      · right; simp [recoverTraceReal, recoverTrace, recoverWalReal, recoverWal, hw, hs]
  rcases hcases with ⟨w, hw, hs⟩ | heq
  · have hg : GoodC P d d.mt w d := ⟨rfl, fun _ _ _ => rfl, fun _ => Or.inl rfl, Or.inl hw⟩
    have h0 : absOf P d = absNew P d d.mt w := goodC_abs P d d.mt w hs d hg
    have hredoA : ∀ e ∈ redoEffs (LogRec := LogRec) P w, AllowedPost P w e := by
      intro e he
      simp only [redoEffs, List.mem_map] at he
      obtain ⟨bc, hbc, rfl⟩ := he
      exact ⟨rfl, hfun w hw bc.1 bc.2 hbc⟩
    have hredoT : ∀ q : List (Eff Content MetaRec WalRec LogRec),
        (∀ e ∈ q, e ∈ redoEffs (LogRec := LogRec) P w) → ¬ ∃ e ∈ q, IsTrunc e := by
      rintro q hq ⟨e, he, ht⟩
      have := hq e he
      simp only [redoEffs, List.mem_map] at this
      obtain ⟨bc, _, rfl⟩ := this
      exact ht
    -- the effects issued so far
    have htr : effsOf (recoverTraceReal P L d) = redoEffs P w ++
        [.walSet none, .logSet (d.log.filter (fun r => decide (L.startLive d.mt ≤ L.recId r))),
         .logSet (liveRecs L d.mt d.log)] := by
      simp only [recoverTraceReal, recoverWalReal, hw, hs, if_true, recoverLog]
      simp only [effsOf, List.filterMap_append, List.filterMap_cons, List.filterMap_nil]
      have := effsOf_map_eff (redoEffs (LogRec := LogRec) P w)
      simp only [effsOf] at this
      rw [this]; simp
    have hq := effsOf_prefix p _ hp
    rw [htr] at hq
    rw [crashView_run]
    simp only [crashView, applyEffs, List.foldl_nil]
    show absOfL P L (applyEffs d (effsOf p)) = absOfL P L d
    -- the disk with the log component erased is GoodC; the log component is LogGood
    have key : ∀ q : List (Eff Content MetaRec WalRec LogRec),
        (∀ e ∈ nl q, AllowedPost P w e) → ((∃ e ∈ nl q, IsTrunc e) → False) →
        (∀ e ∈ q, LogKeeps L d.mt (absLog L d.mt d.log) e) →
        ∀ d1, GoodC P d d.mt w d1 → LogGood L d.mt (absLog L d.mt d.log) d1 →
          absOfL P L (applyEffs d1 q) = absOfL P L d := by
      intro q hA hT hK d1 hg1 hl1
      have hgood := (goodC_applyEffs P d d.mt w (nl q) (setLog d1.log d1) hg1 hA (fun h => (hT h).elim)).1
      rw [← setLog_applyEffs] at hgood
      have h1 := goodC_abs P d d.mt w hs _ hgood
      rw [absOf_setLog] at h1
      have h2 := g_applyEffs (LogGood L d.mt (absLog L d.mt d.log)) (LogKeeps L d.mt (absLog L d.mt d.log))
        (logGood_applyEff L d.mt (absLog L d.mt d.log)) q d1 hl1 hK
      simp only [absOfL, h1, h0, h2.1, h2.2]
    rcases prefix_append_cases _ _ _ hq with h1 | ⟨t, ht, hqt⟩
    · -- only redo writes so far
      obtain ⟨r, hr⟩ := h1
      have hmem : ∀ e ∈ effsOf p, e ∈ redoEffs (LogRec := LogRec) P w := fun e he => by rw [← hr]; simp [he]
      apply key (effsOf p) (fun e he => hredoA e (hmem e (List.mem_filter.mp he).1))
        (fun ⟨e, he, hte⟩ => hredoT (effsOf p) hmem ⟨e, (List.mem_filter.mp he).1, hte⟩)
        (fun e he => by
          have := hmem e he
          simp only [redoEffs, List.mem_map] at this
          obtain ⟨bc, _, rfl⟩ := this
          trivial) d hg ⟨rfl, rfl⟩
    · -- all redo writes issued: the table is complete in what a process crash leaves
      rw [hqt, applyEffs_append]
      have hgood1 := goodC_applyEffs P d d.mt w (redoEffs P w) d hg hredoA
        (fun h => (hredoT (redoEffs P w) (fun _ h => h) h).elim)
      have hfull : FullHt P w (applyEffs d (redoEffs P w)) := redo_fullHt P d w (hfun w hw)
      have hl1 : LogGood L d.mt (absLog L d.mt d.log) (applyEffs d (redoEffs (LogRec := LogRec) P w)) :=
        g_applyEffs _ _ (logGood_applyEff L d.mt (absLog L d.mt d.log)) _ d ⟨rfl, rfl⟩ (fun e he => by
          simp only [redoEffs, List.mem_map] at he
          obtain ⟨bc, _, rfl⟩ := he
          trivial)
      have htmem : ∀ e ∈ t, e = Eff.walSet none ∨
          e = .logSet (d.log.filter (fun r => decide (L.startLive d.mt ≤ L.recId r))) ∨
          e = .logSet (liveRecs L d.mt d.log) := by
        intro e he
        have := ht.subset he
        simpa using this
      have hgoodt := (goodC_applyEffs P d d.mt w (nl t) (setLog (applyEffs d (redoEffs P w)).log _) hgood1.1
        (fun e he => by
          obtain ⟨hm, hn⟩ := List.mem_filter.mp he
          rcases htmem e hm with rfl | rfl | rfl
          · trivial
          · simp [Eff.isLog] at hn
          · simp [Eff.isLog] at hn)
        (fun _ => hfull)).1
      rw [← setLog_applyEffs] at hgoodt
      have h1 := goodC_abs P d d.mt w hs _ hgoodt
      rw [absOf_setLog] at h1
      have h2 := g_applyEffs (LogGood L d.mt (absLog L d.mt d.log)) (LogKeeps L d.mt (absLog L d.mt d.log))
        (logGood_applyEff L d.mt (absLog L d.mt d.log)) t _ hl1 (fun e he => by
          rcases htmem e he with rfl | rfl | rfl
          · trivial
          · show absLog L d.mt _ = absLog L d.mt d.log
            apply absLog_filter_keep
            intro r hr
            simp only [LogParams.live, Bool.and_eq_true] at hr
            exact hr.1
          · show absLog L d.mt (liveRecs L d.mt d.log) = absLog L d.mt d.log
            exact absLog_filter_keep L d.mt d.log _ (fun r hr => hr))
      have h1' : absOf P (applyEffs (applyEffs d (redoEffs P w)) t) = absNew P d d.mt w := h1
      simp only [absOfL, h1', h0, h2.1, h2.2]
  · rw [heq] at hp
    exact (recovery_idempotent P L d hfun p hp _ ⟨_, List.Sublist.refl _, rfl⟩).1

end real

/-! ## A tiny concrete instance -/
namespace Toy

structure TMeta where
  seqn : Nat
  root : Nat
  startLive : Nat
  endLive : Nat

/-- the tree is the content of the root page of `ln`; a WAL record is (seqn, diffs); a log record is its id -/
def P : Params Nat TMeta (Nat × List (Nat × Nat)) Nat where
  reach m f pn := f = File.fLn ∧ pn = m.root
  absTree m p := p File.fLn m.root
  frame := by intro m p p' h; exact h _ _ ⟨rfl, rfl⟩
  reach_tree := by intro m f pn h; exact Or.inl h.1
  seqn m := m.seqn
  walSeqn w := w.1
  walDiffs w := w.2

def L : LogParams TMeta Nat := { recId := id, startLive := (·.startLive), endLive := (·.endLive), maxLen := 2 }

abbrev D := Disk Nat TMeta (Nat × List (Nat × Nat)) Nat
abbrev E := Ev Nat TMeta (Nat × List (Nat × Nat)) Nat

/-- old state: root page 1, sequence number 1, no WAL, rollback records 1 and 2 live -/
def d0 : D := { pages := fun _ _ => 0, mt := ⟨1, 1, 1, 2⟩, wal := none, log := [1, 2] }

def w1 : Nat × List (Nat × Nat) := (2, [(5, 9)])
def m1 : TMeta := ⟨2, 2, 1, 3⟩

/-- commit: append record 3 (+ fsync), write the new root page 2 (+ fsync), write the WAL (+ fsync) -/
def pre : List E :=
  [.eff (.logSet [1, 2, 3]), .fsync .fLog, .eff (.page .fLn 2 7), .fsync .fLn, .eff (.walSet (some w1)), .fsync .fWal]

/-- after the meta: prune the lagging oldest record (`maxLen = 2`), write the table, fsync, collapse the WAL -/
def post : List E :=
  [.eff (.logSet [2, 3]), .eff (.page .fHt 5 9), .fsync .fHt, .eff (.walSet none), .fsync .fLog]

theorem hinert : ∀ b, htView P d0 b = d0.pages File.fHt b := fun _ => rfl

theorem hpre : ∀ ev ∈ pre, EvPreL P L d0 ev := by
  intro ev hev
  simp only [pre, List.mem_cons, List.mem_nil_iff, or_false] at hev
  rcases hev with rfl | rfl | rfl | rfl | rfl | rfl
  · show absLog L d0.mt [1, 2, 3] = absLog L d0.mt d0.log
    decide
  · trivial
  · exact ⟨Or.inl rfl, fun h => absurd h.2 (by decide)⟩
  · trivial
  · show (2 : Nat) ≠ 1
    decide
  · trivial

theorem hflushed : (run ⟨d0, []⟩ pre).vol = [] := by decide
theorem hwal : (run ⟨d0, []⟩ pre).dur.wal = some w1 := rfl
theorem hseq : P.walSeqn w1 = P.seqn m1 := rfl

theorem hpost : PostOKL P L (run ⟨d0, []⟩ pre).dur m1 w1
    ⟨applyEff (run ⟨d0, []⟩ pre).dur (.setMeta m1), []⟩ post := by
  refine ⟨?_, ⟨rfl, rfl⟩, trivial, ?_, trivial, trivial⟩
  · show absLog L m1 [2, 3] = absLog L m1 [1, 2, 3]
    decide
  · show FullHt P w1 _
    intro b c h
    simp only [P, w1, lookupD] at h
    by_cases hb : 5 = b
    · subst hb; simp at h; subst h; rfl
    · simp [hb] at h

/-- old and new state differ in every component -/
theorem old_ne_new : absOfL P L d0 ≠ (absNew P (run ⟨d0, []⟩ pre).dur m1 w1, absLog L m1 (run ⟨d0, []⟩ pre).dur.log) := by
  intro h
  have := congrArg Prod.snd h
  revert this
  show absLog L d0.mt [1, 2] = absLog L m1 [1, 2, 3] → False
  decide

/-- the same old state while the previous sync's WAL (sequence number 1, already applied) is still on disk and its
truncation is issued but not yet fsynced -/
def d0p : D := { d0 with wal := some (1, []) }
def vol0 : List (Eff Nat TMeta (Nat × List (Nat × Nat)) Nat) := [.walSet none]

theorem hinertp : ∀ b, htView P d0p b = d0p.pages File.fHt b := fun _ => rfl
theorem hvol0 : ∀ e ∈ vol0, e = Eff.walSet none := by intro e he; simpa [vol0] using he

theorem hprep : ∀ ev ∈ pre, EvA (AllowedPreL' P L d0p) ev := by
  intro ev hev
  simp only [pre, List.mem_cons, List.mem_nil_iff, or_false] at hev
  rcases hev with rfl | rfl | rfl | rfl | rfl | rfl
  · show absLog L d0p.mt [1, 2, 3] = absLog L d0p.mt d0p.log
    decide
  · trivial
  · exact ⟨Or.inl rfl, fun h => absurd h.2 (by decide)⟩
  · trivial
  · show (2 : Nat) ≠ 1
    decide
  · trivial

theorem hflushedp : (run ⟨d0p, vol0⟩ pre).vol = [] := by decide
theorem hwalp : (run ⟨d0p, vol0⟩ pre).dur.wal = some w1 := rfl

theorem hpostp : PostOKL P L (run ⟨d0p, vol0⟩ pre).dur m1 w1
    ⟨applyEff (run ⟨d0p, vol0⟩ pre).dur (.setMeta m1), []⟩ post := by
  refine ⟨?_, ⟨rfl, rfl⟩, trivial, ?_, trivial, trivial⟩
  · show absLog L m1 [2, 3] = absLog L m1 [1, 2, 3]
    decide
  · show FullHt P w1 _
    intro b c h
    simp only [P, w1, lookupD] at h
    by_cases hb : 5 = b
    · subst hb; simp at h; subst h; rfl
    · simp [hb] at h

/-- an image in need of recovery: meta of the new state, WAL with the same sequence number, table not yet written,
a tail record 4 beyond the live range and the lagging record 1 -/
def dR : D := { pages := fun _ _ => 0, mt := m1, wal := some w1, log := [1, 2, 3, 4] }

theorem dR_walFun : WalFun P dR := by
  intro w hw b c hbc
  have : w = w1 := by injection hw with hw; exact hw.symm
  subst this
  simp only [P, w1, List.mem_singleton, Prod.mk.injEq] at hbc
  obtain ⟨rfl, rfl⟩ := hbc
  rfl

/-- recovery really has something to do on `dR` -/
theorem dR_trace : recoverTrace P L dR =
    [.eff (.page .fHt 5 9), .fsync .fHt, .eff (.walSet none), .fsync .fWal,
     .eff (.logSet [1, 2, 3, 4]), .eff (.logSet [1, 2, 3]), .fsync .fLog] := by
  rfl

/-- **the missing table fsync**: interrupt the code's recovery order right after the WAL truncation became durable
and lose the (un-synced) table write: the table view is no longer the one of `dR` -/
theorem toy_real_recovery_loses_table :
    ∃ p img, p <+: recoverTraceReal P L dR ∧ IsImage (run ⟨dR, []⟩ p) img ∧ absOfL P L img ≠ absOfL P L dR := by
  refine ⟨[.eff (.page .fHt 5 9), .eff (.walSet none), .fsync .fWal], applyEffs dR [.walSet none], ?_, ?_, ?_⟩
  · exact ⟨[.eff (.logSet [1, 2, 3, 4]), .eff (.logSet [1, 2, 3]), .fsync .fLog], rfl⟩
  · exact ⟨[], List.nil_sublist _, rfl⟩
  · intro h
    have h1 := congrArg (fun x => x.1.2 5) h
    revert h1
    show (0 : Nat) = 9 → False
    decide

end Toy
end NomtDisk
