import NomtModel.Store.WalBytes
import NomtModel.Core.Outcome
/-!
Mirror of `nomt/src/page_diff.rs` (`PageDiff`): two `u64` words, bit `i` of word `i / 64` = "slot `i` of the page
changed" (126 slots), bit 63 of word 1 = `CLEAR_BIT` ("the page was cleared"), bit 62 of word 1 reserved.

Every function follows the Rust: the same masks, `FastIterOnes` (lowest set bit first, then the bit is erased),
`assert`s and slice bounds as explicit `Outcome.panic`.  The specification functions (`changed`, `ones`, `popCount`)
are stated with `Nat.testBit`; `Store/PageDiffLemmas.lean` proves mirror = specification.
-/
namespace Nomt.Wal

def NODES_PER_PAGE : Nat := 126
def NODE_SIZE : Nat := 32
def CLEAR_BIT : Nat := 2 ^ 63
def U64_MAX : Nat := 2 ^ 64 - 1

/-- errors of the WAL reader / of recovery (`anyhow` messages of `bitbox/wal/read.rs`, `bitbox/mod.rs`) -/
inductive WalErr where
  /-- "WAL file size is not a multiple of the page size" -/
  | fileSize
  /-- "Unexpected end of WAL file" -/
  | eof
  /-- "unexpected WAL entry tag at start: {tag}" -/
  | badStart (tag : Nat)
  /-- "unknown WAL entry tag: {tag}" -/
  | badTag (tag : Nat)
  /-- "Invalid page diff" -/
  | badDiff
  /-- "mismatched number of changed nodes" (`recover`) -/
  | countMismatch
  /-- `read_page` beyond the end of the hash-table file (`recover`) -/
  | htEof
deriving DecidableEq, Repr

abbrev Out (α : Type) := Outcome WalErr α

structure PageDiff where
  w0 : Nat
  w1 : Nat
deriving DecidableEq, Repr, Inhabited

namespace PageDiff

/-- both words are `u64` -/
def WF (d : PageDiff) : Prop := d.w0 < 2 ^ 64 ∧ d.w1 < 2 ^ 64

instance (d : PageDiff) : Decidable d.WF := by unfold WF; infer_instance

/-- `PageDiff::default()` -/
def empty : PageDiff := ⟨0, 0⟩

/-! ### specification vocabulary -/

/-- SPEC: bit `slot` of the 128-bit map (slot < 128) -/
def changed (d : PageDiff) (slot : Nat) : Bool :=
  if slot < 64 then d.w0.testBit slot else d.w1.testBit (slot - 64)

/-- SPEC: `u64::count_ones` -/
def popCount (w : Nat) : Nat := ((List.range 64).filter (fun i => w.testBit i)).length

/-- SPEC: the set bits of the map in ascending order -/
def ones (d : PageDiff) : List Nat := (List.range 128).filter d.changed

/-- SPEC: `u64::trailing_zeros` (64 for a word without set bit) -/
def tzLoop : (fuel i : Nat) → Nat → Nat
  | 0, i, _ => i
  | f + 1, i, w => if w.testBit i then i else tzLoop f (i + 1) w

def trailingZeros (w : Nat) : Nat := tzLoop 64 0 w

/-! ### mirror -/

/-- `changed_nodes[word]`: `None` = index out of bounds (panic) -/
def word (d : PageDiff) : Nat → Option Nat
  | 0 => some d.w0
  | 1 => some d.w1
  | _ => none

/-- `PageDiff::changed` as written: `changed_nodes[word] & mask == mask` -/
def changedM (d : PageDiff) (slot : Nat) : Out Bool :=
  match d.word (slot / 64) with
  | none => .panic "changed: changed_nodes[word]"
  | some w => let mask := 2 ^ (slot % 64); .ok (w &&& mask == mask)

/-- `PageDiff::set_changed` -/
def setChanged (d : PageDiff) (slot : Nat) : Out PageDiff :=
  if ¬ slot < NODES_PER_PAGE then .panic "set_changed: assert!(slot_index < NODES_PER_PAGE)" else
  let mask := 2 ^ (slot % 64)
  let d1 : PageDiff := if slot / 64 = 0 then { d with w0 := d.w0 ||| mask } else { d with w1 := d.w1 ||| mask }
  .ok { d1 with w1 := d1.w1 &&& (U64_MAX - CLEAR_BIT) }

/-- `PageDiff::set_cleared` -/
def setCleared (d : PageDiff) : PageDiff := { d with w1 := d.w1 ||| CLEAR_BIT }

/-- `PageDiff::cleared` -/
def cleared (d : PageDiff) : Bool := d.w1 &&& CLEAR_BIT == CLEAR_BIT

/-- `PageDiff::count` -/
def count (d : PageDiff) : Nat := popCount d.w0 + popCount d.w1

/-- `PageDiff::join` -/
def join (a b : PageDiff) : PageDiff := ⟨a.w0 ||| b.w0, a.w1 ||| b.w1⟩

/-- `PageDiff::as_bytes` -/
def asBytes (d : PageDiff) : Bytes := leBytes 8 d.w0 ++ leBytes 8 d.w1

/-- `PageDiff::from_bytes` on a `[u8; 16]`: `none` if bit 126 or bit 127 is set -/
def fromBytes (b : Bytes) : Option PageDiff :=
  let d : PageDiff := ⟨leNat (slice b 0 8), leNat (slice b 8 8)⟩
  if d.changed 126 || d.changed 127 then none else some d

/-- `FastIterOnes`: `next` = lowest set bit, which is then erased (`self.0 &= !(1 << x)`) -/
def fastIterOnes : (fuel : Nat) → Nat → List Nat
  | 0, _ => []
  | f + 1, w =>
    let x := trailingZeros w
    if x = 64 then [] else x :: fastIterOnes f (w &&& (U64_MAX - 2 ^ x))

/-- `PageDiff::iter_ones` (asserts that the diff is not cleared) -/
def iterOnes (d : PageDiff) : Out (List Nat) :=
  if d.w1 &&& CLEAR_BIT ≠ 0 then .panic "assert_not_cleared" else
  .ok (fastIterOnes 65 d.w0 ++ (fastIterOnes 65 d.w1).map (· + 64))

def packLoop (page : Bytes) : List Nat → Out (List Bytes)
  | [] => .ok []
  | i :: is =>
    if i * 32 + 32 > page.length then .panic "pack_changed_nodes: page[start..end]" else
    match packLoop page is with
    | .ok r => .ok (slice page (i * 32) 32 :: r)
    | o => o

/-- `PageDiff::pack_changed_nodes` (the iterator, collected) -/
def pack (d : PageDiff) (page : Bytes) : Out (List Bytes) :=
  if d.w1 &&& CLEAR_BIT ≠ 0 then .panic "assert_not_cleared" else
  match d.iterOnes with
  | .ok is => packLoop page is
  | .err e => .err e
  | .panic s => .panic s

/-- the `for (node_index, node) in iter_ones().zip(nodes)` loop of `unpack_changed_nodes` -/
def unpackLoop : List Nat → List Bytes → Bytes → Out Bytes
  | i :: is, n :: ns, page =>
    if i * 32 + 32 > page.length then .panic "unpack_changed_nodes: page[start..end]" else
    unpackLoop is ns (writeAt page (i * 32) n)
  | _, _, page => .ok page

/-- `PageDiff::unpack_changed_nodes` -/
def unpack (d : PageDiff) (nodes : List Bytes) (page : Bytes) : Out Bytes :=
  if d.count ≠ nodes.length then .panic "unpack_changed_nodes: assert_eq!(count, nodes.len())" else
  match d.iterOnes with
  | .ok is => unpackLoop is nodes page
  | .err e => .err e
  | .panic s => .panic s

end PageDiff
end Nomt.Wal
