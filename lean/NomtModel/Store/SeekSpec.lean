import NomtModel.Store.SeekRecon
import NomtModel.Store.SeekRange
import NomtModel.Core.Complete
import NomtModel.Core.Sorted
import NomtModel.Core.BitsLemmas
import NomtModel.Core.VUpdate
import NomtModel.Api.OvlIndex
/-!
# The specification side of the seek: the reference trie along one key

`under bs view` = the entries of the view below the bit path `bs`; `specNode H view bs` = the reference node there.
Walking down the key `k` through internal nodes, the specified proof `proveSpec` (`Core/Complete.lean`) unrolls into
"the siblings passed so far, then the specified proof of the rest" (`proveAux_unroll`) — the loop invariant of
`continue_seek`.
-/
namespace Nomt.Seek
open Nomt Nomt.Ovl Nomt.TriePos

variable {Node VH : Type} [DecidableEq Node] [DecidableEq VH] (H : Hasher Node VH)

theorem under_nil (s : List (Key × VH)) : under [] s = s := rfl

theorem under_snoc (bs : List Bool) (b : Bool) (s : List (Key × VH)) :
    under (bs ++ [b]) s = side bs.length b (under bs s) := by
  unfold under
  rw [restrict_append, Nat.zero_add]

theorem restrict_eq_filter : ∀ (path : List Bool) (d : Nat) (s : List (Key × VH)),
    (∀ kv ∈ s, d + path.length ≤ kv.1.length) →
    restrict d path s = s.filter (fun kv => path.isPrefixOf (kv.1.drop d)) := by
  intro path
  induction path with
  | nil =>
    intro d s _
    simp only [restrict, List.isPrefixOf]
    exact (List.filter_eq_self.2 (fun _ _ => rfl)).symm
  | cons b ps ih =>
    intro d s hl
    simp only [restrict]
    rw [ih (d + 1) (side d b s) (by
      intro kv hkv
      have := hl kv (List.mem_filter.1 hkv).1
      simp only [List.length_cons] at this
      omega)]
    unfold side
    rw [List.filter_filter]
    apply List.filter_congr
    intro kv hkv
    have hlen := hl kv hkv
    simp only [List.length_cons] at hlen
    have hd : d < kv.1.length := by omega
    rw [List.drop_eq_getElem_cons hd]
    simp only [List.isPrefixOf, List.getD, List.getElem?_eq_getElem hd, Option.getD_some]
    rw [Bool.and_comm]
    congr 1
    cases kv.1[d] <;> cases b <;> rfl

theorem under_eq_filter (bs : List Bool) (s : List (Key × VH)) (hl : ∀ kv ∈ s, bs.length ≤ kv.1.length) :
    under bs s = s.filter (fun kv => bs.isPrefixOf kv.1) := by
  unfold under
  rw [restrict_eq_filter bs 0 s (by intro kv hkv; have := hl kv hkv; omega)]
  simp

theorem canon_under {view : List (Key × VH)} (hc : Canon KEY_BITS 0 view) (bs : List Bool) (hb : bs.length ≤ KEY_BITS) :
    Canon (KEY_BITS - bs.length) bs.length (under bs view) := by
  have := Canon_restrict bs (KEY_BITS - bs.length) 0 view (by
    have e : KEY_BITS - bs.length + bs.length = KEY_BITS := by omega
    rw [e]; exact hc)
  rw [Nat.zero_add] at this
  exact this

/-- the three shapes of the reference trie at a bit path -/
theorem specNode_cases {view : List (Key × VH)} (hc : Canon KEY_BITS 0 view) (bs : List Bool) (hb : bs.length ≤ KEY_BITS) :
    (under bs view = [] ∧ specNode H view bs = H.term) ∨
    (∃ k v, under bs view = [(k, v)] ∧ specNode H view bs = H.leaf k v) ∨
    (2 ≤ (under bs view).length ∧ bs.length < KEY_BITS ∧
      specNode H view bs = H.internal (specNode H view (bs ++ [false])) (specNode H view (bs ++ [true]))) := by
  have hcu := canon_under hc bs hb
  unfold specNode
  match hu : under bs view, hcu with
  | [], _ => left; exact ⟨rfl, nodeAt_nil H _ _⟩
  | [(k, v)], _ => right; left; exact ⟨k, v, rfl, nodeAt_single H _ _ _⟩
  | a :: b :: rest, hcu =>
    right; right
    have hlt : bs.length < KEY_BITS := by
      by_cases h : bs.length < KEY_BITS
      · exact h
      · have : KEY_BITS - bs.length = 0 := by omega
        rw [this] at hcu
        simp [Canon] at hcu
    refine ⟨by simp, hlt, ?_⟩
    obtain ⟨f, hf⟩ : ∃ f, KEY_BITS - bs.length = f + 1 := ⟨KEY_BITS - bs.length - 1, by omega⟩
    rw [hf, nodeAt_two]
    have hl1 : ∀ x, (bs ++ [x]).length = bs.length + 1 := by intro x; simp
    have hf' : KEY_BITS - (bs.length + 1) = f := by omega
    rw [under_snoc, under_snoc, hu, hl1, hl1, hf']

variable {H}

theorem kind_leaf_under (hs : H.Sound) {view : List (Key × VH)} (hc : Canon KEY_BITS 0 view) (bs : List Bool)
    (hb : bs.length ≤ KEY_BITS) (h : H.kind (specNode H view bs) = .leaf) : ∃ k v, under bs view = [(k, v)] := by
  rcases specNode_cases H hc bs hb with ⟨_, e⟩ | ⟨k, v, hu, _⟩ | ⟨_, _, e⟩
  · rw [e, hs.kind_term] at h; cases h
  · exact ⟨k, v, hu⟩
  · rw [e, hs.kind_internal] at h; cases h

theorem kind_term_under (hs : H.Sound) {view : List (Key × VH)} (hc : Canon KEY_BITS 0 view) (bs : List Bool)
    (hb : bs.length ≤ KEY_BITS) (h : H.kind (specNode H view bs) = .terminator) : under bs view = [] := by
  rcases specNode_cases H hc bs hb with ⟨hu, _⟩ | ⟨k, v, _, e⟩ | ⟨_, _, e⟩
  · exact hu
  · rw [e, hs.kind_leaf] at h; cases h
  · rw [e, hs.kind_internal] at h; cases h

theorem kind_internal_under (hs : H.Sound) {view : List (Key × VH)} (hc : Canon KEY_BITS 0 view) (bs : List Bool)
    (hb : bs.length ≤ KEY_BITS) (h1 : H.kind (specNode H view bs) ≠ .leaf) (h2 : H.kind (specNode H view bs) ≠ .terminator) :
    2 ≤ (under bs view).length ∧ bs.length < KEY_BITS := by
  rcases specNode_cases H hc bs hb with ⟨_, e⟩ | ⟨k, v, _, e⟩ | ⟨h, hl, _⟩
  · rw [e, hs.kind_term] at h2; exact absurd rfl h2
  · rw [e, hs.kind_leaf] at h1; exact absurd rfl h1
  · exact ⟨h, hl⟩

theorem kind_of_two (hs : H.Sound) {view : List (Key × VH)} (hc : Canon KEY_BITS 0 view) (bs : List Bool)
    (hb : bs.length ≤ KEY_BITS) (h : 2 ≤ (under bs view).length) : H.kind (specNode H view bs) = .internal := by
  rcases specNode_cases H hc bs hb with ⟨hu, _⟩ | ⟨k, v, hu, _⟩ | ⟨_, _, e⟩
  · rw [hu] at h; simp at h
  · rw [hu] at h; simp at h
  · rw [e, hs.kind_internal]

variable (H)

/-- the siblings the specified proof of `k` passes above depth `d` -/
def specSibs (view : List (Key × VH)) (k : Key) (d : Nat) : List Node :=
  (List.range d).map (fun j => specNode H view (k.take j ++ [!(k.getD j false)]))

theorem specSibs_succ (view : List (Key × VH)) (k : Key) (d : Nat) :
    specSibs H view k (d + 1) = specSibs H view k d ++ [specNode H view (k.take d ++ [!(k.getD d false)])] := by
  unfold specSibs
  rw [List.range_succ, List.map_append]
  rfl

/-- one step of the specified proof through an internal node -/
theorem proveAux_step (view : List (Key × VH)) (k : Key) (d : Nat) (hk : k.length = KEY_BITS) (hd : d < KEY_BITS)
    (h2 : 2 ≤ (under (k.take d) view).length) :
    proveAux H (KEY_BITS - d) d (under (k.take d) view) k =
      ((proveAux H (KEY_BITS - (d + 1)) (d + 1) (under (k.take (d + 1)) view) k).1,
        specNode H view (k.take d ++ [!(k.getD d false)]) ::
          (proveAux H (KEY_BITS - (d + 1)) (d + 1) (under (k.take (d + 1)) view) k).2) := by
  obtain ⟨f, hf⟩ : ∃ f, KEY_BITS - d = f + 1 := ⟨KEY_BITS - d - 1, by omega⟩
  have hf' : KEY_BITS - (d + 1) = f := by omega
  have htl : (k.take d).length = d := by rw [List.length_take]; omega
  have hsucc : k.take (d + 1) = k.take d ++ [k.getD d false] := take_succ_of_getD k d (by omega)
  match hu : under (k.take d) view, h2 with
  | a :: b :: rest, _ =>
    rw [hf, hf']
    simp only [proveAux]
    have e1 : under (k.take (d + 1)) view = side d (k.getD d false) (a :: b :: rest) := by
      rw [hsucc, under_snoc, htl, hu]
    have e2 : specNode H view (k.take d ++ [!(k.getD d false)]) =
        nodeAt H f (d + 1) (side d (!(k.getD d false)) (a :: b :: rest)) := by
      unfold specNode
      rw [under_snoc, htl, hu, List.length_append, htl, List.length_singleton, hf']
    rw [e1, e2]

/-- **the loop invariant of the descent**: after `d` internal nodes the specified proof is the siblings passed so
far followed by the specified proof of the sub-trie reached -/
theorem proveAux_unroll (view : List (Key × VH)) (k : Key) (hk : k.length = KEY_BITS) : ∀ (d : Nat), d ≤ KEY_BITS →
    (∀ j, j < d → 2 ≤ (under (k.take j) view).length) →
    proveAux H KEY_BITS 0 view k =
      ((proveAux H (KEY_BITS - d) d (under (k.take d) view) k).1,
        specSibs H view k d ++ (proveAux H (KEY_BITS - d) d (under (k.take d) view) k).2) := by
  intro d
  induction d with
  | zero => intro _ _; simp [specSibs, under_nil]
  | succ d ih =>
    intro hd h2
    rw [ih (by omega) (fun j hj => h2 j (by omega)), proveAux_step H view k d hk (by omega) (h2 d (by omega)),
      specSibs_succ]
    simp

/-- the specified proof once the descent has reached a leaf -/
theorem proveSpec_at_leaf (view : List (Key × VH)) (k : Key) (hk : k.length = KEY_BITS) (d : Nat) (hd : d ≤ KEY_BITS)
    (h2 : ∀ j, j < d → 2 ≤ (under (k.take j) view).length) (k0 : Key) (v0 : VH)
    (hu : under (k.take d) view = [(k0, v0)]) :
    proveSpec H KEY_BITS view k = { terminal := .leaf k0 v0, siblings := specSibs H view k d } := by
  unfold proveSpec
  rw [proveAux_unroll H view k hk d hd h2, hu]
  cases KEY_BITS - d <;> simp [proveAux]

/-- the specified proof once the descent has reached a terminator -/
theorem proveSpec_at_term (view : List (Key × VH)) (k : Key) (hk : k.length = KEY_BITS) (d : Nat) (hd : d ≤ KEY_BITS)
    (h2 : ∀ j, j < d → 2 ≤ (under (k.take j) view).length) (hu : under (k.take d) view = []) :
    proveSpec H KEY_BITS view k = { terminal := .terminator (k.take d), siblings := specSibs H view k d } := by
  unfold proveSpec
  rw [proveAux_unroll H view k hk d hd h2, hu]
  cases KEY_BITS - d <;> simp [proveAux]

end Nomt.Seek
