import NomtModel.Store.FrameWrite
import NomtModel.Store.Crash3
/-!
# The concrete decoder as an instance of the abstract crash theorem's `Params`

`Store/Crash.lean` proves the crash / power-loss theorems for any `Params` (`reach`, `absTree` with the frame property).  Here:

* `Content` := a page (`ByteArray`), files are page functions; `fileOfPages q n` rebuilds a file of `n` pages from a page function.
* `MetaRec` := `RealMeta`: the meta page, the read sets of `ln` / `bbn` (what the walk of the old image marks), the lengths.
* `realParams.reach` := the read set; `realParams.absTree mr p` := `absImage` of the image rebuilt from `mr`'s meta page and the
  pages of `p` IN the read set (zero pages elsewhere) — the frame field is then immediate.
* `absTree_real`: on every page function that agrees with the accepted image `A` on the read set, `absTree` IS `absImage A` (by the
  frame property of the real decoder, `frame_main`) — so the abstraction the crash theorem talks about is the real decoder's.
* `placement_evPre_real`: `checkPlacement A tr = ok` ⇒ every pre-switch-over event of the real trace abstracts to an `EvPre` event of
  `realParams` — hypothesis `hpre` of `sync_crash_atomic` for the concrete decoder.
-/
namespace Nomt.Store
open NomtDisk

def normPage (c : ByteArray) : ByteArray := if c.size = PAGE then c else zeros PAGE

theorem size_normPage (c : ByteArray) : (normPage c).size = PAGE := by
  unfold normPage
  by_cases h : c.size = PAGE
  · rw [if_pos h]; exact h
  · rw [if_neg h]; exact size_zeros _

theorem normPage_of_size {c : ByteArray} (h : c.size = PAGE) : normPage c = c := by
  unfold normPage; rw [if_pos h]

def fileOfPages (q : Nat → ByteArray) : Nat → ByteArray
  | 0 => ByteArray.empty
  | n + 1 => fileOfPages q n ++ normPage (q n)

theorem size_fileOfPages (q : Nat → ByteArray) : ∀ n, (fileOfPages q n).size = n * PAGE := by
  intro n
  induction n with
  | zero => simp [fileOfPages]
  | succ n ih => rw [fileOfPages, ByteArray.size_append, ih, size_normPage, succ_mul_page]

theorem pageOf_fileOfPages (q : Nat → ByteArray) : ∀ n i, i < n → pageOf (fileOfPages q n) i = some (normPage (q i)) := by
  intro n
  induction n with
  | zero => intro i h; cases h
  | succ n ih =>
    intro i hi
    have hsz : (i + 1) * PAGE ≤ (fileOfPages q (n + 1)).size := by
      rw [size_fileOfPages]; exact Nat.mul_le_mul_right _ hi
    rw [pageOf_some hsz]
    congr 1
    rw [fileOfPages]
    by_cases hlt : i < n
    · have hle : (i + 1) * PAGE ≤ (fileOfPages q n).size := by rw [size_fileOfPages]; exact Nat.mul_le_mul_right _ hlt
      rw [extract_append_left' hle]
      have := ih i hlt
      rw [pageOf_some hle] at this
      injection this
    · have hin : i = n := by omega
      subst hin
      rw [extract_append_right' (by rw [size_fileOfPages]; exact Nat.le_refl _), size_fileOfPages, Nat.sub_self, succ_mul_page,
        Nat.add_sub_cancel_left]
      have := @ByteArray.extract_zero_size (normPage (q i))
      rw [size_normPage] at this
      exact this

theorem size_of_pageOf {f : ByteArray} {q : Nat} {pg : ByteArray} (h : pageOf f q = some pg) : pg.size = PAGE := by
  obtain ⟨hs, rfl⟩ := pageOf_eq_some h
  rw [ByteArray.size_extract, succ_mul_page]
  have := succ_mul_page q
  omega

/-- the meta record of the abstract disk: the meta page and what the walk of the old image read -/
structure RealMeta where
  metaF : ByteArray
  lnN : Nat
  bbnN : Nat
  lnR : Nat → Bool
  bbnR : Nat → Bool
  seqn : Nat

def realReach (mr : RealMeta) (f : File) (pn : Nat) : Prop :=
  (f = File.fLn ∧ mr.lnR pn = true) ∨ (f = File.fBbn ∧ mr.bbnR pn = true)

/-- the image recovery decodes: the meta page and the pages of the read set; everything else is irrelevant (zero pages) -/
def rebuild (mr : RealMeta) (p : File → Nat → ByteArray) : Image :=
  { metaF := mr.metaF,
    ln := fileOfPages (fun i => if mr.lnR i = true then p File.fLn i else zeros PAGE) mr.lnN,
    bbn := fileOfPages (fun i => if mr.bbnR i = true then p File.fBbn i else zeros PAGE) mr.bbnN,
    ht := ByteArray.empty, wal := ByteArray.empty, segs := [] }

abbrev RealAbs := Except String (List (ByteArray × ByteArray))
abbrev RealWal := Nat × List (Nat × ByteArray)

/-- **the concrete decoder as `Params`** -/
def realParams : Params ByteArray RealMeta RealWal RealAbs where
  reach := realReach
  absTree mr p := absImage (rebuild mr p)
  frame := by
    intro mr p p' h
    have e1 : (fun i => if mr.lnR i = true then p File.fLn i else zeros PAGE) =
        (fun i => if mr.lnR i = true then p' File.fLn i else zeros PAGE) := by
      funext i
      by_cases hr : mr.lnR i = true
      · simp only [hr, if_true]; exact h _ _ (Or.inl ⟨rfl, hr⟩)
      · simp [hr]
    have e2 : (fun i => if mr.bbnR i = true then p File.fBbn i else zeros PAGE) =
        (fun i => if mr.bbnR i = true then p' File.fBbn i else zeros PAGE) := by
      funext i
      by_cases hr : mr.bbnR i = true
      · simp only [hr, if_true]; exact h _ _ (Or.inr ⟨rfl, hr⟩)
      · simp [hr]
    simp only [rebuild, e1, e2]
  reach_tree := by
    intro mr f pn h
    rcases h with h | h
    · exact Or.inl h.1
    · exact Or.inr h.1
  seqn mr := mr.seqn
  walSeqn w := w.1
  walDiffs w := w.2

/-- the meta record of an accepted image: read set of `ln` = page 0 and the pages below the frontier marked 1 / 2 / 3; of `bbn` =
page 0 and the pages below the frontier marked 0 / 1 / 2 / 3 (everything but the free pages) -/
def metaRecOf (A : Image) (m : Meta) (lnM bbnM : Array UInt8) : RealMeta :=
  { metaF := A.metaF, lnN := A.ln.size / PAGE + 1, bbnN := A.bbn.size / PAGE + 1,
    lnR := fun pn => pn == 0 || (decide (pn < m.lnBump) && (lnM[pn]! == 1 || lnM[pn]! == 2 || lnM[pn]! == 3)),
    bbnR := fun pn => pn == 0 || (decide (pn < m.bbnBump) && (bbnM[pn]! == 0 || bbnM[pn]! == 1 || bbnM[pn]! == 2 || bbnM[pn]! == 3)),
    seqn := m.syncSeqn }

/-- the files of an image as page functions -/
def pagesOf (A : Image) : File → Nat → ByteArray
  | .fLn, pn => (pageOf A.ln pn).getD (zeros PAGE)
  | .fBbn, pn => (pageOf A.bbn pn).getD (zeros PAGE)
  | _, _ => zeros PAGE

theorem bbn_marks_values {A : Image} {st : Stats} {lnM bbnM : Array UInt8} (hd : wfDetailM A = .ok (st, lnM, bbnM)) (pn : Nat) :
    bbnM[pn]! = 0 ∨ bbnM[pn]! = 1 ∨ bbnM[pn]! = 3 ∨ bbnM[pn]! = 4 := by
  obtain ⟨P⟩ := wfDetailM_parts hd
  obtain ⟨hsb1, _, _, hbbnch⟩ := claimFreeList_spec P.m.bbnBump "bbn" P.bbnFl _ _ P.hbbnC (by simp)
  obtain ⟨_, _, _, hbrch⟩ := claimAll_spec P.m.bbnBump 1 _ (by decide) _ _ _ P.hbrC hsb1
  rcases hbrch pn with h1 | ⟨_, h1⟩
  · rcases hbbnch pn with h2 | ⟨_, h2 | h2⟩
    · left; rw [h1, h2, get!_replicate_zero]
    · right; right; left; rw [h1, h2]
    · right; right; right; rw [h1, h2]
  · right; left; exact h1

theorem lt_pages {size bump pn : Nat} (hs : bump * PAGE ≤ size) (hlt : pn < bump) : pn < size / PAGE + 1 := by
  have h1 : (pn + 1) * PAGE ≤ bump * PAGE := Nat.mul_le_mul_right _ hlt
  have h2 : pn + 1 ≤ size / PAGE := (Nat.le_div_iff_mul_le (by decide)).2 (Nat.le_trans h1 hs)
  omega

theorem le_pages_mul (size : Nat) : size ≤ (size / PAGE + 1) * PAGE := by
  have hP : PAGE = 4096 := rfl
  rw [hP]; omega

/-- **the abstraction of the crash theorem is the real decoder**: for the meta record of an accepted image `A` and every page
function that agrees with `A` on the read set, `realParams.absTree` is `absImage A` -/
theorem absTree_real {A : Image} {m : Meta} {st : Stats} {lnM bbnM : Array UInt8}
    (hm : imageMeta A = .ok m) (hd : wfDetailM A = .ok (st, lnM, bbnM)) (p : File → Nat → ByteArray)
    (hp : ∀ f pn, realReach (metaRecOf A m lnM bbnM) f pn → p f pn = pagesOf A f pn) :
    realParams.absTree (metaRecOf A m lnM bbnM) p = absImage A := by
  show absImage (rebuild (metaRecOf A m lnM bbnM) p) = absImage A
  obtain ⟨P⟩ := wfDetailM_parts hd
  have hPm : P.m = m := by have := P.hm; rw [hm] at this; injection this with this; exact this.symm
  obtain ⟨hb1, hb2⟩ := imageMeta_bump hm
  have hlnS : m.lnBump * PAGE ≤ A.ln.size := hPm ▸ P.hlnS
  have hbbnS : m.bbnBump * PAGE ≤ A.bbn.size := hPm ▸ P.hbbnS
  have keyLn : ∀ pn, pn < m.lnBump → (metaRecOf A m lnM bbnM).lnR pn = true →
      pageOf (rebuild (metaRecOf A m lnM bbnM) p).ln pn = pageOf A.ln pn := by
    intro pn hlt hr
    obtain ⟨pg, hpg⟩ := pageOf_isSome_of_lt hlnS hlt
    show pageOf (fileOfPages _ (A.ln.size / PAGE + 1)) pn = _
    rw [pageOf_fileOfPages _ _ _ (lt_pages hlnS hlt)]
    simp only [hr, if_true]
    rw [hp _ _ (Or.inl ⟨rfl, hr⟩)]
    show some (normPage ((pageOf A.ln pn).getD (zeros PAGE))) = _
    rw [hpg, Option.getD_some, normPage_of_size (size_of_pageOf hpg)]
  have keyBbn : ∀ pn, pn < m.bbnBump → (metaRecOf A m lnM bbnM).bbnR pn = true →
      pageOf (rebuild (metaRecOf A m lnM bbnM) p).bbn pn = pageOf A.bbn pn := by
    intro pn hlt hr
    obtain ⟨pg, hpg⟩ := pageOf_isSome_of_lt hbbnS hlt
    show pageOf (fileOfPages _ (A.bbn.size / PAGE + 1)) pn = _
    rw [pageOf_fileOfPages _ _ _ (lt_pages hbbnS hlt)]
    simp only [hr, if_true]
    rw [hp _ _ (Or.inr ⟨rfl, hr⟩)]
    show some (normPage ((pageOf A.bbn pn).getD (zeros PAGE))) = _
    rw [hpg, Option.getD_some, normPage_of_size (size_of_pageOf hpg)]
  have hag : ReadAgree A (rebuild (metaRecOf A m lnM bbnM) p) m lnM bbnM := by
    refine ⟨rfl, ?_, ?_, ?_, ?_, ?_, ?_⟩
    · show A.ln.size ≤ (fileOfPages _ (A.ln.size / PAGE + 1)).size
      rw [size_fileOfPages]; exact le_pages_mul _
    · show A.bbn.size ≤ (fileOfPages _ (A.bbn.size / PAGE + 1)).size
      rw [size_fileOfPages]; exact le_pages_mul _
    · exact keyLn 0 (Nat.pos_of_ne_zero hb1) (by simp [metaRecOf])
    · exact keyBbn 0 (Nat.pos_of_ne_zero hb2) (by simp [metaRecOf])
    · intro pn hlt hmk
      apply keyLn pn hlt
      simp only [metaRecOf, Bool.or_eq_true, Bool.and_eq_true, decide_eq_true_eq, beq_iff_eq]
      exact Or.inr ⟨hlt, by rcases hmk with h | h | h <;> simp [h]⟩
    · intro pn hlt hmk
      apply keyBbn pn hlt
      simp only [metaRecOf, Bool.or_eq_true, Bool.and_eq_true, decide_eq_true_eq, beq_iff_eq]
      refine Or.inr ⟨hlt, ?_⟩
      rcases bbn_marks_values hd pn with h | h | h | h
      · simp [h]
      · simp [h]
      · simp [h]
      · exact absurd h hmk
  exact (frame_main hm hd hag).2.1

/-! ## `checkPlacement` accepted ⇒ `EvPre` of `realParams` for every pre-switch-over event -/
section evpre
variable {LogRec : Type}

theorem checkEv_ok_evPre_real {A : Image} {m : Meta} {lnM bbnM : Array UInt8}
    (d0 : Disk ByteArray RealMeta RealWal LogRec) (hmt : d0.mt = metaRecOf A m lnM bbnM)
    (lnS bbnS : Nat) (content : IoEv → ByteArray) (s s' : PlacementStats) (e : IoEv)
    (h : checkEv lnM bbnM m.lnBump m.bbnBump lnS bbnS s e = .ok s')
    (ev : Ev ByteArray RealMeta RealWal LogRec) (hev : absEv content e = some ev) : EvPre realParams d0 ev := by
  unfold absEv at hev
  by_cases hk : e.kind = "Write"
  · rw [if_pos hk] at hev
    by_cases hf : e.file = "ln"
    · rw [if_pos hf] at hev
      injection hev with hev; subst hev
      refine ⟨Or.inl rfl, fun hr => ?_⟩
      obtain ⟨s2, s2', hp⟩ := checkEv_ln_page _ _ _ _ _ _ _ _ e hk hf h
      obtain ⟨q1, q2⟩ := pageCheck_ok_spec _ _ _ _ _ e hp
      have hr' : realReach (metaRecOf A m lnM bbnM) File.fLn (e.offset / PAGE) := hmt ▸ hr
      rcases hr' with ⟨_, hr'⟩ | ⟨hc, _⟩
      · simp only [metaRecOf, Bool.or_eq_true, Bool.and_eq_true, decide_eq_true_eq, beq_iff_eq] at hr'
        rcases hr' with h0 | ⟨hlt, hmk⟩
        · exact q1 h0
        · exact q2 ⟨hlt, by rcases hmk with (h | h) | h <;> simp [h]⟩
      · cases hc
    · rw [if_neg hf] at hev
      by_cases hf2 : e.file = "bbn"
      · rw [if_pos hf2] at hev
        injection hev with hev; subst hev
        refine ⟨Or.inr rfl, fun hr => ?_⟩
        obtain ⟨s2, s2', hp⟩ := checkEv_bbn_page _ _ _ _ _ _ _ _ e hk hf2 h
        obtain ⟨hp1, hp2⟩ := pageCheckBbn_ok _ _ _ _ _ hp
        obtain ⟨q1, q2⟩ := pageCheck_ok_spec _ _ _ _ _ e hp1
        have hr' : realReach (metaRecOf A m lnM bbnM) File.fBbn (e.offset / PAGE) := hmt ▸ hr
        rcases hr' with ⟨hc, _⟩ | ⟨_, hr'⟩
        · cases hc
        · simp only [metaRecOf, Bool.or_eq_true, Bool.and_eq_true, decide_eq_true_eq, beq_iff_eq] at hr'
          rcases hr' with h0 | ⟨hlt, hmk⟩
          · exact q1 h0
          · rcases hmk with ((h | h) | h) | h
            · exact hp2 ⟨q1, hlt, h⟩
            · exact q2 ⟨hlt, Or.inl h⟩
            · exact q2 ⟨hlt, Or.inr (Or.inl h)⟩
            · exact q2 ⟨hlt, Or.inr (Or.inr h)⟩
      · rw [if_neg hf2] at hev
        by_cases hf3 : e.file = "ht"
        · exact (checkEv_ht _ _ _ _ _ _ s s' e hk hf3 h).elim
        · rw [if_neg hf3] at hev; cases hev
  · rw [if_neg hk] at hev
    by_cases hk2 : e.kind = "Fsync"
    · rw [if_pos hk2] at hev
      have : ∃ f, ev = Ev.fsync f := by
        repeat' split at hev
        all_goals first | (injection hev with hev; exact ⟨_, hev.symm⟩) | cases hev
      obtain ⟨f, rfl⟩ := this
      trivial
    · rw [if_neg hk2] at hev; cases hev

/-- **`hpre` of `sync_crash_atomic` for the concrete decoder**: if the monitor accepts the real trace, every pre-switch-over event
abstracts to an `EvPre` event of `realParams` on any disk whose meta record is that of the accepted pre-image. -/
theorem placement_evPre_real {A : Image} {tr : List IoEv} {stP : PlacementStats} (h : checkPlacement A tr = .ok stP)
    {m : Meta} {st : Stats} {lnM bbnM : Array UInt8} (hm : imageMeta A = .ok m) (hd : wfDetailM A = .ok (st, lnM, bbnM))
    (d0 : Disk ByteArray RealMeta RealWal LogRec) (hmt : d0.mt = metaRecOf A m lnM bbnM) (content : IoEv → ByteArray) :
    ∀ ev ∈ (preMeta tr).filterMap (absEv content), EvPre realParams d0 ev := by
  obtain ⟨m', x', lnM', bbnM', hm', hd', hgo⟩ := checkPlacement_ok A tr stP h
  have e1 : m' = m := by rw [hm] at hm'; injection hm' with h'; exact h'.symm
  have e2 : lnM' = lnM ∧ bbnM' = bbnM := by
    rw [hd] at hd'; injection hd' with h'
    simp only [Prod.mk.injEq] at h'
    exact ⟨h'.2.1.symm, h'.2.2.symm⟩
  obtain ⟨rfl, rfl⟩ := e2
  subst e1
  intro ev hev
  obtain ⟨e, he, hab⟩ := List.mem_filterMap.mp hev
  obtain ⟨s, s', hc⟩ := go_ok_checkEv A m' lnM' bbnM' tr {} stP hgo e he
  exact checkEv_ok_evPre_real d0 hmt _ _ content s s' e hc ev hab

end evpre

end Nomt.Store
