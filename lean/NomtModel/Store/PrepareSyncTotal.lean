import NomtModel.Store.PrepareSyncMain
import NomtModel.Store.WalBuilderTotal
/-!
# `prepare_sync` reaches no panic site under the caller contract; `BucketExhaustion` exactly when an allocation fails

`step_progress`: one iteration on a page whose bucket information is truthful either succeeds or returns
`BucketExhaustion` — the latter exactly when the page needs a bucket and `allocate_bucket` finds none.
`loop_progress`: the same for the whole loop, with the index of the failing page.
-/
namespace Nomt.PrepSync
open Nomt Nomt.Wal Nomt.Store Nomt.Store.Probe Nomt.Wal.Builder

/-- the number of bytes `write_clear` / `write_update` append for the page (independent of the bucket) -/
def encLen (d : Dirty) : Nat := (encEntry (entryOf d 0)).length

theorem encEntry_entryOf_length (d : Dirty) (b : Nat) : (encEntry (entryOf d b)).length = encLen d := by
  unfold encLen entryOf
  split <;> simp [encEntry]

theorem writeEntry_total {w : Builder} {e : Entry} (hs : SizeInv w.size) (hlt : w.cur + (encEntry e).length < MAX_SIZE) :
    ∃ w', w.writeEntry e = .ok w' ∧ SizeInv w'.size ∧ w'.cur = w.cur + (encEntry e).length := by
  rw [writeEntry_eq]
  obtain ⟨w', h1, h2⟩ := writeMany_total (cs := entryChunks e) (b := w) hs (by rw [entryChunks_flatten]; exact hlt)
  obtain ⟨_, h3⟩ := writeMany_ok h1
  rw [entryChunks_flatten] at h3
  exact ⟨w', h1, h2, h3⟩

theorem resolve_progress {hash : Bytes → Nat} {mm : MetaMap} {d : Dirty} (P : List Bytes) (hok : mm.Ok)
    (hpid : d.pid.length = 32) (hc : d.diff.cleared = false) (hag : AgreesAt (hashN hash) (viewOf mm P) d) :
    (∃ chg b mm1, resolve hash mm d = .ok (chg, b, mm1) ∧ b < mm.buckets ∧ mm1.bitvec.length = mm.bitvec.length) ∨
    (resolve hash mm d = .err (.bucketExhaustion mm) ∧ needsAlloc d ∧
      alloc (hashN hash) ALLOC_ATTEMPTS (viewOf mm P) (pidN d.pid) = none) := by
  have hn : 0 < (viewOf mm P).n := by rw [viewOf_n hok]; exact hok.pos
  have hnV := viewOf_n hok P
  have hhN : hashN hash (pidN d.pid) = hash d.pid := hashN_pidN hash hpid
  have hsl : mm.slots.length = mm.buckets := MetaMap.slots_length hok
  have fresh : (d.bucket = .fresh ∨ d.bucket = .depUnset) →
      (match allocateBucket hash mm d.pid with
        | .ok (some (b, mm')) => (.ok (true, b, mm') : POut (Bool × Nat × MetaMap))
        | .ok none => .err (.bucketExhaustion mm)
        | .err e => .err e
        | .panic s => .panic s) = resolve hash mm d →
      ((∃ chg b mm1, resolve hash mm d = .ok (chg, b, mm1) ∧ b < mm.buckets ∧ mm1.bitvec.length = mm.bitvec.length) ∨
      (resolve hash mm d = .err (.bucketExhaustion mm) ∧ needsAlloc d ∧
        alloc (hashN hash) ALLOC_ATTEMPTS (viewOf mm P) (pidN d.pid) = none)) := by
    intro hbk hres
    rw [← hres]
    unfold allocateBucket
    have h0 : ¬ mm.buckets = 0 := by have := hok.pos; omega
    simp only [h0, if_false]
    have hloop := allocLoop_new_eq mm.slots ALLOC_ATTEMPTS (hash d.pid) (2 * mm.buckets + 2) (by rw [hsl]; omega)
    rw [hsl] at hloop
    rw [hloop]
    have hal : alloc (hashN hash) ALLOC_ATTEMPTS (viewOf mm P) (pidN d.pid) =
        allocTop mm.slots ALLOC_ATTEMPTS (hash d.pid) (2 * mm.buckets + 1) 0 0 := by
      unfold alloc
      rw [hhN]
      show allocTop mm.slots ALLOC_ATTEMPTS (hash d.pid) (2 * mm.slots.length + 1) 0 0 = _
      rw [hsl]
    cases hat : allocTop mm.slots ALLOC_ATTEMPTS (hash d.pid) (2 * mm.buckets + 1) 0 0 with
    | none =>
      right
      exact ⟨rfl, ⟨hc, hbk⟩, by rw [hal, hat]⟩
    | some b =>
      left
      rw [← hal] at hat
      obtain ⟨j, _, hbj, _, _⟩ := allocTop_some hat
      have hbn : b < mm.buckets := by
        rw [hbj]
        have := pos_lt (h := hashN hash (pidN d.pid)) (k := j) hn
        rw [← hnV]; exact this
      have hlt : b < mm.bitvec.length := Nat.lt_of_lt_of_le hbn hok.le
      simp only [MetaMap.setFull, hlt, if_true]
      exact ⟨true, b, _, rfl, hbn, by simp⟩
  unfold AgreesAt at hag
  cases hbk : d.bucket with
  | known b =>
    rw [hbk] at hag
    left
    refine ⟨false, b, mm, by simp only [resolve, hbk], ?_, rfl⟩
    have := (find_lt hn hag).1
    rw [hnV] at this; exact this
  | depSet b =>
    rw [hbk] at hag
    left
    refine ⟨false, b, mm, by simp only [resolve, hbk], ?_, rfl⟩
    have := (find_lt hn hag).1
    rw [hnV] at this; exact this
  | fresh => exact fresh (Or.inl hbk) (by unfold resolve; rw [hbk]; rfl)
  | depUnset => exact fresh (Or.inr hbk) (by unfold resolve; rw [hbk]; rfl)

theorem step_progress {hash : Bytes → Nat} {off : Nat} (a : Acc) (d : Dirty) (P : List Bytes) (hok : a.mm.Ok)
    (hty : d.Typed) (hag : AgreesAt (hashN hash) (viewOf a.mm P) d)
    (hs : SizeInv a.wal.size) (hlt : a.wal.cur + encLen d < MAX_SIZE) (hoff : off + a.mm.buckets ≤ 2 ^ 64) :
    (∃ a1, stepDirty hash off a d = .ok a1 ∧ SizeInv a1.wal.size ∧ a1.wal.cur = a.wal.cur + encLen d) ∨
    (∃ mm, stepDirty hash off a d = .err (.bucketExhaustion mm) ∧ needsAlloc d ∧
      alloc (hashN hash) ALLOC_ATTEMPTS (viewOf a.mm P) (pidN d.pid) = none) := by
  have hn : 0 < (viewOf a.mm P).n := by rw [viewOf_n hok]; exact hok.pos
  have hnV := viewOf_n hok P
  unfold stepDirty
  by_cases hc : d.diff.cleared = true
  · -- a cleared page
    left
    simp only [hc, if_true]
    have key : ∀ b, (d.bucket = .known b ∨ d.bucket = .depSet b) → find (hashN hash) (viewOf a.mm P) (pidN d.pid) = some b →
        ∃ a1, stepCleared a d = .ok a1 ∧ SizeInv a1.wal.size ∧ a1.wal.cur = a.wal.cur + encLen d := by
      intro b hbk hf
      have hbn := (find_lt hn hf).1
      rw [hnV] at hbn
      have hlt' : b < a.mm.bitvec.length := Nat.lt_of_lt_of_le hbn hok.le
      have he : entryOf d b = .clear b := by simp [entryOf, hc]
      obtain ⟨w, h1, h2, h3⟩ := writeEntry_total (w := a.wal) (e := entryOf d b) hs
        (by rw [encEntry_entryOf_length]; exact hlt)
      rw [encEntry_entryOf_length] at h3
      rw [he] at h1
      have h1' : a.wal.writeClear b = .ok w := h1
      unfold stepCleared
      rcases hbk with e | e <;>
      · rw [e]
        simp only [MetaMap.setTombstone, hlt', if_true, h1', liftW_okv]
        exact ⟨_, rfl, h2, h3⟩
    unfold AgreesAt at hag
    cases hbk : d.bucket with
    | known b => rw [hbk] at hag; exact key b (Or.inl hbk) hag
    | depSet b => rw [hbk] at hag; exact key b (Or.inr hbk) hag
    | fresh => rw [hbk] at hag; rw [hag.1] at hc; cases hc
    | depUnset => rw [hbk] at hag; rw [hag.1] at hc; cases hc
  · have hc' : d.diff.cleared = false := by simpa using hc
    simp only [hc', Bool.false_eq_true, if_false]
    unfold stepUpdate
    rcases resolve_progress P hok hty.pid hc' hag with ⟨chg, b, mm1, hres, hbn, hml⟩ | ⟨hres, hna, hal⟩
    · left
      rw [hres]
      simp only
      have hlt1 : b < mm1.bitvec.length := by rw [hml]; exact Nat.lt_of_lt_of_le hbn hok.le
      have hmm2 : ∃ mm2, (if chg then mm1.setFull b (hash d.pid) else some mm1) = some mm2 := by
        by_cases hcc : chg = true
        · simp only [hcc, if_true, MetaMap.setFull, hlt1]; exact ⟨_, rfl⟩
        · simp only [hcc, Bool.false_eq_true, if_false]; exact ⟨_, rfl⟩
      obtain ⟨mm2, e2⟩ := hmm2
      rw [e2]
      simp only
      rw [pack_typed hty.page hc', liftW_okv]
      simp only
      have hel : elidedChildren d.page = .ok (elidedOf d.page) := by
        unfold elidedChildren
        rw [hty.page]; simp [PAGE_SIZE]
      rw [hel]
      simp only
      have he : entryOf d b = .update d.pid d.diff (packedOf d.page d.diff) (elidedOf d.page) b := by simp [entryOf, hc']
      obtain ⟨w, h1, h2, h3⟩ := writeEntry_total (w := a.wal) (e := entryOf d b) hs
        (by rw [encEntry_entryOf_length]; exact hlt)
      rw [encEntry_entryOf_length] at h3
      rw [he] at h1
      have h1' : a.wal.writeUpdate d.pid d.diff (packedOf d.page d.diff) (elidedOf d.page) b = .ok w := h1
      rw [h1', liftW_okv]
      simp only
      have hpn : ¬ (off + b ≥ 2 ^ 64) := by omega
      simp only [hpn, if_false]
      exact ⟨_, rfl, h2, h3⟩
    · right
      rw [hres]
      exact ⟨_, rfl, hna, hal⟩

/-- the loop under the contract: success, or `BucketExhaustion` at the first page whose allocation fails -/
theorem loop_progress {hash : Bytes → Nat} (hh : ∀ p, hash p < 2 ^ 64) {off : Nat} : ∀ (ds : List Dirty) (a : Acc)
    (P : List Bytes), a.mm.Ok → P.length = a.mm.buckets →
    Inv (hashN hash) (viewOf a.mm P) → NoDup (viewOf a.mm P) →
    (∀ d ∈ ds, d.Typed ∧ (d.diff.cleared = false → labelOf d.page = d.pid)) →
    ContractFrom (hashN hash) ALLOC_ATTEMPTS (viewOf a.mm P) ds →
    SizeInv a.wal.size → a.wal.cur + (ds.map encLen).sum < MAX_SIZE → off + a.mm.buckets ≤ 2 ^ 64 →
    (∃ a', loop hash off a ds = .ok a' ∧ SizeInv a'.wal.size ∧ a'.wal.cur = a.wal.cur + (ds.map encLen).sum) ∨
    (∃ mm k d, loop hash off a ds = .err (.bucketExhaustion mm) ∧ ds[k]? = some d ∧ needsAlloc d ∧
      alloc (hashN hash) ALLOC_ATTEMPTS (Probe.run (hashN hash) ALLOC_ATTEMPTS (viewOf a.mm P) ((ds.take k).map opOf))
        (pidN d.pid) = none) := by
  intro ds
  induction ds with
  | nil =>
    intro a P _ _ _ _ _ _ hs _ _
    left
    exact ⟨a, rfl, hs, by simp⟩
  | cons d ds ih =>
    intro a P hok hP hI hD hty hct hs hlt hoff
    obtain ⟨hag, hct'⟩ := hct
    obtain ⟨htd, hlab⟩ := hty d (List.mem_cons_self ..)
    simp only [List.map_cons, List.sum_cons] at hlt
    have hn : 0 < (viewOf a.mm P).n := by rw [viewOf_n hok]; exact hok.pos
    rcases step_progress (hash := hash) (off := off) a d P hok htd hag hs (by omega) hoff with
      ⟨a1, h1, hs1, hc1⟩ | ⟨mm, h1, hna, hal⟩
    · obtain ⟨b, c, s⟩ := stepDirty_ok htd.page h1
      obtain ⟨hv, hok1, _, _, _⟩ := step_view hh s P hok hP htd.pid hlab hag
      obtain ⟨hI1, hD1⟩ := step_inv (lim := ALLOC_ATTEMPTS) hn hI hD (opOf d)
      have hP1 : (if d.diff.cleared then P else P.set b d.page).length = a1.mm.buckets := by
        rw [s.buckets, ← hP]; split <;> simp
      rw [← hv] at hI1 hD1 hct'
      rcases ih a1 _ hok1 hP1 hI1 hD1 (fun d' hd' => hty d' (List.mem_cons_of_mem _ hd')) hct' hs1
          (by rw [hc1]; omega) (by rw [s.buckets]; exact hoff) with ⟨a', g1, g2, g3⟩ | ⟨mm, k, d', g1, g2, g3, g4⟩
      · left
        refine ⟨a', by simp only [loop, h1]; exact g1, g2, ?_⟩
        rw [g3, hc1]; simp only [List.map_cons, List.sum_cons]; omega
      · right
        refine ⟨mm, k + 1, d', by simp only [loop, h1]; exact g1, by simpa using g2, g3, ?_⟩
        have e : Probe.run (hashN hash) ALLOC_ATTEMPTS (viewOf a.mm P) (((d :: ds).take (k + 1)).map opOf) =
            Probe.run (hashN hash) ALLOC_ATTEMPTS (step (hashN hash) ALLOC_ATTEMPTS (viewOf a.mm P) (opOf d))
              ((ds.take k).map opOf) := rfl
        rw [e, ← hv]
        exact g4
    · right
      exact ⟨mm, 0, d, by simp only [loop, h1], rfl, hna, hal⟩

theorem reset_total {b : Builder} (hs : SizeInv b.size) (seqn : Nat) :
    ∃ w0, b.reset seqn = .ok w0 ∧ SizeInv w0.size ∧ w0.cur = 5 := by
  obtain ⟨b0, h0, hs0⟩ := write_total (b := { b with chunks := [], cur := 0 }) (c := [WAL_ENTRY_TAG_START]) hs
    (by simp only [List.length_cons, List.length_nil]; unfold MAX_SIZE; omega)
  obtain ⟨_, c0, _⟩ := write_ok h0
  obtain ⟨b1, h1, hs1⟩ := write_total (b := b0) (c := leBytes 4 seqn) hs0
    (by rw [c0, leBytes_length]; simp only [List.length_cons, List.length_nil]; unfold MAX_SIZE; omega)
  obtain ⟨_, c1, _⟩ := write_ok h1
  refine ⟨b1, by simp only [reset, writeByte, h0, bind_ok, h1], hs1, ?_⟩
  rw [c1, c0, leBytes_length]; rfl

theorem entries_len : ∀ (ds : List Dirty) (bs : List Nat), bs.length = ds.length →
    ((entriesOf ds bs).map encEntry).flatten.length = (ds.map encLen).sum := by
  intro ds
  induction ds with
  | nil => intro bs _; cases bs <;> rfl
  | cons d ds ih =>
    intro bs hl
    cases bs with
    | nil => cases hl
    | cons b bs =>
      simp only [entriesOf, List.map_cons, List.flatten_cons, List.length_append, List.sum_cons,
        encEntry_entryOf_length]
      rw [ih bs (by simpa using hl)]

/-- **`prepare_sync` reaches no panic site under the caller contract**: with a builder whose mapping is a positive
number of pages and a changeset whose log stays below 128 GiB the call returns `Ok`, or `Err(BucketExhaustion)` — and
then some page that needs a bucket finds none: `allocate_bucket` on the table as the earlier pages left it returns `None` -/
theorem prepareSync_total {hash : Bytes → Nat} (debug : Bool) {S : St} {T : Wal.Table} (seqn : Nat) {ds : List Dirty}
    {b0 : Builder} (hB : Before hash S T) (hC : ChangesOK hash S T ds) (hs : SizeInv b0.size)
    (hlt : 6 + (ds.map encLen).sum < MAX_SIZE) :
    (∃ res, prepareSync hash debug S seqn ds b0 = .ok res) ∨
    (∃ mm k d, prepareSync hash debug S seqn ds b0 = .err (.bucketExhaustion mm) ∧ ds[k]? = some d ∧ needsAlloc d ∧
      alloc (hashN hash) ALLOC_ATTEMPTS
        (Probe.run (hashN hash) ALLOC_ATTEMPTS (viewOf S.mm T.pages) ((ds.take k).map opOf)) (pidN d.pid) = none) := by
  obtain ⟨w0, hr, hs0, hc0⟩ := reset_total hs seqn
  have hn32 : S.mm.buckets < 2 ^ 32 := hB.wf.2.1
  have hoff : dataOffset S.mm.buckets + S.mm.buckets ≤ 2 ^ 64 := by
    unfold dataOffset numMetaBytePages PAGE; omega
  rcases loop_progress hB.hh (off := dataOffset S.mm.buckets) ds (acc0 S w0) T.pages hB.wf.ok hB.disk_pages hB.inv
      hB.nodup (fun d hd => ⟨hC.typed d hd, fun hc => (hC.plain d hd hc).2⟩) hC.contract hs0
      (by show w0.cur + _ < _; rw [hc0]; omega) hoff with ⟨a, hl, hsa, hca⟩ | ⟨mm, k, d, hl, g2, g3, g4⟩
  · left
    obtain ⟨bs, cs, hch⟩ := loop_chain ds _ _ (fun d hd => (hC.typed d hd).page) hl
    obtain ⟨hbk, hnd, hCn, hCr⟩ := chain_core hB hC hch
    have hbl : a.mm.bitvec.length = numMetaBytePages S.mm.buckets * 4096 := by
      rw [hch.bitvec_length]; exact hB.wf.2.2
    -- the meta pages
    obtain ⟨mp, hmp⟩ := metaPages_total (mm := a.mm) (C := sortNat a.changed) (by
      intro p hp
      have := hCr p hp
      rw [hbl]
      unfold dataOffset at this
      have : (p + 1) * 4096 ≤ numMetaBytePages S.mm.buckets * 4096 := Nat.mul_le_mul_right _ this
      omega)
    -- the debug block
    have hkeys : ((a.ht ++ mp).map (·.1)).Nodup := by
      rw [metaPages_eq hmp, hch.ht_eq, dataPages_eq]
      simp only [acc0, List.nil_append]
      exact htCanon_keys_nodup hnd hCn hCr
    obtain ⟨ht, hdb⟩ := debugBlock_total debug hkeys
    -- finalize
    have hwal := hch.wal_eq
    obtain ⟨b', hrun, _⟩ := run_total hs seqn (entriesOf ds bs)
      (by rw [encBody_length, entries_len ds bs hch.lengths.1]; exact hlt)
    have hfin : a.wal.finalize = .ok b' := by
      simp only [Builder.run, hr, bind_ok] at hrun
      simp only [acc0] at hwal
      rw [hwal] at hrun
      exact hrun
    refine ⟨{ ht := ht, cache := a.cache, mm := a.mm, occupied := applyDelta S.occupied a.delta, wal := b', cells := a.cells }, ?_⟩
    unfold prepareSync
    rw [hr, liftW_okv]
    simp only
    have hl' : loop hash (dataOffset S.mm.buckets)
        { mm := S.mm, changed := [], ht := [], cache := [], delta := 0, wal := w0, cells := [] } ds = .ok a := hl
    rw [hl']
    simp only
    rw [hmp]
    simp only
    rw [hdb]
    simp only
    rw [hfin, liftW_okv]
  · right
    refine ⟨mm, k, d, ?_, g2, g3, g4⟩
    unfold prepareSync
    rw [hr, liftW_okv]
    simp only
    have hl' : loop hash (dataOffset S.mm.buckets)
        { mm := S.mm, changed := [], ht := [], cache := [], delta := 0, wal := w0, cells := [] } ds =
          .err (.bucketExhaustion mm) := hl
    rw [hl']

/-- **the exact condition of `BucketExhaustion`** -/
theorem prepareSync_exhaustion_iff {hash : Bytes → Nat} (debug : Bool) {S : St} {T : Wal.Table} (seqn : Nat)
    {ds : List Dirty} {b0 : Builder} (hB : Before hash S T) (hC : ChangesOK hash S T ds) (hs : SizeInv b0.size)
    (hlt : 6 + (ds.map encLen).sum < MAX_SIZE) :
    (∃ mm, prepareSync hash debug S seqn ds b0 = .err (.bucketExhaustion mm)) ↔
    ∃ k d, ds[k]? = some d ∧ needsAlloc d ∧
      alloc (hashN hash) ALLOC_ATTEMPTS
        (Probe.run (hashN hash) ALLOC_ATTEMPTS (viewOf S.mm T.pages) ((ds.take k).map opOf)) (pidN d.pid) = none := by
  constructor
  · intro ⟨mm, h⟩
    rcases prepareSync_total debug seqn hB hC hs hlt with ⟨res, h'⟩ | ⟨mm', k, d, _, g2, g3, g4⟩
    · rw [h] at h'; cases h'
    · exact ⟨k, d, g2, g3, g4⟩
  · intro ⟨k, d, g2, g3, g4⟩
    rcases prepareSync_total debug seqn hB hC hs hlt with ⟨res, h'⟩ | ⟨mm', _, _, h', _⟩
    · obtain ⟨_, _, _, _, _, _, _, _, _, _, _, _, _, _, _, f, _, _⟩ := prepareSync_facts hB hC h'
      have := f k d g2 g3
      rw [g4] at this
      cases this
    · exact ⟨mm', h'⟩

end Nomt.PrepSync
