import NomtModel.Store.CachePageCoherence
import NomtModel.Store.CacheLeafCoherence
/-!
# Construction of the caches: when `PageCache::new` / `LeafCache::new` panic, what they build, the budget split
-/
namespace Nomt.Cache
open Nomt

theorem mapO_ok {α β : Type} (f : α → Outcome Unit β) (g : α → β) (l : List α) (h : ∀ x ∈ l, f x = .ok (g x)) :
    mapO f l = .ok (l.map g) := by
  induction l with
  | nil => rfl
  | cons x xs ih =>
    simp only [mapO, h x (by simp), ih (fun y hy => h y (List.mem_cons_of_mem _ hy)), List.map_cons]

theorem mapO_panic_head {α β : Type} (f : α → Outcome Unit β) (x : α) (xs : List α) (m : String)
    (h : f x = .panic m) : mapO f (x :: xs) = .panic m := by simp only [mapO, h]

theorem sum_map_mul (c : Nat) (l : List Nat) : (l.map (fun x => c * x)).sum = c * l.sum := by
  induction l with
  | nil => simp
  | cons x xs ih => simp only [List.map_cons, List.sum_cons, ih, Nat.mul_add]

theorem cachePageLimit_ok (dbg : Bool) (size : Nat) (h : size * 1024 * 1024 ≤ usizeMax) :
    cachePageLimit dbg size = .ok (size * 256) := by
  have h1 : ¬ size * 1024 * 1024 > usizeMax := by omega
  have h2 : size * 1024 * 1024 % 2 ^ 64 = size * 1024 * 1024 := Nat.mod_eq_of_lt (by unfold usizeMax at h; omega)
  simp only [cachePageLimit, h1, decide_false, Bool.and_false, h2, PAGE_SIZE]
  have : size * 1024 * 1024 / 4096 = size * 256 := by omega
  simp [this]

variable {P : Type}

/-- the limit `make_shards` gives a shard of `count` root children: at least one page -/
def shardLimit (perChild count : Nat) : Nat := if perChild * count = 0 then 1 else perChild * count

/-- what a fresh shard list looks like -/
def freshShards (n perChild : Nat) : List (Shard P) :=
  (List.range n).map fun i =>
    { fixed := [], cached := Lru.unbounded, pageLimit := shardLimit perChild (Shards.region n i).2,
      count := (Shards.region n i).2 }

theorem shardRegions_eq (n : Nat) (h1 : 1 ≤ n) (h64 : n ≤ 64) :
    shardRegions n = .ok ((List.range n).map (Shards.region n)) := by
  have htab := cacheTable n h1 h64
  simp only [cacheTableOk, Bool.and_eq_true, List.all_eq_true, List.mem_range, decide_eq_true_eq] at htab
  obtain ⟨⟨⟨hreg, _⟩, _⟩, _⟩ := htab
  split at hreg
  · rename_i rs hrs; rw [hrs]; simp at hreg; rw [hreg]
  · simp at hreg

/-- the repaired `make_shards` is total for 1…64 shards and EVERY page budget, 0 included -/
theorem makeShardsPages_ok (n limit : Nat) (h1 : 1 ≤ n) (h64 : n ≤ 64) :
    makeShardsPages (P := P) {} n limit = .ok (freshShards n (limit / 64)) := by
  have hn0 : n ≠ 0 := by omega
  simp only [makeShardsPages, hn0, if_false, shardRegions_eq n h1 h64]
  rw [mapO_ok _ (fun r => ({ fixed := [], cached := Lru.unbounded, pageLimit := shardLimit (limit / 64) r.2, count := r.2 } : Shard P))]
  · simp [freshShards, List.map_map, Function.comp_def]
  · intro r _
    by_cases h : limit / 64 * r.2 = 0 <;> simp [shardLimit, h]

/-- finding F25: the code before the repair unwraps a zero limit -/
theorem makeShardsPages_zero_f25 (n limit : Nat) (h1 : 1 ≤ n) (h64 : n ≤ 64) (hl : limit < 64) :
    ∃ m, makeShardsPages (P := P) { f25ZeroLimitUnwrap := true } n limit = .panic m := by
  have hn0 : n ≠ 0 := by omega
  have hz : limit / 64 = 0 := Nat.div_eq_of_lt hl
  obtain ⟨k, rfl⟩ : ∃ k, n = k + 1 := ⟨n - 1, by omega⟩
  refine ⟨"NonZeroUsize::new(page_limit).unwrap()", ?_⟩
  simp only [makeShardsPages, hn0, if_false, shardRegions_eq _ h1 h64, hz, Nat.zero_mul]
  rw [List.range_succ_eq_map, List.map_cons]
  exact mapO_panic_head _ _ _ _ (by simp)

/-- **`PageCache::new` on a valid configuration** (1…64 shards, any size < 16 EiB, 0 included): no panic; the cache is
empty apart from the root slot; every shard may hold at least one page -/
theorem PageCache.new_ok (dbg : Bool) (root : Option (Entry P)) (n size fl : Nat) (h1 : 1 ≤ n) (h64 : n ≤ 64)
    (hs : size * 1024 * 1024 ≤ usizeMax) :
    PageCache.new {} dbg root n size fl =
      .ok { shards := freshShards n (size * 256 / 64), root := root, fixedLevels := fl } := by
  simp only [PageCache.new, makeShards, cachePageLimit_ok dbg size hs, makeShardsPages_ok n (size * 256) h1 h64]

/-- F25: `PageCache::new` with `page_cache_size = 0` panicked before the repair -/
theorem PageCache.new_size0_panics_f25 (dbg : Bool) (root : Option (Entry P)) (n fl : Nat) (h1 : 1 ≤ n) (h64 : n ≤ 64) :
    ∃ m, PageCache.new { f25ZeroLimitUnwrap := true } dbg root n 0 fl = .panic m := by
  obtain ⟨m, hm⟩ := makeShardsPages_zero_f25 (P := P) n 0 h1 h64 (by omega)
  exact ⟨m, by simp only [PageCache.new, makeShards, cachePageLimit_ok dbg 0 (by simp [usizeMax]), hm]⟩

theorem freshShards_length (n c : Nat) : (freshShards (P := P) n c).length = n := by simp [freshShards]

theorem freshShards_limit_pos (n c : Nat) (s : Shard P) (hs : s ∈ freshShards n c) : 1 ≤ s.pageLimit := by
  simp only [freshShards, List.mem_map] at hs
  obtain ⟨i, _, rfl⟩ := hs
  simp only [shardLimit]
  split <;> omega

/-- with at least one page per root child the limits add up to the budget rounded down to a multiple of 64 pages -/
theorem freshShards_budget (n c : Nat) (h1 : 1 ≤ n) (h64 : n ≤ 64) (hc : 1 ≤ c) :
    ((freshShards (P := P) n c).map (·.pageLimit)).sum = c * 64 := by
  have htab := cacheTable n h1 h64
  simp only [cacheTableOk, Bool.and_eq_true, List.all_eq_true, List.mem_range, decide_eq_true_eq,
    beq_iff_eq] at htab
  have hsum := htab.1.2
  have hcnt := htab.1.1.2
  simp only [freshShards, List.map_map, Function.comp_def]
  have : (List.range n).map (fun i => shardLimit c (Shards.region n i).2) =
      ((List.range n).map fun i => (Shards.region n i).2).map (fun x => c * x) := by
    rw [List.map_map]
    apply List.map_congr_left
    intro i hi
    have := hcnt i (List.mem_range.mp hi)
    have hne : c * (Shards.region n i).2 ≠ 0 := Nat.mul_ne_zero (by omega) (by omega)
    simp [shardLimit, hne]
  rw [this, sum_map_mul, hsum]

/-- below one page per root child (`page_cache_size = 0`): one page per shard -/
theorem freshShards_budget_zero (n : Nat) : ((freshShards (P := P) n 0).map (·.pageLimit)).sum = n := by
  simp only [freshShards, List.map_map, Function.comp_def, shardLimit, Nat.zero_mul, if_true]
  induction n with
  | zero => rfl
  | succ k ih => rw [List.range_succ, List.map_append, List.sum_append, ih]; simp

theorem freshShards_view (n c fl : Nat) (root : Option (Entry P)) (id : PageId) :
    ({ shards := freshShards n c, root := root, fixedLevels := fl } : PageCache P).view id =
      if id = [] then root else none := by
  cases id with
  | nil => rfl
  | cons a t =>
    simp only [PageCache.view, freshShards, List.getElem?_map, List.length_map, List.length_range]
    cases h : (List.range n)[Shards.indexFor n a]? with
    | none => simp
    | some i => simp [Shard.view, Lru.peek, Lru.unbounded]

/-- a freshly opened cache is coherent with any store that holds the root page it was given -/
theorem fresh_coh (n c fl : Nat) (root : Option (Entry P)) (store : PStore P) (h : ∀ r, root = some r → store [] = some r) :
    Coh ({ shards := freshShards n c, root := root, fixedLevels := fl } : PageCache P) store := by
  intro id x hx
  rw [freshShards_view] at hx
  split at hx
  · rename_i hid; subst hid; exact h x hx
  · cases hx

/-! ## leaf cache -/

variable {L : Type}

/-- **`LeafCache::new`**: panics only for 0 shards (or a size ≥ 16 EiB in a debug build); `leaf_cache_size = 0` is fine -/
theorem LeafCache.new_ok (dbg : Bool) (n size : Nat) (h1 : 1 ≤ n) (hs : size * 1024 * 1024 ≤ usizeMax) :
    LeafCache.new (L := L) dbg n size =
      .ok { shards := List.replicate n { cache := Lru.unbounded, maxItems := size * 256 / n } } := by
  have : n ≠ 0 := by omega
  simp only [LeafCache.new, cachePageLimit_ok dbg size hs, this, if_false]

theorem LeafCache.new_budget (n size : Nat) (h1 : 1 ≤ n) :
    ((List.replicate n ({ cache := Lru.unbounded, maxItems := size * 256 / n } : LeafShard L)).map (·.maxItems)).sum
      ≤ size * 256 := by
  simp only [List.map_replicate]
  have : ∀ k v : Nat, (List.replicate k v).sum = k * v := by
    intro k v; induction k with
    | zero => simp
    | succ k ih => simp [List.replicate_succ, ih, Nat.succ_mul, Nat.add_comm]
  rw [this]
  exact Nat.mul_div_le _ _

theorem LeafCache.fresh_view (n m : Nat) (assign : Nat → Nat) (pn : Nat) :
    ({ shards := List.replicate n { cache := Lru.unbounded, maxItems := m } } : LeafCache L).view assign pn = none := by
  simp only [LeafCache.view, List.length_replicate]
  cases h : (List.replicate n ({ cache := Lru.unbounded, maxItems := m } : LeafShard L))[assign pn % n]? with
  | none => rfl
  | some s =>
    have := List.mem_of_getElem? h
    rw [List.mem_replicate] at this
    simp [this.2, Lru.peek, Lru.unbounded]

end Nomt.Cache
