import NomtModel.Store.LeafUpdRun
/-!
# Separators of the new tree: `OutUpTo`

`OutUpTo out s`: in the list of leaves `out` (left to right) every leaf's separator is at most each of its keys and all
its keys are below the separator of the next leaf — below `s` for the last one.  This is what the branch level needs of
the leaves (C16: keys bounded by their separators).
-/
namespace Nomt.LeafUpd
variable {V : Type} [CellSize V]

def nextSep : List (OutLeaf V) → Nat → Nat
  | [], s => s
  | B :: _, _ => B.sep

def OutUpTo : List (OutLeaf V) → Nat → Prop
  | [], _ => True
  | A :: rest, s => (∀ e ∈ A.ents, A.sep ≤ e.key) ∧ (∀ e ∈ A.ents, e.key < nextSep rest s) ∧ OutUpTo rest s

theorem nextSep_append (a b : List (OutLeaf V)) (s : Nat) : nextSep (a ++ b) s = nextSep a (nextSep b s) := by
  cases a <;> rfl

theorem OutUpTo.mono {s s' : Nat} (hs : s ≤ s') : ∀ {out : List (OutLeaf V)}, OutUpTo out s → OutUpTo out s' := by
  intro out
  induction out with
  | nil => intro _; trivial
  | cons A rest ih =>
    intro h
    obtain ⟨a, b, c⟩ := h
    refine ⟨a, ?_, ih c⟩
    intro e he
    have := b e he
    cases rest with
    | nil => simp only [nextSep] at this ⊢; omega
    | cons B r => exact this

theorem OutUpTo.append {s s' : Nat} {b : List (OutLeaf V)} (hn : nextSep b s' = s) (hb : OutUpTo b s') :
    ∀ {a : List (OutLeaf V)}, OutUpTo a s → OutUpTo (a ++ b) s' := by
  intro a
  induction a with
  | nil => intro _; exact hb
  | cons A rest ih =>
    intro h
    obtain ⟨x, y, z⟩ := h
    refine ⟨x, ?_, ih z⟩
    show ∀ e ∈ A.ents, e.key < nextSep (rest ++ b) s'
    rw [nextSep_append, hn]
    exact y

theorem outUpTo_of_sepChain : ∀ {leaves : List (Leaf V)} {lo lo' : Nat}, SepChain lo leaves lo' →
    OutUpTo (leaves.map .new) lo' ∧ nextSep (leaves.map .new) lo' = lo := by
  intro leaves
  induction leaves with
  | nil => intro lo lo' h; simp only [SepChain] at h; subst h; exact ⟨trivial, rfl⟩
  | cons l ls ih =>
    intro lo lo' h
    obtain ⟨a, b, s, c, d, e⟩ := h
    obtain ⟨i1, i2⟩ := ih e
    refine ⟨⟨by intro x hx; rw [show (OutLeaf.new l).sep = l.sep from rfl, a]; exact b x hx, ?_, i1⟩, a⟩
    intro x hx
    rw [i2]; exact c x hx

theorem outUpTo_of_sepChainEnd {fin : Option Nat} {c : Nat} : ∀ {leaves : List (Leaf V)} {lo : Nat},
    SepChainEnd fin lo leaves → (∀ l ∈ leaves, ∀ e ∈ l.ents, e.key < c) → leaves ≠ [] →
    OutUpTo (leaves.map .new) c ∧ nextSep (leaves.map .new) c = lo := by
  intro leaves
  induction leaves with
  | nil => intro lo _ _ h; exact absurd rfl h
  | cons l ls ih =>
    intro lo h hc _
    cases ls with
    | nil =>
      obtain ⟨a, b, _⟩ := h
      refine ⟨⟨by intro x hx; rw [show (OutLeaf.new l).sep = l.sep from rfl, a]; exact b x hx, ?_, trivial⟩, a⟩
      intro x hx
      exact hc l (by simp) x hx
    | cons l2 ls' =>
      obtain ⟨a, b, s, d, _, e⟩ := h
      obtain ⟨i1, i2⟩ := ih e (fun l' hl' => hc l' (List.mem_cons_of_mem _ hl')) (by simp)
      refine ⟨⟨by intro x hx; rw [show (OutLeaf.new l).sep = l.sep from rfl, a]; exact b x hx, ?_, i1⟩, a⟩
      intro x hx
      rw [i2]; exact d x hx

/-- untouched old leaves `sk` in front of `tail` (or at the right end of the tree) -/
theorem outUpTo_olds {KB : Nat} : ∀ (sk tail : List (DbLeaf V)) (s : Nat), DbOK KB (sk ++ tail) →
    (tail.head?.map (·.sep) = some s ∨ (tail = [] ∧ KB ≤ s)) →
    OutUpTo (sk.map .old) s ∧ (∀ h, sk.head? = some h → nextSep (sk.map .old) s = h.sep) := by
  intro sk
  induction sk with
  | nil => intro tail s _ _; exact ⟨trivial, by intro h hh; simp at hh⟩
  | cons a sk' ih =>
    intro tail s hdb ht
    have hleaf := DbOK.head (l := a) (r := sk' ++ tail) hdb
    obtain ⟨i1, i2⟩ := ih tail s (DbOK.tail (l := a) hdb) ht
    refine ⟨⟨hleaf.2.2.2.1, ?_, i1⟩, by intro h hh; simp at hh; subst hh; rfl⟩
    intro e he
    cases sk' with
    | nil =>
      simp only [List.map_nil, nextSep, List.nil_append] at hleaf ⊢
      rcases ht with ht | ⟨ht, hks⟩
      · exact (hleaf.2.2.2.2 s ht).2 e he
      · have := hleaf.2.2.1 e he; omega
    | cons b sk'' =>
      simp only [List.map_cons, nextSep]
      exact (hleaf.2.2.2.2 b.sep rfl).2 e he

end Nomt.LeafUpd
