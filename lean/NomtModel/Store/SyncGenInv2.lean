import NomtModel.Store.SyncGenInv
/-!
# The invariant, part 2: the beatree update (page writes / growth of `ln` and `bbn`) and the two fsyncer threads
-/
namespace Nomt.Store.SyncGen
open Nomt.Store

theorem BtOp.evB_data (o : BtOp) : isDataKind o.evB.kind = true := by unfold BtOp.evB; split <;> rfl
theorem BtOp.evE_data (o : BtOp) : isDataKind o.evE.kind = true := by unfold BtOp.evE; split <;> rfl
theorem BtOp.evB_file (o : BtOp) : o.evB.file = o.file := by unfold BtOp.evB; split <;> rfl
theorem BtOp.evE_file (o : BtOp) : o.evE.file = o.file := by unfold BtOp.evE; split <;> rfl

theorem BtOp.file_cases (o : BtOp) : (o.bbn = false ∧ o.file = "ln") ∨ (o.bbn = true ∧ o.file = "bbn") := by
  unfold BtOp.file; cases o.bbn <;> simp

theorem lineFile_data (b : Bool) (e : IoEv) (th : String) (h : isDataKind e.kind = true) : lineFile ⟨b, e, th⟩ = e.file := by
  simp [lineFile, h]

/-- while a beatree operation is outstanding nothing after the update has started -/
theorem pre_of_not_done (P : Params) (s : PSt) (hpc : PcInv P s) (hnot : ¬ allDone s.bt = true) :
    s.fl = 0 ∧ s.fb = 0 ∧ s.m = 0 := by
  refine ⟨?_, ?_, ?_⟩
  · rcases Nat.eq_zero_or_pos s.fl with h | h
    · exact h
    · exact absurd (hpc.flDone h) hnot
  · rcases Nat.eq_zero_or_pos s.fb with h | h
    · exact h
    · exact absurd (hpc.fbDone h) hnot
  · rcases Nat.eq_zero_or_pos s.m with h | h
    · exact h
    · exact absurd (hpc.pre h).2.2.2 hnot

/-- the table entries other than those of `ln` and `bbn` do not mention the states of the beatree operations -/
theorem htab_bt (P : Params) (s : PSt) (bt' : List Nat) (f : String) (h1 : f ≠ "ln") (h2 : f ≠ "bbn") (st0 : OrderSt)
    (h0 : Holds f st0 (fsOf P s f)) : Holds f st0 (fsOf P { s with bt := bt' } f) := by
  simp only [fsOf, if_neg h1, if_neg h2] at h0 ⊢
  exact h0

theorem inv_step_btBegin (P : Params) (hwf : P.WF) (s : PSt) (st : OrderSt) (id : Nat) (i : Nat) (o : BtOp) (th : String)
    (h : Inv P s st id) (ho : P.bt[i]? = some o) (hx : s.bt[i]? = some 0) :
    ∃ st', orderStep st id ⟨true, o.evB, th⟩ = .ok st' ∧ Inv P { s with bt := s.bt.set i 1 } st' (id + 1) := by
  have hpc' := pcinv_step P s _ _ h.pc (.btBegin s i o th ho hx)
  have hnot : ¬ allDone s.bt = true := fun hd => by have := allDone_getElem _ _ _ hd hx; omega
  obtain ⟨hfl, hfb, hm0⟩ := pre_of_not_done P s h.pc hnot
  have hph : st.phase = 0 := by rw [h.phase, hm0]; rfl
  have hfile := o.evB_file
  obtain ⟨st', hs, hpend, hsy, hph', hmid, hww⟩ := step_beginData st id o.evB th o.evB_data
    (by rw [hfile]; rcases o.file_cases with ⟨_, hf⟩ | ⟨_, hf⟩ <;> rw [hf] <;> simp) (by omega)
    (fun hf => by rw [hfile] at hf; rcases o.file_cases with ⟨_, hf'⟩ | ⟨_, hf'⟩ <;> rw [hf'] at hf <;> simp at hf)
    (fun hf => by rw [hfile] at hf; rcases o.file_cases with ⟨_, hf'⟩ | ⟨_, hf'⟩ <;> rw [hf'] at hf <;> simp at hf)
    (fun _ _ => by omega)
  have hlf : lineFile ⟨true, o.evB, th⟩ = o.file := by rw [lineFile_data _ _ _ o.evB_data, hfile]
  have hwalW : st'.walWritten = decide (3 ≤ s.w) := by
    rw [hww, h.walW, hfile]
    rcases o.file_cases with ⟨_, hf⟩ | ⟨_, hf⟩ <;> rw [hf] <;> simp
  have hmeta : 0 < s.m → s.m < 4 → ∃ p ∈ st'.pend, p.file = "meta" ∧ p.id = st'.metaId := by intro h0; omega
  refine ⟨st', hs, ?_⟩
  rcases o.file_cases with ⟨hb, hf⟩ | ⟨hb, hf⟩
  · -- an operation on `ln`
    rw [hf] at hlf
    have hln := h.tab "ln" (mem_fileList_ln P)
    rw [fsOf_ln] at hln
    simp only [lnFS, hfl, if_true] at hln
    refine h.next hs (by rw [hlf]; exact mem_fileList_ln P) (by rw [hph', h.phase]) hwalW hmeta hpc' ?_ ?_
    · intro f hfm hne st0 h0
      rw [hlf] at hne
      by_cases hbb : f = "bbn"
      · subst hbb
        rw [fsOf_bbn] at h0 ⊢
        simp only [bbnFS, hfb, if_true] at h0 ⊢
        refine h0.opn_congr (fun k => ?_)
        rw [openBt_set true k P.bt s.bt i o 0 1 ho hx]
        simp [hb]
      · exact htab_bt P s _ f hne hbb st0 h0
    · rw [hlf, fsOf_ln]
      simp only [lnFS, hfl, if_true]
      refine (hln.begin id o.evB (hfile.trans hf) hpend hsy).opn_congr (fun k => ?_)
      rw [openBt_set false k P.bt s.bt i o 0 1 ho hx]
      simp [bump, hb, eq_comm]
  · -- an operation on `bbn`
    rw [hf] at hlf
    have hbbn := h.tab "bbn" (mem_fileList_bbn P)
    rw [fsOf_bbn] at hbbn
    simp only [bbnFS, hfb, if_true] at hbbn
    refine h.next hs (by rw [hlf]; exact mem_fileList_bbn P) (by rw [hph', h.phase]) hwalW hmeta hpc' ?_ ?_
    · intro f hfm hne st0 h0
      rw [hlf] at hne
      by_cases hbb : f = "ln"
      · subst hbb
        rw [fsOf_ln] at h0 ⊢
        simp only [lnFS, hfl, if_true] at h0 ⊢
        refine h0.opn_congr (fun k => ?_)
        rw [openBt_set false k P.bt s.bt i o 0 1 ho hx]
        simp [hb]
      · exact htab_bt P s _ f hbb hne st0 h0
    · rw [hlf, fsOf_bbn]
      simp only [bbnFS, hfb, if_true]
      refine (hbbn.begin id o.evB (hfile.trans hf) hpend hsy).opn_congr (fun k => ?_)
      rw [openBt_set true k P.bt s.bt i o 0 1 ho hx]
      simp [bump, hb, eq_comm]

theorem inv_step_btEnd (P : Params) (hwf : P.WF) (s : PSt) (st : OrderSt) (id : Nat) (i : Nat) (o : BtOp) (th : String)
    (h : Inv P s st id) (ho : P.bt[i]? = some o) (hx : s.bt[i]? = some 1) :
    ∃ st', orderStep st id ⟨false, o.evE, th⟩ = .ok st' ∧ Inv P { s with bt := s.bt.set i 2 } st' (id + 1) := by
  have hpc' := pcinv_step P s _ _ h.pc (.btEnd s i o th ho hx)
  have hnot : ¬ allDone s.bt = true := fun hd => by have := allDone_getElem _ _ _ hd hx; omega
  obtain ⟨hfl, hfb, hm0⟩ := pre_of_not_done P s h.pc hnot
  have hfile := o.evE_file
  obtain ⟨st', hs, hpend, hsy, hph', hmid, hww⟩ := step_endData st id o.evE th o.evE_data
  have hlf : lineFile ⟨false, o.evE, th⟩ = o.file := by rw [lineFile_data _ _ _ o.evE_data, hfile]
  have hwalW : st'.walWritten = decide (3 ≤ s.w) := by rw [hww, h.walW]
  have hmeta : 0 < s.m → s.m < 4 → ∃ p ∈ st'.pend, p.file = "meta" ∧ p.id = st'.metaId := by intro h0; omega
  refine ⟨st', hs, ?_⟩
  rcases o.file_cases with ⟨hb, hf⟩ | ⟨hb, hf⟩
  · rw [hf] at hlf
    have hln := h.tab "ln" (mem_fileList_ln P)
    rw [fsOf_ln] at hln
    simp only [lnFS, hfl, if_true] at hln
    refine h.next hs (by rw [hlf]; exact mem_fileList_ln P) (by rw [hph', h.phase]) hwalW hmeta hpc' ?_ ?_
    · intro f hfm hne st0 h0
      rw [hlf] at hne
      by_cases hbb : f = "bbn"
      · subst hbb
        rw [fsOf_bbn] at h0 ⊢
        simp only [bbnFS, hfb, if_true] at h0 ⊢
        refine h0.opn_congr (fun k => ?_)
        rw [openBt_set true k P.bt s.bt i o 1 2 ho hx]
        simp [hb]
      · exact htab_bt P s _ f hne hbb st0 h0
    · rw [hlf, fsOf_ln]
      simp only [lnFS, hfl, if_true]
      refine (hln.endData h.g o.evE o.evE_data (hfile.trans hf) hpend hsy).opn_congr (fun k => ?_)
      rw [openBt_set false k P.bt s.bt i o 1 2 ho hx, o.ekey_evE]
      simp [drop1, hb, eq_comm]
  · rw [hf] at hlf
    have hbbn := h.tab "bbn" (mem_fileList_bbn P)
    rw [fsOf_bbn] at hbbn
    simp only [bbnFS, hfb, if_true] at hbbn
    refine h.next hs (by rw [hlf]; exact mem_fileList_bbn P) (by rw [hph', h.phase]) hwalW hmeta hpc' ?_ ?_
    · intro f hfm hne st0 h0
      rw [hlf] at hne
      by_cases hbb : f = "ln"
      · subst hbb
        rw [fsOf_ln] at h0 ⊢
        simp only [lnFS, hfl, if_true] at h0 ⊢
        refine h0.opn_congr (fun k => ?_)
        rw [openBt_set false k P.bt s.bt i o 1 2 ho hx]
        simp [hb]
      · exact htab_bt P s _ f hbb hne st0 h0
    · rw [hlf, fsOf_bbn]
      simp only [bbnFS, hfb, if_true]
      refine (hbbn.endData h.g o.evE o.evE_data (hfile.trans hf) hpend hsy).opn_congr (fun k => ?_)
      rw [openBt_set true k P.bt s.bt i o 1 2 ho hx, o.ekey_evE]
      simp [drop1, hb, eq_comm]

/-! ## The fsyncer threads -/

theorem fs_cases (th f : String) (k : Nat) (l : IoEv2) (h : (call th (ev "Fsync" f 0 0 "fsyncer"))[k]? = some l) :
    (k = 0 ∧ l = ⟨true, ev "Fsync" f 0 0 "fsyncer", th⟩) ∨ (k = 1 ∧ l = ⟨false, ev "Fsync" f 0 0 "fsyncer", th⟩) :=
  call_cases th _ k l h

theorem inv_step_fsLn (P : Params) (hwf : P.WF) (s : PSt) (st : OrderSt) (id : Nat) (l : IoEv2)
    (h : Inv P s st id) (hl : (fsLnLines P)[s.fl]? = some l) (hgd : allDone s.bt = true) :
    ∃ st', orderStep st id l = .ok st' ∧ Inv P { s with fl := s.fl + 1 } st' (id + 1) := by
  have hpc' := pcinv_step P s _ l h.pc (.fsLn s l hl (fun _ => hgd))
  have hm0 : s.m = 0 := by
    rcases Nat.eq_zero_or_pos s.m with h0 | h0
    · exact h0
    · have := (h.pc.pre h0).2.1
      have hlt := (List.getElem?_eq_some_iff.mp hl).1
      simp [fsLnLines, call] at hlt; omega
  have hph : st.phase = 0 := by rw [h.phase, hm0]; rfl
  have hln := h.tab "ln" (mem_fileList_ln P)
  rw [fsOf_ln] at hln
  have htab : ∀ f ∈ fileList P, f ≠ "ln" → ∀ st0, Holds f st0 (fsOf P s f) →
      Holds f st0 (fsOf P { s with fl := s.fl + 1 } f) := by
    intro f _ hne st0 h0
    by_cases hw : f = "wal"
    · subst hw; exact h0
    · simp only [fsOf, if_neg hw, if_neg hne] at h0 ⊢
      exact h0
  have hmeta : ∀ st' : OrderSt, 0 < s.m → s.m < 4 → ∃ p ∈ st'.pend, p.file = "meta" ∧ p.id = st'.metaId := by
    intro st' h0; omega
  rcases fs_cases P.tLn "ln" s.fl l hl with ⟨hk, rfl⟩ | ⟨hk, rfl⟩
  · obtain ⟨st', hs, hpend, hsy, hph', hmid, hww⟩ := step_beginFsync st id "ln" 0 0 "fsyncer" P.tLn
    refine ⟨st', hs, h.next hs (mem_fileList_ln P) (by rw [hph', h.phase]) (by rw [hww, h.walW]) (hmeta st') hpc' htab ?_⟩
    show Holds "ln" st' (fsOf P _ "ln")
    rw [fsOf_ln]
    simp only [lnFS, hk] at hln ⊢
    simp at hln ⊢
    refine hln.beginFsync P.tLn (fun k => ?_) hpend hsy
    exact openBt_zero false k P.bt s.bt (fun x hx => by have := (allDone_iff s.bt).mp hgd x hx; omega)
  · simp only [lnFS, hk] at hln
    simp at hln
    obtain ⟨cov, rest, htk, hrest, hcov⟩ := hln.endSync
    obtain ⟨st', hs, hpend, hsy, hph', hmid, hww⟩ := step_endSync st id (ev "Fsync" "ln" 0 0 "fsyncer") P.tLn "ln"
      (Or.inl ⟨rfl, rfl⟩) cov rest htk
    refine ⟨st', hs, h.next hs (mem_fileList_ln P) ?_ (by rw [hww, h.walW]) (hmeta st') hpc' htab ?_⟩
    · rw [hph', hph, h.phase.symm.trans hph]; simp
    · show Holds "ln" st' (fsOf P _ "ln")
      rw [fsOf_ln]
      simp only [lnFS, hk]
      simp
      exact Holds.clean_of_endSync cov rest hrest hcov hpend hsy

theorem inv_step_fsBbn (P : Params) (hwf : P.WF) (s : PSt) (st : OrderSt) (id : Nat) (l : IoEv2)
    (h : Inv P s st id) (hl : (fsBbnLines P)[s.fb]? = some l) (hgd : allDone s.bt = true) :
    ∃ st', orderStep st id l = .ok st' ∧ Inv P { s with fb := s.fb + 1 } st' (id + 1) := by
  have hpc' := pcinv_step P s _ l h.pc (.fsBbn s l hl (fun _ => hgd))
  have hm0 : s.m = 0 := by
    rcases Nat.eq_zero_or_pos s.m with h0 | h0
    · exact h0
    · have := (h.pc.pre h0).2.2.1
      have hlt := (List.getElem?_eq_some_iff.mp hl).1
      simp [fsBbnLines, call] at hlt; omega
  have hph : st.phase = 0 := by rw [h.phase, hm0]; rfl
  have hbbn := h.tab "bbn" (mem_fileList_bbn P)
  rw [fsOf_bbn] at hbbn
  have htab : ∀ f ∈ fileList P, f ≠ "bbn" → ∀ st0, Holds f st0 (fsOf P s f) →
      Holds f st0 (fsOf P { s with fb := s.fb + 1 } f) := by
    intro f _ hne st0 h0
    by_cases hw : f = "wal"
    · subst hw; exact h0
    · by_cases hw2 : f = "ln"
      · subst hw2; exact h0
      · simp only [fsOf, if_neg hw, if_neg hw2, if_neg hne] at h0 ⊢
        exact h0
  have hmeta : ∀ st' : OrderSt, 0 < s.m → s.m < 4 → ∃ p ∈ st'.pend, p.file = "meta" ∧ p.id = st'.metaId := by
    intro st' h0; omega
  rcases fs_cases P.tBbn "bbn" s.fb l hl with ⟨hk, rfl⟩ | ⟨hk, rfl⟩
  · obtain ⟨st', hs, hpend, hsy, hph', hmid, hww⟩ := step_beginFsync st id "bbn" 0 0 "fsyncer" P.tBbn
    refine ⟨st', hs, h.next hs (mem_fileList_bbn P) (by rw [hph', h.phase]) (by rw [hww, h.walW]) (hmeta st') hpc' htab ?_⟩
    show Holds "bbn" st' (fsOf P _ "bbn")
    rw [fsOf_bbn]
    simp only [bbnFS, hk] at hbbn ⊢
    simp at hbbn ⊢
    refine hbbn.beginFsync P.tBbn (fun k => ?_) hpend hsy
    exact openBt_zero true k P.bt s.bt (fun x hx => by have := (allDone_iff s.bt).mp hgd x hx; omega)
  · simp only [bbnFS, hk] at hbbn
    simp at hbbn
    obtain ⟨cov, rest, htk, hrest, hcov⟩ := hbbn.endSync
    obtain ⟨st', hs, hpend, hsy, hph', hmid, hww⟩ := step_endSync st id (ev "Fsync" "bbn" 0 0 "fsyncer") P.tBbn "bbn"
      (Or.inl ⟨rfl, rfl⟩) cov rest htk
    refine ⟨st', hs, h.next hs (mem_fileList_bbn P) ?_ (by rw [hww, h.walW]) (hmeta st') hpc' htab ?_⟩
    · rw [hph', hph, h.phase.symm.trans hph]; simp
    · show Holds "bbn" st' (fsOf P _ "bbn")
      rw [fsOf_bbn]
      simp only [bbnFS, hk]
      simp
      exact Holds.clean_of_endSync cov rest hrest hcov hpend hsy

end Nomt.Store.SyncGen
