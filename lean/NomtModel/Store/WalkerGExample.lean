import NomtModel.Store.WalkerGSimTop
import NomtModel.Store.WalkerExample
/-!
# The two-page example with a RECONSTRUCTED page on the way (non-vacuity of the generalised walker theorems)

`Ex2` of `Store/WalkerExample.lean` — two keys sharing six zero bits, leaves in the child page `[0]` — with page `[0]` carrying
`PageOrigin::Reconstructed { page_leaves_counter: 2, children_leaves_counter: 0, diff: {0, 1} }` instead of `Persisted`.
-/
namespace Nomt.Walker.Ex2
open Nomt Nomt.Walker Nomt.TriePos

def ps2r : PageSet T where
  get := fun P =>
    if P = [] then some (⟨nodes2 P, 0⟩, .persisted (some 0))
    else if P = [0] then some (⟨nodes2 P, 0⟩, .reconstructed 2 0 ⟨3, 0⟩) else none
  fresh := fun _ => List.replicate 126 T.term

theorem slots2r_ok : ∀ q ∈ slots2, flatStore TH ps2r root2 q = specNode TH S2 q := by decide +kernel

theorem rep2r : Represents TH ps2r root2 S2 := by
  intro q _ _ hm
  rcases mean_slots2 q hm with h | h
  · subst h; rfl
  · exact slots2r_ok q h

theorem oldTot2r (P : PageId) (hne : P ≠ [0]) : oldTot ps2r P = 0 := by
  unfold oldTot
  by_cases h0 : P = []
  · subst h0; rfl
  · simp [ps2r, h0, hne]

theorem origins2r : OriginsOK ps2r := by
  intro P
  have hz : ∀ Q : PageId, Q ≠ [] → fullSum ps2r Q = 0 := by
    intro Q hQ
    apply fullSum_zero_of_children
    intro ci
    apply oldTot2r
    intro e
    cases Q with
    | nil => exact hQ rfl
    | cons x xs => simp at e
  by_cases h0 : P = []
  · subst h0; rfl
  · unfold originOK
    have := hz P h0
    cases hg : ps2r.get P with
    | none => simp only [decide_eq_true_eq]; omega
    | some x =>
      obtain ⟨pg, o⟩ := x
      cases o with
      | persisted b => rfl
      | reconstructed pl cl d => simp only [decide_eq_true_eq]; omega

theorem psok2r : G.PSOK ps2r steps2 := by
  refine ⟨fun _ => by simp [ps2r], ?_, origins2r, ?_⟩
  rotate_left
  · intro s hs _ q hq h6
    simp only [steps2, List.mem_singleton] at hs
    rw [hs] at hq
    have hl : 7 ≤ q.length := by
      have := hq.length_le
      simpa [t2] using this
    have hsl : 2 ≤ (sextetsOf q).length := by rw [sextetsOf_length]; omega
    have h1 : sextetsOf q ≠ [] := by intro e; rw [e] at hsl; simp at hsl
    have h2 : sextetsOf q ≠ [0] := by intro e; rw [e] at hsl; simp at hsl
    simp [ps2r, h1, h2]
  intro s hs _ Q hQ
  simp only [steps2, List.mem_singleton] at hs
  rw [hs] at hQ
  change Q <+: specPage t2 at hQ
  rw [specPage_t2] at hQ
  have hQ' : Q = [] ∨ Q = [0] := by
    obtain ⟨r, hr⟩ := hQ
    cases Q with
    | nil => exact Or.inl rfl
    | cons a as =>
      right
      cases as with
      | nil => simp at hr; rw [hr.1]
      | cons _ _ => simp at hr
  rcases hQ' with h | h
  · subst h
    exact ⟨⟨nodes2 [], 0⟩, .persisted (some 0), by simp [ps2r], by simp [nodes2]⟩
  · subst h
    exact ⟨⟨nodes2 [0], 0⟩, .reconstructed 2 0 ⟨3, 0⟩, by simp [ps2r], by simp [nodes2]⟩

/-- the walk below ROOT really runs through the reconstructed page (kernel evaluation): no panic, one child-page root -/
theorem run2r_ok :
    (match (Walker.startP root2 (some []) false).runM TH ps2r steps2 with
     | .ok w => (match w.conclude TH with | .ok (.childPageRoots roots _) => roots.length | _ => 0)
     | _ => 0) = 1 := by decide +kernel

end Nomt.Walker.Ex2
