import NomtModel.Store.ImgBytes
/-!
Decoders (and mirror encoders) of the page formats of a nomt directory, written from the documented
layouts — not from nomt's read path:

* `meta`            — `nomt/src/store/meta.rs` (`Meta::encode_to`)
* leaf page         — `nomt/src/beatree/leaf/node.rs` (layout comment at the top of the file)
* overflow cell/page— `nomt/src/beatree/ops/overflow.rs`
* free-list page    — `nomt/src/beatree/allocator/free_list.rs` (`FreeListPageRef`)
* branch page       — `nomt/src/beatree/branch/node.rs` (layout comment), key reconstruction per the
                      reference semantics of `bit_ops.rs` (`reference_reconstruct_key`)
* seglog record hdr — `nomt/src/seglog/mod.rs` (`RecordHeader`)
-/
namespace Nomt.Store

/-! ## meta -/

/-- the 64-byte manifest; all fields are numbers (`seed0`/`seed1` = the 16 seed bytes as two LE u64) -/
structure Meta where
  magic : Nat
  version : Nat
  lnFreelistPn : Nat
  lnBump : Nat
  bbnFreelistPn : Nat
  bbnBump : Nat
  syncSeqn : Nat
  bitboxNumPages : Nat
  seed0 : Nat
  seed1 : Nat
  rollbackStartLive : Nat
  rollbackEndLive : Nat
deriving Repr, DecidableEq

/-- `b"NOMT"` read as a little-endian u32 -/
def MAGIC : Nat := 0x544D4F4E
def VERSION : Nat := 1
def META_SIZE : Nat := 64

def Meta.WF (m : Meta) : Prop :=
  m.magic < 2^32 ∧ m.version < 2^32 ∧ m.lnFreelistPn < 2^32 ∧ m.lnBump < 2^32 ∧ m.bbnFreelistPn < 2^32 ∧
  m.bbnBump < 2^32 ∧ m.syncSeqn < 2^32 ∧ m.bitboxNumPages < 2^32 ∧ m.seed0 < 2^64 ∧ m.seed1 < 2^64 ∧
  m.rollbackStartLive < 2^64 ∧ m.rollbackEndLive < 2^64

/-- mirror of `Meta::encode_to` -/
def encodeMetaL (m : Meta) : List UInt8 :=
  le32 m.magic ++ le32 m.version ++ le32 m.lnFreelistPn ++ le32 m.lnBump ++ le32 m.bbnFreelistPn ++
  le32 m.bbnBump ++ le32 m.syncSeqn ++ le32 m.bitboxNumPages ++ le64 m.seed0 ++ le64 m.seed1 ++
  le64 m.rollbackStartLive ++ le64 m.rollbackEndLive

def encodeMeta (m : Meta) : ByteArray := (encodeMetaL m).toByteArray

def decodeMeta (b : ByteArray) : Option Meta :=
  if b.size < META_SIZE then none else
  some { magic := u32le b 0, version := u32le b 4, lnFreelistPn := u32le b 8, lnBump := u32le b 12,
         bbnFreelistPn := u32le b 16, bbnBump := u32le b 20, syncSeqn := u32le b 24,
         bitboxNumPages := u32le b 28, seed0 := u64le b 32, seed1 := u64le b 40,
         rollbackStartLive := u64le b 48, rollbackEndLive := u64le b 56 }

/-- `Meta::validate` plus the documented "bump is always more than 0 / page 0 is reserved" -/
def validateMeta (m : Meta) : Except String Unit := do
  if m.magic != MAGIC then throw s!"meta: invalid magic {m.magic}"
  if m.version != VERSION then throw s!"meta: unsupported version {m.version}"
  if (m.rollbackStartLive == 0) != (m.rollbackEndLive == 0) then throw "meta: rollback live range half nil"
  if m.rollbackStartLive > m.rollbackEndLive then throw "meta: rollback live range inverted"
  if m.lnBump == 0 then throw "meta: ln_bump = 0"
  if m.bbnBump == 0 then throw "meta: bbn_bump = 0"
  if m.lnFreelistPn ≥ m.lnBump then throw "meta: ln free-list head beyond bump"
  if m.bbnFreelistPn ≥ m.bbnBump then throw "meta: bbn free-list head beyond bump"

/-! ## pages of a file -/

def numPages (f : ByteArray) : Nat := f.size / PAGE

def pageOf (f : ByteArray) (pn : Nat) : Option ByteArray :=
  if (pn + 1) * PAGE ≤ f.size then some (f.extract (pn * PAGE) ((pn + 1) * PAGE)) else none

/-! ## leaf pages -/

def LEAF_NODE_BODY_SIZE : Nat := PAGE - 2
def MAX_LEAF_VALUE_SIZE : Nat := LEAF_NODE_BODY_SIZE / 3 - 32
def MAX_OVERFLOW_CELL_NODE_POINTERS : Nat := 15
def MAX_OVERFLOW_VALUE_SIZE : Nat := 2^29

structure LeafEntry where
  key : ByteArray
  overflow : Bool
  cell : ByteArray

/-- entry `i` of a leaf page with `n` entries -/
def decodeLeafEntry (p : ByteArray) (n i : Nat) : Except String LeafEntry := do
  let off (i : Nat) : Nat := u16le p (2 + 34 * i + 32) % 32768
  let raw := u16le p (2 + 34 * i + 32)
  let s := raw % 32768
  let e := if i + 1 == n then PAGE else off (i + 1)
  if s < 2 + 34 * n then throw s!"leaf: cell {i} starts inside the cell pointers"
  if e < s then throw s!"leaf: cell {i} has negative length"
  if e > PAGE then throw s!"leaf: cell {i} ends after the page"
  let ov := raw ≥ 32768
  let len := e - s
  if ov then
    if len < 44 || len % 4 != 0 || len > 40 + 4 * MAX_OVERFLOW_CELL_NODE_POINTERS then
      throw s!"leaf: overflow cell {i} of length {len}"
  else if len > MAX_LEAF_VALUE_SIZE then throw s!"leaf: inline value {i} of length {len}"
  pure { key := p.extract (2 + 34 * i) (2 + 34 * i + 32), overflow := ov, cell := p.extract s e }

/-- `n: u16 | (key ++ offset)[n] | padding | cells`; a cell ends where the next one starts, the last
one at the end of the page; bit 15 of the offset marks an overflow cell. -/
def decodeLeaf (p : ByteArray) : Except String (List LeafEntry) := do
  if p.size != PAGE then throw "leaf: not a page"
  let n := u16le p 0
  if n == 0 then throw "leaf: n = 0"
  if 2 + 34 * n ≥ PAGE then throw s!"leaf: n = {n} does not fit"
  (List.range n).mapM (decodeLeafEntry p n)

/-! ## overflow cells and pages -/

structure OverflowCell where
  valueSize : Nat
  valueHash : ByteArray
  pages : List Nat

/-- mirror of `overflow::encode_cell` -/
def encodeOverflowCellL (valueSize : Nat) (hash : List UInt8) (pages : List Nat) : List UInt8 :=
  le64 valueSize ++ hash ++ pages.flatMap le32

def encodeOverflowCell (c : OverflowCell) : ByteArray :=
  (encodeOverflowCellL c.valueSize c.valueHash.data.toList c.pages).toByteArray

/-- `(u64 value_size, u256 value_hash, [u32 page])` -/
def decodeOverflowCell (b : ByteArray) : Option OverflowCell :=
  if b.size < 44 ∨ b.size % 4 ≠ 0 then none else
  some { valueSize := u64le b 0, valueHash := b.extract 8 40,
         pages := (List.range ((b.size - 40) / 4)).map (fun i => u32le b (40 + 4 * i)) }

def OVERFLOW_BODY_SIZE : Nat := PAGE - 4

/-- `n_pointers: u16 | n_bytes: u16 | pointers | bytes` -/
def decodeOverflowPage (p : ByteArray) : Except String (List Nat × ByteArray) := do
  if p.size != PAGE then throw "overflow page: not a page"
  let np := u16le p 0
  let nb := u16le p 2
  if 4 + 4 * np + nb > PAGE then throw s!"overflow page: {np} pointers + {nb} bytes do not fit"
  pure ((List.range np).map (fun i => u32le p (4 + 4 * i)), p.extract (4 + 4 * np) (4 + 4 * np + nb))

/-- mirror of `overflow::total_needed_pages`: the deterministic number of pages of a value -/
def totalNeededPages (valueSize : Nat) : Nat :=
  let bs := OVERFLOW_BODY_SIZE
  let np := (valueSize + bs - 1) / bs
  if np ≤ MAX_OVERFLOW_CELL_NODE_POINTERS then np else
  let bytesLeft := np * bs - valueSize
  if np ≤ MAX_OVERFLOW_CELL_NODE_POINTERS + bytesLeft / 4 then np else
  let n := valueSize + (np - MAX_OVERFLOW_CELL_NODE_POINTERS) * 4 - np * bs
  np + (n + bs - 3) / (bs - 4)

/-- follow the page list: the cell's pages first, every page read appends its own pointers to the
work list and its bytes to the value.  `fuel` = number of pages of the file. -/
def readOverflowLoop (ln : ByteArray) (bump : Nat) :
    (fuel : Nat) → (queue : Array Nat) → (idx : Nat) → (acc : ByteArray) → Except String (ByteArray × Array Nat)
  | 0, q, idx, acc => if idx ≥ q.size then pure (acc, q) else throw "overflow: page list longer than the file"
  | fuel + 1, q, idx, acc =>
    if idx ≥ q.size then pure (acc, q) else do
      let pn := q[idx]!
      if pn == 0 || pn ≥ bump then throw s!"overflow: page {pn} outside [1,{bump})"
      match pageOf ln pn with
      | none => throw s!"overflow: page {pn} beyond the end of ln"
      | some pg =>
        let (pns, bytes) ← decodeOverflowPage pg
        readOverflowLoop ln bump fuel (q ++ pns.toArray) (idx + 1) (acc ++ bytes)

/-- the value of an overflow cell and the pages it occupies -/
def readOverflowValue (ln : ByteArray) (bump : Nat) (cell : ByteArray) : Except String (ByteArray × List Nat) := do
  match decodeOverflowCell cell with
  | none => throw "overflow: malformed cell"
  | some c =>
    if c.valueSize > MAX_OVERFLOW_VALUE_SIZE then throw "overflow: value size over the maximum"
    if c.valueSize ≤ MAX_LEAF_VALUE_SIZE then throw s!"overflow: value of size {c.valueSize} should be inline"
    let (v, pages) ← readOverflowLoop ln bump bump c.pages.toArray 0 ByteArray.empty
    if v.size != c.valueSize then throw s!"overflow: chain holds {v.size} bytes, cell declares {c.valueSize}"
    if pages.size != totalNeededPages c.valueSize then
      throw s!"overflow: {pages.size} pages for a value of {c.valueSize} bytes (expected {totalNeededPages c.valueSize})"
    if c.pages.length != min (totalNeededPages c.valueSize) MAX_OVERFLOW_CELL_NODE_POINTERS then
      throw s!"overflow: {c.pages.length} pointers in the cell"
    pure (v, pages.toList)

/-! ## free-list pages -/

def MAX_PNS_PER_FREELIST_PAGE : Nat := (PAGE - 6) / 4

/-- mirror of `encode_free_list_page` (zero padded to a page) -/
def encodeFreeListPageL (prev : Nat) (items : List Nat) : List UInt8 :=
  le32 prev ++ le16 items.length ++ items.flatMap le32

def encodeFreeListPage (prev : Nat) (items : List Nat) : ByteArray :=
  let l := encodeFreeListPageL prev items
  (l ++ List.replicate (PAGE - l.length) 0).toByteArray

/-- `prev: u32 | item_count: u16 | items: [u32]` -/
def decodeFreeListPage (p : ByteArray) : Option (Nat × List Nat) :=
  if p.size < PAGE then none else
  let cnt := u16le p 4
  if cnt > MAX_PNS_PER_FREELIST_PAGE then none else
  some (u32le p 0, (List.range cnt).map (fun i => u32le p (6 + 4 * i)))

/-- follow the chain of free-list pages from `head` (0 = empty list); result: head first -/
def freeListAll (f : ByteArray) (bump : Nat) : (fuel : Nat) → (pn : Nat) → Except String (List (Nat × List Nat))
  | _, 0 => pure []
  | 0, _ => throw "free list: chain longer than the file (cycle)"
  | fuel + 1, pn => do
    if pn ≥ bump then throw s!"free list: page {pn} beyond bump {bump}"
    match pageOf f pn with
    | none => throw s!"free list: page {pn} beyond the end of the file"
    | some pg =>
      match decodeFreeListPage pg with
      | none => throw s!"free list: page {pn} malformed (item count)"
      | some (prev, items) =>
        if items.isEmpty then throw s!"free list: page {pn} holds no item"
        let rest ← freeListAll f bump fuel prev
        pure ((pn, items) :: rest)

/-! ## branch pages -/

structure Branch where
  bbnPn : Nat
  prefixLen : Nat
  prefixCompressed : Nat
  /-- (separator as a 256-bit number, child leaf page number) -/
  seps : List (Nat × Nat)

def BRANCH_HEADER : Nat := 10

/-- separator `i` (as a 256-bit number) and node pointer `i` of a branch page with header values
`n`, `pc` (prefix-compressed count), `pl` (prefix length), `pfx` = the prefix bits as a number -/
def decodeBranchSep (p : ByteArray) (n pc pl pfx i : Nat) : Except String (Nat × Nat) := do
  let bitsBase := BRANCH_HEADER + 2 * n
  let cell (i : Nat) : Nat := u16le p (BRANCH_HEADER + 2 * i)
  let s := if i == 0 then 0 else cell (i - 1)
  let e := cell i
  if e < s then throw s!"branch: cell {i} ends before it starts"
  if e > cell (n - 1) then throw s!"branch: cell {i} ends after the last cell"
  let len := e - s
  let bits := bitsNat p bitsBase (pl + s) len
  let (total, val) := if i < pc then (pl + len, pfx * 2 ^ len + bits) else (len, bits)
  if total > 256 then throw s!"branch: separator {i} has {total} bits"
  pure (val * 2 ^ (256 - total), u32le p (PAGE - 4 * (n - i)))

/-- `bbn_pn u32 | n u16 | prefix_compressed u16 | prefix_len u16 | cells u16[n] | prefix bits ++
separator bits | … | node pointers u32[n]` (pointers aligned to the end of the page).  Separator `i`
occupies bits `[cell(i-1), cell(i))` after the prefix; the first `prefix_compressed` separators are
stored without the shared prefix.  A key is the stored bits followed by zeros. -/
def decodeBranch (p : ByteArray) : Except String Branch := do
  if p.size != PAGE then throw "branch: not a page"
  let n := u16le p 4
  let pc := u16le p 6
  let pl := u16le p 8
  if n == 0 then throw "branch: n = 0"
  if pc > n then throw s!"branch: prefix_compressed {pc} > n {n}"
  if pl > 256 then throw s!"branch: prefix_len {pl}"
  let bitsBase := BRANCH_HEADER + 2 * n
  let cell (i : Nat) : Nat := u16le p (BRANCH_HEADER + 2 * i)
  if bitsBase + 4 * n > PAGE then throw s!"branch: n = {n} does not fit"
  let totalBits := pl + cell (n - 1)
  if bitsBase + (totalBits + 7) / 8 + 4 * n > PAGE then throw s!"branch: {totalBits} separator bits do not fit"
  let pfx := bitsNat p bitsBase 0 pl
  let seps ← (List.range n).mapM (decodeBranchSep p n pc pl pfx)
  pure { bbnPn := u32le p 0, prefixLen := pl, prefixCompressed := pc, seps := seps }

/-! ## seglog record header -/

def encodeRecordHeaderL (payloadLen recordId : Nat) : List UInt8 := le32 payloadLen ++ le64 recordId
def encodeRecordHeader (payloadLen recordId : Nat) : ByteArray := (encodeRecordHeaderL payloadLen recordId).toByteArray

/-- `payload_length: u32 | record_id: u64` -/
def decodeRecordHeader (b : ByteArray) (o : Nat) : Option (Nat × Nat) :=
  if b.size < o + 12 then none else some (u32le b o, u64le b (o + 4))

end Nomt.Store
