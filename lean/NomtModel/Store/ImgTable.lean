import NomtModel.Store.ImgFormats
import NomtModel.Store.Xxh3
/-!
The hash-table file `ht` (bitbox), the write-ahead log `wal` and the rollback segment files.

* `ht` = `ceil(num_pages / 4096)` pages of meta bytes, then `num_pages` bucket pages
  (`bitbox/ht_file.rs`).  Meta byte: `0` empty, `0x7f` tombstone, `0x80 | (hash >> 57)` full
  (`bitbox/meta_map.rs`).
* merkle page: 126 nodes of 32 bytes, elided-children bitfield (u64 LE) at `4096-40`, 32-byte label
  (= `PageId::encode`) at `4096-32` (`page_cache.rs`, `core/src/page.rs`).
* page id label, AS IMPLEMENTED by `PageId::encode` (`core/src/page_id.rs`): for every child index
  `c` of the path, `word += c + 1; word <<= 6` — i.e. 64 × the documented `parent*64 + c + 1` number.
* probing (`bitbox/mod.rs`): `hash = xxh3_64(seed = BE u64 of seed[0..8], label)`;
  `bucket = hash % n`, then `bucket += step; step += 1; bucket %= n` before every look.
-/
namespace Nomt.Store

/-! ## page ids -/

def MAX_PAGE_DEPTH : Nat := 42

/-- `PageId::encode` as implemented (add, then shift), truncated to 256 bits -/
def encodePageId (path : List Nat) : Nat :=
  (path.foldl (fun w c => (w + c + 1) * 64) 0) % 2^256

def decodePageIdLoop : (fuel : Nat) → (w : Nat) → (acc : List Nat) → Option (List Nat)
  | _, 0, acc => some acc
  | 0, _, _ => none
  | fuel + 1, w, acc => decodePageIdLoop fuel ((w - 1) / 64) ((w - 1) % 64 :: acc)

/-- the path of child indices of a label, in the code's convention; `none` if no path encodes to it -/
def decodePageId (label : Nat) : Option (List Nat) :=
  if label % 64 ≠ 0 then none else
  match decodePageIdLoop MAX_PAGE_DEPTH (label / 64) [] with
  | some p => if encodePageId p == label then some p else none
  | none => none

/-! ## merkle pages -/

def NODES_PER_PAGE : Nat := 126

structure MerklePage where
  /-- file offset of node 0 inside `ht` (nodes are read lazily) -/
  off : Nat
  elided : Nat
  label : Nat
  pageId : List Nat
  bucket : Nat

def decodeMerklePage (ht : ByteArray) (off : Nat) (bucket : Nat) : Option MerklePage :=
  if off + PAGE > ht.size then none else
  let label := beNat ht (off + PAGE - 32) 32
  match decodePageId label with
  | none => none
  | some p => some { off := off, elided := u64le ht (off + PAGE - 40), label := label, pageId := p, bucket := bucket }

def MerklePage.node (ht : ByteArray) (pg : MerklePage) (i : Nat) : ByteArray :=
  ht.extract (pg.off + 32 * i) (pg.off + 32 * i + 32)

/-! ## meta map -/

def numMetaBytePages (n : Nat) : Nat := (n + 4095) / PAGE

inductive Slot where | empty | tombstone | full (tag : Nat)
deriving DecidableEq, Repr, Inhabited

def decodeSlot (m : Nat) : Option Slot :=
  if m == 0 then some .empty else if m == 0x7f then some .tombstone
  else if m ≥ 128 then some (.full (m - 128)) else none

/-! The checks below are written as structural recursions (not `for` loops) so that
`Store/TableCheck.lean` can prove what an accepted table satisfies (`Probe.Inv`, `Probe.NoDup`). -/

/-- `slots[b]`, `.empty` outside the table -/
def slotOf (slots : Array Slot) (b : Nat) : Slot := (slots[b]?).getD .empty

/-- meta bytes `i, i+1, …, i+fuel-1` appended to `out` -/
def decodeSlotsGo (ht : ByteArray) : (fuel i : Nat) → Array Slot → Except String (Array Slot)
  | 0, _, out => .ok out
  | fuel + 1, i, out =>
    match decodeSlot (u8 ht i) with
    | some s => decodeSlotsGo ht fuel (i + 1) (out.push s)
    | none => .error s!"ht: meta byte {u8 ht i} of bucket {i} is neither empty, tombstone nor full"

/-- the padding after the last bucket's meta byte is never written -/
def paddingZero (ht : ByteArray) (n : Nat) : Except String Unit := do
  for i in [n:numMetaBytePages n * PAGE] do
    if u8 ht i != 0 then throw s!"ht: meta byte {i} beyond the last bucket is not zero"

/-- the meta bytes of all buckets -/
def decodeMetaMap (ht : ByteArray) (n : Nat) : Except String (Array Slot) :=
  if ht.size != (numMetaBytePages n + n) * PAGE then
    .error s!"ht: file length {ht.size} != {(numMetaBytePages n + n) * PAGE}"
  else
    match decodeSlotsGo ht n 0 (Array.mkEmpty n) with
    | .error e => .error e
    | .ok out =>
      match paddingZero ht n with
      | .error e => .error e
      | .ok _ => .ok out

structure TableStats where
  full : Nat
  tomb : Nat
  pages : Array MerklePage

/-- the probe loop: `b`, `step` are the fields of `ProbeSequence` before the next look -/
def probeReachesGo (slots : Array Slot) (n target : Nat) : (fuel b step : Nat) → Except String Unit
  | 0, _, _ => .error s!"bucket {target} is not on the probe sequence of its page id"
  | fuel + 1, b, step =>
    let b' := (b + step) % n
    if b' == target then .ok ()
    else if slotOf slots b' == .empty then
      .error s!"bucket {target}: empty bucket {b'} earlier on its probe sequence"
    else probeReachesGo slots n target fuel b' (step + 1)

/-- does `target` lie on the probe sequence of `hash`, with no empty bucket before it
(triangular probing modulo n has period 2n: `2n + 1` looks suffice) -/
def probeReaches (slots : Array Slot) (n hash target : Nat) : Except String Unit :=
  probeReachesGo slots n target (2 * n + 1) (hash % n) 0

/-- XXH3-64 (seeded) of the 32-byte big-endian encoding of a page-id label: `hash_raw_page_id` -/
def hashLabel (seed label : Nat) : Nat := xxh3_32 (natToBytesBE label 32) 0 seed

/-- full bucket `i` with meta tag `tag`: the data page's label decodes to a page id; the hash of the
label bytes in the file is the hash of the label (as a number, re-encoded); the 7-bit tag matches;
the bucket lies on the probe sequence of that hash with no empty bucket before it -/
def checkBucket (ht : ByteArray) (slots : Array Slot) (n base seed i tag : Nat) : Except String MerklePage :=
  match decodeMerklePage ht (base + i * PAGE) i with
  | none => .error s!"ht: full bucket {i} holds a page whose label is not a page id"
  | some pg =>
    let h := xxh3_32 ht (base + i * PAGE + PAGE - 32) seed
    if h != hashLabel seed pg.label then
      .error s!"ht: bucket {i}: hash of the label bytes {h} != hash of the label {hashLabel seed pg.label}"
    else if h / 2^57 != tag then .error s!"ht: bucket {i} tag {tag} != hash tag {h / 2^57}"
    else
      match probeReaches slots n h i with
      | .error e => .error e
      | .ok _ => .ok pg

/-- buckets `i, …, i+fuel-1` -/
def wfTableGo (ht : ByteArray) (slots : Array Slot) (n base seed : Nat) :
    (fuel i : Nat) → Array MerklePage → Nat → Except String (Array MerklePage × Nat)
  | 0, _, pages, tomb => .ok (pages, tomb)
  | fuel + 1, i, pages, tomb =>
    match slotOf slots i with
    | .empty => wfTableGo ht slots n base seed fuel (i + 1) pages tomb
    | .tombstone => wfTableGo ht slots n base seed fuel (i + 1) pages (tomb + 1)
    | .full tag =>
      match checkBucket ht slots n base seed i tag with
      | .error e => .error e
      | .ok pg => wfTableGo ht slots n base seed fuel (i + 1) (pages.push pg) tomb

/-- the first element equal to its successor -/
def firstAdjDup : List Nat → Option Nat
  | a :: b :: r => if a == b then some a else firstAdjDup (b :: r)
  | _ => none

/-- every full bucket holds a page whose label decodes to a page id; no label twice; the bucket lies
on the probe sequence of the label's hash with no empty bucket before it; the 7-bit tag matches. -/
def wfTable (ht : ByteArray) (m : Meta) (seed : Nat) : Except String TableStats :=
  let n := m.bitboxNumPages
  if n == 0 then .error "ht: zero buckets" else
  match decodeMetaMap ht n with
  | .error e => .error e
  | .ok slots =>
    match wfTableGo ht slots n (numMetaBytePages n * PAGE) seed n 0 #[] 0 with
    | .error e => .error e
    | .ok (pages, tomb) =>
      match firstAdjDup ((pages.toList.map (·.label)).mergeSort (fun a b => decide (a ≤ b))) with
      | some l => .error s!"ht: page id label {l} stored twice"
      | none => .ok { full := pages.size, tomb := tomb, pages := pages }

/-! ## write-ahead log -/

inductive WalEntry where
  | clear (bucket : Nat)
  | update (label : Nat) (diff0 diff1 : Nat) (nodesOff : Nat) (elided : Nat) (bucket : Nat)

def popCount (n : Nat) : Nat := (List.range 64).foldl (fun acc i => acc + n / 2^i % 2) 0

def decodeWalLoop (wal : ByteArray) : (fuel : Nat) → (o : Nat) → (acc : Array WalEntry) → Except String (Array WalEntry)
  | 0, _, _ => throw "wal: too many entries"
  | fuel + 1, o, acc =>
    if o ≥ wal.size then throw "wal: unexpected end" else
    let tag := u8 wal o
    if tag == 2 then pure acc
    else if tag == 3 then
      if o + 9 > wal.size then throw "wal: truncated clear" else
      decodeWalLoop wal fuel (o + 9) (acc.push (.clear (u64le wal (o + 1))))
    else if tag == 4 then
      if o + 49 > wal.size then throw "wal: truncated update" else
      let d0 := u64le wal (o + 33)
      let d1 := u64le wal (o + 41)
      if d1 ≥ 2^62 then throw "wal: reserved page-diff bits set" else
      let cnt := popCount d0 + popCount d1
      let e := o + 49 + 32 * cnt
      if e + 16 > wal.size then throw "wal: truncated update" else
      decodeWalLoop wal fuel (e + 16) (acc.push (.update (beNat wal (o + 1) 32) d0 d1 (o + 49) (u64le wal e) (u64le wal (e + 8))))
    else throw s!"wal: unknown entry tag {tag}"

/-- `START(1) seqn:u32 | entries | END(2)`; `none` for an empty (truncated) file -/
def decodeWal (wal : ByteArray) : Except String (Option (Nat × Array WalEntry)) := do
  if wal.size == 0 then return none
  if wal.size % PAGE != 0 then throw "wal: size is not a multiple of the page size"
  if u8 wal 0 != 1 then throw "wal: no start tag"
  let es ← decodeWalLoop wal wal.size 5 #[]
  pure (some (u32le wal 1, es))

/-! ## rollback segment files -/

/-- a rollback delta: `erase: u32, keys[32]…, reinstate: u32, (key[32], len: u32, value)…`;
returns the number of erased and reinstated keys if the payload is exactly one delta -/
def decodeDelta (b : ByteArray) (o len : Nat) : Except String (Nat × Nat) := do
  if len < 4 then throw "delta: truncated"
  let ne := u32le b o
  let p := o + 4 + 32 * ne
  if p + 4 > o + len then throw "delta: truncated erase list"
  let nr := u32le b p
  let mut q := p + 4
  for _ in [0:nr] do
    if q + 36 > o + len then throw "delta: truncated reinstate list"
    q := q + 36 + u32le b (q + 32)
  if q != o + len then throw s!"delta: {o + len - q} trailing bytes"
  pure (ne, nr)

/-- scan one segment file: records `(id, erased, reinstated)`; each record starts 4 KiB aligned -/
def scanSegment (b : ByteArray) : (fuel : Nat) → (o : Nat) → (acc : List (Nat × Nat × Nat)) → Except String (List (Nat × Nat × Nat))
  | 0, _, acc => pure acc.reverse
  | fuel + 1, o, acc =>
    if o ≥ b.size then pure acc.reverse else
    match decodeRecordHeader b o with
    | none => throw "seglog: truncated record header"
    | some (len, id) => do
      if o + 12 + len > b.size then throw s!"seglog: record {id} payload beyond the end of the segment"
      let (ne, nr) ← decodeDelta b (o + 12) len
      scanSegment b fuel ((o + 12 + len + PAGE - 1) / PAGE * PAGE) ((id, ne, nr) :: acc)

end Nomt.Store
