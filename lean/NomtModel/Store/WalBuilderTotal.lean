import NomtModel.Store.WalEncode
/-!
The WAL builder never panics below 128 GiB: with a mapping whose size is a positive multiple of the page size (the
code uses `1 << 30`), `reset; write_*…; finalize` reaches none of its panic sites — `checked_add`, "WAL blob too
large", a copy or zero fill past the end of the mapping — as long as the blob body stays below `MAX_SIZE`; the
result is then `encode seqn entries` (by `Builder.run_ok`).
-/
namespace Nomt.Wal
namespace Builder

def SizeInv (s : Nat) : Prop := 1 ≤ s ∧ s % PAGE_SIZE = 0

theorem growLoop_pow (f s m : Nat) : ∃ k, growLoop f s m = s * 2 ^ k := by
  induction f generalizing s with
  | zero => exact ⟨0, by simp [growLoop]⟩
  | succ f ih =>
    unfold growLoop
    by_cases h : s < m ∧ s < MAX_SIZE
    · simp only [h, and_self, if_true]
      have : min (s * 2) (2 ^ 64 - 1) = s * 2 := by
        have := h.2; unfold MAX_SIZE at this; omega
      rw [this]
      obtain ⟨k, hk⟩ := ih (s * 2)
      exact ⟨k + 1, by rw [hk, Nat.pow_succ]; ac_rfl⟩
    · simp only [h, if_false]
      exact ⟨0, by simp⟩

theorem growLoop_ge (f s m : Nat) : min (min m MAX_SIZE) (s * 2 ^ f) ≤ growLoop f s m := by
  induction f generalizing s with
  | zero => simp [growLoop]; omega
  | succ f ih =>
    unfold growLoop
    by_cases h : s < m ∧ s < MAX_SIZE
    · simp only [h, and_self, if_true]
      have : min (s * 2) (2 ^ 64 - 1) = s * 2 := by
        have := h.2; unfold MAX_SIZE at this; omega
      rw [this]
      have := ih (s * 2)
      have e : s * 2 * 2 ^ f = s * 2 ^ (f + 1) := by rw [Nat.pow_succ]; ac_rfl
      rw [e] at this
      exact this
    · simp only [h, if_false]
      have : m ≤ s ∨ MAX_SIZE ≤ s := by
        by_cases a : s < m
        · right; exact Nat.le_of_not_lt (fun b => h ⟨a, b⟩)
        · left; omega
      omega

theorem grown_size {s m : Nat} (hs : SizeInv s) (hm : m < MAX_SIZE) :
    m ≤ min (growLoop 64 s m) MAX_SIZE ∧ SizeInv (min (growLoop 64 s m) MAX_SIZE) := by
  have hge := growLoop_ge 64 s m
  have hbig : MAX_SIZE ≤ s * 2 ^ 64 := by
    have : 1 * 2 ^ 64 ≤ s * 2 ^ 64 := Nat.mul_le_mul_right _ hs.1
    unfold MAX_SIZE; omega
  obtain ⟨k, hk⟩ := growLoop_pow 64 s m
  refine ⟨by omega, ?_, ?_⟩
  · have : 1 ≤ growLoop 64 s m := by
      rw [hk]; exact Nat.mul_pos hs.1 (Nat.two_pow_pos k)
    unfold MAX_SIZE; omega
  · by_cases h : growLoop 64 s m ≤ MAX_SIZE
    · rw [Nat.min_eq_left h, hk, Nat.mul_mod, hs.2]; simp
    · rw [Nat.min_eq_right (by omega)]; rfl

theorem write_total {b : Builder} {c : Bytes} (hs : SizeInv b.size) (hlt : b.cur + c.length < MAX_SIZE) :
    ∃ b', b.write c = .ok b' ∧ SizeInv b'.size := by
  unfold write
  have h1 : ¬ (b.cur + c.length ≥ 2 ^ 64) := by unfold MAX_SIZE at hlt; omega
  simp only [h1, if_false]
  by_cases h2 : b.cur + c.length ≥ b.size
  · have h3 : ¬ (b.size ≥ MAX_SIZE) := by omega
    obtain ⟨g1, g2⟩ := grown_size (m := b.cur + c.length) hs hlt
    have h4 : ¬ (b.cur + c.length > min (growLoop 64 b.size (b.cur + c.length)) MAX_SIZE) := by omega
    simp only [h2, if_true, h3, if_false, h4]
    exact ⟨_, rfl, g2⟩
  · have h4 : ¬ (b.cur + c.length > b.size) := by omega
    simp only [h2, if_false, h4]
    exact ⟨_, rfl, hs⟩

theorem writeMany_total {cs : List Bytes} : ∀ {b : Builder}, SizeInv b.size → b.cur + cs.flatten.length < MAX_SIZE →
    ∃ b', b.writeMany cs = .ok b' ∧ SizeInv b'.size := by
  induction cs with
  | nil => intro b hs _; exact ⟨b, rfl, hs⟩
  | cons c cs ih =>
    intro b hs hlt
    simp only [List.flatten_cons, List.length_append] at hlt
    obtain ⟨b1, h1, hs1⟩ := write_total (b := b) (c := c) hs (by omega)
    obtain ⟨_, hc, _⟩ := write_ok h1
    obtain ⟨b2, h2, hs2⟩ := ih (b := b1) hs1 (by rw [hc]; omega)
    exact ⟨b2, by simp only [writeMany, h1, bind_ok, h2], hs2⟩

/-- **the builder does not panic below 128 GiB** and produces the specified blob -/
theorem run_total {b : Builder} (hs : SizeInv b.size) (seqn : Nat) (es : List Entry)
    (hlt : (encBody seqn es).length < MAX_SIZE) :
    ∃ b', b.run seqn es = .ok b' ∧ b'.asSlice = encode seqn es := by
  rw [encBody_length] at hlt
  -- reset
  obtain ⟨b0, h0, hs0⟩ := write_total (b := { b with chunks := [], cur := 0 }) (c := [WAL_ENTRY_TAG_START]) hs
    (by simp only [List.length_cons, List.length_nil]; unfold MAX_SIZE; omega)
  obtain ⟨_, c0, _⟩ := write_ok h0
  obtain ⟨b1, h1, hs1⟩ := write_total (b := b0) (c := leBytes 4 seqn) hs0
    (by rw [c0, leBytes_length]; simp only [List.length_cons, List.length_nil]; unfold MAX_SIZE; omega)
  obtain ⟨_, c1, _⟩ := write_ok h1
  have hreset : b.reset seqn = .ok b1 := by
    simp only [reset, writeByte, h0, bind_ok, h1]
  have hc1 : b1.cur = 5 := by rw [c1, c0, leBytes_length]; rfl
  -- entries
  have hflat := chunks_flatten es
  obtain ⟨b2, h2, hs2⟩ := writeMany_total (cs := (es.map entryChunks).flatten) (b := b1) hs1
    (by rw [hflat, hc1]; omega)
  obtain ⟨_, c2⟩ := writeMany_ok h2
  rw [hflat, hc1] at c2
  -- finalize
  obtain ⟨b3, h3, hs3⟩ := write_total (b := b2) (c := [WAL_ENTRY_TAG_END]) hs2
    (by rw [c2]; simp only [List.length_cons, List.length_nil]; omega)
  obtain ⟨_, c3, hle⟩ := write_ok h3
  have hlen : ¬ ((b3.cur + PAGE_SIZE - 1) / PAGE_SIZE * PAGE_SIZE > b3.size) := by
    have := hs3.2
    unfold PAGE_SIZE at this ⊢
    omega
  have hrun : ∃ b', b.run seqn es = .ok b' := by
    refine ⟨{ b3 with chunks := List.replicate ((b3.cur + PAGE_SIZE - 1) / PAGE_SIZE * PAGE_SIZE - b3.cur) 0 :: b3.chunks,
                      cur := (b3.cur + PAGE_SIZE - 1) / PAGE_SIZE * PAGE_SIZE }, ?_⟩
    simp only [run, hreset, bind_ok, writeEntries_eq, h2, finalize, writeByte, h3, hlen, if_false, pure_eq_ok]
  obtain ⟨b', hb'⟩ := hrun
  exact ⟨b', hb', run_ok hb'⟩

end Builder
end Nomt.Wal
