import NomtModel.Store.SyncGenMon
/-!
# The order monitor, file by file (part 2): the per-file reading, its frame lemma and its transitions
-/
namespace Nomt.Store.SyncGen
open Nomt.Store

/-- the file whose pending effects / in-flight fsyncs a trace line can change -/
def lineFile (l : IoEv2) : String :=
  if isDataKind l.ev.kind = true then l.ev.file
  else if isDirKind l.ev.kind = true then "dir"
  else if (l.ev.kind == "DirSync") = true then "dir" else l.ev.file

/-- the monitor's state as far as file `f` is concerned -/
inductive FS
  | clean
  | opn (N : Key → Nat)
  | syncing (th : String)

def Holds (f : String) (st : OrderSt) : FS → Prop
  | .clean => (∀ p ∈ st.pend, p.file ≠ f) ∧ syncOf f st.syncs = []
  | .opn N => syncOf f st.syncs = [] ∧ ∀ k, unK f k st.pend = N k
  | .syncing th => ∃ cov, syncOf f st.syncs = [⟨f, th, cov⟩] ∧ ∀ p ∈ st.pend, p.file = f → p.id ∈ cov

def zeroN : Key → Nat := fun _ => 0
def oneN (k0 : Key) : Key → Nat := fun k => if k = k0 then 1 else 0

/-- what a line of ANOTHER file preserves about file `f` -/
structure Same (f : String) (st st' : OrderSt) : Prop where
  cnt : ∀ k, unK f k st'.pend = unK f k st.pend
  mem : ∀ p ∈ st'.pend, p.file = f → ∃ q ∈ st.pend, q.file = f ∧ q.id = p.id
  syn : syncOf f st'.syncs = syncOf f st.syncs

theorem Same.rfl' (f : String) (st : OrderSt) : Same f st st :=
  ⟨fun _ => rfl, fun p hp hf => ⟨p, hp, hf, rfl⟩, rfl⟩

theorem Holds.same {f : String} {st st' : OrderSt} {a : FS} (hs : Same f st st') (h : Holds f st a) : Holds f st' a := by
  cases a with
  | clean =>
    refine ⟨?_, by rw [hs.syn]; exact h.2⟩
    intro p hp hf
    obtain ⟨q, hq, hqf, _⟩ := hs.mem p hp hf
    exact h.1 q hq hqf
  | opn N => exact ⟨by rw [hs.syn]; exact h.1, fun k => by rw [hs.cnt]; exact h.2 k⟩
  | syncing th =>
    obtain ⟨cov, h1, h2⟩ := h
    refine ⟨cov, by rw [hs.syn]; exact h1, ?_⟩
    intro p hp hf
    obtain ⟨q, hq, hqf, hid⟩ := hs.mem p hp hf
    rw [← hid]; exact h2 q hq hqf

theorem unK_zero_of_no_entry (f : String) (k : Key) (pend : List Pend) (h : ∀ p ∈ pend, p.file ≠ f) : unK f k pend = 0 := by
  unfold unK
  rw [List.countP_eq_zero]
  intro p hp hc
  simp only [Bool.and_eq_true, beq_iff_eq] at hc
  exact h p hp hc.1.2

theorem Holds.clean_opn {f : String} {st : OrderSt} (h : Holds f st .clean) : Holds f st (.opn zeroN) :=
  ⟨h.2, fun k => unK_zero_of_no_entry f k st.pend h.1⟩

theorem Holds.opn_congr {f : String} {st : OrderSt} {N N' : Key → Nat} (h : Holds f st (.opn N)) (he : ∀ k, N k = N' k) :
    Holds f st (.opn N') :=
  ⟨h.1, fun k => by rw [h.2 k, he k]⟩

theorem unK_append_one (f : String) (k : Key) (pend : List Pend) (p : Pend) :
    unK f k (pend ++ [p]) = unK f k pend + (if (!p.ended && p.file == f && pkey p == k) = true then 1 else 0) := by
  simp only [unK, List.countP_append, List.countP_cons, List.countP_nil, Nat.zero_add]

theorem pkey_mkPend (id : Nat) (e : IoEv) : pkey (mkPend id e) = ekey e := rfl

/-! ## The frame lemma and the invariants of the monitor's state, for every accepted line -/

theorem countP_filter_keep {α : Type} (c q : α → Bool) (l : List α) (h : ∀ a ∈ l, c a = true → q a = true) :
    (l.filter q).countP c = l.countP c := by
  rw [List.countP_filter]
  apply List.countP_congr
  intro a ha
  constructor
  · intro h'; simp only [Bool.and_eq_true] at h'; exact h'.1
  · intro h'; simp only [Bool.and_eq_true]; exact ⟨h', h a ha h'⟩

theorem minv_mono {st : OrderSt} {nid : Nat} (h : MInv st nid) : MInv st (nid + 1) :=
  h.shrink h.nodup (fun q hq => ⟨q, hq, rfl, rfl⟩) (fun s hs => hs)

/-- **every accepted line**: the invariants of the monitor's state are kept, files other than the line's own are not
affected, and a pending effect after the line belongs to the line's file or was pending before -/
theorem orderStep_generic {st st' : OrderSt} {nid : Nat} (hg : GInv st nid) (l : IoEv2)
    (hs : orderStep st nid l = .ok st') :
    GInv st' (nid + 1) ∧ (∀ f, f ≠ lineFile l → Same f st st') ∧
    (∀ p ∈ st'.pend, p.file = lineFile l ∨ ∃ q ∈ st.pend, q.file = p.file) := by
  unfold orderStep at hs
  simp only at hs
  unfold lineFile
  by_cases hb : l.isBegin = true
  · simp only [hb, if_true] at hs
    by_cases hd : isDataKind l.ev.kind = true
    · simp only [hd, if_true] at hs ⊢
      obtain ⟨hsy, hcases⟩ := beginData_ok st st' nid l.ev hs
      have hpend : st'.pend = st.pend ++ [mkPend nid l.ev] := by
        rcases hcases with ⟨_, _, h0, h1, _⟩ | ⟨_, _, h1, _⟩
        · rw [h1, h0]; rfl
        · exact h1
      refine ⟨⟨hg.m.push _ rfl hpend hsy, ?_⟩, ?_, ?_⟩
      · intro p hp _
        rw [hpend, List.mem_append, List.mem_singleton] at hp
        rcases hp with hp | rfl
        · exact hg.pwf p hp ‹_›
        · rfl
      · intro f hf
        refine ⟨fun k => ?_, ?_, by rw [hsy]⟩
        · rw [hpend, unK_append_one]
          have : ((mkPend nid l.ev).file == f) = false := by simpa [mkPend] using (Ne.symm hf)
          simp [this]
        · intro p hp hpf
          rw [hpend, List.mem_append, List.mem_singleton] at hp
          rcases hp with hp | rfl
          · exact ⟨p, hp, hpf, rfl⟩
          · exact absurd hpf (Ne.symm hf)
      · intro p hp
        rw [hpend, List.mem_append, List.mem_singleton] at hp
        rcases hp with hp | rfl
        · exact Or.inr ⟨p, hp, rfl⟩
        · exact Or.inl rfl
    · simp only [hd, if_false] at hs ⊢
      by_cases hdir : isDirKind l.ev.kind = true
      · simp only [hdir, if_true] at hs ⊢
        obtain ⟨hsy, _, _, _, hpend⟩ := beginDirOp_ok st st' nid l.ev hs
        refine ⟨⟨hg.m.push _ rfl hpend hsy, ?_⟩, ?_, ?_⟩
        · intro p hp hk
          rw [hpend, List.mem_append, List.mem_singleton] at hp
          rcases hp with hp | rfl
          · exact hg.pwf p hp hk
          · simp only [mkDirPend] at hk
            have hd' : isDataKind l.ev.kind = false := by simpa using hd
            rw [hd'] at hk; cases hk
        · intro f hf
          refine ⟨fun k => ?_, ?_, by rw [hsy]⟩
          · rw [hpend, unK_append_one]
            simp [mkDirPend]
          · intro p hp hpf
            rw [hpend, List.mem_append, List.mem_singleton] at hp
            rcases hp with hp | rfl
            · exact ⟨p, hp, hpf, rfl⟩
            · exact absurd hpf (Ne.symm hf)
        · intro p hp
          rw [hpend, List.mem_append, List.mem_singleton] at hp
          rcases hp with hp | rfl
          · exact Or.inr ⟨p, hp, rfl⟩
          · exact Or.inl rfl
      · simp only [hdir, if_false] at hs ⊢
        by_cases hf : (l.ev.kind == "Fsync") = true
        · simp only [hf, if_true] at hs
          have hnds : (l.ev.kind == "DirSync") = false := by
            simp only [beq_iff_eq] at hf; rw [hf]; decide
          simp only [hnds, Bool.false_eq_true, if_false]
          injection hs with hs
          subst hs
          refine ⟨⟨hg.m.push_sync _ ?_ rfl rfl, hg.pwf⟩, ?_, fun p hp => Or.inr ⟨p, hp, rfl⟩⟩
          · intro i hi
            obtain ⟨q, hq, hid, hc⟩ := filter_cov_mem st.pend _ i hi
            simp only [Bool.and_eq_true, beq_iff_eq] at hc
            exact ⟨q, hq, hid, hc.1⟩
          · intro f hne
            refine ⟨fun _ => rfl, fun p hp hpf => ⟨p, hp, hpf, rfl⟩, ?_⟩
            have : (l.ev.file == f) = false := by simpa using (Ne.symm hne)
            simp [syncOf, List.filter_append, this]
        · simp only [hf, if_false] at hs
          by_cases hds : (l.ev.kind == "DirSync") = true
          · simp only [hds, if_true] at hs ⊢
            injection hs with hs
            subst hs
            refine ⟨⟨hg.m.push_sync _ ?_ rfl rfl, hg.pwf⟩, ?_, fun p hp => Or.inr ⟨p, hp, rfl⟩⟩
            · intro i hi
              obtain ⟨q, hq, hid, hc⟩ := filter_cov_mem st.pend _ i hi
              simp only [beq_iff_eq] at hc
              exact ⟨q, hq, hid, hc⟩
            · intro f hne
              refine ⟨fun _ => rfl, fun p hp hpf => ⟨p, hp, hpf, rfl⟩, ?_⟩
              have : ("dir" == f) = false := by simpa using (Ne.symm hne)
              simp [syncOf, List.filter_append, this]
          · simp only [hds, if_false] at hs
            injection hs with hs
            subst hs
            exact ⟨⟨minv_mono hg.m, hg.pwf⟩, fun f _ => Same.rfl' f st, fun p hp => Or.inr ⟨p, hp, rfl⟩⟩
  · simp only [hb, if_false] at hs
    by_cases hd : isDataKind l.ev.kind = true
    · simp only [hd, if_true] at hs ⊢
      injection hs with hs
      subst hs
      refine ⟨⟨hg.m.shrink ?_ ?_ (fun s hs => hs), ?_⟩, ?_, ?_⟩
      · simp only [endEffect_ids]; exact hg.m.nodup
      · intro q hq
        obtain ⟨p, hp, h⟩ := endEffect_mem l.ev st.pend q hq
        exact ⟨p, hp, h.1, h.2.1⟩
      · intro q hq hk
        obtain ⟨p, hp, h⟩ := endEffect_mem' l.ev st.pend q hq
        rcases h with rfl | rfl
        · exact hg.pwf q hp hk
        · exact hg.pwf p hp hk
      · intro f hf
        refine ⟨fun k => ?_, ?_, rfl⟩
        · show unK f k (endEffect l.ev st.pend) = unK f k st.pend
          rw [unK_endEffect l.ev hd f k st.pend hg.pwf]
          have : ¬ (f = l.ev.file ∧ k = ekey l.ev) := fun h => hf h.1
          simp [this]
        · intro q hq hqf
          obtain ⟨p, hp, h⟩ := endEffect_mem l.ev st.pend q hq
          exact ⟨p, hp, by rw [← h.2.1]; exact hqf, h.1.symm⟩
      · intro q hq
        obtain ⟨p, hp, h⟩ := endEffect_mem l.ev st.pend q hq
        exact Or.inr ⟨p, hp, h.2.1.symm⟩
    · simp only [hd, if_false] at hs ⊢
      by_cases hf : (l.ev.kind == "Fsync" || l.ev.kind == "DirSync") = true
      · simp only [hf, if_true] at hs
        have hdirk : isDirKind l.ev.kind = false := by
          simp only [Bool.or_eq_true, beq_iff_eq] at hf
          rcases hf with h | h <;> rw [h] <;> decide
        simp only [hdirk, Bool.false_eq_true, if_false]
        change (match takeSync (if (l.ev.kind == "DirSync") = true then "dir" else l.ev.file) l.thread st.syncs with
          | none => Except.ok st
          | some (cov, rest) => _) = Except.ok st' at hs
        generalize hsf : (if (l.ev.kind == "DirSync") = true then "dir" else l.ev.file) = sf at hs ⊢
        cases ht : takeSync sf l.thread st.syncs with
        | none =>
          rw [ht] at hs
          injection hs with hs
          subst hs
          exact ⟨⟨minv_mono hg.m, hg.pwf⟩, fun f _ => Same.rfl' f st, fun p hp => Or.inr ⟨p, hp, rfl⟩⟩
        | some x =>
          obtain ⟨cov, rest⟩ := x
          rw [ht] at hs
          injection hs with hs
          subst hs
          obtain ⟨⟨s0, hs0, hs0f, hs0c⟩, hsub⟩ := takeSync_mem sf l.thread st.syncs cov rest ht
          refine ⟨⟨hg.m.shrink ?_ ?_ hsub, ?_⟩, ?_, ?_⟩
          · exact (List.filter_sublist.map _).nodup hg.m.nodup
          · intro q hq
            exact ⟨q, (List.mem_filter.mp hq).1, rfl, rfl⟩
          · intro q hq hk
            exact hg.pwf q (List.mem_filter.mp hq).1 hk
          · intro f hne
            refine ⟨fun k => ?_, ?_, takeSync_filter_ne sf l.thread f hne st.syncs cov rest ht⟩
            · show unK f k (st.pend.filter _) = unK f k st.pend
              unfold unK
              apply countP_filter_keep
              intro p hp hc
              simp only [Bool.and_eq_true, beq_iff_eq] at hc
              simp only [Bool.not_eq_true', List.contains_eq_mem, decide_eq_false_iff_not]
              intro hmem
              have := hg.m.cfile s0 hs0 p hp (by rw [hs0c]; exact hmem)
              rw [hs0f, hc.1.2] at this
              exact hne this
            · intro q hq hqf
              exact ⟨q, (List.mem_filter.mp hq).1, hqf, rfl⟩
          · intro q hq
            exact Or.inr ⟨q, (List.mem_filter.mp hq).1, rfl⟩
      · simp only [hf, if_false] at hs
        injection hs with hs
        subst hs
        exact ⟨⟨minv_mono hg.m, hg.pwf⟩, fun f _ => Same.rfl' f st, fun p hp => Or.inr ⟨p, hp, rfl⟩⟩

/-! ## Transitions of the file a line belongs to -/

def bump (N : Key → Nat) (k0 : Key) : Key → Nat := fun k => N k + (if k = k0 then 1 else 0)
def drop1 (N : Key → Nat) (k0 : Key) : Key → Nat := fun k => N k - (if k = k0 then 1 else 0)

/-- Begin of a data operation: one more effect of its key in flight -/
theorem Holds.begin {f : String} {st st' : OrderSt} {N : Key → Nat} (id : Nat) (e : IoEv) (hf : e.file = f)
    (hpend : st'.pend = st.pend ++ [mkPend id e]) (hsy : st'.syncs = st.syncs) (h : Holds f st (.opn N)) :
    Holds f st' (.opn (bump N (ekey e))) := by
  refine ⟨by rw [hsy]; exact h.1, fun k => ?_⟩
  rw [hpend, unK_append_one, h.2 k]
  simp only [bump, mkPend, Bool.not_false, Bool.true_and, hf, beq_self_eq_true]
  show N k + (if (pkey (mkPend id e) == k) = true then 1 else 0) = _
  rw [pkey_mkPend]
  by_cases hk : k = ekey e
  · simp [hk]
  · have : (ekey e == k) = false := by simpa using (Ne.symm hk)
    simp [this, hk]

/-- Begin of a create / unlink: pending (until a directory fsync), never "in flight" for the monitor -/
theorem Holds.beginDir {st st' : OrderSt} {N : Key → Nat} (id : Nat) (e : IoEv)
    (hpend : st'.pend = st.pend ++ [mkDirPend id e]) (hsy : st'.syncs = st.syncs) (h : Holds "dir" st (.opn N)) :
    Holds "dir" st' (.opn N) := by
  refine ⟨by rw [hsy]; exact h.1, fun k => ?_⟩
  rw [hpend, unK_append_one, h.2 k]
  simp [mkDirPend]

/-- End of a data operation -/
theorem Holds.endData {f : String} {st st' : OrderSt} {N : Key → Nat} {nid : Nat} (hg : GInv st nid) (e : IoEv)
    (hk : isDataKind e.kind = true) (hf : e.file = f)
    (hpend : st'.pend = endEffect e st.pend) (hsy : st'.syncs = st.syncs) (h : Holds f st (.opn N)) :
    Holds f st' (.opn (drop1 N (ekey e))) := by
  refine ⟨by rw [hsy]; exact h.1, fun k => ?_⟩
  rw [hpend, unK_endEffect e hk f k st.pend hg.pwf, h.2 k]
  simp only [drop1, hf, true_and]

/-- Begin of an fsync of `f` while nothing of `f` is in flight: it covers every pending effect of `f` -/
theorem Holds.beginFsync {f : String} {st st' : OrderSt} {N : Key → Nat} (th : String) (hN : ∀ k, N k = 0)
    (hpend : st'.pend = st.pend)
    (hsy : st'.syncs = st.syncs ++ [⟨f, th, (st.pend.filter (fun p => p.file == f && p.ended)).map (·.id)⟩])
    (h : Holds f st (.opn N)) : Holds f st' (.syncing th) := by
  refine ⟨(st.pend.filter (fun p => p.file == f && p.ended)).map (·.id), ?_, ?_⟩
  · rw [hsy]
    simp only [syncOf, List.filter_append, List.filter_cons, beq_self_eq_true, if_true, List.filter_nil]
    have := h.1
    simp only [syncOf] at this
    rw [this]; rfl
  · intro p hp hpf
    rw [hpend] at hp
    apply List.mem_map.mpr
    refine ⟨p, List.mem_filter.mpr ⟨hp, ?_⟩, rfl⟩
    have hz := h.2 (pkey p)
    rw [hN] at hz
    unfold unK at hz
    rw [List.countP_eq_zero] at hz
    have := hz p hp
    cases he : p.ended with
    | true => simp [hpf]
    | false => simp [he, hpf] at this

/-- Begin of a directory fsync: it covers every pending create / unlink -/
theorem Holds.beginDirSync {st st' : OrderSt} {N : Key → Nat} (th : String)
    (hpend : st'.pend = st.pend)
    (hsy : st'.syncs = st.syncs ++ [⟨"dir", th, (st.pend.filter (fun p => p.file == "dir")).map (·.id)⟩])
    (h : Holds "dir" st (.opn N)) : Holds "dir" st' (.syncing th) := by
  refine ⟨(st.pend.filter (fun p => p.file == "dir")).map (·.id), ?_, ?_⟩
  · rw [hsy]
    simp only [syncOf, List.filter_append, List.filter_cons, beq_self_eq_true, if_true, List.filter_nil]
    have := h.1
    simp only [syncOf] at this
    rw [this]; rfl
  · intro p hp hpf
    rw [hpend] at hp
    apply List.mem_map.mpr
    exact ⟨p, List.mem_filter.mpr ⟨hp, by simp [hpf]⟩, rfl⟩

/-- End of the fsync of `f` that is in flight: the monitor finds it, and nothing of `f` is pending afterwards -/
theorem Holds.endSync {f th : String} {st : OrderSt} (h : Holds f st (.syncing th)) :
    ∃ cov rest, takeSync f th st.syncs = some (cov, rest) ∧ syncOf f rest = [] ∧
      (∀ p ∈ st.pend, p.file = f → p.id ∈ cov) := by
  obtain ⟨cov, h1, h2⟩ := h
  obtain ⟨rest, hr, hrest⟩ := takeSync_of_unique f th ⟨f, th, cov⟩ rfl st.syncs h1
  exact ⟨cov, rest, hr, hrest, h2⟩

theorem Holds.clean_of_endSync {f : String} {st st' : OrderSt} (cov : List Nat) (rest : List InFlight)
    (hrest : syncOf f rest = []) (hcov : ∀ p ∈ st.pend, p.file = f → p.id ∈ cov)
    (hpend : st'.pend = st.pend.filter (fun p => !cov.contains p.id)) (hsy : st'.syncs = rest) :
    Holds f st' .clean := by
  refine ⟨?_, by rw [hsy]; exact hrest⟩
  intro p hp hpf
  rw [hpend] at hp
  obtain ⟨hp1, hp2⟩ := List.mem_filter.mp hp
  have := hcov p hp1 hpf
  simp [this] at hp2

end Nomt.Store.SyncGen
