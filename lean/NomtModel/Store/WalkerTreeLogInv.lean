import NomtModel.Store.WalkerReconIds
import NomtModel.Store.WalkerTreeRun3
/-!
# Every page is left at most once

Along a run of the tree walker over an ascending script, the pages it has left (its log) all lie strictly to the left of its
position or below it (`LogPos`), hence no page is left twice: the ids of the log are pairwise distinct (`tw_run_logPos`,
`tw_run_idle_logPos`, `logPos_compactUp` for `conclude`).  This is what the accounting of `children_leaves_counter` in the
updating walker rests on: a child page is subtracted from its parent's counter once.
-/
namespace Nomt.Walker
open Nomt Nomt.TriePos

variable {Node VH : Type} [DecidableEq Node] [DecidableEq VH] (H : Hasher Node VH) (D : Path → Prop)

/-- the ids of the pages left so far -/
def TW.ids (a : TW Node) : List PageId := a.log.map (·.1)

/-- the pages left so far: each once, each to the left of the walker or below it -/
def LogPos (a : TW Node) : Prop :=
  a.ids.Nodup ∧ ∀ i ∈ a.ids, LeftOf (pidBits i) a.pos ∨ a.pos <+: pidBits i

theorem logPos_congr {a b : TW Node} (hl : b.log = a.log) (hp : b.pos = a.pos) (h : LogPos a) : LogPos b := by
  unfold LogPos TW.ids at *
  rw [hl, hp]; exact h

theorem leftOf_dropLast {q x : Path} {c : Bool} (h : LeftOf q (x ++ [c])) : LeftOf q x ∨ x <+: q := by
  obtain ⟨p, r, s, hq, hx⟩ := h
  rcases List.eq_nil_or_concat s with e | ⟨s', d, e⟩
  · subst e
    have : x ++ [c] = p ++ [true] := hx
    have hxp : x = p := (List.append_inj' this rfl).1
    right
    rw [hq, hxp]
    exact List.prefix_append _ _
  · left
    have : x ++ [c] = (p ++ true :: s') ++ [d] := by rw [hx, e]; simp
    have hxp : x = p ++ true :: s' := (List.append_inj' this rfl).1
    exact ⟨p, r, s', hq, hxp⟩

/-- leaving a position (from it or from its sibling slot) -/
theorem logPos_up_of (a b : TW Node) (x : Path) (c c' : Bool) (hlog : b.log = a.log) (hpa : a.pos = x ++ [c])
    (hpb : b.pos = x ++ [c']) (h : LogPos a) : LogPos b.up := by
  have hpos : b.up.pos = x := by rw [tw_up_pos, hpb]; simp
  have hids : b.up.ids = a.ids ++ (if x.length % 6 = 0 then [sextetsOf x] else []) := by
    unfold TW.ids
    rw [tw_up_log, hpb, dip_snoc, hlog]
    by_cases h6 : x.length % 6 = 0
    · rw [if_pos (by omega), if_pos h6]
      simp only [List.map_append, List.map_cons, List.map_nil]
      rw [specPage_snoc_boundary x c' h6]
    · rw [if_neg (by omega), if_neg h6]; simp
  obtain ⟨hnd, hcl⟩ := h
  have hold : ∀ i ∈ a.ids, LeftOf (pidBits i) x ∨ x <+: pidBits i := by
    intro i hi
    rcases hcl i hi with h1 | h1
    · rw [hpa] at h1; exact leftOf_dropLast h1
    · right; rw [hpa] at h1; exact List.IsPrefix.trans (List.prefix_append _ _) h1
  unfold LogPos
  rw [hids, hpos]
  by_cases h6 : x.length % 6 = 0
  · rw [if_pos h6]
    have hpb6 : pidBits (sextetsOf x) = x := pidBits_sextetsOf x h6
    refine ⟨?_, ?_⟩
    · rw [List.nodup_append]
      refine ⟨hnd, by simp, ?_⟩
      intro i hi j hj e
      rw [List.mem_singleton] at hj
      subst hj
      subst e
      rcases hcl _ hi with h1 | h1
      · rw [hpb6, hpa] at h1
        exact (leftOf_not_prefix h1).1 (List.prefix_append _ _)
      · rw [hpb6, hpa] at h1
        have := h1.length_le
        simp at this
        omega
    · intro i hi
      rcases List.mem_append.mp hi with h1 | h1
      · exact hold i h1
      · rw [List.mem_singleton] at h1; subst h1
        right; rw [hpb6]; exact List.prefix_refl _
  · rw [if_neg h6, List.append_nil]
    exact ⟨hnd, hold⟩

theorem logPos_round (a : TW Node) (hne : a.pos ≠ []) (h : LogPos a) : LogPos ((a.compactStep H).2.up) := by
  obtain ⟨x, c, hxc⟩ : ∃ x c, a.pos = x ++ [c] := by
    rcases List.eq_nil_or_concat a.pos with e | ⟨l, y, e⟩
    · exact absurd e hne
    · exact ⟨l, y, by simpa using e⟩
  rw [tw_compactStep_snd]
  split
  · exact logPos_up_of a _ x c c rfl hxc (by simpa [TW.setNode] using hxc) h
  · split
    · refine logPos_up_of a _ x c (!c) rfl hxc ?_ h
      show sibPath a.pos = _
      rw [hxc, sibPath_snoc]
    · exact logPos_up_of a _ x c c rfl hxc hxc h

theorem logPos_compactLoop (cfg : TWCfg Node) : ∀ (n : Nat) (a : TW Node), cfg.top < a.pos.length → LogPos a →
    LogPos (TW.compactLoop H cfg n a) := by
  intro n
  induction n with
  | zero => intro a _ h; exact h
  | succ n ih =>
    intro a htop h
    have hne : a.pos ≠ [] := by intro e; rw [e] at htop; simp at htop
    have h1 := logPos_round H a hne h
    rw [tw_compactLoop_succ]
    split
    · split
      · exact logPos_congr rfl rfl h1
      · exact logPos_congr rfl rfl h1
    · rename_i hse
      apply ih
      · show cfg.top < ((a.compactStep H).2.up).pos.length
        unfold TW.stackEmpty at hse
        simpa using hse
      · exact logPos_congr rfl rfl h1

theorem logPos_compactUp (cfg : TWCfg Node) (a : TW Node) (t : Option Path) (h : LogPos a) :
    LogPos (a.compactUp H cfg t) := by
  unfold TW.compactUp
  split
  · exact h
  · rename_i hse
    have htop : cfg.top < a.pos.length := by
      unfold TW.stackEmpty at hse
      simpa using hse
    cases t with
    | some t => exact logPos_compactLoop H cfg _ a htop h
    | none => exact logPos_compactLoop H cfg _ a htop h

theorem nodup_map_sextets : ∀ (Lc : List Path), Lc.Nodup → (∀ c ∈ Lc, c.length % 6 = 0) → (Lc.map sextetsOf).Nodup := by
  intro Lc
  induction Lc with
  | nil => intro _ _; exact List.nodup_nil
  | cons c cs ih =>
    intro hnd h6
    rw [List.nodup_cons] at hnd
    rw [List.map_cons, List.nodup_cons]
    refine ⟨?_, ih hnd.2 (fun c' hc' => h6 c' (List.mem_cons_of_mem _ hc'))⟩
    intro hmem
    obtain ⟨c', hc', e⟩ := List.mem_map.mp hmem
    have := congrArg pidBits e
    rw [pidBits_sextetsOf c' (h6 c' (List.mem_cons_of_mem _ hc')), pidBits_sextetsOf c (h6 c (List.mem_cons_self ..))] at this
    exact hnd.1 (this ▸ hc')

/-- building the block below the walker's position: the pages left so far lie to its left -/
theorem logPos_replace (hs : H.Sound) {O : List (Key × VH)} (hk : KeysOK O) (cfg : TWCfg Node) (a : TW Node)
    (ht : a.pos.length ≤ 256) (hnd : a.ids.Nodup) (hl : ∀ i ∈ a.ids, LeftOf (pidBits i) a.pos) :
    LogPos (a.replaceTerminal H cfg (sub O a.pos)) := by
  have hpos : (a.replaceTerminal H cfg (sub O a.pos)).pos = a.pos := (tw_replace_spec H (fun _ => True) hs hk cfg a ht).1
  obtain ⟨Lc, hids, hb⟩ := tw_replace_ids H hs hk cfg a ht
  have h6 : ∀ c ∈ Lc, c.length % 6 = 0 := fun c hc => ((hb.2 c).mp hc).2.1
  have hpb : ∀ c ∈ Lc, pidBits (sextetsOf c) = c := fun c hc => pidBits_sextetsOf c (h6 c hc)
  unfold LogPos TW.ids
  rw [hids, hpos]
  refine ⟨?_, ?_⟩
  · rw [List.nodup_append]
    refine ⟨hnd, nodup_map_sextets Lc hb.1 h6, ?_⟩
    intro i hi j hj e
    obtain ⟨c, hc, rfl⟩ := List.mem_map.mp hj
    subst e
    have h1 := hl _ hi
    rw [hpb c hc] at h1
    exact (leftOf_not_prefix h1).2 ((hb.2 c).mp hc).1
  · intro i hi
    rcases List.mem_append.mp hi with h1 | h1
    · exact Or.inl (hl i h1)
    · obtain ⟨c, hc, rfl⟩ := List.mem_map.mp h1
      right; rw [hpb c hc]; exact ((hb.2 c).mp hc).1

/-- one step of the script -/
theorem logPos_step (hs : H.Sound) {S S' : List (Key × VH)} (hS' : KeysOK S')
    {done todo : List (Step VH)} {s : Step VH} (hso : ScriptOK S S' (done ++ s :: todo))
    {store0 : Store Node} (hrep : Rep0 H D S store0) (cfg : TWCfg Node) (a : TW Node)
    (hinv : InvB H D S S' store0 cfg done (s :: todo) a) (hl : LogPos a) :
    LogPos (a.step H cfg s) := by
  obtain ⟨hc1, _⟩ := invB_compact H D hs hS' hso hrep cfg a hinv
  have hl1 := logPos_compactUp H cfg a (some s.1) hl
  have hleft : LeftOf (a.compactUp H cfg (some s.1)).pos s.1 := hc1.todoP s (List.mem_cons_self ..)
  unfold TW.step
  cases hop : s.2 with
  | none => exact hl1
  | some ops =>
    simp only
    have hops := hso.repl s (by simp) ops hop
    unfold TW.advanceAndReplace
    rw [hops]
    have hlen : s.1.length ≤ 256 := hso.len s (by simp)
    refine logPos_replace H hs hS' cfg ({ a.compactUp H cfg (some s.1) with pos := s.1 } : TW Node) hlen hl1.1 ?_
    intro i hi
    rcases hl1.2 i hi with h1 | h1
    · exact leftOf_trans h1 hleft
    · exact leftOf_extend_left hleft h1

theorem tw_run_logPos (hs : H.Sound) {S S' : List (Key × VH)} (hS : KeysOK S) (hS' : KeysOK S')
    {store0 : Store Node} (hrep : Rep0 H D S store0) (cfg : TWCfg Node) :
    ∀ (todo done : List (Step VH)) (a : TW Node), ScriptOK S S' (done ++ todo) → PathsIn D (done ++ todo) →
      InvB H D S S' store0 cfg done todo a → LogPos a → LogPos (a.run H cfg todo) := by
  intro todo
  induction todo with
  | nil => intro done a _ _ _ h; simpa [TW.run] using h
  | cons s todo ih =>
    intro done a hso hDp h hl
    have h1 := invB_step H D hs hS hS' hso hDp hrep cfg a h
    have hl1 := logPos_step H D hs hS' hso hrep cfg a h hl
    have hso' : ScriptOK S S' ((done ++ [s]) ++ todo) := by simpa using hso
    have hDp' : PathsIn D ((done ++ [s]) ++ todo) := by simpa using hDp
    have := ih (done ++ [s]) _ hso' hDp' h1 hl1
    simpa [TW.run] using this

theorem logPos_nil (a : TW Node) (h : a.log = []) : LogPos a := by
  unfold LogPos TW.ids; rw [h]; exact ⟨List.nodup_nil, fun i hi => by cases hi⟩

/-- **no page is left twice**: a whole run from the idle walker -/
theorem tw_run_idle_logPos (hs : H.Sound) {S S' : List (Key × VH)} (hS : KeysOK S) (hS' : KeysOK S')
    {store0 : Store Node} (hrep : Rep0 H D S store0) (cfg : TWCfg Node) :
    ∀ (todo done : List (Step VH)) (a : TW Node), ScriptOK S S' (done ++ todo) → PathsIn D (done ++ todo) →
      Idle store0 cfg a → (∀ s ∈ done, s.2.isSome = false) → LogPos (a.run H cfg todo) := by
  intro todo
  induction todo with
  | nil => intro done a _ _ hidle _; simpa [TW.run] using logPos_nil a hidle.log
  | cons s todo ih =>
    intro done a hso hDp hidle hdone
    have hso' : ScriptOK S S' ((done ++ [s]) ++ todo) := by simpa using hso
    have hDp' : PathsIn D ((done ++ [s]) ++ todo) := by simpa using hDp
    cases hop : s.2 with
    | none =>
      have hstep : a.step H cfg s = a := idle_step_advance H cfg a hidle s hop
      have := ih (done ++ [s]) a hso' hDp' hidle (by
        intro s' hs'
        rcases List.mem_append.mp hs' with h | h
        · exact hdone s' h
        · rw [List.mem_singleton] at h; subst h; rw [hop]; rfl)
      simp only [TW.run, hstep]
      exact this
    | some ops =>
      obtain ⟨hstep, hinv⟩ := idle_step_replace H D hs hS hS' hso hDp hrep cfg a hidle hdone ops hop
      have hl1 : LogPos (a.step H cfg s) := by
        rw [hstep]
        refine logPos_replace H hs hS' cfg ({ a with pos := s.1 } : TW Node) (hso.len s (by simp)) ?_ ?_
        · unfold TW.ids; rw [show ({ a with pos := s.1 } : TW Node).log = a.log from rfl, hidle.log]; exact List.nodup_nil
        · intro i hi
          unfold TW.ids at hi
          rw [show ({ a with pos := s.1 } : TW Node).log = a.log from rfl, hidle.log] at hi
          cases hi
      have := tw_run_logPos H D hs hS hS' hrep cfg todo (done ++ [s]) _ hso' hDp' hinv hl1
      simpa [TW.run] using this

/-! ## the log only grows -/

theorem tw_compactUp_log_prefix (cfg : TWCfg Node) (a : TW Node) (t : Option Path) :
    a.log <+: (a.compactUp H cfg t).log := by
  unfold TW.compactUp
  split
  · exact List.prefix_refl _
  · cases t with
    | some t => exact tw_compactLoop_log_prefix H cfg _ a
    | none => exact tw_compactLoop_log_prefix H cfg _ a

theorem tw_step_log_prefix (cfg : TWCfg Node) (a : TW Node) (s : Step VH) : a.log <+: (a.step H cfg s).log := by
  unfold TW.step
  cases s.2 with
  | none => exact tw_compactUp_log_prefix H cfg a _
  | some ops =>
    simp only
    unfold TW.advanceAndReplace
    exact List.IsPrefix.trans (tw_compactUp_log_prefix H cfg a (some s.1))
      (tw_replaceTerminal_log_prefix H cfg ({ a.compactUp H cfg (some s.1) with pos := s.1 } : TW Node) ops)

theorem tw_run_log_prefix (cfg : TWCfg Node) : ∀ (todo : List (Step VH)) (a : TW Node), a.log <+: (a.run H cfg todo).log := by
  intro todo
  induction todo with
  | nil => intro a; exact List.prefix_refl _
  | cons s todo ih =>
    intro a
    exact List.IsPrefix.trans (tw_step_log_prefix H cfg a s) (ih _)

end Nomt.Walker
