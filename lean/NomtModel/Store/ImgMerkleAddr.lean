import NomtModel.Store.ImgMerkle
import NomtModel.Core.TriePosPage
/-!
# The image monitor addresses page slots exactly as `TriePosition` does

`checkMerkle` (`Store/ImgMerkle.lean`) walks the page tree with its own arithmetic: inside a page the two top nodes
are `0 / 1`, the children of node `i` are `2i+2 / 2i+3` (`pageExpect`), the child page of a key set is chosen by
`sextetVal`, page paths are turned into key bits by `sextetBits` / `pathBits`.  Here: that arithmetic *is* the mirror
of `trie_pos.rs` / `page_id.rs` (`nodeIndexOf`, `bits6`, `pidBits`, `sextetsOf`), and for every in-page path whose
proper prefixes are internal nodes `pageExpect` lists the pair `(node index the code uses, nodeAt …)` — so the
monitor compares the specified node with the very slot the code reads and writes.
-/
namespace Nomt.Store
open Nomt Nomt.TriePos

/-! ## the monitor's index arithmetic -/

/-- the index `pageExpect` reaches from `idx` along the bits -/
def monIdxFrom (idx : Nat) : List Bool → Nat
  | [] => idx
  | b :: bs => monIdxFrom (2 * idx + 2 + b.toNat) bs

/-- the index of an in-page path: `checkPage` starts `pageExpect` at `0` (left) / `1` (right) -/
def monIdx : List Bool → Nat
  | [] => 0
  | b :: bs => monIdxFrom b.toNat bs

theorem monIdxFrom_eq (pre : List Bool) : ∀ (bs : List Bool), 1 ≤ pre.length → pre.length + bs.length ≤ 6 →
    monIdxFrom (nodeIndexOf pre) bs = nodeIndexOf (pre ++ bs) := by
  intro bs
  induction bs generalizing pre with
  | nil => intro _ _; simp [monIdxFrom]
  | cons b bs ih =>
    intro h1 h6
    simp only [List.length_cons] at h6
    unfold monIdxFrom
    rw [← nodeIndexOf_snoc pre b h1 (by omega), ih (pre ++ [b]) (by simp) (by simp; omega)]
    simp

/-- **the monitor's in-page index is `node_index`** -/
theorem monIdx_eq_nodeIndexOf (l : List Bool) (h1 : 1 ≤ l.length) (h6 : l.length ≤ 6) :
    monIdx l = nodeIndexOf l := by
  cases l with
  | nil => simp at h1
  | cons b bs =>
    show monIdxFrom b.toNat bs = _
    rw [← nodeIndexOf_single b, monIdxFrom_eq [b] bs (by simp) (by simpa [Nat.add_comm] using h6)]
    rfl

/-! ## the monitor's sextets -/

theorem sextetBits_eq_bits6 (c : Nat) : sextetBits c = bits6 c := by
  unfold sextetBits bits6
  simp [List.range, List.range.loop]

theorem pathBits_eq_pidBits (p : List Nat) : pathBits p = pidBits p := by
  unfold pathBits pidBits
  congr 1
  funext c
  exact sextetBits_eq_bits6 c

theorem foldl_sextet (l : List Bool) : ∀ acc : Nat,
    l.foldl (fun acc b => acc * 2 + (if b then 1 else 0)) acc = l.foldl (fun acc b => 2 * acc + b.toNat) acc := by
  induction l with
  | nil => intro _; rfl
  | cons b l ih =>
    intro acc
    simp only [List.foldl]
    rw [ih]
    congr 1
    cases b <;> simp <;> omega

theorem sextetVal_eq_loadBE (k : Key) (d : Nat) : sextetVal k d = loadBE ((k.drop d).take 6) := by
  unfold sextetVal loadBE
  exact foldl_sextet _ 0

/-- the child indices `walkPages` follows for a key are the sextets of the key = `PageId` of `trie_pos.rs` -/
theorem monitor_page_path (k : Key) : ∀ (j : Nat), 6 * j ≤ k.length →
    (List.range j).map (fun i => sextetVal k (6 * i)) = sextetsOf (k.take (6 * j)) := by
  intro j
  induction j with
  | zero => intro _; simp [sextetsOf, chunks6]
  | succ j ih =>
    intro h
    have hchunk : ((k.drop (6 * j)).take 6).length = 6 := by
      rw [List.length_take, List.length_drop]; omega
    rw [List.range_succ, List.map_append, ih (by omega), List.map_singleton, sextetVal_eq_loadBE]
    have : k.take (6 * (j + 1)) = k.take (6 * j) ++ (k.drop (6 * j)).take 6 := by
      rw [show 6 * (j + 1) = 6 * j + 6 by omega, List.take_add]
    rw [this, sextetsOf_append _ _ (by rw [List.length_take]; omega)]
    congr 1
    have := sextetsOf_append6 ((k.drop (6 * j)).take 6) [] hchunk
    rw [List.append_nil] at this
    rw [this]; rfl

/-! ## what `pageExpect` lists -/

/-- the key set below an in-page path -/
def sidesAlong : Nat → List Bool → List KVH → List KVH
  | _, [], s => s
  | d, b :: bs, s => sidesAlong (d + 1) bs (side d b s)

/-- every proper prefix of the path is an internal node (holds at least two keys) -/
def Through : Nat → List Bool → List KVH → Prop
  | _, [], _ => True
  | d, b :: bs, s => 2 ≤ s.length ∧ Through (d + 1) bs (side d b s)

theorem pageExpect_two (rem idx d : Nat) (a b : KVH) (t : List KVH) :
    pageExpect (rem + 1) idx d (a :: b :: t) =
      (blakeHasher.internal (pageExpect rem (2 * idx + 2) (d + 1) (side d false (a :: b :: t))).1
          (pageExpect rem (2 * idx + 3) (d + 1) (side d true (a :: b :: t))).1,
        (idx, blakeHasher.internal (pageExpect rem (2 * idx + 2) (d + 1) (side d false (a :: b :: t))).1
          (pageExpect rem (2 * idx + 3) (d + 1) (side d true (a :: b :: t))).1) ::
          (pageExpect rem (2 * idx + 2) (d + 1) (side d false (a :: b :: t))).2 ++
          (pageExpect rem (2 * idx + 3) (d + 1) (side d true (a :: b :: t))).2) := by
  rw [pageExpect]
  · intro h; cases h
  · intro k v h; cases h

theorem pageExpect_fst : ∀ (rem idx d : Nat) (s : List KVH), (rem = 0 ∨ d + rem ≤ 256) →
    (pageExpect rem idx d s).1 = nodeAt blakeHasher (256 - d) d s := by
  intro rem
  induction rem with
  | zero =>
    intro idx d s _
    match s with
    | [] => simp [pageExpect, nodeAt]
    | [(k, v)] => simp [pageExpect, nodeAt]
    | a :: b :: t => simp [pageExpect]
  | succ rem ih =>
    intro idx d s h
    have hd : d + (rem + 1) ≤ 256 := by omega
    match s with
    | [] => simp [pageExpect, nodeAt]
    | [(k, v)] => simp [pageExpect, nodeAt]
    | a :: b :: t =>
      rw [pageExpect_two]
      simp only
      rw [ih _ (d + 1) _ (by omega), ih _ (d + 1) _ (by omega)]
      have : 256 - d = (256 - (d + 1)) + 1 := by omega
      rw [this, nodeAt]
      · intro h; cases h
      · intro k v h; cases h

theorem pageExpect_head (rem idx d : Nat) (s : List KVH) :
    (idx, (pageExpect rem idx d s).1) ∈ (pageExpect rem idx d s).2 := by
  match rem, s with
  | _, [] => simp [pageExpect]
  | _, [(k, v)] => simp [pageExpect]
  | 0, a :: b :: t => simp [pageExpect]
  | rem + 1, a :: b :: t => rw [pageExpect_two]; simp

/-- **`pageExpect` lists, for every path through internal nodes, the specified node under the index reached by
the `2i+2 / 2i+3` rule** -/
theorem pageExpect_mem : ∀ (bs : List Bool) (rem idx d : Nat) (s : List KVH), bs.length ≤ rem →
    Through d bs s → (rem = 0 ∨ d + rem ≤ 256) →
    (monIdxFrom idx bs,
      nodeAt blakeHasher (256 - (d + bs.length)) (d + bs.length) (sidesAlong d bs s)) ∈ (pageExpect rem idx d s).2 := by
  intro bs
  induction bs with
  | nil =>
    intro rem idx d s _ _ h
    simp only [monIdxFrom, List.length_nil, Nat.add_zero, sidesAlong]
    rw [← pageExpect_fst rem idx d s h]
    exact pageExpect_head rem idx d s
  | cons b bs ih =>
    intro rem idx d s hl ht h
    simp only [List.length_cons] at hl
    obtain ⟨h2, ht'⟩ := ht
    cases rem with
    | zero => omega
    | succ rem =>
      match s, h2 with
      | a :: c :: t, _ =>
        rw [pageExpect_two]
        simp only [monIdxFrom, sidesAlong, List.length_cons]
        have e : d + (bs.length + 1) = (d + 1) + bs.length := by omega
        rw [e]
        cases b with
        | false =>
          have := ih rem (2 * idx + 2) (d + 1) (side d false (a :: c :: t)) (by omega) ht' (by omega)
          simp only [Bool.toNat_false, Nat.add_zero]
          exact List.mem_cons_of_mem _ (List.mem_append_left _ this)
        | true =>
          have := ih rem (2 * idx + 3) (d + 1) (side d true (a :: c :: t)) (by omega) ht' (by omega)
          simp only [Bool.toNat_true]
          exact List.mem_cons_of_mem _ (List.mem_append_right _ this)

/-- what `checkPage` compares for the page with path `P`: the expectations of the two halves of the page -/
def pageChecks (P : List Nat) (s : List KVH) : List (Nat × ByteArray) :=
  (pageExpect 5 0 (6 * P.length + 1) (side (6 * P.length) false s)).2 ++
  (pageExpect 5 1 (6 * P.length + 1) (side (6 * P.length) true s)).2

/-- **the monitor inspects the slot the code uses**: for a page `P` (depth ≤ 41) and an in-page path `l` of 1…6 bits
whose proper prefixes are internal nodes, `checkPage` compares the specified node `nodeAt` of the keys below
`P·l` with the page's node at index `node_index(l)` — the index `TriePosition` computes for that position -/
theorem pageChecks_mem (P : List Nat) (s : List KVH) (b : Bool) (bs : List Bool) (hP : 6 * P.length + 6 ≤ 256)
    (h6 : bs.length ≤ 5) (ht : Through (6 * P.length + 1) bs (side (6 * P.length) b s)) :
    (nodeIndexOf (b :: bs),
      nodeAt blakeHasher (256 - (6 * P.length + (b :: bs).length)) (6 * P.length + (b :: bs).length)
        (sidesAlong (6 * P.length) (b :: bs) s)) ∈ pageChecks P s := by
  rw [← monIdx_eq_nodeIndexOf (b :: bs) (by simp) (by simp; omega)]
  unfold pageChecks monIdx
  simp only [sidesAlong, List.length_cons]
  have e : 6 * P.length + (bs.length + 1) = (6 * P.length + 1) + bs.length := by omega
  rw [e]
  cases b with
  | false =>
    exact List.mem_append_left _ (pageExpect_mem bs 5 0 _ _ h6 ht (by omega))
  | true =>
    exact List.mem_append_right _ (pageExpect_mem bs 5 1 _ _ h6 ht (by omega))

end Nomt.Store
