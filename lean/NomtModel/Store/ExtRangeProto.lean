import NomtModel.Store.ExtRangeModel
/-!
The protocol skeleton of the extend-range protocol: what the channels and the `left_neighbor` / `right_neighbor` /
`pending_left_request` fields do, without trackers, updaters and keys.  `AInv` is the invariant that excludes every
protocol panic site and every deadlock; `ATrans` are the moves; `ATrans.inv`: every move keeps the invariant.
`Store/ExtRangeSim.lean` shows that every step of the mirror is such a move.
-/
namespace Nomt.ExtRange

inductive Kind where
  /-- running (any non-blocking program point) -/
  | run
  /-- blocked in `request_range_extension` -/
  | wait
  /-- blocked in the final `left_neighbor.rx.recv()` -/
  | frecv
  | done
deriving DecidableEq, Repr

/-- the protocol view of a worker; `resp = some (new_high_range.is_some(), new_right_neighbor)` -/
structure PV where
  left : Bool
  right : Option Nat
  pending : Option Nat
  resp : Option (Bool × Option (Option Nat))
  highSome : Bool
  kind : Kind
  /-- the worker has finished its workload (it will not ask for an extension any more) -/
  fin : Bool

structure AG where
  n : Nat
  pv : Nat → PV
  chans : Nat → List Nat

/-- the right neighbour once the response in flight is taken -/
def effRight (p : PV) : Option Nat :=
  match p.resp with
  | some (_, some nr) => nr
  | _ => p.right

def effHigh (p : PV) : Bool :=
  match p.resp with
  | some (h, _) => h
  | none => p.highSome

/-- `right_neighbor` after a response: replaced iff the response carries `new_right_neighbor` -/
def rightAfter (nr : Option (Option Nat)) (old : Option Nat) : Option Nat :=
  match nr with
  | some x => x
  | none => old

/-- somebody holds a `Sender` of channel `j` -/
def AHolder (a : AG) (j : Nat) : Prop :=
  ∃ i, i < a.n ∧ (((a.pv i).kind ≠ .done ∧ (a.pv i).right = some j) ∨ ∃ h, (a.pv i).resp = some (h, some (some j)))

structure AInv (a : AG) : Prop where
  topo : ∀ i j, i < a.n → effRight (a.pv i) = some j →
    i < j ∧ j < a.n ∧ (a.pv j).left = true ∧ (a.pv j).kind ≠ .done
  uniq : ∀ i i' j, i < a.n → i' < a.n → effRight (a.pv i) = some j → effRight (a.pv i') = some j → i = i'
  chanReq : ∀ j r, j < a.n → r ∈ a.chans j →
    r < a.n ∧ (a.pv r).kind = .wait ∧ (a.pv r).right = some j ∧ (a.pv r).resp = none ∧ a.chans j = [r] ∧
      (a.pv j).pending = none
  pendReq : ∀ j r, j < a.n → (a.pv j).pending = some r →
    r < a.n ∧ (a.pv r).kind = .wait ∧ (a.pv r).right = some j ∧ (a.pv r).resp = none ∧ a.chans j = []
  waitOk : ∀ i, i < a.n → (a.pv i).kind = .wait →
    (a.pv i).resp.isSome ∨ ∃ j, (a.pv i).right = some j ∧ (i ∈ a.chans j ∨ (a.pv j).pending = some i)
  respWait : ∀ i, i < a.n → (a.pv i).resp.isSome → (a.pv i).kind = .wait
  highRight : ∀ i, i < a.n → (a.pv i).kind ≠ .done → ((a.pv i).fin = false ∨ (a.pv i).left = true) → effHigh (a.pv i) = true →
    (effRight (a.pv i)).isSome
  frecvPend : ∀ i, i < a.n → (a.pv i).kind = .frecv → (a.pv i).pending = none
  pendLeft : ∀ j, j < a.n → (a.pv j).pending.isSome → (a.pv j).left = true
  chanLeft : ∀ j, j < a.n → a.chans j ≠ [] → (a.pv j).left = true
  doneOk : ∀ i, i < a.n → (a.pv i).kind = .done → (a.pv i).right = none ∧ (a.pv i).left = false
  chanOut : ∀ j, a.n ≤ j → a.chans j = []

/-- the moves of the protocol -/
inductive ATrans (a : AG) : AG → Prop where
  /-- a step without channel operation (a blocked final `recv` that finds `left_neighbor = None` included) -/
  | loc (i : Nat) (f : Bool) (hi : i < a.n) (hk : (a.pv i).kind = .run ∨ ((a.pv i).kind = .frecv ∧ (a.pv i).left = false))
      (hf : (a.pv i).fin = true → f = true) :
      ATrans a { a with pv := upd a.pv i { a.pv i with kind := .run, fin := f } }
  /-- `right_neighbor.tx.send(request)`, then block -/
  | send (i j : Nat) (hi : i < a.n) (hk : (a.pv i).kind = .run) (hr : (a.pv i).right = some j) :
      ATrans a { a with pv := upd a.pv i { a.pv i with kind := .wait }, chans := upd a.chans j (a.chans j ++ [i]) }
  /-- `try_answer_left_neighbor` finds nothing (no left neighbour, or `Empty`) -/
  | poll0 (j : Nat) (k : Kind) (hj : j < a.n) (hk : (a.pv j).kind = .run) (hk' : k = .run ∨ (k = .frecv ∧ (a.pv j).pending = none)) :
      ATrans a { a with pv := upd a.pv j { a.pv j with kind := k } }
  /-- `try_recv` / `recv` answers `Disconnected` -/
  | disc (j : Nat) (k : Kind) (hj : j < a.n) (hk : (a.pv j).kind = .run ∨ (a.pv j).kind = .frecv) (hk' : k = .run ∨ k = .frecv)
      (hp : (a.pv j).pending = none) (hc : a.chans j = []) (hd : ¬ AHolder a j) :
      ATrans a { a with pv := upd a.pv j { a.pv j with left := false, kind := k } }
  /-- a request is taken (from `pending_left_request` or the channel) and kept pending -/
  | pend (j r : Nat) (rest : List Nat) (hj : j < a.n) (hk : (a.pv j).kind = .run ∨ (a.pv j).kind = .frecv)
      (hl : (a.pv j).left = true)
      (hreq : ((a.pv j).pending = some r ∧ rest = a.chans j) ∨ ((a.pv j).pending = none ∧ a.chans j = r :: rest)) :
      ATrans a { a with pv := upd a.pv j { a.pv j with pending := some r, kind := .run }, chans := upd a.chans j rest }
  /-- a request is taken and answered; `relink`: the worker gives up both neighbours -/
  | ans (j r : Nat) (rest : List Nat) (k : Kind) (relink h : Bool) (hj : j < a.n) (hk : (a.pv j).kind = .run)
      (hk' : k = .run ∨ k = .frecv) (hl : (a.pv j).left = true)
      (hreq : ((a.pv j).pending = some r ∧ rest = a.chans j) ∨ ((a.pv j).pending = none ∧ a.chans j = r :: rest))
      (hh : relink = true → h = (a.pv j).highSome ∧ (a.pv j).fin = true) :
      ATrans a { a with
        pv := upd (upd a.pv j { a.pv j with pending := none, kind := k, left := if relink then false else (a.pv j).left,
                                             right := if relink then none else (a.pv j).right })
              r { a.pv r with resp := some (h, if relink then some (a.pv j).right else none) },
        chans := upd a.chans j rest }
  /-- the requester takes the response and goes on -/
  | recv (i : Nat) (h : Bool) (nr : Option (Option Nat)) (hi : i < a.n) (hresp : (a.pv i).resp = some (h, nr))
      (hgo : ∀ x, nr ≠ some (some x)) :
      ATrans a { a with pv := upd a.pv i { a.pv i with resp := none, highSome := h, kind := .run,
                                                       right := rightAfter nr (a.pv i).right } }
  /-- the requester takes the response and asks the new right neighbour -/
  | resend (i j : Nat) (h : Bool) (hi : i < a.n) (hresp : (a.pv i).resp = some (h, some (some j))) :
      ATrans a { a with pv := upd a.pv i { a.pv i with resp := none, highSome := h, right := some j },
                        chans := upd a.chans j (a.chans j ++ [i]) }
  /-- `run_worker` returns -/
  | fin (i : Nat) (hi : i < a.n) (hk : (a.pv i).kind = .run) (hl : (a.pv i).left = false) :
      ATrans a { a with pv := upd a.pv i { a.pv i with kind := .done, right := none } }

theorem effRight_of_resp_none {p : PV} (h : p.resp = none) : effRight p = p.right := by simp [effRight, h]
theorem effHigh_of_resp_none {p : PV} (h : p.resp = none) : effHigh p = p.highSome := by simp [effHigh, h]

end Nomt.ExtRange
