import NomtModel.Store.GenFnCheck3
import NomtModel.Store.IoPoolModel
import NomtModel.Generated.Constants

/-!
# `IoKind::get_result`, and the translated functions with a struct result (`ProbeSequence::new`, `PageDiff::join`)

`get_result`: the command enters by its variant tag, `errno` by the Bool "`last_os_error().kind()` is `Interrupted`" (declared `extern`
in the translator's target; the text of the `matches!` and of the `let os_err` are compared with the source on every run).
A struct result is the tuple of the struct's fields in declaration order.
-/

namespace Nomt.GenFnCheck
open Nomt

/-- the translated verdict as the mirror's -/
def verdictGen : IoPool.Verdict → GenFn.IoKindResult
  | .ok => .Ok
  | .err => .Err
  | .retry => .Retry

/-- `IoKind::get_result` of the CURRENT source is the mirror `getResult`: for every kind, every result and every `errno`; it never
panics.  (`Read` is the only kind for which `0` is a success; `errno` is looked at in the `res == -1` arm only.) -/
theorem io_get_result_eq (k : GenFn.IoKind_kind) (res : Int) (errno : Nat) :
    GenFn.io_get_result k res (decide (errno = IoPool.EINTR)) =
      some (verdictGen (IoPool.getResult (decide (k = .Read)) res errno)) := by
  unfold GenFn.io_get_result IoPool.getResult IoPool.PAGE_SIZE
  by_cases hk : k = .Read <;> by_cases h0 : res = 0 <;> by_cases hp : res = 4096 <;> by_cases hm : res = -1 <;>
    by_cases he : errno = IoPool.EINTR <;> simp [hk, h0, hp, hm, he, verdictGen, @eq_comm Int 0 res, @eq_comm Int 4096 res, @eq_comm Int (-1) res] <;> omega

/-! ## struct results -/

open Store.Probe in
/-- `ProbeSequence::new` of the current source (the page-id hash as a parameter): `{ hash, bucket: hash % len, step: 0 }` = the mirror
`PS.new` — and the PANIC of a table without buckets (`hash % 0`, finding F-Q36-1) is `none` -/
theorem probe_new_eq (n hash : Nat) :
    GenFn.probe_new n hash = if n = 0 then none else some ((PS.new hash n).hash, (PS.new hash n).bucket, (PS.new hash n).step) := by
  unfold GenFn.probe_new PS.new
  simp only [meta_len_eq]
  by_cases h : n = 0 <;> simp [h]

open Wal in
theorem pd_join_eq (a b : PageDiff) :
    GenFn.pd_join a.w0 a.w1 b.w0 b.w1 = some ((a.join b).w0, (a.join b).w1) := by
  unfold GenFn.pd_join PageDiff.join
  first | rfl | (simp only [Nat.or_comm b.w0, Nat.or_comm b.w1])

end Nomt.GenFnCheck
