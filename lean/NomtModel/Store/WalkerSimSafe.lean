import NomtModel.Store.WalkerSimVisit
/-!
# Every visitor call of a canonical block is made in a state where the mirror cannot fail
-/
namespace Nomt.Walker
open Nomt Nomt.TriePos
open Nomt.Wal (PageDiff)

variable {Node VH : Type} [DecidableEq Node] [DecidableEq VH] (H : Hasher Node VH)

/-- all calls of a list are safe, each in the state the previous ones leave -/
def SafeAll (cfg : TWCfg Node) (top : Nat) (noParent : Bool) (sd : Nat) : TW Node → List (WriteNode Node VH) → Prop
  | _, [] => True
  | a, c :: cs => VisitSafe top noParent a c ∧ SafeAll cfg top noParent sd (a.visit H cfg sd c) cs

theorem safeAll_append (cfg : TWCfg Node) (top : Nat) (noParent : Bool) (sd : Nat) :
    ∀ (e1 e2 : List (WriteNode Node VH)) (a : TW Node),
      SafeAll H cfg top noParent sd a (e1 ++ e2) ↔
        SafeAll H cfg top noParent sd a e1 ∧ SafeAll H cfg top noParent sd (TW.visitAll H cfg sd a e1) e2 := by
  intro e1
  induction e1 with
  | nil => intro e2 a; simp [SafeAll, TW.visitAll]
  | cons c cs ih =>
    intro e2 a
    simp only [List.cons_append, SafeAll, TW.visitAll, ih]
    exact and_assoc.symm

theorem safeAll_singleton (cfg : TWCfg Node) (top : Nat) (noParent : Bool) (sd : Nat) (a : TW Node)
    (c : WriteNode Node VH) : SafeAll H cfg top noParent sd a [c] ↔ VisitSafe top noParent a c := by
  simp [SafeAll]

/-- the mirror folds the visitor over a safe list without failing, simulating the tree walker -/
theorem sim_visitAll (ps : PageSet Node) (hs : H.Sound) (hfresh : ∀ P, (ps.fresh P).length = 126) (sd : Nat)
    (Lfin : List (PageId × Store Node)) :
    ∀ (evs : List (WriteNode Node VH)) (w : Walker Node) (a : TW Node), Sim H ps w a →
      SafeAll H (cfgOf H ps w.parentPage) (6 * k0 w.parentPage) w.parentPage.isNone sd a evs →
      (w.reconstruction = true → SmallBy H ps Lfin ∧
        (TW.visitAll H (cfgOf H ps w.parentPage) sd a evs).log <+: Lfin) →
      ∃ w', w.visitAll H ps sd evs = .ok w' ∧
        Sim H ps w' (TW.visitAll H (cfgOf H ps w.parentPage) sd a evs) ∧ Same w w' ∧
        w'.childPageRoots = w.childPageRoots := by
  intro evs
  induction evs with
  | nil => intro w a h _ _; exact ⟨w, rfl, h, Same.rfl' _, rfl⟩
  | cons c cs ih =>
    intro w a h hsafe hfin
    obtain ⟨hc, hrest⟩ := hsafe
    obtain ⟨w1, hw1, hs1, hsame1, hcpr1⟩ := sim_visit H ps hs hfresh sd h c hc Lfin (by
      intro hr
      obtain ⟨hsb, hpre⟩ := hfin hr
      refine ⟨hsb, ?_⟩
      simp only [TW.visitAll] at hpre
      exact List.IsPrefix.trans (tw_visitAll_log_prefix H _ sd cs _) hpre)
    have hpar : w1.parentPage = w.parentPage := hsame1.1
    obtain ⟨w2, hw2, hs2, hsame2, hcpr2⟩ := ih w1 _ hs1 (by rw [hpar]; exact hrest) (by
      intro hr
      have hr0 : w.reconstruction = true := by rw [← hsame1.2.2.2.2]; exact hr
      obtain ⟨hsb, hpre⟩ := hfin hr0
      refine ⟨hsb, ?_⟩
      rw [hpar]
      simp only [TW.visitAll] at hpre
      exact hpre)
    simp only [Walker.visitAll, TW.visitAll]
    rw [hw1]
    simp only
    rw [hpar] at hs2
    exact ⟨w2, hw2, hs2, Same.trans' hsame1 hsame2, hcpr2.trans hcpr1⟩

/-! ## the shape of the `Leaf` calls -/

theorem leafEv_first_eq (t P : Path) (k : Key) (v : VH) (htP : t <+: P) (hkP : P <+: k) :
    leafEv H t.length (P.length - t.length) none k v = .leaf false (P.drop t.length) k v (H.leaf k v) := by
  have htake : k.take P.length = P := (bl_prefix_iff_take P k).mp hkP
  have hse : t.length + (P.length - t.length) = P.length := by have := htP.length_le; omega
  unfold leafEv; simp [hse, htake]

theorem leafEv_jump_eq (t P : Path) (k : Key) (v : VH) (pk : Key) (x : Path) (htP : t <+: P) (hkP : P <+: k)
    (hxP : (x ++ [true]) <+: P) (hxl : t.length ≤ x.length) (hsh : sharedRel t.length pk k = x.length - t.length) :
    leafEv H t.length (P.length - t.length) (some pk) k v =
      .leaf true (true :: P.drop (x.length + 1)) k v (H.leaf k v) := by
  have htake : k.take P.length = P := (bl_prefix_iff_take P k).mp hkP
  have hse : t.length + (P.length - t.length) = P.length := by have := htP.length_le; omega
  have hdrop : P.drop x.length = true :: P.drop (x.length + 1) := by
    obtain ⟨tl, htl⟩ := hxP
    rw [← htl]
    simp [List.drop_append]
  unfold leafEv
  simp only [Option.isSome_some, Option.map_some, Option.getD_some, hse, htake, hsh]
  have : t.length + (x.length - t.length) = x.length := by omega
  rw [this, hdrop]

/-! ## every call of a block is safe -/

theorem tw_visit_tree_safe (hs : H.Sound) {O : List (Key × VH)} (hk : KeysOK O) (cfg : TWCfg Node) (t : Path)
    (top : Nat) (noParent : Bool) (htop0 : noParent = true → top = 0)
    (hscope : (t = [] ∧ noParent = true) ∨ top < t.length) :
    ∀ (f : Nat) (P : Path) (prev : Option Key) (J : Path) (a : TW Node),
      256 - P.length = f → t <+: P → P.length ≤ 256 → sub O P ≠ [] → J <+: P →
      PreJ t.length t prev (sub O P) J a.pos →
      SafeAll H cfg top noParent t.length a
        (treeEv H t.length (256 - P.length) (P.length - t.length) (sub O P) prev) := by
  -- the scope of any position below `t`
  have hscopeP : ∀ P : Path, t <+: P → (P = [] ∧ noParent = true) ∨ top < P.length := by
    intro P htP
    rcases hscope with ⟨ht, hn⟩ | hlt
    · by_cases hP : P = []
      · exact Or.inl ⟨hP, hn⟩
      · right; rw [htop0 hn]; exact List.length_pos_iff.mpr hP
    · right; exact Nat.lt_of_lt_of_le hlt htP.length_le
  have hleaf : ∀ (P : Path) (prev : Option Key) (J : Path) (a : TW Node) (k : Key) (v : VH),
      t <+: P → P.length ≤ 256 → sub O P = [(k, v)] → J <+: P → PreJ t.length t prev [(k, v)] J a.pos →
      VisitSafe top noParent a (leafEv H t.length (P.length - t.length) prev k v) := by
    intro P prev J a k v htP hP hB hJ hpre
    have hkP : P <+: k := by
      have : (k, v) ∈ sub O P := by rw [hB]; simp
      exact ((mem_sub hk P hP (k, v)).mp this).2
    cases prev with
    | none =>
      obtain ⟨hpos, _⟩ := hpre
      rw [leafEv_first_eq H t P k v htP hkP]
      refine ⟨by rw [hpos]; exact hscope, ?_⟩
      rw [hpos, List.length_drop]
      have := htP.length_le
      omega
    | some pk =>
      obtain ⟨x, hpos, hJx, hxl, hsh⟩ := hpre
      have hxP : (x ++ [true]) <+: P := by rw [← hJx]; exact hJ
      rw [leafEv_jump_eq H t P k v pk x htP hkP hxP hxl (hsh (k, v) (by simp))]
      have hxlen := hxP.length_le
      simp at hxlen
      refine ⟨?_, by rw [hpos]; simp, ?_⟩
      · rw [hpos]
        simp only [List.length_append, List.length_singleton]
        rcases hscope with ⟨ht, hn⟩ | hlt
        · rw [htop0 hn]; omega
        · omega
      · rw [hpos, List.length_drop]
        simp only [List.length_append, List.length_singleton]
        omega
  intro f
  induction f with
  | zero =>
    intro P prev J a hf htP hP hne hJ hpre
    have hP256 : P.length = 256 := by omega
    have h1 := sub_length_le_one_of_full hk P hP256
    match hB : sub O P, hne, h1 with
    | [(k, v)], _, _ =>
      rw [hB] at hpre
      simp only [treeEv_single, SafeAll, and_true]
      exact hleaf P prev J a k v htP hP hB hJ hpre
  | succ f ih =>
    intro P prev J a hf htP hP hne hJ hpre
    match hB : sub O P, hne with
    | [(k, v)], _ =>
      rw [hB] at hpre
      simp only [treeEv_single, SafeAll, and_true]
      exact hleaf P prev J a k v htP hP hB hJ hpre
    | x :: y :: rest, _ =>
      have h2 : 2 ≤ (sub O P).length := by rw [hB]; simp
      have hPlt : P.length < 256 := lt_of_two_le_sub hk P hP h2
      rw [← hB, treeEv_sub_two H t P htP hPlt h2 prev]
      have hf' : ∀ b : Bool, 256 - (P ++ [b]).length = f := by intro b; simp; omega
      have htP' : ∀ b : Bool, t <+: (P ++ [b]) := fun b => List.IsPrefix.trans htP (List.prefix_append _ _)
      have hP' : ∀ b : Bool, (P ++ [b]).length ≤ 256 := by intro b; simp; omega
      have hJ' : ∀ b : Bool, J <+: (P ++ [b]) := fun b => List.IsPrefix.trans hJ (List.prefix_append _ _)
      have hmono : ∀ b : Bool, ∀ kv ∈ sub O (P ++ [b]), kv ∈ sub O P :=
        fun b => sub_mono hk P (P ++ [b]) (List.prefix_append _ _) (hP' b)
      have hsplit := sub_length_split (S := O) P
      -- the closing `Internal` call is safe at `P ++ [b]`
      have hint : ∀ (a1 : TW Node) (b : Bool) (l r n : Node), a1.pos = P ++ [b] →
          VisitSafe top noParent a1 (.internal l r n : WriteNode Node VH) := by
        intro a1 b l r n hp
        have := hscopeP (P ++ [b]) (htP' b)
        refine ⟨?_, ?_⟩
        · rw [hp]
          rcases this with ⟨he, _⟩ | hlt
          · simp at he
          · exact hlt
        · rw [hp]
          simp only [List.dropLast_concat, List.length_append, List.length_singleton, Nat.add_sub_cancel]
          exact hscopeP P htP
      by_cases h0 : sub O (P ++ [false]) = []
      · have h1 : sub O (P ++ [true]) ≠ [] := by
          intro h1; rw [h0, h1] at hsplit; simp at hsplit; rw [hsplit] at h2; simp at h2
        rw [h0, treeEv_nil, List.nil_append, safeAll_append, safeAll_singleton]
        have hpo : prevOf ([] : List (Key × VH)) prev = prev := rfl
        rw [hpo]
        have hpre1 := preJ_mono _ _ _ _ _ _ _ hpre (hmono true)
        refine ⟨ih (P ++ [true]) prev J a (hf' true) (htP' true) (hP' true) h1 (hJ' true) hpre1, ?_⟩
        obtain ⟨p1, _⟩ := tw_visit_tree H (fun _ => True) hs hk cfg t f (P ++ [true]) prev J a (hf' true) (htP' true)
          (hP' true) h1 (hJ' true) hpre1
        exact hint _ true _ _ _ p1
      · by_cases h1 : sub O (P ++ [true]) = []
        · rw [h1, treeEv_nil, List.append_nil, safeAll_append, safeAll_singleton]
          have hpre0 := preJ_mono _ _ _ _ _ _ _ hpre (hmono false)
          refine ⟨ih (P ++ [false]) prev J a (hf' false) (htP' false) (hP' false) h0 (hJ' false) hpre0, ?_⟩
          obtain ⟨p1, _⟩ := tw_visit_tree H (fun _ => True) hs hk cfg t f (P ++ [false]) prev J a (hf' false)
            (htP' false) (hP' false) h0 (hJ' false) hpre0
          exact hint _ false _ _ _ p1
        · have hpre0 := preJ_mono _ _ _ _ _ _ _ hpre (hmono false)
          obtain ⟨p1, _⟩ := tw_visit_tree H (fun _ => True) hs hk cfg t f (P ++ [false]) prev J a (hf' false)
            (htP' false) (hP' false) h0 (hJ' false) hpre0
          obtain ⟨init0, l0, hinit⟩ : ∃ init l, sub O (P ++ [false]) = init ++ [l] :=
            ⟨(sub O (P ++ [false])).dropLast, (sub O (P ++ [false])).getLast h0,
              (List.dropLast_concat_getLast h0).symm⟩
          have hl0 : l0 ∈ sub O (P ++ [false]) := by rw [hinit]; simp
          have hpo : prevOf (sub O (P ++ [false])) prev = some l0.1 := by
            rw [hinit]; exact prevOf_append_singleton _ _ _
          rw [hpo]
          have hle : t.length ≤ P.length := htP.length_le
          have hpre1 : PreJ t.length t (some l0.1) (sub O (P ++ [true])) (P ++ [true])
              (TW.visitAll H cfg t.length a (treeEv H t.length (256 - (P ++ [false]).length)
                ((P ++ [false]).length - t.length) (sub O (P ++ [false])) prev)).pos := by
            refine ⟨P, p1, rfl, hle, ?_⟩
            intro kv hkv
            have m0 := (mem_sub hk (P ++ [false]) (hP' false) l0).mp hl0
            have m1 := (mem_sub hk (P ++ [true]) (hP' true) kv).mp hkv
            have hlen0 := hk.len l0 m0.1
            have hlen1 := hk.len kv m1.1
            have ht0 : l0.1.take (P ++ [false]).length = P ++ [false] := (bl_prefix_iff_take _ _).mp m0.2
            have ht1 : kv.1.take (P ++ [true]).length = P ++ [true] := (bl_prefix_iff_take _ _).mp m1.2
            have hPP0 : l0.1.take P.length = P := by
              have := congrArg (List.take P.length) ht0
              simpa [List.take_take] using this
            have hPP1 : kv.1.take P.length = P := by
              have := congrArg (List.take P.length) ht1
              simpa [List.take_take] using this
            have hb0 : l0.1.getD P.length false = false := by
              have := bl_getD_of_prefix _ _ m0.2 P.length (by simp)
              simpa using this
            have hb1 : kv.1.getD P.length false = true := by
              have := bl_getD_of_prefix _ _ m1.2 P.length (by simp)
              simpa using this
            have e : t.length + (P.length - t.length) = P.length := by omega
            apply sharedRel_split t.length (P.length - t.length) l0.1 kv.1
            · rw [e, hPP0, hPP1]
            · rw [e, hlen0]; exact hPlt
            · rw [e, hlen1]; exact hPlt
            · rw [e, hb0, hb1]; simp
          obtain ⟨r1, _⟩ := tw_visit_tree H (fun _ => True) hs hk cfg t f (P ++ [true]) (some l0.1) (P ++ [true]) _
            (hf' true) (htP' true) (hP' true) h1 (List.prefix_refl _) hpre1
          rw [safeAll_append, safeAll_append, safeAll_singleton]
          refine ⟨⟨ih (P ++ [false]) prev J a (hf' false) (htP' false) (hP' false) h0 (hJ' false) hpre0,
            ih (P ++ [true]) (some l0.1) (P ++ [true]) _ (hf' true) (htP' true) (hP' true) h1 (List.prefix_refl _) hpre1⟩,
            ?_⟩
          rw [tw_visitAll_append]
          exact hint _ true _ _ _ r1

end Nomt.Walker
