import NomtModel.Store.WalModel
import NomtModel.Store.PageDiffOnes
/-!
The WAL reader mirror: what it returns on an encoded prefix (used by the round trip) and totality (it never reaches
a panic site — no index / slice out of bounds — on any byte string, and its loop terminates within `size + 1` steps).
-/
namespace Nomt.Wal

/-! ### `Outcome` plumbing -/

@[simp] theorem bind_ok {α β : Type} (a : α) (f : α → Out β) : (Outcome.ok a >>= f) = f a := rfl
@[simp] theorem bind_err {α β : Type} (e : WalErr) (f : α → Out β) : ((Outcome.err e : Out α) >>= f) = .err e := rfl
@[simp] theorem bind_panic {α β : Type} (s : String) (f : α → Out β) : ((Outcome.panic s : Out α) >>= f) = .panic s := rfl
@[simp] theorem pure_eq_ok {α : Type} (a : α) : (pure a : Out α) = .ok a := rfl

namespace Reader

/-- the bytes not yet consumed -/
def rest (r : Reader) : Bytes := r.wal.toList.drop r.offset

/-- `offset ≤ wal.len()` -/
def Inv (r : Reader) : Prop := r.offset ≤ r.wal.size

theorem rest_length (r : Reader) : r.rest.length = r.wal.size - r.offset := by
  simp [rest]

/-! ### reading an encoded prefix -/

theorem readByte_cons {r : Reader} {b : UInt8} {tl : Bytes} (h : r.rest = b :: tl) :
    r.readByte = .ok (b, { r with offset := r.offset + 1 }) ∧
    ({ r with offset := r.offset + 1 } : Reader).rest = tl := by
  have hlt : r.offset < r.wal.size := by
    have := rest_length r
    rw [h] at this
    simp at this
    omega
  have hget : r.wal[r.offset]? = some b := by
    rw [← Array.getElem?_toList]
    have : (r.wal.toList.drop r.offset)[0]? = some b := by
      have h' : r.wal.toList.drop r.offset = b :: tl := h
      rw [h']; rfl
    rw [List.getElem?_drop] at this
    simpa using this
  refine ⟨?_, ?_⟩
  · unfold readByte
    have : ¬ (r.offset ≥ r.wal.size) := by omega
    simp only [this, if_false, hget]
  · show r.wal.toList.drop (r.offset + 1) = tl
    have h' : r.wal.toList.drop r.offset = b :: tl := h
    rw [← List.drop_drop, h']
    rfl

theorem readBuf_append {r : Reader} (hinv : r.Inv) {a tl : Bytes} (h : r.rest = a ++ tl) :
    r.readBuf a.length = .ok (a, { r with offset := r.offset + a.length }) ∧
    ({ r with offset := r.offset + a.length } : Reader).rest = tl ∧
    ({ r with offset := r.offset + a.length } : Reader).Inv := by
  have hl := rest_length r
  rw [h] at hl
  simp only [List.length_append] at hl
  have hle : r.offset + a.length ≤ r.wal.size := by unfold Inv at hinv; omega
  have h' : r.wal.toList.drop r.offset = a ++ tl := h
  refine ⟨?_, ?_, hle⟩
  · unfold readBuf
    have : ¬ (r.offset + a.length > r.wal.size) := by omega
    simp only [this, if_false]
    have hex : (r.wal.extract r.offset (r.offset + a.length)).toList = a := by
      rw [Array.toList_extract, List.extract_eq_take_drop, h']
      have : r.offset + a.length - r.offset = a.length := by omega
      rw [this, List.take_left' rfl]
    rw [hex]
    simp
  · show r.wal.toList.drop (r.offset + a.length) = tl
    rw [← List.drop_drop, h', List.drop_left' rfl]

theorem readU64_append {r : Reader} (hinv : r.Inv) {n : Nat} (hn : n < 2 ^ 64) {tl : Bytes}
    (h : r.rest = leBytes 8 n ++ tl) :
    r.readU64 = .ok (n, { r with offset := r.offset + 8 }) ∧
    ({ r with offset := r.offset + 8 } : Reader).rest = tl ∧ ({ r with offset := r.offset + 8 } : Reader).Inv := by
  have := readBuf_append hinv h
  simp only [leBytes_length] at this
  refine ⟨?_, this.2⟩
  unfold readU64
  rw [this.1]
  simp only [bind_ok, pure_eq_ok]
  rw [leNat_leBytes_of_lt (by omega)]

theorem readNodes_append {ns : List Bytes} (hn : ∀ n ∈ ns, n.length = 32) :
    ∀ {r : Reader}, r.Inv → ∀ {tl : Bytes}, r.rest = ns.flatten ++ tl →
    readNodes ns.length r = .ok (ns, { r with offset := r.offset + 32 * ns.length }) ∧
    ({ r with offset := r.offset + 32 * ns.length } : Reader).rest = tl ∧
    ({ r with offset := r.offset + 32 * ns.length } : Reader).Inv := by
  induction ns with
  | nil =>
    intro r hinv tl h
    simp only [List.flatten_nil, List.nil_append] at h
    exact ⟨rfl, h, hinv⟩
  | cons n ns ih =>
    intro r hinv tl h
    have hn32 : n.length = 32 := hn n (by simp)
    simp only [List.flatten_cons, List.append_assoc] at h
    obtain ⟨h1, h2, h3⟩ := readBuf_append hinv h
    rw [hn32] at h1 h2 h3
    obtain ⟨g1, g2, g3⟩ := ih (fun m hm => hn m (by simp [hm])) h3 h2
    have e : r.offset + 32 + 32 * ns.length = r.offset + 32 * (ns.length + 1) := by omega
    simp only [e] at g1 g2 g3
    refine ⟨?_, g2, g3⟩
    simp only [List.length_cons, readNodes, h1, bind_ok, g1, pure_eq_ok]

end Reader

/-- an entry the reader can return: the types of `Entry.Typed`, as many nodes as the diff has bits, no reserved bit -/
def Entry.Honest : Entry → Prop
  | .clear b => b < 2 ^ 64
  | .update pid d nodes el b =>
    pid.length = 32 ∧ d.WF ∧ (∀ n ∈ nodes, n.length = 32) ∧ el < 2 ^ 64 ∧ b < 2 ^ 64 ∧
    nodes.length = d.count ∧ d.changed 126 = false ∧ d.changed 127 = false

theorem Entry.Honest.typed {e : Entry} (h : e.Honest) : e.Typed := by
  cases e with
  | clear b => exact h
  | update pid d nodes el b => exact ⟨h.1, h.2.1, h.2.2.1, h.2.2.2.1, h.2.2.2.2.1⟩

namespace Reader

/-- `read_entry` on the encoding of an honest entry returns the entry and stands right behind it -/
theorem readEntry_enc {e : Entry} (he : e.Honest) {r : Reader} (hinv : r.Inv) {tl : Bytes}
    (h : r.rest = encEntry e ++ tl) :
    ∃ r', r.readEntry = .ok (some e, r') ∧ r'.rest = tl ∧ r'.Inv ∧ r'.wal = r.wal ∧ r'.seqn = r.seqn := by
  cases e with
  | clear b =>
    simp only [encEntry, List.cons_append] at h
    obtain ⟨h1, h2⟩ := readByte_cons h
    have hinv1 : ({ r with offset := r.offset + 1 } : Reader).Inv := by
      have := rest_length r; rw [h] at this; simp at this; unfold Inv; simp; omega
    obtain ⟨g1, g2, g3⟩ := readU64_append hinv1 (n := b) he h2
    refine ⟨_, ?_, g2, g3, rfl, rfl⟩
    unfold readEntry
    simp only [h1, bind_ok]
    have t1 : ¬ (WAL_ENTRY_TAG_CLEAR = WAL_ENTRY_TAG_END) := by decide
    simp only [t1, if_false, if_true, g1, bind_ok, pure_eq_ok]
  | update pid d nodes el b =>
    obtain ⟨hp, hd, hn, hel, hb, hcnt, h126, h127⟩ := he
    simp only [encEntry, List.cons_append, List.append_assoc] at h
    obtain ⟨h1, h2⟩ := readByte_cons h
    have hinv1 : ({ r with offset := r.offset + 1 } : Reader).Inv := by
      have := rest_length r; rw [h] at this; simp at this; unfold Inv; simp; omega
    obtain ⟨a1, a2, a3⟩ := readBuf_append hinv1 h2
    rw [hp] at a1 a2 a3
    dsimp only at a1 a2 a3
    obtain ⟨b1, b2, b3⟩ := readBuf_append a3 a2
    rw [PageDiff.asBytes_length] at b1 b2 b3
    dsimp only at b1 b2 b3
    obtain ⟨c1, c2, c3⟩ := readNodes_append hn b3 b2
    rw [hcnt] at c1 c2 c3
    dsimp only at c1 c2 c3
    obtain ⟨e1, e2, e3⟩ := readBuf_append c3 c2
    simp only [leBytes_length] at e1 e2 e3
    obtain ⟨f1, f2, f3⟩ := readU64_append e3 (n := b) hb e2
    dsimp only at f1 f2 f3
    refine ⟨_, ?_, f2, f3, rfl, rfl⟩
    unfold readEntry
    simp only [h1, bind_ok]
    have t1 : ¬ (WAL_ENTRY_TAG_UPDATE = WAL_ENTRY_TAG_END) := by decide
    have t2 : ¬ (WAL_ENTRY_TAG_UPDATE = WAL_ENTRY_TAG_CLEAR) := by decide
    simp only [t1, t2, if_false, if_true, a1, bind_ok, b1, PageDiff.fromBytes_asBytes hd h126 h127, c1, e1, f1,
      pure_eq_ok]
    rw [leNat_leBytes_of_lt (by omega)]

/-- `read_entry` at the END tag -/
theorem readEntry_end {r : Reader} {tl : Bytes} (h : r.rest = WAL_ENTRY_TAG_END :: tl) :
    ∃ r', r.readEntry = .ok (none, r') := by
  obtain ⟨h1, _⟩ := readByte_cons h
  refine ⟨{ r with offset := r.offset + 1 }, ?_⟩
  unfold readEntry
  simp only [h1, bind_ok, if_true, pure_eq_ok]

/-- the read loop on `entries ++ END ++ anything` (fuel: one step per entry and one for END) -/
theorem readLoop_enc (es : List Entry) (hes : ∀ e ∈ es, e.Honest) :
    ∀ {r : Reader}, r.Inv → ∀ {tl : Bytes}, r.rest = (es.map encEntry).flatten ++ WAL_ENTRY_TAG_END :: tl →
    ∀ (fuel : Nat), es.length < fuel → ∀ acc : List Entry,
    readLoop fuel r acc = (.ok (acc.reverse ++ es), acc.reverse ++ es) := by
  induction es with
  | nil =>
    intro r _ tl h fuel hf acc
    obtain ⟨f, rfl⟩ : ∃ f, fuel = f + 1 := ⟨fuel - 1, by simp at hf; omega⟩
    simp only [List.map_nil, List.flatten_nil, List.nil_append] at h
    obtain ⟨r', hr'⟩ := readEntry_end h
    simp only [readLoop, hr', List.append_nil]
  | cons e es ih =>
    intro r hinv tl h fuel hf acc
    obtain ⟨f, rfl⟩ : ∃ f, fuel = f + 1 := ⟨fuel - 1, by simp at hf; omega⟩
    simp only [List.map_cons, List.flatten_cons, List.append_assoc] at h
    obtain ⟨r', h1, h2, h3, _, _⟩ := readEntry_enc (hes e (by simp)) hinv h
    have := ih (fun x hx => hes x (by simp [hx])) h3 h2 f (by simp at hf; omega) (e :: acc)
    simp only [readLoop, h1, this, List.reverse_cons, List.append_assoc, List.singleton_append]

/-! ### totality -/

local macro "omega'" : tactic => `(tactic| first | omega | (dsimp only; omega))

/-- the outcome of a read step that started at `r`: not a panic; on success the same buffer, the offset moved
forward by at least `k` and is still inside the buffer -/
def Step {α : Type} (r : Reader) (k : Nat) : Out (α × Reader) → Prop
  | .ok (_, r') => r'.wal = r.wal ∧ r.offset + k ≤ r'.offset ∧ r'.Inv
  | .err _ => True
  | .panic _ => False

theorem readByte_step (r : Reader) (hinv : r.Inv) : Step r 1 r.readByte := by
  unfold readByte
  by_cases h : r.offset ≥ r.wal.size
  · simp [h, Step]
  · simp only [h, if_false]
    have hlt : r.offset < r.wal.size := by omega
    have : r.wal[r.offset]? = some r.wal[r.offset] := Array.getElem?_eq_getElem hlt
    rw [this]
    exact ⟨rfl, Nat.le_refl _, by unfold Inv; simp; omega⟩

theorem readBuf_step (r : Reader) (n : Nat) (hinv : r.Inv) : Step r n (r.readBuf n) := by
  unfold readBuf
  by_cases h : r.offset + n > r.wal.size
  · simp [h, Step]
  · simp only [h, if_false]
    have : ((r.wal.extract r.offset (r.offset + n)).toList).length = n := by
      simp; omega
    simp only [this, ne_eq, not_true, if_false]
    exact ⟨rfl, Nat.le_refl _, by unfold Inv; simp; omega⟩

theorem step_bind {α β : Type} {r : Reader} {k k' : Nat} {x : Out (α × Reader)} {f : α × Reader → Out (β × Reader)}
    (hx : Step r k x)
    (hf : ∀ a r', r'.wal = r.wal → r.offset + k ≤ r'.offset → r'.Inv → Step r' k' (f (a, r'))) :
    Step r (k + k') (x >>= f) := by
  cases x with
  | ok p =>
    obtain ⟨a, r'⟩ := p
    obtain ⟨h1, h2, h3⟩ := hx
    have := hf a r' h1 h2 h3
    simp only [bind_ok]
    revert this
    cases f (a, r') with
    | ok q =>
      obtain ⟨b, r''⟩ := q
      intro ⟨g1, g2, g3⟩
      exact ⟨by rw [g1, h1], by omega, g3⟩
    | err _ => intro _; trivial
    | panic _ => intro h; exact h
  | err _ => trivial
  | panic _ => exact hx

theorem step_mono {α : Type} {r : Reader} {k k' : Nat} (hk : k' ≤ k) {x : Out (α × Reader)} (h : Step r k x) :
    Step r k' x := by
  cases x with
  | ok p => obtain ⟨a, r'⟩ := p; exact ⟨h.1, by have := h.2.1; omega, h.2.2⟩
  | err _ => trivial
  | panic _ => exact h

theorem readU64_step (r : Reader) (hinv : r.Inv) : Step r 8 r.readU64 := by
  unfold readU64
  have := step_bind (k' := 0) (β := Nat) (f := fun p => pure (leNat p.1, p.2)) (readBuf_step r 8 hinv)
    (fun a r' h1 h2 h3 => ⟨rfl, by omega', h3⟩)
  exact this

theorem readU32_step (r : Reader) (hinv : r.Inv) : Step r 4 r.readU32 := by
  unfold readU32
  have := step_bind (k' := 0) (β := Nat) (f := fun p => pure (leNat p.1, p.2)) (readBuf_step r 4 hinv)
    (fun a r' h1 h2 h3 => ⟨rfl, by omega', h3⟩)
  exact this

theorem readNodes_step (c : Nat) : ∀ (r : Reader), r.Inv → Step r 0 (readNodes c r) := by
  induction c with
  | zero => intro r hinv; exact ⟨rfl, by omega', hinv⟩
  | succ c ih =>
    intro r hinv
    unfold readNodes
    apply step_mono (k := 32 + 0) (by omega)
    apply step_bind (readBuf_step r 32 hinv)
    intro n r1 h1 h2 h3
    have := step_bind (k' := 0) (f := fun (p : List Bytes × Reader) => (pure (n :: p.1, p.2) : Out (List Bytes × Reader)))
      (ih r1 h3) (fun a r' g1 g2 g3 => ⟨rfl, by omega', g3⟩)
    exact this

/-- **totality of `read_entry`**: on any buffer, at any position inside it, the call is not a panic, and a successful
call consumed at least one byte and stays inside the buffer -/
theorem readEntry_step (r : Reader) (hinv : r.Inv) : Step r 1 r.readEntry := by
  unfold readEntry
  apply step_mono (k := 1 + 0) (by omega)
  apply step_bind (readByte_step r hinv)
  intro tag r1 h1 h2 h3
  simp only
  split
  · exact ⟨rfl, by omega', h3⟩
  · split
    · apply step_mono (k := 8 + 0) (by omega)
      apply step_bind (readU64_step r1 h3)
      intro b r2 g1 g2 g3
      exact ⟨rfl, by omega', g3⟩
    · split
      · apply step_mono (k := 32 + 0) (by omega)
        apply step_bind (readBuf_step r1 32 h3)
        intro pid r2 g1 g2 g3
        apply step_mono (k := 16 + 0) (by omega)
        apply step_bind (readBuf_step r2 16 g3)
        intro db r3 i1 i2 i3
        simp only
        split
        · trivial
        · apply step_mono (k := 0 + 0) (by omega)
          apply step_bind (readNodes_step _ r3 i3)
          intro nodes r4 j1 j2 j3
          apply step_mono (k := 8 + 0) (by omega)
          apply step_bind (readBuf_step r4 8 j3)
          intro el r5 k1 k2 k3
          apply step_mono (k := 8 + 0) (by omega)
          apply step_bind (readU64_step r5 k3)
          intro b r6 l1 l2 l3
          exact ⟨rfl, by omega', l3⟩
      · trivial

/-- the read loop never reaches a panic site and never runs out of fuel when started with more fuel than bytes left -/
theorem readLoop_total : ∀ (fuel : Nat) (r : Reader) (acc : List Entry), r.Inv → r.wal.size - r.offset < fuel →
    (readLoop fuel r acc).1.isPanic = false := by
  intro fuel
  induction fuel with
  | zero => intro r acc _ h; omega
  | succ f ih =>
    intro r acc hinv hf
    have hs := readEntry_step r hinv
    unfold readLoop
    revert hs
    cases r.readEntry with
    | ok p =>
      obtain ⟨oe, r'⟩ := p
      intro ⟨h1, h2, h3⟩
      cases oe with
      | none => rfl
      | some e =>
        simp only
        apply ih r' (e :: acc) h3
        rw [h1]
        unfold Inv at h3
        rw [h1] at h3
        omega
    | err _ => intro _; rfl
    | panic _ => intro h; exact h.elim

/-- outcome of `read_start`: not a panic; on success the same buffer and a position inside it -/
def StartOK (r : Reader) : Out Reader → Prop
  | .ok r' => r'.wal = r.wal ∧ r'.Inv
  | .err _ => True
  | .panic _ => False

theorem readStart_step (r : Reader) (hinv : r.Inv) : StartOK r r.readStart := by
  unfold readStart
  have hb := readByte_step r hinv
  revert hb
  cases r.readByte with
  | ok p =>
    obtain ⟨tag, r1⟩ := p
    intro ⟨h1, h2, h3⟩
    simp only [bind_ok]
    by_cases htag : tag = WAL_ENTRY_TAG_START
    · simp only [htag, if_true]
      have hu := readU32_step r1 h3
      revert hu
      cases r1.readU32 with
      | ok q =>
        obtain ⟨s, r2⟩ := q
        intro ⟨g1, g2, g3⟩
        exact ⟨by simp [g1, h1], g3⟩
      | err _ => intro _; trivial
      | panic _ => intro h; exact h
    · simp only [htag, if_false]
      trivial
  | err _ => intro _; trivial
  | panic _ => intro h; exact h

end Reader

/-- **totality of the WAL reader**: opening any file and reading every entry never reaches a panic site -/
theorem readAll_total (file : Array UInt8) :
    (readAll file).isPanic = false ∧ ∀ res, readAll file = .ok res → res.ending.isPanic = false := by
  unfold readAll
  cases hnew : Reader.new file with
  | ok r =>
    have hinv : r.wal = file ∧ r.Inv := by
      unfold Reader.new at hnew
      split at hnew
      · cases hnew
      · have := Reader.readStart_step { wal := file, offset := 0, seqn := 0 } (by unfold Reader.Inv; simp)
        rw [hnew] at this
        exact this
    refine ⟨rfl, ?_⟩
    intro res hres
    simp only at hres
    injection hres with hres
    subst hres
    have := Reader.readLoop_total (file.size + 1) r [] hinv.2 (by rw [hinv.1]; omega)
    simp only
    revert this
    cases (Reader.readLoop (file.size + 1) r []).1 <;> simp [Outcome.isPanic]
  | err e => exact ⟨rfl, fun res h => by cases h⟩
  | panic s =>
    exfalso
    unfold Reader.new at hnew
    split at hnew
    · cases hnew
    · have := Reader.readStart_step { wal := file, offset := 0, seqn := 0 } (by unfold Reader.Inv; simp)
      rw [hnew] at this
      exact this

end Nomt.Wal
