import NomtModel.Core.Build
import NomtModel.Core.Outcome
/-!
# `build_trie` with its visitor (`core/src/update.rs`)

`Core/Build.lean` mirrors the node computation of `build_trie` (stack of pending siblings, window `a, b, c`).  The page
walker uses the *visitor*: for every computed node `build_trie` calls `visit(WriteNode)`, and the `WriteNode` tells the
visitor how to move (`up()`, `down()`) before writing `node()`.  This file mirrors the sequence of visitor calls; the node
values are computed by the SAME `hashUp` / `stepKey` as `Core/Build.lean` (`runEv_stack`, `Store/WalkerBuildLemmas.lean`).

The visitor cannot influence `build_trie`, so "call the visitor for each event in order" = "fold the visitor over the event
list".  Panic sites: the bit-slice `this_key[down_start .. leaf_end_bit]` and `k[skip ..]` (out of range when two equal keys
push `leaf_end_bit` beyond the key length).
-/
namespace Nomt.Walker
open Nomt

variable {Node VH : Type} (H : Hasher Node VH)

/-- `update::WriteNode` -/
inductive WriteNode (Node VH : Type) where
  | leaf (up : Bool) (down : List Bool) (key : Key) (vh : VH) (node : Node)
  | internal (left right node : Node)
  | terminator

/-- `WriteNode::up` -/
def WriteNode.up : WriteNode Node VH → Bool
  | .leaf up _ _ _ _ => up
  | .internal _ _ _ => true
  | .terminator => false

/-- `WriteNode::down` -/
def WriteNode.down : WriteNode Node VH → List Bool
  | .leaf _ down _ _ _ => down
  | _ => []

/-- `WriteNode::node` -/
def WriteNode.node : WriteNode Node VH → Node
  | .leaf _ _ _ _ n => n
  | .internal _ _ n => n
  | .terminator => H.term

/-- the visitor calls of the inner `for bit in … .rev().take(hash_up_layers)` loop (same recursion as `hashUp`) -/
def hashUpEv (key : Key) (skip : Nat) : (up : Nat) → (layer : Nat) → Node → Stack Node → List (WriteNode Node VH)
  | 0, _, _, _ => []
  | up+1, layer, node, st =>
      let layer' := layer - 1
      let bit := key.getD (skip + layer') false
      let sibSt : Node × Stack Node :=
        match st with
        | (n, l) :: rest => if l == layer' + 1 then (n, rest) else (H.term, st)
        | [] => (H.term, [])
      let l := if bit then sibSt.1 else node
      let r := if bit then node else sibSt.1
      .internal l r (H.internal l r) :: hashUpEv key skip up layer' (H.internal l r) sibSt.2

/-- `(leaf_depth, hash_up_layers)` of one iteration -/
def depthUp (skip : Nat) (prev : Option Key) (k : Key) (next : Option Key) : Nat × Nat :=
  match prev.map (fun p => sharedRel skip p k), next.map (fun c => sharedRel skip c k) with
  | none, none => (0, 0)
  | none, some n2 => (n2 + 1, 0)
  | some n1, none => (n1 + 1, n1 + 1)
  | some n1, some n2 => (max n1 n2 + 1, n1 - n2)

/-- the visitor calls of one iteration of the `while let Some(..) = b` loop; `none` = a bit-slice out of range -/
def stepKeyEv (skip : Nat) (prev : Option Key) (k : Key) (v : VH) (next : Option Key) (st : Stack Node) :
    Option (List (WriteNode Node VH)) :=
  let du := depthUp skip prev k next
  let n1 := prev.map (fun p => sharedRel skip p k)
  let downStart := skip + n1.getD 0
  let leafEnd := skip + du.1
  if leafEnd > k.length then none else
  some (.leaf n1.isSome ((k.take leafEnd).drop downStart) k v (H.leaf k v)
        :: hashUpEv H k skip du.2 du.1 (H.leaf k v) st)

/-- the loop with its window; the stack is threaded by `stepKey` of `Core/Build.lean` -/
def runEv (skip : Nat) : Option Key → List (Key × VH) → Option Key → Stack Node → Option (List (WriteNode Node VH))
  | _, [], _, _ => some []
  | prev, [(k, v)], next, st => stepKeyEv H skip prev k v next st
  | prev, (k, v) :: (k', v') :: rest, next, st =>
      match stepKeyEv H skip prev k v (some k') st with
      | none => none
      | some e =>
        match runEv skip (some k) ((k', v') :: rest) next (stepKey H skip prev k v (some k') st) with
        | none => none
        | some es => some (e ++ es)

/-- the visitor calls of `build_trie(skip, ops, visit)`; `none` = panic (bit-slice out of range) -/
def buildEvents (skip : Nat) (ops : List (Key × VH)) : Option (List (WriteNode Node VH)) :=
  match ops with
  | [] => some [.terminator]
  | [(k, v)] => some [.leaf false [] k v (H.leaf k v)]
  | _ => runEv H skip none ops none []

end Nomt.Walker
