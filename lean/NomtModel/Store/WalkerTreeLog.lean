import NomtModel.Store.WalkerTreeRun3
/-!
# The tree walker's log only grows

Leaving a page appends one entry; nothing else touches the log.  So the log of every intermediate state of a run is a
prefix of the log of the final state — what lets a fact about the FINAL log (every logged page is right and small) be used at
every intermediate pop.
-/
namespace Nomt.Walker
open Nomt Nomt.TriePos

variable {Node VH : Type} [DecidableEq Node] [DecidableEq VH] (H : Hasher Node VH)

theorem tw_up_log (a : TW Node) :
    a.up.log = if dip a.pos = 1 then a.log ++ [(specPage a.pos, a.store)] else a.log := by
  unfold TW.up; split <;> rfl

theorem tw_up_log_prefix (a : TW Node) : a.log <+: a.up.log := by
  rw [tw_up_log]; split
  · exact List.prefix_append _ _
  · exact List.prefix_refl _

theorem tw_down_log (cfg : TWCfg Node) (a : TW Node) (bits : List Bool) (fresh : Bool) :
    (a.down cfg bits fresh).log = a.log := (tw_down_spec cfg bits a fresh).2.1

/-- the state in which the visitor of an `Internal` call leaves the page: after the optional zeroing of the sibling -/
def TW.zeroed (a : TW Node) (l r : Node) : TW Node :=
  if (if a.pos.getLast?.getD false then decide (H.kind l = .terminator) else decide (H.kind r = .terminator)) = true
  then a.setSibling H.term else a

theorem tw_zeroed_log (a : TW Node) (l r : Node) : (a.zeroed H l r).log = a.log := by
  unfold TW.zeroed; split <;> split <;> rfl

theorem tw_zeroed_pos (a : TW Node) (l r : Node) : (a.zeroed H l r).pos = a.pos := by
  unfold TW.zeroed; split <;> split <;> rfl

/-- the log after an `Internal` call is the log after the `up` of that call -/
theorem tw_visit_internal_log (cfg : TWCfg Node) (sd : Nat) (a : TW Node) (l r n : Node) :
    (a.visit H cfg sd (.internal l r n : WriteNode Node VH)).log = ((a.zeroed H l r).up).log := by
  unfold TW.visit TW.zeroed
  simp only [WriteNode.up, WriteNode.down, WriteNode.node, tw_descend_eq, TW.down]
  rfl

theorem tw_visit_log_prefix (cfg : TWCfg Node) (sd : Nat) (a : TW Node) (c : WriteNode Node VH) :
    a.log <+: (a.visit H cfg sd c).log := by
  cases c with
  | terminator =>
    unfold TW.visit
    simp only [WriteNode.up, WriteNode.down, WriteNode.node, tw_descend_eq, TW.down]
    exact List.prefix_refl _
  | internal l r n =>
    rw [tw_visit_internal_log]
    have := tw_up_log_prefix (a.zeroed H l r)
    rw [tw_zeroed_log] at this
    exact this
  | leaf up down k v n =>
    unfold TW.visit
    simp only [WriteNode.up, WriteNode.down, WriteNode.node, tw_descend_eq]
    cases up with
    | false =>
      show a.log <+: (TW.down cfg a down true).log
      rw [tw_down_log]; exact List.prefix_refl _
    | true =>
      cases down with
      | nil =>
        show a.log <+: (TW.down cfg a.up [] true).log
        rw [tw_down_log]; exact tw_up_log_prefix a
      | cons d0 rest =>
        simp only
        split
        · show a.log <+: (TW.down cfg _ rest true).log
          rw [tw_down_log]; exact List.prefix_refl _
        · show a.log <+: (TW.down cfg a.up (d0 :: rest) true).log
          rw [tw_down_log]; exact tw_up_log_prefix a

theorem tw_visitAll_log_prefix (cfg : TWCfg Node) (sd : Nat) : ∀ (evs : List (WriteNode Node VH)) (a : TW Node),
    a.log <+: (TW.visitAll H cfg sd a evs).log := by
  intro evs
  induction evs with
  | nil => intro a; exact List.prefix_refl _
  | cons c cs ih =>
    intro a
    simp only [TW.visitAll]
    exact List.IsPrefix.trans (tw_visit_log_prefix H cfg sd a c) (ih _)

theorem tw_replaceTerminal_log_prefix (cfg : TWCfg Node) (a : TW Node) (ops : List (Key × VH)) :
    a.log <+: (a.replaceTerminal H cfg ops).log := by
  unfold TW.replaceTerminal
  split
  · exact tw_visitAll_log_prefix H cfg _ _ _
  · exact List.prefix_refl _

theorem tw_compactStep_log (a : TW Node) : (a.compactStep H).2.log = a.log := by
  rw [tw_compactStep_snd]
  split
  · rfl
  · split <;> rfl

theorem tw_compactLoop_log_prefix (cfg : TWCfg Node) : ∀ (n : Nat) (a : TW Node),
    a.log <+: (TW.compactLoop H cfg n a).log := by
  intro n
  induction n with
  | zero => intro a; exact List.prefix_refl _
  | succ n ih =>
    intro a
    rw [tw_compactLoop_succ]
    have h1 : a.log <+: ((a.compactStep H).2.up).log := by
      have := tw_up_log_prefix (a.compactStep H).2
      rw [tw_compactStep_log] at this
      exact this
    split
    · split
      · exact h1
      · exact h1
    · exact List.IsPrefix.trans h1
        (ih (((a.compactStep H).2.up).setNode (a.compactStep H).1))

/-- the log after the first `up` of the loop is a prefix of the final one -/
theorem tw_compactLoop_round_prefix (cfg : TWCfg Node) (n : Nat) (a : TW Node) :
    ((a.compactStep H).2.up).log <+: (TW.compactLoop H cfg (n + 1) a).log := by
  rw [tw_compactLoop_succ]
  split
  · split
    · exact List.prefix_refl _
    · exact List.prefix_refl _
  · exact tw_compactLoop_log_prefix H cfg n (((a.compactStep H).2.up).setNode (a.compactStep H).1)

end Nomt.Walker
