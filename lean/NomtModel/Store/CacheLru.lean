/-!
# Mirror of the `lru` crate (0.18.0) AS USED by `nomt/src/page_cache.rs` and `nomt/src/beatree/leaf_cache.rs`

`LruCache<K, V>` is a hash map of nodes threaded on a doubly linked list, most recently used first.  The mirror keeps
the list (`items`, most recently used FIRST — the order of `LruCache::iter`) and the capacity.  Methods used by nomt:
`unbounded` / `unbounded_with_hasher` (`cap = NonZeroUsize::MAX`), `get` (promotes), `put` (replaces the value of a
resident key AND promotes it; a new key goes through `replace_or_create_node`: when `len == cap` the least recently used
node is reused, i.e. dropped), `get_or_insert` (resident: promote, keep the OLD value, the closure is not called; new:
as `put`), `pop`, `pop_lru`, `len`.  The capacity is a `NonZeroUsize`: the mirror stores `cap - 1` (`capPred`), so
`len == cap` implies a non-empty list and `(*self.tail).prev` is a real node.  Trusted: the crate's internal agreement
between its hash map and its list (the `unwrap` in `replace_or_create_node` / `remove_last`).
-/
namespace Nomt.Cache

/-- `usize::MAX` on the 64-bit targets nomt supports -/
def usizeMax : Nat := 2 ^ 64 - 1

structure Lru (K V : Type) where
  /-- most recently used first -/
  items : List (K × V)
  /-- `cap.get() - 1` -/
  capPred : Nat
deriving Repr

namespace Lru
variable {K V : Type} [DecidableEq K]

/-- `LruCache::unbounded()` / `unbounded_with_hasher`: `cap = NonZeroUsize::MAX` -/
def unbounded : Lru K V := ⟨[], usizeMax - 1⟩
/-- `LruCache::new(cap)` for `cap = c + 1` -/
def withCapPred (c : Nat) : Lru K V := ⟨[], c⟩

def cap (c : Lru K V) : Nat := c.capPred + 1
/-- `len()` -/
def len (c : Lru K V) : Nat := c.items.length

/-- the value stored for `k` (`peek`: no promotion) -/
def find? (l : List (K × V)) (k : K) : Option V :=
  match l with
  | [] => none
  | (k', v) :: t => if k' = k then some v else find? t k

/-- unlink the node of `k` (`detach`) -/
def erase (l : List (K × V)) (k : K) : List (K × V) := l.filter (fun e => !decide (e.1 = k))

def peek (c : Lru K V) (k : K) : Option V := find? c.items k

/-- `get`: a hit detaches the node and attaches it at the head -/
def get (c : Lru K V) (k : K) : Option V × Lru K V :=
  match find? c.items k with
  | some v => (some v, { c with items := (k, v) :: erase c.items k })
  | none => (none, c)

/-- `replace_or_create_node` followed by `attach` for a key that is NOT resident -/
def pushNew (c : Lru K V) (k : K) (v : V) : Lru K V :=
  if c.len = c.cap then { c with items := (k, v) :: c.items.dropLast }
  else { c with items := (k, v) :: c.items }

/-- `put` (`capturing_put(k, v, false)`); the returned old value is not used by nomt -/
def put (c : Lru K V) (k : K) (v : V) : Lru K V :=
  match find? c.items k with
  | some _ => { c with items := (k, v) :: erase c.items k }
  | none => pushNew c k v

/-- `get_or_insert(k, f)`: the reference returned and the cache -/
def getOrInsert (c : Lru K V) (k : K) (v : V) : V × Lru K V :=
  match find? c.items k with
  | some old => (old, { c with items := (k, old) :: erase c.items k })
  | none => (v, pushNew c k v)

/-- `pop(k)` -/
def pop (c : Lru K V) (k : K) : Lru K V := { c with items := erase c.items k }

/-- `pop_lru()` -/
def popLru (c : Lru K V) : Lru K V := { c with items := c.items.dropLast }

/-- `while self.cached.len() > limit { let _ = self.cached.pop_lru(); }` with fuel -/
def evictLoop (fuel : Nat) (c : Lru K V) (limit : Nat) : Lru K V :=
  match fuel with
  | 0 => c
  | fuel + 1 => if c.len > limit then evictLoop fuel (popLru c) limit else c

/-- the loop with enough fuel (`evictLoop_fuel`: more fuel changes nothing) -/
def evict (c : Lru K V) (limit : Nat) : Lru K V := evictLoop c.len c limit

def keys (c : Lru K V) : List K := c.items.map (·.1)

end Lru
end Nomt.Cache
