import NomtModel.Store.GenFnCheck
import NomtModel.Store.BranchUpdModel

/-!
# The translated Rust METHODS equal the hand-written mirrors

Second part of `GenFnCheck.lean`: methods (`&self` / `&mut self`; the fields of `self` the body touches are parameters of the
translated definition, a `&mut self` method returns the new values of the fields it assigns), `Option` results, calls through the
translated callees.  Each theorem is for ALL arguments of the stated domain.
-/

namespace Nomt.GenFnCheck
open Nomt
set_option maxRecDepth 8192

/-- follow every control path, also through the `match`es on translated callees (rewritten beforehand), compare by `omega` -/
macro "paths'" : tactic =>
  `(tactic| (try dsimp only) <;> (repeat' split) <;>
      (try simp only [decide_eq_true_eq, decide_not, Bool.not_eq_true', decide_eq_false_iff_not, ne_eq, Classical.not_not,
        Bool.or_eq_true, Bool.and_eq_true, Option.some.injEq, reduceCtorEq, beq_iff_eq, Bool.decide_eq_true] at *) <;>
      (first | rfl | omega | (congr 1; omega) | (exfalso; omega) | (simp_all; done) | (simp_all; omega)))

/-! ## `TriePosition` / `ChildNodeIndices` / `ChildPageIndex` (`core/src/trie_pos.rs`, `core/src/page_id.rs`) -/

theorem tp_is_root_eq (p : TriePos.Pos) : GenFn.tp_is_root p.depth = some p.isRoot := by
  unfold GenFn.tp_is_root TriePos.Pos.isRoot
  congr 1
  all_goals (by_cases h : p.depth = 0 <;> simp [h])

theorem tp_depth_in_page_eq (p : TriePos.Pos) (h : p.depth < 2 ^ 16) :
    GenFn.tp_depth_in_page p.depth = some p.depthInPage := by
  have : p.depth < 65536 := by simpa using h
  unfold GenFn.tp_depth_in_page TriePos.Pos.depthInPage
  paths'

theorem tp_child_node_indices_eq (p : TriePos.Pos) (h : p.depth < 2 ^ 16) (hi : p.nodeIndex < 2 ^ 62) :
    GenFn.tp_child_node_indices p.depth p.nodeIndex = p.childNodeIndices := by
  have : p.nodeIndex < 4611686018427387904 := by simpa using hi
  unfold GenFn.tp_child_node_indices TriePos.Pos.childNodeIndices
  rw [tp_depth_in_page_eq p h]
  generalize p.depthInPage = d
  dsimp only
  by_cases h0 : d = 0
  · simp [h0]
  · by_cases h5 : d > 5
    · simp [h0, h5]
    · simp [h0, h5]
      omega

theorem and_not_one (n : Nat) (h : n < 2 ^ 64) : n &&& (2 ^ 64 - 1 - 1) = (n / 2) <<< 1 := by
  apply Nat.eq_of_testBit_eq
  intro i
  have h2 : (2 ^ 64 - 1 - 1 : Nat) = 2 ^ 64 - (1 + 1) := by decide
  rw [Nat.testBit_and, h2, Nat.testBit_two_pow_sub_succ (by decide), Nat.testBit_shiftLeft]
  cases i with
  | zero => simp
  | succ i =>
    have h1 : (1 : Nat).testBit (i + 1) = false := by rw [Nat.testBit_succ]; simp
    rw [h1, Nat.testBit_succ]
    by_cases hlt : i + 1 < 64
    · simp [hlt]
    · have hb : n / 2 < 2 ^ i := by
        have : (2 : Nat) ^ 63 ≤ 2 ^ i := Nat.pow_le_pow_right (by decide) (by omega)
        omega
      simp [hlt, Nat.testBit_lt_two_pow hb]

theorem tp_is_first_layer_eq (p : TriePos.Pos) (hi : p.nodeIndex < 2 ^ 64) :
    GenFn.tp_is_first_layer_in_page p.nodeIndex = some p.isFirstLayerInPage := by
  unfold GenFn.tp_is_first_layer_in_page TriePos.Pos.isFirstLayerInPage
  congr 1
  have e : (18446744073709551615 - 1 : Nat) = 2 ^ 64 - 1 - 1 := by decide
  rw [e, and_not_one _ hi, Nat.shiftLeft_eq]
  by_cases h0 : p.nodeIndex / 2 = 0 <;> simp [h0, Nat.mul_eq_zero]

theorem tp_sibling_index_eq (p : TriePos.Pos) (hi : p.nodeIndex < 2 ^ 63) :
    GenFn.tp_sibling_index p.nodeIndex = some p.siblingIndex := by
  unfold GenFn.tp_sibling_index TriePos.Pos.siblingIndex
  rw [sibling_index_eq_mirror _ hi]

theorem cni_eq (l : Nat) (h : l < 2 ^ 63) :
    GenFn.cni_left l = some (TriePos.cniLeft l) ∧ GenFn.cni_right l = some (TriePos.cniRight l) ∧
    GenFn.cni_in_next_page l = some (TriePos.cniInNextPage l) := by
  have : l < 9223372036854775808 := by simpa using h
  unfold GenFn.cni_left GenFn.cni_right GenFn.cni_in_next_page TriePos.cniLeft TriePos.cniRight TriePos.cniInNextPage
  refine ⟨rfl, by paths', ?_⟩
  congr 1
  all_goals (by_cases h0 : l = 0 <;> simp [h0])

/-- `ChildPageIndex::new`: outer `some` (never panics), inner = the mirror's `Option` -/
theorem child_page_index_new_eq (i : Nat) : GenFn.child_page_index_new i = some (TriePos.cpiNew i) := by
  unfold GenFn.child_page_index_new TriePos.cpiNew TriePos.MAX_CHILD_INDEX
  paths'

theorem tp_child_page_index_eq (p : TriePos.Pos) : GenFn.tp_child_page_index p.nodeIndex = p.childPageIndex := by
  unfold GenFn.tp_child_page_index TriePos.Pos.childPageIndex
  rw [bottom_node_index_eq]
  by_cases h : p.nodeIndex < 62
  · rw [if_neg (by simp; omega), if_pos h]
  · rw [if_pos (by simp; omega), if_neg h]
    cases hb : TriePos.bottomNodeIndex p.nodeIndex with
    | none => rfl
    | some b =>
      simp only [child_page_index_new_eq, Option.bind]
      cases TriePos.cpiNew b <;> rfl

theorem tp_sibling_child_page_index_eq (p : TriePos.Pos) (hi : p.nodeIndex < 2 ^ 63) :
    GenFn.tp_sibling_child_page_index p.nodeIndex = p.siblingChildPageIndex := by
  unfold GenFn.tp_sibling_child_page_index TriePos.Pos.siblingChildPageIndex
  rw [sibling_index_eq_mirror _ hi]
  simp only [bottom_node_index_eq]
  cases hb : TriePos.bottomNodeIndex (TriePos.siblingIndexOf p.nodeIndex) with
  | none => rfl
  | some b =>
    simp only [child_page_index_new_eq, Option.bind]
    cases TriePos.cpiNew b <;> rfl

/-! ## hash-table file offsets and the meta map (`bitbox/ht_file.rs`, `bitbox/meta_map.rs`) -/

/-- `HTOffsets::data_page_index` / `meta_bytes_index`: bucket pages follow the meta-byte pages -/
theorem ht_offsets_eq (off ix : Nat) (h : off + ix < 2 ^ 64) :
    GenFn.ht_data_page_index off ix = some (off + ix) ∧ GenFn.ht_meta_bytes_index ix = some ix := by
  have : off + ix < 18446744073709551616 := by simpa using h
  unfold GenFn.ht_data_page_index GenFn.ht_meta_bytes_index
  exact ⟨by paths', rfl⟩

theorem meta_len_eq (n : Nat) : GenFn.meta_len n = some n := rfl

theorem meta_page_index_eq (b : Nat) : GenFn.meta_page_index b = some (b / 4096) := by
  unfold GenFn.meta_page_index
  paths'

/-- the three hints as functions of the meta byte (`none` = the index is out of the bounds of `bitvec`) -/
theorem meta_hints_eq (bv : List Nat) (b hash : Nat) :
    GenFn.meta_hint_empty bv b = (bv[b]?).map (fun m => decide (m = 0)) ∧
    GenFn.meta_hint_tombstone bv b = (bv[b]?).map (fun m => decide (m = 127)) ∧
    GenFn.meta_hint_not_match bv b hash = (bv[b]?).map (fun m => decide (m ≠ (Wal.fullEntry hash).toNat)) := by
  unfold GenFn.meta_hint_empty GenFn.meta_hint_tombstone GenFn.meta_hint_not_match
  simp only [full_entry_eq]
  cases bv[b]? <;> simp <;> omega

theorem meta_set_eq (bv : List Nat) (b hash : Nat) :
    GenFn.meta_set_full bv b hash = (if b < bv.length then some (bv.set b (Wal.fullEntry hash).toNat) else none) ∧
    GenFn.meta_set_tombstone bv b = (if b < bv.length then some (bv.set b 127) else none) := by
  unfold GenFn.meta_set_full GenFn.meta_set_tombstone
  refine ⟨?_, ?_⟩ <;> first | rfl | (simp only [full_entry_eq]; try rfl)

/-! ## the gauges of the leaf and branch updaters -/

theorem leaf_gauge_eq (g : LeafUpd.Gauge) (n vs : Nat) (hn : g.n < 2 ^ 31) (hs : g.sum < 2 ^ 31) (h1 : n < 2 ^ 31) (h2 : vs < 2 ^ 31) :
    GenFn.leaf_gauge_ingest g.n g.sum n vs = some ((g.ingest n vs).n, (g.ingest n vs).sum) ∧
    GenFn.leaf_gauge_body_size_after g.n g.sum n vs = some (g.bodyAfter n vs) ∧
    GenFn.leaf_gauge_body_size g.n g.sum = some g.body := by
  have : g.n < 2147483648 := by simpa using hn
  have : g.sum < 2147483648 := by simpa using hs
  have : n < 2147483648 := by simpa using h1
  have : vs < 2147483648 := by simpa using h2
  refine ⟨?_, ?_, ?_⟩
  · unfold GenFn.leaf_gauge_ingest LeafUpd.Gauge.ingest
    paths'
  · unfold GenFn.leaf_gauge_body_size_after LeafUpd.Gauge.bodyAfter
    rw [if_pos (by omega), if_pos (by omega), leaf_body_size_eq (g.n + n) (g.sum + vs) (by simp; omega) (by simp; omega)]
  · unfold GenFn.leaf_gauge_body_size LeafUpd.Gauge.body
    rw [leaf_body_size_eq g.n g.sum (by simp; omega) (by simp; omega)]

theorem uncompressed_range_eq (pl comp n fl : Nat) (h1 : pl < 2 ^ 31) (h2 : comp < 2 ^ 62) (h3 : n < 2 ^ 31) :
    GenFn.uncompressed_separator_range_size pl comp n fl = BranchUpd.uncompressedRange pl comp n fl := by
  have : pl < 2147483648 := by simpa using h1
  have : comp < 4611686018427387904 := by simpa using h2
  have : n < 2147483648 := by simpa using h3
  have hm : pl * n ≤ 2147483648 * 2147483648 := Nat.mul_le_mul (by omega) (by omega)
  unfold GenFn.uncompressed_separator_range_size BranchUpd.uncompressedRange
  try rw [Nat.mul_comm n pl]
  generalize pl * n = m at *
  paths'

theorem compressed_range_eq (fl pc sum pl : Nat) (h1 : fl < 2 ^ 31) (h2 : pc < 2 ^ 31) (h3 : sum < 2 ^ 62) (h4 : pl < 2 ^ 31) :
    GenFn.compressed_separator_range_size fl pc sum pl = BranchUpd.compressedRange fl pc sum pl := by
  have : fl < 2147483648 := by simpa using h1
  have : pc < 2147483648 := by simpa using h2
  have : sum < 4611686018427387904 := by simpa using h3
  have : pl < 2147483648 := by simpa using h4
  have hm : (pc - 1) * pl ≤ 2147483648 * 2147483648 := Nat.mul_le_mul (by omega) (by omega)
  unfold GenFn.compressed_separator_range_size BranchUpd.compressedRange
  try simp only [Nat.mul_comm pl (pc - 1)]
  generalize (pc - 1) * pl = m at *
  paths'

/-- the gauge of the branch updater is well inside `usize` -/
def GaugeSmall (g : BranchUpd.Gauge) : Prop :=
  g.pl < 2 ^ 31 ∧ g.sum < 2 ^ 62 ∧ g.n < 2 ^ 31 ∧ (∀ k fl, g.first = some (k, fl) → fl < 2 ^ 31) ∧ (∀ c, g.pc = some c → c < 2 ^ 31)

theorem branch_gauge_stop_eq (g : BranchUpd.Gauge) :
    GenFn.branch_gauge_stop_prefix_compression g.pc g.n = (g.stop).map (·.pc) := by
  unfold GenFn.branch_gauge_stop_prefix_compression BranchUpd.Gauge.stop
  cases g.pc <;> simp

theorem branch_gauge_pc_items_eq (g : BranchUpd.Gauge) :
    GenFn.branch_gauge_prefix_compressed_items g.pc g.n = some g.pcItems := rfl

theorem branch_gauge_body_size_eq (g : BranchUpd.Gauge) (h : GaugeSmall g) :
    GenFn.branch_gauge_body_size g.first g.pl g.sum g.pc g.n = g.body := by
  obtain ⟨h1, h2, h3, h4, h5⟩ := h
  unfold GenFn.branch_gauge_body_size GenFn.branch_gauge_total_separator_lengths BranchUpd.Gauge.body
  cases hf : g.first with
  | none =>
    simp only []
    have : g.pl < 2147483648 := by simpa using h1
    have : g.n < 2147483648 := by simpa using h3
    rw [branch_body_size_eq g.pl 0 g.n (by simp; omega) (by simp; omega) (by decide)]
    unfold BranchUpd.bodySize
    dsimp only
    congr 1; omega
  | some kf =>
    obtain ⟨k, fl⟩ := kf
    have hfl := h4 k fl hf
    have hpc : g.pc.getD g.n < 2 ^ 31 := by
      cases hc : g.pc with
      | none => simpa using h3
      | some c => simpa using h5 c hc
    simp only []
    rw [compressed_range_eq _ _ _ _ hfl hpc h2 h1]
    cases hcr : BranchUpd.compressedRange fl (g.pc.getD g.n) g.sum g.pl with
    | none => rfl
    | some t =>
      have ht : t < 2 ^ 32 ∨ True := Or.inr trivial
      simp only [Option.map]
      have hts : t ≤ (fl - g.pl) + g.sum := by
        unfold BranchUpd.compressedRange at hcr
        split at hcr
        · cases hcr
        · split at hcr
          · cases hcr
          · injection hcr with e; omega
      unfold GenFn.branch_body_size BranchUpd.bodySize
      have : g.pl < 2147483648 := by simpa using h1
      have : g.sum < 4611686018427387904 := by simpa using h2
      have : g.n < 2147483648 := by simpa using h3
      have : fl < 2147483648 := by simpa using hfl
      guards
      all_goals same

/-! ## record ids and page numbers (`seglog/mod.rs`, `beatree/allocator/mod.rs`) -/

/-- `RecordId::next` / `prev` / `is_nil` and `PageNumber::is_nil`: ids count from 1, `0` is nil and has no predecessor -/
theorem record_id_eq (r : Nat) (h : r < 2 ^ 64 - 1) :
    GenFn.record_id_next r = some (r + 1) ∧
    GenFn.record_id_prev r = some (if r = 0 then none else some (r - 1)) ∧
    GenFn.record_id_is_nil r = some (decide (r = 0)) ∧ GenFn.page_number_is_nil r = some (decide (r = 0)) := by
  have : r < 18446744073709551615 := by simpa using h
  unfold GenFn.record_id_next GenFn.record_id_prev GenFn.record_id_is_nil GenFn.page_number_is_nil
  refine ⟨by paths', ?_, rfl, rfl⟩
  by_cases h0 : r = 0
  · subst h0; rfl
  · have h1 : 0 < r := by omega
    have h2 : 1 ≤ r := h1
    simp [h0, h1, h2]

end Nomt.GenFnCheck
