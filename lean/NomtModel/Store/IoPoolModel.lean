/-!
# The I/O pool (`nomt/src/io/{mod,linux,unix}.rs`) — mirror

* `getResult` = `IoKind::get_result` (the verdict `Ok` / `Err` / `Retry` as a function of the kind of the command, the syscall
  result and the `errno` of the calling thread — read ONLY in the `res == -1` arm);
* `executeLoop` = the loop of `unix.rs::execute` (`pread` / `pwrite` answered by `k : Nat → Int × Nat`, the i-th syscall's
  `(return value, errno)`); `bounded = false` is the loop before the F24 repair (no `MAX_IO_ATTEMPTS`);
* `St` / `wstep` / `envStep` = `linux.rs::run_worker` as a transition system: the worker thread's locals (`pending` slab,
  `retries`, `shutdown`, `to_submit`, the position in the loop `pc`), the ring (`sq` pushed and not submitted, `inflight`,
  `cq` completed and not yet synced, `visible` = what `complete_queue.next()` still yields in this phase), the command channel
  (`chan`, `closed` = the pool dropped the only strong sender) and the completion channels (`delivered`, every
  `completion_sender.send` with the packet, which names its handle).  One `Act.worker` = one step of the worker between two
  calls into the ring / the channel; the other actions are the environment: a handle sends, the pool shuts down, the kernel
  completes an in-flight entry with ANY result (and the thread has ANY `errno` when that entry is classified: io_uring does not
  set `errno`, `get_result` reads it nevertheless), a spurious completion (`Act.spurious`, excluded in the theorems).
* `Slab` = the `slab` crate by its documented behaviour: vacant keys are reused most-recently-freed first, else `entries.len()`.

Ghost state (no influence on any transition): `Packet.id` (sequence number of the send), `Packet.hist` (the `(result, errno)`
of every completed attempt of THIS packet), `Packet.pushes` (submission entries pushed for it), `St.sent` (handle and kind of the
i-th send).
-/
namespace Nomt.IoPool

def PAGE_SIZE : Int := 4096
def MAX_IO_ATTEMPTS : Nat := 16
def MAX_IN_FLIGHT : Nat := 1024
def RING_CAPACITY : Nat := 1024
def EINTR : Nat := 4

/-- `IoKindResult` -/
inductive Verdict | ok | err | retry
deriving DecidableEq, Repr

/-- `IoKind::get_result(res)`; `errno` = `last_os_error()` of the calling thread, consulted in the `res == -1` arm only
(`ErrorKind::Interrupted` ⇔ `EINTR`). -/
def getResult (isRead : Bool) (res : Int) (errno : Nat) : Verdict :=
  if isRead = true ∧ res = 0 then .ok
  else if res = PAGE_SIZE then .ok
  else if res = -1 then (if errno = EINTR then .retry else .err)
  else .retry

/-- `linux.rs`: `let syscall_result = if io_uring_res >= 0 { io_uring_res } else { -1 }` -/
def sysOf (res : Int) : Int := if res ≥ 0 then res else -1

/-- `std::io::Result<()>` of a `CompleteIo`: `Ok`, `Err(from_raw_os_error(e))`, `Err(short_io_error())` -/
inductive IoRes | ok | os (errno : Nat) | short
deriving DecidableEq, Repr

/-! ## `unix.rs::execute` -/

/-- The loop of `execute`: `attempts` retries so far (= syscalls so far); returns the result and the number of syscalls made;
`none` = out of fuel.  `bounded = false`: the loop as it was before the repair of F24. -/
def executeLoop (bounded : Bool) (isRead : Bool) (k : Nat → Int × Nat) : (fuel attempts : Nat) → Option (IoRes × Nat)
  | 0, _ => none
  | fuel + 1, attempts =>
    match getResult isRead (k attempts).1 (k attempts).2 with
    | .ok => some (.ok, attempts + 1)
    | .err => some (.os (k attempts).2, attempts + 1)
    | .retry =>
      if bounded = true ∧ attempts + 1 ≥ MAX_IO_ATTEMPTS then some (.short, attempts + 1)
      else executeLoop bounded isRead k fuel (attempts + 1)

/-- `execute(command)` (current source) -/
def execute (isRead : Bool) (k : Nat → Int × Nat) : Option (IoRes × Nat) :=
  executeLoop true isRead k MAX_IO_ATTEMPTS 0

/-! ## `linux.rs::run_worker` -/

structure Packet where
  /-- ghost: sequence number of the `send` -/
  id : Nat
  /-- the handle whose `completion_sender` travels with the packet -/
  handle : Nat
  isRead : Bool
  /-- ghost: `(io_uring result, errno of the thread at classification)` of every completed attempt -/
  hist : List (Int × Nat) := []
  /-- ghost: submission entries pushed for this packet -/
  pushes : Nat := 0
deriving DecidableEq, Repr

structure PendingIo where
  packet : Packet
  attempts : Nat
deriving DecidableEq, Repr

structure Slab where
  /-- occupied keys with their values -/
  occ : List (Nat × PendingIo) := []
  /-- vacant keys below `hi`, most recently freed first -/
  free : List Nat := []
  /-- `entries.len()` -/
  hi : Nat := 0
deriving Repr

def Slab.len (s : Slab) : Nat := s.occ.length

/-- `Slab::insert`: the key it returns -/
def Slab.insert (s : Slab) (p : PendingIo) : Slab × Nat :=
  match s.free with
  | [] => ({ s with occ := (s.hi, p) :: s.occ, hi := s.hi + 1 }, s.hi)
  | key :: f => ({ s with occ := (key, p) :: s.occ, free := f }, key)

/-- the value under `key` and the rest -/
def takeKey (key : Nat) : List (Nat × PendingIo) → Option (PendingIo × List (Nat × PendingIo))
  | [] => none
  | (k, p) :: l =>
    if k = key then some (p, l)
    else match takeKey key l with
      | none => none
      | some (q, l') => some (q, (k, p) :: l')

/-- `get(key).is_none()` → `none`; else `remove(key)` -/
def Slab.remove (s : Slab) (key : Nat) : Option (PendingIo × Slab) :=
  match takeKey key s.occ with
  | none => none
  | some (p, l) => some (p, { s with occ := l, free := key :: s.free })

abbrev Cqe := Nat × Int × Nat

inductive Pc | top | reap | accept | submit | exited | panicked
deriving DecidableEq, Repr

inductive SubmitRes | ok | eintr | err
deriving DecidableEq, Repr

structure St where
  /-- `false`: the worker before the F24 repair (a `Retry` is always re-queued) -/
  bounded : Bool := true
  sqCap : Nat := RING_CAPACITY
  pending : Slab := {}
  retries : List (Packet × Nat) := []
  shutdown : Bool := false
  toSubmit : Bool := false
  visible : List Cqe := []
  pc : Pc := .top
  sq : List Nat := []
  inflight : List Nat := []
  cq : List Cqe := []
  chan : List Packet := []
  closed : Bool := false
  nextId : Nat := 0
  delivered : List (Packet × IoRes) := []
  /-- ghost: handle and kind of the i-th send -/
  sent : List (Nat × Bool) := []
deriving Repr

/-- `pending.insert(..)`, `submission_entry(..).user_data(key)`, `submit_queue.push` -/
def insertPush (s : St) (p : Packet) (attempts : Nat) : St :=
  let r := s.pending.insert ⟨{ p with pushes := p.pushes + 1 }, attempts⟩
  { s with pending := r.1, sq := s.sq ++ [r.2], toSubmit := true }

/-- the body of `while let Some(completion_event) = complete_queue.next()` for one entry -/
def reapOne (s : St) (key : Nat) (res : Int) (errno : Nat) : St :=
  match s.pending.remove key with
  | none => s   -- `continue`
  | some (pio, slab) =>
    let p : Packet := { pio.packet with hist := pio.packet.hist ++ [(res, errno)] }
    let s0 := s
    let s := { s with pending := slab }
    match getResult p.isRead (sysOf res) errno with
    | .ok => { s with delivered := s.delivered ++ [(p, .ok)] }
    | .err =>
      -- `io_uring_res.abs()` overflows for `i32::MIN` (overflow checks on): the thread dies, what the slab held is stranded
      if res = -2147483648 then { s0 with pc := .panicked }
      else { s with delivered := s.delivered ++ [(p, .os res.natAbs)] }
    | .retry =>
      if s.bounded = false ∨ pio.attempts + 1 < MAX_IO_ATTEMPTS then
        { s with retries := s.retries ++ [(p, pio.attempts + 1)] }
      else { s with delivered := s.delivered ++ [(p, .short)] }

/-- One step of the worker thread. `sr`: what `submit_and_wait` returns (used at `pc = submit` only).
A step that changes nothing = the thread is blocked (`command_rx.recv()` on an empty open channel, `submit_and_wait(1)` with no
completion). -/
def wstep (s : St) (sr : SubmitRes) : St :=
  match s.pc with
  | .top =>
    if s.pending.len ≠ 0 then
      -- `complete_queue.sync()`
      { s with visible := s.cq, cq := [], pc := .reap }
    else if s.shutdown then { s with pc := .exited }
    else { s with toSubmit := false, pc := .accept }
  | .reap =>
    match s.visible with
    | [] => { s with toSubmit := false, pc := .accept }
    | (key, res, errno) :: v => reapOne { s with visible := v } key res errno
  | .accept =>
    if s.pending.len < MAX_IN_FLIGHT ∧ s.sq.length < s.sqCap then
      match s.retries with
      | (p, a) :: r => insertPush { s with retries := r } p a
      | [] =>
        if s.pending.len = 0 then
          -- `command_rx.recv()`
          match s.chan with
          | p :: c => insertPush { s with chan := c } p 0
          | [] => if s.closed then { s with shutdown := true, pc := .submit } else s
        else
          -- `command_rx.try_recv()`
          match s.chan with
          | p :: c => insertPush { s with chan := c } p 0
          | [] => if s.closed then { s with shutdown := true, pc := .submit } else { s with pc := .submit }
    else { s with pc := .submit }
  | .submit =>
    match sr with
    | .err => { s with pc := .panicked }
    | .eintr => s
    | .ok =>
      let s := { s with inflight := s.inflight ++ s.sq, sq := [] }
      -- `wait = 1` when the slab is full: the call returns only when a completion is there
      if s.pending.len = MAX_IN_FLIGHT ∧ s.cq = [] then s else { s with pc := .top }
  | .exited => s
  | .panicked => s

inductive Act
  /-- `IoHandle::send` of a handle (`Err(SendError)` once the pool dropped its sender) -/
  | send (handle : Nat) (isRead : Bool)
  /-- `IoPool::shutdown`: the only strong sender is dropped -/
  | close
  /-- the kernel completes the in-flight entry `key` with `res`; `errno` = the thread's when the entry is classified -/
  | complete (key : Nat) (res : Int) (errno : Nat)
  /-- a completion out of nowhere (never produced by a kernel; the worker's `continue` arm) -/
  | spurious (key : Nat) (res : Int) (errno : Nat)
  | worker (sr : SubmitRes)
deriving Repr

def step (s : St) : Act → St
  | .send h r =>
    if s.closed then s
    else { s with chan := s.chan ++ [{ id := s.nextId, handle := h, isRead := r }], nextId := s.nextId + 1,
                  sent := s.sent ++ [(h, r)] }
  | .close => { s with closed := true }
  | .complete key res errno =>
    if key ∈ s.inflight then { s with inflight := s.inflight.erase key, cq := s.cq ++ [(key, res, errno)] } else s
  | .spurious key res errno => { s with cq := s.cq ++ [(key, res, errno)] }
  | .worker sr => wstep s sr

def run (s : St) (acts : List Act) : St := acts.foldl step s

def Act.isSpurious : Act → Bool
  | .spurious .. => true
  | _ => false

end Nomt.IoPool
