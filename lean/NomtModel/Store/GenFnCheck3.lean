import NomtModel.Store.GenFnCheck2
import NomtModel.Store.PageDiffOnes
import NomtModel.Store.ProbeModel
import NomtModel.Store.FreeListNthPop

/-!
# The translated Rust methods with arrays, slices, an iterator step and a `loop`

`PageDiff` (two `u64` words), `FastIterOnes::next`, `CleanFreeList::get_nth_pop` (a `Vec` of `(PageNumber, Vec<PageNumber>)`),
`ProbeSequence::next` (a `loop`: translated as recursion on explicit fuel — the theorem is an equality with the mirror for
EVERY fuel, and the mirror's `next_spec` shows that fuel `> 2n + 1 - step` is never the answer).
-/

namespace Nomt.GenFnCheck
open Nomt
set_option maxRecDepth 8192

/-- a mirrored result with its panic sites as a value, seen as the translator's `Option` (`none` = panic) -/
def outOpt {ε α : Type} : Outcome ε α → Option α
  | .ok a => some a
  | _ => none

theorem one_shl_mod (i : Nat) (h : i < 64) : (1 <<< i) % 18446744073709551616 = 2 ^ i := by
  rw [Nat.shiftLeft_eq, Nat.one_mul]
  exact Nat.mod_eq_of_lt (by have := Nat.pow_lt_pow_right (a := 2) (by decide) h; simpa using this)

theorem dec_beq (a b : Nat) : decide (a = b) = (a == b) := by by_cases h : a = b <;> simp [h]
theorem dec_beq' (a b : Nat) : decide (a = b) = (b == a) := by
  by_cases h : a = b
  · simp [h]
  · have : ¬ b = a := fun e => h e.symm
    simp [h, this]

/-! ## `PageDiff` (`nomt/src/page_diff.rs`) -/

open Wal in
theorem pd_changed_eq (d : PageDiff) (slot : Nat) :
    GenFn.pd_changed d.w0 d.w1 slot = outOpt (d.changedM slot) := by
  unfold GenFn.pd_changed PageDiff.changedM
  have hi : slot % 64 < 64 := Nat.mod_lt _ (by decide)
  simp only [if_pos (show (64 : Nat) ≠ 0 by decide), if_pos hi, one_shl_mod _ hi]
  by_cases h0 : slot / 64 = 0
  · simp [h0, PageDiff.word, outOpt, dec_beq, dec_beq']
  · by_cases h1 : slot / 64 = 1
    · simp [h1, PageDiff.word, outOpt, dec_beq, dec_beq']
    · have h2 : ¬ slot / 64 < 2 := by omega
      rw [if_neg h2]
      have : d.word (slot / 64) = none := by
        unfold PageDiff.word
        split <;> first | omega | rfl
      rw [this]; rfl

open Wal in
theorem pd_set_changed_eq (d : PageDiff) (slot : Nat) :
    GenFn.pd_set_changed d.w0 d.w1 slot = (outOpt (d.setChanged slot)).map (fun d' => (d'.w0, d'.w1)) := by
  unfold GenFn.pd_set_changed PageDiff.setChanged
  have hi : slot % 64 < 64 := Nat.mod_lt _ (by decide)
  have e1 : (18446744073709551615 - 9223372036854775808 : Nat) = U64_MAX - CLEAR_BIT := by decide
  by_cases hs : slot < 126
  · have hw : slot / 64 < 2 := by omega
    simp only [decide_eq_true_eq, if_pos hs, if_pos (show (64 : Nat) ≠ 0 by decide), if_pos hi, one_shl_mod _ hi, if_pos hw,
      NODES_PER_PAGE, not_true_eq_false, if_false, e1]
    have hs' : ¬ 126 ≤ slot := by omega
    by_cases h0 : slot / 64 = 0
    · simp [h0, outOpt, hs']
    · have h1 : slot / 64 = 1 := by omega
      simp [h1, outOpt, hs']
  · simp [hs, NODES_PER_PAGE, outOpt]

open Wal in
theorem pd_cleared_eq (d : PageDiff) :
    GenFn.pd_set_cleared d.w0 d.w1 = some ((d.setCleared).w0, (d.setCleared).w1) ∧ GenFn.pd_cleared d.w0 d.w1 = some d.cleared ∧
    GenFn.pd_assert_not_cleared d.w0 d.w1 = (if d.w1 &&& CLEAR_BIT = 0 then some () else none) := by
  have e : (9223372036854775808 : Nat) = CLEAR_BIT := by decide
  have e2 : ((1 <<< 63) % 18446744073709551616 : Nat) = CLEAR_BIT := by decide
  unfold GenFn.pd_set_cleared GenFn.pd_cleared GenFn.pd_assert_not_cleared PageDiff.setCleared PageDiff.cleared
  refine ⟨by rw [e], ?_, ?_⟩
  · rw [e]; congr 1
    all_goals first | exact dec_beq _ _ | exact dec_beq' _ _
  · rw [e2, if_pos (by decide)]
    by_cases h : d.w1 &&& CLEAR_BIT = 0 <;> simp [h]

theorem popcount_eq (n : Nat) : ∀ w, GenFn.popcount n w = ((List.range n).filter (fun i => w.testBit i)).length := by
  induction n with
  | zero => intro w; rfl
  | succ n ih =>
    intro w
    rw [GenFn.popcount, ih, List.range_succ_eq_map, List.filter_cons, List.filter_map]
    have hb : w.testBit 0 = decide (w % 2 = 1) := Nat.testBit_zero ..
    have hf : (List.filter ((fun i => w.testBit i) ∘ Nat.succ) (List.range n)) = List.filter (fun i => (w / 2).testBit i) (List.range n) := by
      congr 1; funext i; simp [Nat.testBit_succ]
    rw [hf, hb]
    by_cases h : w % 2 = 1
    · simp [h]; omega
    · have : w % 2 = 0 := by omega
      simp [this]

theorem popcount_le (n w : Nat) : GenFn.popcount n w ≤ n := by
  rw [popcount_eq]
  exact Nat.le_trans (List.length_filter_le _ _) (by simp)

open Wal in
theorem pd_count_eq (d : PageDiff) : GenFn.pd_count d.w0 d.w1 = some d.count := by
  unfold GenFn.pd_count PageDiff.count PageDiff.popCount
  have h0 := popcount_le 64 d.w0
  have h1 := popcount_le 64 d.w1
  rw [if_pos (by omega), popcount_eq, popcount_eq]

/-! ## `FastIterOnes::next` -/

theorem tzLoop_eq_ctzGo : ∀ (f i w : Nat), Wal.PageDiff.tzLoop f i w = i + GenFn.ctzGo f (w / 2 ^ i) := by
  intro f
  induction f with
  | zero => intro i w; rfl
  | succ f ih =>
    intro i w
    rw [Wal.PageDiff.tzLoop, GenFn.ctzGo, ih, Nat.testBit_eq_decide_div_mod_eq, Nat.div_div_eq_div_mul, ← Nat.pow_succ]
    by_cases h : w / 2 ^ i % 2 = 1
    · simp [h]
    · simp [h]; omega

theorem ctz_eq (w : Nat) : GenFn.ctz 64 w = Wal.PageDiff.trailingZeros w := by
  unfold GenFn.ctz Wal.PageDiff.trailingZeros
  by_cases h : w = 0
  · subst h; decide
  · rw [if_neg h, tzLoop_eq_ctzGo]; simp

/-- one step of the iterator over the set bits: `None` on an empty word, else the lowest set bit, which is erased — the step of the
mirror `fastIterOnes` -/
theorem fast_iter_ones_next_eq (w : Nat) :
    GenFn.fast_iter_ones_next w =
      some (if Wal.PageDiff.trailingZeros w = 64 then (none, w)
            else (some (Wal.PageDiff.trailingZeros w), w &&& (Wal.U64_MAX - 2 ^ Wal.PageDiff.trailingZeros w))) := by
  unfold GenFn.fast_iter_ones_next
  rw [ctz_eq]
  have hle : Wal.PageDiff.trailingZeros w ≤ 64 := by
    have := Wal.PageDiff.trailingZeros_spec w
    omega
  generalize Wal.PageDiff.trailingZeros w = x at *
  by_cases h : x = 64
  · simp [h]
  · have hx : x < 64 := by omega
    have e : (18446744073709551615 : Nat) = Wal.U64_MAX := by decide
    simp only [decide_eq_true_eq, if_neg h, if_pos hx, one_shl_mod _ hx, e]
    try rfl

/-! ## `ProbeSequence::next` (`bitbox/mod.rs`): the `loop` -/

open Store Store.Probe in
/-- the decoded form of a meta byte -/
def slotOfByte (b : Nat) : Slot := if b = 0 then .empty else if b = 127 then .tombstone else .full (b - 128)

open Store.Probe in
def prGen : PR → GenFn.ProbeResult
  | .possibleHit b => .PossibleHit b
  | .empty b => .Empty b
  | .tombstone b => .Tombstone b
  | .exhausted => .Exhausted

theorem xor_128 : ∀ t, t < 128 → t ^^^ 128 = t + 128 := by decide

open Store Store.Probe in
theorem full_entry_tag (hash : Nat) (h : hash < 2 ^ 64) : GenFn.full_entry hash = some (tagOf hash + 128) := by
  unfold GenFn.full_entry tagOf
  rw [if_pos (by decide), Nat.shiftRight_eq_div_pow]
  have h1 : hash / 2 ^ 57 < 128 := by
    have : hash < 18446744073709551616 := by simpa using h
    omega
  rw [Nat.mod_eq_of_lt (by omega), Nat.mod_eq_of_lt h1, xor_128 _ h1]

open Store Store.Probe in
/-- `ProbeSequence::next` of the CURRENT source, for EVERY fuel: the same result, the same new `bucket` / `step`, no panic — on a
table of `0 < n < 2^62` valid meta bytes (`0`, `127` or `≥ 128`), from a state with `bucket < 2^63`, `step ≤ 2n + 1` -/
theorem probe_next_eq (bv : List Nat) (hv : ∀ b ∈ bv, b = 0 ∨ b = 127 ∨ (128 ≤ b ∧ b < 256)) (hn : 0 < bv.length)
    (hlen : bv.length < 2 ^ 62) (hash : Nat) (hh : hash < 2 ^ 64) :
    ∀ (fuel bucket step : Nat), bucket < 2 ^ 63 → step ≤ 2 * bv.length + 1 →
      GenFn.probe_next fuel hash bucket step bv.length bv =
        (PS.next (bv.map slotOfByte) fuel ⟨hash, bucket, step⟩).map (fun r => some (prGen r.1, r.2.bucket, r.2.step)) := by
  have hl : bv.length < 4611686018427387904 := by simpa using hlen
  intro fuel
  unfold GenFn.probe_next
  induction fuel with
  | zero => intro b s _ _; rfl
  | succ fuel ih =>
    intro b s hb hs
    have hb' : b < 9223372036854775808 := by simpa using hb
    rw [GenFn.probe_next_loop1, PS.next]
    simp only [meta_len_eq, List.length_map]
    rw [if_pos (by omega)]
    by_cases hst : s > 2 * bv.length
    · simp [hst, prGen]
    · have hst' : ¬ (2 * bv.length < s) := hst
      simp only [decide_eq_true_eq, gt_iff_lt, hst', if_false]
      rw [if_pos (by omega), if_pos (by omega), if_pos (by omega)]
      have hlt : (b + s) % bv.length < bv.length := Nat.mod_lt _ hn
      have hget : bv[(b + s) % bv.length]? = some (bv[(b + s) % bv.length]) := List.getElem?_eq_getElem hlt
      have hval := hv _ (List.getElem_mem hlt)
      generalize hbyte : bv[(b + s) % bv.length] = byte at *
      have hslot : slotAt (bv.map slotOfByte) ((b + s) % bv.length) = slotOfByte byte := by
        unfold slotAt
        rw [List.getElem?_map, hget]; rfl
      simp only [GenFn.meta_hint_empty, GenFn.meta_hint_tombstone, GenFn.meta_hint_not_match, hget, hslot, full_entry_tag _ hh]
      rcases hval with h0 | h127 | ⟨hge, hlt256⟩
      · subst h0; simp [slotOfByte, prGen]
      · subst h127; simp [slotOfByte, prGen]
      · have n0 : byte ≠ 0 := by omega
        have n127 : byte ≠ 127 := by omega
        have n0s : ¬ 0 = byte := by omega
        have n127s : ¬ 127 = byte := by omega
        simp only [slotOfByte, n0, n127, n0s, n127s, if_false, decide_false, Bool.false_eq_true]
        by_cases htag : byte - 128 = tagOf hash
        · have : byte = tagOf hash + 128 := by omega
          simp [htag, this, prGen]
        · have t1 : byte ≠ tagOf hash + 128 := by omega
          have t2 : tagOf hash + 128 ≠ byte := by omega
          simp only [ne_eq, t1, t2, not_false_eq_true, decide_true, if_true, htag]
          exact ih _ _ (by have : (2:Nat)^63 = 9223372036854775808 := by decide
                           omega) (by omega)

open Store Store.Probe in
/-- fuel is not the answer: with more than `2n + 1 - step` units the translated `next` returns (`some`), by the mirror's `next_spec` -/
theorem probe_next_fuel (bv : List Nat) (hv : ∀ b ∈ bv, b = 0 ∨ b = 127 ∨ (128 ≤ b ∧ b < 256)) (hn : 0 < bv.length)
    (hlen : bv.length < 2 ^ 62) (hash : Nat) (hh : hash < 2 ^ 64) (fuel : Nat) (s : PS) (hok : PS.Ok hash bv.length s)
    (hb : s.bucket < 2 ^ 63) (hs : s.step ≤ 2 * bv.length + 1) (hf : 2 * bv.length + 1 - s.step < fuel) :
    ∃ r, GenFn.probe_next fuel hash s.bucket s.step bv.length bv = some (some r) := by
  have hok' : PS.Ok hash (bv.map slotOfByte).length s := by simpa using hok
  have hhash : s.hash = hash := hok.1
  have e := probe_next_eq bv hv hn hlen hash hh fuel s.bucket s.step hb hs
  have hs' : (⟨hash, s.bucket, s.step⟩ : PS) = s := by cases s; simp_all
  rw [hs'] at e
  rcases next_spec (bv.map slotOfByte) hash fuel s hok' (by simpa using hf) with ⟨s', h1, _⟩ | ⟨j, s', _, _, _, _, _, _, h7⟩
  · exact ⟨_, by rw [e, h1]; rfl⟩
  · exact ⟨_, by rw [e, h7]; rfl⟩

end Nomt.GenFnCheck
