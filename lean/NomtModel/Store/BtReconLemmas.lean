import NomtModel.Store.BtReconstruct
/-!
`reconstruct` (mirror in `Store/BtReconstruct.lean`) on a bbn file whose pages below the bump the decoder of
`Store/ImgCheck.lean` accepts (`liveBranches = .ok brs`): the index it builds holds exactly the live branch nodes,
each under its first separator.
-/
namespace Nomt.BtRecon
open Nomt Nomt.Store Nomt.BtLookup

/-! ### what an accepted branch page looks like -/

theorem decodeBranch_inv {p : ByteArray} {b : Branch} (h : decodeBranch p = .ok b) :
    u16le p 4 ≠ 0 ∧ u16le p 8 ≤ 256 ∧ (BRANCH_HEADER + 2 * u16le p 4) + 4 * u16le p 4 ≤ PAGE ∧
    (BRANCH_HEADER + 2 * u16le p 4) + (u16le p 8 + u16le p (BRANCH_HEADER + 2 * (u16le p 4 - 1)) + 7) / 8
      + 4 * u16le p 4 ≤ PAGE ∧
    b.bbnPn = u32le p 0 ∧ b.prefixLen = u16le p 8 ∧ b.prefixCompressed = u16le p 6 ∧
    (List.range (u16le p 4)).mapM (decodeBranchSep p (u16le p 4) (u16le p 6) (u16le p 8)
      (bitsNat p (BRANCH_HEADER + 2 * u16le p 4) 0 (u16le p 8))) = .ok b.seps := by
  unfold decodeBranch at h
  simp only [bind, Except.bind, pure, Except.pure, throw, throwThe, MonadExceptOf.throw] at h
  repeat' split at h
  all_goals first | cases h | skip
  rename_i h5 h4 h3 h2 h1 h0 _ v hv
  refine ⟨by simpa using h4, by omega, by omega, by omega, rfl, rfl, rfl, hv⟩

theorem decodeBranchSep_zero {p : ByteArray} {n pc pl pfx : Nat} {r : Nat × Nat}
    (h : decodeBranchSep p n pc pl pfx 0 = .ok r) :
    u16le p BRANCH_HEADER ≤ u16le p (BRANCH_HEADER + 2 * (n - 1)) ∧
    (if 0 < pc then pl + u16le p BRANCH_HEADER else u16le p BRANCH_HEADER) ≤ 256 ∧
    r.1 = (if 0 < pc then
        (pfx * 2 ^ u16le p BRANCH_HEADER + bitsNat p (BRANCH_HEADER + 2 * n) pl (u16le p BRANCH_HEADER)) *
          2 ^ (256 - (pl + u16le p BRANCH_HEADER))
      else bitsNat p (BRANCH_HEADER + 2 * n) pl (u16le p BRANCH_HEADER) * 2 ^ (256 - u16le p BRANCH_HEADER)) := by
  unfold decodeBranchSep at h
  simp only [bind, Except.bind, pure, Except.pure, throw, throwThe, MonadExceptOf.throw, beq_self_eq_true, if_true,
    Nat.mul_zero, Nat.add_zero, Nat.sub_zero] at h
  repeat' split at h
  all_goals first | cases h | skip
  all_goals (rename_i h2 h1 h0; simp_all <;> omega)

theorem mapM_range_head {f : Nat → Except String (Nat × Nat)} {n : Nat} {seps : List (Nat × Nat)} (hn : n ≠ 0)
    (h : (List.range n).mapM f = .ok seps) : ∃ r rest, seps = r :: rest ∧ f 0 = .ok r := by
  obtain ⟨m, rfl⟩ : ∃ m, n = m + 1 := ⟨n - 1, by omega⟩
  rw [List.range_succ_eq_map, List.mapM_cons] at h
  cases h0 : f 0 with
  | error e => simp [h0, bind, Except.bind] at h
  | ok r =>
    cases hr : (List.map Nat.succ (List.range m)).mapM f with
    | error e => simp [h0, hr, bind, Except.bind] at h
    | ok rest =>
      simp only [h0, hr, bind, Except.bind, pure, Except.pure] at h
      injection h with h
      exact ⟨r, rest, h.symm, rfl⟩

theorem bitsNat_zero_len (p : ByteArray) (base start : Nat) : bitsNat p base start 0 = 0 := by
  simp [bitsNat]

/-- on a page the decoder accepts, `reconstruct` files the node under its first separator — provided the first
separator is prefix-compressed (`prefix_compressed ≥ 1`, true of every node the branch stage builds:
`T16_branch_level_invariant`) or the prefix is empty -/
theorem reconKey_eq {p : ByteArray} {b : Branch} (pn : Nat) (h : decodeBranch p = .ok b)
    (hpc : 1 ≤ b.prefixCompressed ∨ b.prefixLen = 0) : reconKey p = .ok (firstSep (pn, b)) := by
  obtain ⟨hn, hpl, hfit, hbits, _, hplb, hpcb, hseps⟩ := decodeBranch_inv h
  obtain ⟨r, rest, hr, h0⟩ := mapM_range_head hn hseps
  obtain ⟨hc0, htot, hval⟩ := decodeBranchSep_zero h0
  have hfs : firstSep (pn, b) = r.1 := by simp [firstSep, hr]
  rw [hfs, hval]
  unfold reconKey
  have hP : PAGE = 4096 := rfl
  have hB : BRANCH_HEADER = 10 := rfl
  rw [hplb, hpcb] at hpc
  have e1 : ¬ BRANCH_HEADER + 2 * u16le p 4 > PAGE := by omega
  have e2 : ¬ u16le p 8 > (PAGE - (BRANCH_HEADER + 2 * u16le p 4)) * 8 := by omega
  have e3 : ¬ u16le p 8 + u16le p BRANCH_HEADER > (PAGE - (BRANCH_HEADER + 2 * u16le p 4)) * 8 := by omega
  have e4 : ¬ u16le p 8 > 256 := by omega
  rcases hpc with hpc | hpc
  · have hpos : 0 < u16le p 6 := by omega
    simp only [hpos, if_true] at htot hval ⊢
    have e5 : ¬ u16le p 8 + u16le p BRANCH_HEADER > 256 := by omega
    simp only [e1, e2, e3, e4, e5, if_false]
  · by_cases hpos : 0 < u16le p 6
    · simp only [hpos, if_true] at htot hval ⊢
      have e5 : ¬ u16le p 8 + u16le p BRANCH_HEADER > 256 := by omega
      simp only [e1, e2, e3, e4, e5, if_false]
    · simp only [hpos, if_false] at htot hval ⊢
      have e5 : ¬ u16le p 8 + u16le p BRANCH_HEADER > 256 := by omega
      simp only [e1, e2, e3, e4, e5, if_false]
      rw [hpc, bitsNat_zero_len]
      simp

/-! ### the classification of a page, and `liveBranches` in terms of it -/

/-- what the reconstruction rule makes of page `pn`: skipped (`none`), a live node, or an error -/
def cls (bbn : ByteArray) (marks : Array Bool) (pn : Nat) : Except String (Option (Nat × Branch)) :=
  match pageOf bbn pn with
  | none => .error "beyond"
  | some pg =>
    if allZero pg 0 PAGE then .ok none
    else if marks[pn]! then .ok none
    else match decodeBranch pg with
      | .error e => .error e
      | .ok b => if b.bbnPn != pn then .error "pn" else .ok (some (pn, b))

def live (bbn : ByteArray) (marks : Array Bool) (pn : Nat) : Option (Nat × Branch) :=
  match cls bbn marks pn with
  | .ok o => o
  | .error _ => none

/-- one step of the fold inside `liveBranches` -/
def liveStep (bbn : ByteArray) (marks : Array Bool) (pn : Nat) (acc : List (Nat × Branch)) :
    Except String (List (Nat × Branch)) :=
  match pageOf bbn pn with
  | none => throw s!"bbn: page {pn} below bump is beyond the end of the file"
  | some pg =>
    if allZero pg 0 PAGE then pure acc
    else if marks[pn]! then pure acc
    else do
      let b ← decodeBranch pg
      if b.bbnPn != pn then throw s!"bbn: page {pn} carries bbn_pn {b.bbnPn}"
      pure ((pn, b) :: acc)

theorem liveBranches_eq (bbn : ByteArray) (bump : Nat) (marks : Array Bool) :
    liveBranches bbn bump marks = (List.range bump).foldrM (liveStep bbn marks) [] := rfl

theorem liveStep_ok {bbn : ByteArray} {marks : Array Bool} {pn : Nat} {acc acc' : List (Nat × Branch)}
    (h : liveStep bbn marks pn acc = .ok acc') :
    ∃ o, cls bbn marks pn = .ok o ∧ acc' = o.toList ++ acc := by
  unfold liveStep at h
  unfold cls
  cases hp : pageOf bbn pn with
  | none => simp [hp, throw, throwThe, MonadExceptOf.throw] at h
  | some pg =>
    simp only [hp] at h ⊢
    by_cases hz : allZero pg 0 PAGE = true
    · simp only [hz, if_true, pure, Except.pure] at h ⊢
      injection h with h
      exact ⟨none, rfl, by simp [h]⟩
    · simp only [hz, if_false] at h ⊢
      by_cases hm : marks[pn]! = true
      · simp only [hm, if_true, pure, Except.pure] at h ⊢
        injection h with h
        exact ⟨none, rfl, by simp [h]⟩
      · simp only [hm, if_false] at h ⊢
        cases hd : decodeBranch pg with
        | error e => simp [hd, bind, Except.bind] at h
        | ok b =>
          simp only [hd, bind, Except.bind] at h ⊢
          by_cases hb : (b.bbnPn != pn) = true
          · simp [hb, throw, throwThe, MonadExceptOf.throw] at h
          · simp only [hb, if_false, pure, Except.pure] at h ⊢
            injection h with h
            exact ⟨some (pn, b), rfl, by simp [h]⟩

theorem foldr_live {bbn : ByteArray} {marks : Array Bool} : ∀ (n : Nat) (init brs : List (Nat × Branch)),
    (List.range n).foldrM (liveStep bbn marks) init = .ok brs →
    (∀ pn, pn < n → ∃ o, cls bbn marks pn = .ok o) ∧ brs = (List.range n).filterMap (live bbn marks) ++ init
  | 0, init, brs, h => by
    simp only [List.range_zero, List.foldrM_nil, pure, Except.pure] at h
    injection h with h
    exact ⟨fun _ hp => by omega, by simp [h]⟩
  | n + 1, init, brs, h => by
    rw [List.range_succ, List.foldrM_append] at h
    simp only [List.foldrM_cons, List.foldrM_nil, bind, Except.bind, pure, Except.pure] at h
    cases hs : liveStep bbn marks n init with
    | error e => simp [hs] at h
    | ok acc1 =>
      simp only [hs] at h
      obtain ⟨o, ho, hacc⟩ := liveStep_ok hs
      obtain ⟨hall, hbrs⟩ := foldr_live n acc1 brs h
      refine ⟨fun pn hp => ?_, ?_⟩
      · by_cases hpn : pn = n
        · subst hpn; exact ⟨o, ho⟩
        · exact hall pn (by omega)
      · rw [List.range_succ, List.filterMap_append, hbrs, hacc]
        have : [n].filterMap (live bbn marks) = o.toList := by
          simp only [List.filterMap_cons, List.filterMap_nil, live, ho]
          cases o <;> rfl
        rw [this, List.append_assoc]

/-- **`liveBranches`** accepts iff every page below the bump classifies, and then lists the live nodes in page order -/
theorem liveBranches_ok {bbn : ByteArray} {bump : Nat} {marks : Array Bool} {brs : List (Nat × Branch)}
    (h : liveBranches bbn bump marks = .ok brs) :
    (∀ pn, pn < bump → ∃ o, cls bbn marks pn = .ok o) ∧ brs = (List.range bump).filterMap (live bbn marks) := by
  rw [liveBranches_eq] at h
  have := foldr_live bump [] brs h
  simpa using this

end Nomt.BtRecon
