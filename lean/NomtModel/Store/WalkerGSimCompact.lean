import NomtModel.Store.WalkerSimCompact
import NomtModel.Store.WalkerSimMoves
import NomtModel.Store.WalkerGSimMoves
import NomtModel.Store.WalkerTreeLog
/-!
# `compact_step`, the loop of `compact_up`, `compact_up` of the mirror against the tree walker
-/
namespace Nomt.Walker.G
open Nomt Nomt.TriePos
open Nomt.Wal (PageDiff)

variable {Node VH : Type} [DecidableEq Node] [DecidableEq VH] (H : Hasher Node VH) (ps : PageSet Node)

/-- what a reconstructor's walk needs from outside (the simulation itself knows nothing about the keys): whenever the log of the
tree walker after leaving a page is a prefix of `Lfin`, the page left is small enough to be elided.  Discharged from the facts
about the final log (`Store/WalkerReconSmall.lean`); vacuous for a walker that is not a reconstructor. -/
def SmallBy (Lfin : List (PageId × Store Node)) : Prop :=
  ∀ (w1 : Walker Node) (a1 : TW Node), Sim H ps w1 a1 → w1.reconstruction = true → dip a1.pos = 1 →
    a1.up.log <+: Lfin → SmallTop H w1

/-- no page is left twice: when the log after the move still is a prefix of a log with distinct ids, the page left is new -/
theorem new_of_prefix (a : TW Node) (Lfin : List (PageId × Store Node)) (hnd : (Lfin.map (·.1)).Nodup)
    (hpre : a.up.log <+: Lfin) : dip a.pos = 1 → specPage a.pos ∉ a.log.map (·.1) := by
  intro h1 hmem
  rw [tw_up_log, if_pos h1] at hpre
  obtain ⟨t, ht⟩ := hpre
  rw [← ht] at hnd
  simp only [List.map_append, List.map_cons, List.map_nil, List.append_assoc] at hnd
  have := (List.nodup_append.mp hnd).2.2 _ hmem (specPage a.pos) (by simp)
  exact this rfl

/-- jumping to the sibling position (same page) -/
theorem sim_sibling {w : Walker Node} {a : TW Node} (h : Sim H ps w a) (hd : 6 * k0 w.parentPage < a.pos.length) :
    ∃ p', w.position.sibling = some p' ∧
      Sim H ps ({ w with position := p' } : Walker Node) ({ a with pos := sibPath a.pos } : TW Node) := by
  have hne := sim_pos_ne (w := w) hd
  have hdep := pos_depth_pos h.wf h.pos
  have hdepth : 1 ≤ w.position.depth := by rw [hdep]; exact List.length_pos_iff.mpr hne
  obtain ⟨p', b, hsib, hp'wf, hpath, hp'path, _, _⟩ := wf_sibling w.position h.wf hdepth
  refine ⟨p', hsib, ?_⟩
  have hsp : p'.path = sibPath a.pos := by
    rw [hp'path, h.pos]
    rw [h.pos] at hpath
    conv => rhs; rw [hpath, sibPath_snoc]
  refine ⟨hp'wf, hsp, h.root, ?_, ?_, h.chain, h.pages, h.counters, h.recon.cast H rfl rfl rfl rfl rfl, h.cpr, h.outs, h.nofix, h.diffs, h.acct, h.named⟩
  · show w.stack = [] ↔ (sibPath a.pos).length ≤ _
    rw [sibPath_length]; exact h.stackE
  · intro sp rest e
    show sp.pageId = specPage (sibPath a.pos)
    rw [specPage_sibPath]; exact h.stackT sp rest e

theorem sim_peekLastBit {w : Walker Node} {a : TW Node} (h : Sim H ps w a) (hne : a.pos ≠ []) :
    w.position.peekLastBit = some (a.pos.getLast?.getD false) := by
  have hdep := pos_depth_pos h.wf h.pos
  have hdepth : 1 ≤ w.position.depth := by rw [hdep]; exact List.length_pos_iff.mpr hne
  obtain ⟨b, hb, hp⟩ := wf_peekLastBit w.position h.wf hdepth
  rw [hb]
  rw [h.pos] at hp
  rw [hp]; simp

/-- `compact_step` -/
theorem sim_compactStep {w : Walker Node} {a : TW Node} (h : Sim H ps w a) (hd : 6 * k0 w.parentPage < a.pos.length) :
    ∃ w', w.compactStep H = .ok ((a.compactStep H).1, w') ∧ Sim H ps w' (a.compactStep H).2 ∧ Same w w' ∧
      w'.childPageRoots = w.childPageRoots ∧ w'.root = w.root := by
  have hne := sim_pos_ne (w := w) hd
  unfold Walker.compactStep
  rw [sim_node H ps h hd, sim_siblingNode H ps h hd, sim_peekLastBit H ps h hne]
  simp only
  cases hk1 : H.kind a.cur <;> cases hk2 : H.kind a.sib
  all_goals simp only [TW.compactStep, hk1, hk2]
  any_goals exact ⟨w, rfl, h, Same.rfl' _, rfl, rfl⟩
  · -- (terminator, leaf): clear the sibling
    obtain ⟨p', hsib, hsim⟩ := sim_sibling H ps h hd
    rw [hsib]
    simp only
    obtain ⟨w', hw', hs', hsame, _, hcpr, hroot⟩ := sim_setNode H ps hsim (by simpa [sibPath_length] using hd) H.term
    rw [hw']
    exact ⟨w', rfl, hs', hsame, hcpr, hroot⟩
  · -- (leaf, terminator): clear the node
    obtain ⟨w', hw', hs', hsame, _, hcpr, hroot⟩ := sim_setNode H ps h hd H.term
    rw [hw']
    exact ⟨w', rfl, hs', hsame, hcpr, hroot⟩

/-- fields outside the relation may change freely -/
theorem sim_other_fields {w : Walker Node} {a : TW Node} (h : Sim H ps w a) (ss : List (Node × Nat)) (pn : Option Node)
    (lp : Option Pos) :
    Sim H ps ({ w with siblingStack := ss, prevNode := pn, lastPosition := lp } : Walker Node) a :=
  ⟨h.wf, h.pos, h.root, h.stackE, h.stackT, h.chain, h.pages, h.counters, h.recon.cast H rfl rfl rfl rfl rfl, h.cpr, h.outs, h.nofix, h.diffs, h.acct, h.named⟩

theorem sim_stackEmpty {w : Walker Node} {a : TW Node} (h : Sim H ps w a) :
    w.stack.isEmpty = a.stackEmpty (cfgOf H ps w.parentPage) := by
  unfold TW.stackEmpty cfgOf
  simp only
  cases hs : w.stack with
  | nil =>
    have := h.stackE.mp hs
    simp [this]
  | cons x xs =>
    have : ¬ a.pos.length ≤ 6 * k0 w.parentPage := by
      intro hle
      have := h.stackE.mpr hle
      rw [hs] at this; cases this
    simp [this]

/-- the loop of `compact_up` -/
theorem sim_compactLoop (Lfin : List (PageId × Store Node)) (hnd : (Lfin.map (·.1)).Nodup) :
    ∀ (n i layers : Nat) (w : Walker Node) (a : TW Node), Sim H ps w a →
    (n = 0 ∨ 6 * k0 w.parentPage < a.pos.length) →
    ((w.reconstruction = true → SmallBy H ps Lfin) ∧ (TW.compactLoop H (cfgOf H ps w.parentPage) n a).log <+: Lfin) →
    ∃ w', Walker.compactLoop H n i layers w = .ok w' ∧
      Sim H ps w' (TW.compactLoop H (cfgOf H ps w.parentPage) n a) ∧ Same w w' := by
  intro n
  induction n with
  | zero =>
    intro i layers w a h _ _
    exact ⟨w, rfl, h, Same.rfl' _⟩
  | succ n ih =>
    intro i layers w a h hd hfin
    have hd : 6 * k0 w.parentPage < a.pos.length := by
      rcases hd with h0 | h0
      · cases h0
      · exact h0
    obtain ⟨w1, hw1, hs1, hsame1, hcpr1, hroot1⟩ := sim_compactStep H ps h hd
    have hd1 : 6 * k0 w1.parentPage < (a.compactStep H).2.pos.length := by
      rw [hsame1.1, tw_compactStep_pos_length]; exact hd
    have hpre1 : ((a.compactStep H).2.up).log <+: Lfin :=
      List.IsPrefix.trans (tw_compactLoop_round_prefix H (cfgOf H ps w.parentPage) n a) hfin.2
    obtain ⟨w2, hw2, hs2, hsame2, hcpr2, hroot2⟩ := sim_up H ps hs1 hd1 (by
      intro hr hdip
      have hr0 : w.reconstruction = true := by rw [← hsame1.2.2.2.2]; exact hr
      exact hfin.1 hr0 w1 _ hs1 hr hdip hpre1) (new_of_prefix _ Lfin hnd hpre1)
    have hpar2 : w2.parentPage = w.parentPage := hsame2.1.trans hsame1.1
    rw [tw_compactLoop_succ]
    simp only [Walker.compactLoop]
    rw [hw1]
    simp only
    rw [hw2]
    simp only
    have hse := sim_stackEmpty H ps hs2
    rw [hpar2] at hse
    by_cases hempty : w2.stack.isEmpty = true
    · have hse' : ((a.compactStep H).2.up).stackEmpty (cfgOf H ps w.parentPage) = true := by rw [← hse]; exact hempty
      rw [if_pos hempty, if_pos hse']
      have hposle : ((a.compactStep H).2.up).pos.length ≤ 6 * k0 w2.parentPage := by
        have : w2.stack = [] := List.isEmpty_iff.mp hempty
        exact hs2.stackE.mp this
      have hsameAll : ∀ w3 : Walker Node, w3.parentPage = w2.parentPage → w3.lastPosition = w2.lastPosition →
          w3.inhibitElision = w2.inhibitElision → w3.preFix = w2.preFix → w3.reconstruction = w2.reconstruction →
          Same w w3 := by
        intro w3 e1 e2 e3 e4 e5
        exact ⟨e1.trans hpar2, e2.trans (hsame2.2.1.trans hsame1.2.1), e3.trans (hsame2.2.2.1.trans hsame1.2.2.1),
          e4.trans (hsame2.2.2.2.1.trans hsame1.2.2.2.1), e5.trans (hsame2.2.2.2.2.trans hsame1.2.2.2.2)⟩
      by_cases hpn : w2.parentPage.isNone = true
      · have hpp : w2.parentPage = none := Option.isNone_iff_eq_none.mp hpn
        have hpp' : w.parentPage = none := by rw [← hpar2]; exact hpp
        have hnp : ¬ (cfgOf H ps w.parentPage).hasParent = true := by simp [cfgOf, hpp']
        rw [if_neg hnp, if_pos hpn]
        have hnil : ((a.compactStep H).2.up).pos = [] := by
          rw [hpp] at hposle
          simp [k0] at hposle
          exact hposle
        refine ⟨_, rfl, ?_, hsameAll _ rfl rfl rfl rfl rfl⟩
        refine ⟨hs2.wf, hs2.pos, ?_, hs2.stackE, hs2.stackT, hs2.chain, ?_, hs2.counters, hs2.recon.cast H rfl rfl rfl rfl rfl, hs2.cpr, hs2.outs, hs2.nofix, hs2.diffs, hs2.acct, hs2.named.write_root hnil _⟩
        · simp [TW.setNode, hnil, upd_same]
        · intro sp hsp
          have : w2.stack = [] := List.isEmpty_iff.mp hempty
          rw [this] at hsp; cases hsp
      · have hpp' : w.parentPage.isSome = true := by
          rw [← hpar2]
          cases hq : w2.parentPage with
          | none => rw [hq] at hpn; simp at hpn
          | some x => rfl
        have hnp : (cfgOf H ps w.parentPage).hasParent = true := by simp [cfgOf, hpp']
        rw [if_pos hnp, if_neg hpn]
        refine ⟨_, rfl, ?_, hsameAll _ rfl rfl rfl rfl rfl⟩
        refine ⟨hs2.wf, hs2.pos, hs2.root, hs2.stackE, hs2.stackT, hs2.chain, hs2.pages, hs2.counters, hs2.recon.cast H rfl rfl rfl rfl rfl, ?_, hs2.outs, hs2.nofix, hs2.diffs, hs2.acct, hs2.named⟩
        simp only [List.map_append, List.map_cons, List.map_nil]
        rw [hs2.cpr, hs2.pos]
    · have hse' : ¬ ((a.compactStep H).2.up).stackEmpty (cfgOf H ps w.parentPage) = true := by
        rw [← hse]; exact hempty
      rw [if_neg hempty, if_neg hse']
      have hd2 : 6 * k0 w2.parentPage < ((a.compactStep H).2.up).pos.length := by
        rcases Nat.lt_or_ge (6 * k0 w2.parentPage) ((a.compactStep H).2.up).pos.length with hlt | hge
        · exact hlt
        · have := hs2.stackE.mpr hge
          rw [this] at hempty; simp at hempty
      -- the optional push on the sibling stack
      have hopt : ∃ w3, w2.saveSibling H (decide (i = layers - 1)) = .ok w3 ∧
          Sim H ps w3 ((a.compactStep H).2.up) ∧ Same w2 w3 := by
        unfold Walker.saveSibling
        by_cases hi : i = layers - 1
        · rw [if_pos (by simpa using hi), sim_node H ps hs2 hd2]
          exact ⟨_, rfl, sim_other_fields H ps hs2 _ w2.prevNode w2.lastPosition, Same.rfl' _⟩
        · rw [if_neg (by simpa using hi)]
          exact ⟨w2, rfl, hs2, Same.rfl' _⟩
      obtain ⟨w3, hw3, hs3, hsame3⟩ := hopt
      rw [hw3]
      simp only
      have hd3 : 6 * k0 w3.parentPage < ((a.compactStep H).2.up).pos.length := by rw [hsame3.1]; exact hd2
      obtain ⟨w4, hw4, hs4, hsame4, _, _, _⟩ := sim_setNode H ps hs3 hd3 (a.compactStep H).1
      simp only [hw4]
      have hpar4 : w4.parentPage = w.parentPage := hsame4.1.trans (hsame3.1.trans hpar2)
      obtain ⟨w5, hw5, hs5, hsame5⟩ := ih (i + 1) layers w4 _ hs4 (Or.inr (by
        show 6 * k0 w4.parentPage < ((a.compactStep H).2.up).pos.length
        rw [hsame4.1]; exact hd3)) (by
          refine ⟨?_, ?_⟩
          · intro hr
            have hr0 : w.reconstruction = true := by
              rw [← hsame1.2.2.2.2, ← hsame2.2.2.2.2, ← hsame3.2.2.2.2, ← hsame4.2.2.2.2]; exact hr
            exact hfin.1 hr0
          · have hpre := hfin.2
            rw [hpar4]
            rw [tw_compactLoop_succ, if_neg hse'] at hpre
            exact hpre)
      rw [hpar4] at hs5
      exact ⟨w5, hw5, hs5, Same.trans' (Same.trans' (Same.trans' (Same.trans' hsame1 hsame2) hsame3) hsame4) hsame5⟩

/-- `compact_up` -/
theorem sim_compactUp {w : Walker Node} {a : TW Node} (h : Sim H ps w a) (target : Option Pos)
    (hok : ∀ t, target = some t → 6 * k0 w.parentPage < a.pos.length → sharedBits a.pos t.path + 1 ≤ a.pos.length)
    (Lfin : List (PageId × Store Node)) (hnd : (Lfin.map (·.1)).Nodup)
    (hfin : (w.reconstruction = true → SmallBy H ps Lfin) ∧
      (a.compactUp H (cfgOf H ps w.parentPage) (target.map (·.path))).log <+: Lfin) :
    ∃ w', w.compactUp H target = .ok w' ∧
      Sim H ps w' (a.compactUp H (cfgOf H ps w.parentPage) (target.map (·.path))) ∧ Same w w' := by
  unfold Walker.compactUp TW.compactUp
  have hse := sim_stackEmpty H ps h
  by_cases hempty : w.stack.isEmpty = true
  · have hse' : a.stackEmpty (cfgOf H ps w.parentPage) = true := by rw [← hse]; exact hempty
    rw [if_pos hempty, if_pos hse']
    exact ⟨w, rfl, h, Same.rfl' _⟩
  · have hse' : ¬ a.stackEmpty (cfgOf H ps w.parentPage) = true := by rw [← hse]; exact hempty
    rw [if_neg hempty, if_neg hse']
    have hd : 6 * k0 w.parentPage < a.pos.length := by
      rcases Nat.lt_or_ge (6 * k0 w.parentPage) a.pos.length with hlt | hge
      · exact hlt
      · have := h.stackE.mpr hge
        rw [this] at hempty; simp at hempty
    have hdep := pos_depth_pos h.wf h.pos
    cases target with
    | none =>
      simp only [Option.map_none]
      rw [hdep]
      exact sim_compactLoop H ps Lfin hnd a.pos.length 0 a.pos.length
        ({ w with siblingStack := [] } : Walker Node) a (sim_other_fields H ps h [] w.prevNode w.lastPosition)
        (Or.inr hd) (by
          refine ⟨hfin.1, ?_⟩
          have hpre := hfin.2
          unfold TW.compactUp at hpre
          rw [if_neg hse'] at hpre
          exact hpre)
    | some t =>
      simp only [Option.map_some]
      have hsd : w.position.sharedDepth t = sharedBits a.pos t.path := by
        unfold Pos.sharedDepth; rw [h.pos]
      have hle := hok t rfl hd
      rw [hdep, hsd, if_neg (by omega)]
      by_cases hl0 : a.pos.length - (sharedBits a.pos t.path + 1) = 0
      · rw [hl0]
        simp only [if_true]
        cases hpn : w.prevNode with
        | none =>
          simp only
          exact ⟨_, rfl, sim_other_fields H ps h _ none w.lastPosition, Same.rfl' _⟩
        | some pn =>
          simp only
          exact ⟨_, rfl, sim_other_fields H ps h _ none w.lastPosition, Same.rfl' _⟩
      · rw [if_neg hl0]
        exact sim_compactLoop H ps Lfin hnd (a.pos.length - (sharedBits a.pos t.path + 1)) 0
          (a.pos.length - (sharedBits a.pos t.path + 1))
          ({ w with siblingStack := w.siblingStack.takeWhile (fun s => decide (s.2 ≤ sharedBits a.pos t.path)),
                    prevNode := none } : Walker Node) a
          (sim_other_fields H ps h _ none w.lastPosition) (Or.inr hd) (by
            refine ⟨hfin.1, ?_⟩
            have hpre := hfin.2
            unfold TW.compactUp at hpre
            rw [if_neg hse'] at hpre
            exact hpre)

end Nomt.Walker.G
