import NomtModel.Store.SyncGen
/-!
# The I/O choreography of the recovery `Nomt::open` performs on a crashed directory (C03)

`Store::open` runs on the opening thread, nothing is spawned:

```
bitbox::DB::open          wal empty                      → nothing
                          wal of another sync (stale)    → truncate_wal(fsync)
                          wal of the manifest's sync     → recover: every Update entry rewrites its bucket page (write_all_at,
                                                            synchronous), then the changed meta-map pages, THEN fsync of the table
                                                            (repair of F17), then truncate_wal(fsync)
Rollback::read → seglog::open   unlink the segments outside the live range (oldest first below, newest first above: F16),
                                truncate the head segment to the last live record + fsync
```

so the generated language of one recovery is ONE trace, `recLines`.  `RVariant` drops the table fsync (the order before
F17 was repaired).
-/
namespace Nomt.Store.SyncGen
open Nomt.Store

inductive RecWal
  | absent                                   -- the redo log is empty
  | stale                                    -- the redo log belongs to another sync
  | redo (pages : List (Nat × Nat × String))  -- the table pages rewritten: offset, length, hook site
deriving Repr, DecidableEq

structure RecParams where
  wal : RecWal := .absent
  unlinks : List (String × String) := []     -- segments outside the live range (path, site)
  head : Option (String × Nat) := none       -- the head segment and the length it is cut to
  th : String := "t1"
deriving Repr

structure RVariant where
  /-- `bitbox::recover` fsyncs the table before it drops the redo log -/
  htFsync : Bool := true
deriving Repr, DecidableEq

def redoLines (th : String) : List (Nat × Nat × String) → List IoEv2
  | [] => []
  | (off, len, site) :: rest => call th (ev "Write" "ht" off len site) ++ redoLines th rest

def truncLines (th : String) : List IoEv2 :=
  call th (ev "SetLen" "wal" 0 0 "wal.truncate") ++ call th (ev "Fsync" "wal" 0 0 "wal.truncate.fsync")

def headLines (th : String) : Option (String × Nat) → List IoEv2
  | none => []
  | some (h, len) => call th (ev "SetLen" h len 0 "seglog.truncate_head") ++ call th (ev "Fsync" h 0 0 "seglog.truncate_head.fsync")

def recWalLines (V : RVariant) (R : RecParams) : List IoEv2 :=
  match R.wal with
  | .absent => []
  | .stale => truncLines R.th
  | .redo pages =>
    redoLines R.th pages ++ (if V.htFsync then call R.th (ev "Fsync" "ht" 0 0 "ht.recover.fsync") else []) ++ truncLines R.th

/-- **the trace of one recovery** -/
def recLines (V : RVariant) (R : RecParams) : List IoEv2 :=
  recWalLines V R ++ unlinkLines R.th R.unlinks ++ headLines R.th R.head

/-- first position at which two traces differ -/
def firstDiff : List IoEv2 → List IoEv2 → Nat → Option Nat
  | [], [], _ => none
  | a :: as, b :: bs, k => if a = b then firstDiff as bs (k + 1) else some k
  | _, _, k => some k

theorem firstDiff_none : ∀ (a b : List IoEv2) (k : Nat), firstDiff a b k = none → a = b := by
  intro a
  induction a with
  | nil => intro b k h; cases b with | nil => rfl | cons _ _ => simp [firstDiff] at h
  | cons x xs ih =>
    intro b k h
    cases b with
    | nil => simp [firstDiff] at h
    | cons y ys =>
      simp only [firstDiff] at h
      split at h
      · rename_i hxy; rw [hxy, ih ys (k + 1) h]
      · cases h

/-- membership of a recorded recovery trace (complete: the open returned) -/
def recMemberOf (V : RVariant) (R : RecParams) (tr : List IoEv2) : Bool := (firstDiff tr (recLines V R) 0).isNone

theorem recMemberOf_sound (V : RVariant) (R : RecParams) (tr : List IoEv2) (h : recMemberOf V R tr = true) :
    tr = recLines V R := by
  unfold recMemberOf at h
  cases hd : firstDiff tr (recLines V R) 0 with
  | none => exact firstDiff_none _ _ _ hd
  | some k => rw [hd] at h; cases h

/-- a recovery cut by a (nested) crash: a prefix of the trace -/
def recPrefixOf (V : RVariant) (R : RecParams) (tr : List IoEv2) : Bool := tr.isPrefixOf (recLines V R)

/-- read the parameters off a recorded recovery trace -/
def recParamsOf (tr : List IoEv2) : RecParams :=
  let th := match tr with | l :: _ => l.thread | [] => "t1"
  let pages := tr.filterMap (fun l =>
    if l.isBegin && l.ev.file == "ht" && l.ev.kind == "Write" then some (l.ev.offset, l.ev.len, l.ev.site) else none)
  let hasHtSync := (firstBegin tr (fun e => e.kind == "Fsync" && e.file == "ht")).isSome
  let hasTrunc := (firstBegin tr (fun e => e.site == "wal.truncate")).isSome
  let wal : RecWal := if !pages.isEmpty || hasHtSync then .redo pages else if hasTrunc then .stale else .absent
  let unlinks := tr.filterMap (fun l =>
    if l.isBegin && l.ev.kind == "Unlink" then some (l.ev.file, l.ev.site) else none)
  let head := match firstBegin tr (fun e => e.site == "seglog.truncate_head") with
    | some l => some (l.ev.file, l.ev.offset) | none => none
  { wal := wal, unlinks := unlinks, head := head, th := th }

end Nomt.Store.SyncGen
