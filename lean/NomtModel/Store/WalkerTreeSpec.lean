import NomtModel.Store.WalkerTree
import NomtModel.Core.Compact
import NomtModel.Core.VUpdate
import NomtModel.Core.UpdateGlue
/-!
# Specification vocabulary for the walker proofs

`sub S p` = the keys of `S` below position `p`; `specNode S p` = the specified node at `p` (`nodeAt` of those keys).
Keys have 256 bits.  `Mean S q` = "the parent of `q` is an internal node of `S`" (then the slot of `q` is meaningful).
-/
namespace Nomt.Walker
open Nomt Nomt.TriePos

variable {Node VH : Type} [DecidableEq Node] [DecidableEq VH] (H : Hasher Node VH)

/-- a canonical (strictly sorted) set of 256-bit keys -/
structure KeysOK (S : List (Key × VH)) : Prop where
  canon : Canon 256 0 S
  len : ∀ kv ∈ S, kv.1.length = 256

/-- the keys below position `p` -/
def sub (S : List (Key × VH)) (p : Path) : List (Key × VH) := restrict 0 p S

/-- the specified node at position `p` -/
def specNode (S : List (Key × VH)) (p : Path) : Node := nodeAt H (256 - p.length) p.length (sub S p)

/-- the slot of `q` is meaningful in `S`: `q` is the root or its parent is an internal node -/
def Mean (S : List (Key × VH)) (q : Path) : Prop := q = [] ∨ 2 ≤ (sub S q.dropLast).length

theorem sub_nil (S : List (Key × VH)) : sub S [] = S := rfl

theorem sub_snoc (S : List (Key × VH)) (p : Path) (b : Bool) :
    sub S (p ++ [b]) = side p.length b (sub S p) := by
  unfold sub
  rw [restrict_append]; simp

theorem mem_sub {S : List (Key × VH)} (hk : KeysOK S) (p : Path) (hp : p.length ≤ 256) (kv : Key × VH) :
    kv ∈ sub S p ↔ kv ∈ S ∧ p <+: kv.1 :=
  mem_restrict_prefix 256 S hk.len p hp kv

theorem canon_sub {S : List (Key × VH)} (hk : KeysOK S) (p : Path) (hp : p.length ≤ 256) :
    Canon (256 - p.length) p.length (sub S p) := by
  have := Canon_restrict p (256 - p.length) 0 S (by rw [Nat.sub_add_cancel hp]; exact hk.canon)
  simpa [sub] using this

theorem sub_length_le_one_of_full {S : List (Key × VH)} (hk : KeysOK S) (p : Path) (hp : p.length = 256) :
    (sub S p).length ≤ 1 := by
  have hc := canon_sub hk p (by omega)
  rw [hp] at hc
  match h : sub S p, hc with
  | [], _ => simp
  | [_], _ => simp
  | _ :: _ :: _, hc => simp [Canon] at hc

theorem lt_of_two_le_sub {S : List (Key × VH)} (hk : KeysOK S) (p : Path) (hp : p.length ≤ 256)
    (h : 2 ≤ (sub S p).length) : p.length < 256 := by
  by_cases h' : p.length = 256
  · have := sub_length_le_one_of_full hk p h'; omega
  · omega

/-- the compaction law at a position: the code's compaction table applied to the two specified children -/
theorem specNode_compact (hs : H.Sound) {S : List (Key × VH)} (hk : KeysOK S)
    (p : Path) (hp : p.length < 256) (b : Bool) :
    Nomt.compactStep H b (specNode H S (p ++ [b])) (specNode H S (p ++ [!b])) = specNode H S p := by
  have hc := canon_sub hk p (by omega)
  have e : 256 - p.length = (255 - p.length) + 1 := by omega
  rw [e] at hc
  have := compact_spec H hs (255 - p.length) p.length (sub S p) hc b
  unfold specNode
  rw [sub_snoc, sub_snoc, e]
  simp only [List.length_append, List.length_singleton]
  have e2 : 256 - (p.length + 1) = 255 - p.length := by omega
  rw [e2]
  exact this

theorem kind_specNode (hs : H.Sound) {S : List (Key × VH)} (hk : KeysOK S) (p : Path) (hp : p.length ≤ 256) :
    ((sub S p) = [] → H.kind (specNode H S p) = .terminator) ∧
    (∀ kv, sub S p = [kv] → H.kind (specNode H S p) = .leaf) ∧
    (2 ≤ (sub S p).length → H.kind (specNode H S p) = .internal) :=
  kind_nodeAt H hs _ _ _ (canon_sub hk p hp)

theorem specNode_nil_eq (S : List (Key × VH)) (p : Path) (h : sub S p = []) : specNode H S p = H.term := by
  unfold specNode; rw [h, nodeAt_nil]

theorem specNode_single_eq (S : List (Key × VH)) (p : Path) (kv : Key × VH) (h : sub S p = [kv]) :
    specNode H S p = H.leaf kv.1 kv.2 := by
  unfold specNode; rw [h, nodeAt_single]

/-- the number of keys below a position splits over its two children -/
theorem sub_length_split {S : List (Key × VH)} (p : Path) :
    (sub S p).length = (sub S (p ++ [false])).length + (sub S (p ++ [true])).length := by
  rw [sub_snoc, sub_snoc]
  unfold side
  generalize sub S p = l
  induction l with
  | nil => rfl
  | cons x xs ih =>
    rw [List.filter_cons, List.filter_cons]
    cases h : x.1.getD p.length false
    · simp only [beq_self_eq_true, if_true, List.length_cons]
      rw [if_neg (by simp)]
      omega
    · simp only [beq_self_eq_true, if_true, List.length_cons]
      rw [if_neg (by simp)]
      omega

/-- kinds determine the number of keys -/
theorem sub_of_kind (hs : H.Sound) {S : List (Key × VH)} (hk : KeysOK S) (p : Path) (hp : p.length ≤ 256) :
    (H.kind (specNode H S p) = .terminator → sub S p = []) ∧
    (H.kind (specNode H S p) = .leaf → ∃ kv, sub S p = [kv]) ∧
    (H.kind (specNode H S p) = .internal → 2 ≤ (sub S p).length) := by
  have hkind := kind_specNode H hs hk p hp
  match h : sub S p with
  | [] =>
    have := hkind.1 h
    refine ⟨fun _ => rfl, ?_, ?_⟩ <;> intro h' <;> rw [this] at h' <;> cases h'
  | [kv] =>
    have := hkind.2.1 kv h
    refine ⟨?_, fun _ => ⟨kv, rfl⟩, ?_⟩ <;> intro h' <;> rw [this] at h' <;> cases h'
  | a :: b :: rest =>
    have := hkind.2.2 (by rw [h]; simp)
    refine ⟨?_, ?_, fun _ => by simp⟩ <;> intro h' <;> rw [this] at h' <;> cases h'

end Nomt.Walker
