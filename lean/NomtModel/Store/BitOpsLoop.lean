import NomtModel.Store.BitOpsChunk
/-!
# `bitwise_memcpy`: the chunk loop and the final byte — mirror = specification

Invariant of the loop: before chunk `ci` the destination is `X (8·ci)` = the specified result up to byte `8·ci`,
the original destination behind it; `prev_remainder` is the remainder of the previous chunk's last source byte.
-/
namespace Nomt.BitOps

variable {dst : List Nat} {dbs : Nat} {src : List Nat} {sbs len n : Nat}

theorem length_memcpySpec (dst : List Nat) (dbs : Nat) (src : List Nat) (sbs len : Nat) :
    (memcpySpec dst dbs src sbs len).length = dst.length := length_bytesOfBits _ _

theorem bytes_memcpySpec (dst : List Nat) (dbs : Nat) (src : List Nat) (sbs len : Nat) :
    Bytes (memcpySpec dst dbs src sbs len) := bytes_bytesOfBits _ _

theorem getElem?_memcpySpec (i : Nat) (hi : i < dst.length) :
    (memcpySpec dst dbs src sbs len)[i]? = some (byteOfBits (memcpyBit dst dbs src sbs len) i) := by
  simp [memcpySpec, bytesOfBits, hi]

theorem getElem?_writeAt (l : List Nat) (off : Nat) (bs : List Nat) (i : Nat) (h : off ≤ l.length) :
    (writeAt l off bs)[i]? = if i < off then l[i]? else if i < off + bs.length then bs[i - off]? else l[i]? := by
  unfold writeAt
  have hl : (l.take off).length = off := by simp; omega
  by_cases h1 : i < off
  · rw [if_pos h1, List.append_assoc, List.getElem?_append_left (by omega), List.getElem?_take_of_lt h1]
  · rw [if_neg h1, List.append_assoc, List.getElem?_append_right (by omega), hl]
    by_cases h2 : i < off + bs.length
    · rw [if_pos h2, List.getElem?_append_left (by omega)]
    · rw [if_neg h2, List.getElem?_append_right (by omega), List.getElem?_drop]
      congr 1; omega

/-- specified result up to byte `o`, original destination behind it -/
def X (dst : List Nat) (dbs : Nat) (src : List Nat) (sbs len : Nat) (o : Nat) : List Nat :=
  (memcpySpec dst dbs src sbs len).take o ++ dst.drop o

theorem X_zero : X dst dbs src sbs len 0 = dst := by simp [X]

theorem getElem?_X (o i : Nat) (ho : o ≤ dst.length) :
    (X dst dbs src sbs len o)[i]? = if i < o then (memcpySpec dst dbs src sbs len)[i]? else dst[i]? := by
  unfold X
  have hl : ((memcpySpec dst dbs src sbs len).take o).length = o := by simp [length_memcpySpec]; omega
  by_cases h1 : i < o
  · rw [if_pos h1, List.getElem?_append_left (by omega), List.getElem?_take_of_lt h1]
  · rw [if_neg h1, List.getElem?_append_right (by omega), hl, List.getElem?_drop]
    congr 1; omega

theorem length_X (o : Nat) (ho : o ≤ dst.length) : (X dst dbs src sbs len o).length = dst.length := by
  simp [X, length_memcpySpec]; omega

theorem getD_X_ge (o i : Nat) (ho : o ≤ dst.length) (hi : o ≤ i) : (X dst dbs src sbs len o).getD i 0 = dst.getD i 0 := by
  rw [List.getD_eq_getElem?_getD, List.getD_eq_getElem?_getD, getElem?_X o i ho, if_neg (by omega)]

theorem word_X (o : Nat) (ho : o ≤ dst.length) : word (X dst dbs src sbs len o) o = word dst o := by
  unfold word get8
  rw [getD_X_ge o o ho (by omega), getD_X_ge o (o + 1) ho (by omega), getD_X_ge o (o + 2) ho (by omega),
    getD_X_ge o (o + 3) ho (by omega), getD_X_ge o (o + 4) ho (by omega), getD_X_ge o (o + 5) ho (by omega),
    getD_X_ge o (o + 6) ho (by omega), getD_X_ge o (o + 7) ho (by omega)]

/-- storing the next specified bytes advances the invariant -/
theorem writeAt_X (o nb : Nat) (bs : List Nat) (h : o + nb ≤ dst.length) (hlen : bs.length = nb)
    (hbs : ∀ k, k < nb → bs[k]? = (memcpySpec dst dbs src sbs len)[o + k]?) :
    writeAt (X dst dbs src sbs len o) o bs = X dst dbs src sbs len (o + nb) := by
  apply List.ext_getElem?
  intro i
  rw [getElem?_writeAt _ _ _ _ (by rw [length_X o (by omega)]; omega), getElem?_X o i (by omega),
    getElem?_X (o + nb) i (by omega), hlen]
  by_cases h1 : i < o
  · rw [if_pos h1, if_pos h1, if_pos (by omega)]
  · rw [if_neg h1, if_neg h1]
    by_cases h2 : i < o + nb
    · rw [if_pos h2, if_pos h2, hbs (i - o) (by omega)]
      congr 1; omega
    · rw [if_neg h2, if_neg h2]

/-- once every byte up to `bytes_to_write` is final, the whole destination is -/
theorem X_of_ge (hdst : Bytes dst) (o : Nat) (ho : (dbs + len + 7) / 8 ≤ o) :
    X dst dbs src sbs len o = memcpySpec dst dbs src sbs len := by
  apply List.ext_getElem?
  intro i
  by_cases hoD : o ≤ dst.length
  · rw [getElem?_X o i hoD]
    by_cases h1 : i < o
    · rw [if_pos h1]
    · rw [if_neg h1]
      by_cases h2 : i < dst.length
      · rw [getElem?_memcpySpec i h2, List.getElem?_eq_getElem h2]
        congr 1
        have hb : dst[i] = dst.getD i 0 := by simp [List.getD_eq_getElem?_getD, List.getElem?_eq_getElem h2]
        rw [hb, ← byteOfBits_bitOf dst hdst i]
        apply byte_ext (byteOfBits_lt _ _) (byteOfBits_lt _ _)
        intro u hu
        rw [testBit_byteOfBits, testBit_byteOfBits]
        unfold memcpyBit
        rw [if_neg (by omega)]
      · rw [List.getElem?_eq_none (by omega), List.getElem?_eq_none (by rw [length_memcpySpec]; omega)]
  · unfold X
    rw [List.take_of_length_le (by rw [length_memcpySpec]; omega), List.drop_eq_nil_of_le (by omega), List.append_nil]

/-- the bytes of a word whose bits are the specified bits of chunk `ci` are the next specified bytes -/
theorem toBE_take_spec (w ci nb : Nat) (hnb : nb ≤ 8) (hD : ci * 8 + nb ≤ dst.length)
    (h : ∀ i, i < 64 → w.testBit i = memcpyBit dst dbs src sbs len (64 * ci + (63 - i))) :
    ((toBE w).take nb).length = nb ∧
    ∀ k, k < nb → ((toBE w).take nb)[k]? = (memcpySpec dst dbs src sbs len)[ci * 8 + k]? := by
  refine ⟨by simp [length_toBE]; omega, ?_⟩
  intro k hk
  have hk8 : k < 8 := by omega
  rw [List.getElem?_take_of_lt hk, getElem?_memcpySpec _ (by omega)]
  have h1 : k < (toBE w).length := by rw [length_toBE]; exact hk8
  have := toBE_eq_byteOfBits w ci (memcpyBit dst dbs src sbs len)
    (fun j hj => by rw [h (63 - j) (by omega)]; congr 2; omega) k hk8
  rw [List.getD_eq_getElem?_getD, List.getElem?_eq_getElem h1] at this
  rw [List.getElem?_eq_getElem h1]
  simp only [Option.getD_some] at this
  rw [this]
  congr 2; omega


/-- `prev_remainder` when chunk `ci` starts -/
def prevAt (src : List Nat) (sbs len n : Nat) : Shift → Nat → Option Nat
  | .right a, ci => if ci = 0 then none else some (remAt src sbs len n a (ci - 1))
  | _, _ => none

theorem Ctx.src_len (c : Ctx dst dbs src sbs len n) (ci : Nat) (hci : ci < n) : ci * 8 + 8 ≤ src.length := by
  have := c.hsl; omega

theorem Ctx.used_s (c : Ctx dst dbs src sbs len n) : sbs + len - (n - 1) * 64 < 2 ^ 32 := by
  have := c.hn; have := c.hs; omega
theorem Ctx.used_d (c : Ctx dst dbs src sbs len n) : dbs + len - (n - 1) * 64 < 2 ^ 32 := by
  have := c.hn; have := c.hs; have := c.hd; omega
theorem Ctx.n_pos (c : Ctx dst dbs src sbs len n) : 0 < n := by
  have := c.hn; have := c.hlen; omega

theorem getElem?_of_lt (l : List Nat) (i : Nat) (h : i < l.length) : l[i]? = some (l.getD i 0) := by
  simp [List.getD_eq_getElem?_getD, List.getElem?_eq_getElem h]

/-- the state the loop is in when chunk `ci` starts -/
def inv (dst : List Nat) (dbs : Nat) (src : List Nat) (sbs len n : Nat) (ci : Nat) : LoopSt :=
  { dst := X dst dbs src sbs len (ci * 8), doff := ci * 8, prev := prevAt src sbs len n (shiftOf dbs sbs) ci }

theorem chunkStep_none (c : Ctx dst dbs src sbs len n) (he : dbs = sbs) (ci : Nat) (hci : ci < n)
    (hlive : ci * 8 < (dbs + len + 7) / 8) :
    chunkStep dbs src sbs len .none n ((dbs + len + 7) / 8) ci
        { dst := X dst dbs src sbs len (ci * 8), doff := ci * 8, prev := none } =
      some ({ dst := X dst dbs src sbs len (ci * 8 + min 8 (dst.length - ci * 8)),
              doff := ci * 8 + min 8 (dst.length - ci * 8), prev := none },
            decide ((dbs + len + 7) / 8 ≤ ci * 8 + min 8 (dst.length - ci * 8))) := by
  have hD := c.hD
  have hoD : ci * 8 ≤ dst.length := by omega
  obtain ⟨m, hm, hsc⟩ := chunkMasks_eff (X dst dbs src sbs len (ci * 8)) (ci * 8) (word src (ci * 8)) .none
    (word_lt src c.hsrc _) dbs sbs len n ci c.hs c.hd c.n_pos c.used_s c.used_d
  unfold chunkStep
  simp only [currRemainder, Option.bind_some, if_pos (c.src_len ci hci), hm, hsc]
  simp only [shiftedChunk, fixRemainders, Option.map_some, Option.bind_some, word_X _ hoD, length_X _ hoD]
  obtain ⟨hl, hb⟩ := toBE_take_spec (dst := dst) (dbs := dbs) (src := src) (sbs := sbs) (len := len) _ ci
    (min 8 (dst.length - ci * 8)) (by omega) (by omega) (word_none c he ci hci)
  rw [writeAt_X (ci * 8) (min 8 (dst.length - ci * 8)) _ (by omega) hl hb]

theorem or_lt_256 {x y : Nat} (hx : x < 256) (hy : y < 256) : x ||| y < 256 := by
  have h8 : (256 : Nat) = 2 ^ 8 := by decide
  rw [h8] at *; exact Nat.or_lt_two_pow hx hy

theorem and_lt_left {x : Nat} (y : Nat) (hx : x < 256) : x &&& y < 256 :=
  Nat.lt_of_le_of_lt Nat.and_le_left hx

theorem shr_lt {x : Nat} (k : Nat) (hx : x < 256) : x >>> k < 256 :=
  Nat.lt_of_le_of_lt (Nat.shiftRight_le _ _) hx

theorem chunkStep_left (c : Ctx dst dbs src sbs len n) (a : Nat) (ha : 0 < a) (he : sbs = dbs + a) (ci : Nat) (hci : ci < n)
    (hlive : ci * 8 < (dbs + len + 7) / 8) :
    chunkStep dbs src sbs len (.left a) n ((dbs + len + 7) / 8) ci
        { dst := X dst dbs src sbs len (ci * 8), doff := ci * 8, prev := none } =
      some ({ dst := X dst dbs src sbs len (ci * 8 + min 8 (dst.length - ci * 8)),
              doff := ci * 8 + min 8 (dst.length - ci * 8), prev := none },
            decide ((dbs + len + 7) / 8 ≤ ci * 8 + min 8 (dst.length - ci * 8))) := by
  have hD := c.hD
  have hs := c.hs
  have hoD : ci * 8 ≤ dst.length := by omega
  have ha64 : ¬ (64 ≤ a) := by omega
  have ha8 : ¬ (8 < a) := by omega
  obtain ⟨m, hm, hsc⟩ := chunkMasks_eff (X dst dbs src sbs len (ci * 8)) (ci * 8) (word src (ci * 8)) (.left a)
    (word_lt src c.hsrc _) dbs sbs len n ci c.hs c.hd c.n_pos c.used_s c.used_d
  unfold chunkStep
  simp only [currRemainder, Option.bind_some, if_pos (c.src_len ci hci), hm, hsc]
  simp only [shiftedChunk, if_neg ha64, Option.map_some, Option.bind_some, word_X _ hoD, length_X _ hoD]
  by_cases hlast : ci < n - 1
  · have hnext : (ci + 1) * 8 < src.length := by have := c.src_len (ci + 1) (by omega); omega
    by_cases hr : ci * 8 + 8 = (dbs + len + 7) / 8
    · have h7 : ci * 8 + 7 < (X dst dbs src sbs len (ci * 8)).length := by rw [length_X _ hoD]; omega
      have hbk : ¬ (8 ≤ (dbs + len + 7) / 8 * 8 - (dbs + len)) := by omega
      simp only [fixRemainders, if_pos hlast, if_pos hr, lastChunkMask_eq sbs len n c.n_pos c.used_s, Option.bind_some,
        if_neg hbk, getElem?_of_lt _ _ h7, getElem?_of_lt _ _ hnext, Option.map_some, if_neg ha8,
        getD_X_ge _ _ hoD (show ci * 8 ≤ ci * 8 + 7 by omega)]
      rw [setIdx7_toBE _ _ (or_lt_256 (shr_lt _ (and_lt_left _ (getD_lt_of_bytes c.hsrc _)))
        (and_lt_left _ (getD_lt_of_bytes c.hdst _)))]
      obtain ⟨hl, hb⟩ := toBE_take_spec (dst := dst) (dbs := dbs) (src := src) (sbs := sbs) (len := len) _ ci
        (min 8 (dst.length - ci * 8)) (by omega) (by omega) (word_left_rare c a ha he ci hlast hr)
      rw [writeAt_X (ci * 8) (min 8 (dst.length - ci * 8)) _ (by omega) hl hb]
    · simp only [fixRemainders, if_pos hlast, if_neg hr, Option.bind_some, getElem?_of_lt _ _ hnext, if_neg ha8,
        Option.map_some]
      rw [setIdx7_toBE _ _ (or_lt_256 (shr_lt _ (and_lt_left _ (getD_lt_of_bytes c.hsrc _))) (by decide))]
      obtain ⟨hl, hb⟩ := toBE_take_spec (dst := dst) (dbs := dbs) (src := src) (sbs := sbs) (len := len) _ ci
        (min 8 (dst.length - ci * 8)) (by omega) (by omega) (word_left_mid c a ha he ci hlast hr)
      rw [writeAt_X (ci * 8) (min 8 (dst.length - ci * 8)) _ (by omega) hl hb]
  · simp only [fixRemainders, if_neg hlast, Option.map_some]
    obtain ⟨hl, hb⟩ := toBE_take_spec (dst := dst) (dbs := dbs) (src := src) (sbs := sbs) (len := len) _ ci
      (min 8 (dst.length - ci * 8)) (by omega) (by omega) (word_left_last c a ha he ci (by omega))
    rw [writeAt_X (ci * 8) (min 8 (dst.length - ci * 8)) _ (by omega) hl hb]

theorem currRemainder_right (c : Ctx dst dbs src sbs len n) (a : Nat) (ha8 : a < 8) (ci : Nat) (hci : ci < n) :
    currRemainder src sbs len n ci (.right a) = some (some (remAt src sbs len n a ci)) := by
  have h7 : ci * 8 + 7 < src.length := by have := c.src_len ci hci; omega
  unfold currRemainder remAt
  simp only [if_neg (show ¬ (8 ≤ a) by omega), lastChunkMask_eq sbs len n c.n_pos c.used_s, Option.map_some,
    getElem?_of_lt _ _ h7]
  by_cases hl : ci = n - 1
  · simp only [if_pos hl, Option.bind_some]
  · simp only [if_neg hl, Option.bind_some]

theorem word_right_lt (x y z a : Nat) (hx : x < 2 ^ 64) (hy : y < 2 ^ 64) : (x &&& z) >>> a ||| (y &&& z') < 2 ^ 64 := by
  apply Nat.or_lt_two_pow
  · exact Nat.lt_of_le_of_lt (Nat.shiftRight_le _ _) (Nat.lt_of_le_of_lt Nat.and_le_left hx)
  · exact Nat.lt_of_le_of_lt Nat.and_le_left hy

theorem chunkStep_right (c : Ctx dst dbs src sbs len n) (a : Nat) (ha : 0 < a) (he : dbs = sbs + a) (ci : Nat) (hci : ci < n)
    (hlive : ci * 8 < (dbs + len + 7) / 8) :
    chunkStep dbs src sbs len (.right a) n ((dbs + len + 7) / 8) ci
        { dst := X dst dbs src sbs len (ci * 8), doff := ci * 8, prev := prevAt src sbs len n (.right a) ci } =
      some ({ dst := X dst dbs src sbs len (ci * 8 + min 8 (dst.length - ci * 8)),
              doff := ci * 8 + min 8 (dst.length - ci * 8), prev := some (remAt src sbs len n a ci) },
            decide ((dbs + len + 7) / 8 ≤ ci * 8 + min 8 (dst.length - ci * 8))) := by
  have hD := c.hD
  have hd := c.hd
  have hoD : ci * 8 ≤ dst.length := by omega
  have ha64 : ¬ (64 ≤ a) := by omega
  obtain ⟨m, hm, hsc⟩ := chunkMasks_eff (X dst dbs src sbs len (ci * 8)) (ci * 8) (word src (ci * 8)) (.right a)
    (word_lt src c.hsrc _) dbs sbs len n ci c.hs c.hd c.n_pos c.used_s c.used_d
  unfold chunkStep
  simp only [currRemainder_right c a (by omega) ci hci, Option.bind_some, if_pos (c.src_len ci hci), hm, hsc]
  simp only [shiftedChunk, if_neg ha64, Option.map_some, Option.bind_some, word_X _ hoD, length_X _ hoD, fixRemainders,
    prevAt]
  by_cases h0 : ci = 0
  · simp only [if_pos h0]
    have hw := word_right c a ha he ci hci
    simp only [if_pos h0, Nat.zero_shiftLeft, Nat.or_zero] at hw
    obtain ⟨hl, hb⟩ := toBE_take_spec (dst := dst) (dbs := dbs) (src := src) (sbs := sbs) (len := len) _ ci
      (min 8 (dst.length - ci * 8)) (by omega) (by omega) hw
    rw [writeAt_X (ci * 8) (min 8 (dst.length - ci * 8)) _ (by omega) hl hb]
  · simp only [if_neg h0]
    rw [setIdx0_toBE _ _ (word_right_lt _ _ _ _ (word_lt src c.hsrc _) (word_lt dst c.hdst _)) (remAt_lt ..)]
    have hw := word_right c a ha he ci hci
    simp only [if_neg h0] at hw
    obtain ⟨hl, hb⟩ := toBE_take_spec (dst := dst) (dbs := dbs) (src := src) (sbs := sbs) (len := len) _ ci
      (min 8 (dst.length - ci * 8)) (by omega) (by omega) hw
    rw [writeAt_X (ci * 8) (min 8 (dst.length - ci * 8)) _ (by omega) hl hb]

theorem shiftOf_cases (dbs sbs : Nat) :
    (dbs = sbs ∧ shiftOf dbs sbs = .none) ∨ (∃ a, 0 < a ∧ sbs = dbs + a ∧ shiftOf dbs sbs = .left a) ∨
    (∃ a, 0 < a ∧ dbs = sbs + a ∧ shiftOf dbs sbs = .right a) := by
  unfold shiftOf
  by_cases h1 : dbs = sbs
  · left; simp [h1]
  · by_cases h2 : dbs < sbs
    · right; left; exact ⟨sbs - dbs, by omega, by omega, by simp [h1, h2]⟩
    · right; right; exact ⟨dbs - sbs, by omega, by omega, by simp [h1, h2]⟩

theorem chunkStep_inv (c : Ctx dst dbs src sbs len n) (ci : Nat) (hci : ci < n) (hlive : ci * 8 < (dbs + len + 7) / 8) :
    chunkStep dbs src sbs len (shiftOf dbs sbs) n ((dbs + len + 7) / 8) ci (inv dst dbs src sbs len n ci) =
      some ({ dst := X dst dbs src sbs len (ci * 8 + min 8 (dst.length - ci * 8)),
              doff := ci * 8 + min 8 (dst.length - ci * 8),
              prev := prevAt src sbs len n (shiftOf dbs sbs) (ci + 1) },
            decide ((dbs + len + 7) / 8 ≤ ci * 8 + min 8 (dst.length - ci * 8))) := by
  unfold inv
  rcases shiftOf_cases dbs sbs with ⟨he, hs⟩ | ⟨a, ha, he, hs⟩ | ⟨a, ha, he, hs⟩
  · rw [hs]; exact chunkStep_none c he ci hci hlive
  · rw [hs]; exact chunkStep_left c a ha he ci hci hlive
  · rw [hs, chunkStep_right c a ha he ci hci hlive]
    simp [prevAt]

/-- what the loop leaves behind: either it broke off with every byte up to `bytes_to_write` final, or it ran
through all chunks and one more byte is due -/
def Post (dst : List Nat) (dbs : Nat) (src : List Nat) (sbs len n : Nat) (st : LoopSt) : Prop :=
  (st.dst = X dst dbs src sbs len st.doff ∧ (dbs + len + 7) / 8 ≤ st.doff) ∨
  (st = inv dst dbs src sbs len n n ∧ n * 8 < (dbs + len + 7) / 8)

theorem chunkLoop_spec (c : Ctx dst dbs src sbs len n) : ∀ fuel ci, fuel + ci = n → ci * 8 < (dbs + len + 7) / 8 →
    ∃ st, chunkLoop dbs src sbs len (shiftOf dbs sbs) n ((dbs + len + 7) / 8) fuel ci (inv dst dbs src sbs len n ci) = some st ∧
      Post dst dbs src sbs len n st := by
  intro fuel
  induction fuel with
  | zero =>
    intro ci h hlive
    have : ci = n := by omega
    subst this
    exact ⟨_, rfl, Or.inr ⟨rfl, hlive⟩⟩
  | succ fuel ih =>
    intro ci h hlive
    have hD := c.hD
    simp only [chunkLoop, chunkStep_inv c ci (by omega) hlive, Option.bind_some]
    by_cases hb : (dbs + len + 7) / 8 ≤ ci * 8 + min 8 (dst.length - ci * 8)
    · simp only [hb, decide_true, if_true]
      exact ⟨_, rfl, Or.inl ⟨rfl, hb⟩⟩
    · simp only [hb, decide_false, Bool.false_eq_true, if_false]
      have e : ci * 8 + min 8 (dst.length - ci * 8) = (ci + 1) * 8 := by omega
      rw [e]
      exact ih (ci + 1) (by omega) (by omega)

theorem set_X (o v : Nat) (ho : o < dst.length) (hv : (memcpySpec dst dbs src sbs len)[o]? = some v) :
    setIdx (X dst dbs src sbs len o) o v = X dst dbs src sbs len (o + 1) := by
  apply List.ext_getElem?
  intro i
  unfold setIdx
  rw [List.getElem?_set, getElem?_X o i (by omega), getElem?_X (o + 1) i (by omega), length_X o (by omega)]
  by_cases h1 : o = i
  · subst h1; simp [ho, hv]
  · rw [if_neg h1]
    by_cases h2 : i < o
    · rw [if_pos h2, if_pos (by omega)]
    · rw [if_neg h2, if_neg (by omega)]

theorem finalByte_spec (c : Ctx dst dbs src sbs len n) (st : LoopSt) (hp : Post dst dbs src sbs len n st) :
    finalByte sbs len (shiftOf dbs sbs) n ((dbs + len + 7) / 8) st = some (memcpySpec dst dbs src sbs len) := by
  have hD := c.hD; have hn := c.hn; have hs := c.hs; have hd := c.hd; have hlen := c.hlen
  rcases hp with ⟨h1, h2⟩ | ⟨h1, h2⟩
  · unfold finalByte
    rw [if_neg (by omega), h1, X_of_ge c.hdst _ h2]
  · subst h1
    have hlt : sbs < dbs := by omega
    have hsh : shiftOf dbs sbs = .right (dbs - sbs) := by
      unfold shiftOf; rw [if_neg (by omega), if_neg (by omega)]
    have hn0 : ¬ (n = 0) := by omega
    have hnD : n * 8 < dst.length := by omega
    unfold finalByte inv
    simp only [hsh, prevAt, if_neg hn0]
    have e1 : (dbs + len + 7) / 8 - n * 8 = 1 := by omega
    rw [if_pos h2, if_neg (by omega)]
    rw [if_neg (by omega), if_neg (by omega), if_neg (by omega), if_neg (by omega)]
    have hx : n * 8 < (X dst dbs src sbs len (n * 8)).length := by rw [length_X _ (by omega)]; exact hnD
    rw [getElem?_of_lt _ _ hx, Option.map_some, getD_X_ge _ _ (by omega) (Nat.le_refl _)]
    rw [set_X (n * 8) _ hnD, X_of_ge c.hdst _ (by omega)]
    rw [getElem?_memcpySpec _ hnD]
    congr 1
    apply byte_ext (byteOfBits_lt _ _)
      (or_lt_256 (and_lt_left _ (getD_lt_of_bytes c.hdst _)) (and_lt_left _ (remAt_lt ..)))
    intro u hu
    rw [testBit_byteOfBits, byte_right_final c (dbs - sbs) (by omega) (by omega) h2 u hu]
    simp only [hu, decide_true, Bool.true_and]
    congr 1; omega

/-- **mirror = specification** under the contract -/
theorem bitwiseMemcpy_spec (hdst : Bytes dst) (hsrc : Bytes src)
    (g : MemcpyGuard dst.length dbs src.length sbs len) :
    bitwiseMemcpy dst dbs src sbs len = some (memcpySpec dst dbs src sbs len) := by
  by_cases h0 : len = 0
  · subst h0
    unfold bitwiseMemcpy memcpySpec
    rw [if_pos rfl]
    have : memcpyBit dst dbs src sbs 0 = bitOf dst := by
      funext p; unfold memcpyBit; rw [if_neg (by omega)]
    rw [this, bytesOfBits_bitOf dst hdst]
  · rcases g with g | ⟨g1, g2, g3, g4⟩
    · exact absurd g h0
    · have c : Ctx dst dbs src sbs len (src.length / 8) :=
        ⟨hdst, hsrc, g1, g2, by omega, g3, rfl, g4⟩
      unfold bitwiseMemcpy
      rw [if_neg h0]
      simp only []
      have hX : ({ dst := dst, doff := 0, prev := none } : LoopSt) = inv dst dbs src sbs len (src.length / 8) 0 := by
        unfold inv
        rw [Nat.zero_mul, X_zero]
        congr 1
        rcases shiftOf_cases dbs sbs with ⟨_, hs⟩ | ⟨a, _, _, hs⟩ | ⟨a, _, _, hs⟩ <;> rw [hs] <;> simp [prevAt]
      rw [hX]
      obtain ⟨st, hst, hp⟩ := chunkLoop_spec c (src.length / 8) 0 (by omega) (by omega)
      rw [hst, Option.bind_some]
      exact finalByte_spec c st hp

end Nomt.BitOps
