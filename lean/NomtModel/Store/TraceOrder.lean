import NomtModel.Store.Placement
/-!
C04 / C03 order monitor: the fsync discipline of one state-changing operation, evaluated on the REAL I/O trace
(Begin and End of every mutating file operation, from the cfg(nomt_verif) hook).

The crash theorems (`Store/Crash*.lean`, Props C03 / C04) assume of a sync trace `pre ++ [meta write, meta fsync] ++ post`

* `hflushed` — when the meta page is written nothing issued before is still volatile,
* post-meta events are hash-table page writes, the WAL truncation (only once every table page is durable) and pruning of
  the rollback log,

and these clauses speak about order only, not about contents.  This monitor decides them on the concurrent trace with the
precise rule for "durable": an effect is covered by an fsync of its file iff it COMPLETED (End) before that fsync was
ISSUED (Begin) and the fsync completed; creates / unlinks are covered by a directory fsync issued after them.

`Store/TraceOrderLemmas.lean` links acceptance to the sequential disk model: the state `(durable, volatile)` the monitor
tracks is the state `NomtDisk.run` reaches on a sequential re-ordering of the same events.
-/
namespace Nomt.Store

/-- one line of the trace: phase (Begin / End), the event, the thread that reported it -/
structure IoEv2 where
  isBegin : Bool
  ev : IoEv
  thread : String
deriving Repr

/-- lines `<idx> Begin|End <Kind> <file> <offset> <len> <site> t<thread>` -/
def parseIoTrace2 (s : String) : List IoEv2 :=
  (s.splitOn "\n").filterMap (fun l =>
    match (l.splitOn " ").filter (· ≠ "") with
    | [_, ph, kind, file, off, len, site, th] =>
      if ph == "Begin" || ph == "End" then
        match off.toNat?, len.toNat? with
        | some o, some n => some { isBegin := ph == "Begin", ev := { kind := kind, file := file, offset := o, len := n, site := site }, thread := th }
        | _, _ => none
      else none
    | _ => none)

/-- an issued effect that no completed fsync covers yet -/
structure Pend where
  id : Nat            -- position of its Begin line in the trace
  kind : String
  file : String       -- the file it belongs to; `dir` for creates / unlinks
  name : String       -- the file named by the event (for messages)
  offset : Nat
  site : String
  ended : Bool
deriving Repr

/-- an fsync that was issued and has not completed: it will cover exactly `covers` -/
structure InFlight where
  file : String
  thread : String
  covers : List Nat
deriving Repr

structure OrderSt where
  pend : List Pend := []
  syncs : List InFlight := []
  /-- 0: before the switch-over (meta write) was issued · 1: issued, not yet durable · 2: durable -/
  phase : Nat := 0
  metaId : Nat := 0
  walWritten : Bool := false
  -- statistics for the evidence
  effects : Nat := 0
  fsyncs : Nat := 0
  durableAtSwitch : Nat := 0
  overlapped : Nat := 0        -- effects that were in flight when an fsync of their file was issued
  htWrites : Nat := 0
  postPrunes : Nat := 0
deriving Repr

def isDataKind (k : String) : Bool := k == "Write" || k == "Append" || k == "SetLen"
def isDirKind (k : String) : Bool := k == "Create" || k == "Unlink"

def descr (p : Pend) : String := s!"{p.kind} {p.name} @{p.offset} (site {p.site})"

/-- mark the oldest matching un-ended effect as completed -/
def endEffect (e : IoEv) : List Pend → List Pend
  | [] => []
  | p :: rest =>
    if !p.ended && p.kind == e.kind && p.name == e.file && (p.offset == e.offset || e.kind == "SetLen") then
      { p with ended := true } :: rest
    else p :: endEffect e rest

/-- remove the most recently issued in-flight sync of this file and thread; returns what it covers -/
def takeSync (file thread : String) : List InFlight → Option (List Nat × List InFlight)
  | [] => none
  | s :: rest =>
    match takeSync file thread rest with
    | some (c, rest') => some (c, s :: rest')
    | none => if s.file == file && s.thread == thread then some (s.covers, rest) else none

def beginData (st : OrderSt) (id : Nat) (e : IoEv) : Except String OrderSt := do
  let p : Pend := { id := id, kind := e.kind, file := e.file, name := e.file, offset := e.offset, site := e.site, ended := false }
  let st := { st with effects := st.effects + 1 }
  if e.file == "meta" then
    if st.phase != 0 then throw s!"order: a write of the meta page after the switch-over of the same operation, or during recovery (site {e.site})"
    match st.pend with
    | q :: _ =>
      throw s!"order: the switch-over record (meta page) is written while {st.pend.length} earlier effect(s) are not covered by a completed fsync, first: {descr q}"
    | [] => pure { st with phase := 1, metaId := id, pend := [p], durableAtSwitch := st.effects - 1 }
  else if st.phase == 1 then
    throw s!"order: {descr p} is issued between the write of the meta page and its fsync"
  else if e.file == "ht" then
    if st.phase != 2 then throw s!"order: hash-table page {descr p} is written before the switch-over is durable"
    else if !st.walWritten then throw s!"order: hash-table page {descr p} is written although no redo log was written before the switch-over"
    else pure { st with pend := st.pend ++ [p], htWrites := st.htWrites + 1 }
  else if e.file == "wal" then
    if st.phase == 2 then
      match st.pend.find? (fun q => q.file == "ht") with
      | some q => throw s!"order: the redo log is truncated while a hash-table page is not durable: {descr q}"
      | none => pure { st with pend := st.pend ++ [p] }
    else pure { st with pend := st.pend ++ [p], walWritten := st.walWritten || e.kind == "Append" }
  else if e.file == "ln" || e.file == "bbn" then
    if st.phase == 2 && e.kind == "Write" then throw s!"order: {descr p} is issued after the switch-over (the new state cannot depend on it, the old one is gone)"
    else pure { st with pend := st.pend ++ [p] }
  else pure { st with pend := st.pend ++ [p] }

def beginDirOp (st : OrderSt) (id : Nat) (e : IoEv) : Except String OrderSt := do
  let p : Pend := { id := id, kind := e.kind, file := "dir", name := e.file, offset := 0, site := e.site, ended := true }
  if st.phase == 1 then throw s!"order: {descr p} is issued between the write of the meta page and its fsync"
  if e.kind == "Unlink" && st.phase == 0 then throw s!"order: {descr p} before the switch-over"
  pure { st with pend := st.pend ++ [p], effects := st.effects + 1, postPrunes := st.postPrunes + (if e.kind == "Unlink" then 1 else 0) }

/-- one trace line; `id` is its position -/
def orderStep (st : OrderSt) (id : Nat) (l : IoEv2) : Except String OrderSt :=
  let e := l.ev
  if l.isBegin then
    if isDataKind e.kind then beginData st id e
    else if isDirKind e.kind then beginDirOp st id e
    else if e.kind == "Fsync" then
      let cov := st.pend.filter (fun p => p.file == e.file && p.ended)
      let inflight := (st.pend.filter (fun p => p.file == e.file && !p.ended)).length
      .ok { st with syncs := st.syncs ++ [{ file := e.file, thread := l.thread, covers := cov.map (·.id) }],
                    fsyncs := st.fsyncs + 1, overlapped := st.overlapped + inflight }
    else if e.kind == "DirSync" then
      let cov := st.pend.filter (fun p => p.file == "dir")
      .ok { st with syncs := st.syncs ++ [{ file := "dir", thread := l.thread, covers := cov.map (·.id) }], fsyncs := st.fsyncs + 1 }
    else .ok st
  else
    if isDataKind e.kind then .ok { st with pend := endEffect e st.pend }
    else if e.kind == "Fsync" || e.kind == "DirSync" then
      let f := if e.kind == "DirSync" then "dir" else e.file
      match takeSync f l.thread st.syncs with
      | none => .ok st     -- completion of an fsync issued before the trace started
      | some (cov, rest) =>
        let pend := st.pend.filter (fun p => !cov.contains p.id)
        let phase := if st.phase == 1 && f == "meta" && cov.contains st.metaId then 2 else st.phase
        .ok { st with pend := pend, syncs := rest, phase := phase }
    else .ok st

def orderRun : OrderSt → Nat → List IoEv2 → Except String OrderSt
  | st, _, [] => .ok st
  | st, id, l :: rest =>
    match orderStep st id l with
    | .error e => .error e
    | .ok st' => orderRun st' (id + 1) rest

/-- the whole operation: the discipline above, and the operation does not return with the switch-over record volatile -/
def checkOrder (tr : List IoEv2) : Except String OrderSt :=
  match orderRun {} 0 tr with
  | .error e => .error e
  | .ok st =>
    if st.phase == 1 then .error "order: the operation returned while the meta page it wrote is not covered by a completed fsync"
    else .ok st

/-- the recovery performed by `open` on a crashed directory: the switch-over is durable already (or never happened), so
the discipline is that of the post-switch-over phase — hash-table pages are redone from the redo log, and the log is
dropped only once every redone page is covered by a completed fsync of the table (`T3_2` / `T3_2d`: the order without
that fsync is not idempotent under power loss); the meta page is not written. -/
def checkRecoveryOrder (tr : List IoEv2) : Except String OrderSt :=
  orderRun { phase := 2, walWritten := true } 0 tr

end Nomt.Store
