import NomtModel.Store.ConcCrash
/-!
# The crash theorem with the rollback log and WAL truncations before the switch-over, for concurrent traces

Same bridge as `Store/ConcCrash.lean`, instantiated with the clauses of `sync_crash_atomic_log_pending` (T4.2c):

* before the switch-over `AllowedPreL'` — as `AllowedPre`, plus `walSet none` (the real `wal.write` first sets the length
  of the WAL file to 0: the trace line `SetLen wal 0 wal.write.set_len`) and appends to the rollback log beyond the old
  live range;
* after it `AllowedPost`, the truncation clause, plus pruning of the rollback log outside the new live range.
-/
namespace NomtDisk
variable {Content MetaRec WalRec LogRec TreeAbs : Type}
variable (P : Params Content MetaRec WalRec TreeAbs) (L : LogParams MetaRec LogRec)

/-- acceptance of a post-switch-over effect on the durable disk `d` (`EvPostOKL` of `Store/CrashLog.lean`) -/
def okPostL (dA : Disk Content MetaRec WalRec LogRec) (m1 : MetaRec) (w1 : WalRec)
    (d : Disk Content MetaRec WalRec LogRec) : Eff Content MetaRec WalRec LogRec → Prop
  | .logSet l => absLog L m1 l = absLog L m1 dA.log
  | e => okPost P w1 d e

theorem postG_postOKL (dA : Disk Content MetaRec WalRec LogRec) (m1 : MetaRec) (w1 : WalRec)
    (tr : List (Ev Content MetaRec WalRec LogRec)) :
    ∀ s : Exec Content MetaRec WalRec LogRec, PostG (okPostL P L dA m1 w1) s tr → PostOKL P L dA m1 w1 s tr := by
  induction tr with
  | nil => intro s _; trivial
  | cons ev tr ih =>
    intro s h
    cases ev with
    | eff e =>
      refine ⟨?_, ih _ h.2⟩
      cases e with
      | logSet l => exact h.1
      | page f b c => exact h.1
      | setMeta m => exact h.1
      | walSet w => cases w <;> exact h.1
    | fsync f => exact ⟨trivial, ih _ h⟩

theorem fullHt_logSet (w1 : WalRec) (d : Disk Content MetaRec WalRec LogRec) (l : List LogRec)
    (h : FullHt P w1 d) : FullHt P w1 (applyEff d (.logSet l)) := h

theorem okPostL_stab (dA : Disk Content MetaRec WalRec LogRec) (m1 : MetaRec) (w1 : WalRec)
    (d d' : Disk Content MetaRec WalRec LogRec) (e e' : Eff Content MetaRec WalRec LogRec)
    (h : okPostL P L dA m1 w1 d e) (h' : okPostL P L dA m1 w1 d' e') : okPostL P L dA m1 w1 (applyEff d e') e := by
  cases e with
  | logSet l => exact h
  | page f b c => exact h
  | setMeta m => exact h
  | walSet w =>
    cases w with
    | some w => exact h
    | none =>
      cases e' with
      | logSet l' => exact fullHt_logSet P w1 d l' h
      | page f b c => exact okPost_stab P w1 d d' (.walSet none) (.page f b c) h h'
      | setMeta m => exact okPost_stab P w1 d d' (.walSet none) (.setMeta m) h h'
      | walSet w' => exact okPost_stab P w1 d d' (.walSet none) (.walSet w') h h'

/-- the content clause of a post-switch-over effect, with the rollback log -/
def contPostL (dA : Disk Content MetaRec WalRec LogRec) (m1 : MetaRec) (w1 : WalRec)
    (s : CState Content MetaRec WalRec LogRec) : Eff Content MetaRec WalRec LogRec → Prop
  | .logSet l => absLog L m1 l = absLog L m1 dA.log
  | e => contPost P w1 s e

theorem acc_of_ord_contL (d0 dA : Disk Content MetaRec WalRec LogRec) (m1 : MetaRec) (w1 : WalRec) (ph : Nat)
    (s : CState Content MetaRec WalRec LogRec) (ev : CEv Content MetaRec WalRec LogRec)
    (ho : ordChk ph s ev) (hc : contChk (AllowedPreL' P L d0) (contPostL P L dA m1 w1) ph s ev) :
    accChk (AllowedPreL' P L d0) (okPostL P L dA m1 w1) ph s ev := by
  cases ev with
  | effBegin id e =>
    cases hm : e.isMeta with
    | true => simpa [accChk, ordChk, hm] using ho
    | false =>
      have ho' := ho
      simp only [ordChk, hm, Bool.false_eq_true, if_false] at ho
      simp only [contChk, hm, true_implies] at hc
      simp only [accChk, hm, Bool.false_eq_true, if_false]
      obtain ⟨h1, _, _, _⟩ := ho
      rcases h1 with rfl | rfl
      · exact Or.inl ⟨rfl, hc.1 rfl⟩
      · right
        refine ⟨rfl, ?_⟩
        have hc2 := hc.2 rfl
        cases e with
        | logSet l => exact hc2
        | page f b c =>
          have hcc : contChk (AllowedPre P d0) (contPost P w1) 2 s (.effBegin id (.page f b c)) :=
            fun _ => ⟨fun h => absurd h (by omega), fun _ => hc2⟩
          have := acc_of_ord_cont P d0 w1 2 s _ ho' hcc
          simp only [accChk, hm, Bool.false_eq_true, if_false] at this
          rcases this with h | h
          · omega
          · exact h.2
        | setMeta m => cases hm
        | walSet w =>
          have hcc : contChk (AllowedPre P d0) (contPost P w1) 2 s (.effBegin id (.walSet w)) :=
            fun _ => ⟨fun h => absurd h (by omega), fun _ => hc2⟩
          have := acc_of_ord_cont P d0 w1 2 s _ ho' hcc
          simp only [accChk, hm, Bool.false_eq_true, if_false] at this
          rcases this with h | h
          · omega
          · cases w <;> exact h.2
  | effEnd _ => trivial
  | fsyncBegin _ _ => trivial
  | fsyncEnd _ _ => trivial

/-- the clauses of T4.1 imply the clauses of T4.2c -/
theorem contChk_weaken (d0 dA : Disk Content MetaRec WalRec LogRec) (m1 : MetaRec) (w1 : WalRec) (ph : Nat)
    (s : CState Content MetaRec WalRec LogRec) (ev : CEv Content MetaRec WalRec LogRec)
    (h : contChk (AllowedPre P d0) (contPost P w1) ph s ev) :
    contChk (AllowedPreL' P L d0) (contPostL P L dA m1 w1) ph s ev := by
  cases ev with
  | effBegin id e =>
    intro hm
    obtain ⟨h0, h2⟩ := h hm
    constructor
    · intro hp
      have := h0 hp
      cases e with
      | page f pn c => exact this
      | walSet w => cases w with
        | none => trivial
        | some w => exact this
      | setMeta m => exact this
      | logSet l => exact absurd this (by simp [AllowedPre])
    · intro hp
      have := h2 hp
      cases e with
      | logSet l => exact absurd this.1 (by simp [AllowedPost])
      | page f pn c => exact this
      | walSet w => exact this
      | setMeta m => exact this
  | effEnd _ => trivial
  | fsyncBegin _ _ => trivial
  | fsyncEnd _ _ => trivial

/-- **the crash theorem with the rollback log for concurrent traces, started in a state with pending effects** (helper
form of `Nomt.C04.T4_9b…`): `s0` is the concurrent state the operation starts in — durable disk `s0.dur`, the old state —
whose pending effects satisfy `AllowedPreL'` (e.g. the un-synced WAL truncation of the previous sync). -/
theorem conc_sync_crash_atomic_log_from
    (s0 : CState Content MetaRec WalRec LogRec)
    (hvol0s : ∀ e ∈ s0.volEffs, AllowedPreL' P L s0.dur e)
    (hinert : ∀ b, htView P s0.dur b = s0.dur.pages File.fHt b)
    (cpre crest : List (CEv Content MetaRec WalRec LogRec)) (id : Nat) (m1 : MetaRec) (w1 : WalRec)
    (hord : cAll ordChk 0 s0 (cpre ++ CEv.effBegin id (.setMeta m1) :: crest))
    (hcont : cAll (contChk (AllowedPreL' P L s0.dur) (contPostL P L (crun s0 cpre).dur m1 w1)) 0 s0
      (cpre ++ CEv.effBegin id (.setMeta m1) :: crest))
    (hwal : (crun s0 cpre).dur.wal = some w1)
    (hseq : P.walSeqn w1 = P.seqn m1) :
    (∀ cp, cp <+: cpre ++ CEv.effBegin id (.setMeta m1) :: crest →
       ∀ img, IsCImage (crun s0 cp) img →
         absOfL P L img = absOfL P L s0.dur ∨
         absOfL P L img = (absNew P (crun s0 cpre).dur m1 w1, absLog L m1 (crun s0 cpre).dur.log)) ∧
    (phRun 0 s0 (cpre ++ CEv.effBegin id (.setMeta m1) :: crest) = 2 →
       ∀ img, IsCImage (crun s0 (cpre ++ CEv.effBegin id (.setMeta m1) :: crest)) img →
         absOfL P L img = (absNew P (crun s0 cpre).dur m1 w1, absLog L m1 (crun s0 cpre).dur.log)) := by
  have hacc : cAll (accChk (AllowedPreL' P L s0.dur) (okPostL P L (crun s0 cpre).dur m1 w1)) 0 s0
      (cpre ++ CEv.effBegin id (.setMeta m1) :: crest) :=
    cAll_mono _ _ (fun ph s ev h => acc_of_ord_contL P L s0.dur _ m1 w1 ph s ev h.1 h.2) _ _ _
      (cAll_and _ _ _ _ _ hord hcont)
  obtain ⟨hpre, hfl, hdur, hshape⟩ :=
    accepted_bridge_from (AllowedPreL' P L s0.dur) (okPostL P L (crun s0 cpre).dur m1 w1)
      (okPostL_stab P L _ m1 w1) s0 hvol0s cpre crest id m1 hacc
  have hwal' : (run ⟨s0.dur, []⟩ (linFrom s0 cpre)).dur.wal = some w1 := by rw [hdur]; exact hwal
  have hvol0 : ∀ e ∈ ([] : List (Eff Content MetaRec WalRec LogRec)), e = Eff.walSet none := fun e he => by cases he
  have key : ∀ cp, cp <+: cpre ++ CEv.effBegin id (.setMeta m1) :: crest →
      ∀ img, IsCImage (crun s0 cp) img →
        (absOfL P L img = absOfL P L s0.dur ∨
          absOfL P L img = (absNew P (crun s0 cpre).dur m1 w1, absLog L m1 (crun s0 cpre).dur.log)) ∧
        (phRun 0 s0 cp = 2 →
          absOfL P L img = (absNew P (crun s0 cpre).dur m1 w1, absLog L m1 (crun s0 cpre).dur.log)) := by
    intro cp hcp img himg
    rw [isCImage_linFrom] at himg
    have hs := hshape cp hcp
    generalize linFrom s0 cp = l at hs himg
    generalize phRun 0 s0 cp = ph at hs
    cases hs with
    | before _ h =>
      exact ⟨Or.inl (phaseAL'_images P L s0.dur hinert [] hvol0 l h img himg), fun h0 => by omega⟩
    | issued =>
      have h41 := (sync_crash_atomic_log_pending P L s0.dur hinert [] hvol0 (linFrom s0 cpre) [] m1 w1 hpre hfl hwal' hseq
        trivial).1 (linFrom s0 cpre ++ [Ev.eff (.setMeta m1)]) ⟨[Ev.fsync File.fMeta], by simp⟩ img himg
      rw [hdur] at h41
      exact ⟨h41, fun h0 => by omega⟩
    | durable post h =>
      have hpost : PostOKL P L (run ⟨s0.dur, []⟩ (linFrom s0 cpre)).dur m1 w1
          ⟨applyEff (run ⟨s0.dur, []⟩ (linFrom s0 cpre)).dur (.setMeta m1), []⟩ post := by
        rw [hdur]; exact postG_postOKL P L _ m1 w1 post _ h
      have h41 := (sync_crash_atomic_log_pending P L s0.dur hinert [] hvol0 (linFrom s0 cpre) post m1 w1 hpre hfl hwal' hseq
        hpost).2 img himg
      rw [hdur] at h41
      exact ⟨Or.inr h41, fun _ => h41⟩
  exact ⟨fun cp hcp img himg => (key cp hcp img himg).1,
    fun hph img himg => (key _ (List.prefix_refl _) img himg).2 hph⟩

/-- **the crash theorem with the rollback log for concurrent traces** (helper form of `Nomt.C04.T4_9…`) -/
theorem conc_sync_crash_atomic_log
    (d0 : Disk Content MetaRec WalRec LogRec)
    (hinert : ∀ b, htView P d0 b = d0.pages File.fHt b)
    (cpre crest : List (CEv Content MetaRec WalRec LogRec)) (id : Nat) (m1 : MetaRec) (w1 : WalRec)
    (hord : cAll ordChk 0 (cinit d0) (cpre ++ CEv.effBegin id (.setMeta m1) :: crest))
    (hcont : cAll (contChk (AllowedPreL' P L d0) (contPostL P L (crun (cinit d0) cpre).dur m1 w1)) 0 (cinit d0)
      (cpre ++ CEv.effBegin id (.setMeta m1) :: crest))
    (hwal : (crun (cinit d0) cpre).dur.wal = some w1)
    (hseq : P.walSeqn w1 = P.seqn m1) :
    (∀ cp, cp <+: cpre ++ CEv.effBegin id (.setMeta m1) :: crest →
       ∀ img, IsCImage (crun (cinit d0) cp) img →
         absOfL P L img = absOfL P L d0 ∨
         absOfL P L img = (absNew P (crun (cinit d0) cpre).dur m1 w1, absLog L m1 (crun (cinit d0) cpre).dur.log)) ∧
    (phRun 0 (cinit d0) (cpre ++ CEv.effBegin id (.setMeta m1) :: crest) = 2 →
       ∀ img, IsCImage (crun (cinit d0) (cpre ++ CEv.effBegin id (.setMeta m1) :: crest)) img →
         absOfL P L img = (absNew P (crun (cinit d0) cpre).dur m1 w1, absLog L m1 (crun (cinit d0) cpre).dur.log)) :=
  conc_sync_crash_atomic_log_from P L (cinit d0) (fun e he => by cases he) hinert cpre crest id m1 w1 hord hcont hwal hseq

/-- **recovery is idempotent under interruption, for concurrent recovery traces** (helper form of `Nomt.C03.T3_3…`):
`d` is an image whose WAL `w` carries the sequence number of its meta page (so recovery redoes it).  A concurrent
recovery trace started on `d` that passes the order discipline of phase 2 and whose effects satisfy the content clauses
(hash-table writes replay `w`, the WAL is truncated only when the table as the process sees it holds every diff, the
rollback log is only pruned outside the live range): EVERY image of EVERY prefix abstracts to the state of `d`, and its
WAL is `d`'s or empty. -/
theorem conc_recovery_idempotent
    (d : Disk Content MetaRec WalRec LogRec) (w : WalRec) (hw : d.wal = some w) (hs : P.walSeqn w = P.seqn d.mt)
    (ct : List (CEv Content MetaRec WalRec LogRec))
    (hord : cAll ordChk 2 (cinit d) ct)
    (hcont : cAll (contChk (AllowedPreL' P L d) (contPostL P L d d.mt w)) 2 (cinit d) ct) :
    ∀ cp, cp <+: ct → ∀ img, IsCImage (crun (cinit d) cp) img →
      absOfL P L img = absOfL P L d ∧ (img.wal = d.wal ∨ img.wal = none) := by
  have hacc : cAll (accChk (AllowedPreL' P L d) (okPostL P L d d.mt w)) 2 (cinit d) ct :=
    cAll_mono _ _ (fun ph s ev h => acc_of_ord_contL P L d d d.mt w ph s ev h.1 h.2) _ _ _
      (cAll_and _ _ _ _ _ hord hcont)
  intro cp hcp img himg
  rw [isCImage_lin] at himg
  have hq := postG_postOKL P L d d.mt w _ _
    (accepted_bridge_phase2 (AllowedPreL' P L d) (okPostL P L d d.mt w) (okPostL_stab P L d d.mt w) d ct hacc cp hcp)
  have hg : GoodC P d d.mt w d := ⟨rfl, fun _ _ _ => rfl, fun _ => Or.inl rfl, Or.inl hw⟩
  have h := phaseCL_images P L d d.mt w hs d hg rfl (lin d cp) hq img himg
  have h0 : absOf P d = absNew P d d.mt w := goodC_abs P d d.mt w hs d hg
  refine ⟨?_, by rw [hw]; exact h.2⟩
  rw [h.1]; simp only [absOfL, h0]

/-- … and when the WAL of `d` is absent or stale (recovery only truncates it and cleans the rollback log) no order
clause is needed at all: whatever the interleaving, every image of every prefix abstracts to the state of `d`. -/
theorem conc_recovery_idempotent_stale
    (d : Disk Content MetaRec WalRec LogRec) (hstale : ∀ w, d.wal = some w → P.walSeqn w ≠ P.seqn d.mt)
    (ct : List (CEv Content MetaRec WalRec LogRec)) (hall : ∀ e ∈ begun ct, StaleAllowed L d e) :
    ∀ cp, cp <+: ct → ∀ img, IsCImage (crun (cinit d) cp) img →
      absOfL P L img = absOfL P L d ∧ (img.wal = d.wal ∨ img.wal = none) := by
  intro cp hcp img himg
  rw [isCImage_lin] at himg
  obtain ⟨r, hr⟩ := hcp
  have hcpall : ∀ e ∈ begun cp, StaleAllowed L d e := by
    intro e he
    apply hall
    rw [← hr]
    simp only [begun, List.filterMap_append, List.mem_append]
    exact Or.inl he
  have hg := invG_images (StaleGood L d) (StaleAllowed L d) (staleGood_applyEff L d) (lin d cp) ⟨d, []⟩
    ⟨⟨rfl, rfl, Or.inl rfl, rfl⟩, fun e he => by cases he⟩ (lin_all _ d cp hcpall) img himg
  exact ⟨staleGood_abs P L d hstale img hg, hg.2.2.1⟩

end NomtDisk
