import NomtModel.Store.LeafUpdDigest
/-!
# The leaf stage as a whole (`run_worker` over the whole tree)

Guards: `DbOK KB db` — the leaves of the old tree: ascending separators, every leaf ascending, its keys at least its
separator and below the next one, cells at most `MAX_LEAF_VALUE_SIZE`, keys below `KB`; `ChOK KB lo cs` — the change
list: ascending keys, at least `lo`, below `KB`, new values at most `MAX_LEAF_VALUE_SIZE`.

Specification: `applyAll (flat db) cs` (fold of `write1`) for the content, `ovfLog (flat db) keys` for the overflow
callback.
-/
namespace Nomt.LeafUpd
variable {V : Type} [CellSize V]

def flat (db : List (DbLeaf V)) : List (Entry V) := db.flatMap (·.ents)
def flatOut (out : List (OutLeaf V)) : List (Entry V) := out.flatMap OutLeaf.ents

@[simp] theorem flat_nil : flat ([] : List (DbLeaf V)) = [] := rfl
@[simp] theorem flat_cons (l : DbLeaf V) (r : List (DbLeaf V)) : flat (l :: r) = l.ents ++ flat r := rfl
@[simp] theorem flat_append (a b : List (DbLeaf V)) : flat (a ++ b) = flat a ++ flat b := by simp [flat]
@[simp] theorem flatOut_nil : flatOut ([] : List (OutLeaf V)) = [] := rfl
@[simp] theorem flatOut_append (a b : List (OutLeaf V)) : flatOut (a ++ b) = flatOut a ++ flatOut b := by
  simp [flatOut]
theorem flatOut_old (a : List (DbLeaf V)) : flatOut (a.map .old) = flat a := by
  induction a with
  | nil => rfl
  | cons l r ih => simp [flatOut, flat, OutLeaf.ents] at ih ⊢; exact ih
theorem flatOut_new (a : List (Leaf V)) : flatOut (a.map .new) = a.flatMap (·.ents) := by
  induction a with
  | nil => rfl
  | cons l r ih => simp [flatOut, OutLeaf.ents] at ih ⊢; exact ih

/-- the changes applied one by one to an ascending list -/
def applyAll (l : List (Entry V)) (cs : List (Nat × Option (V × Bool))) : List (Entry V) :=
  cs.foldl (fun l c => write1 l c.1 c.2) l

/-- the overflow cells of `l` stored under one of the keys `ks` -/
def ovfLog (l : List (Entry V)) (ks : List Nat) : List V :=
  (l.filter (fun e => e.ovf && ks.contains e.key)).map (·.val)

/-! ## guards -/

def LeafOK (KB : Nat) (l : DbLeaf V) (hi : Option Nat) : Prop :=
  Sorted l.ents ∧ SizeOK l.ents ∧ KeysBelow KB l.ents ∧ (∀ e ∈ l.ents, l.sep ≤ e.key) ∧
    (∀ c, hi = some c → l.sep < c ∧ ∀ e ∈ l.ents, e.key < c)

def DbOK (KB : Nat) : List (DbLeaf V) → Prop
  | [] => True
  | [l] => LeafOK KB l none
  | l :: l2 :: r => LeafOK KB l (some l2.sep) ∧ DbOK KB (l2 :: r)

def ChOK (KB : Nat) : Nat → List (Nat × Option (V × Bool)) → Prop
  | _, [] => True
  | lo, (k, ch) :: cs => lo ≤ k ∧ k < KB ∧ (∀ v o, ch = some (v, o) → CellSize.size v ≤ MAXV) ∧ ChOK KB (k + 1) cs

theorem DbOK.tail {KB : Nat} {l : DbLeaf V} {r : List (DbLeaf V)} (h : DbOK KB (l :: r)) : DbOK KB r := by
  cases r with
  | nil => trivial
  | cons l2 r => exact h.2

theorem DbOK.head {KB : Nat} {l : DbLeaf V} {r : List (DbLeaf V)} (h : DbOK KB (l :: r)) :
    LeafOK KB l (r.head?.map (·.sep)) := by
  cases r with
  | nil => exact h
  | cons l2 r => exact h.1

theorem DbOK.lower {KB : Nat} : ∀ {r : List (DbLeaf V)} {l : DbLeaf V}, DbOK KB (l :: r) →
    ∀ e ∈ flat (l :: r), l.sep ≤ e.key := by
  intro r
  induction r with
  | nil =>
    intro l h e he
    simp at he
    exact h.2.2.2.1 e he
  | cons l2 r ih =>
    intro l h e he
    simp only [flat_cons, List.mem_append] at he
    rcases he with he | he
    · exact h.1.2.2.2.1 e he
    · have := ih h.2 e (by simpa using he)
      have := (h.1.2.2.2.2 l2.sep rfl).1
      omega

theorem DbOK.sizeOK {KB : Nat} : ∀ {r : List (DbLeaf V)}, DbOK KB r → SizeOK (flat r) ∧ KeysBelow KB (flat r) := by
  intro r
  induction r with
  | nil => intro _; exact ⟨by intro e he; simp at he, by intro e he; simp at he⟩
  | cons l r ih =>
    intro h
    have h1 := h.head
    have h2 := ih h.tail
    refine ⟨?_, ?_⟩
    · intro e he; simp at he; rcases he with he | he
      · exact h1.2.1 e he
      · exact h2.1 e he
    · intro e he; simp at he; rcases he with he | he
      · exact h1.2.2.1 e he
      · exact h2.2 e he

theorem DbOK.sorted {KB : Nat} : ∀ {r : List (DbLeaf V)}, DbOK KB r → Sorted (flat r) := by
  intro r
  induction r with
  | nil => intro _; exact List.Pairwise.nil
  | cons l r ih =>
    intro h
    have h1 := h.head
    simp only [flat_cons, Sorted]
    rw [List.pairwise_append]
    refine ⟨h1.1, ih h.tail, ?_⟩
    intro a ha b hb
    cases r with
    | nil => simp at hb
    | cons l2 r =>
      have := (h1.2.2.2.2 l2.sep rfl).2 a ha
      have := DbOK.lower h.tail b hb
      omega

/-! ## `indexed_leaf` -/

theorem skipTo_spec {KB : Nat} (key : Nat) : ∀ (r : List (DbLeaf V)) (l : DbLeaf V), DbOK KB (l :: r) → l.sep ≤ key →
    ∃ skipped l' rest', skipTo key (l :: r) = (skipped, l' :: rest') ∧ l :: r = skipped ++ l' :: rest' ∧
      l'.sep ≤ key ∧ (∀ n, rest'.head? = some n → key < n.sep) ∧ (∀ e ∈ flat skipped, e.key < l'.sep) ∧
      (∀ n, r.head? = some n → key < n.sep → skipped = []) ∧ l.sep ≤ l'.sep := by
  intro r
  induction r with
  | nil =>
    intro l _ hl
    exact ⟨[], l, [], rfl, rfl, hl, by simp, by simp, by simp, Nat.le_refl _⟩
  | cons l2 r ih =>
    intro l h hl
    by_cases h2 : l2.sep ≤ key
    · obtain ⟨sk, l', rest', e1, e2, e3, e4, e5, _, e7⟩ := ih l2 h.2 h2
      have h12 := (h.1.2.2.2.2 l2.sep rfl).1
      refine ⟨l :: sk, l', rest', by simp [skipTo, h2, e1], by simp [e2], e3, e4, ?_, ?_, by omega⟩
      · intro e he
        simp only [flat_cons, List.mem_append] at he
        rcases he with he | he
        · have := (h.1.2.2.2.2 l2.sep rfl).2 e he
          -- `l'` is `l2` or a later leaf: its separator is at least `l2.sep`
          have hge : l2.sep ≤ l'.sep := by
            cases sk with
            | nil => simp at e2; rw [e2.1]; exact Nat.le_refl _
            | cons s sk' =>
              simp at e2
              exact sep_mono h.2 l' (by rw [e2.2]; simp)
          omega
        · exact e5 e he
      · intro n hn hlt; simp at hn; subst hn; omega
    · refine ⟨[], l, l2 :: r, by simp [skipTo, h2], rfl, hl, ?_, by simp, by simp, Nat.le_refl _⟩
      intro n hn; simp at hn; subst hn; omega
where
  sep_mono {KB : Nat} : ∀ {r : List (DbLeaf V)} {l : DbLeaf V}, DbOK KB (l :: r) → ∀ x ∈ r, l.sep ≤ x.sep := by
    intro r
    induction r with
    | nil => intro l _ x hx; simp at hx
    | cons l2 r ih =>
      intro l h x hx
      have h12 := (h.1.2.2.2.2 l2.sep rfl).1
      rcases List.mem_cons.1 hx with rfl | hx
      · omega
      · have := ih h.2 x hx; omega

theorem DbOK.append_right {KB : Nat} : ∀ {a b : List (DbLeaf V)}, DbOK KB (a ++ b) → DbOK KB b := by
  intro a
  induction a with
  | nil => intro b h; exact h
  | cons l r ih => intro b h; exact ih (DbOK.tail (l := l) h)

/-! ## `ovfLog` -/

theorem ovfLog_append (a b : List (Entry V)) (ks : List Nat) : ovfLog (a ++ b) ks = ovfLog a ks ++ ovfLog b ks := by
  simp [ovfLog]

theorem ovfLog_nil_keys (l : List (Entry V)) : ovfLog l [] = [] := by
  unfold ovfLog
  rw [filter_none (fun x _ => by simp)]
  rfl

theorem ovfLog_of_notin {l : List (Entry V)} {ks : List Nat} (h : ∀ e ∈ l, e.key ∉ ks) : ovfLog l ks = [] := by
  unfold ovfLog
  rw [filter_none (fun x hx => by simp; intro _; exact h x hx)]
  rfl

theorem ovfLog_cons_of_ne {l : List (Entry V)} {k : Nat} {ks : List Nat} (h : ∀ e ∈ l, e.key ≠ k) :
    ovfLog l (k :: ks) = ovfLog l ks := by
  unfold ovfLog
  congr 1
  apply List.filter_congr
  intro x hx
  have := h x hx
  simp [List.contains_cons, this]

/-- the cells stored under the smallest key come first -/
theorem ovfLog_cons_sorted {k : Nat} {ks : List Nat} (hks : ∀ x ∈ ks, k < x) : ∀ {l : List (Entry V)}, Sorted l →
    ovfLog l (k :: ks) = ovfAt l k ++ ovfLog l ks := by
  intro l
  induction l with
  | nil => intro _; rfl
  | cons a r ih =>
    intro hs
    have hs' := List.pairwise_cons.1 hs
    by_cases hak : a.key = k
    · have hr : ∀ e ∈ r, e.key ≠ k := fun e he => by have := hs'.1 e he; omega
      have hnot : a.key ∉ ks := fun hm => by have := hks _ hm; omega
      have e1 : ovfLog (a :: r) (k :: ks) = ovfLog [a] (k :: ks) ++ ovfLog r (k :: ks) := ovfLog_append [a] r _
      have e2 : ovfLog (a :: r) ks = ovfLog [a] ks ++ ovfLog r ks := ovfLog_append [a] r _
      have e3 : ovfAt (a :: r) k = ovfAt [a] k ++ ovfAt r k := ovfAt_append [a] r k
      rw [e1, e2, e3, ovfLog_cons_of_ne hr, ovfAt_of_ne hr, ovfLog_of_notin (l := [a]) (ks := ks) (by simpa using hnot)]
      simp only [ovfLog, ovfAt, List.filter_cons, List.filter_nil, List.contains_cons, hak, beq_self_eq_true, Bool.true_or, Bool.and_true, Bool.true_and, List.append_nil, List.nil_append]
    · have e1 : ovfLog (a :: r) (k :: ks) = ovfLog [a] (k :: ks) ++ ovfLog r (k :: ks) := ovfLog_append [a] r _
      have e2 : ovfLog (a :: r) ks = ovfLog [a] ks ++ ovfLog r ks := ovfLog_append [a] r _
      have e3 : ovfAt (a :: r) k = ovfAt [a] k ++ ovfAt r k := ovfAt_append [a] r k
      rw [e1, e2, e3, ovfAt_of_ne (a := [a]) (by simpa using hak), ovfLog_cons_of_ne (l := [a]) (by simpa using hak)]
      by_cases hlt : a.key < k
      · have hnot : a.key ∉ ks := fun hm => by have := hks _ hm; omega
        rw [ovfLog_of_notin (l := [a]) (by simpa using hnot), ih hs'.2]
        simp
      · have hr : ∀ e ∈ r, e.key ≠ k := fun e he => by have := hs'.1 e he; omega
        rw [ovfLog_cons_of_ne hr, ovfAt_of_ne hr]
        simp

/-- a write under a key below all of `ks` does not change what is stored under `ks` -/
theorem ovfLog_write1 {k : Nat} {ks : List Nat} (hks : ∀ x ∈ ks, k < x) (l : List (Entry V)) (ch : Option (V × Bool)) :
    ovfLog (write1 l k ch) ks = ovfLog l ks := by
  have hk : k ∉ ks := fun hm => by have := hks _ hm; omega
  have h1 : ovfLog (l.filter (fun e => decide (e.key < k))) ks = [] :=
    ovfLog_of_notin (fun e he hm => by
      have := hks _ hm
      have h := (List.mem_filter.1 he).2
      simp at h; omega)
  have h3 : ovfLog (l.filter (fun e => decide (k < e.key))) ks = ovfLog l ks := by
    unfold ovfLog
    rw [List.filter_filter]
    congr 1
    apply List.filter_congr
    intro x _
    by_cases hx : x.key ∈ ks
    · have := hks _ hx
      simp [hx, this]
    · simp [hx]
  cases ch with
  | none => simp only [write1, ovfLog_append, h1, h3]; simp [ovfLog]
  | some vo =>
    obtain ⟨v, o⟩ := vo
    have h2 : ovfLog [(⟨k, v, o⟩ : Entry V)] ks = [] := ovfLog_of_notin (by simpa using hk)
    simp only [write1, ovfLog_append, h1, h2, h3]; simp

/-! ## `applyAll` -/

theorem applyAll_snoc (l : List (Entry V)) (cs : List (Nat × Option (V × Bool))) (c : Nat × Option (V × Bool)) :
    applyAll l (cs ++ [c]) = write1 (applyAll l cs) c.1 c.2 := by
  simp [applyAll]

theorem applyAll_sorted {l : List (Entry V)} (h : Sorted l) (cs : List (Nat × Option (V × Bool))) :
    Sorted (applyAll l cs) := by
  induction cs generalizing l with
  | nil => exact h
  | cons c cs ih => exact ih (write1_sorted h c.1 c.2)

end Nomt.LeafUpd
