import NomtModel.Api.OvlBtIter
import NomtModel.Core.TriePos
/-!
# Mirror of `nomt/src/merkle/seek.rs`: the `SeekRequest` state machine (C05 / C11)

`SeekRequest` walks the page tree along a key to its terminal and collects the siblings:

* `SeekRequest::new` — the root node decides: terminator → `Completed(None)`, leaf → the leaf fetch at the root
  position, internal → `Seeking`;
* `next_query` — `Seeking`: the next page on the path (the root page, else the child of `page_id` at
  `position.child_page_index()`); the two fetch states: the next page number of `needed_leaves`;
* `continue_seek(page_id, page)` — up to `DEPTH` = 6 steps down inside the page (`position.down(bit)`, the node at
  `node_index`, the sibling at `sibling_index`); a leaf starts the leaf fetch, a terminator completes; at the bottom
  of the page the parent's `elided_children` bit decides: elided and not yet in the page set → fetch the b-tree
  leaves of the key range of the position and reconstruct the pages (`page_walker::reconstruct_pages`);
* `continue_leaf_fetch(leaf?)` — the single leaf below a leaf node: the first b-tree item of the range that the
  overlay does not delete (`manage_deletions`), or the first insertion of the overlay's range (`begin_leaf_fetch`);
* `continue_leaves_fetch(page_set, overlay, leaf?)` — collect every item of the range, merge with the overlay's value
  changes (`leavesMerge`, `Api/OvlMerge.lean`), reconstruct, back to `Seeking`;
* `range_bounds(raw_path, depth)` — the half-open key range of a position.

The b-tree iterator is the mirror of `Api/OvlBtIter.lean` (`BtIt`); `needed_leaves` is the list of the indices (in
the flattened list of leaves) of the leaves it will ask for.  `page_walker::reconstruct_pages` is NOT mirrored here
(`Store/Walker*.lean` is another unit): it is the parameter `Env.recon` — the driver instantiates it with the
specification `reconSpec` (`Store/SeekRecon.lean`), the theorems assume its contract (`ReconOK`, `Store/SeekInv.lean`).

On top of the request: `Sys` = what `verif_api::seek::SeekSim` (hook H18) holds — the page set, the page cache, the
requests with what each one waits for — and its operations `push`, `step` (one iteration of the query loop of
`Seeker::submit_key_path_request`), `supplyPage` / `supplyLeaf` (`handle_merkle_page_and_continue` /
`handle_leaf_page_and_continue` for one waiting request), `forcePage` / `forceLeaf` (the same without the protocol).

Every `unwrap`, `assert!`, `panic!`, `unreachable!` and slice index of the Rust is an `Outcome.panic`.
-/
namespace Nomt.Seek
open Nomt Nomt.Ovl Nomt.TriePos

/-- a merkle page: the 126 node slots and the elided-children bitfield -/
structure MPage (Node : Type) where
  nodes : Nat → Node
  elided : Nat

/-- `Page::node(index)` (`read_node` asserts `index < NODES_PER_PAGE`) -/
def MPage.node {Node : Type} (pg : MPage Node) (i : Nat) : Option Node :=
  if i < NODES_PER_PAGE then some (pg.nodes i) else none

/-- `page.elided_children().is_elided(child)` -/
def MPage.isElided {Node : Type} (pg : MPage Node) (c : Nat) : Bool := pg.elided.testBit c

inductive Origin where | persisted | reconstructed
deriving DecidableEq, Repr

/-- `merkle::page_set::PageSet`: the working map and the frozen warmed-up map (`[]` = `None`) -/
structure PageSet (Node : Type) where
  map : List (PageId × MPage Node × Origin) := []
  warm : List (PageId × MPage Node × Origin) := []

/-- `PageSet::contains`: the working map only -/
def PageSet.contains {Node : Type} (ps : PageSet Node) (p : PageId) : Bool := (ps.map.lookup p).isSome

/-- `PageSet::get`: the working map, else the warmed-up map -/
def PageSet.get {Node : Type} (ps : PageSet Node) (p : PageId) : Option (MPage Node × Origin) :=
  match ps.map.lookup p with
  | some x => some x
  | none => ps.warm.lookup p

/-- `PageSet::insert` -/
def PageSet.insert {Node : Type} (ps : PageSet Node) (p : PageId) (pg : MPage Node) (o : Origin) : PageSet Node :=
  { ps with map := (p, pg, o) :: ps.map }

/-! ### `range_bounds` -/

def zeroKey : Key := List.replicate KEY_BITS false

/-- the `loop` of `range_bounds`; the first argument is `depth`, the second `end` -/
def rbLoop (start : Key) : Nat → Key → Outcome Unit (Key × Option Key)
  | 0, e =>
    match e[0]? with
    | none => .panic "range_bounds: index"
    | some false => .ok (start, some (e.set 0 true))
    | some true => .ok (start, none)
  | i + 1, e =>
    match e[i + 1]? with
    | none => .panic "range_bounds: index"
    | some false => .ok (start, some (e.set (i + 1) true))
    | some true => rbLoop start i (e.set (i + 1) false)

/-- `range_bounds(raw_path, depth)` -/
def rangeBounds (raw : Key) (depth : Nat) : Outcome Unit (Key × Option Key) :=
  if depth = 0 then .ok (zeroKey, none) else rbLoop raw (depth - 1) raw

/-! ### the request -/

inductive Query where
  | page (p : PageId)
  | leaf (i : Nat)
deriving DecidableEq, Repr

/-- `RequestState` -/
inductive RState (Node VH V : Type) where
  | seeking
  | fetchingLeaf (dels : List Key) (it : BtIt V) (needed : List Nat)
  | fetchingLeaves (page : MPage Node) (range : Key × Option Key) (it : BtIt V) (needed : List Nat)
      (coll : List (Key × VH))
  | completed (t : Option (Key × VH))

/-- `SeekRequest` -/
structure Req (Node VH V : Type) where
  key : Key
  pos : Pos
  pageId : Option PageId
  sibs : List Node
  st : RState Node VH V
  ios : Nat

/-- what the request machine runs against -/
structure Env (Node VH V : Type) where
  /-- `is_leaf` / `is_terminator` / internal: the MSB tag of the node -/
  kind : Node → Kind
  root : Node
  /-- `record_siblings` -/
  record : Bool
  /-- the staging maps and the leaves of the read transaction -/
  primary : List (Key × Option V)
  secondary : List (Key × Option V)
  leaves : List (Leaf V)
  /-- `H::hash_value(value)` of an inline item / the value hash an overflow cell carries -/
  vh : V → VH
  /-- `overlay.value_iter(0…, None)`: the value changes of the live overlay chain, ascending, value hashes applied -/
  ov : List (Key × Option VH)
  /-- `overlay.page(id)` -/
  ovPages : List (PageId × MPage Node)
  /-- the pages of the hash table (what a page load answers) -/
  disk : List (PageId × MPage Node)
  /-- `page_walker::reconstruct_pages(page, page_id, position, page_set, leaves)` followed by the `page_set.insert`
  of every page it returns: the new page set (specified, not mirrored) -/
  recon : MPage Node → PageId → Pos → PageSet Node → List (Key × VH) → Outcome Unit (PageSet Node)

variable {Node VH V : Type}

/-- `overlay.value_iter(start, end)` -/
def ovRange (env : Env Node VH V) (start : Key) (stop : Option Key) : List (Key × Option VH) :=
  env.ov.filter (fun e => inRange start stop e.1)

/-- the leaves `needed_leaves()` will name: from the one the iterator is blocked on (resp. after the current
one) as long as the separator is below `end`; the indices count the flattened list of all leaves -/
def neededOf (env : Env Node VH V) (it : BtIt V) : List Nat :=
  match it.leaf.st with
  | .done => []
  | _ =>
    let first := env.leaves.length - it.leaf.pending.length
    let n := (it.leaf.pending.takeWhile (fun l => beforeStop it.leaf.stop l.sep)).length
    (List.range n).map (fun j => first + j)

/-- the fuel of the two item loops: every `next` that yields an item consumes one staging entry or one leaf entry -/
def itFuel (it : BtIt V) : Nat :=
  it.mem.primary.length + it.mem.secondary.length +
    ((match it.leaf.st with | .proceeding cur => cur.length | _ => 0) +
      (it.leaf.pending.map (fun l => l.entries.length + 1)).sum) + 1

/-- `provide_leaf(leaf)`: the leaf handed in becomes the current one (no check that it is the one asked for) -/
def provideLeaf (it : LeafIt V) (l : Leaf V) : Outcome Unit (LeafIt V) :=
  match it.st, it.pending with
  | .blocked, _ :: rest =>
    let cur := match it.start with
      | some s => l.entries.dropWhile (fun e => bitsLt e.1 s)
      | none => l.entries
    let st := match cur with
      | [] => leafConsumed rest it.stop
      | _ => .proceeding cur
    .ok { st := st, pending := rest, start := none, stop := it.stop }
  | _, _ => .panic "No leaf expected in iterator"

inductive LeafLoop (VH V : Type) where
  | blocked (it : BtIt V) (dels : List Key)
  | found (kv : Key × VH)

/-- the `loop` of `continue_leaf_fetch` -/
def leafLoop (vh : V → VH) : Nat → BtIt V → List Key → Outcome Unit (LeafLoop VH V)
  | 0, _, _ => .panic "fuel"
  | fuel + 1, it, dels =>
    match it.next with
    | .panic m => .panic m
    | .err e => .err e
    | .ok (_, none) => .panic "leaf must exist"
    | .ok (it', some .blocked) => .ok (.blocked it' dels)           -- `overlay_deletions.drain(..deletions_idx)`
    | .ok (it', some (.item k v)) =>
      let r := manageDeletions dels k
      if r.2 then leafLoop vh fuel it' r.1 else .ok (.found (k, vh v))

/-- `continue_leaf_fetch(leaf)` -/
def continueLeafFetch (env : Env Node VH V) (r : Req Node VH V) (leaf : Option (Leaf V)) :
    Outcome Unit (Req Node VH V) :=
  match r.st with
  | .fetchingLeaf dels it needed =>
    let itO : Outcome Unit (BtIt V) := match leaf with
      | none => .ok it
      | some l => match provideLeaf it.leaf l with
        | .ok lf => .ok { it with leaf := lf }
        | .panic m => .panic m
        | .err e => .err e
    match itO with
    | .panic m => .panic m
    | .err e => .err e
    | .ok it =>
      match leafLoop env.vh (itFuel it) it dels with
      | .panic m => .panic m
      | .err e => .err e
      | .ok (.blocked it' dels') => .ok { r with st := .fetchingLeaf dels' it' needed }
      | .ok (.found kv) => .ok { r with st := .completed (some kv) }
  | _ => .panic "called continue_leaf_fetch without active iterator"

/-- `RequestState::begin_leaf_fetch(read_transaction, overlay, pos)` -/
def beginLeafFetch (env : Env Node VH V) (pos : Pos) : Outcome Unit (RState Node VH V) :=
  match rangeBounds pos.raw pos.depth with
  | .panic m => .panic m
  | .err e => .err e
  | .ok (start, stop) =>
    let items := ovRange env start stop
    match firstInsert items with
    | some kv => .ok (.completed (some kv))
    | none =>
      let it := BtIt.new env.primary env.secondary env.leaves start stop
      .ok (.fetchingLeaf (items.map (·.1)) it (neededOf env it))

/-- `self.state = begin_leaf_fetch(..); if let FetchingLeaf = self.state { self.continue_leaf_fetch(None) }` -/
def startLeafFetch (env : Env Node VH V) (r : Req Node VH V) : Outcome Unit (Req Node VH V) :=
  match beginLeafFetch env r.pos with
  | .panic m => .panic m
  | .err e => .err e
  | .ok st =>
    let r := { r with st := st }
    match st with
    | .fetchingLeaf .. => continueLeafFetch env r none
    | _ => .ok r

inductive CollLoop (VH V : Type) where
  | blocked (it : BtIt V) (coll : List (Key × VH))
  | finished (coll : List (Key × VH))

/-- the `while let Some(iter_output) = beatree_iterator.next()` of `continue_leaves_fetch` -/
def collLoop (vh : V → VH) : Nat → BtIt V → List (Key × VH) → Outcome Unit (CollLoop VH V)
  | 0, _, _ => .panic "fuel"
  | fuel + 1, it, coll =>
    match it.next with
    | .panic m => .panic m
    | .err e => .err e
    | .ok (_, none) => .ok (.finished coll)
    | .ok (it', some .blocked) => .ok (.blocked it' coll)
    | .ok (it', some (.item k v)) => collLoop vh fuel it' (coll ++ [(k, vh v)])

/-- `continue_leaves_fetch(page_set, overlay, leaf)` -/
def continueLeavesFetch (env : Env Node VH V) (ps : PageSet Node) (r : Req Node VH V) (leaf : Option (Leaf V)) :
    Outcome Unit (PageSet Node × Req Node VH V) :=
  match r.st with
  | .fetchingLeaves page range it needed coll =>
    let itO : Outcome Unit (BtIt V) := match leaf with
      | none => .ok it
      | some l => match provideLeaf it.leaf l with
        | .ok lf => .ok { it with leaf := lf }
        | .panic m => .panic m
        | .err e => .err e
    match itO with
    | .panic m => .panic m
    | .err e => .err e
    | .ok it =>
      match collLoop env.vh (itFuel it) it coll with
      | .panic m => .panic m
      | .err e => .err e
      | .ok (.blocked it' coll') => .ok (ps, { r with st := .fetchingLeaves page range it' needed coll' })
      | .ok (.finished coll') =>
        let merged := leavesMerge coll' (ovRange env range.1 range.2)
        match r.pageId with
        | none => .panic "continue_leaves_fetch: page_id unwrap"
        | some pid =>
          match env.recon page pid r.pos ps merged with
          | .panic m => .panic m
          | .err e => .err e
          | .ok ps' => .ok (ps', { r with st := .seeking })
  | _ => .panic "called continue_leaves_fetch without active iterator"

/-- `RequestState::begin_leaves_fetch(read_transaction, pos, page)` -/
def beginLeavesFetch (env : Env Node VH V) (pos : Pos) (page : MPage Node) : Outcome Unit (RState Node VH V) :=
  match rangeBounds pos.raw pos.depth with
  | .panic m => .panic m
  | .err e => .err e
  | .ok (start, stop) =>
    let it := BtIt.new env.primary env.secondary env.leaves start stop
    .ok (.fetchingLeaves page (start, stop) it (neededOf env it) [])

inductive Walk (Node VH V : Type) where
  | bottom (r : Req Node VH V)      -- the `for` loop ran out of bits
  | returned (r : Req Node VH V)    -- `return` inside the loop

/-- the `for bit in bits` loop of `continue_seek` -/
def walkPage (env : Env Node VH V) (page : MPage Node) : List Bool → Req Node VH V → Outcome Unit (Walk Node VH V)
  | [], r => .ok (.bottom r)
  | b :: bs, r =>
    match r.pos.down b with
    | none => .panic "TriePosition::down"
    | some pos =>
      match page.node pos.nodeIndex with
      | none => .panic "page.node: index"
      | some cur =>
        let sibsO : Option (List Node) :=
          if env.record then (page.node pos.siblingIndex).map (fun s => r.sibs ++ [s]) else some r.sibs
        match sibsO with
        | none => .panic "page.node: sibling index"
        | some sibs =>
          let r := { r with pos := pos, sibs := sibs }
          if env.kind cur == .leaf then
            match startLeafFetch env r with
            | .ok r => .ok (.returned r)
            | .panic m => .panic m
            | .err e => .err e
          else if env.kind cur == .terminator then .ok (.returned { r with st := .completed none })
          else walkPage env page bs r

/-- `continue_seek(read_transaction, overlay, page_id, page, record_siblings, page_set)` -/
def continueSeek (env : Env Node VH V) (ps : PageSet Node) (r : Req Node VH V) (pid : PageId) (page : MPage Node) :
    Outcome Unit (PageSet Node × Req Node VH V) :=
  match r.st with
  | .seeking =>
    if r.pos.depth % DEPTH ≠ 0 then .panic "assert: depth % DEPTH == 0" else
    let r := { r with pageId := some pid }
    match walkPage env page ((r.key.drop r.pos.depth).take DEPTH) r with
    | .panic m => .panic m
    | .err e => .err e
    | .ok (.returned r) => .ok (ps, r)
    | .ok (.bottom r) =>
      match r.pos.childPageIndex with
      | none => .panic "child_page_index"
      | some c =>
        match childPageId pid c with
        | .error _ => .panic "child_page_id unwrap"
        | .ok child =>
          if page.isElided c then
            if ps.contains child then .ok (ps, r)
            else
              match beginLeavesFetch env r.pos page with
              | .panic m => .panic m
              | .err e => .err e
              | .ok st => continueLeavesFetch env ps { r with st := st } none
          else .ok (ps, r)
  | _ => .panic "seek past end"

/-- `SeekRequest::new(read_transaction, overlay, key, root)` -/
def Req.new (env : Env Node VH V) (key : Key) : Outcome Unit (Req Node VH V) :=
  let r : Req Node VH V := { key := key, pos := Pos.new, pageId := none, sibs := [], st := .seeking, ios := 0 }
  if env.kind env.root == .terminator then .ok { r with st := .completed none }
  else if env.kind env.root == .leaf then startLeafFetch env r
  else .ok r

/-- `is_completed` -/
def Req.isCompleted (r : Req Node VH V) : Bool := match r.st with | .completed _ => true | _ => false

/-- `next_query`: the request with `needed_leaves` advanced, and the query -/
def nextQuery (r : Req Node VH V) : Outcome Unit (Req Node VH V × Option Query) :=
  match r.st with
  | .seeking =>
    match r.pageId with
    | none => .ok (r, some (.page []))
    | some pid =>
      match r.pos.childPageIndex with
      | none => .panic "child_page_index"
      | some c =>
        match childPageId pid c with
        | .error _ => .panic "child_page_id unwrap"
        | .ok child => .ok (r, some (.page child))
  | .fetchingLeaf dels it needed =>
    match needed with
    | [] => .ok (r, none)
    | i :: rest => .ok ({ r with st := .fetchingLeaf dels it rest }, some (.leaf i))
  | .fetchingLeaves page range it needed coll =>
    match needed with
    | [] => .ok (r, none)
    | i :: rest => .ok ({ r with st := .fetchingLeaves page range it rest coll }, some (.leaf i))
  | .completed _ => .ok (r, none)

/-- the result as `Seeker::take_completion` hands it out -/
structure SeekRes (Node VH : Type) where
  pos : Pos
  pageId : Option PageId
  sibs : List Node
  terminal : Option (Key × VH)

def Req.result (r : Req Node VH V) : Option (SeekRes Node VH) :=
  match r.st with
  | .completed t => some { pos := r.pos, pageId := r.pageId, sibs := r.sibs, terminal := t }
  | _ => none

/-! ### the simulation surface (`verif_api::seek::SeekSim`) -/

inductive Source where | set | ovl | cache
deriving DecidableEq, Repr

inductive StepOut where
  | busy
  | noQuery
  | continued (p : PageId) (s : Source)
  | needPage (p : PageId)
  | needLeaf (i : Nat)
deriving DecidableEq, Repr

structure Sys (Node VH V : Type) where
  ps : PageSet Node := {}
  cache : List (PageId × MPage Node) := []
  reqs : List (Req Node VH V × Option Query) := []

def setReq (s : Sys Node VH V) (i : Nat) (x : Req Node VH V × Option Query) : Sys Node VH V :=
  { s with reqs := s.reqs.set i x }

/-- `Seeker::push` -/
def push (env : Env Node VH V) (s : Sys Node VH V) (key : Key) : Outcome Unit (Sys Node VH V) :=
  match Req.new env key with
  | .ok r => .ok { s with reqs := s.reqs ++ [(r, none)] }
  | .panic m => .panic m
  | .err e => .err e

/-- one iteration of the query loop of `submit_key_path_request` for request `i`; `.err ()` = no such request -/
def step (env : Env Node VH V) (s : Sys Node VH V) (i : Nat) : Outcome Unit (Sys Node VH V × StepOut) :=
  match s.reqs[i]? with
  | none => .err ()
  | some (_, some _) => .ok (s, .busy)
  | some (r, none) =>
    match nextQuery r with
    | .panic m => .panic m
    | .err e => .err e
    | .ok (_, none) => .ok (s, .noQuery)
    | .ok (r, some (.leaf l)) => .ok (setReq s i (r, some (.leaf l)), .needLeaf l)
    | .ok (r, some (.page pid)) =>
      -- `page_set.get(..).or_else(|| get_in_memory_page(overlay, page_cache, ..).map(insert as Persisted))`
      let found : Option (MPage Node × Source × PageSet Node) :=
        match s.ps.get pid with
        | some (pg, _) => some (pg, .set, s.ps)
        | none =>
          match env.ovPages.lookup pid with
          | some pg => some (pg, .ovl, s.ps.insert pid pg .persisted)
          | none =>
            match s.cache.lookup pid with
            | some pg => some (pg, .cache, s.ps.insert pid pg .persisted)
            | none => none
      match found with
      | some (pg, src, ps) =>
        match continueSeek env ps r pid pg with
        | .panic m => .panic m
        | .err e => .err e
        | .ok (ps', r') => .ok ({ s with ps := ps', reqs := s.reqs.set i (r', none) }, .continued pid src)
      | none =>
        -- `request.note_io()`, the load is started
        .ok (setReq s i ({ r with ios := r.ios + 1 }, some (.page pid)), .needPage pid)

/-- `handle_merkle_page_and_continue` for request `i` and the page `pid` with content `page` -/
def forcePage (env : Env Node VH V) (s : Sys Node VH V) (i : Nat) (pid : PageId) (page : MPage Node) :
    Outcome Unit (Sys Node VH V) :=
  match s.reqs[i]? with
  | none => .err ()
  | some (r, aw) =>
    -- `page_cache.insert` keeps an entry that is already there and returns it
    let (page, cache) := match s.cache.lookup pid with
      | some pg => (pg, s.cache)
      | none => (page, (pid, page) :: s.cache)
    let ps := s.ps.insert pid page .persisted
    if r.isCompleted then .panic "assert: !request.is_completed()" else
    match continueSeek env ps r pid page with
    | .panic m => .panic m
    | .err e => .err e
    | .ok (ps', r') => .ok { ps := ps', cache := cache, reqs := s.reqs.set i (r', aw) }

/-- the page request `i` waits for arrives from the hash table; `.err ()` = it does not wait for a page (or the
hash table does not hold the page: the `unreachable!()` of `submit_idle_page_load`) -/
def supplyPage (env : Env Node VH V) (s : Sys Node VH V) (i : Nat) : Outcome Unit (Sys Node VH V) :=
  match s.reqs[i]? with
  | some (r, some (.page pid)) =>
    match env.disk.lookup pid with
    | none => .err ()
    | some page => forcePage env (setReq s i (r, none)) i pid page
  | _ => .err ()

/-- `handle_leaf_page_and_continue` for request `i` with the leaf of index `l` -/
def forceLeaf (env : Env Node VH V) (s : Sys Node VH V) (i l : Nat) : Outcome Unit (Sys Node VH V) :=
  match s.reqs[i]?, env.leaves[l]? with
  | some (r, aw), some leaf =>
    if r.isCompleted then .panic "assert: !request.is_completed()" else
    match r.st with
    | .fetchingLeaf .. =>
      (match continueLeafFetch env r (some leaf) with
       | .ok r' => .ok (setReq s i (r', aw))
       | .panic m => .panic m
       | .err e => .err e)
    | .fetchingLeaves .. =>
      (match continueLeavesFetch env s.ps r (some leaf) with
       | .ok (ps', r') => .ok { s with ps := ps', reqs := s.reqs.set i (r', aw) }
       | .panic m => .panic m
       | .err e => .err e)
    | _ => .panic "unreachable: leaf for a seeking request"
  | _, _ => .err ()

def supplyLeaf (env : Env Node VH V) (s : Sys Node VH V) (i : Nat) : Outcome Unit (Sys Node VH V) :=
  match s.reqs[i]? with
  | some (r, some (.leaf l)) => forceLeaf env (setReq s i (r, none)) i l
  | _ => .err ()

/-- a new page set between two seekers: empty, or with the old working map as the shared warmed-up map -/
def newPageSet (s : Sys Node VH V) (freeze : Bool) : Sys Node VH V :=
  { s with ps := if freeze then { map := [], warm := s.ps.map } else {} }

end Nomt.Seek
