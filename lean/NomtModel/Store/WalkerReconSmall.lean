import NomtModel.Store.WalkerReconSum
import NomtModel.Store.WalkerReconIds
/-!
# A reconstructor never keeps a page: the closure condition `SmallBy` from the facts about the final log

When every page of the final log `Lfin` of the tree walker is right for the leaves `O` (`LogOK`), the logged pages are
distinct pages at / below the boundary `p` that hold internal nodes, and fewer than `PAGE_ELISION_THRESHOLD` leaves lie below
`p`, then at every intermediate pop the page on top of the mirror's stack is small: its `count_leaves` is the number of leaves
of the trie in the page, its children counter is at most the leaves counted in the pages handed out so far, and no key is
counted in two pages.
-/
namespace Nomt.Walker
open Nomt Nomt.TriePos
open Nomt.Wal (PageDiff)

variable {Node VH : Type} [DecidableEq Node] [DecidableEq VH] (H : Hasher Node VH)

/-- the page of a position up to six layers below a page boundary `c` is the page with prefix `c` -/
theorem specPage_below_boundary (c : Path) (b : Bool) (rest : Path) (h6 : c.length % 6 = 0) (hr : rest.length ≤ 5) :
    specPage (c ++ b :: rest) = sextetsOf c := by
  unfold specPage specPageBits
  have hl : (c ++ b :: rest).length = c.length + 1 + rest.length := by simp; omega
  have : (c.length + 1 + rest.length - 1) / 6 * 6 = c.length := by omega
  rw [hl, this, List.take_append_of_le_length (Nat.le_refl _), List.take_length]

/-- a page that holds, slot by slot, what a logged store held for a page that is right for `O`, is faithful -/
theorem faithful_of_logOK {O : List (Key × VH)} (pg : Page Node) (c : Path) (st : Store Node) (h6 : c.length % 6 = 0)
    (h2 : 2 ≤ (sub O c).length)
    (hm : ∀ q, q ≠ [] → q.length ≤ 256 → specPage q = sextetsOf c → pg.nodes.getD (specIndex q) H.term = st q)
    (hlog : LogOK H (fun _ => True) O (sextetsOf c, st)) (b : Bool) : FaithfulFrom H O pg (c ++ [b]) 6 := by
  intro r hpre hlen h256 hanc
  obtain ⟨rest, hrest⟩ := hpre
  have hr : r = c ++ b :: rest := by rw [← hrest]; simp
  have hrl : rest.length ≤ 5 := by
    rw [hr] at hlen
    simp at hlen
    omega
  have hne : r ≠ [] := by rw [hr]; simp
  have hpage : specPage r = sextetsOf c := by rw [hr]; exact specPage_below_boundary c b rest h6 hrl
  rw [hm r hne h256 hpage]
  apply hlog r hne hpage h256 trivial
  right
  -- the parent of `r` is `c` or a position between `c ++ [b]` and `r`
  rcases List.eq_nil_or_concat rest with e | ⟨rest', x, e⟩
  · subst e
    have : r.dropLast = c := by rw [hr]; simp
    rw [this]; exact h2
  · have hdl : r.dropLast = c ++ b :: rest' := by
      rw [hr, e, List.concat_eq_append, List.dropLast_append_of_ne_nil (by simp)]
      have : (b :: (rest' ++ [x])).dropLast = b :: rest' := by
        rw [← List.cons_append, List.dropLast_concat]
      rw [this]
    rw [hdl]
    apply hanc (c ++ b :: rest')
    · exact ⟨rest', by simp⟩
    · rw [hr, e]; exact ⟨[x], by simp⟩
    · rw [hr, e]
      intro he
      have := congrArg List.length he
      simp at this

/-- `count_leaves` of such a page is the number of leaves of the trie in the page -/
theorem countLeaves_of_logOK (hs : H.Sound) {O : List (Key × VH)} (hk : KeysOK O) (pg : Page Node) (c : Path)
    (st : Store Node) (h6 : c.length % 6 = 0) (hcl : c.length ≤ 256) (h2 : 2 ≤ (sub O c).length)
    (hm : ∀ q, q ≠ [] → q.length ≤ 256 → specPage q = sextetsOf c → pg.nodes.getD (specIndex q) H.term = st q)
    (hlog : LogOK H (fun _ => True) O (sextetsOf c, st)) : countLeaves H pg = pageCount O c :=
  (countLeaves_spec H hs hk pg c h6 (lt_of_two_le_sub hk c hcl h2)
    (faithful_of_logOK H pg c st h6 h2 hm hlog false) (faithful_of_logOK H pg c st h6 h2 hm hlog true)).1

theorem sum_map_congr {α : Type} (f g : α → Nat) : ∀ (l : List α), (∀ x ∈ l, f x = g x) → (l.map f).sum = (l.map g).sum
  | [], _ => rfl
  | x :: xs, h => by
    simp only [List.map_cons, List.sum_cons]
    rw [h x (by simp), sum_map_congr f g xs (fun y hy => h y (List.mem_cons_of_mem _ hy))]

/-- **the closure condition of a reconstructor's walk** -/
theorem smallBy_of_final (hs : H.Sound) {O : List (Key × VH)} (hk : KeysOK O) (ps : PageSet Node) (p : Path)
    (hp : p ≠ []) (hp6 : p.length % 6 = 0) (hpl : p.length ≤ 256)
    (Lfin : List (PageId × Store Node)) (Lc : List Path)
    (hids : Lfin.map (·.1) = Lc.map sextetsOf) (hnd : Lc.Nodup)
    (hLc : ∀ c ∈ Lc, p <+: c ∧ c.length % 6 = 0 ∧ c.length ≤ 256 ∧ 2 ≤ (sub O c).length)
    (hlog : ∀ e ∈ Lfin, LogOK H (fun _ => True) O e)
    (hsmall : (sub O p).length < PAGE_ELISION_THRESHOLD) : SmallBy H ps Lfin := by
  intro w1 a1 hsim hr hdip hpre sp parent rest hst _
  -- the log after this pop
  have hup : a1.up.log = a1.log ++ [(specPage a1.pos, a1.store)] := by rw [tw_up_log, if_pos hdip]
  -- a page id of `Lfin` is the page of a prefix of `Lc`
  have hidOf : ∀ P st, (P, st) ∈ Lfin → ∃ c ∈ Lc, P = sextetsOf c := by
    intro P st hmem
    have : P ∈ Lfin.map (·.1) := List.mem_map_of_mem (f := fun e : PageId × Store Node => e.1) hmem
    rw [hids] at this
    obtain ⟨c, hc, e⟩ := List.mem_map.mp this
    exact ⟨c, hc, e.symm⟩
  -- counting a page that matches a logged store
  have hcount : ∀ (pg : Page Node) P st, (P, st) ∈ Lfin →
      (∀ q, q ≠ [] → q.length ≤ 256 → specPage q = P → pg.nodes.getD (specIndex q) H.term = st q) →
      countLeaves H pg = pageCount O (pidBits P) := by
    intro pg P st hmem hm
    obtain ⟨c, hc, e⟩ := hidOf P st hmem
    obtain ⟨_, h6, hcl, h2⟩ := hLc c hc
    subst e
    rw [pidBits_sextetsOf c h6]
    exact countLeaves_of_logOK H hs hk pg c st h6 hcl h2 hm (hlog _ hmem)
  have hmemL1 : ∀ e ∈ a1.up.log, e ∈ Lfin := fun e he => hpre.subset he
  -- the page on top
  have htopid : sp.pageId = specPage a1.pos := hsim.stackT sp (parent :: rest) hst
  have hplc : countLeaves H sp.page = pageCount O (pidBits (specPage a1.pos)) := by
    apply hcount sp.page (specPage a1.pos) a1.store (hmemL1 _ (by rw [hup]; simp))
    intro q hq hql hqp
    exact (hsim.pages sp (by rw [hst]; simp)).2 q hq hql (by rw [htopid]; exact hqp)
  -- the pages handed out so far
  have houts : (w1.outputPages.map (outLeaves H)).sum =
      ((a1.log.map (·.1)).map (fun P => pageCount O (pidBits P))).sum := by
    rw [← hsim.recon.outIds hr, List.map_map]
    apply sum_map_congr
    intro o ho
    obtain ⟨st, hmem, _, hm, _⟩ := hsim.outs o ho
    unfold outLeaves
    exact hcount o.page o.pageId st (hmemL1 _ (by rw [hup]; exact List.mem_append_left _ hmem)) hm
  -- the counters on the stack
  have hacct := hsim.recon.acct hr
  have hcl : clOf sp ≤ (w1.stack.map clOf).sum := by
    rw [hst]; simp only [List.map_cons, List.sum_cons]; omega
  -- the ids logged so far are the pages of a duplicate-free list of prefixes
  have hpre' : a1.up.log.map (·.1) <+: Lc.map sextetsOf := by
    rw [← hids]
    obtain ⟨t, ht⟩ := hpre
    exact ⟨t.map (·.1), by rw [← ht, List.map_append]⟩
  obtain ⟨k, hk'⟩ : ∃ k, a1.up.log.map (·.1) = (Lc.take k).map sextetsOf := by
    refine ⟨(a1.up.log.map (·.1)).length, ?_⟩
    rw [List.map_take]
    exact List.prefix_iff_eq_take.mp hpre'
  have htotal : ((a1.up.log.map (·.1)).map (fun P => pageCount O (pidBits P))).sum = ((Lc.take k).map (pageCount O)).sum := by
    rw [hk', List.map_map]
    apply sum_map_congr
    intro c hc
    have hc' : c ∈ Lc := List.mem_of_mem_take hc
    show pageCount O (pidBits (sextetsOf c)) = _
    rw [pidBits_sextetsOf c (hLc c hc').2.1]
  have hbound := pageCount_sum_le O (Lc.take k) (List.Sublist.nodup (List.take_sublist _ _) hnd) p hp hp6 hpl (by
    intro c hc
    have hc' : c ∈ Lc := List.mem_of_mem_take hc
    obtain ⟨h1, h2, h3, h4⟩ := hLc c hc'
    exact ⟨h1, h2, h4, lt_of_two_le_sub hk c h3 h4⟩)
  rw [hup] at htotal
  simp only [List.map_append, List.map_cons, List.map_nil, List.sum_append, List.sum_cons, List.sum_nil] at htotal
  omega

end Nomt.Walker
