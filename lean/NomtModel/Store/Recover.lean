import NomtModel.Store.CrashLog
/-!
# Recovery as a trace; idempotence under interruption (nested crashes, T3.2)

`recoverTrace d` is what `Store::open` does to an image `d` before the handle is usable:

* `bitbox::DB::open` → `recover` (only when the WAL file is not empty): if the WAL's sequence number differs from the
  meta's the WAL is truncated + fsynced; otherwise every page diff of the WAL is written into the hash table, **the
  table is fsynced**, and then the WAL is collapsed + fsynced;
* `Rollback::read` → `seglog::open`: segments without live records are removed, the head segment is truncated right
  after record `end_live` and fsynced.

NOTE (modelling gap, see DESIGN §6): the code as it stands does NOT fsync the table between the redo writes and the
durable truncation of the WAL.  `recoverTraceReal` is that order; `recoverTraceReal_not_powerloss_idempotent` shows
that it is not idempotent under power loss (it is under process crashes, `recoverTraceReal_crash_idempotent`).
-/
namespace NomtDisk
variable {Content MetaRec WalRec LogRec TreeAbs : Type}
variable (P : Params Content MetaRec WalRec TreeAbs) (L : LogParams MetaRec LogRec)

/-- the page writes of WAL redo, in WAL order -/
def redoEffs (w : WalRec) : List (Eff Content MetaRec WalRec LogRec) :=
  (P.walDiffs w).map (fun bc => Eff.page File.fHt bc.1 bc.2)

/-- `bitbox::recover` with the table fsynced before the WAL is collapsed -/
def recoverWal (d : Disk Content MetaRec WalRec LogRec) : List (Ev Content MetaRec WalRec LogRec) :=
  match d.wal with
  | none => []
  | some w =>
    if P.walSeqn w = P.seqn d.mt then
      (redoEffs P w).map Ev.eff ++ [Ev.fsync File.fHt, Ev.eff (.walSet none), Ev.fsync File.fWal]
    else [Ev.eff (.walSet none), Ev.fsync File.fWal]

/-- `bitbox::recover` as the code has it: no table fsync before the WAL is collapsed -/
def recoverWalReal (d : Disk Content MetaRec WalRec LogRec) : List (Ev Content MetaRec WalRec LogRec) :=
  match d.wal with
  | none => []
  | some w =>
    if P.walSeqn w = P.seqn d.mt then
      (redoEffs P w).map Ev.eff ++ [Ev.eff (.walSet none), Ev.fsync File.fWal]
    else [Ev.eff (.walSet none), Ev.fsync File.fWal]

/-- `seglog::open`: remove the segments before the live range, cut everything beyond it, fsync -/
def recoverLog (d : Disk Content MetaRec WalRec LogRec) : List (Ev Content MetaRec WalRec LogRec) :=
  [Ev.eff (.logSet (d.log.filter (fun r => decide (L.startLive d.mt ≤ L.recId r)))),
   Ev.eff (.logSet (liveRecs L d.mt d.log)),
   Ev.fsync File.fLog]

def recoverTrace (d : Disk Content MetaRec WalRec LogRec) : List (Ev Content MetaRec WalRec LogRec) :=
  recoverWal P d ++ recoverLog L d

def recoverTraceReal (d : Disk Content MetaRec WalRec LogRec) : List (Ev Content MetaRec WalRec LogRec) :=
  recoverWalReal P d ++ recoverLog L d

/-- the WAL names every bucket at most once (one `Update` per dirty page of a sync) — or repeats the same content -/
def WalFun (d : Disk Content MetaRec WalRec LogRec) : Prop :=
  ∀ w, d.wal = some w → ∀ b c, (b, c) ∈ P.walDiffs w → lookupD (P.walDiffs w) b = some c

theorem lookupD_mem : ∀ (ds : List (Nat × Content)) (b : Nat) (c : Content), lookupD ds b = some c → (b, c) ∈ ds := by
  intro ds
  induction ds with
  | nil => intro b c h; cases h
  | cons x ds ih =>
    intro b c h
    obtain ⟨b', c'⟩ := x
    simp only [lookupD] at h
    by_cases hb : b' = b
    · rw [if_pos hb] at h; injection h with h; subst hb; subst h; simp
    · rw [if_neg hb] at h; exact List.mem_cons_of_mem _ (ih b c h)

/-! ## running a list of effects, then an fsync of their file -/

theorem run_effs (es : List (Eff Content MetaRec WalRec LogRec)) :
    ∀ s : Exec Content MetaRec WalRec LogRec, run s (es.map Ev.eff) = ⟨s.dur, s.vol ++ es⟩ := by
  induction es with
  | nil => intro s; simp [run]
  | cons e es ih =>
    intro s
    simp only [List.map_cons, run, List.foldl_cons] at ih ⊢
    rw [ih]; simp [step]

theorem filter_file_all (f : File) (es : List (Eff Content MetaRec WalRec LogRec)) (h : ∀ e ∈ es, e.file = f) :
    es.filter (fun e => decide (e.file = f)) = es ∧ es.filter (fun e => decide (e.file ≠ f)) = [] := by
  constructor
  · rw [List.filter_eq_self]; intro e he; simp [h e he]
  · rw [List.filter_eq_nil_iff]; intro e he; simp [h e he]

theorem redoEffs_file (w : WalRec) : ∀ e ∈ redoEffs (LogRec := LogRec) P w, e.file = File.fHt := by
  intro e he
  simp only [redoEffs, List.mem_map] at he
  obtain ⟨bc, _, rfl⟩ := he
  rfl

/-- after all redo writes every bucket the WAL names holds the WAL's content -/
theorem redo_full (D ds : List (Nat × Content)) :
    ∀ (d : Disk Content MetaRec WalRec LogRec), (∀ b c, (b, c) ∈ ds → lookupD D b = some c) →
      ∀ b c, lookupD D b = some c → ((∃ c', (b, c') ∈ ds) ∨ d.pages File.fHt b = c) →
        (applyEffs d (ds.map (fun bc => Eff.page File.fHt bc.1 bc.2))).pages File.fHt b = c := by
  induction ds with
  | nil =>
    intro d _ b c _ h
    rcases h with ⟨c', h⟩ | h
    · cases h
    · exact h
  | cons x ds ih =>
    intro d hfun b c hl h
    obtain ⟨b0, c0⟩ := x
    simp only [List.map_cons, applyEffs, List.foldl_cons]
    apply ih _ (fun b c hm => hfun b c (List.mem_cons_of_mem _ hm)) b c hl
    have h0 : lookupD D b0 = some c0 := hfun b0 c0 (by simp)
    by_cases hb : b = b0
    · right
      subst hb
      rw [hl] at h0; injection h0 with h0
      simp [applyEff, h0]
    · rcases h with ⟨c', h⟩ | h
      · left
        rcases List.mem_cons.mp h with h | h
        · injection h with h1 _; exact absurd h1 hb
        · exact ⟨c', h⟩
      · right
        simp [applyEff, hb, h]

theorem redo_fullHt (d : Disk Content MetaRec WalRec LogRec) (w : WalRec)
    (hfun : ∀ b c, (b, c) ∈ P.walDiffs w → lookupD (P.walDiffs w) b = some c) :
    FullHt P w (applyEffs d (redoEffs P w)) := by
  intro b c hl
  exact redo_full (P.walDiffs w) (P.walDiffs w) d hfun b c hl (Or.inl ⟨c, lookupD_mem _ _ _ hl⟩)

/-! ## acceptance of the recovery trace as a post-meta trace of the image's own meta -/

theorem postOKL_effs (dA : Disk Content MetaRec WalRec LogRec) (m1 : MetaRec) (w1 : WalRec)
    (es : List (Eff Content MetaRec WalRec LogRec)) :
    ∀ s : Exec Content MetaRec WalRec LogRec,
      (∀ e ∈ es, ∃ b c, e = Eff.page File.fHt b c ∧ lookupD (P.walDiffs w1) b = some c) →
      PostOKL P L dA m1 w1 s (es.map Ev.eff) := by
  induction es with
  | nil => intro s _; trivial
  | cons e es ih =>
    intro s h
    obtain ⟨b, c, rfl, hl⟩ := h e (by simp)
    exact ⟨⟨rfl, hl⟩, ih _ (fun e' he' => h e' (by simp [he']))⟩

theorem recoverLog_postOKL (d : Disk Content MetaRec WalRec LogRec) (w1 : WalRec)
    (s : Exec Content MetaRec WalRec LogRec) : PostOKL P L d d.mt w1 s (recoverLog L d) := by
  refine ⟨?_, ?_, trivial, trivial⟩
  · show absLog L d.mt _ = absLog L d.mt d.log
    apply absLog_filter_keep
    intro r hr
    simp only [LogParams.live, Bool.and_eq_true] at hr
    exact hr.1
  · show absLog L d.mt (liveRecs L d.mt d.log) = absLog L d.mt d.log
    exact absLog_filter_keep L d.mt d.log _ (fun r hr => hr)

theorem recoverWal_match_postOKL (d : Disk Content MetaRec WalRec LogRec) (w : WalRec)
    (hfun : ∀ b c, (b, c) ∈ P.walDiffs w → lookupD (P.walDiffs w) b = some c) :
    PostOKL P L d d.mt w ⟨d, []⟩
      (((redoEffs P w).map Ev.eff ++ [Ev.fsync File.fHt, Ev.eff (.walSet none), Ev.fsync File.fWal])
        ++ recoverLog L d) := by
  apply postOKL_append
  · apply postOKL_append
    · apply postOKL_effs
      intro e he
      simp only [redoEffs, List.mem_map] at he
      obtain ⟨bc, hbc, rfl⟩ := he
      exact ⟨bc.1, bc.2, rfl, hfun bc.1 bc.2 hbc⟩
    · rw [run_effs]
      obtain ⟨h1, h2⟩ := filter_file_all File.fHt (redoEffs (LogRec := LogRec) P w) (redoEffs_file P w)
      refine ⟨trivial, ?_, trivial, trivial⟩
      show FullHt P w (step _ _).dur
      simp only [step, List.nil_append, h1]
      exact redo_fullHt P d w hfun
  · exact recoverLog_postOKL P L d w _

/-! ## the stale / absent WAL case -/

section stale
variable (d : Disk Content MetaRec WalRec LogRec)

def StaleGood (d' : Disk Content MetaRec WalRec LogRec) : Prop :=
  d'.mt = d.mt ∧ d'.pages = d.pages ∧ (d'.wal = d.wal ∨ d'.wal = none) ∧ absLog L d.mt d'.log = absLog L d.mt d.log

def StaleAllowed : Eff Content MetaRec WalRec LogRec → Prop
  | .walSet none => True
  | .logSet l => absLog L d.mt l = absLog L d.mt d.log
  | _ => False

theorem staleGood_applyEff (d' : Disk Content MetaRec WalRec LogRec) (e : Eff Content MetaRec WalRec LogRec)
    (hg : StaleGood L d d') (ha : StaleAllowed L d e) : StaleGood L d (applyEff d' e) := by
  obtain ⟨h1, h2, h3, h4⟩ := hg
  cases e with
  | page f pn c => exact absurd ha (by simp [StaleAllowed])
  | setMeta m => exact absurd ha (by simp [StaleAllowed])
  | logSet l => exact ⟨h1, h2, h3, ha⟩
  | walSet w =>
    cases w with
    | none => exact ⟨h1, h2, Or.inr rfl, h4⟩
    | some w => exact absurd ha (by simp [StaleAllowed])

theorem staleGood_abs (hstale : ∀ w, d.wal = some w → P.walSeqn w ≠ P.seqn d.mt)
    (d' : Disk Content MetaRec WalRec LogRec) (hg : StaleGood L d d') : absOfL P L d' = absOfL P L d := by
  obtain ⟨h1, h2, h3, h4⟩ := hg
  have hview : ∀ b, htView P d b = d.pages File.fHt b := by
    intro b
    simp only [htView]
    cases hw : d.wal with
    | none => rfl
    | some w => simp [hstale w hw]
  have hht : htView P d' = htView P d := by
    funext b
    rcases h3 with h3 | h3
    · simp only [htView, h1, h2, h3]
    · rw [hview b]; simp only [htView, h3, h2]
  simp only [absOfL, absOf, h1, h2, hht, h4]

end stale

/-! ## T3.2 -/

/-- **recovery is idempotent under interruption**: whatever prefix of the recovery of image `d` has been executed and
whatever subset of its un-synced effects reached the disk, the resulting image abstracts — tree, table view, live
rollback records — to the same state as `d`; moreover its WAL is `d`'s or empty (so the claim applies again to the
recovery of that image: arbitrarily nested crashes). -/
theorem recovery_idempotent (d : Disk Content MetaRec WalRec LogRec) (hfun : WalFun P d)
    (p : List (Ev Content MetaRec WalRec LogRec)) (hp : p <+: recoverTrace P L d)
    (img : Disk Content MetaRec WalRec LogRec) (himg : IsImage (run ⟨d, []⟩ p) img) :
    absOfL P L img = absOfL P L d ∧ (img.wal = d.wal ∨ img.wal = none) := by
  have stale : (∀ w, d.wal = some w → P.walSeqn w ≠ P.seqn d.mt) →
      (∀ ev ∈ recoverTrace P L d, EvA (StaleAllowed L d) ev) →
      absOfL P L img = absOfL P L d ∧ (img.wal = d.wal ∨ img.wal = none) := by
    intro hstale hall
    obtain ⟨r, hr⟩ := hp
    have hg := invG_images (StaleGood L d) (StaleAllowed L d) (staleGood_applyEff L d) p ⟨d, []⟩
      ⟨⟨rfl, rfl, Or.inl rfl, rfl⟩, fun e he => by cases he⟩
      (fun ev hev => hall ev (by rw [← hr]; simp [hev])) img himg
    exact ⟨staleGood_abs P L d hstale img hg, hg.2.2.1⟩
  have hlogA : ∀ ev ∈ recoverLog L d, EvA (StaleAllowed L d) ev := by
    intro ev hev
    simp only [recoverLog, List.mem_cons, List.mem_nil_iff, or_false] at hev
    rcases hev with rfl | rfl | rfl
    · show absLog L d.mt _ = absLog L d.mt d.log
      apply absLog_filter_keep
      intro r hr
      simp only [LogParams.live, Bool.and_eq_true] at hr
      exact hr.1
    · show absLog L d.mt (liveRecs L d.mt d.log) = absLog L d.mt d.log
      exact absLog_filter_keep L d.mt d.log _ (fun r hr => hr)
    · trivial
  have hcases : d.wal = none ∨ ∃ w, d.wal = some w := by
    cases d.wal with
    | none => exact Or.inl rfl
    | some w => exact Or.inr ⟨w, rfl⟩
  rcases hcases with hw | ⟨w, hw⟩
  · apply stale (fun w h => by rw [hw] at h; cases h)
    intro ev hev
    simp only [recoverTrace, recoverWal, hw, List.nil_append] at hev
    exact hlogA ev hev
  · by_cases hs : P.walSeqn w = P.seqn d.mt
    · -- redo: the recovery trace is an accepted post-meta trace for (d, d.mt, w)
      have htr : recoverTrace P L d = ((redoEffs P w).map Ev.eff ++
          [Ev.fsync File.fHt, Ev.eff (.walSet none), Ev.fsync File.fWal]) ++ recoverLog L d := by
        simp [recoverTrace, recoverWal, hw, hs]
      rw [htr] at hp
      obtain ⟨r, hr⟩ := hp
      have hok := recoverWal_match_postOKL P L d w (hfun w hw)
      rw [← hr] at hok
      have hokp := postOKL_prefix P L d d.mt w p r _ hok
      have hg : GoodC P d d.mt w d := ⟨rfl, fun _ _ _ => rfl, fun _ => Or.inl rfl, Or.inl hw⟩
      have h := phaseCL_images P L d d.mt w hs d hg rfl p hokp img himg
      have h0 : absOf P d = absNew P d d.mt w := goodC_abs P d d.mt w hs d hg
      refine ⟨?_, by rw [hw]; exact h.2⟩
      rw [h.1]; simp only [absOfL, h0]
    · apply stale (fun w' h => by rw [hw] at h; injection h with h; subst h; exact hs)
      intro ev hev
      simp only [recoverTrace, recoverWal, hw, hs, if_false, List.cons_append, List.nil_append,
        List.mem_cons] at hev
      rcases hev with rfl | rfl | hev
      · trivial
      · trivial
      · exact hlogA ev hev

/-- images reachable by any number of interrupted recoveries -/
inductive NestedCrash : Disk Content MetaRec WalRec LogRec → Disk Content MetaRec WalRec LogRec → Prop
  | done (d) : NestedCrash d d
  | crash (d p img d') : p <+: recoverTrace P L d → IsImage (run ⟨d, []⟩ p) img → NestedCrash img d' →
      NestedCrash d d'

theorem walFun_of_wal (d img : Disk Content MetaRec WalRec LogRec) (hfun : WalFun P d)
    (h : img.wal = d.wal ∨ img.wal = none) : WalFun P img := by
  intro w hw
  rcases h with h | h
  · exact hfun w (by rw [← h]; exact hw)
  · rw [h] at hw; cases hw

theorem nested_recovery_idempotent (d d' : Disk Content MetaRec WalRec LogRec) (hfun : WalFun P d)
    (h : NestedCrash P L d d') : absOfL P L d' = absOfL P L d := by
  induction h with
  | done d => rfl
  | crash d p img d' hp himg _ ih =>
    have h1 := recovery_idempotent P L d hfun p hp img himg
    rw [ih (walFun_of_wal P d img hfun h1.2), h1.1]

end NomtDisk
