import NomtModel.Store.LeafPushChunk2
/-!
# `push_chunk`: the rebase loop on a block of encoded cell pointers, and the pieces of an encoded base leaf
-/
namespace Nomt.Store
open Nomt (Outcome)

theorem ptr_rd16 (K Y : List UInt8) (v : Nat) (hK : K.length = 32) (hv : v < 65536) :
    rd16 (K ++ (le16 v ++ Y)) 32 = v := by
  have := rd16_append_right K (le16 v ++ Y) 0
  rw [hK] at this
  rw [this, rd16_le16 _ _ hv]

theorem ptr_take (K X : List UInt8) (hK : K.length = 32) : (K ++ X).take 32 = K := by
  rw [← hK]; simp

theorem ptr_drop (K Y : List UInt8) (v : Nat) (hK : K.length = 32) : (K ++ (le16 v ++ Y)).drop 34 = Y := by
  have : (K ++ (le16 v ++ Y)) = (K ++ le16 v) ++ Y := by simp
  rw [this]
  have h : (K ++ le16 v).length = 34 := by simp [hK, length_le16]
  rw [← h]; simp

theorem keyL_length {e : LeafEntry} (h : e.key.size = 32) : e.key.data.toList.length = 32 := by
  simp [ByteArray.size_data, h]

/-- the loop adds `d` to every cell pointer of the block (no u16 overflow: the overflow bit is carried along) -/
theorem lbRebase_pos : ∀ (ch : List LeafEntry) (off d : Nat), (∀ e ∈ ch, e.key.size = 32) →
    off + leafTotal ch + d < 32768 →
    lbRebase .none true d ch.length (leafPtrsL ch off) = .ok (leafPtrsL ch (off + d)) := by
  intro ch
  induction ch with
  | nil => intro off d _ _; rfl
  | cons e r ih =>
    intro off d hk hlt
    have hK := keyL_length (hk e (List.mem_cons_self ..))
    simp only [leafTotal] at hlt
    have hv : off + (if e.overflow = true then 32768 else 0) < 65536 := by split <;> omega
    have hr := ih (off + e.cell.size) d (fun x hx => hk x (List.mem_cons_of_mem _ hx)) (by omega)
    simp only [List.length_cons, leafPtrsL, lbRebase, ptr_rd16 _ _ _ hK hv, ptr_take _ _ hK, ptr_drop _ _ _ hK, hr]
    have c1 : ¬ (off + (if e.overflow = true then 32768 else 0) + d ≥ 65536) := by split <;> omega
    have e1 : off + (if e.overflow = true then 32768 else 0) + d = off + d + (if e.overflow = true then 32768 else 0) := by
      omega
    have e2 : off + e.cell.size + d = off + d + e.cell.size := by omega
    simp [e1, e2]
    split <;> omega

/-- the loop subtracts `d` from every cell pointer of the block -/
theorem lbRebase_neg : ∀ (ch : List LeafEntry) (off d : Nat), (∀ e ∈ ch, e.key.size = 32) →
    off + leafTotal ch < 32768 → d ≤ off →
    lbRebase .none false d ch.length (leafPtrsL ch off) = .ok (leafPtrsL ch (off - d)) := by
  intro ch
  induction ch with
  | nil => intro off d _ _ _; rfl
  | cons e r ih =>
    intro off d hk hlt hd
    have hK := keyL_length (hk e (List.mem_cons_self ..))
    simp only [leafTotal] at hlt
    have hv : off + (if e.overflow = true then 32768 else 0) < 65536 := by split <;> omega
    have hr := ih (off + e.cell.size) d (fun x hx => hk x (List.mem_cons_of_mem _ hx)) (by omega) (by omega)
    simp only [List.length_cons, leafPtrsL, lbRebase, ptr_rd16 _ _ _ hK hv, ptr_take _ _ hK, ptr_drop _ _ _ hK, hr]
    have c1 : ¬ (off + (if e.overflow = true then 32768 else 0) < d) := by split <;> omega
    have e1 : off + (if e.overflow = true then 32768 else 0) - d = off - d + (if e.overflow = true then 32768 else 0) := by
      split <;> omega
    have e2 : off + e.cell.size - d = off - d + e.cell.size := by omega
    simp [c1, e1, e2]

/-! ## the base leaf `encodeLeafL (pre ++ (ch ++ post)) pad` -/

theorem base_ptr_slice (pre ch post : List LeafEntry) (pad : List UInt8) (a b : Nat)
    (hk : ∀ e ∈ pre, e.key.size = 32) (hkc : ∀ e ∈ ch, e.key.size = 32)
    (ha : a = 2 + 34 * pre.length) (hb : b = 2 + 34 * (pre.length + ch.length)) :
    bslice (encodeLeafL (pre ++ (ch ++ post)) pad) a b =
      leafPtrsL ch (PAGE - leafTotal (pre ++ (ch ++ post)) + leafTotal pre) := by
  simp only [encodeLeafL, leafPtrsL_append]
  have e : ∀ (A B C D E : List UInt8), A ++ ((B ++ (C ++ D)) ++ E) = (A ++ B) ++ (C ++ (D ++ E)) := by
    intros; simp
  rw [e]
  apply bslice_mid
  · simp [length_le16, length_leafPtrsL pre _ hk, ha]
  · simp [length_le16, length_leafPtrsL pre _ hk, length_leafPtrsL ch _ hkc, hb]; omega

theorem base_cell_slice (pre ch post : List LeafEntry) (pad : List UInt8) (a b : Nat)
    (hk : ∀ e ∈ pre ++ (ch ++ post), e.key.size = 32)
    (hsz : 2 + 34 * (pre ++ (ch ++ post)).length + pad.length + leafTotal (pre ++ (ch ++ post)) = PAGE)
    (ha : a = PAGE - leafTotal (pre ++ (ch ++ post)) + leafTotal pre) (hb : b = a + leafTotal ch) :
    bslice (encodeLeafL (pre ++ (ch ++ post)) pad) a b = leafCellsL ch := by
  unfold encodeLeafL
  rw [leafCellsL_append pre, leafCellsL_append ch]
  have e : ∀ (A B C D E F : List UInt8), A ++ (B ++ (C ++ (D ++ (E ++ F)))) = (A ++ (B ++ (C ++ D))) ++ (E ++ F) := by
    intros; simp
  rw [e]
  apply bslice_mid
  · simp only [List.length_append, length_le16, length_leafPtrsL _ _ hk, length_leafCellsL, ha]
    simp only [List.length_append] at hsz
    omega
  · simp only [List.length_append, length_le16, length_leafPtrsL _ _ hk, length_leafCellsL, ha, hb]
    simp only [List.length_append] at hsz
    omega

theorem base_rd16_0 (bes : List LeafEntry) (pad : List UInt8) (h : bes.length < 65536) :
    rd16 (encodeLeafL bes pad) 0 = bes.length := by
  unfold encodeLeafL; exact rd16_le16 _ _ h

theorem base_rd16_ptr (bes : List LeafEntry) (pad : List UInt8) (i : Nat) (e : LeafEntry)
    (hk : ∀ x ∈ bes, x.key.size = 32) (hi : bes[i]? = some e) (hP : leafTotal bes ≤ PAGE) :
    rd16 (encodeLeafL bes pad) (2 + 34 * i + 32) % 32768 = PAGE - leafTotal bes + leafTotal (bes.take i) := by
  have hPAGE : PAGE = 4096 := rfl
  have := u16le_ptr bes (PAGE - leafTotal bes) (le16 bes.length) (pad ++ leafCellsL bes) i e hk hi (by omega)
  rw [length_le16] at this
  have hle := leafTotal_take_le bes i
  rw [rd16_eq]
  show u16le (le16 bes.length ++ (leafPtrsL bes (PAGE - leafTotal bes) ++ (pad ++ leafCellsL bes))).toByteArray _ % _ = _
  rw [this]
  split <;> omega

theorem split3_get_mid {α} (pre : List α) (c : α) (ch' post : List α) :
    (pre ++ ((c :: ch') ++ post))[pre.length]? = some c := by simp

theorem split3_get_post {α} (pre ch : List α) (q : α) (ps : List α) :
    (pre ++ (ch ++ q :: ps))[pre.length + ch.length]? = some q := by
  rw [← List.append_assoc, ← List.length_append]; simp

theorem split3_take_mid {α} (pre ch post : List α) :
    (pre ++ (ch ++ post)).take (pre.length + ch.length) = pre ++ ch := by
  rw [← List.append_assoc]; exact List.take_left' (by simp)

/-! ## `push_chunk` -/

/-- `push_chunk(base, |pre|, |pre| + |ch|)` on a base leaf holding `pre ++ ch ++ post`: no panic, and the
state is the one after pushing the entries `ch` (same untouched bytes as after `|ch|` calls of `push_cell`) -/
theorem lbPushChunk_inv {b : LeafB} {n total : Nat} {es : List LeafEntry} {mid tail : List UInt8}
    (h : LeafBAt b n total es mid tail)
    (pre ch post : List LeafEntry) (pad : List UInt8) (hbase : leafOK (pre ++ (ch ++ post)) pad = true)
    (hne : ch ≠ []) (hidx : es.length + ch.length ≤ n) (hfit : leafTotal ch ≤ b.rem) :
    ∃ b', lbPushChunk .none b (encodeLeafL (pre ++ (ch ++ post)) pad) pre.length (pre.length + ch.length) = .ok b' ∧
      LeafBAt b' n total (es ++ ch) (mid.drop (34 * ch.length)) (tail.drop (leafTotal ch)) := by
  obtain ⟨h1, h2, h3, h4, h5, h6, h7, h8⟩ := h
  obtain ⟨hpos, hall, hsz⟩ := leafOK_parts hbase
  have hkb : ∀ x ∈ pre ++ (ch ++ post), x.key.size = 32 := fun x hx => leafEntryOK_key (hall x hx)
  have hkp : ∀ x ∈ pre, x.key.size = 32 := fun x hx => hkb x (by simp [hx])
  have hkc : ∀ x ∈ ch, x.key.size = 32 := fun x hx => hkb x (by simp [hx])
  have hP : PAGE = 4096 := rfl
  have hBd : LEAF_NODE_BODY_SIZE = 4094 := rfl
  have hT : leafTotal (pre ++ (ch ++ post)) = leafTotal pre + (leafTotal ch + leafTotal post) := by
    rw [leafTotal_append, leafTotal_append]
  have hL : (pre ++ (ch ++ post)).length = pre.length + (ch.length + post.length) := by simp
  have hclen : 0 < ch.length := List.length_pos_iff.mpr hne
  have hn0 : rd16 b.page 0 = n := by rw [h8]; exact rd16_lbPageOf (by omega)
  have hlen : b.page.length = PAGE := by rw [h8, length_lbPageOf h3]; omega
  have hb0 := base_rd16_0 (pre ++ (ch ++ post)) pad (by omega)
  have hBlen : (encodeLeafL (pre ++ (ch ++ post)) pad).length = PAGE := by
    simp only [encodeLeafL, List.length_append, length_le16, length_leafPtrsL _ _ hkb, length_leafCellsL] at hsz ⊢
    omega
  have hvs : lbVStart (encodeLeafL (pre ++ (ch ++ post)) pad) pre.length =
      PAGE - leafTotal (pre ++ (ch ++ post)) + leafTotal pre := by
    obtain ⟨c, ch', rfl⟩ := List.exists_cons_of_ne_nil hne
    have := base_rd16_ptr (pre ++ ((c :: ch') ++ post)) pad pre.length c hkb (split3_get_mid pre c ch' post) (by omega)
    rw [List.take_left'] at this
    · exact this
    · rfl
  have hve : lbVEnd (encodeLeafL (pre ++ (ch ++ post)) pad) (pre.length + ch.length) =
      PAGE - leafTotal (pre ++ (ch ++ post)) + leafTotal pre + leafTotal ch := by
    cases post with
    | nil =>
      simp only [List.append_nil] at hT hsz hb0 ⊢
      simp only [leafTotal, Nat.add_zero] at hT
      unfold lbVEnd
      rw [hb0, if_pos (by simp)]
      omega
    | cons q ps =>
      unfold lbVEnd
      rw [hb0, if_neg (by simp)]
      have := base_rd16_ptr (pre ++ (ch ++ q :: ps)) pad (pre.length + ch.length) q hkb (split3_get_post pre ch q ps)
        (by omega)
      rw [split3_take_mid] at this
      rw [this, leafTotal_append pre ch]; omega
  have hsl := base_ptr_slice pre ch post pad (2 + 34 * pre.length) (2 + 34 * (pre.length + ch.length)) hkp hkc rfl rfl
  have hvals := base_cell_slice pre ch post pad (lbVStart (encodeLeafL (pre ++ (ch ++ post)) pad) pre.length)
    (lbVEnd (encodeLeafL (pre ++ (ch ++ post)) pad) (pre.length + ch.length)) hkb hsz hvs (by rw [hve, hvs])
  have hcps : lbCps .none b (encodeLeafL (pre ++ (ch ++ post)) pad) pre.length (pre.length + ch.length) =
      .ok (leafPtrsL ch (PAGE - b.rem)) := by
    have hdb : lbDiffBase .none (encodeLeafL (pre ++ (ch ++ post)) pad) pre.length =
        PAGE - leafTotal (pre ++ (ch ++ post)) + leafTotal pre := by simp [lbDiffBase, hvs]
    unfold lbCps
    rw [hdb, hsl, Nat.add_sub_cancel_left]
    by_cases h0 : PAGE - b.rem = PAGE - leafTotal (pre ++ (ch ++ post)) + leafTotal pre
    · rw [if_pos h0, h0]
    · rw [if_neg h0]
      by_cases hgt : PAGE - b.rem > PAGE - leafTotal (pre ++ (ch ++ post)) + leafTotal pre
      · rw [if_pos hgt, decide_eq_true hgt, lbRebase_pos ch _ _ hkc (by omega)]
        congr 2; omega
      · rw [if_neg hgt, decide_eq_false hgt, lbRebase_neg ch _ _ hkc (by omega) (by omega)]
        congr 2; omega
  unfold lbPushChunk
  rw [hcps]
  simp only []
  rw [hvals, length_leafCellsL, hn0, hb0, hlen, hBlen, hvs, hve, Nat.add_sub_cancel_left]
  rw [if_neg (by omega), if_neg (by omega), if_neg (by omega), if_neg (by omega), if_neg (by omega),
    if_neg (by omega), if_neg (by omega), if_neg (by omega), if_neg (by omega)]
  rw [if_neg (by omega), if_neg (by omega), if_neg (by omega), if_neg (by omega)]
  refine ⟨_, rfl, ?_⟩
  have ho : PAGE - b.rem = PAGE - total + leafTotal es := by omega
  have hcl : (leafPtrsL ch (PAGE - b.rem)).length = 34 * ch.length := length_leafPtrsL ch _ hkc
  have hstep := lbPageOf_step n total es ch mid tail (leafPtrsL ch (PAGE - b.rem)) (leafCellsL ch)
    (2 + 34 * b.index) (PAGE - b.rem) h3 (by rw [ho]) rfl (by rw [hcl]; omega) (by rw [h1]) (by omega)
  rw [hcl, length_leafCellsL] at hstep
  refine ⟨by simp [h1], by simp; omega, ?_, h4, ?_, ?_, ?_, ?_⟩
  · intro x hx
    rcases List.mem_append.mp hx with hx | hx
    · exact h3 x hx
    · exact hkc x hx
  · simp only [leafTotal_append]; omega
  · simp only [List.length_append, List.length_drop]; omega
  · simp only [List.length_drop]; omega
  · show splice (splice b.page _ _) _ _ = _
    rw [h8]; exact hstep

end Nomt.Store
