import NomtModel.Store.ConcCrash
import NomtModel.Store.RecoverReal
/-!
# Two tiny concurrent traces over the instance `NomtDisk.Toy` (`Store/RecoverReal.lean`)

* `good` — three threads; the fsync of `ln` by thread `t3` BEGINS before the write of the new root page has ENDED, so it
  covers nothing and `ln` is fsynced again before the meta page is written.  It passes the order discipline and the
  content clauses; the new state is reached.
* `bad` — the same without the second fsync of `ln`.  The discipline rejects it at the Begin of the meta write, and it
  has a crash image (new meta page durable, new root page lost) that recovers to neither the old nor the new state.
-/
namespace NomtDisk.CToy
open NomtDisk.Toy

abbrev CE := CEv Nat TMeta (Nat × List (Nat × Nat)) Nat

/-- old state: the root page 1 of `ln` holds 5 -/
def d0 : D := { pages := fun f pn => if f = File.fLn ∧ pn = 1 then 5 else 0, mt := ⟨1, 1, 1, 2⟩, wal := none, log := [] }

/-- before the switch-over: write the new root page 2 (effect 0) and the WAL (effect 1) from two threads; `t3` issues
the fsync of `ln` while write 0 is in flight, and repeats it after the write has ended -/
def cpre : List CE :=
  [.effBegin 0 (.page .fLn 2 7),
   .effBegin 1 (.walSet (some w1)),
   .effEnd 1,
   .fsyncBegin "t2" .fWal,
   .fsyncBegin "t3" .fLn,        -- write 0 has not ended: this fsync covers nothing
   .effEnd 0,
   .fsyncEnd "t2" .fWal,
   .fsyncEnd "t3" .fLn,
   .fsyncBegin "t3" .fLn,        -- … so `ln` is fsynced again
   .fsyncEnd "t3" .fLn]

/-- (ids are the positions of the Begin lines in the rendering `Nomt.Store.OToy.goodLines`)
after the Begin of the meta write (effect 10): its fsync, the table page, its fsync, the WAL truncation -/
def crest : List CE :=
  [.effEnd 10, .fsyncBegin "t1" .fMeta, .fsyncEnd "t1" .fMeta,
   .effBegin 14 (.page .fHt 5 9), .effEnd 14, .fsyncBegin "t1" .fHt, .fsyncEnd "t1" .fHt,
   .effBegin 18 (.walSet none), .effEnd 18]

def good : List CE := cpre ++ .effBegin 10 (.setMeta m1) :: crest

theorem good_wf : CWf [] good := by
  simp [good, cpre, crest, CWf, CWfStep, seenStep]

theorem hinert : ∀ b, htView P d0 b = d0.pages File.fHt b := fun _ => rfl

/-- the state when the meta write begins: nothing is volatile -/
theorem cpre_flushed : (crun (cinit d0) cpre).vol = [] := by
  simp [cpre, crun, cstep, cinit, markEnded, takeCSync, flush, covered, coverable, Eff.file]

theorem good_ord : cAll ordChk 0 (cinit d0) good := by
  simp [good, cpre, crest, cAll, ordChk, nextPhase, cstep, cinit, markEnded, takeCSync, flush, covered, coverable,
    Eff.file, Eff.isMeta]

theorem hwal : (crun (cinit d0) cpre).dur.wal = some w1 := by
  simp [cpre, crun, cstep, cinit, markEnded, takeCSync, flush, covered, coverable, Eff.file, applyEffs, applyEff]

theorem good_phase : phRun 0 (cinit d0) good = 2 := by
  simp [good, cpre, crest, phRun, nextPhase, cstep, cinit, markEnded, takeCSync, flush, covered, coverable,
    Eff.file, Eff.isMeta]

theorem good_cont : cAll (contChk (AllowedPre P d0) (contPost P w1)) 0 (cinit d0) good := by
  simp [good, cpre, crest, cAll, contChk, nextPhase, cstep, cinit, markEnded, takeCSync, flush, covered, coverable,
    Eff.file, Eff.isMeta]
  refine ⟨⟨Or.inl rfl, fun h => absurd h.2 (by decide)⟩, ?_, ⟨⟨rfl, rfl⟩, fun h => h.elim⟩, trivial, fun _ => ?_⟩
  · show (2 : Nat) ≠ 1
    decide
  · intro b c h
    simp only [P, w1, lookupD] at h
    by_cases hb : 5 = b
    · subst hb; simp at h; subst h; rfl
    · simp [hb] at h

/-- the same without the second fsync of `ln` -/
def badPre : List CE :=
  [.effBegin 0 (.page .fLn 2 7),
   .effBegin 1 (.walSet (some w1)),
   .effEnd 1,
   .fsyncBegin "t2" .fWal,
   .fsyncBegin "t3" .fLn,
   .effEnd 0,
   .fsyncEnd "t2" .fWal,
   .fsyncEnd "t3" .fLn]

def bad : List CE := badPre ++ [.effBegin 8 (.setMeta m1), .effEnd 8, .fsyncBegin "t1" .fMeta, .fsyncEnd "t1" .fMeta]

/-- `bad` up to the Begin of the meta write -/
def badCut : List CE := badPre ++ [.effBegin 8 (.setMeta m1)]

theorem badCut_prefix : badCut <+: bad := ⟨[.effEnd 8, .fsyncBegin "t1" .fMeta, .fsyncEnd "t1" .fMeta], rfl⟩

theorem badCut_rejected : ¬ cAll ordChk 0 (cinit d0) badCut := by
  simp [badCut, badPre, cAll, ordChk, nextPhase, cstep, cinit, markEnded, takeCSync, flush, covered, coverable,
    Eff.file, Eff.isMeta]

theorem bad_rejected : ¬ cAll ordChk 0 (cinit d0) bad := by
  simp [bad, badPre, cAll, ordChk, nextPhase, cstep, cinit, markEnded, takeCSync, flush, covered, coverable,
    Eff.file, Eff.isMeta]

def badImg : D := { pages := fun f pn => if f = File.fLn ∧ pn = 1 then 5 else 0, mt := m1, wal := some w1, log := [] }

theorem bad_image : IsCImage (crun (cinit d0) bad) badImg := by
  refine ⟨[], List.nil_sublist _, ?_⟩
  simp [bad, badPre, crun, cstep, cinit, markEnded, takeCSync, flush, covered, coverable, Eff.file, applyEffs, applyEff, badImg, d0]

/-- the image is possible as soon as the meta write has begun -/
theorem badCut_image : IsCImage (crun (cinit d0) badCut) badImg := by
  refine ⟨[.setMeta m1], ?_, ?_⟩
  · simp [badCut, badPre, crun, cstep, cinit, markEnded, takeCSync, flush, covered, coverable, Eff.file, CState.volEffs]
  · simp [badCut, badPre, crun, cstep, cinit, markEnded, takeCSync, flush, covered, coverable, Eff.file, applyEffs,
      applyEff, badImg, d0]

/-- the state the operation was meant to reach -/
def newAbs : Nat × (Nat → Nat) := absNew P (crun (cinit d0) cpre).dur m1 w1

theorem bad_image_neither : absOf P badImg ≠ absOf P d0 ∧ absOf P badImg ≠ newAbs := by
  constructor
  · intro h
    have := congrArg Prod.fst h
    revert this
    show (0 : Nat) = 5 → False
    decide
  · intro h
    have := congrArg Prod.fst h
    revert this
    simp [newAbs, absNew, absOf, P, badImg, m1, cpre, crun, cstep, cinit, markEnded, takeCSync, flush, covered, coverable,
      Eff.file, applyEffs, applyEff, d0]

theorem old_ne_new : absOf P d0 ≠ newAbs := by
  intro h
  have := congrArg Prod.fst h
  revert this
  simp [newAbs, absNew, absOf, P, m1, cpre, crun, cstep, cinit, markEnded, takeCSync, flush, covered, coverable,
    Eff.file, applyEffs, applyEff, d0]

end NomtDisk.CToy
