import NomtModel.Store.PageDiffLemmas
/-!
`FastIterOnes` / `iter_ones` / `count`: mirror = specification.

`fastIterOnes 65 w` (lowest set bit first, erase it, repeat) = the set bits of the low 64 bits of `w` in ascending
order; `iterOnes d = ok (ones d)` for a diff that is not cleared; `count d = (ones d).length`.
-/
namespace Nomt.Wal
namespace PageDiff

theorem tzLoop_spec (f i w : Nat) :
    i ≤ tzLoop f i w ∧ tzLoop f i w ≤ i + f ∧
    (∀ j, i ≤ j → j < tzLoop f i w → w.testBit j = false) ∧
    (tzLoop f i w < i + f → w.testBit (tzLoop f i w) = true) := by
  induction f generalizing i with
  | zero => simp [tzLoop]; intro j h1 h2; omega
  | succ f ih =>
    by_cases h : w.testBit i
    · have e : tzLoop (f + 1) i w = i := by simp [tzLoop, h]
      rw [e]
      refine ⟨Nat.le_refl _, by omega, ?_, fun _ => h⟩
      intro j h1 h2; omega
    · have e : tzLoop (f + 1) i w = tzLoop f (i + 1) w := by simp [tzLoop, h]
      rw [e]
      obtain ⟨a, b, c, e⟩ := ih (i + 1)
      refine ⟨by omega, by omega, ?_, ?_⟩
      · intro j h1 h2
        by_cases hj : j = i
        · subst hj; simpa using h
        · exact c j (by omega) h2
      · intro hlt; exact e (by omega)

/-- SPEC of `trailing_zeros` on the low 64 bits -/
theorem trailingZeros_spec (w : Nat) :
    trailingZeros w ≤ 64 ∧ (∀ j, j < trailingZeros w → w.testBit j = false) ∧
    (trailingZeros w < 64 → w.testBit (trailingZeros w) = true) := by
  obtain ⟨_, b, c, e⟩ := tzLoop_spec 64 0 w
  unfold trailingZeros
  refine ⟨by omega, fun j hj => c j (Nat.zero_le _) hj, fun h => e (by omega)⟩

theorem fastIterOnes_aux : ∀ (n k w fuel : Nat), k + n = 64 → (∀ j, j < k → w.testBit j = false) → n + 1 ≤ fuel →
    fastIterOnes fuel w = (List.range' k n).filter (fun i => w.testBit i) := by
  intro n
  induction n using Nat.strongRecOn with
  | _ n ih =>
    intro k w fuel hk hlow hfuel
    obtain ⟨f, rfl⟩ : ∃ f, fuel = f + 1 := ⟨fuel - 1, by omega⟩
    unfold fastIterOnes
    obtain ⟨hle, hz, hset⟩ := trailingZeros_spec w
    by_cases hx : trailingZeros w = 64
    · simp only [hx, if_true]
      symm
      rw [List.filter_eq_nil_iff]
      intro a ha
      rw [List.mem_range'_1] at ha
      have := hz a (by omega)
      simp [this]
    · simp only [hx, if_false]
      have hx64 : trailingZeros w < 64 := by omega
      have hbit := hset hx64
      have hkx : k ≤ trailingZeros w := by
        apply Nat.le_of_not_lt
        intro hlt
        have := hlow _ hlt
        rw [hbit] at this
        exact Bool.noConfusion this
      generalize hxdef : trailingZeros w = x at *
      -- the remaining word
      have hw' : ∀ j, (w &&& (U64_MAX - 2 ^ x)).testBit j = (w.testBit j && (decide (j < 64) && decide (j ≠ x))) := by
        intro j
        rw [Nat.testBit_and, u64max_sub_two_pow_testBit hx64]
      have hlow' : ∀ j, j < x + 1 → (w &&& (U64_MAX - 2 ^ x)).testBit j = false := by
        intro j hj
        rw [hw']
        by_cases e : j = x
        · subst e; simp
        · have := hz j (by omega)
          simp [this]
      have hih := ih (63 - x) (by omega) (x + 1) (w &&& (U64_MAX - 2 ^ x)) f (by omega) hlow' (by omega)
      rw [hih]
      -- split the range at x
      have hsplit : List.range' k n = List.range' k (x - k) ++ (x :: List.range' (x + 1) (63 - x)) := by
        have h1 : List.range' k n = List.range' k ((x - k) + (1 + (63 - x))) := by congr 1; omega
        rw [h1, ← List.range'_append, ← List.range'_append]
        have e1 : k + 1 * (x - k) = x := by omega
        rw [e1]
        simp [List.range']
      rw [hsplit, List.filter_append, List.filter_cons]
      have hfirst : (List.range' k (x - k)).filter (fun i => w.testBit i) = [] := by
        rw [List.filter_eq_nil_iff]
        intro a ha
        rw [List.mem_range'_1] at ha
        have := hz a (by omega)
        simp [this]
      rw [hfirst, hbit]
      simp only [List.nil_append, if_true]
      congr 1
      apply List.filter_congr
      intro a ha
      rw [List.mem_range'_1] at ha
      rw [hw']
      have h1 : a < 64 := by omega
      have h2 : a ≠ x := by omega
      simp [h1, h2]

/-- mirror = spec: `FastIterOnes(w)` yields the set bits among the low 64 in ascending order -/
theorem fastIterOnes_eq (w : Nat) : fastIterOnes 65 w = (List.range 64).filter (fun i => w.testBit i) := by
  rw [List.range_eq_range']
  exact fastIterOnes_aux 64 0 w 65 (by omega) (fun j hj => by omega) (by omega)

theorem ones_eq (d : PageDiff) :
    d.ones = (List.range 64).filter (fun i => d.w0.testBit i) ++
      ((List.range 64).filter (fun i => d.w1.testBit i)).map (· + 64) := by
  unfold ones
  have : List.range 128 = List.range (64 + 64) := rfl
  rw [this, List.range_add, List.filter_append, List.filter_map]
  have hfst : List.filter d.changed (List.range 64) = List.filter (fun i => d.w0.testBit i) (List.range 64) := by
    apply List.filter_congr
    intro a ha
    rw [List.mem_range] at ha
    simp [changed, ha]
  rw [hfst]
  have hf2 : List.filter (changed d ∘ fun x => 64 + x) (List.range 64) = List.filter (fun i => d.w1.testBit i) (List.range 64) := by
    apply List.filter_congr
    intro a _
    have : ¬ (64 + a < 64) := by omega
    simp [changed, this]
  rw [hf2]
  have hm : ∀ l : List Nat, List.map (fun x => 64 + x) l = List.map (· + 64) l := by
    intro l
    apply List.map_congr_left
    intro a _
    omega
  rw [hm]

/-- mirror = spec: `iter_ones()` of a diff whose clear bit is not set -/
theorem iterOnes_eq (d : PageDiff) (hc : d.changed 127 = false) : d.iterOnes = .ok d.ones := by
  unfold iterOnes
  have : ¬ (d.w1 &&& CLEAR_BIT ≠ 0) := by
    rw [clear_test, hc]; simp
  simp only [this, if_false]
  rw [fastIterOnes_eq, fastIterOnes_eq, ones_eq]

theorem iterOnes_panics (d : PageDiff) (hc : d.changed 127 = true) : d.iterOnes.isPanic = true := by
  unfold iterOnes
  have : d.w1 &&& CLEAR_BIT ≠ 0 := (clear_test d).2 hc
  simp [this, Outcome.isPanic]

/-- mirror = spec: `count()` is the number of set bits of the 128-bit map (the clear bit included) -/
theorem count_eq (d : PageDiff) : d.count = d.ones.length := by
  rw [ones_eq]
  simp [count, popCount]

theorem mem_ones {d : PageDiff} {i : Nat} : i ∈ d.ones ↔ i < 128 ∧ d.changed i = true := by
  unfold ones
  rw [List.mem_filter, List.mem_range]

theorem nodup_ones (d : PageDiff) : d.ones.Nodup := by
  unfold ones
  exact List.Pairwise.filter _ List.nodup_range

/-- `iter_ones` is ascending -/
theorem ones_sorted (d : PageDiff) : d.ones.Pairwise (· < ·) := by
  unfold ones
  exact List.Pairwise.filter _ List.pairwise_lt_range

/-- for a diff accepted by `from_bytes` every slot is a node slot -/
theorem lt_126_of_mem_ones {d : PageDiff} (h126 : d.changed 126 = false) (h127 : d.changed 127 = false) {i : Nat}
    (hi : i ∈ d.ones) : i < 126 := by
  obtain ⟨h1, h2⟩ := mem_ones.1 hi
  apply Nat.lt_of_not_le
  intro hge
  have : i = 126 ∨ i = 127 := by omega
  rcases this with e | e <;> subst e
  · rw [h126] at h2; exact Bool.noConfusion h2
  · rw [h127] at h2; exact Bool.noConfusion h2

/-! ### `as_bytes` / `from_bytes` -/

theorem asBytes_length (d : PageDiff) : d.asBytes.length = 16 := by simp [asBytes]

theorem fromBytes_asBytes {d : PageDiff} (hd : d.WF) (h126 : d.changed 126 = false) (h127 : d.changed 127 = false) :
    fromBytes d.asBytes = some d := by
  unfold fromBytes asBytes
  have h0 : slice (leBytes 8 d.w0 ++ leBytes 8 d.w1) 0 8 = leBytes 8 d.w0 := by
    simp [slice, List.take_append_of_le_length]
  have h1 : slice (leBytes 8 d.w0 ++ leBytes 8 d.w1) 8 8 = leBytes 8 d.w1 := by
    simp [slice, List.drop_append_of_le_length]
    apply List.take_of_length_le; simp
  have e0 : leNat (leBytes 8 d.w0) = d.w0 := leNat_leBytes_of_lt (by have := hd.1; omega)
  have e1 : leNat (leBytes 8 d.w1) = d.w1 := leNat_leBytes_of_lt (by have := hd.2; omega)
  simp only [h0, h1, e0, e1]
  simp [h126, h127]

theorem fromBytes_some {b : Bytes} (hb : b.length = 16) {d : PageDiff} (h : fromBytes b = some d) :
    d.WF ∧ d.changed 126 = false ∧ d.changed 127 = false ∧ d.asBytes = b := by
  unfold fromBytes at h
  simp only at h
  split at h
  · cases h
  · rename_i hbits
    injection h with h
    subst h
    have hl0 : (slice b 0 8).length = 8 := slice_length (by omega)
    have hl1 : (slice b 8 8).length = 8 := slice_length (by omega)
    have w0 := leNat_lt (slice b 0 8)
    have w1 := leNat_lt (slice b 8 8)
    rw [hl0] at w0
    rw [hl1] at w1
    refine ⟨⟨by omega, by omega⟩, ?_, ?_, ?_⟩
    · simpa using (by simpa using hbits : _ ∧ _).1
    · simpa using (by simpa using hbits : _ ∧ _).2
    · unfold asBytes
      have a0 := leBytes_leNat (slice b 0 8)
      have a1 := leBytes_leNat (slice b 8 8)
      rw [hl0] at a0
      rw [hl1] at a1
      simp only [a0, a1]
      unfold slice
      simp only [List.drop_zero]
      have : List.take 8 (List.drop 8 b) = List.drop 8 b := by
        apply List.take_of_length_le; simp; omega
      rw [this, List.take_append_drop]

/-- `from_bytes` accepts exactly the maps without reserved bit -/
theorem fromBytes_none_iff {b : Bytes} :
    fromBytes b = none ↔
      ((⟨leNat (slice b 0 8), leNat (slice b 8 8)⟩ : PageDiff).changed 126 = true ∨
       (⟨leNat (slice b 0 8), leNat (slice b 8 8)⟩ : PageDiff).changed 127 = true) := by
  unfold fromBytes
  simp only
  split <;> rename_i h
  · simp only [true_iff]; simpa using h
  · simp only [false_iff, reduceCtorEq]; simpa using h

end PageDiff
end Nomt.Wal
