import NomtModel.Store.WalkerModel
import NomtModel.Store.WalkerTreeRun3
import NomtModel.Core.TriePosReach
import NomtModel.Store.PageDiffLemmas
/-!
# The mirror of `PageWalker` simulates the tree walker

`Sim ps w a`: the mirror state `w` (position, stack of pages, root) and the tree-walker state `a` (path, flat store) agree:
the stack holds exactly the pages from the page of the position up to the parent page, and every slot of a page on the
stack holds what the flat store holds at the slot's path.  Every step of the mirror then (i) does not reach a panic site and
(ii) leads to a state that simulates the corresponding step of the tree walker.
-/
namespace Nomt.Walker
open Nomt Nomt.TriePos
open Nomt.Wal (PageDiff)

variable {Node VH : Type} [DecidableEq Node] [DecidableEq VH] (H : Hasher Node VH)

/-- number of pages above the stack: `0` without parent page, `depth(parent) + 1` with one -/
def k0 (parent : Option PageId) : Nat :=
  match parent with
  | none => 0
  | some pp => pp.length + 1

/-- the tree-walker configuration of a mirror walk -/
def cfgOf (ps : PageSet Node) (parent : Option PageId) : TWCfg Node :=
  { fresh := fun q => (ps.fresh (specPage q)).getD (specIndex q) H.term
    top := 6 * k0 parent
    hasParent := parent.isSome }

/-- the page ids of a stack (top first): each entry is the parent page of the one above, the bottom one is the root page
(no parent page) or a child of the parent page -/
def ChainBelow (parent : Option PageId) : List PageId → Prop
  | [] => True
  | [P] => (match parent with
            | none => P = []
            | some pp => P ≠ [] ∧ P.dropLast = pp)
  | P :: Q :: rest => P ≠ [] ∧ Q = P.dropLast ∧ ChainBelow parent (Q :: rest)

/-- the leaf counters of a stack entry cannot make `handle_elision_threshold` fail: a page loaded from the hash table
carries no counter, a fresh page (and the first elided page `reconstruct` inserts) starts from `0 / 0`.  (Reconstructed pages
with real counters are not admitted yet: `notes/Q35.md` (d) 1.) -/
def CountersOK (sp : StackPage Node) : Prop :=
  (sp.prevChildrenLeaves = none ∧ sp.childrenLeaves = none) ∨
  (sp.prevChildrenLeaves = some 0 ∧ sp.pageLeaves = some 0)

/-- a stack page holds the flat store's values at the slots of its page -/
def PageMatches (sp : StackPage Node) (st : Store Node) : Prop :=
  sp.page.nodes.length = 126 ∧
  ∀ q, q ≠ [] → q.length ≤ 256 → specPage q = sp.pageId → sp.page.nodes.getD (specIndex q) H.term = st q

/-- the content a stack page started from: what `fresh` handed out, or the page of the page set -/
def BaseOf (ps : PageSet Node) (P : PageId) (base : List Node) : Prop :=
  base = ps.fresh P ∨ ∃ e o, ps.get P = some (⟨base, e⟩, o)

/-- the diff of a page names every slot whose content differs from what the page started from -/
def DiffNames (nodes base : List Node) (d : PageDiff) : Prop :=
  ∀ i, i < 126 → nodes.getD i H.term ≠ base.getD i H.term → d.changed i = true

def DiffOK (ps : PageSet Node) (sp : StackPage Node) : Prop :=
  ∃ base, BaseOf ps sp.pageId base ∧ DiffNames H sp.page.nodes base sp.diff

/-- accessors of an output page (updated or reconstructed) -/
def PageOut.pageId : PageOut Node → PageId
  | .updated P _ _ _ => P
  | .reconstructed P _ _ _ => P

def PageOut.page : PageOut Node → Page Node
  | .updated _ pg _ _ => pg
  | .reconstructed _ pg _ _ => pg

def PageOut.diff : PageOut Node → PageDiff
  | .updated _ _ d _ => d
  | .reconstructed _ _ _ d => d

/-- the children counter a reconstructed page is handed out with (`0` for an updated page) -/
def PageOut.childrenLeaves : PageOut Node → Nat
  | .updated .. => 0
  | .reconstructed _ _ cl _ => cl

/-- the current `children_leaves_counter` of a stack page, `0` when it was not touched yet -/
def clOf (sp : StackPage Node) : Nat := sp.childrenLeaves.getD 0

/-- `count_leaves` of an output page -/
def outLeaves (o : PageOut Node) : Nat := countLeaves H o.page

/-- an output page is the page as it was when it was popped: its slots are what the logged store held, and its diff names
every slot that differs from what the page started from -/
def OutMatches (ps : PageSet Node) (o : PageOut Node) (log : List (PageId × Store Node)) : Prop :=
  ∃ st, (o.pageId, st) ∈ log ∧ o.page.nodes.length = 126 ∧
    (∀ q, q ≠ [] → q.length ≤ 256 → specPage q = o.pageId → o.page.nodes.getD (specIndex q) H.term = st q) ∧
    ∃ base, BaseOf ps o.pageId base ∧ DiffNames H o.page.nodes base o.diff

/-- what the simulation knows about the two modes of the walker: the kind of the output pages; for a reconstructor
(`new_reconstructor`): elision is not inhibited, every page on the stack carries the counters of a page that was created in this
walk (`0 / 0`), the children counters on the stack never exceed the leaves counted in the pages handed out so far, and the
pages handed out are, in order, the pages the tree walker logged -/
structure ReconInv (w : Walker Node) (a : TW Node) : Prop where
  kinds : ∀ o ∈ w.outputPages, o.isReconstructed = w.reconstruction
  rc : w.reconstruction = true → w.inhibitElision = false ∧
    ∀ sp ∈ w.stack, sp.prevChildrenLeaves = some 0 ∧ sp.pageLeaves = some 0
  acct : w.reconstruction = true → (w.stack.map clOf).sum ≤ (w.outputPages.map (outLeaves H)).sum
  outIds : w.reconstruction = true → w.outputPages.map PageOut.pageId = a.log.map (·.1)

theorem ReconInv.cast {w w' : Walker Node} {a a' : TW Node} (h : ReconInv H w a)
    (e1 : w'.outputPages = w.outputPages) (e2 : w'.reconstruction = w.reconstruction)
    (e3 : w'.inhibitElision = w.inhibitElision) (e4 : w'.stack = w.stack) (e5 : a'.log = a.log) : ReconInv H w' a' := by
  refine ⟨?_, ?_, ?_, ?_⟩
  · rw [e1, e2]; exact h.kinds
  · rw [e2, e3, e4]; exact h.rc
  · rw [e1, e2, e4]; exact h.acct
  · rw [e1, e2, e5]; exact h.outIds

structure Sim (ps : PageSet Node) (w : Walker Node) (a : TW Node) : Prop where
  wf : w.position.WF
  pos : w.position.path = a.pos
  root : w.root = a.store []
  stackE : w.stack = [] ↔ a.pos.length ≤ 6 * k0 w.parentPage
  stackT : ∀ sp rest, w.stack = sp :: rest → sp.pageId = specPage a.pos
  chain : ChainBelow w.parentPage (w.stack.map (·.pageId))
  pages : ∀ sp ∈ w.stack, PageMatches H sp a.store
  counters : ∀ sp ∈ w.stack, CountersOK sp
  recon : ReconInv H w a
  cpr : w.childPageRoots.map (fun e => (e.1.path, e.2)) = a.cpr
  outs : ∀ o ∈ w.outputPages, OutMatches H ps o a.log
  nofix : w.preFix = false
  diffs : ∀ sp ∈ w.stack, DiffOK H ps sp

/-- the output pages of a walker that is not a reconstructor are `UpdatedPage`s (the form the update-mode theorems use) -/
theorem outMatches_updated {ps : PageSet Node} {w : Walker Node} {a : TW Node} (h : Sim H ps w a)
    (hnr : w.reconstruction = false) (o : PageOut Node) (ho : o ∈ w.outputPages) :
    ∃ P pg d b st, o = .updated P pg d b ∧ (P, st) ∈ a.log ∧ pg.nodes.length = 126 ∧
      (∀ q, q ≠ [] → q.length ≤ 256 → specPage q = P → pg.nodes.getD (specIndex q) H.term = st q) ∧
      ∃ base, BaseOf ps P base ∧ DiffNames H pg.nodes base d := by
  have hk := h.recon.kinds o ho
  rw [hnr] at hk
  obtain ⟨st, h1, h2, h3, h4⟩ := h.outs o ho
  cases o with
  | updated P pg d b => exact ⟨P, pg, d, b, st, rfl, h1, h2, h3, h4⟩
  | reconstructed P pg cl d => simp [PageOut.isReconstructed] at hk

/-! ## slots and paths -/

theorem path_of_slot (q1 q2 : Path) (h1 : q1 ≠ []) (h2 : q2 ≠ []) (hp : specPage q1 = specPage q2)
    (hi : specIndex q1 = specIndex q2) : q1 = q2 := by
  rw [← slotPath_spec q1 h1, ← slotPath_spec q2 h2, hp, hi]

theorem specIndex_sibPath (q : Path) (h : q ≠ []) : specIndex (sibPath q) = siblingIndexOf (specIndex q) := by
  rcases List.eq_nil_or_concat q with h' | ⟨l, b, h'⟩
  · exact absurd h' h
  · subst h'
    rw [List.concat_eq_append, sibPath_snoc, siblingIndexOf_snoc]

theorem pos_depth_pos {w : Walker Node} {a : TW Node} (hwf : w.position.WF) (hpos : w.position.path = a.pos) :
    w.position.depth = a.pos.length := by
  rw [← hpos, w.position.path_length hwf]

theorem getD_set_eq {α : Type} (l : List α) (i : Nat) (x d : α) (h : i < l.length) : (l.set i x).getD i d = x := by
  simp [List.getD, List.getElem?_set, h]

theorem getD_set_ne {α : Type} (l : List α) (i j : Nat) (x d : α) (h : i ≠ j) : (l.set i x).getD j d = l.getD j d := by
  simp [List.getD, List.getElem?_set, h]

/-- the ids of a chain get strictly shorter -/
theorem chain_shorter (parent : Option PageId) : ∀ (P : PageId) (rest : List PageId), ChainBelow parent (P :: rest) →
    ∀ Q ∈ rest, Q.length < P.length := by
  intro P rest
  induction rest generalizing P with
  | nil => intro _ Q hQ; cases hQ
  | cons R rest ih =>
    intro h Q hQ
    obtain ⟨hne, hR, hrest⟩ := h
    have hlen : R.length < P.length := by
      rw [hR, List.length_dropLast]
      have : 1 ≤ P.length := List.length_pos_iff.mpr hne
      omega
    rcases List.mem_cons.mp hQ with e | hQ'
    · rw [e]; exact hlen
    · exact Nat.lt_trans (ih R hrest Q hQ') hlen

theorem chain_tail (parent : Option PageId) (P : PageId) (rest : List PageId) (h : ChainBelow parent (P :: rest)) :
    ChainBelow parent rest := by
  cases rest with
  | nil => trivial
  | cons Q rest => exact h.2.2

/-- the length of the top id of a chain -/
theorem chain_top_length (parent : Option PageId) : ∀ (P : PageId) (rest : List PageId), ChainBelow parent (P :: rest) →
    P.length = k0 parent + rest.length := by
  intro P rest
  induction rest generalizing P with
  | nil =>
    intro h
    cases parent with
    | none => simp only [ChainBelow] at h; subst h; rfl
    | some pp =>
      simp only [ChainBelow] at h
      obtain ⟨hne, hd⟩ := h
      have : 1 ≤ P.length := List.length_pos_iff.mpr hne
      have := congrArg List.length hd
      rw [List.length_dropLast] at this
      simp [k0]; omega
  | cons R rest ih =>
    intro h
    obtain ⟨hne, hR, hrest⟩ := h
    have := ih R hrest
    have h1 : 1 ≤ P.length := List.length_pos_iff.mpr hne
    have h2 : R.length = P.length - 1 := by rw [hR, List.length_dropLast]
    simp only [List.length_cons]
    omega

section
variable (ps : PageSet Node)

/-- replacing the page on top of the stack (same id, same counters) and the flat store consistently -/
theorem sim_update_top {w : Walker Node} {a : TW Node} (h : Sim H ps w a) (top : StackPage Node) (rest : List (StackPage Node))
    (hst : w.stack = top :: rest) (top' : StackPage Node) (st' : Store Node)
    (hid : top'.pageId = top.pageId) (hc : CountersOK top') (hdf : DiffOK H ps top')
    (hctr : top'.prevChildrenLeaves = top.prevChildrenLeaves ∧ top'.pageLeaves = top.pageLeaves ∧
      top'.childrenLeaves = top.childrenLeaves)
    (hm : PageMatches H top' st') (hrest : ∀ sp ∈ rest, PageMatches H sp st') (hroot : st' [] = a.store [])
    (wl' : List Path) :
    Sim H ps { w with stack := top' :: rest } { a with store := st', wl := wl' } := by
  have hrecon : ReconInv H ({ w with stack := top' :: rest } : Walker Node)
      ({ a with store := st', wl := wl' } : TW Node) := by
    refine ⟨h.recon.kinds, ?_, ?_, h.recon.outIds⟩
    · intro hr
      obtain ⟨h1, h2⟩ := h.recon.rc hr
      refine ⟨h1, ?_⟩
      intro sp hsp
      rcases List.mem_cons.mp hsp with e | hsp'
      · rw [e, hctr.1, hctr.2.1]; exact h2 top (by rw [hst]; simp)
      · exact h2 sp (by rw [hst]; exact List.mem_cons_of_mem _ hsp')
    · intro hr
      have := h.recon.acct hr
      rw [hst] at this
      show ((top' :: rest).map clOf).sum ≤ _
      simp only [List.map_cons, List.sum_cons] at this ⊢
      have e : clOf top' = clOf top := by unfold clOf; rw [hctr.2.2]
      rw [e]; exact this
  refine ⟨h.wf, h.pos, ?_, ?_, ?_, ?_, ?_, ?_, hrecon, h.cpr, h.outs, h.nofix, ?_⟩
  · show w.root = st' []
    rw [hroot]; exact h.root
  · constructor
    · intro e; cases e
    · intro hle
      have := h.stackE.mpr hle
      rw [hst] at this; cases this
  · intro sp rest' e
    simp only [List.cons.injEq] at e
    rw [← e.1, hid]
    exact h.stackT top rest hst
  · have := h.chain
    rw [hst] at this
    simpa [hid] using this
  · intro sp hsp
    rcases List.mem_cons.mp hsp with e | hsp'
    · rw [e]; exact hm
    · exact hrest sp hsp'
  · intro sp hsp
    rcases List.mem_cons.mp hsp with e | hsp'
    · rw [e]; exact hc
    · exact h.counters sp (by rw [hst]; exact List.mem_cons_of_mem _ hsp')
  · intro sp hsp
    rcases List.mem_cons.mp hsp with e | hsp'
    · rw [e]; exact hdf
    · exact h.diffs sp (by rw [hst]; exact List.mem_cons_of_mem _ hsp')

/-- the stack is not empty below the top layer -/
theorem sim_stack_cons {w : Walker Node} {a : TW Node} (h : Sim H ps w a) (hd : 6 * k0 w.parentPage < a.pos.length) :
    ∃ top rest, w.stack = top :: rest ∧ top.pageId = specPage a.pos := by
  cases hs : w.stack with
  | nil => have := h.stackE.mp hs; omega
  | cons top rest => exact ⟨top, rest, rfl, h.stackT top rest hs⟩

theorem sim_pos_ne {w : Walker Node} {a : TW Node} (hd : 6 * k0 w.parentPage < a.pos.length) : a.pos ≠ [] := by
  intro e; rw [e] at hd; simp at hd

theorem sim_len {w : Walker Node} {a : TW Node} (h : Sim H ps w a) : a.pos.length ≤ 256 := by
  rw [← pos_depth_pos h.wf h.pos]; exact h.wf.depthLe

/-- `node()` reads the flat store at the position -/
theorem sim_node {w : Walker Node} {a : TW Node} (h : Sim H ps w a) (hd : 6 * k0 w.parentPage < a.pos.length) :
    w.node H = .ok a.cur := by
  obtain ⟨top, rest, hst, htop⟩ := sim_stack_cons H ps h hd
  have hne := sim_pos_ne (w := w) hd
  have hdepth : 1 ≤ w.position.depth := by
    rw [pos_depth_pos h.wf h.pos]; exact List.length_pos_iff.mpr hne
  have hidx := (wf_nodeIndex_lt w.position h.wf hdepth).1
  obtain ⟨_, hm⟩ := h.pages top (by rw [hst]; simp)
  unfold Walker.node
  rw [hst]
  simp only [Page.getNode, hidx, if_true]
  rw [h.wf.idx, h.pos, hm a.pos hne (sim_len H ps h) htop.symm]
  rfl

/-- `sibling_node()` reads the flat store at the sibling path -/
theorem sim_siblingNode {w : Walker Node} {a : TW Node} (h : Sim H ps w a) (hd : 6 * k0 w.parentPage < a.pos.length) :
    w.siblingNode H = .ok a.sib := by
  obtain ⟨top, rest, hst, htop⟩ := sim_stack_cons H ps h hd
  have hne := sim_pos_ne (w := w) hd
  have hdepth : 1 ≤ w.position.depth := by
    rw [pos_depth_pos h.wf h.pos]; exact List.length_pos_iff.mpr hne
  have hidx := (wf_nodeIndex_lt w.position h.wf hdepth).2
  obtain ⟨_, hm⟩ := h.pages top (by rw [hst]; simp)
  unfold Walker.siblingNode
  rw [hst]
  simp only [Page.getNode, hidx, if_true]
  have hsi : w.position.siblingIndex = specIndex (sibPath a.pos) := by
    unfold Pos.siblingIndex
    rw [h.wf.idx, h.pos, specIndex_sibPath a.pos hne]
  have hsne : sibPath a.pos ≠ [] := by
    intro e
    have := congrArg List.length e
    rw [sibPath_length] at this
    exact hne (List.eq_nil_of_length_eq_zero this)
  rw [hsi, hm (sibPath a.pos) hsne (by rw [sibPath_length]; exact sim_len H ps h)
    (by rw [specPage_sibPath]; exact htop.symm)]
  rfl

/-- the fields no internal move touches -/
def Same (w w' : Walker Node) : Prop :=
  w'.parentPage = w.parentPage ∧ w'.lastPosition = w.lastPosition ∧ w'.inhibitElision = w.inhibitElision ∧
  w'.preFix = w.preFix ∧ w'.reconstruction = w.reconstruction

theorem Same.rfl' (w : Walker Node) : Same w w := ⟨rfl, rfl, rfl, rfl, rfl⟩

theorem Same.trans' {w1 w2 w3 : Walker Node} (h1 : Same w1 w2) (h2 : Same w2 w3) : Same w1 w3 :=
  ⟨h2.1.trans h1.1, h2.2.1.trans h1.2.1, h2.2.2.1.trans h1.2.2.1, h2.2.2.2.1.trans h1.2.2.2.1,
   h2.2.2.2.2.trans h1.2.2.2.2⟩

/-- writing one slot of the page on top of the stack = writing the flat store at the slot's path -/
theorem sim_write_top {w : Walker Node} {a : TW Node} (h : Sim H ps w a) (top : StackPage Node)
    (rest : List (StackPage Node)) (hst : w.stack = top :: rest) (r : Path) (hr : r ≠ []) (hrl : r.length ≤ 256)
    (hrp : specPage r = top.pageId) (n : Node) (d' : PageDiff)
    (hd' : ∀ i, i < 126 → (top.diff.changed i = true ∨ i = specIndex r) → d'.changed i = true) :
    Sim H ps { w with stack := { top with page := { top.page with nodes := top.page.nodes.set (specIndex r) n },
                                          diff := d' } :: rest }
      { a with store := upd a.store r n, wl := a.wl ++ [r] } := by
  obtain ⟨hlen, hm⟩ := h.pages top (by rw [hst]; simp)
  have hidx : specIndex r < 126 := specIndex_lt r hr
  apply sim_update_top H ps h top rest hst
  · rfl
  · exact h.counters top (by rw [hst]; simp)
  · obtain ⟨base, hb, hdn⟩ := h.diffs top (by rw [hst]; simp)
    refine ⟨base, hb, ?_⟩
    intro i hi hne
    apply hd' i hi
    by_cases e : i = specIndex r
    · exact Or.inr e
    · left
      apply hdn i hi
      simp only at hne
      rw [getD_set_ne _ _ _ _ _ (Ne.symm e)] at hne
      exact hne
  · exact ⟨rfl, rfl, rfl⟩
  · refine ⟨by simp [hlen], ?_⟩
    intro q hq hql hqp
    simp only at hqp
    by_cases e : q = r
    · subst e
      simp only [upd_same]
      exact getD_set_eq _ _ _ _ (by rw [hlen]; exact hidx)
    · rw [upd_other _ _ _ _ e]
      have : specIndex r ≠ specIndex q := by
        intro hi
        exact e (path_of_slot q r hq hr (by rw [hqp, hrp]) hi.symm)
      simp only
      rw [getD_set_ne _ _ _ _ _ this]
      exact hm q hq hql hqp
  · intro sp hsp
    obtain ⟨hl2, hm2⟩ := h.pages sp (by rw [hst]; exact List.mem_cons_of_mem _ hsp)
    refine ⟨hl2, ?_⟩
    intro q hq hql hqp
    have : q ≠ r := by
      intro e
      subst e
      have hc := h.chain
      rw [hst] at hc
      have := chain_shorter w.parentPage top.pageId (rest.map (·.pageId)) (by simpa using hc) sp.pageId
        (List.mem_map_of_mem hsp)
      rw [← hqp, hrp] at this
      omega
    rw [upd_other _ _ _ _ this]
    exact hm2 q hq hql hqp
  · rw [upd_other _ _ _ _ (Ne.symm hr)]

/-- `set_node` -/
theorem sim_setNode {w : Walker Node} {a : TW Node} (h : Sim H ps w a) (hd : 6 * k0 w.parentPage < a.pos.length)
    (n : Node) :
    ∃ w', w.setNode H n = .ok w' ∧ Sim H ps w' (a.setNode n) ∧ Same w w' ∧ w'.position = w.position ∧
      w'.childPageRoots = w.childPageRoots ∧ w'.root = w.root := by
  obtain ⟨top, rest, hst, htop⟩ := sim_stack_cons H ps h hd
  have hne := sim_pos_ne (w := w) hd
  have hdepth : 1 ≤ w.position.depth := by
    rw [pos_depth_pos h.wf h.pos]; exact List.length_pos_iff.mpr hne
  have hidx := (wf_nodeIndex_lt w.position h.wf hdepth).1
  have hni : w.position.nodeIndex = specIndex a.pos := by rw [h.wf.idx, h.pos]
  have hsim := fun d' hd' => sim_write_top H ps h top rest hst a.pos hne (sim_len H ps h) htop.symm n d' hd'
  unfold Walker.setNode
  rw [sim_siblingNode H ps h hd, hst]
  simp only [Page.setNode, hidx, if_true]
  have hchg : ∀ d : PageDiff, ∃ d', diffSetChanged d w.position.nodeIndex = .ok d' ∧
      ∀ i, i < 126 → (d.changed i = true ∨ i = w.position.nodeIndex) → d'.changed i = true := by
    intro d
    obtain ⟨d', h1, h2⟩ := PageDiff.setChanged_ok d hidx
    refine ⟨d', by unfold diffSetChanged; rw [h1], ?_⟩
    intro i hi hor
    rw [h2 i (by omega)]
    have : i ≠ 127 := by omega
    rcases hor with hh | hh
    · simp [this, hh]
    · subst hh; simp [this]
  rw [if_neg (by rw [h.nofix]; simp)]
  obtain ⟨d', hd', hd2⟩ := hchg top.diff
  rw [hd']
  refine ⟨_, rfl, ?_, Same.rfl' _, rfl, rfl, rfl⟩
  have := hsim (if (w.position.isFirstLayerInPage && decide (n = H.term) && decide (a.sib = H.term)) = true
    then d'.setCleared else d') (by
      intro i hi hor
      rw [← hni] at hor
      have := hd2 i hi hor
      split
      · rw [PageDiff.changed_setCleared, this]; rfl
      · exact this)
  rw [← hni] at this
  exact this

/-- `set_sibling` -/
theorem sim_setSibling {w : Walker Node} {a : TW Node} (h : Sim H ps w a) (hd : 6 * k0 w.parentPage < a.pos.length)
    (n : Node) :
    ∃ w', w.setSibling n = .ok w' ∧ Sim H ps w' (a.setSibling n) ∧ Same w w' ∧ w'.position = w.position ∧
      w'.childPageRoots = w.childPageRoots ∧ w'.root = w.root := by
  obtain ⟨top, rest, hst, htop⟩ := sim_stack_cons H ps h hd
  have hne := sim_pos_ne (w := w) hd
  have hdepth : 1 ≤ w.position.depth := by
    rw [pos_depth_pos h.wf h.pos]; exact List.length_pos_iff.mpr hne
  have hidx := (wf_nodeIndex_lt w.position h.wf hdepth).2
  have hsi : w.position.siblingIndex = specIndex (sibPath a.pos) := by
    unfold Pos.siblingIndex
    rw [h.wf.idx, h.pos, specIndex_sibPath a.pos hne]
  have hsne : sibPath a.pos ≠ [] := by
    intro e
    have := congrArg List.length e
    rw [sibPath_length] at this
    exact hne (List.eq_nil_of_length_eq_zero this)
  have hsim := fun d' hd' => sim_write_top H ps h top rest hst (sibPath a.pos) hsne
    (by rw [sibPath_length]; exact sim_len H ps h) (by rw [specPage_sibPath]; exact htop.symm) n d' hd'
  unfold Walker.setSibling
  rw [hst]
  simp only [Page.setNode, hidx, if_true]
  have hchg : ∃ d', diffSetChanged top.diff w.position.siblingIndex = .ok d' ∧
      ∀ i, i < 126 → (top.diff.changed i = true ∨ i = w.position.siblingIndex) → d'.changed i = true := by
    obtain ⟨d', h1, h2⟩ := PageDiff.setChanged_ok top.diff hidx
    refine ⟨d', by unfold diffSetChanged; rw [h1], ?_⟩
    intro i hi hor
    rw [h2 i (by omega)]
    have : i ≠ 127 := by omega
    rcases hor with hh | hh
    · simp [this, hh]
    · subst hh; simp [this]
  obtain ⟨d', hd', hd2⟩ := hchg
  rw [hd']
  refine ⟨_, rfl, ?_, Same.rfl' _, rfl, rfl, rfl⟩
  have := hsim d' (by intro i hi hor; rw [← hsi] at hor; exact hd2 i hi hor)
  rw [← hsi] at this
  exact this

end

end Nomt.Walker
