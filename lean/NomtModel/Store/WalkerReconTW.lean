import NomtModel.Store.WalkerReconSmall
/-!
# The tree walker's run of `reconstruct`

`reconstruct` = `advance_and_replace(position·0, left leaves)`, `advance_and_replace(position·1, right leaves)`, `compact_up(None)`
below a parent page, on a store in which the region below `position` is new.  On the tree walker (`Store/WalkerTree.lean`):
the two sub-tries are built (`tw_replace_spec`), the final round of the compaction leaves the first elided page and delivers
the node of `position` as the only child-page root; the pages left are exactly the pages at / below `position` that hold internal
nodes, each once, and each was right when it was left.
-/
namespace Nomt.Walker
open Nomt Nomt.TriePos

variable {Node VH : Type} [DecidableEq Node] [DecidableEq VH] (H : Hasher Node VH)

/-- the three stages of the tree walker's run -/
def twRecon1 (cfg : TWCfg Node) (st0 : Store Node) (p : Path) (O : List (Key × VH)) : TW Node :=
  ({ ({ pos := [], store := st0, log := [], cpr := [] } : TW Node) with pos := p ++ [false] } : TW Node).replaceTerminal H cfg (sub O (p ++ [false]))

def twRecon2 (cfg : TWCfg Node) (st0 : Store Node) (p : Path) (O : List (Key × VH)) : TW Node :=
  ({ twRecon1 H cfg st0 p O with pos := p ++ [true] } : TW Node).replaceTerminal H cfg (sub O (p ++ [true]))

def twRecon3 (cfg : TWCfg Node) (st0 : Store Node) (p : Path) (O : List (Key × VH)) : TW Node :=
  (twRecon2 H cfg st0 p O).compactUp H cfg none

structure TWReconFacts (cfg : TWCfg Node) (st0 : Store Node) (p : Path) (O : List (Key × VH)) : Prop where
  pos1 : (twRecon1 H cfg st0 p O).pos = p ++ [false]
  pos2 : (twRecon2 H cfg st0 p O).pos = p ++ [true]
  pos3 : (twRecon3 H cfg st0 p O).pos = p
  cpr1 : (twRecon1 H cfg st0 p O).cpr = []
  cpr2 : (twRecon2 H cfg st0 p O).cpr = []
  cpr3 : (twRecon3 H cfg st0 p O).cpr = [(p, specNode H O p)]
  pre12 : (twRecon1 H cfg st0 p O).log <+: (twRecon2 H cfg st0 p O).log
  pre23 : (twRecon2 H cfg st0 p O).log <+: (twRecon3 H cfg st0 p O).log
  logok : ∀ e ∈ (twRecon3 H cfg st0 p O).log, LogOK H (fun _ => True) O e
  ids : ∃ Lc, (twRecon3 H cfg st0 p O).log.map (·.1) = Lc.map sextetsOf ∧ BlockIds O p Lc

theorem tw_compactUp_zero (cfg : TWCfg Node) (a : TW Node) (t : Path)
    (h : a.pos.length - (sharedBits a.pos t + 1) = 0) : a.compactUp H cfg (some t) = a := by
  unfold TW.compactUp
  split
  · rfl
  · simp only [h, TW.compactLoop]

theorem twRecon_facts (hs : H.Sound) {O : List (Key × VH)} (hk : KeysOK O) (cfg : TWCfg Node) (st0 : Store Node)
    (p : Path) (hp6 : p.length % 6 = 0) (hpne : p ≠ []) (h2 : 2 ≤ (sub O p).length) (hpl : p.length ≤ 256)
    (htop : cfg.top = p.length) (hpar : cfg.hasParent = true) : TWReconFacts H cfg st0 p O := by
  have hplt : p.length < 256 := lt_of_two_le_sub hk p hpl h2
  have hl : ∀ b : Bool, (p ++ [b]).length ≤ 256 := by intro b; simp; omega
  -- stage 1
  obtain ⟨a1p, a1g, a1s, a1f, a1l, a1m, a1c⟩ := tw_replace_spec H (fun _ => True) hs hk cfg
    ({ ({ pos := [], store := st0, log := [], cpr := [] } : TW Node) with pos := p ++ [false] } : TW Node) (hl false)
  obtain ⟨L0, hid0, hb0⟩ := tw_replace_ids H hs hk cfg
    ({ ({ pos := [], store := st0, log := [], cpr := [] } : TW Node) with pos := p ++ [false] } : TW Node) (hl false)
  -- stage 2
  obtain ⟨a2p, a2g, a2s, a2f, a2l, a2m, a2c⟩ := tw_replace_spec H (fun _ => True) hs hk cfg
    ({ twRecon1 H cfg st0 p O with pos := p ++ [true] } : TW Node) (hl true)
  obtain ⟨L1, hid1, hb1⟩ := tw_replace_ids H hs hk cfg
    ({ twRecon1 H cfg st0 p O with pos := p ++ [true] } : TW Node) (hl true)
  have hlog1 : ∀ e ∈ (twRecon1 H cfg st0 p O).log, LogOK H (fun _ => True) O e := by
    intro e he
    rcases a1l e he with h | h
    · cases h
    · exact h
  have hlog2 : ∀ e ∈ (twRecon2 H cfg st0 p O).log, LogOK H (fun _ => True) O e := by
    intro e he
    rcases a2l e he with h | h
    · exact hlog1 e h
    · exact h
  -- the left sub-trie survives the right one
  have hkeep : ∀ q, (p ++ [false]) <+: q → (twRecon2 H cfg st0 p O).store q = (twRecon1 H cfg st0 p O).store q := by
    intro q hq
    apply a2f q
    have := not_prefix_flip p false q hq
    simpa using this
  have hg0 : Good H O (twRecon2 H cfg st0 p O).store (p ++ [false]) := by
    show _ = _
    rw [hkeep _ (List.prefix_refl _)]; exact a1g
  have hs0 : SubOK H (fun _ => True) O (twRecon2 H cfg st0 p O).store (p ++ [false]) := by
    intro r hpre hne hlen hD hm
    rw [hkeep r hpre]; exact a1s r hpre hne hlen hD hm
  -- stage 3: one round
  have hpos2 : (twRecon2 H cfg st0 p O).pos = p ++ [true] := a2p
  have hlen2 : (twRecon2 H cfg st0 p O).pos.length = p.length + 1 := by rw [hpos2]; simp
  have hse : (twRecon2 H cfg st0 p O).stackEmpty cfg = false := by
    unfold TW.stackEmpty; rw [hlen2, htop]; simp
  have h3 : twRecon3 H cfg st0 p O = TW.compactLoop H cfg 1 (twRecon2 H cfg st0 p O) := by
    unfold twRecon3 TW.compactUp
    rw [hse]
    simp only [Bool.false_eq_true, if_false]
    rw [tw_compactLoop_min H cfg _ _ (by rw [hlen2, htop]; omega)]
    congr 1
    rw [hlen2, htop]; omega
  obtain ⟨rv, rpos, rcpr, rfr, rst, rsub, rlog, rmono⟩ := tw_round H (fun _ => True) hs hk (twRecon2 H cfg st0 p O) p true
    hpos2 hplt a2g (by simpa using hg0) a2s (by simpa using hs0)
  have hse3 : (((twRecon2 H cfg st0 p O).compactStep H).2.up).stackEmpty cfg = true := by
    unfold TW.stackEmpty; rw [rpos, htop]; simp
  have h3' : twRecon3 H cfg st0 p O =
      { ((twRecon2 H cfg st0 p O).compactStep H).2.up with
        cpr := (((twRecon2 H cfg st0 p O).compactStep H).2.up).cpr ++
          [((((twRecon2 H cfg st0 p O).compactStep H).2.up).pos, ((twRecon2 H cfg st0 p O).compactStep H).1)] } := by
    rw [h3, tw_compactLoop_succ, if_pos hse3, if_pos hpar]
  -- the ids of the last pop
  have hlog3 : (twRecon3 H cfg st0 p O).log.map (·.1) =
      (twRecon2 H cfg st0 p O).log.map (·.1) ++ [sextetsOf p] := by
    rw [h3']
    show (((twRecon2 H cfg st0 p O).compactStep H).2.up).log.map (·.1) = _
    rw [tw_up_log, tw_compactStep_log]
    have hpos' : ((twRecon2 H cfg st0 p O).compactStep H).2.pos = p ++ [true] ∨
        ((twRecon2 H cfg st0 p O).compactStep H).2.pos = p ++ [!true] :=
      (tw_compactStep_effect H hs hk (twRecon2 H cfg st0 p O) p true hpos2 hplt a2g (by simpa using hg0)).2.1
    have hdip : dip ((twRecon2 H cfg st0 p O).compactStep H).2.pos = 1 := by
      rcases hpos' with h | h <;> rw [h, dip_snoc] <;> omega
    have hsp : specPage ((twRecon2 H cfg st0 p O).compactStep H).2.pos = sextetsOf p := by
      rcases hpos' with h | h <;> rw [h] <;> exact specPage_snoc_boundary p _ hp6
    rw [if_pos hdip, hsp]
    simp
  refine ⟨a1p, a2p, ?_, a1c, ?_, ?_, ?_, ?_, ?_, ?_⟩
  · rw [h3']; exact rpos
  · have c2 : (twRecon2 H cfg st0 p O).cpr = (twRecon1 H cfg st0 p O).cpr := a2c
    have c1 : (twRecon1 H cfg st0 p O).cpr = [] := a1c
    rw [c2, c1]
  · rw [h3']
    show (((twRecon2 H cfg st0 p O).compactStep H).2.up).cpr ++ _ = _
    rw [rcpr, rpos, rv]
    have c2 : (twRecon2 H cfg st0 p O).cpr = (twRecon1 H cfg st0 p O).cpr := a2c
    have c1 : (twRecon1 H cfg st0 p O).cpr = [] := a1c
    rw [c2, c1]; rfl
  · exact tw_replaceTerminal_log_prefix H cfg ({ twRecon1 H cfg st0 p O with pos := p ++ [true] } : TW Node) _
  · rw [h3]; exact tw_compactLoop_log_prefix H cfg 1 _
  · intro e he
    rw [h3'] at he
    rcases rlog e he with h | h
    · exact hlog2 e h
    · exact h
  · refine ⟨L0 ++ L1 ++ (if p.length % 6 = 0 then [p] else []), ?_, blockIds_join p L0 L1 hpl h2 hb0 hb1⟩
    rw [hlog3, if_pos hp6]
    have e1 : (twRecon2 H cfg st0 p O).log.map (·.1) =
        (twRecon1 H cfg st0 p O).log.map (·.1) ++ L1.map sextetsOf := hid1
    have e0 : (twRecon1 H cfg st0 p O).log.map (·.1) = [] ++ L0.map sextetsOf := hid0
    rw [e1, e0]
    simp

end Nomt.Walker
