import NomtModel.Store.ExtRangeLaws
import NomtModel.Store.ExtRangeAdjInit
/-!
"Tracker keys produced later are larger" as an invariant of every interleaving (`KInv`), from the law `digest_keys` /
`lb_mono` of `UpdLaws`: in every reachable state every node a worker has produced and still holds sits in its tracker under
a separator below the bound `lb st` for the separators its updater will emit next.  Consequences: `handle_new_*` never
overwrites a produced node (`NodesTracker::insert` replaces `inserted` — with a colliding separator a node would be lost
silently), and the entries a worker appends later all lie behind the ones it has (the premise of `answer_stable`).
-/
namespace Nomt.ExtRange

variable {σ N C : Type}

/-- every produced node in the worker's tracker has a separator below the updater's next-emission bound -/
def KW (lbf : σ → Nat) (w : W σ N C) : Prop :=
  ∀ k e, (k, e) ∈ w.tr.inner → e.inserted.isSome → k < lbf w.st

/-- in a response only the last entry can carry a node (it becomes the pending base) -/
def RespOK (w : W σ N C) : Prop :=
  ∀ r, w.resp = some r → ∀ k e, (k, e) ∈ r.changed.dropLast → e.inserted = none

def KInv (lbf : σ → Nat) (g : G σ N C) : Prop := ∀ i, KW lbf (g.ws i) ∧ RespOK (g.ws i)

theorem mem_upsert {key : Nat} {f : TE N → TE N} {dflt : TE N} : ∀ (l : Inner N) (k : Nat) (e : TE N),
    (k, e) ∈ upsert key f dflt l → (k, e) ∈ l ∨ (k = key ∧ (e = f dflt ∨ ∃ e0, (key, e0) ∈ l ∧ e = f e0))
  | [], k, e, h => by
    simp only [upsert, List.mem_singleton, Prod.mk.injEq] at h
    exact Or.inr ⟨h.1, Or.inl h.2⟩
  | (k0, e0) :: t, k, e, h => by
    simp only [upsert] at h
    split at h
    · rcases List.mem_cons.1 h with h | h
      · simp only [Prod.mk.injEq] at h; exact Or.inr ⟨h.1, Or.inl h.2⟩
      · exact Or.inl h
    · split at h
      · rename_i hk
        rcases List.mem_cons.1 h with h | h
        · simp only [Prod.mk.injEq] at h
          exact Or.inr ⟨by omega, Or.inr ⟨e0, by rw [hk]; simp, h.2⟩⟩
        · exact Or.inl (List.mem_cons_of_mem _ h)
      · rcases List.mem_cons.1 h with h | h
        · exact Or.inl (by rw [h]; simp)
        · rcases mem_upsert t k e h with h | ⟨h1, h2⟩
          · exact Or.inl (List.mem_cons_of_mem _ h)
          · refine Or.inr ⟨h1, ?_⟩
            rcases h2 with h2 | ⟨e1, h3, h4⟩
            · exact Or.inl h2
            · exact Or.inr ⟨e1, List.mem_cons_of_mem _ h3, h4⟩

/-- `Tracker.insert` keeps "produced nodes below `B`" when the new separator is below `B` -/
theorem kw_insert (B : Nat) (t : Tracker N) (key : Nat) (nd : N) (next : Option Nat) (pn : Pn)
    (h : ∀ k e, (k, e) ∈ t.inner → e.inserted.isSome → k < B) (hk : key < B) :
    ∀ k e, (k, e) ∈ (t.insert key nd next pn).inner → e.inserted.isSome → k < B := by
  intro k e hm hi
  rcases mem_upsert _ _ _ hm with h1 | ⟨h1, _⟩
  · exact h k e h1 hi
  · omega

/-- `Tracker.delete` does not touch produced nodes -/
theorem kw_delete (B : Nat) (t t' : Tracker N) (key pn : Nat) (next : Option Nat)
    (h : ∀ k e, (k, e) ∈ t.inner → e.inserted.isSome → k < B) (hd : t.delete key pn next = some t') :
    ∀ k e, (k, e) ∈ t'.inner → e.inserted.isSome → k < B := by
  unfold Tracker.delete at hd
  split at hd
  · cases hd
  · cases hd
    intro k e hm hi
    rcases mem_upsert _ _ _ hm with h1 | ⟨h1, h2⟩
    · exact h k e h1 hi
    · rcases h2 with h2 | ⟨e0, h3, h4⟩
      · subst h2; simp at hi
      · subst h4; exact h1 ▸ h key e0 h3 (by simpa using hi)

theorem kw_handleNew (B : Nat) (i : Nat) : ∀ (outs : List (Nat × N × Option Nat)) (w : W σ N C),
    (∀ k e, (k, e) ∈ w.tr.inner → e.inserted.isSome → k < B) → (∀ o ∈ outs, o.1 < B) →
    (∀ k e, (k, e) ∈ (handleNew i w outs).tr.inner → e.inserted.isSome → k < B) ∧ (handleNew i w outs).st = w.st
  | [], w, h, _ => ⟨h, rfl⟩
  | (key, nd, c) :: rest, w, h, ho => by
    simp only [handleNew]
    have := kw_handleNew B i rest
      { w with tr := w.tr.insert key nd c (.new i w.alloc), alloc := w.alloc + 1 }
      (kw_insert B w.tr key nd c _ h (ho (key, nd, c) (by simp))) (fun o hm => ho o (List.mem_cons_of_mem _ hm))
    exact this

/-- entries added by `extend` carry no node when the added list carries none -/
theorem mem_extend : ∀ (changed inner : Inner N) (k : Nat) (e : TE N),
    (k, e) ∈ extend inner changed → (k, e) ∈ inner ∨ (k, e) ∈ changed
  | [], inner, k, e, h => Or.inl h
  | (k0, e0) :: t, inner, k, e, h => by
    simp only [extend] at h
    rcases mem_extend t _ k e h with h | h
    · rcases mem_upsert _ _ _ h with h | ⟨h1, h2⟩
      · exact Or.inl h
      · right
        rcases h2 with h2 | ⟨_, _, h2⟩ <;> (subst h1; subst h2; simp)
    · exact Or.inr (List.mem_cons_of_mem _ h)

/-- the scan passes only entries without a node -/
theorem scan_passed_none : ∀ (inner : Inner N) (sep : Option Nat) (cnt : Nat),
    (∀ c key, scan sep cnt inner = .unch c key → ∀ k e, (k, e) ∈ inner.take (c - cnt) → e.inserted = none) ∧
    (∀ c nh, scan sep cnt inner = .next c nh → ∀ k e, (k, e) ∈ inner.take (c - cnt) → e.inserted = none) ∧
    (∀ c s, scan sep cnt inner = .fin c s → ∀ k e, (k, e) ∈ inner → e.inserted = none) ∧
    (∀ c key, scan sep cnt inner = .unch c key → cnt ≤ c) ∧ (∀ c nh, scan sep cnt inner = .next c nh → cnt ≤ c)
  | [], sep, cnt => by simp [scan]
  | (key, e0) :: t, sep, cnt => by
    simp only [scan]
    by_cases h1 : gapBefore sep key = true
    · simp only [h1, if_true]
      refine ⟨?_, ?_, ?_, ?_, ?_⟩
      · intro c k h; cases h; simp
      · intro c nh h; cases h
      · intro c s h; cases h
      · intro c k h; cases h; omega
      · intro c nh h; cases h
    · simp only [h1, if_false]
      by_cases h2 : e0.inserted.isSome = true
      · simp only [h2, if_true]
        refine ⟨?_, ?_, ?_, ?_, ?_⟩
        · intro c k h; cases h
        · intro c nh h; cases h; simp
        · intro c s h; cases h
        · intro c k h; cases h
        · intro c nh h; cases h; omega
      · simp only [h2, if_false]
        have hn : e0.inserted = none := by
          cases hi : e0.inserted with
          | none => rfl
          | some x => simp [hi] at h2
        obtain ⟨r1, r2, r3, r4, r5⟩ := scan_passed_none t e0.next (cnt + 1)
        refine ⟨?_, ?_, ?_, ?_, ?_⟩
        · intro c k h k' e' hm
          have hc := r4 c k h
          have : c - cnt = (c - (cnt + 1)) + 1 := by omega
          rw [this, List.take_succ_cons] at hm
          rcases List.mem_cons.1 hm with hm | hm
          · cases hm; exact hn
          · exact r1 c k h k' e' hm
        · intro c nh h k' e' hm
          have hc := r5 c nh h
          have : c - cnt = (c - (cnt + 1)) + 1 := by omega
          rw [this, List.take_succ_cons] at hm
          rcases List.mem_cons.1 hm with hm | hm
          · cases hm; exact hn
          · exact r2 c nh h k' e' hm
        · intro c s h k' e' hm
          rcases List.mem_cons.1 hm with hm | hm
          · cases hm; exact hn
          · exact r3 c s h k' e' hm
        · intro c k h; have := r4 c k h; omega
        · intro c nh h; have := r5 c nh h; omega

/-- in an answer only the last entry can carry a node -/
theorem answer_dropLast_none (inner : Inner N) (low high right : Option Nat) (fin : Bool) (resp : Resp N)
    (inner' : Inner N) (relink : Bool) (h : answer inner low high right fin = some (resp, inner', relink)) :
    ∀ k e, (k, e) ∈ resp.changed.dropLast → e.inserted = none := by
  obtain ⟨r1, r2, r3, _, _⟩ := scan_passed_none inner low 0
  unfold answer at h
  cases hs : scan low 0 inner with
  | unch c key =>
    rw [hs] at h; simp only [Option.some.injEq, Prod.mk.injEq] at h; obtain ⟨h1, _, _⟩ := h; subst h1
    intro k e hm
    exact r1 c key hs k e (List.dropLast_subset _ hm)
  | next c nh =>
    rw [hs] at h; simp only [Option.some.injEq, Prod.mk.injEq] at h; obtain ⟨h1, _, _⟩ := h; subst h1
    intro k e hm
    have hpre : ∀ (l : Inner N) (n : Nat), ∀ x, x ∈ (l.take (n + 1)).dropLast → x ∈ l.take n := by
      intro l
      induction l with
      | nil => intro n x hx; simp at hx
      | cons a t ih =>
        intro n x hx
        cases n with
        | zero => simp at hx
        | succ n =>
          rw [List.take_succ_cons] at hx ⊢
          cases ht : t.take (n + 1) with
          | nil => rw [ht] at hx; simp at hx
          | cons b u =>
            rw [ht, List.dropLast_cons_cons] at hx
            rcases List.mem_cons.1 hx with hx | hx
            · rw [hx]; simp
            · exact List.mem_cons_of_mem _ (ih n x (by rw [ht]; exact hx))
    exact r2 c nh hs k e (by simpa using hpre inner c _ hm)
  | fin c s =>
    rw [hs] at h
    simp only at h
    have hall := r3 c s hs
    cases fin with
    | false => simp at h
    | true =>
      simp only [if_true] at h
      intro k e hm
      have hsub : ∀ x, x ∈ resp.changed → x ∈ inner := by
        intro x hx
        cases hu : unchAtEnd s high with
        | true => rw [hu] at h; simp only [if_true, Option.some.injEq, Prod.mk.injEq] at h; obtain ⟨h1, _, _⟩ := h; subst h1; exact List.mem_of_mem_take hx
        | false =>
          rw [hu] at h
          simp only [Bool.false_eq_true, if_false, Option.some.injEq, Prod.mk.injEq] at h
          obtain ⟨h1, _, _⟩ := h; subst h1; exact List.mem_of_mem_take hx
      exact hall k e (hsub _ (List.dropLast_subset _ hm))

/-- what the responder keeps is part of its tracker -/
theorem C19sub {inner : Inner N} {low high right : Option Nat} {fin : Bool} {resp : Resp N} {inner' : Inner N}
    {relink : Bool} (h : answer inner low high right fin = some (resp, inner', relink)) : ∀ x, x ∈ inner' → x ∈ inner := by
  unfold answer at h
  cases hs : scan low 0 inner with
  | unch c k => rw [hs] at h; simp only [Option.some.injEq, Prod.mk.injEq] at h; obtain ⟨_, h2, _⟩ := h; subst h2; exact fun x hx => List.mem_of_mem_drop hx
  | next c nh => rw [hs] at h; simp only [Option.some.injEq, Prod.mk.injEq] at h; obtain ⟨_, h2, _⟩ := h; subst h2; exact fun x hx => List.mem_of_mem_drop hx
  | fin c s =>
    rw [hs] at h
    simp only at h
    cases fin with
    | false => simp at h
    | true =>
      simp only [if_true] at h
      cases hu : unchAtEnd s high with
      | true => rw [hu] at h; simp only [if_true, Option.some.injEq, Prod.mk.injEq] at h; obtain ⟨_, h2, _⟩ := h; subst h2; exact fun x hx => List.mem_of_mem_drop hx
      | false =>
        rw [hu] at h
        simp only [Bool.false_eq_true, if_false, Option.some.injEq, Prod.mk.injEq] at h
        obtain ⟨_, h2, _⟩ := h; subst h2; exact fun x hx => List.mem_of_mem_drop hx

/-- the part of `UpdLaws` the key order needs -/
structure KeyLaws (U : Upd σ N C) (lbf : σ → Nat) : Prop where
  digest : ∀ st st' outs r, U.digest st = some (st', outs, r) → (∀ o ∈ outs, o.1 < lbf st') ∧ lbf st ≤ lbf st'
  reset : ∀ st b c, lbf st ≤ lbf (U.resetBase st b c)
  rmcut : ∀ st, lbf st ≤ lbf (U.removeCutoff st)
  ingest : ∀ st k c st', U.ingest st k c = some st' → lbf st ≤ lbf st'

theorem UpdLaws.keyLaws {E : Type} {U : Upd σ N C} {items : N → List E} {cont : σ → List E} {key : E → Nat}
    {put : Nat → C → Option E} {cutoffOf : σ → Option Nat} {lb : σ → Nat}
    (L : UpdLaws U items cont key put cutoffOf lb) : KeyLaws U lb :=
  ⟨fun st st' outs r h => ⟨fun o ho => ((L.digest_keys st st' outs r h).2.1 o ho).2, (L.digest_keys st st' outs r h).2.2.1⟩,
   L.lb_mono.1, L.lb_mono.2.1, L.lb_mono.2.2⟩

def KOK (lbf : σ → Nat) : Res (G σ N C) → Prop
  | .ok g' => KInv lbf g'
  | _ => True

theorem kinv_set (lbf : σ → Nat) (g : G σ N C) (h : KInv lbf g) (i : Nat) (w' : W σ N C) (hk : KW lbf w')
    (hr : RespOK w') (chans : Nat → List Nat) : KInv lbf { setW g i w' with chans := chans } := by
  intro j
  simp only [setW, upd]
  by_cases hj : j = i
  · simp only [hj, if_true]; exact ⟨hk, hr⟩
  · simp only [hj, if_false]; exact h j

theorem kw_mono {lbf : σ → Nat} {w w' : W σ N C} (h : KW lbf w) (ht : w'.tr.inner = w.tr.inner)
    (hs : lbf w.st ≤ lbf w'.st) : KW lbf w' := by
  intro k e hm hi
  rw [ht] at hm
  have := h k e hm hi
  omega

theorem kw_resetFresh {U : Upd σ N C} {lbf : σ → Nat} (KL : KeyLaws U lbf) (cfg : Cfg) (db : List (DbN N))
    (w w' : W σ N C) (key : Nat) (h : KW lbf w) (hr : resetFresh U cfg db w key = some w') : KW lbf w' := by
  unfold resetFresh at hr
  have hdel : ∀ (tr : Tracker N) (sep pn : Nat) (nx : Option Nat) (b : Option (Nat × N)) (c : Option Nat),
      w.tr.delete sep pn nx = some tr → ∀ k e, (k, e) ∈ tr.inner → e.inserted.isSome → k < lbf (U.resetBase w.st b c) := by
    intro tr sep pn nx b c hd k e hm hi
    have := kw_delete (lbf w.st) w.tr tr sep pn nx h hd k e hm hi
    have := KL.reset w.st b c
    omega
  split at hr
  · split at hr
    · split at hr
      · cases hr
      · rename_i tr hd; cases hr; exact hdel tr _ _ _ _ _ hd
    · split at hr
      · cases hr; exact h
      · split at hr
        · cases hr
        · rename_i tr hd; cases hr; exact hdel tr _ _ _ _ _ hd
  · split at hr
    · cases hr; exact h
    · split at hr
      · cases hr
      · rename_i tr hd; cases hr; exact hdel tr _ _ _ _ _ hd

theorem kw_resetBaseW {U : Upd σ N C} {lbf : σ → Nat} (KL : KeyLaws U lbf) (cfg : Cfg) (db : List (DbN N))
    (w w' : W σ N C) (b : Bool) (key : Nat) (h : KW lbf w) (hr : resetBaseW U cfg db w b key = .ok w') : KW lbf w' := by
  unfold resetBaseW at hr
  split at hr
  · split at hr
    · cases hr
    · rename_i hw; cases hr; exact kw_resetFresh KL cfg db w _ key h hw
  · split at hr
    · cases hr
    · split at hr
      · cases hr
        exact kw_mono h rfl (KL.reset _ _ _)
      · split at hr
        · split at hr
          · cases hr
          · rename_i hw; cases hr; exact kw_resetFresh KL cfg db w _ _ h hw
        · cases hr; exact kw_mono h rfl (KL.rmcut _)

theorem resetFresh_resp (U : Upd σ N C) (cfg : Cfg) (db : List (DbN N)) (w w' : W σ N C) (key : Nat)
    (h : resetFresh U cfg db w key = some w') : w'.resp = w.resp := (resetFresh_same U cfg db w w' key h).2.2.2.1

theorem kw_digest {U : Upd σ N C} {lbf : σ → Nat} (KL : KeyLaws U lbf) (i : Nat) (w : W σ N C) (st' : σ)
    (outs : List (Nat × N × Option Nat)) (r : Option Nat) (h : KW lbf w) (hd : U.digest w.st = some (st', outs, r)) :
    KW lbf (handleNew i { w with st := st' } outs) := by
  obtain ⟨h1, h2⟩ := KL.digest _ _ _ _ hd
  have := kw_handleNew (lbf st') i outs { w with st := st' }
    (fun k e hm hi => by have := h k e hm hi; omega) h1
  intro k e hm hi
  rw [this.2]
  exact this.1 k e hm hi

theorem kw_digest' {U : Upd σ N C} {lbf : σ → Nat} (KL : KeyLaws U lbf) (i : Nat) (w0 : W σ N C) (st st' : σ)
    (outs : List (Nat × N × Option Nat)) (r : Option Nat) (hd : U.digest st = some (st', outs, r))
    (h : ∀ k e, (k, e) ∈ w0.tr.inner → e.inserted.isSome → k < lbf st) (hst : w0.st = st') :
    KW lbf (handleNew i w0 outs) := by
  obtain ⟨h1, h2⟩ := KL.digest _ _ _ _ hd
  have := kw_handleNew (lbf st') i outs w0 (fun k e hm hi => by have := h k e hm hi; omega) h1
  intro k e hm hi
  rw [this.2, hst]
  exact this.1 k e hm hi

theorem kw_takeResp {lbf : σ → Nat} (w : W σ N C) (r : Resp N) (h : KW lbf w) (hr : w.resp = some r)
    (hro : RespOK w) : KW lbf (takeResp w r) ∧ RespOK (takeResp w r) := by
  have hdl := hro r hr
  constructor
  · intro k e hm hi
    have hst : (takeResp w r).st = w.st := by unfold takeResp; split; rfl
    rw [hst]
    unfold takeResp at hm
    cases hl : r.changed.getLast? with
    | none =>
      simp only [hl] at hm
      rcases mem_extend _ _ k e hm with hm | hm
      · exact h k e hm hi
      · have : r.changed = [] := List.getLast?_eq_none_iff.1 hl
        rw [this] at hm; cases hm
    | some x =>
      obtain ⟨lk, le⟩ := x
      have hsplit : r.changed = r.changed.dropLast ++ [(lk, le)] := by
        have hne : r.changed ≠ [] := by intro e0; rw [e0] at hl; cases hl
        rw [List.getLast?_eq_some_getLast hne] at hl
        simp only [Option.some.injEq] at hl
        rw [← hl]; exact (List.dropLast_concat_getLast hne).symm
      cases hin : le.inserted with
      | none =>
        simp only [hl, hin] at hm
        rcases mem_extend _ _ k e hm with hm | hm
        · exact h k e hm hi
        · rw [hsplit] at hm
          rcases List.mem_append.1 hm with hm | hm
          · rw [hdl k e hm] at hi; cases hi
          · simp only [List.mem_singleton, Prod.mk.injEq] at hm; rw [hm.2, hin] at hi; cases hi
      | some y =>
        obtain ⟨nd, pn⟩ := y
        simp only [hl, hin] at hm
        rcases mem_extend _ _ k e hm with hm | hm
        · exact h k e hm hi
        · rcases List.mem_append.1 hm with hm | hm
          · rw [hdl k e hm] at hi; cases hi
          · simp only [List.mem_singleton, Prod.mk.injEq] at hm; rw [hm.2] at hi; cases hi
  · intro r' hr'
    rw [(takeResp_frame w r).2.2.2.1] at hr'; cases hr'

theorem kinv_reset {U : Upd σ N C} {lbf : σ → Nat} (KL : KeyLaws U lbf) (cfg : Cfg) (db : List (DbN N)) (g : G σ N C)
    (h : KInv lbf g) (i : Nat) (k : Nat) (pc : Pc) :
    KOK lbf (match resetBaseW U cfg db (g.ws i) false k with
      | .ok w' => .ok (setW g i { w' with pc := pc })
      | .panic s => .panic s
      | .blocked => .blocked) := by
  rcases resetBaseW_cases U cfg db (g.ws i) false k with ⟨w', hw, hs⟩ | ⟨s, hw, _⟩
  · rw [hw]
    have hk := kw_resetBaseW KL cfg db (g.ws i) w' false k (h i).1 hw
    exact kinv_set lbf g h i { w' with pc := pc } hk
      (fun r hr => (h i).2 r (by rw [← hs.2.2.2.1]; exact hr)) g.chans
  · rw [hw]; trivial

theorem kinv_sendRequest (lbf : σ → Nat) (g : G σ N C) (h : KInv lbf g) (i : Nat) (w : W σ N C) (k : Nat) (fin : Bool)
    (hk : KW lbf w) (hr : RespOK w) : KOK lbf (sendRequest g i w k fin) := by
  unfold sendRequest
  split
  · trivial
  · split
    · trivial
    · exact kinv_set lbf g h i { w with pc := .wait k fin } hk hr _

theorem kinv_answerWith (lbf : σ → Nat) (g : G σ N C) (h : KInv lbf g) (i r : Nat) (chan : List Nat) (finished : Bool)
    (next : Pc) (hri : r ≠ i) : KOK lbf (answerWith g i finished next r chan) := by
  unfold answerWith
  simp only []
  cases ha : answer (g.ws i).tr.inner (g.ws i).low (g.ws i).high (g.ws i).right finished with
  | none => exact kinv_set lbf g h i { g.ws i with pending := some r, pc := next } (h i).1 (h i).2 _
  | some x =>
    obtain ⟨resp, inner', relink⟩ := x
    have hdl := answer_dropLast_none _ _ _ _ _ _ _ _ ha
    have hsub : ∀ x, x ∈ inner' → x ∈ (g.ws i).tr.inner := by
      intro x hx
      have := C19sub ha
      exact this x hx
    simp only []
    repeat' split
    all_goals first
      | trivial
      | (show KInv lbf _
         intro j
         simp only [upd]
         by_cases hjr : j = r
         · subst hjr
           simp only [if_true]
           exact ⟨(h j).1, fun r' hr' => by cases hr'; exact hdl⟩
         · by_cases hji : j = i
           · subst hji
             simp only [hjr, if_false, if_true]
             exact ⟨fun k e hm hi => (h j).1 k e (hsub _ hm) hi, (h j).2⟩
           · simp only [hjr, hji, if_false]; exact h j)

theorem kinv_tryAnswer (lbf : σ → Nat) (g : G σ N C) (h : KInv lbf g) (i : Nat) (finished : Bool) (next : Pc)
    (hi : i < g.n) (hinv : AInv (absG g)) (hk : kindOf (g.ws i).pc = .run) : KOK lbf (tryAnswer g i finished next) := by
  unfold tryAnswer
  simp only []
  split
  · exact kinv_set lbf g h i { g.ws i with pc := next } (h i).1 (h i).2 g.chans
  · cases hreq : takeReq g i with
    | none =>
      simp only []
      split
      · exact kinv_set lbf g h i { g.ws i with left := false, pc := next } (h i).1 (h i).2 g.chans
      · exact kinv_set lbf g h i { g.ws i with pc := next } (h i).1 (h i).2 g.chans
    | some x =>
      obtain ⟨r, chan⟩ := x
      have hrj := (hinv.requester i r chan hi hk (takeReq_some hreq)).2.2.2.2.2.1
      exact kinv_answerWith lbf g h i r chan finished next hrj

theorem kinv_fields (lbf : σ → Nat) (g : G σ N C) (h : KInv lbf g) (i : Nat) (w' : W σ N C) (hk : KW lbf w')
    (hr : w'.resp = (g.ws i).resp) : KInv lbf (setW g i w') :=
  kinv_set lbf g h i w' hk (fun r hr' => (h i).2 r (hr ▸ hr')) g.chans

theorem kinv_fieldsC (lbf : σ → Nat) (g : G σ N C) (h : KInv lbf g) (i : Nat) (w' : W σ N C) (hk : KW lbf w')
    (hr : w'.resp = (g.ws i).resp) (chans : Nat → List Nat) : KInv lbf { setW g i w' with chans := chans } :=
  kinv_set lbf g h i w' hk (fun r hr' => (h i).2 r (hr ▸ hr')) chans

theorem kw_congr {lbf : σ → Nat} {w w' : W σ N C} (h : KW lbf w) (h1 : w'.tr = w.tr) (h2 : w'.st = w.st) : KW lbf w' := by
  intro k e hm hi
  rw [h1] at hm; rw [h2]; exact h k e hm hi

theorem handleNew_resp (i : Nat) (outs : List (Nat × N × Option Nat)) (w : W σ N C) :
    (handleNew i w outs).resp = w.resp := (handleNew_same i outs w).2.2.2.1

/-- every step keeps the key order of the trackers -/
theorem kinv_step {U : Upd σ N C} {lbf : σ → Nat} (KL : KeyLaws U lbf) (cfg : Cfg) (db : List (DbN N)) (g : G σ N C)
    (i : Nat) (hi : i < g.n) (hinv : AInv (absG g)) (h : KInv lbf g) : KOK lbf (step U cfg db g i) := by
  have hk0 := (h i).1
  have hr0 := (h i).2
  cases hpc : (g.ws i).pc with
  | done => unfold step; simp only [hpc]; trivial
  | start =>
    unfold step; simp only [hpc]
    split
    · trivial
    · exact kinv_reset KL cfg db g h i _ _
  | loop =>
    unfold step; simp only [hpc]
    split
    · show KInv lbf _
      apply kinv_fields lbf g h i
      · exact kw_congr hk0 rfl rfl
      · rfl
    · split
      · split
        · trivial
        · rename_i st' hing
          show KInv lbf _
          apply kinv_fields lbf g h i
          · exact kw_mono hk0 rfl (KL.ingest _ _ _ _ hing)
          · rfl
      · split
        · trivial
        · rename_i st' outs res hd
          split
          all_goals
            (show KInv lbf _
             apply kinv_fields lbf g h i
             · exact kw_congr (kw_digest' KL i { g.ws i with st := st', pc := Pc.loop } _ st' outs _ hd hk0 rfl) rfl rfl
             · exact handleNew_resp i outs _)
  | poll key =>
    unfold step; simp only [hpc]
    exact kinv_tryAnswer lbf g h i false _ hi hinv (by simp [hpc, kindOf])
  | ext k fin =>
    unfold step; simp only [hpc]
    split
    all_goals first
      | exact kinv_reset KL cfg db g h i _ _
      | (split <;> first | exact kinv_sendRequest lbf g h i (g.ws i) k fin hk0 hr0 | exact kinv_reset KL cfg db g h i _ _)
  | fin =>
    unfold step; simp only [hpc]
    split
    · trivial
    · rename_i st' outs res hd
      split
      all_goals
        (show KInv lbf _
         apply kinv_fields lbf g h i
         · exact kw_congr (kw_digest' KL i { g.ws i with st := st', pc := Pc.fin } _ st' outs _ hd hk0 rfl) rfl rfl
         · exact handleNew_resp i outs _)
  | finOnce =>
    unfold step; simp only [hpc]
    split
    · trivial
    · rename_i st' outs res hd
      show KInv lbf _
      apply kinv_fields lbf g h i
      · exact kw_congr (kw_digest' KL i { g.ws i with st := st', pc := Pc.finOnce } _ st' outs _ hd hk0 rfl) rfl rfl
      · exact handleNew_resp i outs _
  | final =>
    have hk : kindOf (g.ws i).pc = .run := by simp [hpc, kindOf]
    unfold step; simp only [hpc]
    split
    · show KInv lbf _
      apply kinv_fields lbf g h i
      · exact kw_congr hk0 rfl rfl
      · rfl
    · have := kinv_tryAnswer lbf g h i true .finalRecv hi hinv hk
      cases hta : tryAnswer g i true .finalRecv with
      | ok g' => rw [hta] at this; simp only []; split <;> first | trivial | exact this
      | blocked => trivial
      | panic s => trivial
  | finalRecv =>
    unfold step; simp only [hpc]
    split
    · show KInv lbf _
      apply kinv_fields lbf g h i
      · exact kw_congr hk0 rfl rfl
      · rfl
    · split
      · show KInv lbf _
        apply kinv_fieldsC lbf g h i
        · exact kw_congr hk0 rfl rfl
        · rfl
      · split
        · show KInv lbf _
          apply kinv_fields lbf g h i
          · exact kw_congr hk0 rfl rfl
          · rfl
        · trivial
  | wait k fin =>
    unfold step; simp only [hpc]
    cases hr : (g.ws i).resp with
    | none => trivial
    | some r =>
      simp only []
      have hT : KW lbf (takeRespC cfg (g.ws i) r) ∧ RespOK (takeRespC cfg (g.ws i) r) := by
        obtain ⟨t1, t2⟩ := kw_takeResp (lbf := lbf) (g.ws i) r hk0 hr hr0
        unfold takeRespC
        split
        · exact ⟨kw_congr t1 rfl rfl, fun r' hr' => t2 r' hr'⟩
        · exact ⟨t1, t2⟩
      have hreset : ∀ w'' : W σ N C, KW lbf w'' → RespOK w'' →
          KOK lbf (match resetBaseW U cfg db w'' true k with
            | .ok w3 => .ok (setW g i { w3 with pc := afterReset cfg fin })
            | .panic s => .panic s
            | .blocked => .blocked) := by
        intro w'' h1 h2
        rcases resetBaseW_cases U cfg db w'' true k with ⟨w3, hw3, hs'⟩ | ⟨s, hw3, _⟩
        · rw [hw3]
          exact kinv_set lbf g h i { w3 with pc := afterReset cfg fin } (kw_resetBaseW KL cfg db w'' w3 true k h1 hw3)
            (fun r' hr' => h2 r' (by rw [← hs'.2.2.2.1]; exact hr')) g.chans
        · rw [hw3]; trivial
      cases hnr : r.newRight with
      | none => simp only []; exact hreset _ hT.1 hT.2
      | some nr =>
        cases nr with
        | none =>
          simp only []
          exact hreset _ (kw_congr hT.1 rfl rfl) (fun r' hr' => hT.2 r' hr')
        | some j =>
          simp only []
          exact kinv_sendRequest lbf g h i _ k fin (kw_congr hT.1 rfl rfl) (fun r' hr' => hT.2 r' hr')

/-- the key order along every schedule -/
theorem kinv_runSched {U : Upd σ N C} {lbf : σ → Nat} (KL : KeyLaws U lbf) (cfg : Cfg) (db : List (DbN N))
    (hs : cfg.staleHigh = false) (hm : cfg.highMax = false) :
    ∀ (s : List Nat) (g : G σ N C), AInv (absG g) → KInv lbf g →
      match runSched U cfg db s g with
      | .inr g' => KInv lbf g'
      | .inl _ => True
  | [], g, _, h => h
  | i :: s, g, hinv, h => by
    unfold runSched
    by_cases hi : i < g.n
    · rw [if_pos hi]
      have h1 := step_ok U cfg db g i hi hinv hs hm
      have h2 := kinv_step KL cfg db g i hi hinv h
      cases hst : step U cfg db g i with
      | ok g' =>
        rw [hst] at h1 h2
        exact kinv_runSched KL cfg db hs hm s g' (ATrans.inv hinv h1) h2
      | blocked => exact kinv_runSched KL cfg db hs hm s g hinv h
      | panic site => trivial
    · rw [if_neg hi]; exact kinv_runSched KL cfg db hs hm s g hinv h

/-- the trackers are empty at the start -/
theorem kinv_init (U : Upd σ N C) (lbf : σ → Nat) (cfg : Cfg) (db : List (DbN N)) (cs : List (Nat × C)) (wps : List WP) :
    KInv lbf (initG U cfg db cs wps) := by
  intro i
  simp only [initG]
  split
  · exact ⟨fun k e hm => by simp [mkWorker] at hm, fun r hr => by simp [mkWorker] at hr⟩
  · exact ⟨fun k e hm => by simp [dummyW] at hm, fun r hr => by simp [dummyW] at hr⟩

end Nomt.ExtRange
