import NomtModel.Store.WalkerTreeSpec
import NomtModel.Core.TriePosPage
/-!
# `compact_step` / the loop of `compact_up` on the tree walker compute the specified nodes

One round at position `c0 ++ [b]`: if both children of `c0` hold their specified nodes, the round computes the specified
node of `c0` (`compact_spec`, the compaction table law), leaves the two sub-tries meaningful, and a page that is left is
logged with every meaningful slot right.
-/
namespace Nomt.Walker
open Nomt Nomt.TriePos

variable {Node VH : Type} [DecidableEq Node] [DecidableEq VH] (H : Hasher Node VH) (D : Path → Prop)

/-- the slot of `q` holds its specified node -/
def Good (S : List (Key × VH)) (st : Store Node) (q : Path) : Prop := st q = specNode H S q

/-- every meaningful slot strictly below `c` holds its specified node -/
def SubOK (S : List (Key × VH)) (st : Store Node) (c : Path) : Prop :=
  ∀ r, c <+: r → r ≠ c → r.length ≤ 256 → D r → Mean S r → st r = specNode H S r

/-- a logged page: every meaningful slot of the page holds its specified node -/
def LogOK (S : List (Key × VH)) (e : PageId × Store Node) : Prop :=
  ∀ q, q ≠ [] → specPage q = e.1 → q.length ≤ 256 → D q → Mean S q → e.2 q = specNode H S q

/-! ## small path facts -/

theorem prefix_strict_cases {c r : Path} (h : c <+: r) (hne : r ≠ c) : ∃ b rest, r = c ++ b :: rest := by
  obtain ⟨t, rfl⟩ := h
  cases t with
  | nil => simp at hne
  | cons b rest => exact ⟨b, rest, rfl⟩

theorem snoc_prefix_of_cons (c : Path) (b : Bool) (rest : Path) : (c ++ [b]) <+: (c ++ b :: rest) :=
  ⟨rest, by simp⟩

theorem dropLast_snoc_cons (c : Path) (b : Bool) (rest : Path) (x : Bool) :
    (c ++ b :: (rest ++ [x])).dropLast = c ++ b :: rest := by
  have : c ++ b :: (rest ++ [x]) = (c ++ b :: rest) ++ [x] := by simp
  rw [this, List.dropLast_concat]

theorem mean_child_iff (S : List (Key × VH)) (c0 : Path) (b : Bool) :
    Mean S (c0 ++ [b]) ↔ 2 ≤ (sub S c0).length := by
  simp [Mean]

theorem not_prefix_flip (c0 : Path) (b : Bool) (q : Path) (h : (c0 ++ [b]) <+: q) : ¬ (c0 ++ [!b]) <+: q := by
  intro h2
  obtain ⟨t1, rfl⟩ := h
  obtain ⟨t2, h2⟩ := h2
  have : (c0 ++ [!b] ++ t2).getD c0.length false = (c0 ++ [b] ++ t1).getD c0.length false := by rw [h2]
  simp [List.getD, List.getElem?_append_left, List.getElem?_append_right] at this

/-- positions of the page of `c` lie strictly below `c.dropLast` when `c` is in the first layer of its page -/
theorem page_members_below (c q : Path) (hc : c ≠ []) (hd : dip c = 1) (hq : q ≠ []) (hp : specPage q = specPage c) :
    c.dropLast <+: q ∧ q ≠ c.dropLast := by
  have hbits : ∀ (x : Path), pidBits (specPage x) = x.take (specPageBits x.length) := pidBits_specPage
  have h1 : specPageBits c.length = c.length - 1 := by
    unfold dip at hd; rw [if_neg hc] at hd
    unfold specR at hd; unfold specPageBits
    have : 1 ≤ c.length := List.length_pos_iff.mpr hc
    omega
  have hcd : c.take (specPageBits c.length) = c.dropLast := by
    rw [h1, List.dropLast_eq_take]
  have hqp : q.take (specPageBits q.length) = c.dropLast := by
    rw [← hbits q, hp, hbits c, hcd]
  have hql : 1 ≤ q.length := List.length_pos_iff.mpr hq
  have hlt : specPageBits q.length < q.length := by unfold specPageBits; omega
  constructor
  · rw [← hqp]; exact List.take_prefix _ _
  · intro e
    have : (q.take (specPageBits q.length)).length = q.length := by rw [hqp, ← e]
    rw [List.length_take] at this
    omega

theorem specPage_sibPath (c : Path) : specPage (sibPath c) = specPage c := by
  rcases List.eq_nil_or_concat c with h | ⟨l, b, h⟩
  · subst h; rfl
  · subst h
    rw [List.concat_eq_append, sibPath_snoc]
    unfold specPage
    simp only [List.length_append, List.length_singleton]
    have : specPageBits (l.length + 1) ≤ l.length := by unfold specPageBits; omega
    rw [List.take_append_of_le_length this, List.take_append_of_le_length this]

theorem dip_sibPath (c : Path) : dip (sibPath c) = dip c := by
  unfold dip
  rw [sibPath_length]
  rcases List.eq_nil_or_concat c with h | ⟨l, b, h⟩
  · subst h; rfl
  · subst h
    rw [List.concat_eq_append, sibPath_snoc]
    simp

/-! ## one round -/

theorem tw_compactStep_val (hs : H.Sound) (a : TW Node) (c0 : Path) (b : Bool) (hp : a.pos = c0 ++ [b]) :
    (a.compactStep H).1 = Nomt.compactStep H b (a.store (c0 ++ [b])) (a.store (c0 ++ [!b])) := by
  unfold TW.compactStep TW.cur TW.sib Nomt.compactStep
  rw [hp, sibPath_snoc]
  simp only [List.getLast?_append, List.getLast?_singleton, Option.some_or, Option.getD_some]
  cases h1 : H.kind (a.store (c0 ++ [b])) <;> cases h2 : H.kind (a.store (c0 ++ [!b])) <;> simp
  exact (hs.term_only _ h1).symm

/-- the walker after `compact_step` -/
theorem tw_compactStep_snd (a : TW Node) :
    (a.compactStep H).2 =
      if H.kind a.cur = .leaf ∧ H.kind a.sib = .terminator then a.setNode H.term
      else if H.kind a.cur = .terminator ∧ H.kind a.sib = .leaf then
        ({ a with pos := sibPath a.pos } : TW Node).setNode H.term
      else a := by
  simp only [TW.compactStep]
  cases h1 : H.kind a.cur <;> cases h2 : H.kind a.sib <;> simp

/-- what one `compact_step` does to the walker -/
theorem tw_compactStep_effect (hs : H.Sound) {S : List (Key × VH)} (hk : KeysOK S) (a : TW Node) (c0 : Path) (b : Bool)
    (hp : a.pos = c0 ++ [b]) (hl : c0.length < 256)
    (hg : Good H S a.store (c0 ++ [b])) (hgs : Good H S a.store (c0 ++ [!b])) :
    let r := a.compactStep H
    r.1 = specNode H S c0 ∧
    (r.2.pos = c0 ++ [b] ∨ r.2.pos = c0 ++ [!b]) ∧
    r.2.log = a.log ∧ r.2.cpr = a.cpr ∧
    (∀ q, r.2.store q = a.store q ∨ ((q = c0 ++ [b] ∨ q = c0 ++ [!b]) ∧ (sub S c0).length ≤ 1)) := by
  intro r
  have hval : r.1 = specNode H S c0 := by
    show (a.compactStep H).1 = _
    rw [tw_compactStep_val H hs a c0 b hp, hg, hgs]
    exact specNode_compact H hs hk c0 hl b
  refine ⟨hval, ?_⟩
  have hsplit := sub_length_split (S := S) c0
  have hkc := sub_of_kind H hs hk (c0 ++ [b]) (by simp; omega)
  have hks := sub_of_kind H hs hk (c0 ++ [!b]) (by simp; omega)
  have hcount : ∀ n m, (sub S (c0 ++ [b])).length = n → (sub S (c0 ++ [!b])).length = m →
      (sub S c0).length = n + m := by
    intro n m h1 h2
    cases b
    · simp only [Bool.not_false] at h2; omega
    · simp only [Bool.not_true] at h2; omega
  have hcur : a.cur = a.store (c0 ++ [b]) := by unfold TW.cur; rw [hp]
  have hsib : a.sib = a.store (c0 ++ [!b]) := by unfold TW.sib; rw [hp, sibPath_snoc]
  rw [← hg] at hkc; rw [← hgs] at hks
  rw [← hcur] at hkc; rw [← hsib] at hks
  show ((a.compactStep H).2.pos = _ ∨ _) ∧ (a.compactStep H).2.log = _ ∧ (a.compactStep H).2.cpr = _ ∧ _
  rw [tw_compactStep_snd]
  by_cases hA : H.kind a.cur = .leaf ∧ H.kind a.sib = .terminator
  · -- (leaf, terminator): the node is cleared
    rw [if_pos hA]
    obtain ⟨h1, h2⟩ := hA
    refine ⟨Or.inl hp, rfl, rfl, ?_⟩
    intro q
    by_cases hq : q = c0 ++ [b]
    · right
      refine ⟨Or.inl hq, ?_⟩
      obtain ⟨kv, hkv⟩ := hkc.2.1 h1
      have := hcount 1 0 (by rw [hkv]; rfl) (by rw [hks.1 h2]; rfl)
      omega
    · left; simp [TW.setNode, upd, hq, hp]
  · rw [if_neg hA]
    by_cases hB : H.kind a.cur = .terminator ∧ H.kind a.sib = .leaf
    · -- (terminator, leaf): the sibling is cleared
      rw [if_pos hB]
      obtain ⟨h1, h2⟩ := hB
      refine ⟨Or.inr (by simp [TW.setNode, hp, sibPath_snoc]), rfl, rfl, ?_⟩
      intro q
      by_cases hq : q = c0 ++ [!b]
      · right
        refine ⟨Or.inr hq, ?_⟩
        obtain ⟨kv, hkv⟩ := hks.2.1 h2
        have := hcount 0 1 (by rw [hkc.1 h1]; rfl) (by rw [hkv]; rfl)
        omega
      · left; simp [TW.setNode, upd, hq, hp, sibPath_snoc]
    · rw [if_neg hB]
      exact ⟨Or.inl hp, rfl, rfl, fun q => Or.inl rfl⟩

/-- one round of the loop before the write: `compact_step`, then `up` -/
theorem tw_round (hs : H.Sound) {S : List (Key × VH)} (hk : KeysOK S) (a : TW Node) (c0 : Path) (b : Bool)
    (hp : a.pos = c0 ++ [b]) (hl : c0.length < 256)
    (hg : Good H S a.store (c0 ++ [b])) (hgs : Good H S a.store (c0 ++ [!b]))
    (hsub : SubOK H D S a.store (c0 ++ [b])) (hsubs : SubOK H D S a.store (c0 ++ [!b])) :
    let r := a.compactStep H
    let a2 := r.2.up
    r.1 = specNode H S c0 ∧ a2.pos = c0 ∧ a2.cpr = a.cpr ∧
    (∀ q, ¬ c0 <+: q → a2.store q = a.store q) ∧ a2.store c0 = a.store c0 ∧
    SubOK H D S a2.store c0 ∧
    (∀ e ∈ a2.log, e ∈ a.log ∨ LogOK H D S e) ∧ (∀ e ∈ a.log, e ∈ a2.log) := by
  intro r a2
  obtain ⟨hval, hpos, hlog, hcpr, hE⟩ := tw_compactStep_effect H hs hk a c0 b hp hl hg hgs
  have hst : a2.store = r.2.store := by
    show (r.2.up).store = _
    unfold TW.up; split <;> rfl
  have hdl : r.2.pos.dropLast = c0 := by
    rcases hpos with h | h <;> rw [h] <;> simp
  have hne : ∀ x : Bool, c0 ++ [x] ≠ c0 := by
    intro x e
    have := congrArg List.length e
    simp at this
  have hframe : ∀ q, ¬ c0 <+: q → a2.store q = a.store q := by
    intro q hq
    rw [hst]
    rcases hE q with h | ⟨h, _⟩
    · exact h
    · exfalso; apply hq
      rcases h with h | h <;> rw [h] <;> exact List.prefix_append _ _
  have hc0 : a2.store c0 = a.store c0 := by
    rw [hst]
    rcases hE c0 with h | ⟨h, _⟩
    · exact h
    · rcases h with h | h <;> exact absurd h.symm (hne _)
  have hsubok : SubOK H D S a2.store c0 := by
    intro r' hpre hner hlen256 hD hmean
    obtain ⟨b', rest, rfl⟩ := prefix_strict_cases hpre hner
    rw [hst]
    cases rest with
    | nil =>
      rcases hE (c0 ++ [b']) with h | ⟨_, hle⟩
      · rw [h]
        by_cases hb : b' = b
        · subst hb; exact hg
        · have : b' = !b := by cases b <;> cases b' <;> simp_all
          subst this; exact hgs
      · exfalso
        rw [mean_child_iff] at hmean
        omega
    | cons x xs =>
      have hlen : ∀ y : Bool, c0 ++ b' :: x :: xs ≠ c0 ++ [y] := by
        intro y e
        have := congrArg List.length e
        simp at this
      rcases hE (c0 ++ b' :: x :: xs) with h | ⟨h, _⟩
      · rw [h]
        by_cases hb : b' = b
        · subst hb
          exact hsub _ (snoc_prefix_of_cons c0 b' (x :: xs)) (hlen b') hlen256 hD hmean
        · have : b' = !b := by cases b <;> cases b' <;> simp_all
          subst this
          exact hsubs _ (snoc_prefix_of_cons c0 (!b) (x :: xs)) (hlen (!b)) hlen256 hD hmean
      · rcases h with h | h <;> exact absurd h (hlen _)
  refine ⟨hval, ?_, ?_, hframe, hc0, hsubok, ?_, ?_⟩
  · show (r.2.up).pos = c0
    unfold TW.up; exact hdl
  · show (r.2.up).cpr = a.cpr
    unfold TW.up; split <;> exact hcpr
  · intro e he
    have : a2.log = if dip r.2.pos = 1 then r.2.log ++ [(specPage r.2.pos, r.2.store)] else r.2.log := by
      show (r.2.up).log = _
      unfold TW.up; split <;> rfl
    rw [this] at he
    split at he
    · rename_i hd
      rw [List.mem_append, List.mem_singleton] at he
      rcases he with he | he
      · left; rw [← hlog]; exact he
      · right
        subst he
        intro q hq hpg hq256 hD hmean
        have hrne : r.2.pos ≠ [] := by rcases hpos with h | h <;> rw [h] <;> simp
        have := page_members_below r.2.pos q hrne hd hq hpg
        rw [hdl] at this
        rw [← hst]
        exact hsubok q this.1 this.2 hq256 hD hmean
    · left; rw [← hlog]; exact he
  · intro e he
    have : a2.log = if dip r.2.pos = 1 then r.2.log ++ [(specPage r.2.pos, r.2.store)] else r.2.log := by
      show (r.2.up).log = _
      unfold TW.up; split <;> rfl
    rw [this, hlog]
    split
    · exact List.mem_append_left _ he
    · exact he

/-! ## the loop -/

theorem subOK_upd_self {S : List (Key × VH)} (st : Store Node) (c : Path) (n : Node) (h : SubOK H D S st c) :
    SubOK H D S (upd st c n) c := by
  intro r hpre hne hlen hD hmean
  rw [upd_other _ _ _ _ hne]
  exact h r hpre hne hlen hD hmean

/-- anything below the other branch is not below `p ++ s` when `s` continues with `b1` after `s1` -/
theorem not_under_of_flip (p s1 : Path) (b1 : Bool) (s q : Path) (hs : (s1 ++ [b1]) <+: s)
    (hq : (p ++ s1 ++ [!b1]) <+: q) : ¬ (p ++ s) <+: q := by
  intro h
  obtain ⟨t, rfl⟩ := hs
  have h1 : (p ++ s1 ++ [b1]) <+: q := by
    refine List.IsPrefix.trans ?_ h
    exact ⟨t, by simp⟩
  exact not_prefix_flip (p ++ s1) b1 q h1 hq

theorem tw_compactLoop_succ (cfg : TWCfg Node) (n : Nat) (a : TW Node) :
    TW.compactLoop H cfg (n + 1) a =
      if ((a.compactStep H).2.up).stackEmpty cfg = true then
        (if cfg.hasParent = true then
          { (a.compactStep H).2.up with
            cpr := ((a.compactStep H).2.up).cpr ++ [(((a.compactStep H).2.up).pos, (a.compactStep H).1)] }
         else ((a.compactStep H).2.up).setNode (a.compactStep H).1)
      else TW.compactLoop H cfg n (((a.compactStep H).2.up).setNode (a.compactStep H).1) := rfl

/-- the loop of `compact_up`: `n` rounds from `p ++ s` (`s.length = n`) up to `p`, the stack not running empty before the
last round -/
theorem tw_compactLoop_spec (hs : H.Sound) {S : List (Key × VH)} (hk : KeysOK S) (cfg : TWCfg Node) :
    ∀ (n : Nat) (a : TW Node) (p s : Path), a.pos = p ++ s → s.length = n → cfg.top ≤ p.length →
      (p ++ s).length ≤ 256 →
      Good H S a.store (p ++ s) → SubOK H D S a.store (p ++ s) →
      (∀ s1 b1, (s1 ++ [b1]) <+: s →
        Good H S a.store (p ++ s1 ++ [!b1]) ∧ SubOK H D S a.store (p ++ s1 ++ [!b1])) →
      let a' := TW.compactLoop H cfg n a
      a'.pos = p ∧ SubOK H D S a'.store p ∧ (∀ q, ¬ p <+: q → a'.store q = a.store q) ∧
      (∀ e ∈ a'.log, e ∈ a.log ∨ LogOK H D S e) ∧ (∀ e ∈ a.log, e ∈ a'.log) ∧
      (n = 0 → a' = a) ∧
      (0 < n →
        if p.length ≤ cfg.top ∧ cfg.hasParent = true then
          a'.cpr = a.cpr ++ [(p, specNode H S p)] ∧ a'.store p = a.store p
        else a'.cpr = a.cpr ∧ Good H S a'.store p) := by
  intro n
  induction n with
  | zero =>
    intro a p s hp hlen _ _ _ hsub _
    have hs0 : s = [] := List.eq_nil_of_length_eq_zero hlen
    subst hs0
    simp only [List.append_nil] at hp hsub
    refine ⟨hp, ?_, fun _ _ => rfl, fun e he => Or.inl he, fun e he => he, fun _ => rfl, fun h => absurd h (by omega)⟩
    exact hsub
  | succ n ih =>
    intro a p s hp hlen htop hl256 hg hsub hsib
    obtain ⟨s', b, rfl⟩ : ∃ s' b, s = s' ++ [b] := by
      rcases List.eq_nil_or_concat s with h | ⟨l, x, h⟩
      · subst h; simp at hlen
      · exact ⟨l, x, by simpa using h⟩
    have hlen' : s'.length = n := by simpa using hlen
    have hpos : a.pos = (p ++ s') ++ [b] := by rw [hp]; simp
    have hl : (p ++ s').length < 256 := by
      have : (p ++ (s' ++ [b])).length = (p ++ s').length + 1 := by simp; omega
      omega
    have hsb := hsib s' b (List.prefix_refl _)
    have hg' : Good H S a.store ((p ++ s') ++ [b]) := by rw [← List.append_assoc] at hg; exact hg
    have hsub' : SubOK H D S a.store ((p ++ s') ++ [b]) := by rw [← List.append_assoc] at hsub; exact hsub
    obtain ⟨hval, hpos2, hcpr2, hframe2, hc02, hsub2, hlog2, hlogmono2⟩ :=
      tw_round H D hs hk a (p ++ s') b hpos hl hg' hsb.1 hsub' hsb.2
    -- unfold one iteration
    show (let a' := TW.compactLoop H cfg (n + 1) a; _)
    rw [tw_compactLoop_succ]
    generalize hr : a.compactStep H = r at *
    generalize ha2 : r.2.up = a2 at *
    by_cases hempty : (p ++ s').length ≤ cfg.top
    · -- the stack runs empty: last round
      have hse : a2.stackEmpty cfg = true := by
        unfold TW.stackEmpty; rw [hpos2]; exact decide_eq_true hempty
      have hs'nil : s' = [] := by
        have : s'.length = 0 := by simp at hempty; omega
        exact List.eq_nil_of_length_eq_zero this
      subst hs'nil
      simp only [List.append_nil] at hpos2 hframe2 hc02 hsub2 hval hempty
      have hn0 : n = 0 := by simpa using hlen'.symm
      subst hn0
      rw [if_pos hse]
      by_cases hpar : cfg.hasParent = true
      · rw [if_pos hpar]
        refine ⟨hpos2, hsub2, hframe2, hlog2, hlogmono2, fun h => absurd h (by omega), fun _ => ?_⟩
        rw [if_pos ⟨hempty, hpar⟩]
        refine ⟨?_, hc02⟩
        show a2.cpr ++ [(a2.pos, r.1)] = _
        rw [hcpr2, hpos2, hval]
      · rw [if_neg hpar]
        refine ⟨hpos2, ?_, ?_, hlog2, hlogmono2, fun h => absurd h (by omega), fun _ => ?_⟩
        · have := subOK_upd_self H D (S := S) a2.store p r.1 hsub2
          simpa [TW.setNode, hpos2] using this
        · intro q hq
          have hqp : q ≠ p := by intro e; apply hq; rw [e]; exact List.prefix_refl _
          show (a2.setNode r.1).store q = _
          simp only [TW.setNode, hpos2, upd_other _ _ _ _ hqp]
          exact hframe2 q hq
        · rw [if_neg (by intro h; exact hpar h.2)]
          refine ⟨hcpr2, ?_⟩
          show (a2.setNode r.1).store p = _
          simp [TW.setNode, hpos2, upd_same, hval]
    · -- the stack is not empty: write and go on
      have hse : ¬ a2.stackEmpty cfg = true := by
        unfold TW.stackEmpty; rw [hpos2]; simpa using hempty
      rw [if_neg hse]
      have hpos3 : (a2.setNode r.1).pos = p ++ s' := by simp [TW.setNode, hpos2]
      have hst3 : ∀ q, q ≠ p ++ s' → (a2.setNode r.1).store q = a2.store q := by
        intro q hq; simp [TW.setNode, hpos2, upd_other _ _ _ _ hq]
      have hg3 : Good H S (a2.setNode r.1).store (p ++ s') := by
        simp [TW.setNode, Good, hpos2, upd_same, hval]
      have hsub3 : SubOK H D S (a2.setNode r.1).store (p ++ s') := by
        have := subOK_upd_self H D (S := S) a2.store (p ++ s') r.1 hsub2
        simpa [TW.setNode, hpos2] using this
      have hsame : ∀ q, ¬ (p ++ s') <+: q → (a2.setNode r.1).store q = a.store q := by
        intro q hq
        have hqp : q ≠ p ++ s' := by intro e; apply hq; rw [e]; exact List.prefix_refl _
        rw [hst3 q hqp]; exact hframe2 q hq
      have hsib3 : ∀ s1 b1, (s1 ++ [b1]) <+: s' →
          Good H S (a2.setNode r.1).store (p ++ s1 ++ [!b1]) ∧ SubOK H D S (a2.setNode r.1).store (p ++ s1 ++ [!b1]) := by
        intro s1 b1 hpre
        have hpre' : (s1 ++ [b1]) <+: (s' ++ [b]) := List.IsPrefix.trans hpre (List.prefix_append _ _)
        obtain ⟨hgx, hsx⟩ := hsib s1 b1 hpre'
        constructor
        · show (a2.setNode r.1).store _ = _
          rw [hsame _ (not_under_of_flip p s1 b1 s' _ hpre (List.prefix_refl _))]
          exact hgx
        · intro q hq hne hlen hD hmean
          rw [hsame _ (not_under_of_flip p s1 b1 s' _ hpre hq)]
          exact hsx q hq hne hlen hD hmean
      obtain ⟨hP, hSub, hFr, hLog, hLogMono, hZero, hPos⟩ :=
        ih (a2.setNode r.1) p s' hpos3 hlen' htop (by omega) hg3 hsub3 hsib3
      have hlog3 : (a2.setNode r.1).log = a2.log := rfl
      have hcpr3 : (a2.setNode r.1).cpr = a2.cpr := rfl
      have hpp : ∀ q, ¬ p <+: q → ¬ (p ++ s') <+: q := by
        intro q hq h; exact hq (List.IsPrefix.trans (List.prefix_append _ _) h)
      refine ⟨hP, hSub, ?_, ?_, ?_, fun h => absurd h (by omega), fun _ => ?_⟩
      · intro q hq
        rw [hFr q hq]; exact hsame q (hpp q hq)
      · intro e he
        rcases hLog e he with h | h
        · rw [hlog3] at h; exact hlog2 e h
        · exact Or.inr h
      · intro e he
        exact hLogMono e (by rw [hlog3]; exact hlogmono2 e he)
      · by_cases hn : n = 0
        · have ha' := hZero hn
          have hs'nil : s' = [] := List.eq_nil_of_length_eq_zero (by omega)
          subst hs'nil
          simp only [List.append_nil] at hempty hg3
          rw [if_neg (by intro h; exact hempty h.1)]
          rw [ha']
          exact ⟨by rw [hcpr3, hcpr2], hg3⟩
        · have hpos' := hPos (by omega)
          have hps : ¬ (p ++ s') <+: p := by
            intro h
            have := h.length_le
            have : s'.length = 0 := by simp at this; omega
            omega
          split at hpos'
          · rename_i hc
            rw [if_pos hc]
            refine ⟨by rw [hpos'.1, hcpr3, hcpr2], ?_⟩
            rw [hpos'.2]; exact hsame p hps
          · rename_i hc
            rw [if_neg hc]
            exact ⟨by rw [hpos'.1, hcpr3, hcpr2], hpos'.2⟩

end Nomt.Walker
