/-!
Byte-level readers / writers used by the on-disk image decoder (`Store/ImgFormats.lean` …).
Everything is a total function over `ByteArray`; numbers are `Nat`.
-/
namespace Nomt.Store

/-- size of every page of every file of a nomt directory (`io::PAGE_SIZE`) -/
def PAGE : Nat := 4096

@[inline] def u8 (b : ByteArray) (i : Nat) : Nat := (b.get! i).toNat
def u16le (b : ByteArray) (o : Nat) : Nat := u8 b o + 256 * u8 b (o + 1)
def u32le (b : ByteArray) (o : Nat) : Nat := u16le b o + 65536 * u16le b (o + 2)
def u64le (b : ByteArray) (o : Nat) : Nat := u32le b o + 4294967296 * u32le b (o + 4)

/-- little-endian encodings as byte lists (mirrors of `to_le_bytes`) -/
def le16 (n : Nat) : List UInt8 := [UInt8.ofNat (n % 256), UInt8.ofNat (n / 256 % 256)]
def le32 (n : Nat) : List UInt8 := le16 (n % 65536) ++ le16 (n / 65536 % 65536)
def le64 (n : Nat) : List UInt8 := le32 (n % 4294967296) ++ le32 (n / 4294967296 % 4294967296)

/-- big-endian number made of `len` bytes starting at `o` -/
def beNat (b : ByteArray) (o len : Nat) : Nat :=
  (List.range len).foldl (fun acc i => acc * 256 + u8 b (o + i)) 0

/-- big-endian encoding on exactly `len` bytes -/
def natToBytesBE (n len : Nat) : ByteArray :=
  (List.range len).foldl (fun acc i => acc.push (UInt8.ofNat (n / 256 ^ (len - 1 - i) % 256))) (ByteArray.emptyWithCapacity len)

/-- a 32-byte key as a 256-bit number (lexicographic order of keys = order of these numbers) -/
def keyNat (k : ByteArray) : Nat := beNat k 0 32

/-- bit `i` (bitvec `Msb0` numbering) of the bit string that starts at byte `base` -/
@[inline] def bitAt (b : ByteArray) (base i : Nat) : Bool :=
  (u8 b (base + i / 8) / 2 ^ (7 - i % 8)) % 2 == 1

/-- the number written by bits `[start, start+len)` of the bit string starting at byte `base` -/
def bitsNat (b : ByteArray) (base start len : Nat) : Nat :=
  (List.range len).foldl (fun acc i => acc * 2 + (if bitAt b base (start + i) then 1 else 0)) 0

/-- are bytes `[o, o+len)` all zero -/
def allZero (b : ByteArray) (o len : Nat) : Bool :=
  (List.range len).all (fun i => b.get! (o + i) == 0)

def sub (b : ByteArray) (o len : Nat) : ByteArray := b.extract o (o + len)

end Nomt.Store
