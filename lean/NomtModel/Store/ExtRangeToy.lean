import NomtModel.Store.ExtRangePrep
/-!
A toy node updater for kernel-evaluated instances of the protocol mirror: a node is the ascending list of its keys, at
most `CAP = 4` keys fit, a node with fewer than `MERGE = 2` keys is under-full (unless it is the right-most one).  `digest`
emits full nodes from the left and hands the remainder on (`NeedsMerge`) when it is under-full — the behaviour of the real
updaters that the seeded changes depend on (a merge that splits and leaves an under-full remainder).
-/
namespace Nomt.ExtRange.Toy

open Nomt.ExtRange

structure St where
  items : List Nat := []
  cutoff : Option Nat := none
  sep : Option Nat := none
deriving DecidableEq, Repr

def insertKey (k : Nat) : List Nat → List Nat
  | [] => [k]
  | a :: t => if k < a then k :: a :: t else if k = a then a :: t else a :: insertKey k t

def CAP : Nat := 4
def MERGE : Nat := 2

/-- `bs` = the `BranchUpdater` convention: every node of a split gets the updater's cutoff as `next_separator` (the
`LeafUpdater` passes the separator of the next emitted node); `hs`: an over-full content is split in the middle (as the real
updaters do: `body_size / 2`) instead of after `CAP` keys -/
def digestG (bs : Bool) (hs : Bool := false) (st : St) : Option (St × List (Nat × List Nat × Option Nat) × Option Nat) :=
  match st.items with
  | [] => some ({ cutoff := st.cutoff }, [], none)
  | first :: _ =>
    let sep := st.sep.getD first
    if st.items.length > CAP then
      let cut := if hs then st.items.length / 2 else CAP
      let l := st.items.take cut
      let r := st.items.drop cut
      match r with
      | [] => none
      | rf :: _ =>
        if r.length ≥ MERGE ∨ st.cutoff = none then
          some ({ cutoff := st.cutoff }, [(sep, l, if bs then st.cutoff else some rf), (rf, r, st.cutoff)], none)
        else
          match st.cutoff with
          | some c => some ({ items := r, cutoff := st.cutoff, sep := some rf }, [(sep, l, if bs then st.cutoff else some rf)], some c)
          | none => none
    else if st.items.length ≥ MERGE ∨ st.cutoff = none then
      some ({ cutoff := st.cutoff }, [(sep, st.items, st.cutoff)], none)
    else
      match st.cutoff with
      | some c => some ({ st with sep := some sep }, [], some c)
      | none => none

def digest (st : St) : Option (St × List (Nat × List Nat × Option Nat) × Option Nat) := digestG false false st

/-- changes: `true` = insert the key, `false` = delete it -/
def upd : Upd St (List Nat) Bool where
  init := {}
  inScope := fun st k => match st.cutoff with | none => true | some c => decide (k < c)
  resetBase := fun st b c =>
    match b with
    | some (sep, nd) => { items := st.items ++ nd, cutoff := c, sep := if st.items.isEmpty then some sep else st.sep }
    | none => { st with cutoff := c }
  removeCutoff := fun st => { st with cutoff := none }
  ingest := fun st k c => some { st with items := if c then insertKey k st.items else st.items.filter (· != k) }
  digest := digest

/-- the toy updater with the `BranchUpdater` cutoff convention -/
def updB : Upd St (List Nat) Bool := { upd with digest := digestG true false }

/-- the toy updater that splits in the middle (`LeafUpdater` cutoff convention) -/
def updH : Upd St (List Nat) Bool := { upd with digest := digestG false true }

/-- a level from its nodes: separator = first key, page number = position + 1 -/
def mkDb (nodes : List (List Nat)) : List (DbN (List Nat)) :=
  (nodes.zipIdx).filterMap fun (nd, i) => nd.head?.map fun k => ⟨k, i + 1, nd⟩

def look (db : List (DbN (List Nat))) (key : Nat) : Option Nat := lookBranch (fun nd => nd.head?) db key

/-- the keys of the nodes of the level after the stage with `count` workers under the schedule policy (`order`, `burst`);
`none`: a panic, the fuel, or a panic of `filter_*_changeset` -/
def stage (cfg : Cfg) (nodes : List (List Nat)) (cs : List (Nat × Bool)) (count : Nat) (rev : Bool) (burst : Nat) :
    Option (List (List Nat) × List Pn) :=
  let db := mkDb nodes
  let wps := prepareWorkers (look db) (cs.map (·.1)) count
  let g0 := initG upd cfg db cs wps
  let order := if rev then (List.range g0.n).reverse else List.range g0.n
  match runPolicy upd cfg db order burst 400 g0 with
  | some (.inr g) =>
    (assemble cfg g (List.range g.n)).map fun (changes, freed) =>
      ((applyCs (db.map OutN.old) changes).map fun o => match o with | .old d => d.node | .new _ nd _ => nd, freed)
  | _ => none

/-- the panic site the run of the stage ends in (`none`: no panic) -/
def stagePanic (cfg : Cfg) (nodes : List (List Nat)) (cs : List (Nat × Bool)) (count : Nat) (rev : Bool) (burst : Nat) :
    Option String :=
  let db := mkDb nodes
  let wps := prepareWorkers (look db) (cs.map (·.1)) count
  let g0 := initG upd cfg db cs wps
  let order := if rev then (List.range g0.n).reverse else List.range g0.n
  match runPolicy upd cfg db order burst 400 g0 with
  | some (.inl site) => some site
  | _ => none

/-- the specification: the sorted key set with the changes applied -/
def specKeys (nodes : List (List Nat)) (cs : List (Nat × Bool)) : List Nat :=
  cs.foldl (fun acc c => if c.2 then insertKey c.1 acc else acc.filter (· != c.1)) nodes.flatten

/-! ### the geometry of the seeded change `C01-branch-stage-stale-range-high` -/

def lvlA : List (List Nat) := [[10, 11, 12, 13], [20, 21], [30, 31, 32, 33], [40, 41, 42], [50, 51, 52]]
def csA : List (Nat × Bool) := [(11, false), (12, false), (13, false), (20, false), (21, false), (53, true)]

/-! ### the geometry of the seeded change `C01-branch-stage-single-merge` -/

def lvlB : List (List Nat) := [[10, 11, 12, 13], [20, 21, 22, 23], [30, 31, 32]]
def csB : List (Nat × Bool) := [(11, false), (12, false), (13, false)]

/-! ### the geometry of the seeded change `C13-extend-range-high-max`: the first node of the last worker emptied, an
untouched tail behind it, three successive merges of the left worker's under-full rest into that tail -/

def lvlC : List (List Nat) := [[10, 11, 12, 13], [20, 21], [30, 31, 32, 33], [40, 41, 42, 43], [50, 51, 52, 53], [60, 61]]
def csC : List (Nat × Bool) := [(11, false), (12, false), (13, false), (20, false), (21, false)]

/-! ### a split first base of the right worker, an under-full last node of the left worker -/

def lvlD : List (List Nat) := [[10, 11, 12, 13], [20, 21, 22, 23], [30, 31, 32]]
def csD : List (Nat × Bool) := [(11, false), (12, false), (13, false), (24, true), (25, true)]

/-! ### the same separator in two trackers: the right worker merges its under-full first node `[20]` with `[30, 31, 32]` (a
delete mark under 30 stays in its tracker), the left worker merges its rest `[10]` with the handed-over `[20, 30, 31, 32]` and
splits in the middle — the second half starts at 30 -/

def lvlE : List (List Nat) := [[10, 11, 12, 13], [20, 21], [30, 31, 32], [40, 41, 42]]
def csE : List (Nat × Bool) := [(11, false), (12, false), (13, false), (21, false)]

/-- the stage of updater `U`: per worker the changeset entries it hands to `apply_*_changes` (separator, inserted?), then the
keys of the nodes of the new level -/
def stageParts (U : Upd St (List Nat) Bool) (nodes : List (List Nat)) (cs : List (Nat × Bool)) (count : Nat) (rev : Bool)
    (burst : Nat) : Option (List (List (Nat × Bool)) × List (List Nat)) :=
  let db := mkDb nodes
  let wps := prepareWorkers (look db) (cs.map (·.1)) count
  let g0 := initG U {} db cs wps
  let order := if rev then (List.range g0.n).reverse else List.range g0.n
  match runPolicy U {} db order burst 400 g0 with
  | some (.inr g) =>
    (assemble {} g (List.range g.n)).map fun (changes, _) =>
      ((List.range g.n).map fun i => (workerChanges (g.ws i)).1.map fun x => (x.1, x.2.isSome),
       (applyCs (db.map OutN.old) changes).map fun o => match o with | .old d => d.node | .new _ nd _ => nd)
  | _ => none

/-- the two-worker stage of updater `U` under the schedule `s` followed by round robin; with `stopAt = some t` the run is cut
after `t` round-robin rounds.  Per worker: `range.low` and the keys of its tracker. -/
def trackersAt (U : Upd St (List Nat) Bool) (nodes : List (List Nat)) (cs : List (Nat × Bool)) (s : List Nat) (rounds : Nat) :
    Option (List (Option Nat × List Nat)) :=
  let db := mkDb nodes
  let wps := prepareWorkers (look db) (cs.map (·.1)) 2
  let g0 := initG U {} db cs wps
  match runSched U {} db s g0 with
  | .inl _ => none
  | .inr g1 =>
    match runSched U {} db ((List.range rounds).flatMap fun _ => List.range g1.n) g1 with
    | .inl _ => none
    | .inr g => some ((List.range g.n).map fun i => ((g.ws i).low, (g.ws i).tr.inner.map (·.1)))

/-- all `0/1` lists of length `n` (worker picks of a two-worker schedule) -/
def allPicks : Nat → List (List Nat)
  | 0 => [[]]
  | n + 1 => (allPicks n).flatMap fun s => [0 :: s, 1 :: s]

/-- the stage of a 2-worker instance under the schedule `s` followed by round robin -/
def stageSched (cfg : Cfg) (nodes : List (List Nat)) (cs : List (Nat × Bool)) (s : List Nat) : Option (List (List Nat)) :=
  let db := mkDb nodes
  let wps := prepareWorkers (look db) (cs.map (·.1)) 2
  let g0 := initG upd cfg db cs wps
  match runSched upd cfg db s g0 with
  | .inl _ => none
  | .inr g1 =>
    match runPolicy upd cfg db (List.range g1.n) 1 400 g1 with
    | some (.inr g) =>
      (assemble cfg g (List.range g.n)).map fun (changes, _) =>
        (applyCs (db.map OutN.old) changes).map fun o => match o with | .old d => d.node | .new _ nd _ => nd
    | _ => none

end Nomt.ExtRange.Toy
