import NomtModel.Store.PushChunkBase
/-!
# `BranchNodeBuilder::push_chunk` — step 2: the node pointers

Mirror of the read accessor `BranchNodeView::node_pointer`, the block copy of the base's pointers and the `updated`
page numbers (`set_node_pointer`), as facts about the bytes of the page: only the pointer area
`[4096 - 4 n, 4096)` changes.
-/
namespace Nomt.BitOps

/-- the `u32` stored little-endian at byte `o` -/
def u32Val (pg : List Nat) (o : Nat) : Nat :=
  pg.getD o 0 + 256 * pg.getD (o + 1) 0 + 65536 * pg.getD (o + 2) 0 + 16777216 * pg.getD (o + 3) 0

/-- `BranchNodeView::node_pointer(i)`; `none`: `n - i` / `BRANCH_NODE_SIZE - …` underflows, slice out of range -/
def nodePointer (pg : List Nat) (i : Nat) : Option Nat :=
  (nodeN pg).bind fun n =>
  if n < i then none
  else if PAGE_SIZE < (n - i) * 4 then none
  else if PAGE_SIZE - (n - i) * 4 + 4 ≤ pg.length then some (u32Val pg (PAGE_SIZE - (n - i) * 4)) else none

/-- pointer slot `j` of a node with `n` items, as a value -/
def ptrVal (pg : List Nat) (n j : Nat) : Nat := u32Val pg (4096 - n * 4 + j * 4)

theorem nodePointer_eq (pg : List Nat) (n j : Nat) (hn : nodeN pg = some n) (hl : pg.length = 4096) (hj : j < n) (h4 : n * 4 ≤ 4096) :
    nodePointer pg j = some (ptrVal pg n j) := by
  unfold nodePointer ptrVal
  have e : PAGE_SIZE - (n - j) * 4 = 4096 - n * 4 + j * 4 := by simp only [PAGE_SIZE]; omega
  rw [hn, Option.bind_some, if_neg (by omega), if_neg (by simp only [PAGE_SIZE]; omega), e, if_pos (by omega)]

theorem u32Val_congr2 {a b : List Nat} (o o' : Nat) (h : ∀ r, r < 4 → a.getD (o + r) 0 = b.getD (o' + r) 0) :
    u32Val a o = u32Val b o' := by
  unfold u32Val
  have h0 := h 0 (by omega)
  rw [Nat.add_zero, Nat.add_zero] at h0
  rw [h0, h 1 (by omega), h 2 (by omega), h 3 (by omega)]

theorem u32Val_congr {a b : List Nat} (o : Nat) (h : ∀ r, r < 4 → a.getD (o + r) 0 = b.getD (o + r) 0) : u32Val a o = u32Val b o :=
  u32Val_congr2 o o h

theorem getD_slice (l : List Nat) (a m r : Nat) : ((l.drop a).take m).getD r 0 = if r < m then l.getD (a + r) 0 else 0 := by
  rw [getD_take]
  split
  · rw [List.getD_eq_getElem?_getD, List.getD_eq_getElem?_getD, List.getElem?_drop]
  · rfl

theorem setU32_spec (pg : List Nat) (o v : Nat) (h : o + 4 ≤ pg.length) (hv : v < 4294967296) (hB : Bytes pg) :
    ∃ pg', setU32 pg o v = some pg' ∧ pg'.length = pg.length ∧ Bytes pg' ∧ u32Val pg' o = v ∧
      ∀ i, (i < o ∨ o + 4 ≤ i) → pg'.getD i 0 = pg.getD i 0 := by
  have hl : (writeAt pg o [v % 256, v / 256 % 256, v / 65536 % 256, v / 16777216 % 256]).length = pg.length :=
    length_writeAt _ _ _ (by simpa using h)
  refine ⟨_, ?_, hl, ?_, ?_, ?_⟩
  · unfold setU32; rw [if_pos h]
  · apply bytes_writeAt hB
    intro b hb
    simp only [List.mem_cons, List.not_mem_nil, or_false] at hb
    rcases hb with rfl | rfl | rfl | rfl <;> omega
  · unfold u32Val
    rw [getD_writeAt _ _ _ _ (by omega), getD_writeAt _ _ _ _ (by omega), getD_writeAt _ _ _ _ (by omega),
      getD_writeAt _ _ _ _ (by omega)]
    rw [if_neg (by omega), if_pos (by simp), if_neg (by omega), if_pos (by simp), if_neg (by omega), if_pos (by simp),
      if_neg (by omega), if_pos (by simp)]
    have e0 : o - o = 0 := by omega
    have e1 : o + 1 - o = 1 := by omega
    have e2 : o + 2 - o = 2 := by omega
    have e3 : o + 3 - o = 3 := by omega
    rw [e0, e1, e2, e3]
    simp only [List.getD_cons_zero, List.getD_cons_succ]
    omega
  · intro i hi
    rw [getD_writeAt _ _ _ _ (by omega)]
    rcases hi with hi | hi
    · rw [if_pos hi]
    · rw [if_neg (by omega), if_neg (by simp; omega)]

/-- the pointer values after the `updated` page numbers were applied in order -/
def updFun (idx : Nat) : List (Nat × Nat) → (Nat → Nat) → Nat → Nat
  | [], f => f
  | (i, pn) :: r, f => updFun idx r (fun j => if j = idx + i then pn else f j)

theorem applyUpdated_spec (idx n : Nat) (h4 : n * 4 + 10 ≤ 4096) :
    ∀ (upd : List (Nat × Nat)) (pg : List Nat), nodeN pg = some n → pg.length = 4096 → Bytes pg →
      (∀ x, x ∈ upd → idx + x.1 < n ∧ x.2 < 4294967296) →
      ∃ pg', applyUpdated idx upd pg = some pg' ∧ pg'.length = pg.length ∧ Bytes pg' ∧
        (∀ i, i < 4096 - n * 4 → pg'.getD i 0 = pg.getD i 0) ∧
        (∀ j, j < n → ptrVal pg' n j = updFun idx upd (ptrVal pg n) j) := by
  intro upd
  induction upd with
  | nil => intro pg _ _ hB _; exact ⟨pg, rfl, rfl, hB, fun _ _ => rfl, fun _ _ => rfl⟩
  | cons x r ih =>
    intro pg hn hl hB hx
    obtain ⟨i, pn⟩ := x
    have hx0 := hx (i, pn) (List.mem_cons_self)
    simp only at hx0
    have e : PAGE_SIZE - (n - (idx + i)) * 4 = 4096 - n * 4 + (idx + i) * 4 := by simp only [PAGE_SIZE]; omega
    obtain ⟨pg1, s1, s2, s3, s4, s5⟩ := setU32_spec pg (4096 - n * 4 + (idx + i) * 4) pn (by omega) hx0.2 hB
    have hn1 : nodeN pg1 = some n := by
      rw [← hn]; unfold nodeN
      exact u16At_congr s2 4 (s5 4 (by left; omega)) (s5 5 (by left; omega))
    obtain ⟨pg2, r1, r2, r3, r4, r5⟩ := ih pg1 hn1 (by rw [s2, hl]) s3 (fun y hy => hx y (List.mem_cons_of_mem _ hy))
    refine ⟨pg2, ?_, by rw [r2, s2], r3, ?_, ?_⟩
    · unfold applyUpdated setNodePointer
      rw [hn, Option.bind_some, if_neg (by omega), if_neg (by simp only [PAGE_SIZE]; omega), e, s1, Option.bind_some]
      exact r1
    · intro k hk; rw [r4 k hk, s5 k (by left; omega)]
    · intro j hj
      rw [r5 j hj]
      show updFun idx r (ptrVal pg1 n) j = updFun idx r (fun j => if j = idx + i then pn else ptrVal pg n j) j
      congr 1
      funext j'
      unfold ptrVal
      by_cases hjj : j' = idx + i
      · rw [if_pos hjj, hjj, s4]
      · rw [if_neg hjj]
        apply u32Val_congr
        intro r hr
        apply s5
        omega

/-- the block copy of the base's node pointers `[frm, frm + nItems)` to the slots `[idx, idx + nItems)` -/
theorem copyPointers_spec (pg base : List Nat) (nN nB idx frm nItems : Nat) (hl : pg.length = 4096) (hbl : base.length = 4096)
    (hB : Bytes pg) (hbB : Bytes base) (hi : idx + nItems ≤ nN) (hf : frm + nItems ≤ nB) (hN : nN * 4 ≤ 4096) (hNB : nB * 4 ≤ 4096) :
    (writeAt pg (PAGE_SIZE - nN * 4 + idx * 4) ((base.drop (PAGE_SIZE - nB * 4 + frm * 4)).take (nItems * 4))).length = pg.length ∧
    Bytes (writeAt pg (PAGE_SIZE - nN * 4 + idx * 4) ((base.drop (PAGE_SIZE - nB * 4 + frm * 4)).take (nItems * 4))) ∧
    (∀ i, i < 4096 - nN * 4 → (writeAt pg (PAGE_SIZE - nN * 4 + idx * 4)
        ((base.drop (PAGE_SIZE - nB * 4 + frm * 4)).take (nItems * 4))).getD i 0 = pg.getD i 0) ∧
    (∀ j, j < nN → ptrVal (writeAt pg (PAGE_SIZE - nN * 4 + idx * 4) ((base.drop (PAGE_SIZE - nB * 4 + frm * 4)).take (nItems * 4))) nN j =
        if idx ≤ j ∧ j < idx + nItems then ptrVal base nB (frm + (j - idx)) else ptrVal pg nN j) := by
  simp only [PAGE_SIZE]
  have hsl : ((base.drop (4096 - nB * 4 + frm * 4)).take (nItems * 4)).length = nItems * 4 := length_slice _ _ _ (by omega)
  refine ⟨length_writeAt _ _ _ (by rw [hsl]; omega), bytes_writeAt hB (bytes_slice hbB _ _) _, ?_, ?_⟩
  · intro i hi'
    rw [getD_writeAt _ _ _ _ (by omega), if_pos (by omega)]
  · intro j hj
    unfold ptrVal
    by_cases hc : idx ≤ j ∧ j < idx + nItems
    · rw [if_pos hc]
      apply u32Val_congr2
      intro r hr
      rw [getD_writeAt _ _ _ _ (by omega), hsl, if_neg (by omega), if_pos (by omega), getD_slice, if_pos (by omega)]
      congr 1; omega
    · rw [if_neg hc]
      apply u32Val_congr
      intro r hr
      rw [getD_writeAt _ _ _ _ (by omega), hsl]
      by_cases h1 : 4096 - nN * 4 + j * 4 + r < 4096 - nN * 4 + idx * 4
      · rw [if_pos h1]
      · rw [if_neg h1, if_neg (by omega)]

end Nomt.BitOps
