import NomtModel.Store.FreeListLemmas
/-!
Bounded exhaustive evaluation of the executable free-list model: on well-shaped lists `finish` does not hit a
panic site / run out of loop fuel, and its result is well-shaped again.  The general statement (every capacity
≥ 2, every list, every allocation count, every freed list) is proved in `Store/FreeListTotal.lean`
(`finish_total`); this file is kept as an independent kernel evaluation of the definitions themselves.
-/
namespace Nomt.Store.FreeList

/-- every portion holds between 1 and `cap` items; every portion below the head is full, except that the second
may hold `cap - 1` items when the head holds exactly one ("fragmentation", see the comment of `FreeList::commit`) -/
def wellShaped (cap : Nat) : List Portion → Bool
  | [] => true
  | [(_, items)] => 1 ≤ items.length && items.length ≤ cap
  | (_, items) :: (_, second) :: rest =>
    1 ≤ items.length && items.length ≤ cap &&
    (second.length == cap || (items.length == 1 && second.length + 1 == cap && 1 ≤ second.length)) &&
    rest.all (fun p => p.2.length == cap)

/-- a well-shaped list: `full` full portions below a head of `headLen` items (the second one item short if
`frag`); page numbers 1, 2, 3, … in order; also returns the next unused page number -/
def mkList (cap full headLen : Nat) (frag : Bool) : List Portion × Nat :=
  let lens : List Nat := (if headLen = 0 then [] else [headLen]) ++
    (List.range full).map (fun j => if frag && j == 0 then cap - 1 else cap)
  lens.foldl (fun (acc : List Portion × Nat) len =>
    (acc.1 ++ [(acc.2, (List.range len).map (fun j => acc.2 + 1 + j))], acc.2 + 1 + len)) ([], 1)

/-- one sync on `mkList …`: `n` allocations, `nfreed` freed pages (out of `nfreed + 2` live ones) -/
def checkOne (cap full headLen : Nat) (frag : Bool) (n nfreed : Nat) : Bool :=
  let l := mkList cap full headLen frag
  let live := (List.range (nfreed + 2)).map (fun j => l.2 + j)
  let s : State := { portions := l.1, released := [], pop := false, bump := l.2 + nfreed + 2 }
  match finish cap s n (live.take nfreed) with
  | none => false
  | some r => wellShaped cap r.state.portions

/-- all shapes with at most `maxFull` full portions, all head lengths, with and without fragmentation, all
allocation counts `≤ maxN` and freed counts `≤ maxFreed` -/
def checkAll (cap maxFull maxN maxFreed : Nat) : Bool :=
  (List.range (maxFull + 1)).all fun full =>
  (List.range (cap + 1)).all fun headLen =>
  [false, true].all fun frag =>
    if (frag && !(headLen == 1 && 1 ≤ full && 2 ≤ cap)) || (headLen == 0 && full != 0) then true else
    (List.range (maxN + 1)).all fun n =>
    (List.range (maxFreed + 1)).all fun nfreed =>
      checkOne cap full headLen frag n nfreed

/-- capacity 2: every shape up to 3 full portions, up to 8 allocations and 6 freed pages (kernel evaluation) -/
theorem bounded_cap2 : checkAll 2 3 8 6 = true := by decide +kernel

/-- capacity 3: every shape up to 2 full portions, up to 9 allocations and 6 freed pages (kernel evaluation) -/
theorem bounded_cap3 : checkAll 3 2 9 6 = true := by decide +kernel

/-- capacity 4: every shape up to 1 full portion, up to 9 allocations and 8 freed pages (kernel evaluation) -/
theorem bounded_cap4 : checkAll 4 1 9 8 = true := by decide +kernel

end Nomt.Store.FreeList
