import NomtModel.Store.WalkerBuild
import NomtModel.Core.Main
/-!
# The visitor calls of `build_trie` are the post-order traversal of the specified sub-trie

`treeEv` is the post-order list of visitor calls for a canonical block: the calls of the left sub-block, the calls of the
right sub-block, then `Internal { left, right }` for the node itself (an empty side contributes nothing and appears as the
terminator child).  `runEv_block` (same induction as `run_block` of `Core/Main.lean`): on a block the mirrored loop emits
`treeEv` followed by the hash-up calls that consume the pending siblings below the block.
-/
namespace Nomt.Walker
open Nomt

variable {Node VH : Type} (H : Hasher Node VH)

/-- the `Leaf` call of a key at relative depth `e` with the previous key `prev` -/
def leafEv (skip e : Nat) (prev : Option Key) (k : Key) (v : VH) : WriteNode Node VH :=
  .leaf prev.isSome
    ((k.take (skip + e)).drop (skip + (prev.map (fun p => sharedRel skip p k)).getD 0)) k v (H.leaf k v)

/-- the key before the first key of the right sub-block -/
def prevOf (B0 : List (Key × VH)) (prev : Option Key) : Option Key :=
  match B0.getLast? with
  | some l => some l.1
  | none => prev

/-- post-order visitor calls of the sub-trie of block `B` rooted at relative depth `e` -/
def treeEv (skip : Nat) : (fuel e : Nat) → List (Key × VH) → Option Key → List (WriteNode Node VH)
  | _, _, [], _ => []
  | _, e, [(k, v)], prev => [leafEv H skip e prev k v]
  | 0, _, _ :: _ :: _, _ => []
  | fuel+1, e, a :: b :: rest, prev =>
      let B := a :: b :: rest
      let B0 := side (skip + e) false B
      let B1 := side (skip + e) true B
      let n0 := nodeAt H fuel (skip + e + 1) B0
      let n1 := nodeAt H fuel (skip + e + 1) B1
      treeEv skip fuel (e+1) B0 prev ++ treeEv skip fuel (e+1) B1 (prevOf B0 prev) ++ [.internal n0 n1 (H.internal n0 n1)]

theorem treeEv_nil (skip fuel e : Nat) (prev : Option Key) :
    treeEv H skip fuel e ([] : List (Key × VH)) prev = [] := by
  cases fuel <;> simp [treeEv]

theorem treeEv_single (skip fuel e : Nat) (prev : Option Key) (k : Key) (v : VH) :
    treeEv H skip fuel e [(k, v)] prev = [leafEv H skip e prev k v] := by
  cases fuel <;> simp [treeEv]

theorem treeEv_two (skip fuel e : Nat) (prev : Option Key) (a b : Key × VH) (rest : List (Key × VH)) :
    treeEv H skip (fuel+1) e (a :: b :: rest) prev =
      treeEv H skip fuel (e+1) (side (skip + e) false (a :: b :: rest)) prev ++
      treeEv H skip fuel (e+1) (side (skip + e) true (a :: b :: rest))
        (prevOf (side (skip + e) false (a :: b :: rest)) prev) ++
      [.internal (nodeAt H fuel (skip + e + 1) (side (skip + e) false (a :: b :: rest)))
                 (nodeAt H fuel (skip + e + 1) (side (skip + e) true (a :: b :: rest)))
                 (H.internal (nodeAt H fuel (skip + e + 1) (side (skip + e) false (a :: b :: rest)))
                             (nodeAt H fuel (skip + e + 1) (side (skip + e) true (a :: b :: rest))))] := by
  simp [treeEv]

/-! ## `hashUpEv` peeling (parallel to `hashUp_peel_*`) -/

theorem hashUpEv_zero (k : Key) (skip layer : Nat) (N : Node) (σ : Stack Node) :
    hashUpEv (VH := VH) H k skip 0 layer N σ = [] := rfl

theorem hashUpEv_peel_term (k : Key) (skip up e : Nat) (N : Node) (σ : Stack Node)
    (hσ : ∀ x ∈ σ, x.2 ≤ e) :
    hashUpEv (VH := VH) H k skip (up+1) (e+1) N σ =
      (let l := if k.getD (skip + e) false then H.term else N
       let r := if k.getD (skip + e) false then N else H.term
       .internal l r (H.internal l r) :: hashUpEv H k skip up e (H.internal l r) σ) := by
  simp only [hashUpEv, Nat.add_sub_cancel]
  cases σ with
  | nil => simp
  | cons x xs =>
    obtain ⟨n, l⟩ := x
    have : l ≤ e := hσ (n, l) (by simp)
    have hne : (l == e + 1) = false := by simp; omega
    simp [hne]

theorem hashUpEv_peel_pop (k : Key) (skip up e : Nat) (N N0 : Node) (σ : Stack Node) :
    hashUpEv (VH := VH) H k skip (up+1) (e+1) N ((N0, e+1) :: σ) =
      (let l := if k.getD (skip + e) false then N0 else N
       let r := if k.getD (skip + e) false then N else N0
       .internal l r (H.internal l r) :: hashUpEv H k skip up e (H.internal l r) σ) := by
  simp [hashUpEv]

theorem hashUpEv_congr (k k' : Key) (skip : Nat) :
    ∀ (up layer : Nat) (node : Node) (st : Stack Node),
      up ≤ layer →
      (∀ i, layer - up ≤ i → i < layer → k.getD (skip + i) false = k'.getD (skip + i) false) →
      hashUpEv (VH := VH) H k skip up layer node st = hashUpEv H k' skip up layer node st := by
  intro up
  induction up with
  | zero => intro layer node st _ _; rfl
  | succ up ih =>
    intro layer node st hle hbits
    have hb : k.getD (skip + (layer - 1)) false = k'.getD (skip + (layer - 1)) false :=
      hbits (layer - 1) (by omega) (by omega)
    simp only [hashUpEv, hb]
    congr 1
    apply ih
    · omega
    · intro i h1 h2; exact hbits i (by omega) (by omega)

/-! ## `runEv` over an append -/

theorem runEv_append (skip : Nat) :
    ∀ (B0 : List (Key × VH)) (a : Key × VH) (B1 : List (Key × VH)) (b : Key × VH)
      (prev next : Option Key) (st : Stack Node) (e0 e1 : List (WriteNode Node VH)),
      runEv H skip prev (B0 ++ [a]) (some b.1) st = some e0 →
      runEv H skip (some a.1) (b :: B1) next (run H skip prev (B0 ++ [a]) (some b.1) st) = some e1 →
      runEv H skip prev (B0 ++ a :: (b :: B1)) next st = some (e0 ++ e1) := by
  intro B0
  induction B0 with
  | nil =>
    intro a B1 b prev next st e0 e1 h0 h1
    obtain ⟨ka, va⟩ := a
    obtain ⟨kb, vb⟩ := b
    simp only [List.nil_append, runEv, run] at h0 h1 ⊢
    rw [h0, h1]
  | cons x xs ih =>
    intro a B1 b prev next st e0 e1 h0 h1
    obtain ⟨kx, vx⟩ := x
    cases xs with
    | nil =>
      obtain ⟨ka, va⟩ := a
      obtain ⟨kb, vb⟩ := b
      simp only [List.cons_append, List.nil_append, runEv, run] at h0 h1 ⊢
      cases hs : stepKeyEv H skip prev kx vx (some ka) st with
      | none => simp [hs] at h0
      | some ex =>
        simp only [hs] at h0 ⊢
        cases hs2 : stepKeyEv H skip (some kx) ka va (some kb) (stepKey H skip prev kx vx (some ka) st) with
        | none => simp [hs2] at h0
        | some ea =>
          simp only [hs2] at h0 ⊢
          rw [h1]
          simp only [Option.some.injEq] at h0
          rw [← h0]; simp
    | cons y ys =>
      obtain ⟨ky, vy⟩ := y
      simp only [List.cons_append, runEv, run] at h0 h1 ⊢
      cases hs : stepKeyEv H skip prev kx vx (some ky) st with
      | none => simp [hs] at h0
      | some ex =>
        simp only [hs] at h0 ⊢
        cases hr : runEv H skip (some kx) ((ky, vy) :: (ys ++ [a])) (some b.1) (stepKey H skip prev kx vx (some ky) st) with
        | none => simp [hr] at h0
        | some er =>
          simp only [hr, Option.some.injEq] at h0
          have := ih a B1 b (some kx) next (stepKey H skip prev kx vx (some ky) st) er e1
            (by simpa using hr) (by simpa using h1)
          simp only [List.cons_append] at this
          rw [this, ← h0]; simp

end Nomt.Walker

namespace Nomt.Walker
open Nomt

variable {Node VH : Type} (H : Hasher Node VH)

/-- what the mirrored loop emits on a block: its post-order calls, then the hash-up calls to the target layer -/
def blockEvents (skip e fuel : Nat) (B : List (Key × VH)) (prev next : Option Key) (σ : Stack Node) :
    List (WriteNode Node VH) :=
  match B with
  | [] => []
  | (k, _) :: _ =>
      treeEv H skip fuel e B prev ++
        hashUpEv H k skip (e - tgt skip next k) e (nodeAt H fuel (skip + e) B) σ

theorem depthUp_eq (skip : Nat) (prev : Option Key) (k : Key) (next : Option Key) :
    depthUp skip prev k next =
      (leafDepth skip prev k next, leafDepth skip prev k next - tgt skip next k) := by
  cases prev <;> cases next <;> simp [depthUp, leafDepth, tgt]
  omega

theorem stepKeyEv_single (skip e : Nat) (prev : Option Key) (k : Key) (v : VH) (next : Option Key) (σ : Stack Node)
    (hd : leafDepth skip prev k next = e) (hl : skip + e ≤ k.length) :
    stepKeyEv H skip prev k v next σ =
      some (leafEv H skip e prev k v :: hashUpEv H k skip (e - tgt skip next k) e (H.leaf k v) σ) := by
  unfold stepKeyEv
  simp only [depthUp_eq, hd]
  rw [if_neg (by omega)]
  cases prev <;> rfl

theorem prevOf_append_singleton (init : List (Key × VH)) (l : Key × VH) (prev : Option Key) :
    prevOf (init ++ [l]) prev = some l.1 := by
  simp [prevOf]

theorem runEv_block (skip : Nat) :
    ∀ (fuel e : Nat) (B : List (Key × VH)) (prev next : Option Key) (σ : Stack Node) (p : List Bool),
      B ≠ [] →
      Canon fuel (skip + e) B →
      (∀ kv ∈ B, kv.1.length = skip + e + fuel) →
      (∀ kv ∈ B, kv.1.take (skip + e) = p) →
      (∀ a, prev = some a → ∀ kv ∈ B, sharedRel skip a kv.1 < e) →
      (∀ c, next = some c → ∀ kv ∈ B, sharedRel skip c kv.1 < e) →
      (∀ k v, B = [(k, v)] → leafDepth skip prev k next = e) →
      (∀ x ∈ σ, x.2 ≤ e) →
      runEv H skip prev B next σ = some (blockEvents H skip e fuel B prev next σ) := by
  intro fuel
  induction fuel with
  | zero =>
    intro e B prev next σ p hne hcan hlen hp hprev hnext hsing hσ
    match B, hne, hcan with
    | [(k, v)], _, _ =>
      have hd := hsing k v rfl
      have hl := hlen (k, v) (by simp)
      simp only [runEv, blockEvents, treeEv_single, nodeAt_single]
      rw [stepKeyEv_single H skip e prev k v next σ hd (by simp at hl; omega)]
      rfl
  | succ fuel ih =>
    intro e B prev next σ p hne hcan hlen hp hprev hnext hsing hσ
    match B, hne, hcan with
    | [(k, v)], _, _ =>
      have hd := hsing k v rfl
      have hl := hlen (k, v) (by simp)
      simp only [runEv, blockEvents, treeEv_single, nodeAt_single]
      rw [stepKeyEv_single H skip e prev k v next σ hd (by simp at hl; omega)]
      rfl
    | a :: b :: rest, _, hcan =>
      obtain ⟨hB, c0, c1⟩ := hcan
      have htree := treeEv_two H skip fuel e prev a b rest
      have hnode := nodeAt_two H fuel (skip+e) a b rest
      generalize hBdef : (a :: b :: rest) = B at *
      have hBne : B ≠ [] := by rw [← hBdef]; simp
      have hB2 : ∀ k v, B ≠ [(k, v)] := by intro k v h; rw [← hBdef] at h; simp at h
      have hlen' : ∀ kv ∈ B, skip + e < kv.1.length := by
        intro kv hkv; have := hlen kv hkv; omega
      obtain ⟨ka, va⟩ := a
      have hka : (ka, va) ∈ B := by rw [← hBdef]; simp
      have ht : tgt skip next ka ≤ e := by
        cases next with
        | none => simp [tgt]
        | some c => have := hnext c rfl (ka, va) hka; simp only at this; simp only [tgt]; omega
      have hgoal : blockEvents H skip e (fuel+1) B prev next σ =
          treeEv H skip (fuel+1) e B prev ++
            hashUpEv H ka skip (e - tgt skip next ka) e (nodeAt H (fuel+1) (skip+e) B) σ := by
        rw [← hBdef]; rfl
      cases h1 : side (skip+e) true B with
      | nil =>
        have h0 : side (skip+e) false B = B := by rw [h1] at hB; simpa using hB.symm
        rw [hgoal, hnode, htree, h1, h0, treeEv_nil, nodeAt_nil, List.append_nil]
        rw [h0] at c0
        have hbit : ka.getD (skip+e) false = false := by
          have : (ka, va) ∈ side (skip+e) false B := by rw [h0]; exact hka
          exact (mem_side.mp this).2
        have hrec := ih (e+1) B prev next σ (p ++ [false]) hBne c0
          (by intro kv hkv; have := hlen kv hkv; omega)
          (by intro kv hkv
              have : kv ∈ side (skip+e) false B := by rw [h0]; exact hkv
              exact side_take skip e false B p fuel hlen hp kv this)
          (by intro x hx kv hkv; have := hprev x hx kv hkv; omega)
          (by intro x hx kv hkv; have := hnext x hx kv hkv; omega)
          (by intro k v h; exact absurd h (hB2 k v))
          (by intro x hx; have := hσ x hx; omega)
        rw [hrec]
        have hbr : blockEvents H skip (e+1) fuel B prev next σ =
            treeEv H skip fuel (e+1) B prev ++
              hashUpEv H ka skip (e + 1 - tgt skip next ka) (e+1) (nodeAt H fuel (skip+(e+1)) B) σ := by
          rw [← hBdef]; rfl
        rw [hbr]
        have harith : e + 1 - tgt skip next ka = (e - tgt skip next ka) + 1 := by omega
        rw [harith, hashUpEv_peel_term H ka skip _ e _ σ hσ, hbit]
        simp [Nat.add_assoc]
      | cons f1 tail1 =>
        cases h0 : side (skip+e) false B with
        | nil =>
          have h1' : side (skip+e) true B = B := by rw [h0] at hB; simpa using hB.symm
          rw [hgoal, hnode, htree, h0, h1', treeEv_nil, nodeAt_nil, List.nil_append]
          rw [h1'] at c1
          have hbit : ka.getD (skip+e) false = true := by
            have : (ka, va) ∈ side (skip+e) true B := by rw [h1']; exact hka
            exact (mem_side.mp this).2
          have hrec := ih (e+1) B prev next σ (p ++ [true]) hBne c1
            (by intro kv hkv; have := hlen kv hkv; omega)
            (by intro kv hkv
                have : kv ∈ side (skip+e) true B := by rw [h1']; exact hkv
                exact side_take skip e true B p fuel hlen hp kv this)
            (by intro x hx kv hkv; have := hprev x hx kv hkv; omega)
            (by intro x hx kv hkv; have := hnext x hx kv hkv; omega)
            (by intro k v h; exact absurd h (hB2 k v))
            (by intro x hx; have := hσ x hx; omega)
          have hpo : prevOf ([] : List (Key × VH)) prev = prev := rfl
          rw [hpo, hrec]
          have hbr : blockEvents H skip (e+1) fuel B prev next σ =
              treeEv H skip fuel (e+1) B prev ++
                hashUpEv H ka skip (e + 1 - tgt skip next ka) (e+1) (nodeAt H fuel (skip+(e+1)) B) σ := by
            rw [← hBdef]; rfl
          rw [hbr]
          have harith : e + 1 - tgt skip next ka = (e - tgt skip next ka) + 1 := by omega
          rw [harith, hashUpEv_peel_term H ka skip _ e _ σ hσ, hbit]
          simp [Nat.add_assoc]
        | cons f0 tail0 =>
          rw [hgoal, hnode, htree, h0, h1]
          rw [h0] at c0
          rw [h1] at c1
          obtain ⟨k0, v0⟩ := f0
          obtain ⟨k1, v1⟩ := f1
          have mem0 : ∀ kv ∈ (k0, v0) :: tail0, kv ∈ B ∧ kv.1.getD (skip+e) false = false := by
            intro kv hkv; rw [← h0] at hkv; exact mem_side.mp hkv
          have mem1 : ∀ kv ∈ (k1, v1) :: tail1, kv ∈ B ∧ kv.1.getD (skip+e) false = true := by
            intro kv hkv; rw [← h1] at hkv; exact mem_side.mp hkv
          have hcross : ∀ kv0 ∈ (k0, v0) :: tail0, ∀ kv1 ∈ (k1, v1) :: tail1,
              sharedRel skip kv1.1 kv0.1 = e := by
            intro kv0 h0' kv1 h1'
            have m0 := mem0 kv0 h0'
            have m1 := mem1 kv1 h1'
            apply sharedRel_split skip e kv1.1 kv0.1
            · rw [hp kv1 m1.1, hp kv0 m0.1]
            · exact hlen' kv1 m1.1
            · exact hlen' kv0 m0.1
            · rw [m0.2, m1.2]; simp
          obtain ⟨init0, l0, hinit⟩ : ∃ init l, (k0, v0) :: tail0 = init ++ [l] :=
            ⟨((k0, v0) :: tail0).dropLast, ((k0, v0) :: tail0).getLast (by simp),
              (List.dropLast_concat_getLast (by simp)).symm⟩
          have hl0 : l0 ∈ (k0, v0) :: tail0 := by rw [hinit]; simp
          have hBeq : B = init0 ++ l0 :: ((k1, v1) :: tail1) := by
            calc B = side (skip+e) false B ++ side (skip+e) true B := hB
              _ = init0 ++ l0 :: ((k1, v1) :: tail1) := by rw [h0, h1, hinit]; simp
          have hpo : prevOf ((k0, v0) :: tail0) prev = some l0.1 := by
            rw [hinit]; exact prevOf_append_singleton _ _ _
          rw [hpo]
          -- left block
          have hrec0 := ih (e+1) ((k0, v0) :: tail0) prev (some k1) σ (p ++ [false]) (by simp) c0
            (by intro kv hkv; have := hlen kv (mem0 kv hkv).1; omega)
            (by intro kv hkv
                exact side_take skip e false B p fuel hlen hp kv (by rw [h0]; exact hkv))
            (by intro x hx kv hkv; have := hprev x hx kv (mem0 kv hkv).1; omega)
            (by intro c hc kv hkv
                injection hc with hc; subst hc
                have := hcross kv hkv (k1, v1) (by simp)
                simp only at this; omega)
            (by intro k v hkv
                have hmem : (k, v) ∈ (k0, v0) :: tail0 := by rw [hkv]; simp
                have hx := hcross (k, v) hmem (k1, v1) (by simp)
                simp only at hx
                cases prev with
                | none => simp [leafDepth, hx]
                | some a =>
                  have := hprev a rfl (k, v) (mem0 _ hmem).1
                  simp only at this
                  simp only [leafDepth, Option.map_some, hx]
                  omega)
            (by intro x hx; have := hσ x hx; omega)
          have ht0 : tgt skip (some k1) k0 = e + 1 := by
            have := hcross (k0, v0) (by simp) (k1, v1) (by simp)
            simp only at this
            simp [tgt, this]
          have hev0 : runEv H skip prev ((k0, v0) :: tail0) (some k1) σ =
              some (treeEv H skip fuel (e+1) ((k0, v0) :: tail0) prev) := by
            rw [hrec0]
            simp [blockEvents, ht0, hashUpEv]
          -- the stack after the left block (from `run_block`)
          have hres0 : run H skip prev ((k0, v0) :: tail0) (some k1) σ =
              (nodeAt H fuel (skip + (e+1)) ((k0, v0) :: tail0), e+1) :: σ := by
            rw [run_block H skip fuel (e+1) ((k0, v0) :: tail0) prev (some k1) σ (p ++ [false]) (by simp) c0
              (by intro kv hkv; have := hlen kv (mem0 kv hkv).1; omega)
              (by intro kv hkv
                  exact side_take skip e false B p fuel hlen hp kv (by rw [h0]; exact hkv))
              (by intro x hx kv hkv; have := hprev x hx kv (mem0 kv hkv).1; omega)
              (by intro c hc kv hkv
                  injection hc with hc; subst hc
                  have := hcross kv hkv (k1, v1) (by simp)
                  simp only at this; omega)
              (by intro k v hkv
                  have hmem : (k, v) ∈ (k0, v0) :: tail0 := by rw [hkv]; simp
                  have hx := hcross (k, v) hmem (k1, v1) (by simp)
                  simp only at hx
                  cases prev with
                  | none => simp [leafDepth, hx]
                  | some a =>
                    have := hprev a rfl (k, v) (mem0 _ hmem).1
                    simp only at this
                    simp only [leafDepth, Option.map_some, hx]
                    omega)
              (by intro x hx; have := hσ x hx; omega)]
            simp [blockResult, ht0, hashUp]
          -- right block
          have hrec1 := ih (e+1) ((k1, v1) :: tail1) (some l0.1) next
            ((nodeAt H fuel (skip + (e+1)) ((k0, v0) :: tail0), e+1) :: σ) (p ++ [true]) (by simp) c1
            (by intro kv hkv; have := hlen kv (mem1 kv hkv).1; omega)
            (by intro kv hkv
                exact side_take skip e true B p fuel hlen hp kv (by rw [h1]; exact hkv))
            (by intro a ha kv hkv
                injection ha with ha; subst ha
                have h := hcross l0 hl0 kv hkv
                rw [sharedRel_comm] at h
                omega)
            (by intro x hx kv hkv; have := hnext x hx kv (mem1 kv hkv).1; omega)
            (by intro k v hkv
                have hmem : (k, v) ∈ (k1, v1) :: tail1 := by rw [hkv]; simp
                have hx := hcross l0 hl0 (k, v) hmem
                rw [sharedRel_comm] at hx
                simp only at hx
                cases next with
                | none => simp [leafDepth, hx]
                | some c =>
                  have := hnext c rfl (k, v) (mem1 _ hmem).1
                  simp only at this
                  simp only [leafDepth, Option.map_some, hx]
                  omega)
            (by intro x hx
                simp only [List.mem_cons] at hx
                rcases hx with hx | hx
                · subst hx; simp
                · have := hσ x hx; omega)
          have hk1B : (k1, v1) ∈ B := (mem1 (k1, v1) (by simp)).1
          have hbit1 : k1.getD (skip+e) false = true := (mem1 (k1, v1) (by simp)).2
          have htk : tgt skip next k1 = tgt skip next ka := by
            cases next with
            | none => rfl
            | some c =>
              have hlt := hnext c rfl (ka, va) hka
              simp only at hlt
              have := sharedRel_block skip e c ka k1
                (by rw [hp (ka, va) hka, hp (k1, v1) hk1B]) hlt
              simp [tgt, this]
          have harith : e + 1 - tgt skip next k1 = (e - tgt skip next ka) + 1 := by
            rw [htk]; omega
          have hcongr : ∀ (N : Node),
              hashUpEv (VH := VH) H k1 skip (e - tgt skip next ka) e N σ =
                hashUpEv H ka skip (e - tgt skip next ka) e N σ := by
            intro N
            apply hashUpEv_congr
            · omega
            · intro i _ hi
              apply getD_eq_of_take (skip + e) (skip + i)
              · rw [hp (k1, v1) hk1B, hp (ka, va) hka]
              · omega
          have hev1 : runEv H skip (some l0.1) ((k1, v1) :: tail1) next
              (run H skip prev (init0 ++ [l0]) (some (k1, v1).1) σ) =
              some (treeEv H skip fuel (e+1) ((k1, v1) :: tail1) (some l0.1) ++
                [.internal (nodeAt H fuel (skip + e + 1) ((k0, v0) :: tail0))
                           (nodeAt H fuel (skip + e + 1) ((k1, v1) :: tail1))
                           (H.internal (nodeAt H fuel (skip + e + 1) ((k0, v0) :: tail0))
                                       (nodeAt H fuel (skip + e + 1) ((k1, v1) :: tail1)))] ++
                hashUpEv H ka skip (e - tgt skip next ka) e
                  (H.internal (nodeAt H fuel (skip + e + 1) ((k0, v0) :: tail0))
                              (nodeAt H fuel (skip + e + 1) ((k1, v1) :: tail1))) σ) := by
            rw [← hinit, hres0, hrec1]
            simp only [blockEvents]
            rw [harith, hashUpEv_peel_pop, hbit1]
            simp only [if_true, hcongr]
            simp [Nat.add_assoc]
          have happ := runEv_append H skip init0 l0 tail1 (k1, v1) prev next σ _ _
            (by rw [← hinit]; exact hev0) hev1
          rw [hBeq, happ]
          simp
end Nomt.Walker
