import NomtModel.Store.BranchUpdPush
import NomtModel.Store.LeafUpdInv
/-!
# Branch updater: `find_key_pos`, `keep_up_to`, `ingest`

`content st` = what the op list stands for followed by the items of the base from `low` on.  `ingest(key, pn)` turns it
into `write1 (content st) key pn` (the sorted-list update of `Store/LeafUpdKeep.lean`) and keeps the tracker consistent.
-/
namespace Nomt.BranchUpd
open Nomt.LeafUpd (Entry Sorted write1 sorted_find write1_append_below write1_sorted mem_write1
  slice_length slice_append slice_succ slice_cons_of_lt mem_slice slice_self slice_eq_take_drop)

def restOf (b? : Option Base) : List (Entry Nat) :=
  match b? with
  | some b => ents (b.node.items.drop b.low)
  | none => []

def content (st : St) : List (Entry Nat) := den st.base st.ops ++ restOf st.base

/-! ## the base only matters through its node -/

theorem denOp_low (b : Base) (l : Nat) (op : Op) : denOp (some { b with low := l }) op = denOp (some b) op := by
  cases op <;> rfl

theorem den_low (b : Base) (l : Nat) : ∀ ops, den (some { b with low := l }) ops = den (some b) ops
  | [] => rfl
  | op :: r => by simp [denOp_low, den_low b l r]

theorem opOK_low {kf : KF} (b : Base) (l : Nat) {op : Op} (h : OpOK kf (some b) op) : OpOK kf (some { b with low := l }) op := by
  cases op with
  | ins k pn => trivial
  | upd pos pn =>
    obtain ⟨b', e, h1, h2⟩ := h
    cases e
    exact ⟨_, rfl, h1, h2⟩
  | keep s e sum =>
    obtain ⟨b', eb, h1, h2, h3, h4⟩ := h
    cases eb
    exact ⟨_, rfl, h1, h2, h3, h4⟩

theorem trOK_low {kf : KF} (b : Base) (l : Nat) {ops : List Op} {g : Gauge} (h : TrOK kf (some b) ops g) :
    TrOK kf (some { b with low := l }) ops g :=
  ⟨fun op hop => opOK_low b l (h.wf op hop), by rw [den_low]; exact h.gauge, h.pc⟩

/-! ## `find_key_pos` on a well-formed node is the search in the ascending items from `low` on -/

theorem findIdx_all_false {α : Type} (p : α → Bool) : ∀ l : List α, (∀ x ∈ l, p x = false) → l.findIdx p = l.length
  | [], _ => rfl
  | a :: r, h => by
    rw [List.findIdx_cons, h a (by simp)]
    simp [findIdx_all_false p r (fun x hx => h x (by simp [hx]))]

theorem findIdx_ents (k : Nat) : ∀ l : List Item,
    (ents l).findIdx (fun e => decide (k ≤ e.key)) = l.findIdx (fun it => decide (k ≤ it.key))
  | [] => rfl
  | a :: r => by
    simp only [ents_cons, List.findIdx_cons, findIdx_ents k r]
    rfl

theorem NodeOK.head {kf : KF} {nd : Node} (h : NodeOK kf nd) :
    ∃ hl : 0 < nd.items.length, nd.items.head? = some nd.items[0] := by
  have hl : 0 < nd.items.length := by
    cases hx : nd.items with
    | nil => exact absurd hx h.ne
    | cons a r => simp
  exact ⟨hl, by rw [List.head?_eq_getElem?, List.getElem?_eq_getElem hl]⟩

theorem NodeOK.first_le {kf : KF} {nd : Node} (h : NodeOK kf nd) (i : Nat) (hi : i < nd.items.length)
    (hl0 : 0 < nd.items.length) : nd.items[0].key ≤ nd.items[i].key := by
  by_cases h0 : i = 0
  · subst h0; exact Nat.le_refl _
  · exact Nat.le_of_lt (h.key_lt 0 i (by omega) hi)

/-- the binary search with its two prefix shortcuts -/
theorem findKeyPos_std {kf : KF} {nd : Node} (h : NodeOK kf nd) (k low : Nat) (hlow : low < nd.items.length)
    (hpassed : ∀ it ∈ nd.items.take low, it.key < k) :
    findKeyPos nd k low =
      (match (nd.items.drop low)[(nd.items.drop low).findIdx (fun e => decide (k ≤ e.key))]? with
       | some e => if e.key == k then (true, low + (nd.items.drop low).findIdx (fun e => decide (k ≤ e.key)))
                   else (false, low + (nd.items.drop low).findIdx (fun e => decide (k ≤ e.key)))
       | none => (false, low + (nd.items.drop low).findIdx (fun e => decide (k ≤ e.key)))) := by
  obtain ⟨hl0, hhead⟩ := h.head
  unfold findKeyPos
  simp only [hhead]
  by_cases h1 : top k nd.pl < top nd.items[0].key nd.pl
  · simp only [h1, if_true]
    have hk0 : k < nd.items[0].key := lt_of_top_lt h1
    have hlow0 : low = 0 := by
      apply Nat.eq_zero_of_not_pos
      intro hp
      have : nd.items[0] ∈ nd.items.take low := by
        rw [List.mem_take_iff_getElem]
        exact ⟨0, by rw [Nat.lt_min]; exact ⟨hp, hl0⟩, rfl⟩
      have := hpassed _ this
      omega
    subst hlow0
    simp only [List.drop_zero, Nat.zero_add]
    have hidx : nd.items.findIdx (fun e => decide (k ≤ e.key)) = 0 := by
      cases hx : nd.items with
      | nil => simp [hx] at hl0
      | cons a r =>
        have : a = nd.items[0] := by simp [hx]
        rw [List.findIdx_cons]
        have : decide (k ≤ a.key) = true := by rw [this]; simp; omega
        simp [this]
    rw [hidx, List.getElem?_eq_getElem hl0]
    have : (nd.items[0].key == k) = false := by simp; omega
    simp [this]
  · simp only [h1, if_false]
    by_cases h2 : top nd.items[0].key nd.pl < top k nd.pl ∧ nd.n = nd.pc
    · have hpc : nd.items.length = nd.pc := h2.2
      simp only [h2, and_self, if_true]
      have hall : ∀ it ∈ nd.items.drop low, decide (k ≤ it.key) = false := by
        intro it hit
        have hmem : it ∈ nd.items.take nd.pc := by
          rw [← h2.2, Node.n, List.take_length]
          exact List.mem_of_mem_drop hit
        have := h.share _ hhead it hmem
        have : it.key < k := lt_of_top_lt (by rw [this]; exact h2.1)
        simp; omega
      rw [findIdx_all_false _ _ hall]
      simp only [List.length_drop]
      have hnone : (List.drop low nd.items)[nd.items.length - low]? = none := List.getElem?_eq_none (by simp)
      rw [hnone]
      simp only
      congr 1; omega
    · simp only [h2, if_false]
      have : ¬ nd.n ≤ low := by show ¬ nd.items.length ≤ low; omega
      simp only [this, if_false]
      rfl

/-! ## `keep_up_to` -/

/-- the effect of `keep_up_to(Some(k))` -/
structure KeepOut (kf : KF) (st : St) (k : Nat) (st' : St) (res : Option Nat) : Prop where
  den_eq : den st'.base st'.ops = den st.base st.ops ++ (restOf st.base).filter (fun e => decide (e.key < k))
  rest_eq : restOf st'.base = (restOf st.base).filter (fun e => decide (k < e.key))
  tr : TrOK kf st'.base st'.ops st'.gauge
  base_ok : BaseOK kf st'.base
  node : st'.base.map (·.node) = st.base.map (·.node)
  cutoff : st'.cutoff = st.cutoff
  valid : st'.valid = true
  found : ∀ pos, res = some pos → ∃ b it, st'.base = some b ∧ b.node.items[pos]? = some it ∧ it.key = k
  notfound : res = none → ∀ e ∈ restOf st.base, e.key ≠ k
  passed : ∀ b, st'.base = some b → ∀ it ∈ b.node.items.take b.low, it.key ≤ k

theorem ents_filter_take (l : List Item) (n : Nat) : ents (l.take n) = (ents l).take n := by simp [ents, List.map_take]
theorem ents_drop (l : List Item) (n : Nat) : ents (l.drop n) = (ents l).drop n := by simp [ents, List.map_drop]

theorem keepUpTo_some_spec {kf : KF} (hkf : KFOK kf) (st : St) (k : Nat) (hv : st.valid = true)
    (htr : TrOK kf st.base st.ops st.gauge) (hbase : BaseOK kf st.base)
    (hsorted : Sorted (content st)) (hbelow : ∀ e ∈ content st, e.key < 2 ^ 256)
    (hden : ∀ e ∈ den st.base st.ops, e.key < k)
    (hpassed : ∀ b, st.base = some b → ∀ it ∈ b.node.items.take b.low, it.key < k) :
    ∃ st' res, keepUpTo kf st (some k) = some (st', res) ∧ KeepOut kf st k st' res := by
  obtain ⟨base, cutoff, ops, gauge, valid⟩ := st
  simp only at hv htr hbase hsorted hbelow hden hpassed
  subst hv
  cases base with
  | none =>
    refine ⟨_, none, rfl, ⟨by simp [restOf], by simp [restOf], htr, hbase, rfl, rfl, rfl, (by intro p hp; cases hp),
      (by intro _ e he; simp [restOf] at he), (by intro b hb; cases hb)⟩⟩
  | some b =>
    obtain ⟨hnode, hlowle⟩ := hbase b rfl
    have hsr : Sorted (ents (b.node.items.drop b.low)) := by
      have := hsorted.append_right; simpa [content, restOf] using this
    obtain ⟨s1, s2, s3, s4⟩ := sorted_find k (ents (b.node.items.drop b.low)) hsr
    rw [findIdx_ents] at s1 s2 s3 s4
    have hrest : restOf (some b) = ents (b.node.items.drop b.low) := rfl
    simp only [keepUpTo, findKey]
    by_cases hlow : b.low = b.node.items.length
    · have : (b.low == b.node.n) = true := by simp [Node.n, hlow]
      simp only [this, if_true]
      have hd : b.node.items.drop b.low = [] := by rw [hlow]; simp
      refine ⟨_, none, rfl, ⟨by simp [restOf, hd], by simp [restOf, hd], htr, hbase, rfl, rfl, rfl, (by intro p hp; cases hp),
        (by intro _ e he; simp [restOf, hd] at he), ?_⟩⟩
      intro b' hb' it hit
      simp only [Option.some.injEq] at hb'
      subst hb'
      exact Nat.le_of_lt (hpassed b rfl it hit)
    · have : (b.low == b.node.n) = false := by simp [Node.n, hlow]
      simp only [this, Bool.false_eq_true, if_false]
      have hlowlt : b.low < b.node.items.length := by omega
      rw [findKeyPos_std hnode k b.low hlowlt (hpassed b rfl)]
      generalize hpos : (b.node.items.drop b.low).findIdx (fun e => decide (k ≤ e.key)) = pos at s1 s2 s3 s4
      -- keeping the `pos` items in front
      have hkeep : pos ≠ 0 → b.low + pos ≤ b.node.items.length → ∀ low', low' ≤ b.node.items.length →
          ∃ st', pushChunk kf { base := some { b with low := low' }, cutoff := cutoff, ops := ops, gauge := gauge, valid := true }
              { b with low := low' } b.low (b.low + pos) = some st' ∧
            st'.base = some { b with low := low' } ∧ st'.cutoff = cutoff ∧ st'.valid = true ∧
            den st'.base st'.ops = den (some b) ops ++ (ents (b.node.items.drop b.low)).take pos ∧
            TrOK kf st'.base st'.ops st'.gauge := by
        intro hp hle low' hlow'
        have hslice : ents (slice b.node.items b.low (b.low + pos)) = (ents (b.node.items.drop b.low)).take pos := by
          rw [slice_eq_take_drop, ents_filter_take]
        have hkeys : ekeys (den (some b) ops) ++ chunkKeys { b with low := low' } b.low (b.low + pos) =
            ekeys (den (some b) ops ++ (ents (b.node.items.drop b.low)).take pos) := by
          rw [ekeys_append, chunkKeys_eq, ← hslice]
        have hsub : ∀ e ∈ den (some b) ops ++ (ents (b.node.items.drop b.low)).take pos, e ∈ content ⟨some b, cutoff, ops, gauge, true⟩ := by
          intro e he
          rcases List.mem_append.1 he with h1 | h1
          · exact List.mem_append_left _ h1
          · exact List.mem_append_right _ (List.mem_of_mem_take h1)
        obtain ⟨st', e1, e2, e3, e4, e5, e6⟩ := pushChunk_spec hkf
          { base := some { b with low := low' }, cutoff := cutoff, ops := ops, gauge := gauge, valid := true }
          { b with low := low' } rfl rfl (trOK_low b low' htr)
          (by intro b' hb'; simp only [Option.some.injEq] at hb'; subst hb'; exact ⟨hnode, by simp; omega⟩)
          b.low (b.low + pos) (by omega) hle
          (by
            simp only [den_low]
            rw [hkeys, sortedK_ekeys]
            have : Sorted (den (some b) ops ++ (ents (b.node.items.drop b.low)).take pos ++ (ents (b.node.items.drop b.low)).drop pos) := by
              rw [List.append_assoc, List.take_append_drop]; exact hsorted
            exact this.append_left)
          (by
            simp only [den_low]
            rw [hkeys]
            intro x hx
            obtain ⟨e, he, rfl⟩ := List.mem_map.1 hx
            exact hbelow e (hsub e he))
        refine ⟨st', e1, e2, e3, e4, ?_, e6⟩
        rw [e5, den_low]
        simp only [hslice]
      have hnokeep : ∀ low', TrOK kf (some { b with low := low' }) ops gauge := fun low' => trOK_low b low' htr
      have hbok : ∀ low', low' ≤ b.node.items.length → BaseOK kf (some { b with low := low' }) := by
        intro low' hl b' hb'
        simp only [Option.some.injEq] at hb'; subst hb'
        exact ⟨hnode, hl⟩
      have hposle : pos ≤ (b.node.items.drop b.low).length := by rw [← hpos]; exact List.findIdx_le_length
      have hposle' : b.low + pos ≤ b.node.items.length := by simp at hposle; omega
      -- items in front of `pos` are below `k`
      have hfront : ∀ it ∈ b.node.items.take (b.low + pos), it.key < k := by
        intro it hit
        have hsplit : b.node.items.take (b.low + pos) = b.node.items.take b.low ++ (b.node.items.drop b.low).take pos := by
          rw [List.take_add]
        rw [hsplit] at hit
        rcases List.mem_append.1 hit with h1 | h1
        · exact hpassed b rfl it h1
        · have : it.ent ∈ (ents (b.node.items.drop b.low)).filter (fun e => decide (e.key < k)) := by
            rw [s1, ← ents_filter_take]
            exact List.mem_map.2 ⟨it, h1, rfl⟩
          exact of_decide_eq_true (List.mem_filter.1 this).2
      cases hget : (b.node.items.drop b.low)[pos]? with
      | none =>
        have hget' : (ents (b.node.items.drop b.low))[pos]? = none := by
          rw [ents, List.getElem?_map, hget]; rfl
        obtain ⟨t1, _, t3⟩ := s4 hget'
        simp only
        have hposlen : b.low + pos = b.node.items.length := by
          have : pos = (b.node.items.drop b.low).length := by simpa using t3
          rw [List.length_drop] at this; omega
        have hpos0 : pos ≠ 0 := by omega
        have hne : (b.low + pos == b.low) = false := by simp; omega
        simp only [hne, Bool.false_eq_true, if_false]
        have hne2 : (b.low != b.low + pos) = true := by simp; omega
        simp only [hne2, if_true]
        obtain ⟨st', e1, e2, e3, e4, e5, e6⟩ := hkeep hpos0 hposle' (b.low + pos) hposle'
        simp only [e1, Option.map_some]
        refine ⟨st', none, rfl, ⟨?_, ?_, e6, by rw [e2]; exact hbok _ hposle', (by rw [e2]; rfl), e3, e4, (by intro p hp; cases hp), ?_, ?_⟩⟩
        · rw [e5, hrest, s1]
        · rw [e2]; simp only [restOf, hrest, t1]; rw [hposlen]; simp
        · intro _ e he hek
          rw [hrest] at he
          have : e ∈ (ents (b.node.items.drop b.low)).filter (fun e => decide (e.key < k)) := by
            rw [s1, t3, List.take_length]; exact he
          have := (List.mem_filter.1 this).2
          simp at this; omega
        · intro b' hb' it hit
          rw [e2] at hb'
          simp only [Option.some.injEq] at hb'; subst hb'
          exact Nat.le_of_lt (hfront it hit)
      | some e =>
        have hposlt : pos < (b.node.items.drop b.low).length := by
          rcases Nat.lt_or_ge pos (b.node.items.drop b.low).length with h | h
          · exact h
          · rw [List.getElem?_eq_none h] at hget; cases hget
        have hgete : (ents (b.node.items.drop b.low))[pos]? = some e.ent := by
          rw [ents, List.getElem?_map, hget]; rfl
        have hget' : b.node.items[b.low + pos]? = some e := by rw [← hget, List.getElem?_drop]
        have hpl : b.low + pos < b.node.items.length := by simp at hposlt; omega
        simp only
        by_cases hek : e.key = k
        · have hbeq : (e.key == k) = true := by simp [hek]
          simp only [hbeq, if_true]
          obtain ⟨t1, _⟩ := s2 e.ent hgete hek
          have hpass' : ∀ it ∈ b.node.items.take (b.low + pos + 1), it.key ≤ k := by
            intro it hit
            rw [List.take_add_one, hget'] at hit
            rcases List.mem_append.1 hit with h1 | h1
            · exact Nat.le_of_lt (hfront it h1)
            · simp at h1; subst h1; omega
          by_cases hp0 : pos = 0
          · have hne : (b.low != b.low + pos) = false := by simp [hp0]
            simp only [hne, Bool.false_eq_true, if_false, Option.map_some]
            refine ⟨_, _, rfl, ⟨?_, ?_, hnokeep _, hbok _ (by omega), rfl, rfl, rfl, ?_, (by intro h; cases h), ?_⟩⟩
            · simp only [den_low]; rw [hrest, s1, hp0]; simp
            · simp only [restOf, hrest, t1, ← ents_drop, List.drop_drop, Nat.add_assoc]
            · intro p hp; cases hp; exact ⟨_, e, rfl, hget', hek⟩
            · intro b' hb' it hit
              simp only [Option.some.injEq] at hb'; subst hb'
              exact hpass' it hit
          · have hne : (b.low != b.low + pos) = true := by simp; omega
            simp only [hne, if_true]
            obtain ⟨st', e1, e2, e3, e4, e5, e6⟩ := hkeep hp0 (by omega) (b.low + pos + 1) (by omega)
            simp only [e1, Option.map_some]
            refine ⟨st', _, rfl, ⟨?_, ?_, e6, by rw [e2]; exact hbok _ (by omega), (by rw [e2]; rfl), e3, e4, ?_, (by intro h; cases h), ?_⟩⟩
            · rw [e5, hrest, s1]
            · rw [e2]; simp only [restOf, hrest, t1, ← ents_drop, List.drop_drop, Nat.add_assoc]
            · intro p hp; cases hp; exact ⟨_, e, e2, hget', hek⟩
            · intro b' hb' it hit
              rw [e2] at hb'
              simp only [Option.some.injEq] at hb'; subst hb'
              exact hpass' it hit
        · have hbeq : (e.key == k) = false := by simp [hek]
          simp only [hbeq, Bool.false_eq_true, if_false]
          obtain ⟨t1, _⟩ := s3 e.ent hgete hek
          have hnf : ∀ x ∈ restOf (some b), x.key ≠ k := by
            intro x hx hxk
            rw [hrest, ← List.take_append_drop pos (ents (b.node.items.drop b.low))] at hx
            rcases List.mem_append.1 hx with h1 | h1
            · rw [← s1] at h1
              have := (List.mem_filter.1 h1).2
              simp at this; omega
            · rw [← t1] at h1
              have := (List.mem_filter.1 h1).2
              simp at this; omega
          by_cases hp0 : pos = 0
          · have hne : (b.low + pos == b.low) = true := by simp [hp0]
            simp only [hne, if_true]
            refine ⟨_, none, rfl, ⟨?_, ?_, htr, hbase, rfl, rfl, rfl, (by intro p hp; cases hp), fun _ => hnf, ?_⟩⟩
            · rw [hrest, s1, hp0]; simp
            · simp only [restOf, hrest, t1, hp0]; simp
            · intro b' hb' it hit
              simp only [Option.some.injEq] at hb'; subst hb'
              exact Nat.le_of_lt (hpassed _ rfl it hit)
          · have hne : (b.low + pos == b.low) = false := by simp; omega
            simp only [hne, Bool.false_eq_true, if_false]
            have hne2 : (b.low != b.low + pos) = true := by simp; omega
            simp only [hne2, if_true]
            obtain ⟨st', e1, e2, e3, e4, e5, e6⟩ := hkeep hp0 (by omega) (b.low + pos) (by omega)
            simp only [e1, Option.map_some]
            refine ⟨st', none, rfl, ⟨?_, ?_, e6, by rw [e2]; exact hbok _ (by omega), (by rw [e2]; rfl), e3, e4, (by intro p hp; cases hp), fun _ => hnf, ?_⟩⟩
            · rw [e5, hrest, s1]
            · rw [e2]; simp only [restOf, hrest, t1, ← ents_drop, List.drop_drop, Nat.add_assoc]
            · intro b' hb' it hit
              rw [e2] at hb'
              simp only [Option.some.injEq] at hb'; subst hb'
              exact Nat.le_of_lt (hfront it hit)

/-- `keep_up_to(None)`: the rest of the base moves into the op list -/
theorem keepUpTo_none_spec {kf : KF} (hkf : KFOK kf) (st : St) (hv : st.valid = true)
    (htr : TrOK kf st.base st.ops st.gauge) (hbase : BaseOK kf st.base)
    (hsorted : Sorted (content st)) (hbelow : ∀ e ∈ content st, e.key < 2 ^ 256) :
    ∃ st', keepUpTo kf st none = some (st', none) ∧ den st'.base st'.ops = content st ∧ restOf st'.base = [] ∧
      TrOK kf st'.base st'.ops st'.gauge ∧ BaseOK kf st'.base ∧ st'.base.map (·.node) = st.base.map (·.node) ∧
      st'.cutoff = st.cutoff ∧ st'.valid = true := by
  obtain ⟨base, cutoff, ops, gauge, valid⟩ := st
  simp only at hv htr hbase hsorted hbelow
  subst hv
  cases base with
  | none => exact ⟨_, rfl, by simp [content, restOf], rfl, htr, hbase, rfl, rfl, rfl⟩
  | some b =>
    obtain ⟨hnode, hlowle⟩ := hbase b rfl
    simp only [keepUpTo]
    by_cases hlow : b.low = b.node.items.length
    · have : (b.low == b.node.n) = true := by simp [Node.n, hlow]
      simp only [this, if_true]
      have hd : b.node.items.drop b.low = [] := by rw [hlow]; simp
      exact ⟨_, rfl, by simp [content, restOf, hd], by simp [restOf, hd], htr, hbase, rfl, rfl, rfl⟩
    · have : (b.low == b.node.n) = false := by simp [Node.n, hlow]
      simp only [this, Bool.false_eq_true, if_false]
      have hne : (b.low != b.node.n) = true := by simp [Node.n, hlow]
      simp only [hne, if_true]
      have hslice : ents (slice b.node.items b.low b.node.n) = ents (b.node.items.drop b.low) := by
        show ents (slice b.node.items b.low b.node.items.length) = _
        rw [Nomt.LeafUpd.slice_eq_drop _ _ _ (Nat.le_refl _)]
      have hkeys : ekeys (den (some b) ops) ++ chunkKeys { b with low := b.node.n } b.low b.node.n =
          ekeys (content ⟨some b, cutoff, ops, gauge, true⟩) := by
        rw [content, ekeys_append, chunkKeys_eq]
        simp only [restOf, hslice]
      obtain ⟨st', e1, e2, e3, e4, e5, e6⟩ := pushChunk_spec hkf
        { base := some { b with low := b.node.n }, cutoff := cutoff, ops := ops, gauge := gauge, valid := true }
        { b with low := b.node.n } rfl rfl (trOK_low b _ htr)
        (by intro b' hb'; simp only [Option.some.injEq] at hb'; subst hb'; exact ⟨hnode, Nat.le_refl _⟩)
        b.low b.node.n (by simp only [Node.n]; omega) (Nat.le_refl _)
        (by simp only [den_low]; rw [hkeys, sortedK_ekeys]; exact hsorted)
        (by
          simp only [den_low]; rw [hkeys]
          intro x hx
          obtain ⟨e, he, rfl⟩ := List.mem_map.1 hx
          exact hbelow e he)
      simp only [e1, Option.map_some]
      refine ⟨st', rfl, ?_, ?_, e6, ?_, (by rw [e2]; rfl), e3, e4⟩
      · rw [e5, den_low]; simp only [hslice]; rfl
      · rw [e2]; simp [restOf, Node.n]
      · rw [e2]
        intro b' hb'; simp only [Option.some.injEq] at hb'; subst hb'; exact ⟨hnode, Nat.le_refl _⟩

/-! ## the invariant of the updater between calls, `ingest` -/

structure TInv (kf : KF) (st : St) : Prop where
  valid : st.valid = true
  tr : TrOK kf st.base st.ops st.gauge
  base : BaseOK kf st.base
  sorted : Sorted (content st)
  below : ∀ e ∈ content st, e.key < 2 ^ 256

/-- a change as the sorted-list vocabulary of the leaf stage writes it -/
def chOf (pn : Option Nat) : Option (Nat × Bool) := pn.map fun p => (p, false)

theorem ingest_spec {kf : KF} (hkf : KFOK kf) (st : St) (k : Nat) (pn : Option Nat) (hinv : TInv kf st)
    (hden : ∀ e ∈ den st.base st.ops, e.key < k)
    (hpassed : ∀ b, st.base = some b → ∀ it ∈ b.node.items.take b.low, it.key < k) (hk : k < 2 ^ 256) :
    ∃ st', ingest kf st k pn = some st' ∧ content st' = write1 (content st) k (chOf pn) ∧ TInv kf st' ∧
      (∀ e ∈ den st'.base st'.ops, e.key ≤ k) ∧ st'.cutoff = st.cutoff ∧
      st'.base.map (·.node) = st.base.map (·.node) ∧
      (∀ b, st'.base = some b → ∀ it ∈ b.node.items.take b.low, it.key ≤ k) := by
  obtain ⟨st1, res, e1, ko⟩ := keepUpTo_some_spec hkf st k hinv.valid hinv.tr hinv.base hinv.sorted hinv.below hden hpassed
  have hcont1 : content st1 = write1 (content st) k none := by
    unfold content
    rw [write1_append_below hden, ko.den_eq, ko.rest_eq]
    simp [write1]
  have hden1 : ∀ e ∈ den st1.base st1.ops, e.key < k := by
    intro e he
    rw [ko.den_eq] at he
    rcases List.mem_append.1 he with he | he
    · exact hden e he
    · exact of_decide_eq_true (List.mem_filter.1 he).2
  have hsorted' := write1_sorted hinv.sorted k (chOf pn)
  have hbelow' : ∀ e ∈ write1 (content st) k (chOf pn), e.key < 2 ^ 256 := by
    intro e he
    rcases mem_write1 he with h | ⟨v, o, _, rfl⟩
    · exact hinv.below e h
    · exact hk
  simp only [ingest, e1]
  cases pn with
  | none =>
    refine ⟨st1, rfl, hcont1, ⟨ko.valid, ko.tr, ko.base_ok, by rw [hcont1]; exact hsorted', by rw [hcont1]; exact hbelow'⟩,
      fun e he => Nat.le_of_lt (hden1 e he), ko.cutoff, ko.node, ko.passed⟩
  | some p =>
    simp only
    -- the keys the tracker will describe after the push
    have hkeysS : SortedK (ekeys (den st1.base st1.ops) ++ [k]) := by
      have : Sorted (den st1.base st1.ops ++ [(⟨k, p, false⟩ : Entry Nat)]) := by
        have h2 : Sorted (write1 (content st) k (some (p, false))) := write1_sorted hinv.sorted k _
        have e : write1 (content st) k (some (p, false)) =
            (den st1.base st1.ops ++ [(⟨k, p, false⟩ : Entry Nat)]) ++ restOf st1.base := by
          unfold content
          rw [write1_append_below hden, ko.den_eq, ko.rest_eq]
          simp [write1]
        rw [e] at h2
        exact h2.append_left
      rw [← sortedK_ekeys] at this
      simpa using this
    have hkeysB : Below (ekeys (den st1.base st1.ops) ++ [k]) := by
      intro x hx
      rcases List.mem_append.1 hx with h1 | h1
      · obtain ⟨e, he, rfl⟩ := List.mem_map.1 h1
        have := hden1 e he
        omega
      · simp at h1; omega
    have hcont2 : ∀ st2 : St, st2.base = st1.base →
        den st2.base st2.ops = den st1.base st1.ops ++ [(⟨k, p, false⟩ : Entry Nat)] →
        content st2 = write1 (content st) k (chOf (some p)) := by
      intro st2 h1 h2
      unfold content
      rw [h2, h1, write1_append_below hden, ko.den_eq, ko.rest_eq]
      simp [write1, chOf]
    have hfin : ∀ st2 : St, st2.base = st1.base → st2.cutoff = st1.cutoff → st2.valid = true →
        den st2.base st2.ops = den st1.base st1.ops ++ [(⟨k, p, false⟩ : Entry Nat)] →
        TrOK kf st2.base st2.ops st2.gauge →
        content st2 = write1 (content st) k (chOf (some p)) ∧ TInv kf st2 ∧
          (∀ e ∈ den st2.base st2.ops, e.key ≤ k) ∧ st2.cutoff = st.cutoff ∧
          st2.base.map (·.node) = st.base.map (·.node) ∧
          (∀ b, st2.base = some b → ∀ it ∈ b.node.items.take b.low, it.key ≤ k) := by
      intro st2 h1 h2 h3 h4 h5
      have hc := hcont2 st2 h1 h4
      refine ⟨hc, ⟨h3, h5, by rw [h1]; exact ko.base_ok, by rw [hc]; exact hsorted', by rw [hc]; exact hbelow'⟩, ?_,
        by rw [h2, ko.cutoff], by rw [h1, ko.node], by rw [h1]; exact ko.passed⟩
      intro e he
      rw [h4] at he
      rcases List.mem_append.1 he with he | he
      · exact Nat.le_of_lt (hden1 e he)
      · simp at he; subst he; exact Nat.le_refl _
    cases res with
    | some pos =>
      obtain ⟨b, it, hb, hit, hitk⟩ := ko.found pos rfl
      simp only [hb]
      have hp : pos < b.node.items.length := by
        rcases Nat.lt_or_ge pos b.node.items.length with h | h
        · exact h
        · rw [List.getElem?_eq_none h] at hit; cases hit
      have hiteq : b.node.items[pos] = it := by
        rw [List.getElem?_eq_getElem hp] at hit; exact Option.some.inj hit
      obtain ⟨st2, f1, f2, f3, f4, f5, f6⟩ := pushUpdate_spec hkf st1 b hb ko.valid ko.tr ko.base_ok pos p hp
        (by rw [hiteq, hitk]; exact hkeysS) (by rw [hiteq, hitk]; exact hkeysB)
      rw [hiteq, hitk] at f5
      exact ⟨st2, f1, hfin st2 f2 f3 f4 f5 f6⟩
    | none =>
      simp only
      obtain ⟨st2, f1, f2, f3, f4, f5, f6⟩ := pushInsert_spec hkf st1 ko.valid ko.tr ko.base_ok k p hkeysS hkeysB
      refine ⟨st2, f1, hfin st2 f2 f3 f4 ?_ f6⟩
      rw [f5, f2]; simp [denOp]

end Nomt.BranchUpd
