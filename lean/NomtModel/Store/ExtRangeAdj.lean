import NomtModel.Store.ExtRangeRun
/-!
"`self.low` and `left.high` are kept equal" as an invariant of every interleaving: `Adj g` — the effective upper bound of a
worker (the `new_high_range` of the response in its slot, else `range.high`) is the `range.low` of its effective right
neighbour.  Together with the initial partition (`ChainOK`) the separator ranges of the live workers stay adjacent: they
cover the key space without gap or overlap at every moment at which no response is in flight.
-/
namespace Nomt.ExtRange

variable {σ N C : Type}

/-- `range.high` once the response in the slot is taken -/
def effHighV (w : W σ N C) : Option Nat :=
  match w.resp with
  | some r => r.newHigh
  | none => w.high

def Adj (g : G σ N C) : Prop :=
  ∀ i j, i < g.n → effRight (view (g.ws i)) = some j → effHighV (g.ws i) = (g.ws j).low

/-- a step of worker `i` that keeps its effective bound and neighbour (or drops the neighbour) and its `low` -/
theorem adj_same (g : G σ N C) (h : Adj g) (i : Nat) (w' : W σ N C)
    (hh : effHighV w' = effHighV (g.ws i))
    (hr : effRight (view w') = effRight (view (g.ws i)) ∨ effRight (view w') = none)
    (hl : w'.low = (g.ws i).low) (chans : Nat → List Nat) :
    Adj { setW g i w' with chans := chans } := by
  intro x y hx he
  simp only [setW, upd] at he ⊢
  by_cases hxi : x = i
  · subst hxi
    simp only [if_true] at he ⊢
    rcases hr with hr | hr
    · rw [hr] at he
      have := h x y hx he
      by_cases hyx : y = x
      · subst hyx; simp only [if_true]; rw [hh, hl]; exact this
      · simp only [hyx, if_false]; rw [hh]; exact this
    · rw [hr] at he; cases he
  · simp only [hxi, if_false] at he ⊢
    have := h x y hx he
    by_cases hyi : y = i
    · subst hyi; simp only [if_true]; rw [hl]; exact this
    · simp only [hyi, if_false]; exact this

theorem effHighV_of (w w' : W σ N C) (h1 : w'.resp = w.resp) (h2 : w'.high = w.high) : effHighV w' = effHighV w := by
  simp [effHighV, h1, h2]

theorem effRight_of (w w' : W σ N C) (h1 : w'.resp = w.resp) (h2 : w'.right = w.right) :
    effRight (view w') = effRight (view w) := by
  simp [effRight, view, h1, h2]

theorem SameQ.eff {w w' : W σ N C} (h : SameQ w w') :
    effHighV w' = effHighV w ∧ effRight (view w') = effRight (view w) :=
  ⟨effHighV_of w w' h.2.2.2.1 h.2.2.2.2, effRight_of w w' h.2.2.2.1 h.2.1⟩

/-! ### `low` is written by an answer only -/

theorem handleNew_low (i : Nat) : ∀ (outs : List (Nat × N × Option Nat)) (w : W σ N C), (handleNew i w outs).low = w.low
  | [], _ => rfl
  | (_, _, _) :: rest, w => by simp only [handleNew]; rw [handleNew_low i rest]

theorem resetFresh_low (U : Upd σ N C) (cfg : Cfg) (db : List (DbN N)) (w w' : W σ N C) (key : Nat)
    (h : resetFresh U cfg db w key = some w') : w'.low = w.low := by
  unfold resetFresh at h
  split at h
  · split at h
    · split at h
      · cases h
      · cases h; rfl
    · split at h
      · cases h; rfl
      · split at h
        · cases h
        · cases h; rfl
  · split at h
    · cases h; rfl
    · split at h
      · cases h
      · cases h; rfl

theorem resetBaseW_low (U : Upd σ N C) (cfg : Cfg) (db : List (DbN N)) (w w' : W σ N C) (b : Bool) (key : Nat)
    (h : resetBaseW U cfg db w b key = .ok w') : w'.low = w.low := by
  unfold resetBaseW at h
  split at h
  · split at h
    · cases h
    · rename_i hw; cases h; exact resetFresh_low U cfg db w _ key hw
  · split at h
    · cases h
    · split at h
      · cases h; rfl
      · split at h
        · split at h
          · cases h
          · rename_i hw; cases h; exact resetFresh_low U cfg db w _ _ hw
        · cases h; rfl

theorem takeResp_low (w : W σ N C) (r : Resp N) : (takeResp w r).low = w.low := by
  unfold takeResp
  split
  simp

def AdjOK : Res (G σ N C) → Prop
  | .ok g' => Adj g'
  | _ => True

theorem adj_loc (g : G σ N C) (h : Adj g) (i : Nat) (w' : W σ N C) (hs : SameQ (g.ws i) w')
    (hl : w'.low = (g.ws i).low) : Adj (setW g i w') :=
  adj_same g h i w' hs.eff.1 (Or.inl hs.eff.2) hl g.chans

theorem adj_loc_chans (g : G σ N C) (h : Adj g) (i : Nat) (w' : W σ N C) (hs : SameQ (g.ws i) w')
    (hl : w'.low = (g.ws i).low) (chans : Nat → List Nat) : Adj { setW g i w' with chans := chans } :=
  adj_same g h i w' hs.eff.1 (Or.inl hs.eff.2) hl chans

theorem adj_reset (U : Upd σ N C) (cfg : Cfg) (db : List (DbN N)) (g : G σ N C) (h : Adj g) (i : Nat) (k : Nat)
    (pc : Pc) :
    AdjOK (match resetBaseW U cfg db (g.ws i) false k with
      | .ok w' => .ok (setW g i { w' with pc := pc })
      | .panic s => .panic s
      | .blocked => .blocked) := by
  rcases resetBaseW_cases U cfg db (g.ws i) false k with ⟨w', hw, hs⟩ | ⟨s, hw, _⟩
  · rw [hw]
    exact adj_loc g h i { w' with pc := pc } ⟨hs.1, hs.2.1, hs.2.2.1, hs.2.2.2.1, hs.2.2.2.2.1⟩ (resetBaseW_low U cfg db (g.ws i) w' false k hw)
  · rw [hw]; trivial

theorem sendRequest_adj (g : G σ N C) (h : Adj g) (i : Nat) (k : Nat) (fin : Bool) :
    AdjOK (sendRequest g i (g.ws i) k fin) := by
  unfold sendRequest
  split
  · trivial
  · split
    · trivial
    · exact adj_loc_chans g h i { g.ws i with pc := .wait k fin } ⟨rfl, rfl, rfl, rfl, rfl⟩ rfl _

/-- the state after an answer keeps the ranges adjacent -/
theorem adj_ans_move (g : G σ N C) (hadj : Adj g) (i r : Nat) (hi : i < g.n) (hinv : AInv (absG g))
    (hrn : r < g.n) (hrj : r ≠ i) (hir : (g.ws i).resp = none) (hrr' : (g.ws r).right = some i)
    (hrresp' : (g.ws r).resp = none) (resp : Resp N) (relink : Bool) (finished : Bool)
    (hnr : resp.newRight = if relink = true then some (g.ws i).right else none)
    (hrel : relink = true → resp.newHigh = (g.ws i).high ∧ finished = true)
    (wi : W σ N C) (hwi : wi.resp = none ∧ wi.low = resp.newHigh ∧ wi.high = (g.ws i).high ∧
      wi.right = (if relink then none else (g.ws i).right)) (wr : W σ N C)
    (hwr : wr.resp = some resp ∧ wr.low = (g.ws r).low ∧ wr.right = (g.ws r).right) (chans : Nat → List Nat) :
    Adj { g with ws := upd (upd g.ws i wi) r wr, chans := chans } := by
  have heffr : effRight (view (g.ws r)) = some i := by simp [effRight, view, hrresp', hrr']
  obtain ⟨w1, w2, w3, w4⟩ := hwi
  obtain ⟨v1, v2, v3⟩ := hwr
  intro x y hx he
  simp only [upd] at he ⊢
  by_cases hxr : x = r
  · subst hxr
    simp only [if_true, effHighV, v1] at he ⊢
    simp only [effRight, view, v1, Option.map_some, respView, hnr] at he
    by_cases hrl : relink = true
    · simp only [hrl, if_true] at he
      have e1 := hadj i y hi (by simp [effRight, view, hir]; exact he)
      have hyi : y ≠ i := by
        intro e; subst e
        have := (hinv.topo y y hi (by simp [effRight, absG, view, hir]; exact he)).1
        omega
      have hyx : y ≠ x := by
        intro e; subst e
        have h1 := (hinv.topo i y hi (by simp [effRight, absG, view, hir]; exact he)).1
        have h2 := (hinv.topo y i hrn (by simpa [absG] using heffr)).1
        omega
      simp only [hyx, hyi, if_false]
      rw [(hrel hrl).1]
      simpa [effHighV, hir] using e1
    · simp only [hrl, if_false, Bool.false_eq_true] at he
      simp only [v3, hrr', Option.some.injEq] at he
      subst he
      simp [Ne.symm hrj, w2]
  · by_cases hxi : x = i
    · subst hxi
      simp only [hxr, if_false, if_true] at he ⊢
      simp only [effRight, view, w1, Option.map_none, w4] at he
      by_cases hrl : relink = true
      · simp [hrl] at he
      · simp only [hrl, if_false, Bool.false_eq_true] at he
        have e1 := hadj x y hi (by simp [effRight, view, hir]; exact he)
        have hyx : y ≠ x := by
          intro e; subst e
          have := (hinv.topo y y hi (by simp [effRight, absG, view, hir]; exact he)).1
          omega
        have hyr : y ≠ r := by
          intro e; subst e
          have h1 := (hinv.topo x y hi (by simp [effRight, absG, view, hir]; exact he)).1
          have h2 := (hinv.topo y x hrn (by simpa [absG] using heffr)).1
          omega
        simp only [hyr, hyx, if_false]
        simpa [effHighV, hir, w1, w3] using e1
    · simp only [hxr, hxi, if_false] at he ⊢
      have e1 := hadj x y hx he
      have hyi : y ≠ i := by
        intro e; subst e
        exact hxr (hinv.uniq x r y hx hrn (by simpa [absG] using he) (by simpa [absG] using heffr))
      by_cases hyr : y = r
      · subst hyr; simp only [if_true]; rw [v2]; exact e1
      · simp only [hyr, hyi, if_false]; exact e1

/-- the answer: the responder's `low` and the `new_high_range` in the requester's slot move together -/
theorem answerWith_adj (g : G σ N C) (hadj : Adj g) (i r : Nat) (chan : List Nat) (finished : Bool) (next : Pc)
    (hi : i < g.n) (hinv : AInv (absG g)) (hk : kindOf (g.ws i).pc = .run) (hreq : takeReq g i = some (r, chan)) :
    AdjOK (answerWith g i finished next r chan) := by
  have hkv : ((absG g).pv i).kind = .run := hk
  obtain ⟨hrn, hrk, hrr, hrresp, hrest, hrj, hjresp⟩ := hinv.requester i r chan hi hkv (takeReq_some hreq)
  have hir : (g.ws i).resp = none := resp_none_of_run hinv hi (by rw [hk]; decide)
  have hrr' : (g.ws r).right = some i := hrr
  have hrresp' : (g.ws r).resp = none := by
    cases hr : (g.ws r).resp with
    | none => rfl
    | some z => simp [absG, view, hr] at hrresp
  unfold answerWith
  simp only []
  cases ha : answer (g.ws i).tr.inner (g.ws i).low (g.ws i).high (g.ws i).right finished with
  | none =>
    exact adj_same g hadj i { g.ws i with pending := some r, pc := next } (effHighV_of _ _ rfl rfl)
      (Or.inl (effRight_of _ _ rfl rfl)) rfl _
  | some x =>
    obtain ⟨resp, inner', relink⟩ := x
    obtain ⟨hnr, hrel⟩ := answer_resp _ _ _ _ _ _ _ _ ha
    simp only []
    repeat' split
    all_goals first
      | trivial
      | (show Adj _
         apply adj_ans_move g hadj i r hi hinv hrn hrj hir hrr' hrresp' resp relink finished hnr hrel
         · exact ⟨hir, rfl, rfl, by simp [*]⟩
         · exact ⟨rfl, rfl, rfl⟩)

theorem tryAnswer_adj (g : G σ N C) (hadj : Adj g) (i : Nat) (finished : Bool) (next : Pc) (hi : i < g.n)
    (hinv : AInv (absG g)) (hk : kindOf (g.ws i).pc = .run) : AdjOK (tryAnswer g i finished next) := by
  unfold tryAnswer
  simp only []
  split
  · exact adj_loc g hadj i { g.ws i with pc := next } ⟨rfl, rfl, rfl, rfl, rfl⟩ rfl
  · cases hreq : takeReq g i with
    | none =>
      simp only []
      split
      · exact adj_same g hadj i { g.ws i with left := false, pc := next } (effHighV_of _ _ rfl rfl)
          (Or.inl (effRight_of _ _ rfl rfl)) rfl g.chans
      · exact adj_loc g hadj i { g.ws i with pc := next } ⟨rfl, rfl, rfl, rfl, rfl⟩ rfl
    | some x =>
      obtain ⟨r, chan⟩ := x
      exact answerWith_adj g hadj i r chan finished next hi hinv hk hreq

/-- every step keeps the separator ranges of neighbours adjacent -/
theorem adj_step (U : Upd σ N C) (cfg : Cfg) (db : List (DbN N)) (g : G σ N C) (i : Nat) (hi : i < g.n)
    (hinv : AInv (absG g)) (hadj : Adj g) (hm : cfg.highMax = false) : AdjOK (step U cfg db g i) := by
  have q0 : SameQ (g.ws i) (g.ws i) := ⟨rfl, rfl, rfl, rfl, rfl⟩
  cases hpc : (g.ws i).pc with
  | done => unfold step; simp only [hpc]; trivial
  | start =>
    unfold step; simp only [hpc]
    split
    · trivial
    · exact adj_reset U cfg db g hadj i _ _
  | loop =>
    unfold step; simp only [hpc]
    split
    · exact adj_loc g hadj i _ ⟨rfl, rfl, rfl, rfl, rfl⟩ rfl
    · split
      · split
        · trivial
        · exact adj_loc g hadj i _ ⟨rfl, rfl, rfl, rfl, rfl⟩ rfl
      · split
        · trivial
        · split
          · exact adj_loc g hadj i _ (handleNew_q i _ _ _ ⟨rfl, rfl, rfl, rfl, rfl⟩) (by simp [handleNew_low])
          · exact adj_loc g hadj i _ (handleNew_q i _ _ _ ⟨rfl, rfl, rfl, rfl, rfl⟩) (by simp [handleNew_low])
  | poll key =>
    unfold step; simp only [hpc]
    exact tryAnswer_adj g hadj i false _ hi hinv (by simp [hpc, kindOf])
  | ext k fin =>
    unfold step; simp only [hpc]
    split
    all_goals first
      | exact adj_reset U cfg db g hadj i _ _
      | (split <;> first | exact sendRequest_adj g hadj i k fin | exact adj_reset U cfg db g hadj i _ _)
  | fin =>
    unfold step; simp only [hpc]
    split
    · trivial
    · split
      · exact adj_loc g hadj i _ (handleNew_q i _ _ _ ⟨rfl, rfl, rfl, rfl, rfl⟩) (by simp [handleNew_low])
      · exact adj_loc g hadj i _ (handleNew_q i _ _ _ ⟨rfl, rfl, rfl, rfl, rfl⟩) (by simp [handleNew_low])
  | finOnce =>
    unfold step; simp only [hpc]
    split
    · trivial
    · exact adj_loc g hadj i _ (handleNew_q i _ _ _ ⟨rfl, rfl, rfl, rfl, rfl⟩) (by simp [handleNew_low])
  | final =>
    have hk : kindOf (g.ws i).pc = .run := by simp [hpc, kindOf]
    have hir : (g.ws i).resp = none := resp_none_of_run hinv hi (by rw [hk]; decide)
    unfold step; simp only [hpc]
    split
    · exact adj_same g hadj i { g.ws i with pc := .done, right := none } (effHighV_of _ _ rfl rfl)
        (Or.inr (by simp [effRight, view, hir])) rfl g.chans
    · have := tryAnswer_adj g hadj i true .finalRecv hi hinv hk
      cases hta : tryAnswer g i true .finalRecv with
      | ok g' => rw [hta] at this; simp only []; split <;> first | trivial | exact this
      | blocked => trivial
      | panic s => trivial
  | finalRecv =>
    unfold step; simp only [hpc]
    split
    · exact adj_loc g hadj i _ ⟨rfl, rfl, rfl, rfl, rfl⟩ rfl
    · split
      · show Adj _
        apply adj_same g hadj i
        · rfl
        · exact Or.inl rfl
        · rfl
      · split
        · exact adj_same g hadj i { g.ws i with left := false, pc := .final } (effHighV_of _ _ rfl rfl)
            (Or.inl (effRight_of _ _ rfl rfl)) rfl g.chans
        · trivial
  | wait k fin =>
    unfold step; simp only [hpc, takeRespC_asis cfg hm]
    cases hr : (g.ws i).resp with
    | none => trivial
    | some r =>
      simp only []
      obtain ⟨t1, t2, t3, t4, t5, t6⟩ := takeResp_frame (g.ws i) r
      have tl := takeResp_low (g.ws i) r
      have hreset : ∀ w'' : W σ N C, w''.resp = none → w''.high = r.newHigh → w''.low = (g.ws i).low →
          effRight (view w'') = effRight (view (g.ws i)) →
          AdjOK (match resetBaseW U cfg db w'' true k with
            | .ok w3 => .ok (setW g i { w3 with pc := afterReset cfg fin })
            | .panic s => .panic s
            | .blocked => .blocked) := by
        intro w'' h1 h2 h3 h4
        rcases resetBaseW_cases U cfg db w'' true k with ⟨w3, hw3, hs'⟩ | ⟨s, hw3, _⟩
        · rw [hw3]
          obtain ⟨a1, a2, a3, a4, a5, _⟩ := hs'
          refine adj_same g hadj i _ ?_ (Or.inl ?_) ?_ g.chans
          · simp [effHighV, a4, h1, a5, h2, hr]
          · rw [← h4]; simp [effRight, view, a4, a2]
          · show w3.low = _
            rw [resetBaseW_low U cfg db w'' w3 true k hw3, h3]
        · rw [hw3]; trivial
      cases hnr : r.newRight with
      | none =>
        simp only []
        exact hreset _ t4 t5 tl (by simp [effRight, view, t4, t2, hr, respView, hnr])
      | some nr =>
        cases nr with
        | none =>
          simp only []
          exact hreset _ t4 t5 tl (by simp [effRight, view, t4, hr, respView, hnr])
        | some j =>
          simp only []
          unfold sendRequest
          simp only []
          split
          · trivial
          · show Adj _
            apply adj_same g hadj i
            · simp [effHighV, t4, t5, hr]
            · left; simp [effRight, view, t4, hr, respView, hnr]
            · exact tl

/-- the adjacency along every schedule -/
theorem adj_runSched (U : Upd σ N C) (cfg : Cfg) (db : List (DbN N)) (hs : cfg.staleHigh = false)
    (hm : cfg.highMax = false) :
    ∀ (s : List Nat) (g : G σ N C), AInv (absG g) → Adj g →
      match runSched U cfg db s g with
      | .inr g' => Adj g'
      | .inl _ => True
  | [], g, _, h => h
  | i :: s, g, hinv, h => by
    unfold runSched
    by_cases hi : i < g.n
    · rw [if_pos hi]
      have h1 := step_ok U cfg db g i hi hinv hs hm
      have h2 := adj_step U cfg db g i hi hinv h hm
      cases hst : step U cfg db g i with
      | ok g' =>
        rw [hst] at h1 h2
        exact adj_runSched U cfg db hs hm s g' (ATrans.inv hinv h1) h2
      | blocked => exact adj_runSched U cfg db hs hm s g hinv h
      | panic site => trivial
    · rw [if_neg hi]; exact adj_runSched U cfg db hs hm s g hinv h

end Nomt.ExtRange
