import NomtModel.Store.LeafUpdBuild
/-!
# `find_key`, `keep_up_to`, `ingest`: the content of the updater and the overflow callback

`content st` = what the op list stands for followed by the entries of the base from `low` on: the entries the updater
still owns.  `ingest(key, change)` turns it into `write1 (content st) key change` (the sorted-list update) and hands
to `with_deleted_overflow` exactly the overflow cell stored under `key`, if there is one (`ovfAt`).
-/
namespace Nomt.LeafUpd
variable {V : Type} [CellSize V]

def restOf (b? : Option (Base V)) : List (Entry V) :=
  match b? with
  | some b => b.ents.drop b.low
  | none => []

def content (st : St V) : List (Entry V) := den st.base st.ops ++ restOf st.base

/-- the update of an ascending list: everything below `k`, the new entry (if any), everything above `k` -/
def write1 (l : List (Entry V)) (k : Nat) (ch : Option (V × Bool)) : List (Entry V) :=
  l.filter (fun e => decide (e.key < k)) ++
    ((match ch with | some (v, o) => [⟨k, v, o⟩] | none => []) ++ l.filter (fun e => decide (k < e.key)))

/-- the overflow cells stored under `k` -/
def ovfAt (l : List (Entry V)) (k : Nat) : List V := (l.filter (fun e => e.key == k && e.ovf)).map (·.val)

/-! ## searching an ascending list -/

theorem filter_none {p : Entry V → Bool} {r : List (Entry V)} (h : ∀ x ∈ r, p x = false) : r.filter p = [] := by
  rw [List.filter_eq_nil_iff]; intro x hx; simp [h x hx]

theorem filter_all {p : Entry V → Bool} {r : List (Entry V)} (h : ∀ x ∈ r, p x = true) : r.filter p = r :=
  List.filter_eq_self.mpr h

theorem findIdx_cons' (p : Entry V → Bool) (a : Entry V) (r : List (Entry V)) :
    (a :: r).findIdx p = if p a then 0 else r.findIdx p + 1 := by
  rw [List.findIdx_cons]; simp

/-- what `binary_search_by` finds on an ascending list: the position `pos` of the first key `≥ k` -/
theorem sorted_find (k : Nat) : ∀ (l : List (Entry V)), Sorted l →
    l.filter (fun e => decide (e.key < k)) = l.take (l.findIdx (fun e => decide (k ≤ e.key))) ∧
    (∀ e, l[l.findIdx (fun e => decide (k ≤ e.key))]? = some e → e.key = k →
      l.filter (fun e => decide (k < e.key)) = l.drop (l.findIdx (fun e => decide (k ≤ e.key)) + 1) ∧
      l.filter (fun e => e.key == k && e.ovf) = if e.ovf then [e] else []) ∧
    (∀ e, l[l.findIdx (fun e => decide (k ≤ e.key))]? = some e → e.key ≠ k →
      l.filter (fun e => decide (k < e.key)) = l.drop (l.findIdx (fun e => decide (k ≤ e.key))) ∧
      l.filter (fun e => e.key == k && e.ovf) = []) ∧
    (l[l.findIdx (fun e => decide (k ≤ e.key))]? = none →
      l.filter (fun e => decide (k < e.key)) = [] ∧ l.filter (fun e => e.key == k && e.ovf) = [] ∧
      l.findIdx (fun e => decide (k ≤ e.key)) = l.length) := by
  intro l
  induction l with
  | nil => intro _; simp
  | cons a r ih =>
    intro hs
    have hs' := List.pairwise_cons.1 hs
    by_cases hka : k ≤ a.key
    · have hidx : (a :: r).findIdx (fun e => decide (k ≤ e.key)) = 0 := by
        rw [findIdx_cons']; simp [hka]
      rw [hidx]
      have hr_gt : ∀ x ∈ r, k < x.key := fun x hx => Nat.lt_of_le_of_lt hka (hs'.1 x hx)
      refine ⟨?_, ?_, ?_, by simp⟩
      · rw [List.take_zero]
        apply filter_none
        intro x hx
        rcases List.mem_cons.1 hx with rfl | hx
        · simp; omega
        · have := hr_gt x hx; simp; omega
      · intro e he hek
        simp at he; subst he
        refine ⟨?_, ?_⟩
        · rw [List.filter_cons]
          have : ¬ k < a.key := by omega
          simp only [this, decide_false, Bool.false_eq_true, if_false]
          simpa using filter_all (p := fun e => decide (k < e.key)) (r := r) (fun x hx => by simpa using hr_gt x hx)
        · rw [List.filter_cons]
          have hrn : r.filter (fun e => e.key == k && e.ovf) = [] :=
            filter_none (fun x hx => by have := hr_gt x hx; simp; intro h; omega)
          rw [hrn]
          cases ho : a.ovf <;> simp [hek, ho]
      · intro e he hek
        simp at he; subst he
        have hlt : k < a.key := by omega
        refine ⟨?_, ?_⟩
        · simpa using filter_all (p := fun e => decide (k < e.key)) (r := a :: r) (fun x hx => by
            rcases List.mem_cons.1 hx with rfl | hx
            · simpa using hlt
            · simpa using hr_gt x hx)
        · exact filter_none (fun x hx => by
            rcases List.mem_cons.1 hx with rfl | hx
            · simp; intro h; omega
            · have := hr_gt x hx; simp; intro h; omega)
    · have hidx : (a :: r).findIdx (fun e => decide (k ≤ e.key)) = r.findIdx (fun e => decide (k ≤ e.key)) + 1 := by
        rw [findIdx_cons']; simp [hka]
      rw [hidx]
      obtain ⟨i1, i2, i3, i4⟩ := ih hs'.2
      have hak : a.key < k := by omega
      have hnk : ¬ k < a.key := by omega
      have hne : (a.key == k) = false := by simp; omega
      have f1 : (a :: r).filter (fun e => decide (k < e.key)) = r.filter (fun e => decide (k < e.key)) := by
        rw [List.filter_cons]; simp [hnk]
      have f2 : (a :: r).filter (fun e => e.key == k && e.ovf) = r.filter (fun e => e.key == k && e.ovf) := by
        rw [List.filter_cons]; simp [hne]
      refine ⟨?_, ?_, ?_, ?_⟩
      · rw [List.filter_cons]; simp only [hak, decide_true, if_true, List.take_succ_cons, i1]
      · intro e he hek
        rw [List.getElem?_cons_succ] at he
        rw [f1, f2, List.drop_succ_cons]
        exact i2 e he hek
      · intro e he hek
        rw [List.getElem?_cons_succ] at he
        rw [f1, f2, List.drop_succ_cons]
        exact i3 e he hek
      · intro he
        rw [List.getElem?_cons_succ] at he
        rw [f1, f2]
        obtain ⟨j1, j2, j3⟩ := i4 he
        exact ⟨j1, j2, by simp [j3]⟩

/-! ## `keep_up_to` -/

theorem slice_eq_take_drop (l : List α) (f p : Nat) : slice l f (f + p) = (l.drop f).take p := by
  simp [slice]

/-- the effect of `keep_up_to(Some(k))` (both versions: `old` only matters for the callback) -/
structure KeepOut (st : St V) (k : Nat) (st' : St V) : Prop where
  den_eq : den st'.base st'.ops = den st.base st.ops ++ (restOf st.base).filter (fun e => decide (e.key < k))
  rest_eq : restOf st'.base = (restOf st.base).filter (fun e => decide (k < e.key))
  wf : WF st'.base st'.ops
  gauge : st'.gauge = gaugeOf (den st'.base st'.ops)
  ents : baseEnts st'.base = baseEnts st.base
  isSome_eq : st'.base.isSome = st.base.isSome
  sep : st'.base.map (·.sep) = st.base.map (·.sep)
  cutoff : st'.cutoff = st.cutoff
  sepOv : st'.sepOv = st.sepOv
  low_le : ∀ b, st'.base = some b → b.low ≤ b.ents.length

theorem keepUpToG_some_spec (old : Bool) (st : St V) (k : Nat)
    (hwf : WF st.base st.ops) (hg : st.gauge = gaugeOf (den st.base st.ops)) (hs : Sorted (restOf st.base))
    (hll : ∀ b, st.base = some b → b.low ≤ b.ents.length) :
    KeepOut st k (keepUpToG old st (some k)).1 ∧
      (old = false → (keepUpToG old st (some k)).2 = ovfAt (restOf st.base) k) := by
  obtain ⟨base, cutoff, sepOv, ops, gauge⟩ := st
  simp only at hwf hg hs hll
  cases base with
  | none =>
    simp only [keepUpToG]
    exact ⟨⟨by simp [restOf], by simp [restOf], hwf, hg, rfl, rfl, rfl, rfl, rfl, hll⟩, by simp [ovfAt, restOf]⟩
  | some b =>
    have hb : (some b : Option (Base V)) = some b := rfl
    have hlle : b.low ≤ b.ents.length := hll b rfl
    have hs' : Sorted (b.ents.drop b.low) := by simpa [restOf] using hs
    obtain ⟨s1, s2, s3, s4⟩ := sorted_find k (b.ents.drop b.low) hs'
    simp only [keepUpToG, hb, findKey]
    by_cases hlow : b.low = b.ents.length
    · -- already at the end
      have : (b.low == b.ents.length) = true := by simp [hlow]
      simp only [this, if_true]
      have hd : b.ents.drop b.low = [] := by rw [hlow]; simp
      exact ⟨⟨by simp [restOf, hd], by simp [restOf, hd], hwf, hg, rfl, rfl, rfl, rfl, rfl, hll⟩,
        by simp [ovfAt, restOf, hd]⟩
    · have : (b.low == b.ents.length) = false := by simp [hlow]
      simp only [this, Bool.false_eq_true, if_false]
      generalize hpos : (b.ents.drop b.low).findIdx (fun e => decide (k ≤ e.key)) = pos at s1 s2 s3 s4
      -- the op list and gauge after keeping `pos` cells
      have hkeep : pos ≠ 0 → pos ≤ (b.ents.drop b.low).length → ∀ low',
          let st' : St V := { base := some { b with low := low' }, cutoff := cutoff, sepOv := sepOv,
                                      ops := ops ++ [.keep b.low (b.low + pos) (valuesSize b.ents b.low (b.low + pos))],
                                      gauge := gauge.ingest (b.low + pos - b.low) (valuesSize b.ents b.low (b.low + pos)) }
          den st'.base st'.ops = den (some b) ops ++ (b.ents.drop b.low).take pos ∧ WF st'.base st'.ops ∧
            st'.gauge = gaugeOf (den st'.base st'.ops) := by
        intro hp hle low'
        have hlen : b.low + pos ≤ b.ents.length := by simp at hle; omega
        have hden0 : den (some { b with low := low' }) ops = den (some b) ops :=
          den_congr (by simp [hb, baseEnts]) _
        refine ⟨?_, ?_, ?_⟩
        · simp only [den_append, den_cons, den_nil, List.append_nil, denOp, baseEnts, hden0, slice_eq_take_drop]
        · apply wf_append.2
          refine ⟨WF.congr (by simp [hb, baseEnts]) (by simp [hb]) hwf, ?_⟩
          intro op hop
          simp at hop; subst hop
          exact ⟨rfl, by omega, by simpa [baseEnts] using hlen, rfl⟩
        · simp only [den_append, den_cons, den_nil, List.append_nil, denOp, baseEnts, hden0]
          rw [gaugeOf_append, hg, slice_length _ _ _ hlen, valuesSize_eq]
      have hnokeep : ∀ low', 
          let st' : St V := { base := some { b with low := low' }, cutoff := cutoff, sepOv := sepOv, ops := ops, gauge := gauge }
          den st'.base st'.ops = den (some b) ops ∧ WF st'.base st'.ops ∧ st'.gauge = gaugeOf (den st'.base st'.ops) := by
        intro low'
        have hden0 : den (some { b with low := low' }) ops = den (some b) ops :=
          den_congr (by simp [hb, baseEnts]) _
        exact ⟨hden0, WF.congr (by simp [hb, baseEnts]) (by simp [hb]) hwf, by simp only [hden0]; exact hg⟩
      have hrest : restOf (some b) = b.ents.drop b.low := by simp [restOf]
      cases hget : (b.ents.drop b.low)[pos]? with
      | none =>
        obtain ⟨t1, t2, t3⟩ := s4 hget
        simp only []
        have hposlen : b.low + pos = b.ents.length := by simp at t3; omega
        have hpos0 : pos ≠ 0 := by omega
        have hne : (b.low != b.low + pos) = true := by simp; omega
        simp only [hne, if_true]
        obtain ⟨k1, k2, k3⟩ := hkeep hpos0 (by omega) (b.low + pos)
        refine ⟨⟨?_, ?_, k2, k3, by simp [baseEnts], by simp, by simp, rfl, rfl, by intro b' hb'; simp at hb'; subst hb'; simp; omega⟩, ?_⟩
        · rw [k1, hrest, s1]
        · simp only [restOf, hrest, t1]; rw [hposlen]; simp
        · intro _; simp [overflowOf, ovfAt, hrest, t2]
      | some e =>
        have hposlt : pos < (b.ents.drop b.low).length := by
          rcases Nat.lt_or_ge pos (b.ents.drop b.low).length with h | h
          · exact h
          · rw [List.getElem?_eq_none h] at hget; cases hget
        have hget' : b.ents[b.low + pos]? = some e := by rw [← hget, List.getElem?_drop]
        have hpl : b.low + pos < b.ents.length := by simp at hposlt; omega
        simp only []
        by_cases hek : e.key = k
        · have hbeq : (e.key == k) = true := by simp [hek]
          simp only [hbeq, if_true]
          obtain ⟨t1, t2⟩ := s2 e hget hek
          have hlog : overflowOf b true (b.low + pos) = ovfAt (restOf (some b)) k := by
            simp only [overflowOf, hget', if_true, ovfAt, hrest, t2]
            cases e.ovf <;> simp
          by_cases hp0 : pos = 0
          · have hne : (b.low != b.low + pos) = false := by simp [hp0]
            simp only [hne, Bool.false_eq_true, if_false]
            obtain ⟨k1, k2, k3⟩ := hnokeep (b.low + pos + 1)
            refine ⟨⟨?_, ?_, k2, k3, by simp [baseEnts], by simp, by simp, rfl, rfl, by intro b' hb'; simp at hb'; subst hb'; simp; omega⟩, ?_⟩
            · rw [k1, hrest, s1, hp0]; simp
            · simp only [restOf, hrest, t1, List.drop_drop, Nat.add_assoc]
            · intro ho; subst ho; simp only [Bool.false_eq_true, if_false]; exact hlog
          · have hne : (b.low != b.low + pos) = true := by simp; omega
            simp only [hne, if_true]
            obtain ⟨k1, k2, k3⟩ := hkeep hp0 (by omega) (b.low + pos + 1)
            refine ⟨⟨?_, ?_, k2, k3, by simp [baseEnts], by simp, by simp, rfl, rfl, by intro b' hb'; simp at hb'; subst hb'; simp; omega⟩, fun _ => hlog⟩
            · rw [k1, hrest, s1]
            · simp only [restOf, hrest, t1, List.drop_drop, Nat.add_assoc]
        · have hbeq : (e.key == k) = false := by simp [hek]
          simp only [hbeq, Bool.false_eq_true, if_false]
          obtain ⟨t1, t2⟩ := s3 e hget hek
          have hlog : overflowOf b false (b.low + pos) = ovfAt (restOf (some b)) k := by
            simp [overflowOf, ovfAt, hrest, t2]
          by_cases hp0 : pos = 0
          · have hne : (b.low != b.low + pos) = false := by simp [hp0]
            simp only [hne, Bool.false_eq_true, if_false]
            obtain ⟨k1, k2, k3⟩ := hnokeep (b.low + pos)
            refine ⟨⟨?_, ?_, k2, k3, by simp [baseEnts], by simp, by simp, rfl, rfl, by intro b' hb'; simp at hb'; subst hb'; simp; omega⟩, ?_⟩
            · rw [k1, hrest, s1, hp0]; simp
            · simp only [restOf, hrest, t1, List.drop_drop, Nat.add_assoc]
            · intro ho; subst ho; simp only [Bool.false_eq_true, if_false]; exact hlog
          · have hne : (b.low != b.low + pos) = true := by simp; omega
            simp only [hne, if_true]
            obtain ⟨k1, k2, k3⟩ := hkeep hp0 (by omega) (b.low + pos)
            refine ⟨⟨?_, ?_, k2, k3, by simp [baseEnts], by simp, by simp, rfl, rfl, by intro b' hb'; simp at hb'; subst hb'; simp; omega⟩, fun _ => hlog⟩
            · rw [k1, hrest, s1]
            · simp only [restOf, hrest, t1, List.drop_drop, Nat.add_assoc]

end Nomt.LeafUpd
