import NomtModel.Store.PushChunkPush
/-!
# Any sequence of `push` / `push_chunk` calls: the node decodes to the concatenation of what was pushed

`BInv` is the builder invariant (layout of the page, `separator_bit_offset` = last cell, and for every item pushed so
far the key `get_key` returns); `builderPush_spec` and `builderPushChunk_spec` + `getKey_frame` show that each call
meeting its precondition keeps it and appends its keys; `runOps_spec` is the induction over the list of calls.
-/
namespace Nomt.BitOps

inductive BOp where
  | push (key : List Nat) (sepLen pn : Nat)
  | chunk (base : List Nat) (frm to : Nat) (updated : List (Nat × Nat))

def stepOp (b : Builder) : BOp → Option Builder
  | .push k l pn => builderPush b k l pn
  | .chunk base f t u => builderPushChunk b base f t u

def runOps : List BOp → Builder → Option Builder
  | [], b => some b
  | op :: r, b => (stepOp b op).bind (runOps r)

/-- the keys a call appends: the pushed key, or what `get_key` reads from the base for every item of the range -/
def opKeys : BOp → List (Option (List Nat))
  | .push k _ _ => [some k]
  | .chunk base f t _ => (List.range (t - f)).map fun k => getKey base (f + k)

structure BInv (b : Builder) (nN pcN plN lastN : Nat) (cOld : Nat → Nat) (keys : List (Option (List Nat))) : Prop where
  LN : Lay b.page nN pcN plN cOld b.index
  hoff : prevCell cOld b.index = b.sepBitOffset
  hbpl : b.prefixLen = plN
  hbpc : b.prefixCompressed = pcN
  FN : Fit nN plN lastN
  hidxn : b.index ≤ nN
  hoffle : b.sepBitOffset ≤ lastN
  hlen : keys.length = b.index
  items : ∀ j, j < b.index → prevCell cOld j ≤ cOld j ∧ cOld j ≤ b.sepBitOffset ∧
    (if j < pcN then plN else 0) + (cOld j - prevCell cOld j) ≤ 256 ∧ keys[j]? = some (getKey b.page j)

theorem BInv.node {b : Builder} {nN pcN plN lastN : Nat} {cOld : Nat → Nat} {keys : List (Option (List Nat))}
    (I : BInv b nN pcN plN lastN cOld keys) (j : Nat) (hj : j < b.index) :
    NodeOK b.page nN pcN plN (prevCell cOld j) (cOld j) lastN j := by
  obtain ⟨h1, h2, h3, _⟩ := I.items j hj
  have := I.hidxn
  have := I.hoffle
  exact ⟨I.LN.bytes, I.LN.len, I.LN.hn, I.LN.hpc, I.LN.hpl, I.LN.prev j (by omega), I.LN.hcell j hj, I.FN.hn, by omega, I.FN.hpl, h1,
    by omega, h3, I.FN.fit⟩

theorem prevCell_congr (c c' : Nat → Nat) (j : Nat) (h : ∀ i, i < j → c' i = c i) : prevCell c' j = prevCell c j := by
  unfold prevCell
  by_cases h0 : j = 0
  · rw [if_pos h0, if_pos h0]
  · rw [if_neg h0, if_neg h0, h _ (by omega)]

/-- an earlier item of a page with the same layout and unchanged bits reads back the same -/
theorem keep_item {b : Builder} {nN pcN plN lastN : Nat} {cOld c' : Nat → Nat} {keys : List (Option (List Nat))}
    (I : BInv b nN pcN plN lastN cOld keys) (pg' : List Nat) (m : Nat) (L' : Lay pg' nN pcN plN c' m) (hm : b.index ≤ m)
    (hc : ∀ i, i < b.index → c' i = cOld i)
    (fr : b.index ≠ 0 → ∀ p, (p < 8 * (10 + 2 * b.index) ∨ (8 * (10 + nN * 2) ≤ p ∧ p < 8 * (10 + nN * 2) + plN + b.sepBitOffset)) →
      bitOf pg' p = bitOf b.page p) (j : Nat) (hj : j < b.index) :
    getKey pg' j = getKey b.page j := by
  have hN := I.node j hj
  obtain ⟨_, h2, _, _⟩ := I.items j hj
  have hN' : NodeOK pg' nN pcN plN (prevCell cOld j) (cOld j) lastN j :=
    ⟨L'.bytes, L'.len, L'.hn, L'.hpc, L'.hpl,
      by rw [← prevCell_congr cOld c' j (fun i hi => hc i (by omega))]; exact L'.prev j (by omega),
      by rw [← hc j hj]; exact L'.hcell j (by omega), hN.npos, hN.hi, hN.pl256, hN.mono, hN.elast, hN.total, hN.fit⟩
  exact getKey_frame b.page pg' nN pcN plN _ _ lastN j hN hN' fun p h1 h2' => fr (by omega) p (by right; omega)

/-- `push` keeps the invariant and appends its key -/
theorem BInv.push {b : Builder} {nN pcN plN lastN : Nat} {cOld : Nat → Nat} {keys : List (Option (List Nat))}
    (I : BInv b nN pcN plN lastN cOld keys) (key : List Nat) (sepLen pn : Nat)
    (H : PushPre b key sepLen pn nN pcN plN cOld lastN) :
    ∃ b' c', builderPush b key sepLen pn = some b' ∧ BInv b' nN pcN plN lastN c' (keys ++ [some key]) := by
  obtain ⟨b', e, hi, ho, hpl, hpc, L', hk, _, _, fr⟩ := builderPush_spec b key sepLen pn nN pcN plN cOld lastN H
  have hcp : b.sepBitOffset + pushLen b.index pcN plN sepLen ≤ lastN := H.hcp
  have hslb : (if b.index < pcN then plN else 0) + pushLen b.index pcN plN sepLen ≤ 256 := by
    have := H.hsl; have := H.FN.hpl
    unfold pushLen; split <;> omega
  have hcl : ∀ i, i < b.index → (fun i => if i < b.index then cOld i else b.sepBitOffset + pushLen b.index pcN plN sepLen) i = cOld i :=
    fun i hi' => by simp only [if_pos hi']
  refine ⟨b', _, e, ⟨by rw [hi]; exact L', ?_, by rw [hpl]; exact I.hbpl, by rw [hpc]; exact I.hbpc, I.FN, by rw [hi]; have := H.hidx; omega,
    by rw [ho]; exact hcp, by rw [List.length_append, I.hlen, hi]; rfl, ?_⟩⟩
  · rw [hi, prevCell_succ, ho]; simp only [Nat.lt_irrefl, if_false]
  · intro j hj
    rw [hi] at hj
    by_cases hlt : j < b.index
    · obtain ⟨h1, h2, h3, h4⟩ := I.items j hlt
      rw [prevCell_congr cOld _ j (fun i hi' => hcl i (by omega))]
      simp only [if_pos hlt]
      rw [ho]
      refine ⟨h1, by omega, h3, ?_⟩
      rw [List.getElem?_append_left (by rw [I.hlen]; exact hlt), h4]
      rw [keep_item I b'.page (b.index + 1) L' (by omega) hcl fr j hlt]
    · have hje : j = b.index := by omega
      subst hje
      rw [prevCell_congr cOld _ b.index (fun i hi' => hcl i hi'), I.hoff, ho]
      simp only [Nat.lt_irrefl, if_false]
      refine ⟨by omega, Nat.le_refl _, ?_, ?_⟩
      · have : b.sepBitOffset + pushLen b.index pcN plN sepLen - b.sepBitOffset = pushLen b.index pcN plN sepLen := by omega
        rw [this]; exact hslb
      · rw [List.getElem?_append_right (by rw [I.hlen]; exact Nat.le_refl _), I.hlen, Nat.sub_self, hk]; rfl

/-- `push_chunk` keeps the invariant and appends the keys of the base's range -/
theorem BInv.chunk {b : Builder} {nN pcN plN lastN : Nat} {cOld : Nat → Nat} {keys : List (Option (List Nat))}
    (I : BInv b nN pcN plN lastN cOld keys) (base : List Nat) (frm to : Nat) (updated : List (Nat × Nat))
    (nB pcB plB : Nat) (cB : Nat → Nat) (lastB : Nat)
    (H : ChunkPre b base frm to updated nN pcN plN cOld nB pcB plB cB lastN lastB) :
    ∃ b' c', builderPushChunk b base frm to updated = some b' ∧
      BInv b' nN pcN plN lastN c' (keys ++ (List.range (to - frm)).map fun k => getKey base (frm + k)) := by
  obtain ⟨b', e, hi, ho, hpl, hpc, L', hprev, hk, _, _, fr⟩ :=
    builderPushChunk_spec b base frm to updated nN pcN plN cOld nB pcB plB cB lastN lastB H
  have hcl : ∀ i, i < b.index → newCells cOld cB b.index b.sepBitOffset frm (extOf plN plB) (diffOf plN plB) i = cOld i :=
    fun i hi' => by unfold newCells; rw [if_pos hi']
  have hprevN := fun j => prevCell_newCells cOld cB b.index b.sepBitOffset frm (extOf plN plB) (diffOf plN plB) j H.hoff
  have hatN := fun j => newCells_at cOld cB b.index b.sepBitOffset frm (extOf plN plB) (diffOf plN plB) j
  have hcp := H.hcp
  have hpcN := H.hpcN
  have hpcnN := H.hpcnN
  refine ⟨b', _, e, ⟨by rw [hi]; exact L', by rw [hi, hprev, ho], by rw [hpl]; exact I.hbpl, by rw [hpc]; exact I.hbpc, I.FN,
    by rw [hi]; omega, by rw [ho]; exact hcp, by rw [List.length_append, I.hlen, hi, List.length_map, List.length_range], ?_⟩⟩
  intro j hj
  rw [hi] at hj
  by_cases hlt : j < b.index
  · obtain ⟨h1, h2, h3, h4⟩ := I.items j hlt
    rw [prevCell_congr cOld _ j (fun i hi' => hcl i (by omega)), hcl j hlt, ho]
    refine ⟨h1, by omega, h3, ?_⟩
    rw [List.getElem?_append_left (by rw [I.hlen]; exact hlt), h4,
      keep_item I b'.page (b.index + (to - frm)) L' (by omega) hcl fr j hlt]
  · have hje : j = b.index + (j - b.index) := by omega
    have hk' : j - b.index < to - frm := by omega
    rw [hje, hprevN, hatN, ho]
    have m1 := cellSum_mono cB frm (extOf plN plB) (diffOf plN plB) (j - b.index) (j - b.index + 1) (by omega)
    have m2 := cellSum_mono cB frm (extOf plN plB) (diffOf plN plB) (j - b.index + 1) (to - frm) (by omega)
    refine ⟨by omega, by omega, ?_, ?_⟩
    · rw [if_pos (by omega)]
      have hitem := H.itemB (frm + (j - b.index)) (by omega) (by have := H.hft; omega)
      have hplN := H.FN.hpl
      have : b.sepBitOffset + cellSum cB frm (extOf plN plB) (diffOf plN plB) (j - b.index + 1) -
          (b.sepBitOffset + cellSum cB frm (extOf plN plB) (diffOf plN plB) (j - b.index)) =
          adjLen (extOf plN plB) (diffOf plN plB) (cB (frm + (j - b.index)) - prevCell cB (frm + (j - b.index))) := by
        simp only [cellSum]; omega
      rw [this]
      unfold adjLen extOf diffOf
      split <;> split <;> omega
    · rw [List.getElem?_append_right (by rw [I.hlen]; omega), I.hlen,
        show b.index + (j - b.index) - b.index = j - b.index by omega, List.getElem?_map, List.getElem?_range hk']
      simp only [Option.map_some]
      rw [hk (j - b.index) hk']

/-- the precondition of a call in a given builder state -/
def OpPre (b : Builder) (nN pcN plN lastN : Nat) (cOld : Nat → Nat) : BOp → Prop
  | .push key sepLen pn => PushPre b key sepLen pn nN pcN plN cOld lastN
  | .chunk base frm to updated => ∃ nB pcB plB cB lastB, ChunkPre b base frm to updated nN pcN plN cOld nB pcB plB cB lastN lastB

/-- every call of the list meets its precondition in the state it is made in (whatever cells describe that state) -/
inductive RunOK (nN pcN plN lastN : Nat) : Builder → List BOp → Prop where
  | nil (b : Builder) : RunOK nN pcN plN lastN b []
  | cons (b : Builder) (op : BOp) (r : List BOp)
      (pre : ∀ cOld, Lay b.page nN pcN plN cOld b.index → prevCell cOld b.index = b.sepBitOffset → OpPre b nN pcN plN lastN cOld op)
      (next : ∀ b', stepOp b op = some b' → RunOK nN pcN plN lastN b' r) : RunOK nN pcN plN lastN b (op :: r)

theorem runOps_spec (nN pcN plN lastN : Nat) : ∀ (ops : List BOp) (b : Builder) (cOld : Nat → Nat) (keys : List (Option (List Nat))),
    BInv b nN pcN plN lastN cOld keys → RunOK nN pcN plN lastN b ops →
    ∃ b' c', runOps ops b = some b' ∧ BInv b' nN pcN plN lastN c' (keys ++ ops.flatMap opKeys) := by
  intro ops
  induction ops with
  | nil => intro b cOld keys I _; exact ⟨b, cOld, rfl, by simpa using I⟩
  | cons op r ih =>
    intro b cOld keys I hr
    cases hr with
    | cons _ _ _ pre next =>
      have hp := pre cOld I.LN I.hoff
      cases op with
      | push key sepLen pn =>
        obtain ⟨b1, c1, e1, I1⟩ := I.push key sepLen pn hp
        obtain ⟨b2, c2, e2, I2⟩ := ih b1 c1 _ I1 (next b1 e1)
        refine ⟨b2, c2, ?_, ?_⟩
        · show (builderPush b key sepLen pn).bind (runOps r) = some b2
          rw [e1, Option.bind_some, e2]
        · simpa [List.flatMap_cons, opKeys, List.append_assoc] using I2
      | chunk base frm to updated =>
        obtain ⟨nB, pcB, plB, cB, lastB, hc⟩ := hp
        obtain ⟨b1, c1, e1, I1⟩ := I.chunk base frm to updated nB pcB plB cB lastB hc
        obtain ⟨b2, c2, e2, I2⟩ := ih b1 c1 _ I1 (next b1 e1)
        refine ⟨b2, c2, ?_, ?_⟩
        · show (builderPushChunk b base frm to updated).bind (runOps r) = some b2
          rw [e1, Option.bind_some, e2]
        · simpa [List.flatMap_cons, opKeys, List.append_assoc] using I2

/-- `BranchNodeBuilder::new` on any 4096-byte page establishes the invariant with nothing pushed -/
theorem BInv.new (pg : List Nat) (n pc pl lastN : Nat) (hB : Bytes pg) (hl : pg.length = 4096) (hn : n < 65536) (hpc : pc < 65536)
    (hpl : pl < 65536) (F : Fit n pl lastN) :
    ∃ b, builderNew pg n pc pl = some b ∧ BInv b n pc pl lastN (fun _ => 0) [] := by
  obtain ⟨p1, a1, a2, a3, a4, a5⟩ := setU16_spec pg 4 (n % 65536) (by omega) (Nat.mod_lt _ (by decide)) hB
  obtain ⟨p2, b1, b2, b3, b4, b5⟩ := setU16_spec p1 6 (pc % 65536) (by omega) (Nat.mod_lt _ (by decide)) a3
  obtain ⟨p3, c1, c2, c3, c4, c5⟩ := setU16_spec p2 8 (pl % 65536) (by omega) (Nat.mod_lt _ (by decide)) b3
  rw [Nat.mod_eq_of_lt hn] at a4
  rw [Nat.mod_eq_of_lt hpc] at b4
  rw [Nat.mod_eq_of_lt hpl] at c4
  refine ⟨⟨p3, 0, pl, pc, 0⟩, ?_, ⟨⟨c3, by rw [c2, b2, a2, hl], ?_, ?_, c4, fun i hi => absurd hi (Nat.not_lt_zero i)⟩, rfl, rfl, rfl, F, Nat.zero_le _,
    Nat.zero_le _, rfl, fun j hj => absurd hj (Nat.not_lt_zero j)⟩⟩
  · unfold builderNew
    rw [a1, Option.bind_some, b1, Option.bind_some, c1, Option.map_some]
  · rw [← a4]; unfold nodeN
    exact u16At_congr (by rw [c2, b2]) 4 (by rw [c5 4 (by left; omega), b5 4 (by left; omega)])
      (by rw [c5 5 (by left; omega), b5 5 (by left; omega)])
  · rw [← b4]; unfold nodePc
    exact u16At_congr c2 6 (c5 6 (by left; omega)) (c5 7 (by left; omega))

end Nomt.BitOps
