import NomtModel.Store.ConstantsFormats
import NomtModel.Store.ConstantsAlloc
import NomtModel.Store.ConstantsTree
/-!
# The hand-written constants of the Lean model ARE the constants of the Rust source

Umbrella of the kernel-checked constant facts (all in namespace `Nomt.Store.ConstantsCheck`).  They are
kept in three modules so that a changed constant breaks the proof obligations of the properties that
depend on it and not of unrelated ones:

* `Store/ConstantsFormats.lean` — page size, manifest layout (field offsets, no overlap, fit), leaf /
  overflow / branch / merkle-page / seglog constants, "an overflow cell fits in a leaf", "a page of the
  last level is never stored" (`2^4 < PAGE_ELISION_THRESHOLD`) — imported by `Props/C16`;
* `Store/ConstantsAlloc.lean` — meta bytes (`EMPTY`, `TOMBSTONE`, full entries pairwise distinct,
  `decodeSlot`), probing bound / tag bits / attempt counter of the probing model, free-list page
  capacity — imported by `Props/C05`, `Props/C16`, `Props/C19`;
* `Store/ConstantsTree.lean` — `NUM_CHILDREN = 2^DEPTH = 64 = Shards.numChildren`,
  `MAX_COMMIT_CONCURRENCY = 64` — imported by `Props/C13`.

`lake build NomtModel.Store.ConstantsCheck` checks all of them.
-/
