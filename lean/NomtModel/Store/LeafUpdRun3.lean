import NomtModel.Store.LeafUpdRun2
/-!
# The leaf stage as a whole: the loops of `run_worker` and the end-to-end statement `runWorker_spec`
-/
namespace Nomt.LeafUpd
variable {V : Type} [CellSize V]

/-- bounds relative to the next changed key `k` -/
structure RB (r : Run V) (k : Nat) : Prop where
  ops : ∀ e ∈ den r.st.base r.st.ops, e.key < k
  out : ∀ e ∈ flatOut r.out, e.key < k
  base : ∀ b, r.st.base = some b → b.sep ≤ k

theorem RB.mono {r : Run V} {k k' : Nat} (h : RB r k) (hk : k ≤ k') : RB r k' :=
  ⟨fun e he => Nat.lt_of_lt_of_le (h.ops e he) hk, fun e he => Nat.lt_of_lt_of_le (h.out e he) hk,
    fun b hb => Nat.le_trans (h.base b hb) hk⟩

/-- the equations: `T` = the old content with the changes processed so far, `L` = the final callback log,
`ks` = the keys still to come -/
structure RE (T : List (Entry V)) (L : List V) (ks : List Nat) (r : Run V) : Prop where
  content_eq : flatOut r.out ++ (content r.st ++ flat r.rest) = T
  log : r.log ++ ovfLog (content r.st ++ flat r.rest) ks = L
  news : ∀ l, OutLeaf.new l ∈ r.out → NewGood l
  chain : OutUpTo r.out (separator r.st)

theorem separator_le {KB : Nat} {st : St V} (hinv : Inv KB st) {k : Nat}
    (hops : ∀ e ∈ den st.base st.ops, e.key < k) (hbase : ∀ b, st.base = some b → b.sep ≤ k) :
    separator st ≤ k := by
  cases hso : st.sepOv with
  | some s =>
    have hne : den st.base st.ops ≠ [] := by
      intro h; have := hinv.sepnil h; rw [hso] at this; cases this
    obtain ⟨e, he⟩ := List.exists_mem_of_ne_nil _ hne
    have h1 := hinv.lo e (by simp [content, he])
    have h2 := hops e he
    omega
  | none =>
    cases hb : st.base with
    | none => simp [separator, hso, hb]
    | some b => simp [separator, hso, hb]; exact hbase b hb

theorem ChOK.keys_ge {KB : Nat} : ∀ {cs : List (Nat × Option (V × Bool))} {lo : Nat}, ChOK KB lo cs →
    ∀ x ∈ cs.map (·.1), lo ≤ x := by
  intro cs
  induction cs with
  | nil => intro lo _ x hx; simp at hx
  | cons c cs ih =>
    intro lo h x hx
    obtain ⟨k, ch⟩ := c
    obtain ⟨h1, _, _, h4⟩ := h
    simp at hx
    rcases hx with rfl | hx
    · exact h1
    · have := ih h4 x (by simpa using hx); omega

theorem ChOK.keys_lt {KB : Nat} : ∀ {cs : List (Nat × Option (V × Bool))} {lo : Nat}, ChOK KB lo cs →
    ∀ c ∈ cs, c.1 < KB := by
  intro cs
  induction cs with
  | nil => intro lo _ c hc; simp at hc
  | cons c cs ih =>
    intro lo h x hx
    obtain ⟨k, ch⟩ := c
    rcases List.mem_cons.1 hx with rfl | hx
    · exact h.2.1
    · exact ih h.2.2.2 x hx

/-! ## `while !leaf_updater.is_in_scope(&key) { digest; reset_leaf_base }` -/

theorem scopeLoop_spec (sepf : Nat → Nat → Option Nat) (KB : Nat) (hsep : SepOK sepf KB) (k : Nat)
    (T : List (Entry V)) (L : List V) (ks : List Nat) (hks : ∀ x ∈ ks, k ≤ x) :
    ∀ fuel (r : Run V), r.rest.length < fuel → RS KB r → RB r k → RE T L ks r →
      ∃ r', scopeLoop sepf k fuel r = some r' ∧ RS KB r' ∧ RB r' k ∧ RE T L ks r' ∧ inScope r'.st k = true := by
  intro fuel
  induction fuel with
  | zero => intro r h; omega
  | succ fuel ih =>
    intro r hfuel hrs hrb hre
    by_cases hin : inScope r.st k = true
    · exact ⟨r, by simp [scopeLoop, hin], hrs, hrb, hre, hin⟩
    · obtain ⟨c, hc, hck⟩ : ∃ c, r.st.cutoff = some c ∧ c ≤ k := by
        unfold inScope at hin
        cases hcut : r.st.cutoff with
        | none => rw [hcut] at hin; simp at hin
        | some c => rw [hcut] at hin; simp at hin; exact ⟨c, rfl, hin⟩
      obtain ⟨st', leaves, res, ed, _, so⟩ := step_spec sepf KB hsep r hrs c hc k hck
      generalize hr2 : resetTo (keyOf res k) ({ r with st := st', out := r.out ++ leaves.map .new } : Run V) = r2 at so
      have hrb2 : RB r2 k := by
        refine ⟨fun e he => by have := so.ops_below e he; omega, ?_, so.base_le⟩
        intro e he
        rcases so.out_below e he with h | h
        · exact hrb.out e h
        · exact h
      have hre2 : RE T L ks r2 := by
        refine ⟨by rw [so.content_eq]; exact hre.content_eq, ?_, ?_, ?_⟩
        · obtain ⟨P, hP, hPlt⟩ := so.dropped
          rw [so.log, ← hre.log, hP, ovfLog_append P]
          rw [ovfLog_of_notin (l := P) (fun e he hm => by have := hPlt e he; have := hks _ hm; omega)]
          simp
        · intro l hl
          rcases so.news l hl with h | h
          · exact hre.news l h
          · exact h
        · exact so.chain hre.chain
      obtain ⟨r', e', a1, a2, a3, a4⟩ := ih r2 (by have := so.shorter; omega) so.rs hrb2 hre2
      refine ⟨r', ?_, a1, a2, a3, a4⟩
      have hin' : inScope r.st k = false := by simpa using hin
      simp only [scopeLoop, hin', Bool.false_eq_true, if_false, ed]
      rw [← e', ← hr2]
      cases res <;> rfl

/-! ## the changes -/

theorem runChanges_spec (sepf : Nat → Nat → Option Nat) (KB : Nat) (hsep : SepOK sepf KB) (L : List V) :
    ∀ (cs : List (Nat × Option (V × Bool))) (lo : Nat) (r : Run V) (T : List (Entry V)),
      ChOK KB lo cs → RS KB r → RB r lo → RE T L (cs.map (·.1)) r →
      ∃ r', runChanges sepf cs r = some r' ∧ RS KB r' ∧ RE (applyAll T cs) L [] r' := by
  intro cs
  induction cs with
  | nil => intro lo r T _ hrs _ hre; exact ⟨r, rfl, hrs, hre⟩
  | cons c cs ih =>
    intro lo r T hch hrs hrb hre
    obtain ⟨k, ch⟩ := c
    obtain ⟨hlo, hkb, hsz, hrest⟩ := hch
    have hks' : ∀ x ∈ cs.map (·.1), k < x := fun x hx => by have := hrest.keys_ge x hx; omega
    obtain ⟨r1, e1, rs1, rb1, re1, hin⟩ := scopeLoop_spec sepf KB hsep k T L (k :: cs.map (·.1))
      (fun x hx => by simp at hx; rcases hx with rfl | hx; exact Nat.le_refl _; exact Nat.le_of_lt (hks' x (by simpa using hx)))
      (r.rest.length + 1) r (by omega) hrs (hrb.mono hlo) (by simpa using hre)
    have hkhi : ∀ c, r1.st.cutoff = some c → k < c := by
      intro c hc; unfold inScope at hin; rw [hc] at hin; simpa using hin
    obtain ⟨i1, i2, i3, i4, i5, i6, i7, i8⟩ := ingest_spec KB r1.st k ch rs1.inv rb1.ops
      (separator_le rs1.inv rb1.ops rb1.base) hkhi hkb hsz
    generalize hst2 : (ingest r1.st k ch).1 = st2 at i1 i3 i4 i5 i6 i7 i8
    generalize hlog2 : (ingest r1.st k ch).2 = log2 at i2
    have hpair : ingest r1.st k ch = (st2, log2) := by rw [← hst2, ← hlog2]
    -- the leaves to the right hold larger keys
    have hright : ∀ e ∈ flat r1.rest, k < e.key := by
      intro e he
      cases hr : r1.rest with
      | nil => rw [hr] at he; simp at he
      | cons l0 rest0 =>
        have hc : r1.st.cutoff = some l0.sep := by rw [rs1.cut, hr]; rfl
        have h1 := hkhi _ hc
        have h2 := DbOK.lower (by rw [← hr]; exact rs1.rest) e (by rw [← hr]; exact he)
        omega
    have rs2 : RS KB ({ r1 with st := st2, log := r1.log ++ log2 } : Run V) :=
      ⟨i3, rs1.rest, by rw [i5]; exact rs1.cut, by
        intro b c hb hc
        have hb' : st2.base = some b := hb
        have hc' : r1.st.cutoff = some c := by rw [← i5]; exact hc
        have : r1.st.base.map (·.sep) = some b.sep := by rw [← i6, hb']; rfl
        cases hb1 : r1.st.base with
        | none => rw [hb1] at this; simp at this
        | some b1 => rw [hb1] at this; simp at this; have := rs1.basecut b1 c hb1 hc'; omega⟩
    have rb2 : RB ({ r1 with st := st2, log := r1.log ++ log2 } : Run V) (k + 1) := by
      refine ⟨fun e he => by have := i4 e he; omega, fun e he => by have := rb1.out e he; omega, ?_⟩
      intro b hb
      have hb' : st2.base = some b := hb
      have : r1.st.base.map (·.sep) = some b.sep := by rw [← i6, hb']; rfl
      cases hb1 : r1.st.base with
      | none => rw [hb1] at this; simp at this
      | some b1 => rw [hb1] at this; simp at this; have := rb1.base b1 hb1; omega
    have re2 : RE (write1 T k ch) L (cs.map (·.1)) ({ r1 with st := st2, log := r1.log ++ log2 } : Run V) := by
      refine ⟨?_, ?_, re1.news, by show OutUpTo r1.out (separator st2); rw [separator_congr i8 i6]; exact re1.chain⟩
      · simp only
        rw [i1, ← re1.content_eq, write1_append_below rb1.out, write1_append_above hright]
      · simp only
        rw [i1, i2, ← re1.log]
        have hXs : Sorted (content r1.st) := rs1.inv.sorted
        rw [ovfLog_append (content r1.st), ovfLog_cons_sorted hks' hXs,
          ovfLog_cons_of_ne (l := flat r1.rest) (fun e he => by have := hright e he; omega),
          ovfLog_append, ovfLog_write1 hks']
        simp
    obtain ⟨r', e', a1, a2⟩ := ih (k + 1) _ (write1 T k ch) hrest rs2 rb2 re2
    refine ⟨r', ?_, a1, a2⟩
    simp only [runChanges, e1, hpair]
    exact e'

/-! ## `while let NeedsMerge(cutoff) = digest { reset_leaf_base(cutoff) }` -/

/-- what is known when the final loop ends -/
structure FinOut (T : List (Entry V)) (L : List V) (r' : Run V) : Prop where
  content_eq : flatOut r'.out ++ flat r'.rest = T
  log : r'.log = L
  news : ∀ l, OutLeaf.new l ∈ r'.out → NewGood l
  chain : ∃ s, OutUpTo r'.out s ∧ (r'.rest.head?.map (·.sep) = some s ∨ r'.rest = [])

theorem finishLoop_spec (sepf : Nat → Nat → Option Nat) (KB : Nat) (hsep : SepOK sepf KB)
    (T : List (Entry V)) (L : List V) :
    ∀ fuel (r : Run V), r.rest.length < fuel → RS KB r → RE T L [] r →
      ∃ r', finishLoop sepf fuel r = some r' ∧ DbOK KB r'.rest ∧ FinOut T L r' := by
  intro fuel
  induction fuel with
  | zero => intro r h; omega
  | succ fuel ih =>
    intro r hfuel hrs hre
    -- what a `Finished` digest leaves behind
    have hfin : ∀ st' leaves, digest sepf r.st = some (st', leaves, .finished) →
        DigestOut KB r.st st' leaves .finished →
        ∃ r', finishLoop sepf (fuel + 1) r = some r' ∧ DbOK KB r'.rest ∧ FinOut T L r' := by
      intro st' leaves ed o
      obtain ⟨h1, _, _, hce⟩ := o.fin rfl
      have hc0 : content st' = [] := by simp [content, h1, o.rest_nil]
      refine ⟨{ r with st := st', out := r.out ++ leaves.map .new }, by simp [finishLoop, ed], hrs.rest, ?_⟩
      have hcont := o.content_eq
      rw [h1] at hcont; simp at hcont
      have hleafsub : ∀ l' ∈ leaves, ∀ e ∈ l'.ents, e ∈ content r.st := by
        intro l' hl' e he; rw [← hcont]; exact List.mem_flatMap.2 ⟨l', hl', he⟩
      refine ⟨?_, ?_, ?_, ?_⟩
      · simp only [flatOut_append, flatOut_new, hcont]
        rw [← hre.content_eq]; simp
      · have := hre.log; simpa [ovfLog_nil_keys] using this
      · intro l hl
        simp only at hl
        rcases List.mem_append.1 hl with hl | hl
        · exact hre.news l hl
        · obtain ⟨y, hy, hyx⟩ := List.mem_map.1 hl
          have : y = l := by cases hyx; rfl
          subst this
          exact digest_newGood hrs.inv o y hy
      · -- the separators
        simp only
        cases hcut : r.st.cutoff with
        | none =>
          have hrest : r.rest = [] := by
            have := hrs.cut; rw [hcut] at this
            cases hr : r.rest with
            | nil => rfl
            | cons a b => rw [hr] at this; simp at this
          by_cases hle : leaves = []
          · subst hle
            exact ⟨separator r.st, by simpa using hre.chain, Or.inr hrest⟩
          · rw [hcut] at hce
            obtain ⟨q1, q2⟩ := outUpTo_of_sepChainEnd (c := KB) hce
              (fun l' hl' e he => hrs.inv.keys e (hleafsub l' hl' e he)) hle
            exact ⟨KB, OutUpTo.append q2 q1 hre.chain, Or.inr hrest⟩
        | some c =>
          have hhead : r.rest.head?.map (·.sep) = some c := by rw [← hrs.cut, hcut]
          have hlt : ∀ e ∈ content r.st, e.key < c := hrs.inv.hi c hcut
          refine ⟨c, ?_, Or.inl hhead⟩
          by_cases hle : leaves = []
          · subst hle
            simp only [List.map_nil, List.append_nil]
            refine OutUpTo.mono ?_ hre.chain
            cases hso' : r.st.sepOv with
            | some s =>
              have hne : den r.st.base r.st.ops ≠ [] := by
                intro h; have := hrs.inv.sepnil h; rw [hso'] at this; cases this
              obtain ⟨e, he⟩ := List.exists_mem_of_ne_nil _ hne
              have h1 := hrs.inv.lo e (by simp [content, he])
              have h2 := hlt e (by simp [content, he])
              omega
            | none =>
              cases hb : r.st.base with
              | none => simp [separator, hso', hb]
              | some b =>
                have := hrs.basecut b c hb hcut
                simp [separator, hso', hb]; omega
          · rw [hcut] at hce
            obtain ⟨q1, q2⟩ := outUpTo_of_sepChainEnd (c := c) hce
              (fun l' hl' e he => hlt e (hleafsub l' hl' e he)) hle
            exact OutUpTo.append q2 q1 hre.chain
    cases hcut : r.st.cutoff with
    | none =>
      obtain ⟨st', leaves, res, ed, o⟩ := digest_spec sepf KB hsep r.st hrs.inv
      cases res with
      | finished => exact hfin st' leaves ed o
      | needsMerge c => have := (o.merge c rfl).1; rw [hcut] at this; cases this
    | some c =>
      obtain ⟨st', leaves, res, ed, o, so⟩ := step_spec sepf KB hsep r hrs c hcut c (Nat.le_refl _)
      cases res with
      | finished => exact hfin st' leaves ed o
      | needsMerge c' =>
        have hcc : c' = c := by
          have := (o.merge c' rfl).1; rw [hcut] at this; exact (Option.some.inj this).symm
        subst hcc
        simp only [keyOf] at so
        generalize hr2 : resetTo c' ({ r with st := st', out := r.out ++ leaves.map .new } : Run V) = r2 at so
        have hre2 : RE T L [] r2 := by
          refine ⟨by rw [so.content_eq]; exact hre.content_eq, ?_, ?_, so.chain hre.chain⟩
          · have := hre.log
            simp only [ovfLog_nil_keys, List.append_nil] at this ⊢
            rw [so.log]; exact this
          · intro l hl
            rcases so.news l hl with h | h
            · exact hre.news l h
            · exact h
        obtain ⟨r', e', a1, a2⟩ := ih r2 (by have := so.shorter; omega) so.rs hre2
        refine ⟨r', ?_, a1, a2⟩
        simp only [finishLoop, ed]
        rw [← e', ← hr2]

/-! ## the whole stage -/

theorem inv_init (KB : Nat) : Inv KB ({} : St V) := by
  refine ⟨WF.nil _, rfl, (by intro b h; cases h), ?_, ?_, ?_, ?_, ?_, fun _ => rfl, (by intro h; cases h)⟩
  · exact List.Pairwise.nil
  · intro e he; simp [content, restOf] at he
  · intro e he; simp [content, restOf] at he
  · intro e he; simp [content, restOf] at he
  · intro c _ e he; simp [content, restOf] at he

/-- **The leaf stage is the sorted-list update.**  For a well-formed tree `db`, an ascending change list `cs` whose keys
are at least the first separator, and a `separate` satisfying `SepOK`: `runWorker` does not panic; the leaves of the
new tree, left to right, hold exactly `applyAll (flat db) cs`; `with_deleted_overflow` was called exactly for the
overflow cells of old entries whose key is in `cs`, in key order; every new leaf is non-empty, at most
`LEAF_NODE_BODY_SIZE`, and at least `LEAF_MERGE_THRESHOLD` unless it was handed the cutoff `None`. -/
theorem runWorker_spec (sepf : Nat → Nat → Option Nat) (KB : Nat) (hsep : SepOK sepf KB)
    (db : List (DbLeaf V)) (cs : List (Nat × Option (V × Bool))) (lo : Nat)
    (hdb : DbOK KB db) (hcs : ChOK KB lo cs) (hfirst : ∀ l, db.head? = some l → l.sep ≤ lo) :
    ∃ out log, runWorker sepf db cs = some (out, log) ∧ flatOut out = applyAll (flat db) cs ∧
      log = ovfLog (flat db) (cs.map (·.1)) ∧ (∀ l, OutLeaf.new l ∈ out → NewGood l) ∧ ∃ s, OutUpTo out s := by
  cases cs with
  | nil =>
    refine ⟨db.map .old, [], rfl, by simp [flatOut_old, applyAll], by simp [ovfLog_nil_keys], ?_,
      ⟨KB, (outUpTo_olds db [] KB (by simpa using hdb) (Or.inr ⟨rfl, Nat.le_refl _⟩)).1⟩⟩
    intro l hl
    obtain ⟨y, _, hy⟩ := List.mem_map.1 hl
    cases hy
  | cons c0 cs' =>
    obtain ⟨k0, ch0⟩ := c0
    have hk0 : lo ≤ k0 := hcs.1
    have hcs0 : ChOK KB k0 ((k0, ch0) :: cs') := ⟨Nat.le_refl _, hcs.2.1, hcs.2.2.1, hcs.2.2.2⟩
    have hkeys : ∀ x ∈ ((k0, ch0) :: cs').map (·.1), k0 ≤ x := hcs0.keys_ge
    -- the start: the updater points at the leaf covering the first key
    have hstart : ∃ r0 : Run V, resetTo k0 ({ rest := db } : Run V) = r0 ∧ RS KB r0 ∧ RB r0 k0 ∧
        RE (flat db) (ovfLog (flat db) (((k0, ch0) :: cs').map (·.1))) (((k0, ch0) :: cs').map (·.1)) r0 := by
      cases hdb0 : db with
      | nil =>
        refine ⟨_, rfl, ?_, ?_, ?_⟩
        · simp only [resetTo, skipTo]
          exact ⟨inv_init KB, trivial, rfl, by intro b c hb; cases hb⟩
        · simp only [resetTo, skipTo]
          exact ⟨by intro e he; simp at he, by intro e he; simp at he, by intro b hb; cases hb⟩
        · simp only [resetTo, skipTo]
          exact ⟨by simp [content, restOf], by simp [content, restOf], by intro l hl; simp at hl, trivial⟩
      | cons l0 rest0 =>
        have hl0 : l0.sep ≤ k0 := by have := hfirst l0 (by rw [hdb0]; rfl); omega
        obtain ⟨skipped, l, rest', f1, f2, f3, f4, f5, f6, f7, f8, f9, f10, f11, f12⟩ :=
          resetTo_spec KB ({ rest := l0 :: rest0 } : Run V) k0 l0 rest0 rfl (by rw [← hdb0]; exact hdb) hl0
            (inv_init KB) rfl (by intro op h; simp at h) (by intro e he; simp at he) (by intro h; simp at h)
        generalize hr0 : resetTo k0 ({ rest := l0 :: rest0 } : Run V) = r0 at f2 f3 f4 f5 f6 f7 f8 f12
        simp only at f1 f3 f4 f6 f7 f12
        have hskip_lt : ∀ e ∈ flat skipped, e.key < k0 := fun e he => by have := f11 e he; omega
        refine ⟨r0, rfl, f5, ?_, ?_⟩
        · refine ⟨by rw [f7]; intro e he; simp at he, ?_, ?_⟩
          · intro e he; rw [f3] at he; simp [flatOut_old] at he; exact hskip_lt e he
          · intro b hb; rw [hb] at f8; simp at f8; omega
        · have hcont : content r0.st = l.ents := by rw [f6]; simp
          refine ⟨?_, ?_, ?_, ?_⟩
          rotate_left 3
          · -- the untouched leaves in front of the first changed one
            have hsp : separator r0.st = l.sep := by
              unfold separator
              rw [f12]
              cases hb0 : r0.st.base with
              | none => rw [hb0] at f8; simp at f8
              | some b0 => rw [hb0] at f8; simp at f8; simp [f8]
            rw [hsp, f3]
            simp only [List.nil_append]
            exact (outUpTo_olds skipped (l :: rest') l.sep (by rw [← f1, ← hdb0]; exact hdb) (Or.inl rfl)).1
          · rw [f3, hcont, f2, f1]; simp [flatOut_old]
          · rw [f4, hcont, f2, f1]
            simp only [List.nil_append, flat_append, flat_cons, ovfLog_append]
            rw [ovfLog_of_notin (l := flat skipped) (fun e he hm => by
              have := hskip_lt e he; have := hkeys _ hm; omega)]
            simp
          · intro x hx
            rw [f3] at hx
            simp at hx
    obtain ⟨r0, hr0, rs0, rb0, re0⟩ := hstart
    obtain ⟨r1, e1, rs1, re1⟩ := runChanges_spec sepf KB hsep _ ((k0, ch0) :: cs') k0 r0 (flat db) hcs0 rs0 rb0 re0
    obtain ⟨r2, e2, hdb2, fo⟩ := finishLoop_spec sepf KB hsep _ _ (r1.rest.length + 1) r1 (by omega) rs1 re1
    refine ⟨r2.out ++ r2.rest.map .old, r2.log, ?_, ?_, fo.log, ?_, ?_⟩
    · simp only [runWorker, hr0, e1, e2]
    · rw [flatOut_append, flatOut_old]; exact fo.content_eq
    · intro l hl
      rcases List.mem_append.1 hl with hl | hl
      · exact fo.news l hl
      · obtain ⟨y, _, hy⟩ := List.mem_map.1 hl
        cases hy
    · obtain ⟨s, hs, hor⟩ := fo.chain
      rcases hor with hh | hh
      · obtain ⟨q1, q2⟩ := outUpTo_olds r2.rest [] KB (by simpa using hdb2) (Or.inr ⟨rfl, Nat.le_refl _⟩)
        refine ⟨KB, OutUpTo.append ?_ q1 hs⟩
        cases hr : r2.rest with
        | nil => rw [hr] at hh; simp at hh
        | cons a b =>
          rw [hr] at hh q2
          rw [q2 a rfl]
          simpa using hh
      · rw [hh]; exact ⟨s, by simpa using hs⟩

end Nomt.LeafUpd
