import NomtModel.Store.ExtRangeKeys
/-!
The phase structure of a worker, from two laws of the updater (`is_in_scope` is "below the cutoff"; `NeedsMerge(c)` returns the
cutoff): while a worker still has ops, every key it hands to `reset_*_base` is below its `range.high` — so the range
extension inside the `while !is_in_scope(key)` loop of `run_worker` is never taken, extensions happen in the final merge
loop only, and a worker never polls its left neighbour after it has extended.  (`PInv` along every schedule.)
-/
namespace Nomt.ExtRange

variable {σ N C : Type}

/-- the two laws: scope = below the cutoff; `NeedsMerge(c)` ⇒ `c` is the cutoff; the cutoff is only set by `reset_base` -/
structure ScopeLaws (U : Upd σ N C) (cutoffOf : σ → Option Nat) : Prop where
  scope : ∀ st k, U.inScope st k = (match cutoffOf st with | none => true | some c => decide (k < c))
  needsMerge : ∀ st st' outs c, U.digest st = some (st', outs, some c) → cutoffOf st = some c

def belowHigh (w : W σ N C) (k : Nat) : Prop := ∀ h, w.high = some h → k < h

/-- per worker: ops below `high`; the keys carried by the program counter below `high`; no `wait` of the scope loop; no ops
left once the final merge loop is entered -/
def PW (w : W σ N C) : Prop :=
  (∀ o ∈ w.ops, belowHigh w o.1) ∧
  (match w.pc with
   | .ext k false => belowHigh w k
   | .poll key => belowHigh w key
   | .wait _ false => False
   | .ext _ true | .wait _ true | .fin | .finOnce | .final | .finalRecv | .done => w.ops = []
   | _ => True)

def PInv (g : G σ N C) : Prop := ∀ i, PW (g.ws i)

def POK : Res (G σ N C) → Prop
  | .ok g' => PInv g'
  | _ => True

theorem pinv_set (g : G σ N C) (h : PInv g) (i : Nat) (w' : W σ N C) (hw : PW w') (chans : Nat → List Nat) :
    PInv { setW g i w' with chans := chans } := by
  intro j
  simp only [setW, upd]
  by_cases hj : j = i
  · simp only [hj, if_true]; exact hw
  · simp only [hj, if_false]; exact h j

theorem handleNew_ops (i : Nat) (outs : List (Nat × N × Option Nat)) (w : W σ N C) :
    (handleNew i w outs).ops = w.ops ∧ (handleNew i w outs).high = w.high := by
  induction outs generalizing w with
  | nil => exact ⟨rfl, rfl⟩
  | cons o t ih =>
    obtain ⟨k, nd, c⟩ := o
    simp only [handleNew]
    exact ih _

theorem resetFresh_ops (U : Upd σ N C) (cfg : Cfg) (db : List (DbN N)) (w w' : W σ N C) (key : Nat)
    (h : resetFresh U cfg db w key = some w') : w'.ops = w.ops := by
  unfold resetFresh at h
  split at h
  · split at h
    · split at h
      · cases h
      · cases h; rfl
    · split at h
      · cases h; rfl
      · split at h
        · cases h
        · cases h; rfl
  · split at h
    · cases h; rfl
    · split at h
      · cases h
      · cases h; rfl

theorem resetBaseW_ops (U : Upd σ N C) (cfg : Cfg) (db : List (DbN N)) (w w' : W σ N C) (b : Bool) (key : Nat)
    (h : resetBaseW U cfg db w b key = .ok w') : w'.ops = w.ops := by
  unfold resetBaseW at h
  split at h
  · split at h
    · cases h
    · rename_i hw; cases h; exact resetFresh_ops U cfg db w _ key hw
  · split at h
    · cases h
    · split at h
      · cases h; rfl
      · split at h
        · split at h
          · cases h
          · rename_i hw; cases h; exact resetFresh_ops U cfg db w _ _ hw
        · cases h; rfl

theorem pinv_setW (g : G σ N C) (h : PInv g) (i : Nat) (w' : W σ N C) (hw : PW w') : PInv (setW g i w') :=
  pinv_set g h i w' hw g.chans

theorem pw_reset (U : Upd σ N C) (cfg : Cfg) (db : List (DbN N)) (g : G σ N C) (h : PInv g) (i : Nat) (w : W σ N C)
    (b : Bool) (k : Nat) (pc : Pc)
    (hpc : ∀ w' : W σ N C, w'.ops = w.ops → w'.high = w.high → PW { w' with pc := pc }) :
    POK (match resetBaseW U cfg db w b k with
      | .ok w' => .ok (setW g i { w' with pc := pc })
      | .panic s => .panic s
      | .blocked => .blocked) := by
  rcases resetBaseW_cases U cfg db w b k with ⟨w', hw, hs⟩ | ⟨s, hw, _⟩
  · rw [hw]
    exact pinv_setW g h i _ (hpc w' (resetBaseW_ops U cfg db w w' b k hw) hs.2.2.2.2.1)
  · rw [hw]; trivial

/-- a worker without ops in one of the program points behind the scope loop -/
theorem pw_nil (w : W σ N C) (hn : w.ops = [])
    (hp : w.pc = .fin ∨ w.pc = .finOnce ∨ w.pc = .final ∨ w.pc = .finalRecv ∨ w.pc = .done ∨
      (∃ k, w.pc = .ext k true) ∨ (∃ k, w.pc = .wait k true)) : PW w := by
  refine ⟨fun o ho => (by rw [hn] at ho; cases ho), ?_⟩
  rcases hp with h | h | h | h | h | ⟨k, h⟩ | ⟨k, h⟩ <;> rw [h] <;> exact hn

theorem pw_afterReset_true (cfg : Cfg) (w : W σ N C) (hn : w.ops = []) : PW { w with pc := afterReset cfg true } := by
  refine pw_nil { w with pc := afterReset cfg true } hn ?_
  cases hsm : cfg.singleMerge <;> simp [afterReset, hsm]

theorem pinv_answerWith (g : G σ N C) (h : PInv g) (i r : Nat) (chan : List Nat) (finished : Bool) (next : Pc)
    (hri : r ≠ i) (hnext : ∀ w' : W σ N C, w'.ops = (g.ws i).ops → w'.high = (g.ws i).high → w'.pc = next → PW w') :
    POK (answerWith g i finished next r chan) := by
  unfold answerWith
  simp only []
  cases ha : answer (g.ws i).tr.inner (g.ws i).low (g.ws i).high (g.ws i).right finished with
  | none => exact pinv_set g h i _ (hnext { g.ws i with pending := some r, pc := next } rfl rfl rfl) _
  | some x =>
    obtain ⟨resp, inner', relink⟩ := x
    simp only []
    repeat' split
    all_goals first
      | trivial
      | (show PInv _
         intro j
         simp only [upd]
         by_cases hjr : j = r
         · subst hjr
           simp only [if_true]
           exact h j
         · by_cases hji : j = i
           · subst hji
             simp only [hjr, if_false, if_true]
             exact hnext _ rfl rfl rfl
           · simp only [hjr, hji, if_false]; exact h j)

theorem pinv_tryAnswer (g : G σ N C) (h : PInv g) (i : Nat) (finished : Bool) (next : Pc) (hi : i < g.n)
    (hinv : AInv (absG g)) (hk : kindOf (g.ws i).pc = .run)
    (hnext : ∀ w' : W σ N C, w'.ops = (g.ws i).ops → w'.high = (g.ws i).high → w'.pc = next → PW w') :
    POK (tryAnswer g i finished next) := by
  unfold tryAnswer
  simp only []
  split
  · exact pinv_setW g h i _ (hnext { g.ws i with pc := next } rfl rfl rfl)
  · cases hreq : takeReq g i with
    | none =>
      simp only []
      split
      · exact pinv_setW g h i _ (hnext { g.ws i with left := false, pc := next } rfl rfl rfl)
      · exact pinv_setW g h i _ (hnext { g.ws i with pc := next } rfl rfl rfl)
    | some x =>
      obtain ⟨r, chan⟩ := x
      have hrj := (hinv.requester i r chan hi hk (takeReq_some hreq)).2.2.2.2.2.1
      exact pinv_answerWith g h i r chan finished next hrj hnext

theorem sendRequest_pinv (g : G σ N C) (h : PInv g) (i : Nat) (w : W σ N C) (k : Nat) (hops : w.ops = []) :
    POK (sendRequest g i w k true) := by
  unfold sendRequest
  split
  · trivial
  · split
    · trivial
    · exact pinv_set g h i _ (pw_nil { w with pc := Pc.wait k true } hops (by simp)) _

/-- every step keeps the phase invariant -/
theorem pinv_step {U : Upd σ N C} {cutoffOf : σ → Option Nat} (SL : ScopeLaws U cutoffOf) (cfg : Cfg) (db : List (DbN N))
    (g : G σ N C) (i : Nat) (hi : i < g.n) (hinv : AInv (absG g)) (h : PInv g) : POK (step U cfg db g i) := by
  obtain ⟨hops, hpcw⟩ := h i
  cases hpc : (g.ws i).pc with
  | done => unfold step; simp only [hpc]; trivial
  | start =>
    unfold step; simp only [hpc]
    split
    · trivial
    · exact pw_reset U cfg db g h i (g.ws i) false _ .loop
        (fun w' ho hh => ⟨fun o hm a b => hops o (ho ▸ hm) a (hh ▸ b), trivial⟩)
  | loop =>
    unfold step; simp only [hpc]
    split
    · rename_i hnil
      exact pinv_setW g h i _ (pw_nil { g.ws i with pc := Pc.fin, high0 := (g.ws i).high } hnil (by simp))
    · rename_i key c rest hcons
      have hkey : belowHigh (g.ws i) key := hops (key, c) (by rw [hcons]; simp)
      split
      · split
        · trivial
        · refine pinv_setW g h i _ ⟨?_, trivial⟩
          intro o ho
          exact hops o (by rw [hcons]; exact List.mem_cons_of_mem _ ho)
      · rename_i hns
        split
        · trivial
        · rename_i st' outs res hd
          split
          · rename_i cutoff
            -- `NeedsMerge(cutoff)`: the cutoff is at most the key that is out of scope
            have hc := SL.needsMerge _ _ _ _ hd
            have hsc := SL.scope (g.ws i).st key
            rw [hc] at hsc
            have hle : cutoff ≤ key := by
              have : U.inScope (g.ws i).st key = false := by simpa using hns
              rw [this] at hsc
              simp at hsc; omega
            refine pinv_setW g h i _ ⟨?_, ?_⟩
            · intro o ho hh hhi
              have e1 := (handleNew_ops i outs { g.ws i with st := st', pc := Pc.loop }).1
              have e2 := (handleNew_ops i outs { g.ws i with st := st', pc := Pc.loop }).2
              exact hops o (by simpa [e1] using ho) hh (by simpa [e2] using hhi)
            · show belowHigh _ cutoff
              intro hh hhi
              have e2 := (handleNew_ops i outs { g.ws i with st := st', pc := Pc.loop }).2
              have := hkey hh (by simpa [e2] using hhi)
              omega
          · refine pinv_setW g h i _ ⟨?_, ?_⟩
            · intro o ho hh hhi
              have e1 := (handleNew_ops i outs { g.ws i with st := st', pc := Pc.loop }).1
              have e2 := (handleNew_ops i outs { g.ws i with st := st', pc := Pc.loop }).2
              exact hops o (by simpa [e1] using ho) hh (by simpa [e2] using hhi)
            · show belowHigh _ key
              intro hh hhi
              have e2 := (handleNew_ops i outs { g.ws i with st := st', pc := Pc.loop }).2
              exact hkey hh (by simpa [e2] using hhi)
  | poll key =>
    rw [hpc] at hpcw
    unfold step; simp only [hpc]
    refine pinv_tryAnswer g h i false _ hi hinv (by simp [hpc, kindOf]) ?_
    intro w' ho hh hp
    refine ⟨fun o hm a b => hops o (ho ▸ hm) a (hh ▸ b), ?_⟩
    rw [hp]
    exact fun a b => hpcw a (hh ▸ b)
  | ext k fin =>
    rw [hpc] at hpcw
    unfold step; simp only [hpc]
    cases fin with
    | false =>
      simp only [Bool.and_false, Bool.false_eq_true, if_false]
      have hreset := pw_reset U cfg db g h i (g.ws i) false k (afterReset cfg false)
        (fun w' ho hh => ⟨fun o hm a b => hops o (ho ▸ hm) a (hh ▸ b), by simp [afterReset]⟩)
      cases hh : (g.ws i).high with
      | none => simp only [Bool.false_eq_true, if_false]; exact hreset
      | some h0 =>
        have := hpcw h0 hh
        simp only []
        rw [if_neg (by simp; omega)]
        exact hreset
    | true =>
      have hnil : (g.ws i).ops = [] := hpcw
      have hreset := pw_reset U cfg db g h i (g.ws i) false k (afterReset cfg true)
        (fun w' ho _ => pw_afterReset_true cfg w' (ho.trans hnil))
      split
      all_goals first
        | exact hreset
        | (split <;> first | exact sendRequest_pinv g h i (g.ws i) k hnil | exact hreset)
  | wait k fin =>
    rw [hpc] at hpcw
    cases fin with
    | false => exact absurd hpcw (fun x => x)
    | true =>
      have hnil : (g.ws i).ops = [] := hpcw
      unfold step; simp only [hpc]
      cases hr : (g.ws i).resp with
      | none => trivial
      | some r =>
        simp only []
        have hto : (takeRespC cfg (g.ws i) r).ops = [] := by
          have : (takeResp (g.ws i) r).ops = (g.ws i).ops := by unfold takeResp; split; rfl
          unfold takeRespC; split
          · exact this.trans hnil
          · exact this.trans hnil
        have hreset : ∀ w'' : W σ N C, w''.ops = [] →
            POK (match resetBaseW U cfg db w'' true k with
              | .ok w3 => .ok (setW g i { w3 with pc := afterReset cfg true })
              | .panic s => .panic s
              | .blocked => .blocked) := by
          intro w'' hw''
          exact pw_reset U cfg db g h i w'' true k _ (fun w' ho _ => pw_afterReset_true cfg w' (ho.trans hw''))
        cases hnr : r.newRight with
        | none => simp only []; exact hreset _ hto
        | some nr =>
          cases nr with
          | none => simp only []; exact hreset _ hto
          | some j => simp only []; exact sendRequest_pinv g h i _ k hto
  | fin =>
    rw [hpc] at hpcw
    have hnil : (g.ws i).ops = [] := hpcw
    unfold step; simp only [hpc]
    split
    · trivial
    · rename_i st' outs res hd
      have e1 := (handleNew_ops i outs { g.ws i with st := st', pc := Pc.fin }).1
      split
      · exact pinv_setW g h i _ (pw_nil _ (e1.trans hnil) (by simp))
      · exact pinv_setW g h i _ (pw_nil _ (e1.trans hnil) (by simp))
  | finOnce =>
    rw [hpc] at hpcw
    have hnil : (g.ws i).ops = [] := hpcw
    unfold step; simp only [hpc]
    split
    · trivial
    · rename_i st' outs res hd
      have e1 := (handleNew_ops i outs { g.ws i with st := st', pc := Pc.finOnce }).1
      exact pinv_setW g h i _ (pw_nil _ (e1.trans hnil) (by simp))
  | final =>
    rw [hpc] at hpcw
    have hnil : (g.ws i).ops = [] := hpcw
    unfold step; simp only [hpc]
    split
    · exact pinv_setW g h i _ (pw_nil _ hnil (by simp))
    · have := pinv_tryAnswer g h i true .finalRecv hi hinv (by simp [hpc, kindOf])
        (fun w' ho hh hp => pw_nil w' (ho.trans hnil) (by simp [hp]))
      cases hta : tryAnswer g i true .finalRecv with
      | ok g' => rw [hta] at this; simp only []; split <;> first | trivial | exact this
      | blocked => trivial
      | panic s => trivial
  | finalRecv =>
    rw [hpc] at hpcw
    have hnil : (g.ws i).ops = [] := hpcw
    unfold step; simp only [hpc]
    split
    · exact pinv_setW g h i _ (pw_nil _ hnil (by simp))
    · split
      · rename_i r rest _
        exact pinv_set g h i _ (pw_nil { g.ws i with pending := some r, pc := Pc.final } hnil (by simp)) _
      · split
        · exact pinv_setW g h i _ (pw_nil _ hnil (by simp))
        · trivial

/-- the phase invariant along every schedule -/
theorem pinv_runSched {U : Upd σ N C} {cutoffOf : σ → Option Nat} (SL : ScopeLaws U cutoffOf) (cfg : Cfg)
    (db : List (DbN N)) (hs : cfg.staleHigh = false) (hm : cfg.highMax = false) :
    ∀ (s : List Nat) (g : G σ N C), AInv (absG g) → PInv g →
      match runSched U cfg db s g with
      | .inr g' => PInv g'
      | .inl _ => True
  | [], g, _, h => h
  | i :: s, g, hinv, h => by
    unfold runSched
    by_cases hi : i < g.n
    · rw [if_pos hi]
      have h1 := step_ok U cfg db g i hi hinv hs hm
      have h2 := pinv_step SL cfg db g i hi hinv h
      cases hst : step U cfg db g i with
      | ok g' =>
        rw [hst] at h1 h2
        exact pinv_runSched SL cfg db hs hm s g' (ATrans.inv hinv h1) h2
      | blocked => exact pinv_runSched SL cfg db hs hm s g hinv h
      | panic site => trivial
    · rw [if_neg hi]; exact pinv_runSched SL cfg db hs hm s g hinv h

theorem chain_inR (keys : List Nat) (total : Nat) : ∀ (ws : List WP) (low : Option Nat) (start : Nat) (left : Bool),
    ChainOK keys total low start left ws → ∀ p ∈ ws, InR keys p
  | [], _, _, _, h, _, _ => by simp [ChainOK] at h
  | [w], _, _, _, h, p, hp => by
    simp only [List.mem_singleton] at hp; subst hp; exact h.2.2.2.2.2.2.2
  | w :: w' :: rest, _, _, _, h, p, hp => by
    obtain ⟨_, _, _, _, _, _, hin, hrest⟩ := h
    rcases List.mem_cons.1 hp with hp | hp
    · subst hp; exact hin
    · exact chain_inR keys total (w' :: rest) _ _ _ hrest p hp

/-- the workers `run` spawns satisfy the phase invariant -/
theorem pinv_init (U : Upd σ N C) (cfg : Cfg) (db : List (DbN N)) (cs : List (Nat × C)) (wps : List WP)
    (low : Option Nat) (start : Nat) (left : Bool)
    (hc : ChainOK (cs.map (·.1)) (cs.map (·.1)).length low start left wps) : PInv (initG U cfg db cs wps) := by
  intro i
  simp only [initG]
  cases hp : wps[i]? with
  | none => exact ⟨fun o ho => by simp [dummyW] at ho, by simp [dummyW]⟩
  | some p =>
    simp only []
    refine ⟨?_, by simp [mkWorker]⟩
    intro o ho h hh
    have hin := chain_inR _ _ wps low start left hc p (List.mem_of_getElem? hp)
    simp only [mkWorker] at ho hh
    obtain ⟨j, hj⟩ := List.getElem?_of_mem ho
    rw [List.getElem?_take] at hj
    split at hj
    · rename_i hlt
      rw [List.getElem?_drop] at hj
      have := hin (p.start + j) o.1 (by omega) (by omega) (by simp [hj])
      exact this.2 h hh
    · cases hj

end Nomt.ExtRange
