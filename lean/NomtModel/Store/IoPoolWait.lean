import NomtModel.Store.IoPoolModel
/-!
# The callers' waiting loops and the `Fsyncer` — mirror

* `recvAll` = `for _ in 0..total_io { io_handle.recv().unwrap().result?; }` (`beatree::ops::update`; the same shape:
  `preload_and_prepare`), over the results arriving on the handle in arrival order; `none` = `recv()` blocks for ever (fewer
  completions arrive than were counted — the handle owns a `completion_sender`, so the channel never disconnects);
* `writeHtLoop` = the loop of `bitbox::writeout::write_ht` (every completion is received, the FIRST error is kept);
* `updateTotalIo` = the `total_io` arithmetic of `update`; `seededTotalIo` / the sibling handle = the seeded change
  `C14-freelist-write-result-dropped`;
* `waitPreMeta` = `bbn_fsync.wait()?; ln_fsync.wait()?` of `SyncController::wait_pre_meta`; `waitPreMetaOr` = the seeded
  `bbn_result.or(ln_result)?` of `C14-beatree-fsync-result-or`;
* `Fs` / `fsStep` = `Fsyncer` (`fsync`, `wait`, the worker thread, `Drop`) as a transition system over the shared `State`.
-/
namespace Nomt.IoPool

/-- the counting loop with `?`: result and what is left in the channel -/
def recvAll : Nat → List IoRes → Option (IoRes × List IoRes)
  | 0, rs => some (.ok, rs)
  | _ + 1, [] => none
  | n + 1, r :: rs => if r = .ok then recvAll n rs else some (r, rs)

/-- `let mut result = Ok(()); while sent > 0 { let c = recv().unwrap(); if result.is_ok() { result = c.result }; sent -= 1 }` -/
def writeHtLoop : Nat → IoRes → List IoRes → Option (IoRes × List IoRes)
  | 0, acc, rs => some (acc, rs)
  | _ + 1, _, [] => none
  | n + 1, acc, r :: rs => writeHtLoop n (if acc = .ok then r else acc) rs

/-- `total_io` of `beatree::ops::update` -/
def updateTotalIo (leafSubmitted branchSubmitted lnFreelist bbnFreelist : Nat) : Nat :=
  leafSubmitted + branchSubmitted + lnFreelist + bbnFreelist

/-- seeded `C14-freelist-write-result-dropped`: the free-list writes are sent on a sibling handle and not counted -/
def seededTotalIo (leafSubmitted branchSubmitted : Nat) : Nat := leafSubmitted + branchSubmitted

/-- `bbn_fsync.wait()?; ln_fsync.wait()?;` — the result and whether the `ln` result was consumed -/
def waitPreMeta (bbn ln : IoRes) : IoRes × Bool :=
  if bbn = .ok then (ln, true) else (bbn, false)

/-- seeded `C14-beatree-fsync-result-or`: `bbn_result.or(ln_result)?` (`Result::or`: `self` if `Ok`, else the argument) -/
def waitPreMetaOr (bbn ln : IoRes) : IoRes := if bbn = .ok then bbn else ln

/-! ## `Fsyncer` -/

/-- `State` (the `Done` payload with the ghost generation of the request it answers) -/
inductive FsState | idle | started | done (r : IoRes) (gen : Nat) | handleDead
deriving DecidableEq, Repr

structure Fs where
  st : FsState := .idle
  /-- worker thread between `drop(s_guard)` and the second `lock()`: `sync_all` running; ghost: for which request -/
  running : Option Nat := none
  workerExited : Bool := false
  /-- ghost: accepted `fsync()` calls so far -/
  req : Nat := 0
  /-- ghost: `(generation, result)` of every finished `sync_all` whose result was published -/
  syncs : List (Nat × IoRes) := []
  /-- ghost: what every returned `wait()` returned, with the generation of the `Done` it took -/
  waits : List (Nat × IoRes) := []
  /-- `fsync()` calls that hit the `assert!` -/
  panics : Nat := 0
deriving Repr

inductive FsAct
  /-- `Fsyncer::fsync()` -/
  | fsync
  /-- the worker passes `wait_while` (state `Started`) and starts `sync_all`, or sees `HandleDead` and exits -/
  | workerPick
  /-- `sync_all` returned `r`; the worker locks and publishes `Done(r)` (or exits on `HandleDead`) -/
  | workerDone (r : IoRes)
  /-- a thread inside `Fsyncer::wait()` gets the lock with the state `Done`: takes it (otherwise it keeps waiting) -/
  | waitTake
  /-- `Drop` -/
  | drop
deriving Repr

def fsStep (s : Fs) : FsAct → Fs
  | .fsync =>
    match s.st with
    | .idle => { s with st := .started, req := s.req + 1 }
    | _ => { s with panics := s.panics + 1 }   -- `assert!(matches!(&*s_guard, State::Idle))`
  | .workerPick =>
    if s.workerExited ∨ s.running.isSome then s else
    match s.st with
    | .started => { s with running := some s.req }
    | .handleDead => { s with workerExited := true }
    | _ => s
  | .workerDone r =>
    match s.running with
    | none => s
    | some g =>
      match s.st with
      | .handleDead => { s with running := none, workerExited := true }
      | _ => { s with running := none, st := .done r g, syncs := s.syncs ++ [(g, r)] }
  | .waitTake =>
    match s.st with
    | .done r g => { s with st := .idle, waits := s.waits ++ [(g, r)] }
    | _ => s
  | .drop => { s with st := .handleDead }

def fsRun (s : Fs) (acts : List FsAct) : Fs := acts.foldl fsStep s

end Nomt.IoPool
