import NomtModel.Store.PrepareSyncLoop
/-!
# Redo of the WAL of `prepare_sync` over the OLD table, position by position

`redo_spec`: for the entries `entriesOf ds bs` (one per dirty page, with its bucket) whose update buckets are pairwise
distinct, the redo loop of `bitbox::recover` on any well-formed table `T` succeeds and leaves

* the meta bytes `metaRedo` (every cleared page's bucket a tombstone, every updated page's bucket `full_entry(hash)`),
* in the bucket of every updated page the page `redoPage (old bucket content) …`,
* every other bucket untouched.
-/
namespace Nomt.PrepSync
open Nomt Nomt.Wal Nomt.Store

/-- the (bucket, page) pairs of the pages that are not cleared, in changeset order -/
def ups : List Dirty → List Nat → List (Nat × Dirty)
  | d :: ds, b :: bs => (if d.diff.cleared then [] else [(b, d)]) ++ ups ds bs
  | _, _ => []

/-- the (bucket, page) pairs of all pages -/
def pairs : List Dirty → List Nat → List (Nat × Dirty)
  | d :: ds, b :: bs => (b, d) :: pairs ds bs
  | _, _ => []

theorem ups_sub_pairs : ∀ (ds : List Dirty) (bs : List Nat) (x : Nat × Dirty), x ∈ ups ds bs → x ∈ pairs ds bs ∧ x.2.diff.cleared = false := by
  intro ds
  induction ds with
  | nil => intro bs x h; simp [ups] at h
  | cons d ds ih =>
    intro bs x h
    cases bs with
    | nil => simp [ups] at h
    | cons b bs =>
      simp only [ups, List.mem_append] at h
      rcases h with h | h
      · by_cases hc : d.diff.cleared = true
        · simp [hc] at h
        · simp only [hc, Bool.false_eq_true, if_false, List.mem_singleton] at h
          subst h
          exact ⟨by simp [pairs], by simpa using hc⟩
      · obtain ⟨h1, h2⟩ := ih bs x h
        exact ⟨by simp [pairs, h1], h2⟩

theorem mem_ups : ∀ (ds : List Dirty) (bs : List Nat) (x : Nat × Dirty), x ∈ pairs ds bs → x.2.diff.cleared = false → x ∈ ups ds bs := by
  intro ds
  induction ds with
  | nil => intro bs x h; simp [pairs] at h
  | cons d ds ih =>
    intro bs x h hc
    cases bs with
    | nil => simp [pairs] at h
    | cons b bs =>
      simp only [pairs, List.mem_cons] at h
      simp only [ups, List.mem_append]
      rcases h with h | h
      · subst h
        left
        simp only at hc
        simp [hc]
      · exact Or.inr (ih bs x h hc)

/-- the meta bytes after redo: every entry sets the byte of its bucket -/
def metaRedo (hash : Bytes → Nat) : Bytes → List Dirty → List Nat → Bytes
  | m, d :: ds, b :: bs => metaRedo hash (m.set b (if d.diff.cleared then TOMBSTONE else fullEntry (hash d.pid))) ds bs
  | m, _, _ => m

theorem metaRedo_length (hash : Bytes → Nat) : ∀ (ds : List Dirty) (bs : List Nat) (m : Bytes),
    (metaRedo hash m ds bs).length = m.length := by
  intro ds
  induction ds with
  | nil => intro bs m; cases bs <;> rfl
  | cons d ds ih =>
    intro bs m
    cases bs with
    | nil => rfl
    | cons b bs => simp only [metaRedo]; rw [ih]; simp

/-- what redo needs of a page that is not cleared -/
structure UpdOK (d : Dirty) : Prop where
  pid : d.pid.length = 32
  page : d.page.length = PAGE_SIZE
  diff : d.diff.WF
  plain : PageDiff.Plain d.diff

/-- the page redo leaves in a bucket whose content was `old` -/
def redoOf (old : Bytes) (d : Dirty) : Out Bytes :=
  redoPage old d.pid d.diff (packedOf d.page d.diff) (elidedOf d.page)

theorem set_same {α : Type} [DecidableEq α] (l : List α) (b : Nat) (v : α) :
    (if l[b]? ≠ some v then l.set b v else l) = l.set b v := by
  by_cases h : l[b]? = some v
  · simp only [h, ne_eq, not_true_eq_false, if_false]
    apply List.ext_getElem?
    intro i
    rw [List.getElem?_set]
    by_cases e : b = i
    · subst e
      have hlt : b < l.length := by
        apply Nat.lt_of_not_le
        intro hle
        rw [List.getElem?_eq_none hle] at h
        cases h
      have hv : l[b] = v := by
        rw [List.getElem?_eq_getElem hlt] at h
        injection h
      simp [hlt, hv]
    · simp [e]
  · simp [h]

theorem elidedOf_lt {P : Bytes} (hP : P.length = PAGE_SIZE) : elidedOf P < 2 ^ 64 := by
  have := leNat_lt (slice P (PAGE_SIZE - 40) 8)
  rw [slice_length (by rw [hP]; unfold PAGE_SIZE; omega)] at this
  unfold elidedOf
  omega

theorem redoOf_ok {old : Bytes} {d : Dirty} (hold : old.length = PAGE_SIZE) (hd : UpdOK d) :
    ∃ F, redoOf old d = .ok F ∧ F.length = PAGE_SIZE := by
  obtain ⟨F, h1, h2, _⟩ := redoPage_char (old := old) (pid := d.pid) (el := elidedOf d.page) hold hd.plain
    (packedOf_length d.page d.diff) (packedOf_node_length hd.page hd.plain) hd.pid
  exact ⟨F, h1, h2⟩

theorem redo_spec (hash : Bytes → Nat) : ∀ (ds : List Dirty) (bs : List Nat) (T : Table), T.WF →
    (∀ x ∈ pairs ds bs, x.1 < T.meta.length ∧ (x.2.diff.cleared = false → x.1 < T.pages.length ∧ UpdOK x.2)) →
    ((ups ds bs).map (·.1)).Nodup →
    ∃ U, redoAll hash T (entriesOf ds bs) = .ok U ∧ U.WF ∧ U.meta = metaRedo hash T.meta ds bs ∧
      U.pages.length = T.pages.length ∧
      (∀ x ∈ ups ds bs, ∃ F, redoOf (T.pages.getD x.1 []) x.2 = .ok F ∧ U.pages[x.1]? = some F) ∧
      (∀ b, b ∉ (ups ds bs).map (·.1) → U.pages[b]? = T.pages[b]?) := by
  intro ds
  induction ds with
  | nil =>
    intro bs T w _ _
    refine ⟨T, ?_, w, ?_, rfl, ?_, ?_⟩
    · cases bs <;> rfl
    · cases bs <;> rfl
    · intro x hx; cases bs <;> simp [ups] at hx
    · intro b _; rfl
  | cons d ds ih =>
    intro bs T w hfit hnd
    cases bs with
    | nil =>
      refine ⟨T, rfl, w, rfl, rfl, ?_, ?_⟩
      · intro x hx; simp [ups] at hx
      · intro b _; rfl
    | cons b bs =>
      have hfd := hfit (b, d) (by simp [pairs])
      have hfr : ∀ x ∈ pairs ds bs, x ∈ pairs (d :: ds) (b :: bs) := by
        intro x hx; simp [pairs, hx]
      by_cases hc : d.diff.cleared = true
      · -- a clear entry: only the meta byte
        have hlt : ¬ (b ≥ T.meta.length) := Nat.not_le.2 hfd.1
        have he : redoEntry hash T (entryOf d b) = .ok { T with «meta» := T.meta.set b TOMBSTONE } := by
          simp only [entryOf, hc, if_true, redoEntry, hlt, if_false]
        have hups : ups (d :: ds) (b :: bs) = ups ds bs := by simp [ups, hc]
        rw [hups] at hnd ⊢
        obtain ⟨U, h1, h2, h3, h4, h5, h6⟩ := ih bs { T with «meta» := T.meta.set b TOMBSTONE } w
          (by
            intro x hx
            have := hfit x (hfr x hx)
            simpa using this)
          hnd
        refine ⟨U, ?_, h2, ?_, h4, h5, h6⟩
        · simp only [entriesOf, redoAll, he]; exact h1
        · rw [h3]; simp only [metaRedo, hc, if_true]
      · -- an update entry
        have hc' : d.diff.cleared = false := by simpa using hc
        obtain ⟨hbp, hok⟩ := hfd.2 hc'
        have hlt : ¬ (b ≥ T.meta.length) := Nat.not_le.2 hfd.1
        have ho : T.pages[b]? = some (T.pages[b]'hbp) := List.getElem?_eq_getElem hbp
        have hgd : T.pages.getD b [] = T.pages[b]'hbp := by
          rw [List.getD_eq_getElem?_getD, ho]; rfl
        obtain ⟨F, hF, hFl⟩ := redoOf_ok (old := T.pages[b]'hbp) (d := d) (w _ (List.getElem_mem hbp)) hok
        let T1 : Table := { «meta» := T.meta.set b (fullEntry (hash d.pid)), pages := T.pages.set b F }
        have he : redoEntry hash T (entryOf d b) = .ok T1 := by
          simp only [entryOf, hc', Bool.false_eq_true, if_false, redoEntry, hlt, ho]
          unfold redoOf at hF
          rw [hF]
          simp only [T1, set_same]
        have w1 : T1.WF := by
          intro p hp
          rcases List.mem_or_eq_of_mem_set hp with h | h
          · exact w p h
          · rw [h]; exact hFl
        have hups : ups (d :: ds) (b :: bs) = (b, d) :: ups ds bs := by simp [ups, hc']
        rw [hups] at hnd ⊢
        simp only [List.map_cons, List.nodup_cons] at hnd
        obtain ⟨hnb, hnd'⟩ := hnd
        obtain ⟨U, h1, h2, h3, h4, h5, h6⟩ := ih bs T1 w1
          (by
            intro x hx
            have := hfit x (hfr x hx)
            simpa [T1] using this)
          hnd'
        refine ⟨U, ?_, h2, ?_, ?_, ?_, ?_⟩
        · simp only [entriesOf, redoAll, he]; exact h1
        · rw [h3]; simp only [metaRedo, hc', Bool.false_eq_true, if_false, T1]
        · rw [h4]; simp [T1]
        · intro x hx
          simp only [List.mem_cons] at hx
          rcases hx with rfl | hx
          · refine ⟨F, by rw [hgd]; exact hF, ?_⟩
            rw [h6 b hnb]
            simp only [T1]
            rw [List.getElem?_set]
            simp [hbp]
          · obtain ⟨F', a1, a2⟩ := h5 x hx
            refine ⟨F', ?_, a2⟩
            have hne : b ≠ x.1 := by
              intro e
              apply hnb
              rw [e]
              exact List.mem_map_of_mem hx
            have : T1.pages.getD x.1 [] = T.pages.getD x.1 [] := by
              simp only [T1, List.getD_eq_getElem?_getD, List.getElem?_set, hne, if_false]
            rw [← this]; exact a1
        · intro b' hb'
          simp only [List.map_cons, List.mem_cons, not_or] at hb'
          rw [h6 b' hb'.2]
          simp only [T1]
          rw [List.getElem?_set]
          have : b ≠ b' := fun e => hb'.1 e.symm
          simp [this]

/-! ## the write-out, position by position -/

/-- the page written at the meta / data position of one element of the list -/
def apply1 (off : Nat) (T : Table) (x : Nat × Bytes) : Table :=
  if x.1 < off then { T with «meta» := writeAt T.meta (x.1 * 4096) x.2 }
  else { T with pages := T.pages.set (x.1 - off) x.2 }

theorem applyHt_cons (off : Nat) (T : Table) (x : Nat × Bytes) (r : List (Nat × Bytes)) :
    applyHt off T (x :: r) = applyHt off (apply1 off T x) r := by
  obtain ⟨pn, pg⟩ := x
  rfl

/-- every page of the list is a page, and the meta pages lie inside the meta map -/
def HtOK (off metaLen : Nat) (l : List (Nat × Bytes)) : Prop :=
  ∀ x ∈ l, x.2.length = 4096 ∧ (x.1 < off → x.1 * 4096 + 4096 ≤ metaLen)

theorem apply1_meta_length {off : Nat} {T : Table} {x : Nat × Bytes}
    (h : x.2.length = 4096 ∧ (x.1 < off → x.1 * 4096 + 4096 ≤ T.meta.length)) :
    (apply1 off T x).meta.length = T.meta.length := by
  unfold apply1
  by_cases hx : x.1 < off
  · simp only [hx, if_true]
    exact writeAt_length (by rw [h.1]; exact h.2 hx)
  · simp [hx]

theorem apply1_pages_length (off : Nat) (T : Table) (x : Nat × Bytes) :
    (apply1 off T x).pages.length = T.pages.length := by
  unfold apply1
  by_cases hx : x.1 < off <;> simp [hx]

theorem applyHt_lengths (off : Nat) : ∀ (l : List (Nat × Bytes)) (T : Table), HtOK off T.meta.length l →
    (applyHt off T l).meta.length = T.meta.length ∧ (applyHt off T l).pages.length = T.pages.length := by
  intro l
  induction l with
  | nil => intro T _; exact ⟨rfl, rfl⟩
  | cons x r ih =>
    intro T h
    rw [applyHt_cons]
    have hx := h x (List.mem_cons_self ..)
    have hl := apply1_meta_length hx
    obtain ⟨a, b⟩ := ih (apply1 off T x) (by rw [hl]; exact fun y hy => h y (List.mem_cons_of_mem _ hy))
    exact ⟨by rw [a, hl], by rw [b, apply1_pages_length]⟩

/-- a meta byte outside every written meta page keeps its value -/
theorem applyHt_meta_frame (off : Nat) : ∀ (l : List (Nat × Bytes)) (T : Table), HtOK off T.meta.length l →
    ∀ j, (∀ x ∈ l, x.1 < off → j / 4096 ≠ x.1) → (applyHt off T l).meta[j]? = T.meta[j]? := by
  intro l
  induction l with
  | nil => intro T _ j _; rfl
  | cons x r ih =>
    intro T h j hj
    rw [applyHt_cons]
    have hx := h x (List.mem_cons_self ..)
    have hl := apply1_meta_length hx
    rw [ih (apply1 off T x) (by rw [hl]; exact fun y hy => h y (List.mem_cons_of_mem _ hy)) j
      (fun y hy => hj y (List.mem_cons_of_mem _ hy))]
    unfold apply1
    by_cases hlt : x.1 < off
    · simp only [hlt, if_true]
      rw [getElem?_writeAt (by rw [hx.1]; exact hx.2 hlt)]
      have := hj x (List.mem_cons_self ..) hlt
      rw [hx.1]
      by_cases h1 : j < x.1 * 4096
      · simp [h1]
      · by_cases h2 : j < x.1 * 4096 + 4096
        · exfalso; apply this; omega
        · simp [h1, h2]
    · simp [hlt]

/-- a meta byte inside a written meta page gets that page's byte (page numbers pairwise distinct) -/
theorem applyHt_meta_hit (off : Nat) : ∀ (l : List (Nat × Bytes)) (T : Table), HtOK off T.meta.length l →
    (l.map (·.1)).Nodup → ∀ x ∈ l, x.1 < off → ∀ j, j < 4096 →
    (applyHt off T l).meta[x.1 * 4096 + j]? = x.2[j]? := by
  intro l
  induction l with
  | nil => intro T _ _ x hx; cases hx
  | cons y r ih =>
    intro T h hnd x hx hlt j hj
    rw [applyHt_cons]
    have hy := h y (List.mem_cons_self ..)
    have hl := apply1_meta_length hy
    have hr : HtOK off (apply1 off T y).meta.length r := by
      rw [hl]; exact fun z hz => h z (List.mem_cons_of_mem _ hz)
    simp only [List.map_cons, List.nodup_cons] at hnd
    rcases List.mem_cons.1 hx with rfl | hx
    · rw [applyHt_meta_frame off r _ hr]
      · unfold apply1
        simp only [hlt, if_true]
        rw [getElem?_writeAt (by rw [hy.1]; exact hy.2 hlt), hy.1]
        have a : ¬ (x.1 * 4096 + j < x.1 * 4096) := by omega
        have b : x.1 * 4096 + j < x.1 * 4096 + 4096 := by omega
        simp only [a, if_false, b, if_true]
        congr 1; omega
      · intro z hz _ e
        apply hnd.1
        have : (x.1 * 4096 + j) / 4096 = x.1 := by omega
        rw [this] at e
        rw [e]
        exact List.mem_map_of_mem hz
    · exact ih _ hr hnd.2 x hx hlt j hj

/-- a bucket page outside every written bucket keeps its value -/
theorem applyHt_pages_frame (off : Nat) : ∀ (l : List (Nat × Bytes)) (T : Table),
    ∀ b, (∀ x ∈ l, off ≤ x.1 → x.1 - off ≠ b) → (applyHt off T l).pages[b]? = T.pages[b]? := by
  intro l
  induction l with
  | nil => intro T b _; rfl
  | cons x r ih =>
    intro T b hb
    rw [applyHt_cons, ih _ b (fun y hy => hb y (List.mem_cons_of_mem _ hy))]
    unfold apply1
    by_cases hlt : x.1 < off
    · simp [hlt]
    · simp only [hlt, if_false]
      rw [List.getElem?_set]
      have := hb x (List.mem_cons_self ..) (by omega)
      simp [this]

/-- a written bucket holds the written page (page numbers pairwise distinct) -/
theorem applyHt_pages_hit (off : Nat) : ∀ (l : List (Nat × Bytes)) (T : Table),
    (l.map (·.1)).Nodup → ∀ x ∈ l, off ≤ x.1 → x.1 - off < T.pages.length →
    (applyHt off T l).pages[x.1 - off]? = some x.2 := by
  intro l
  induction l with
  | nil => intro T _ x hx; cases hx
  | cons y r ih =>
    intro T hnd x hx hle hlt
    rw [applyHt_cons]
    simp only [List.map_cons, List.nodup_cons] at hnd
    rcases List.mem_cons.1 hx with rfl | hx
    · rw [applyHt_pages_frame off r _]
      · unfold apply1
        have : ¬ x.1 < off := by omega
        simp only [this, if_false]
        rw [List.getElem?_set]
        simp [hlt]
      · intro z hz hz' e
        apply hnd.1
        have : z.1 = x.1 := by omega
        rw [← this]
        exact List.mem_map_of_mem hz
    · exact ih _ hnd.2 x hx hle (by rw [apply1_pages_length]; exact hlt)

end Nomt.PrepSync
