import NomtModel.Store.WalkerSimVisit
import NomtModel.Store.WalkerSimCompact
import NomtModel.Store.WalkerGSimCompact
/-!
# The visitor of `replace_terminal`: the mirror against the tree walker
-/
namespace Nomt.Walker.G
open Nomt Nomt.TriePos
open Nomt.Wal (PageDiff)

variable {Node VH : Type} [DecidableEq Node] [DecidableEq VH] (H : Hasher Node VH) (ps : PageSet Node)

/-- nothing of the page set hangs below the pages `down` creates on the way `bits` from `p` -/
def FreshBelow (p : Path) (bits : List Bool) : Prop :=
  ∀ j, j < bits.length → (p ++ bits.take j).length % 6 = 0 → fullSum ps (specPage (p ++ bits.take (j + 1))) = 0

theorem freshBelow_nil (p : Path) : FreshBelow ps p [] := by
  intro j hj; simp at hj

/-- `down` into fresh territory -/
theorem sim_down (hfresh : ∀ P, (ps.fresh P).length = 126) : ∀ (bits : List Bool) (w : Walker Node) (a : TW Node),
    Sim H ps w a → a.pos.length + bits.length ≤ 256 →
    ((a.pos = [] ∧ w.parentPage = none) ∨ 6 * k0 w.parentPage < a.pos.length) →
    FreshBelow ps a.pos bits →
    ∃ w', w.down ps bits true = .ok w' ∧ Sim H ps w' (a.down (cfgOf H ps w.parentPage) bits true) ∧ Same w w' ∧
      w'.childPageRoots = w.childPageRoots ∧ w'.root = w.root := by
  intro bits
  induction bits with
  | nil => intro w a h _ _ _; exact ⟨w, rfl, h, Same.rfl' _, rfl, rfl⟩
  | cons b bs ih =>
    intro w a h hl hscope hfb
    obtain ⟨w1, hw1, hs1, hsame1, hcpr1, hroot1⟩ := sim_downBit H ps hfresh h b (by simp at hl; omega) hscope (by
      intro h6
      have := hfb 0 (by simp) (by simpa using h6)
      simpa using this)
    have hpos1 : (a.downBit (cfgOf H ps w.parentPage) true b).pos = a.pos ++ [b] := tw_downBit_pos _ _ _ _
    have hscope1 : ((a.downBit (cfgOf H ps w.parentPage) true b).pos = [] ∧ w1.parentPage = none) ∨
        6 * k0 w1.parentPage < (a.downBit (cfgOf H ps w.parentPage) true b).pos.length := by
      right
      rw [hpos1, hsame1.1]
      rcases hscope with ⟨hn, hp⟩ | hd
      · rw [hn, hp]; simp [k0]
      · simp; omega
    obtain ⟨w2, hw2, hs2, hsame2, hcpr2, hroot2⟩ := ih w1 _ hs1 (by rw [hpos1]; simp at hl ⊢; omega) hscope1 (by
      rw [hpos1]
      intro j hj h6
      have := hfb (j + 1) (by simp; omega) (by simpa using h6)
      simpa using this)
    simp only [Walker.down, TW.down]
    rw [hw1]
    simp only
    rw [hsame1.1] at hs2
    exact ⟨w2, hw2, hs2, Same.trans' hsame1 hsame2, hcpr2.trans hcpr1, hroot2.trans hroot1⟩

/-- `descend` -/
theorem sim_descend (hfresh : ∀ P, (ps.fresh P).length = 126) (sd : Nat) (down : List Bool) {w : Walker Node} {a : TW Node}
    (h : Sim H ps w a) (hl : a.pos.length + down.length ≤ 256)
    (hscope : (a.pos = [] ∧ w.parentPage = none) ∨ 6 * k0 w.parentPage < a.pos.length)
    (hfb : FreshBelow ps a.pos down) :
    ∃ w', w.descend ps sd down = .ok w' ∧ Sim H ps w' (a.down (cfgOf H ps w.parentPage) down true) ∧ Same w w' ∧
      w'.childPageRoots = w.childPageRoots ∧ w'.root = w.root := by
  have key : w.descend ps sd down = w.down ps down true := by
    unfold Walker.descend
    cases hd : decide (w.position.depth > sd) <;> cases down with
    | nil => rfl
    | cons d0 drest =>
      first
        | rfl
        | (simp only [Walker.down]
           rw [downBit_hint]
           cases w.downBit ps true d0 <;> rfl)
  rw [key]
  exact sim_down H ps hfresh down w a h hl hscope hfb

/-- the final write of a visitor call -/
theorem sim_writeHere {w : Walker Node} {a : TW Node} (h : Sim H ps w a) (n : Node)
    (hscope : (a.pos = [] ∧ w.parentPage = none) ∨ 6 * k0 w.parentPage < a.pos.length) :
    ∃ w', w.writeHere H n = .ok w' ∧ Sim H ps w' (a.setNode n) ∧ Same w w' ∧ w'.childPageRoots = w.childPageRoots := by
  unfold Walker.writeHere
  have hdep := pos_depth_pos h.wf h.pos
  rcases hscope with ⟨hn, hp⟩ | hd
  · have hroot : w.position.isRoot = true := by unfold Pos.isRoot; rw [hdep, hn]; rfl
    rw [if_pos hroot]
    refine ⟨_, rfl, ?_, Same.rfl' _, rfl⟩
    have hstk : w.stack = [] := h.stackE.mpr (by rw [hn]; simp)
    refine ⟨h.wf, h.pos, by simp [TW.setNode, hn, upd_same], h.stackE, h.stackT, h.chain, ?_, h.counters, h.recon.cast H rfl rfl rfl rfl rfl, h.cpr, h.outs, h.nofix, h.diffs, h.acct, h.named.write_root hn _⟩
    intro sp hsp; rw [hstk] at hsp; cases hsp
  · have hne := sim_pos_ne (w := w) hd
    have hroot : ¬ w.position.isRoot = true := by
      unfold Pos.isRoot; rw [hdep]; simp
      exact hne
    rw [if_neg hroot]
    obtain ⟨w', hw', hs', hsame, _, hcpr, _⟩ := sim_setNode H ps h hd n
    exact ⟨w', hw', hs', hsame, hcpr⟩

/-- what a visitor call creates below the position: nothing of the page set hangs below it -/
def VisitFresh (a : TW Node) : WriteNode Node VH → Prop
  | .leaf false down _ _ _ => FreshBelow ps a.pos down
  | .leaf true (_ :: rest) _ _ _ => FreshBelow ps (sibPath a.pos) rest
  | _ => True

/-- one visitor call -/
theorem sim_visit (hs : H.Sound) (hfresh : ∀ P, (ps.fresh P).length = 126) (sd : Nat) {w : Walker Node} {a : TW Node}
    (h : Sim H ps w a) (c : WriteNode Node VH)
    (hsafe : VisitSafe (6 * k0 w.parentPage) w.parentPage.isNone a c)
    (hvf : VisitFresh ps a c)
    (Lfin : List (PageId × Store Node)) (hnd : (Lfin.map (·.1)).Nodup)
    (hfin : (w.reconstruction = true → SmallBy H ps Lfin) ∧
      (a.visit H (cfgOf H ps w.parentPage) sd c).log <+: Lfin) :
    ∃ w', w.visit H ps sd c = .ok w' ∧ Sim H ps w' (a.visit H (cfgOf H ps w.parentPage) sd c) ∧ Same w w' ∧
      w'.childPageRoots = w.childPageRoots := by
  have hnone : ∀ {P : Prop}, (P ∧ w.parentPage.isNone = true) → (P ∧ w.parentPage = none) :=
    fun hp => ⟨hp.1, Option.isNone_iff_eq_none.mp hp.2⟩
  unfold TW.visit at hfin
  unfold Walker.visit TW.visit
  cases c with
  | terminator =>
    simp only [Walker.zeroSibling, Walker.visitMove, WriteNode.up, WriteNode.down, WriteNode.node, tw_descend_eq, TW.down]
    have hscope : (a.pos = [] ∧ w.parentPage = none) ∨ 6 * k0 w.parentPage < a.pos.length := by
      rcases hsafe with hh | hh
      · exact Or.inl (hnone hh)
      · exact Or.inr hh
    obtain ⟨w1, hw1, hs1, hsame1, hcpr1, _⟩ := sim_descend H ps hfresh sd [] h (by have := sim_len H ps h; simpa) hscope (freshBelow_nil ps _)
    rw [hw1]
    simp only [TW.down] at hs1
    obtain ⟨w2, hw2, hs2, hsame2, hcpr2⟩ := sim_writeHere H ps hs1 H.term (by rw [hsame1.1]; exact hscope)
    exact ⟨w2, hw2, hs2, Same.trans' hsame1 hsame2, hcpr2.trans hcpr1⟩
  | leaf up down k v n =>
    cases up with
    | false =>
      simp only [Walker.zeroSibling, Walker.visitMove, WriteNode.up, WriteNode.down, WriteNode.node, tw_descend_eq]
      obtain ⟨hsc, hl⟩ := hsafe
      have hscope : (a.pos = [] ∧ w.parentPage = none) ∨ 6 * k0 w.parentPage < a.pos.length := by
        rcases hsc with hh | hh
        · exact Or.inl (hnone hh)
        · exact Or.inr hh
      obtain ⟨w1, hw1, hs1, hsame1, hcpr1, _⟩ := sim_descend H ps hfresh sd down h hl hscope hvf
      rw [hw1]
      simp only
      have hpos1 : (a.down (cfgOf H ps w.parentPage) down true).pos = a.pos ++ down :=
        (tw_down_spec _ down a true).1
      obtain ⟨w2, hw2, hs2, hsame2, hcpr2⟩ := sim_writeHere H ps hs1 n (by
        rw [hsame1.1, hpos1]
        rcases hscope with ⟨hn, hp⟩ | hd
        · cases down with
          | nil => left; simp [hn, hp]
          | cons d0 dr => right; rw [hn, hp]; simp [k0]
        · right; simp; omega)
      exact ⟨w2, hw2, hs2, Same.trans' hsame1 hsame2, hcpr2.trans hcpr1⟩
    | true =>
      cases down with
      | nil => exact absurd hsafe (by simp [VisitSafe])
      | cons d0 rest =>
        obtain ⟨hd, hd0, hl⟩ := hsafe
        have hne := sim_pos_ne (w := w) hd
        simp only [Walker.zeroSibling, Walker.visitMove, WriteNode.up, WriteNode.down, WriteNode.node, tw_descend_eq]
        rw [sim_peekLastBit H ps h hne]
        simp only
        rw [if_pos hd0, if_pos hd0]
        obtain ⟨p', hsib, hsim⟩ := sim_sibling H ps h hd
        rw [hsib]
        simp only
        have hd' : 6 * k0 ({ w with position := p' } : Walker Node).parentPage < (sibPath a.pos).length := by
          rw [sibPath_length]; exact hd
        obtain ⟨w1, hw1, hs1, hsame1, hcpr1, _⟩ := sim_descend H ps hfresh sd rest hsim
          (by rw [sibPath_length]; exact hl) (Or.inr hd') hvf
        rw [hw1]
        simp only
        have hpos1 : (TW.down (cfgOf H ps w.parentPage) ({ a with pos := sibPath a.pos } : TW Node) rest true).pos =
            sibPath a.pos ++ rest := (tw_down_spec _ rest _ true).1
        obtain ⟨w2, hw2, hs2, hsame2, hcpr2⟩ := sim_writeHere H ps hs1 n (by
          right
          show 6 * k0 w1.parentPage < _
          rw [hsame1.1]
          show 6 * k0 w.parentPage < (TW.down (cfgOf H ps w.parentPage) _ rest true).pos.length
          rw [hpos1]; simp [sibPath_length]; omega)
        exact ⟨w2, hw2, hs2, Same.trans' hsame1 hsame2, hcpr2.trans hcpr1⟩
  | internal l r n =>
    obtain ⟨hd, hup⟩ := hsafe
    have hne := sim_pos_ne (w := w) hd
    simp only [Walker.zeroSibling, Walker.visitMove, WriteNode.up, WriteNode.down, WriteNode.node, tw_descend_eq, TW.down]
      at hfin ⊢
    rw [sim_peekLastBit H ps h hne]
    simp only
    -- the optional zeroing of the sibling
    generalize (if a.pos.getLast?.getD false = true then decide (H.kind l = .terminator)
          else decide (H.kind r = .terminator)) = z at hfin ⊢
    have hz : ∃ w1, (if z = true then w.setSibling H.term else .ok w) = .ok w1 ∧
        Sim H ps w1 (if z = true then a.setSibling H.term else a) ∧ Same w w1 ∧
        w1.childPageRoots = w.childPageRoots := by
      cases z with
      | true =>
        simp only [if_true]
        obtain ⟨w1, hw1, hs1, hsame1, _, hcpr1, _⟩ := sim_setSibling H ps h hd H.term
        exact ⟨w1, hw1, hs1, hsame1, hcpr1⟩
      | false =>
        simp only [Bool.false_eq_true, if_false]
        exact ⟨w, rfl, h, Same.rfl' _, rfl⟩
    obtain ⟨w1, hw1, hs1, hsame1, hcpr1⟩ := hz
    rw [hw1]
    simp only
    have hpos1 : (if z = true then a.setSibling H.term else a).pos = a.pos := by
      cases z <;> rfl
    obtain ⟨w2, hw2, hs2, hsame2, hcpr2, _⟩ := sim_up H ps hs1 (by rw [hsame1.1, hpos1]; exact hd) (by
      intro hr hdip
      have hr0 : w.reconstruction = true := by rw [← hsame1.2.2.2.2]; exact hr
      exact hfin.1 hr0 w1 _ hs1 hr hdip hfin.2) (new_of_prefix _ Lfin hnd hfin.2)
    rw [hw2]
    simp only
    have hpos2 : ((if z = true then a.setSibling H.term else a).up).pos = a.pos.dropLast := by
      rw [tw_up_pos, hpos1]
    have hpar2 : w2.parentPage = w.parentPage := hsame2.1.trans hsame1.1
    obtain ⟨w3, hw3, hs3, hsame3, hcpr3, _⟩ := sim_descend H ps hfresh sd [] hs2
      (by rw [hpos2]; have := sim_len H ps h; simp; omega)
      (by
        rw [hpos2, hpar2]
        rcases hup with hh | hh
        · exact Or.inl (hnone hh)
        · right; rw [List.length_dropLast]; exact hh) (freshBelow_nil ps _)
    rw [hw3]
    simp only [TW.down] at hs3
    simp only
    obtain ⟨w4, hw4, hs4, hsame4, hcpr4⟩ := sim_writeHere H ps hs3 n (by
      rw [hsame3.1, hpos2, hpar2]
      rcases hup with hh | hh
      · exact Or.inl (hnone hh)
      · right; rw [List.length_dropLast]; exact hh)
    exact ⟨w4, hw4, hs4, Same.trans' (Same.trans' (Same.trans' hsame1 hsame2) hsame3) hsame4,
      hcpr4.trans (hcpr3.trans (hcpr2.trans hcpr1))⟩

end Nomt.Walker.G
