import NomtModel.Store.FreeListShape
/-!
`commit` / `finish` never reach a panic site on well-shaped free lists (for every capacity ≥ 2), the loop
fuel of the model suffices, and the resulting list is well-shaped again.

The arithmetic invariant of `preallocate` ("free list len + i is divisible by MAX_PNS_PER_PAGE" in the code's
comment) is carried in the form `i = free slots of the head + cap · |new_pages|` (`PAArith.eq`): the cursor `i`
counts how many pushes the pages acquired so far can absorb.  Together with the lower bound `PAArith.low`
(the loop stops as soon as the capacity suffices, so at most one page more than needed was acquired, and
exactly in the situation the `fragmentation` clause of `push_and_encode` repairs) it implies that
`push_and_encode` consumes `new_pages` exactly (`pushEnc_total`).
-/
namespace Nomt.Store.FreeList

/-- the free slots of the head page -/
def slots (cap : Nat) : List Portion → Nat
  | [] => 0
  | (_, items) :: _ => cap - items.length

structure PAArith (cap : Nat) (st : PA) : Prop where
  eq : st.i = slots cap st.ps + cap * st.newPages.length
  low : st.newPages ≠ [] → st.i ≤ st.toPush.length + cap ∧ 1 ≤ st.toPush.length

/-! ### `paStart` -/

theorem paStart_some {cap : Nat} {ps : List Portion} (toPush : List Nat) (bump : Nat)
    (hw : WellShaped cap ps) : ∃ st, paStart cap ps toPush bump = some st := by
  match ps, hw with
  | [], _ => exact ⟨_, rfl⟩
  | (hd, []) :: rest, hw => have := hw.head_len; simp at this
  | [(hd, [x])], _ => exact ⟨_, rfl⟩
  | (hd, [x]) :: (nh, nitems) :: rest, _ =>
    simp only [paStart, popP]
    split <;> exact ⟨_, rfl⟩
  | (hd, x :: y :: xs) :: rest, _ => exact ⟨_, rfl⟩

theorem paStart_arith {cap : Nat} (hc : 2 ≤ cap) {ps : List Portion} {toPush : List Nat} {bump : Nat} {st : PA}
    (hw : WellShaped cap ps) (h : paStart cap ps toPush bump = some st) :
    PAArith cap st ∧ st.toPush.length ≤ toPush.length + 2 := by
  match ps, hw, h with
  | [], _, h =>
    simp only [paStart, popP, Option.some.injEq] at h
    subst h
    exact ⟨⟨by simp [slots], by intro h; exact absurd rfl h⟩, by simp⟩
  | (hd, []) :: rest, _, h => simp [paStart, popP] at h
  | [(hd, [x])], _, h =>
    simp only [paStart, popP, Option.some.injEq] at h
    subst h
    exact ⟨⟨by simp [slots], by intro _; simp⟩, by simp⟩
  | (hd, [x]) :: (nh, nitems) :: rest, hw, h =>
    obtain ⟨hb, ht⟩ := hw.below
    simp only [paStart, popP] at h
    split at h
    · rename_i hfrag
      injection h with h; subst h
      refine ⟨⟨?_, by intro h; exact absurd rfl h⟩, by simp⟩
      simp only [slots, List.length_nil, Nat.mul_zero]; omega
    · rename_i hfrag
      injection h with h; subst h
      have hfull : nitems.length = cap := by
        rcases hb with e | ⟨_, e⟩
        · exact e
        · omega
      refine ⟨⟨?_, ?_⟩, by simp⟩
      · simp only [slots, hfull, List.length_cons, List.length_nil, Nat.mul_one]; omega
      · intro _; simp only [List.length_append, List.length_cons, List.length_nil]; omega
  | (hd, x :: y :: xs) :: rest, hw, h =>
    simp only [paStart, popP, Option.some.injEq] at h
    subst h
    have hl := hw.head_len
    simp only [List.length_cons] at hl
    refine ⟨⟨?_, by intro h; exact absurd rfl h⟩, by simp⟩
    simp only [slots, List.length_cons, List.length_nil, Nat.mul_zero]; omega

/-! ### one iteration -/

theorem paStep_total {cap : Nat} (hc : 2 ≤ cap) {st : PA} (hs : PAShape cap st) : ∃ st1, paStep cap st = some st1 := by
  obtain ⟨ps, toPush, newPages, bump, i, nfp⟩ := st
  cases nfp with
  | true =>
    match ps, hs with
    | [], _ => simp only [paStep, popP]; exact ⟨_, rfl⟩
    | (hd, []) :: rest, hs => have := hs.full _ _ _ rfl rfl; simp at this; omega
    | (hd, x :: xs) :: rest, _ => exact ⟨_, rfl⟩
  | false =>
    match ps, hs with
    | [], _ => simp only [paStep, popP]; exact ⟨_, rfl⟩
    | (hd, []) :: rest, hs => have := hs.part _ _ _ rfl rfl; simp at this
    | (hd, [x]) :: rest, _ => simp only [paStep, popP]; exact ⟨_, rfl⟩
    | (hd, x :: y :: xs) :: rest, _ => simp only [paStep, popP]; exact ⟨_, rfl⟩

theorem paStep_arith {cap : Nat} (hc : 2 ≤ cap) {st st1 : PA} (hs : PAShape cap st) (ha : PAArith cap st)
    (hlt : st.i < st.toPush.length) (k : StepKind cap st st1) : PAArith cap st1 := by
  have heq := ha.eq
  cases k with
  | rehead h x xs rest hn hps e =>
    subst e
    have hfull := hs.full _ _ _ hps hn
    rw [hps] at heq
    simp only [slots, List.length_cons] at heq hfull
    constructor
    · dsimp only
      simp only [slots, List.length_cons]
      omega
    · dsimp only
      intro hne
      have := ha.low hne
      simp only [List.length_append, List.length_cons, List.length_nil]
      omega
  | pop h x y xs rest hn hps e =>
    subst e
    have hp := hs.part _ _ _ hps hn
    rw [hps] at heq
    simp only [slots, List.length_cons] at heq hp
    constructor
    · dsimp only
      simp only [slots, List.length_cons, List.length_append, List.length_nil, Nat.mul_add, Nat.mul_one]
      omega
    · dsimp only
      intro _
      omega
  | release h x rest hn hps e =>
    subst e
    have hp := hs.part _ _ _ hps hn
    have ht := hs.tail _ _ _ hps
    rw [hps] at heq
    have hsl : slots cap rest = 0 := by
      cases rest with
      | nil => rfl
      | cons q r => obtain ⟨qh, qi⟩ := q; have := ht.head; simp only [slots]; simp only at this; omega
    simp only [slots, List.length_cons, List.length_nil] at heq hp
    constructor
    · dsimp only
      simp only [List.length_cons, List.length_append, List.length_nil, Nat.mul_add, Nat.mul_one]
      rw [hsl]
      omega
    · dsimp only
      intro _
      omega
  | bump hps e =>
    subst e
    rw [hps] at heq
    simp only [slots] at heq
    constructor
    · dsimp only
      simp only [slots, hps, List.length_cons, List.length_append, List.length_nil, Nat.mul_add, Nat.mul_one]
      omega
    · dsimp only
      intro _
      omega

/-- the termination measure of the loop -/
def mu (st : PA) : Nat := 2 * (st.toPush.length - st.i) + (if st.nfp then 1 else 0)

theorem paStep_mu {cap : Nat} (hc : 2 ≤ cap) {st st1 : PA} (hlt : st.i < st.toPush.length)
    (k : StepKind cap st st1) : mu st1 < mu st := by
  cases k with
  | rehead h x xs rest hn hps e =>
    subst e
    simp only [mu, hn, List.length_append, List.length_cons, List.length_nil, if_true, Bool.false_eq_true, if_false]
    omega
  | pop h x y xs rest hn hps e =>
    subst e
    simp only [mu, hn, Bool.false_eq_true, if_false]
    omega
  | release h x rest hn hps e =>
    subst e
    simp only [mu, hn, Bool.false_eq_true, if_false, if_true]
    omega
  | bump hps e =>
    subst e
    simp only [mu]
    split <;> omega

theorem paLoop_total {cap : Nat} (hc : 2 ≤ cap) : ∀ (fuel : Nat) (st : PA), PAShape cap st → mu st ≤ fuel →
    ∃ st', paLoop cap fuel st = some st' := by
  intro fuel
  induction fuel with
  | zero =>
    intro st _ hm
    rw [paLoop_zero]
    have : ¬ st.i < st.toPush.length := by
      intro h; simp only [mu] at hm; omega
    rw [if_neg this]; exact ⟨st, rfl⟩
  | succ fuel ih =>
    intro st hs hm
    rw [paLoop_succ]
    by_cases hlt : st.i < st.toPush.length
    · rw [if_pos hlt]
      obtain ⟨st1, h1⟩ := paStep_total hc hs
      rw [h1]
      have k := paStep_cases h1
      exact ih st1 (paStep_shape hc hs k) (by have := paStep_mu hc hlt k; omega)
    · rw [if_neg hlt]; exact ⟨st, rfl⟩

/-! ### `push_and_encode` -/

/-- the situation of `push_and_encode` with `r` new pages and `t` pushes to go -/
structure PEInv (cap : Nat) (ps : List Portion) (r t : Nat) : Prop where
  shape : ∀ h items rest, ps = (h, items) :: rest → 1 ≤ items.length ∧ items.length ≤ cap ∧ TailFull cap rest
  zero : r = 0 → t ≤ slots cap ps
  pos : 1 ≤ r → 1 ≤ t ∧ slots cap ps + cap * r ≤ t + cap ∧ t ≤ slots cap ps + cap * r

theorem pushEnc_nil (cap : Nat) (ps : List Portion) (written : List Nat) (unt : Bool) :
    pushEnc cap [] [] ps written unt = some (ps, written ++ headPn ps) := by
  simp [pushEnc]

theorem pushEnc_total {cap : Nat} (hc : 2 ≤ cap) : ∀ (toPush newPages : List Nat) (ps : List Portion)
    (written : List Nat) (unt : Bool), PEInv cap ps newPages.length toPush.length →
    ∃ ps' w', pushEnc cap toPush newPages ps written unt = some (ps', w') ∧ WellShaped cap ps' := by
  intro toPush
  induction toPush with
  | nil =>
    intro newPages ps written unt inv
    have hr : newPages = [] := by
      cases newPages with
      | nil => rfl
      | cons a l => have := (inv.pos (by simp)).1; simp at this
    subst hr
    refine ⟨ps, _, pushEnc_nil cap ps written unt, ?_⟩
    match ps, inv with
    | [], _ => trivial
    | (h, items) :: rest, inv =>
      obtain ⟨h1, h2, h3⟩ := inv.shape _ _ _ rfl
      exact wellShaped_of_tailFull h1 h2 h3
  | cons pn rest ih =>
    intro newPages ps written unt inv
    -- taking a new page when the head is full (or absent)
    have newPage : ∀ (hfull : slots cap ps = 0) (htail : TailFull cap ps)
        (hcond : (headFull cap ps || (headFrag cap ps && !newPages.isEmpty && rest.isEmpty)) = true),
        ∃ ps' w', pushEnc cap (pn :: rest) newPages ps written unt = some (ps', w') ∧ WellShaped cap ps' := by
      intro hfull htail hcond
      cases newPages with
      | nil =>
        have := inv.zero rfl
        simp only [List.length_cons] at this; omega
      | cons np nps =>
        have hpos := inv.pos (by simp)
        simp only [List.length_cons, Nat.mul_add, Nat.mul_one] at hpos
        simp only [pushEnc, hcond, if_true]
        rw [if_pos (by omega)]
        apply ih
        refine ⟨?_, ?_, ?_⟩
        · intro h items r e
          simp only [List.cons.injEq, Prod.mk.injEq] at e
          obtain ⟨⟨_, e1⟩, e2⟩ := e
          subst e1; subst e2
          exact ⟨by simp, by simp; omega, htail⟩
        · intro h0
          simp only [slots, List.length_cons, List.length_nil]
          rw [h0] at hpos
          simp only [Nat.mul_zero] at hpos
          omega
        · intro h1
          have hge : cap ≤ cap * nps.length := Nat.le_mul_of_pos_right cap h1
          simp only [slots, List.length_cons, List.length_nil]
          omega
    match ps, inv with
    | [], inv => exact newPage rfl (TailFull.nil cap) (by simp [headFull])
    | (h, items) :: tl, inv =>
      obtain ⟨h1, h2, h3⟩ := inv.shape _ _ _ rfl
      by_cases hfull : items.length = cap
      · exact newPage (by simp [slots, hfull]) (TailFull.cons hfull h3) (by simp [headFull, hfull])
      · have hnf : headFull cap ((h, items) :: tl) = false := by simp [headFull, hfull]
        by_cases hfr : (headFrag cap ((h, items) :: tl) && !newPages.isEmpty && rest.isEmpty) = true
        · -- forced fragmentation: the last push goes to the last new page, the head stays one short
          simp only [Bool.and_eq_true, Bool.not_eq_true', List.isEmpty_iff, headFrag, beq_iff_eq] at hfr
          obtain ⟨⟨hil, hnp⟩, hrest⟩ := hfr
          subst hrest
          cases newPages with
          | nil => simp at hnp
          | cons np nps =>
            have hpos := inv.pos (by simp)
            simp only [List.length_cons, List.length_nil, Nat.mul_add, Nat.mul_one, slots] at hpos
            have hz : cap * nps.length = 0 := by omega
            have hnps : nps = [] := by
              rcases Nat.mul_eq_zero.mp hz with h0 | h0
              · omega
              · exact List.eq_nil_of_length_eq_zero h0
            subst hnps
            simp only [pushEnc, hnf, headFrag, hil, beq_self_eq_true, List.isEmpty_cons, Bool.not_false,
              List.isEmpty_nil, Bool.and_self, Bool.or_true, if_true]
            rw [if_pos (by omega)]
            refine ⟨_, _, rfl, ?_⟩
            show WellShaped cap ((np, [pn]) :: (h, items) :: tl)
            exact ⟨by simp, by simp; omega, Or.inr ⟨by simp, by omega⟩, h3⟩
        · have hcond : (headFull cap ((h, items) :: tl) ||
              (headFrag cap ((h, items) :: tl) && !newPages.isEmpty && rest.isEmpty)) = false := by
            rw [hnf, Bool.false_or]; simpa using hfr
          simp only [pushEnc, hcond, Bool.false_eq_true, if_false]
          rw [if_pos (by omega)]
          apply ih
          refine ⟨?_, ?_, ?_⟩
          · intro h' items' r e
            simp only [List.cons.injEq, Prod.mk.injEq] at e
            obtain ⟨⟨_, e1⟩, e2⟩ := e
            subst e1; subst e2
            exact ⟨by simp, by simp only [List.length_cons]; omega, h3⟩
          · intro h0
            have := inv.zero h0
            simp only [slots, List.length_cons] at this ⊢
            omega
          · intro hr1
            have hpos := inv.pos hr1
            have hge : cap ≤ cap * newPages.length := Nat.le_mul_of_pos_right cap hr1
            simp only [slots, List.length_cons] at hpos ⊢
            have hne : newPages ≠ [] := by
              intro e; rw [e] at hr1; simp at hr1
            -- the `fragmentation` clause did not fire
            have hnot : ¬ (items.length = cap - 1 ∧ rest = []) := by
              intro ⟨e1, e2⟩
              apply hfr
              simp only [Bool.and_eq_true, Bool.not_eq_true', List.isEmpty_iff, headFrag, beq_iff_eq]
              refine ⟨⟨e1, ?_⟩, e2⟩
              cases newPages with
              | nil => exact absurd rfl hne
              | cons _ _ => rfl
            have hrl : rest = [] → items.length ≠ cap - 1 := fun e1 e2 => hnot ⟨e2, e1⟩
            refine ⟨?_, by omega, by omega⟩
            cases rest with
            | nil => have := hrl rfl; simp only [List.length_nil] at hpos; omega
            | cons _ _ => simp

/-! ### `commit` and `finish` -/

theorem commitFuel_ok (ps : List Portion) (toPush : List Nat) (st : PA)
    (h : st.toPush.length ≤ toPush.length + 2) : mu st ≤ commitFuel ps toPush := by
  simp only [mu, commitFuel]
  split <;> omega

/-- **`commit` cannot panic on a well-shaped list and leaves a well-shaped list** -/
theorem commit_total {cap : Nat} (hc : 2 ≤ cap) (s : State) (freed : List Nat) (hw : WellShaped cap s.portions) :
    ∃ r, commit cap s freed = some r ∧ WellShaped cap r.state.portions := by
  unfold commit
  split
  · exact ⟨_, rfl, hw⟩
  · simp only
    obtain ⟨st0, h0⟩ := paStart_some (cap := cap) (freed ++ s.released.reverse) s.bump hw
    obtain ⟨a0, l0⟩ := paStart_arith hc hw h0
    have s0 := paStart_shape hc hw h0
    rw [h0]
    simp only
    obtain ⟨st, h1⟩ := paLoop_total hc (commitFuel s.portions (freed ++ s.released.reverse)) st0 s0
      (commitFuel_ok _ _ _ l0)
    rw [h1]
    simp only
    obtain ⟨⟨sh, ar⟩, hexit⟩ := paLoop_induct cap (fun x => PAShape cap x ∧ PAArith cap x)
      (fun a b hi hlt k => ⟨paStep_shape hc hi.1 k, paStep_arith hc hi.1 hi.2 hlt k⟩) _ st0 st h1 ⟨s0, a0⟩
    have inv : PEInv cap st.ps st.newPages.length st.toPush.length := by
      refine ⟨?_, ?_, ?_⟩
      · intro h items rest e
        refine ⟨?_, ?_, sh.tail _ _ _ e⟩
        · cases hn : st.nfp with
          | true => have := sh.full _ _ _ e hn; omega
          | false => exact (sh.part _ _ _ e hn).1
        · cases hn : st.nfp with
          | true => have := sh.full _ _ _ e hn; omega
          | false => have := (sh.part _ _ _ e hn).2; omega
      · intro h0
        have := ar.eq
        rw [h0] at this
        omega
      · intro h1
        have hne : st.newPages ≠ [] := by
          intro e; rw [e] at h1; simp at h1
        have := ar.low hne
        have := ar.eq
        omega
    obtain ⟨ps', w', h2, hw'⟩ := pushEnc_total hc st.toPush st.newPages st.ps [] (st.nfp && !st.ps.isEmpty) inv
    rw [h2]
    exact ⟨_, rfl, hw'⟩

/-- **`finish` cannot panic on a well-shaped list and leaves a well-shaped list** -/
theorem finish_total {cap : Nat} (hc : 2 ≤ cap) (s : State) (n : Nat) (freed : List Nat)
    (hw : WellShaped cap s.portions) :
    ∃ r, finish cap s n freed = some r ∧ WellShaped cap r.state.portions := by
  unfold finish
  exact commit_total hc _ freed (discardP_wellShaped hc s.portions n s.released hw)

end Nomt.Store.FreeList
