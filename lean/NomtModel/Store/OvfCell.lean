import NomtModel.Store.OvfBytes
/-!
# Overflow cells and overflow pages: encoder / decoder round trips and totality of the decoders

* `parsePage_mkPage` — `parse_page` reads back what one iteration of `chunk` wrote, whatever the pool page held;
* `parsePage_isSome_iff` — `parse_page` panics exactly when the header's counts do not fit the page;
* `decodeCell_encodeCell`, `encodeCell_decodeCell` — `decode_cell` / `encode_cell` are mutually inverse;
* `decodeCell_isSome_iff` — `decode_cell` panics exactly on its three assertions (no other panic site is reachable).
-/
namespace Nomt.Ovf
open Nomt.Wal (Bytes leBytes leNat slice leNat_leBytes_of_lt leBytes_length leBytes_leNat)

theorem length_flatMap_leBytes4 (pns : List Nat) : (pns.flatMap (leBytes 4)).length = 4 * pns.length := by
  induction pns with
  | nil => rfl
  | cons x xs ih => simp [List.flatMap_cons, ih]; omega

theorem flatMap_chunks4 : ∀ (l : Bytes) (r : List Nat), chunks4 l = some r → r.flatMap (leBytes 4) = l
  | [], r, h => by simp [chunks4] at h; subst h; rfl
  | [_], r, h => by simp [chunks4] at h
  | [_, _], r, h => by simp [chunks4] at h
  | [_, _, _], r, h => by simp [chunks4] at h
  | a :: b :: c :: d :: rest, r, h => by
    rw [chunks4_append4] at h
    cases hc : chunks4 rest with
    | none => rw [hc] at h; simp at h
    | some l' =>
      rw [hc] at h; simp at h; subst h
      have ih := flatMap_chunks4 rest l' hc
      have h4 : leBytes 4 (leNat [a, b, c, d]) = [a, b, c, d] := leBytes_leNat [a, b, c, d]
      rw [List.flatMap_cons, ih, h4]; rfl

theorem chunks4_lt : ∀ (l : Bytes) (r : List Nat), chunks4 l = some r → ∀ x ∈ r, x < 2 ^ 32
  | [], r, h => by simp [chunks4] at h; subst h; simp
  | [_], r, h => by simp [chunks4] at h
  | [_, _], r, h => by simp [chunks4] at h
  | [_, _, _], r, h => by simp [chunks4] at h
  | a :: b :: c :: d :: rest, r, h => by
    rw [chunks4_append4] at h
    cases hc : chunks4 rest with
    | none => rw [hc] at h; simp at h
    | some l' =>
      rw [hc] at h; simp at h; subst h
      intro x hx
      rcases List.mem_cons.1 hx with rfl | hx
      · have := Nomt.Wal.leNat_lt [a, b, c, d]; simpa using this
      · exact chunks4_lt rest l' hc x hx

/-! ## pages -/

theorem length_mkPage (junk : Bytes) (pns : List Nat) (bytes : Bytes) (hj : junk.length = PAGE_SIZE)
    (hfit : 4 * pns.length + bytes.length ≤ BODY_SIZE) : (mkPage junk pns bytes).length = PAGE_SIZE := by
  simp only [mkPage, List.length_append, leBytes_length, length_flatMap_leBytes4, List.length_drop, hj]
  simp only [BODY_SIZE, PAGE_SIZE, HEADER_SIZE] at *
  omega

/-- `parse_page` reads back exactly what an iteration of `chunk` put into the page -/
theorem parsePage_mkPage (junk : Bytes) (pns : List Nat) (bytes : Bytes) (hj : junk.length = PAGE_SIZE)
    (hp : ∀ x ∈ pns, x < 2 ^ 32) (hfit : 4 * pns.length + bytes.length ≤ BODY_SIZE) :
    parsePage (mkPage junk pns bytes) = some (pns, bytes) := by
  have hlen := length_mkPage junk pns bytes hj hfit
  have hfit' : 4 * pns.length + bytes.length ≤ 4092 := hfit
  have hP := length_flatMap_leBytes4 pns
  have e0 : slice (mkPage junk pns bytes) 0 2 = leBytes 2 pns.length :=
    slice_of_decomp (pre := []) (post := leBytes 2 bytes.length ++ pns.flatMap (leBytes 4) ++ bytes ++
      junk.drop (HEADER_SIZE + 4 * pns.length + bytes.length)) (by simp [mkPage]) rfl (leBytes_length _ _)
  have e2 : slice (mkPage junk pns bytes) 2 2 = leBytes 2 bytes.length :=
    slice_of_decomp (pre := leBytes 2 pns.length) (post := pns.flatMap (leBytes 4) ++ bytes ++
      junk.drop (HEADER_SIZE + 4 * pns.length + bytes.length)) (by simp [mkPage]) (leBytes_length _ _) (leBytes_length _ _)
  have e4 : slice (mkPage junk pns bytes) HEADER_SIZE (pns.length * 4) = pns.flatMap (leBytes 4) :=
    slice_of_decomp (pre := leBytes 2 pns.length ++ leBytes 2 bytes.length) (post := bytes ++
      junk.drop (HEADER_SIZE + 4 * pns.length + bytes.length)) (by simp [mkPage]) (by simp [HEADER_SIZE])
      (by rw [hP]; omega)
  have e5 : slice (mkPage junk pns bytes) (HEADER_SIZE + pns.length * 4) bytes.length = bytes :=
    slice_of_decomp (pre := leBytes 2 pns.length ++ leBytes 2 bytes.length ++ pns.flatMap (leBytes 4))
      (post := junk.drop (HEADER_SIZE + 4 * pns.length + bytes.length)) (by simp [mkPage])
      (by simp [HEADER_SIZE, hP]; omega) rfl
  have n1 : leNat (leBytes 2 pns.length) = pns.length := leNat_leBytes_of_lt (by omega)
  have n2 : leNat (leBytes 2 bytes.length) = bytes.length := leNat_leBytes_of_lt (by omega)
  unfold parsePage
  simp only [e0, e2, n1, n2, hlen, e4, e5, chunks4_flatMap pns hp]
  have c1 : ¬ PAGE_SIZE < HEADER_SIZE := by decide
  have c2 : ¬ pns.length * 4 > PAGE_SIZE - HEADER_SIZE := by simp only [PAGE_SIZE, HEADER_SIZE]; omega
  have c3 : ¬ bytes.length > PAGE_SIZE - (HEADER_SIZE + pns.length * 4) := by
    simp only [PAGE_SIZE, HEADER_SIZE]; omega
  rw [if_neg c1, if_neg c2, if_neg c3]

/-- `parse_page` on a 4096-byte page panics exactly when the two counts of the header do not fit the page -/
theorem parsePage_isSome_iff (page : Bytes) (h : page.length = PAGE_SIZE) :
    (parsePage page).isSome = true ↔
      leNat (slice page 0 2) * 4 ≤ BODY_SIZE ∧
      leNat (slice page 2 2) ≤ BODY_SIZE - leNat (slice page 0 2) * 4 := by
  unfold parsePage
  simp only [h, PAGE_SIZE, HEADER_SIZE, BODY_SIZE]
  by_cases h1 : leNat (slice page 0 2) * 4 > 4096 - 4
  · rw [if_neg (by omega), if_pos h1]; simp; omega
  · rw [if_neg (by omega), if_neg h1]
    by_cases h2 : leNat (slice page 2 2) > 4096 - (4 + leNat (slice page 0 2) * 4)
    · rw [if_pos h2]; simp; omega
    · rw [if_neg h2]
      obtain ⟨r, hr, _⟩ := chunks4_total (leNat (slice page 0 2)) (slice page 4 (leNat (slice page 0 2) * 4))
        (by rw [Nomt.Wal.slice_length (by rw [h]; simp only [PAGE_SIZE]; omega)]; omega)
      rw [hr]; simp; omega

/-- what `parse_page` returns fits the page -/
theorem parsePage_bounds (page : Bytes) (h : page.length = PAGE_SIZE) (pns : List Nat) (bytes : Bytes)
    (hp : parsePage page = some (pns, bytes)) :
    4 * pns.length + bytes.length ≤ BODY_SIZE ∧ ∀ x ∈ pns, x < 2 ^ 32 := by
  have hs := (parsePage_isSome_iff page h).1 (by rw [hp]; rfl)
  unfold parsePage at hp
  simp only [h, PAGE_SIZE, HEADER_SIZE, BODY_SIZE] at hp hs
  rw [if_neg (by omega), if_neg (by omega), if_neg (by omega)] at hp
  cases hc : chunks4 (slice page 4 (leNat (slice page 0 2) * 4)) with
  | none => rw [hc] at hp; simp at hp
  | some r =>
    rw [hc] at hp
    simp only [Option.some.injEq, Prod.mk.injEq] at hp
    obtain ⟨rfl, rfl⟩ := hp
    have hl := chunks4_length _ _ hc
    rw [Nomt.Wal.slice_length (by rw [h]; simp only [PAGE_SIZE]; omega)] at hl
    refine ⟨?_, chunks4_lt _ _ hc⟩
    rw [Nomt.Wal.slice_length (by rw [h]; simp only [PAGE_SIZE]; omega)]
    simp only [BODY_SIZE, PAGE_SIZE]
    omega

/-! ## cells -/

theorem length_encodeCell (vs : Nat) (hash : Bytes) (pages : List Nat) (cell : Bytes)
    (h : encodeCell vs hash pages = some cell) : cell.length = 8 + hash.length + 4 * pages.length := by
  unfold encodeCell at h
  split at h
  · simp at h
  · simp only [Option.some.injEq] at h; subst h
    simp only [List.length_append, leBytes_length, length_flatMap_leBytes4]

/-- `encode_cell` panics only on an over-long value -/
theorem encodeCell_isSome_iff (vs : Nat) (hash : Bytes) (pages : List Nat) :
    (encodeCell vs hash pages).isSome = true ↔ vs ≤ MAX_VALUE_SIZE := by
  unfold encodeCell
  split <;> simp <;> omega

/-- `decode_cell (encode_cell …)` -/
theorem decodeCell_encodeCell (vs : Nat) (hash : Bytes) (pages : List Nat) (cell : Bytes)
    (hh : hash.length = 32) (hp : ∀ x ∈ pages, x < 2 ^ 32) (hne : pages ≠ [])
    (h : encodeCell vs hash pages = some cell) : decodeCell cell = some (vs, hash, pages) := by
  have hlen := length_encodeCell vs hash pages cell h
  have hpl : 0 < pages.length := List.length_pos_iff.2 hne
  unfold encodeCell at h
  split at h
  · simp at h
  · rename_i hvs
    simp only [Option.some.injEq] at h
    have e0 : slice cell 0 8 = leBytes 8 vs :=
      slice_of_decomp (pre := []) (post := hash ++ pages.flatMap (leBytes 4)) (by simp [← h]) rfl (leBytes_length _ _)
    have e8 : slice cell 8 32 = hash :=
      slice_of_decomp (pre := leBytes 8 vs) (post := pages.flatMap (leBytes 4)) (by simp [← h]) (leBytes_length _ _) hh
    have ed : cell.drop 40 = pages.flatMap (leBytes 4) := by
      rw [← h, List.drop_append_of_le_length (by simp [hh])]
      rw [List.drop_of_length_le (by simp [hh])]; rfl
    have n0 : leNat (leBytes 8 vs) = vs := leNat_leBytes_of_lt (by simp only [MAX_VALUE_SIZE] at hvs; omega)
    unfold decodeCell
    simp only [e0, e8, ed, n0, chunks4_flatMap pages hp, hlen, hh]
    rw [if_neg (by omega), if_neg (by omega), if_neg hvs]

/-- `decode_cell` panics exactly on its three assertions -/
theorem decodeCell_isSome_iff (raw : Bytes) :
    (decodeCell raw).isSome = true ↔
      44 ≤ raw.length ∧ raw.length % 4 = 0 ∧ leNat (slice raw 0 8) ≤ MAX_VALUE_SIZE := by
  unfold decodeCell
  by_cases h1 : raw.length < 8 + 4 + 32
  · rw [if_pos h1]; simp; omega
  · rw [if_neg h1]
    by_cases h2 : raw.length % 4 ≠ 0
    · rw [if_pos h2]; simp; omega
    · rw [if_neg h2]
      by_cases h3 : leNat (slice raw 0 8) > MAX_VALUE_SIZE
      · simp only [h3, if_true]; simp; omega
      · simp only [h3, if_false]
        obtain ⟨r, hr, _⟩ := chunks4_total ((raw.length - 40) / 4) (raw.drop 40) (by simp; omega)
        rw [hr]; simp; omega

/-- the fields `decode_cell` returns, and `encode_cell` gives the cell back: the cell format is a bijection between
(size ≤ 2²⁹, 32-byte hash, non-empty list of `u32`) and byte strings of length `40 + 4k`, `k ≥ 1`, with an
admissible size field -/
theorem encodeCell_decodeCell (raw : Bytes) (vs : Nat) (hash : Bytes) (pages : List Nat)
    (h : decodeCell raw = some (vs, hash, pages)) :
    encodeCell vs hash pages = some raw ∧ vs ≤ MAX_VALUE_SIZE ∧ hash.length = 32 ∧
      pages.length = (raw.length - 40) / 4 ∧ 1 ≤ pages.length ∧ ∀ x ∈ pages, x < 2 ^ 32 := by
  have hs := (decodeCell_isSome_iff raw).1 (by rw [h]; rfl)
  obtain ⟨h1, h2, h3⟩ := hs
  unfold decodeCell at h
  rw [if_neg (by omega), if_neg (by omega)] at h
  simp only [show ¬ leNat (slice raw 0 8) > MAX_VALUE_SIZE from by omega, if_false] at h
  cases hc : chunks4 (raw.drop 40) with
  | none => rw [hc] at h; simp at h
  | some r =>
    rw [hc] at h
    simp only [Option.some.injEq, Prod.mk.injEq] at h
    obtain ⟨rfl, rfl, rfl⟩ := h
    have hl := chunks4_length _ _ hc
    simp only [List.length_drop] at hl
    have hfl := flatMap_chunks4 _ _ hc
    have h8 : leBytes 8 (leNat (slice raw 0 8)) = slice raw 0 8 := by
      have := leBytes_leNat (slice raw 0 8)
      rwa [Nomt.Wal.slice_length (by omega)] at this
    refine ⟨?_, h3, Nomt.Wal.slice_length (by omega), by omega, by omega, chunks4_lt _ _ hc⟩
    unfold encodeCell
    rw [if_neg (by omega), h8, hfl]
    simp only [slice, List.drop_zero, Option.some.injEq]
    have : raw.take 8 ++ (raw.drop 8).take 32 = raw.take 40 := by
      rw [show (40 : Nat) = 8 + 32 from rfl, List.take_add]
    rw [this, List.take_append_drop]

end Nomt.Ovf
