import NomtModel.Store.WalModel
/-!
Mirror of the redo loop of `bitbox::recover` (`nomt/src/bitbox/mod.rs`): how every WAL entry is applied to the
hash-table file.

* clear entry  → the bucket's meta byte becomes `TOMBSTONE` (0x7f); the bucket page is not touched;
* update entry → meta byte := `full_entry(hash(page_id))` (if it differs), bucket page := the page read from the
  file with the changed nodes copied over the slots named by the diff (`unpack_changed_nodes`), the page id written
  into the last 32 bytes and the elided-children bitfield into the 8 bytes before it.

The hash of a page id (`hash_raw_page_id`: seeded XXH3-64) is a parameter `hash : Bytes → Nat`.
-/
namespace Nomt.Wal

def TOMBSTONE : UInt8 := 0x7f
def FULL_MASK : Nat := 0x80

/-- `full_entry(hash) = (hash >> 57) as u8 ^ FULL_MASK` -/
def fullEntry (hash : Nat) : UInt8 := UInt8.ofNat ((hash / 2 ^ 57 % 256) ^^^ FULL_MASK)

/-- the hash-table file as `DB::open` sees it: `meta` = `MetaMap::bitvec` (whole pages of meta bytes),
`pages` = the bucket pages (`num_pages` of them) -/
structure Table where
  «meta» : Bytes
  pages : List Bytes
deriving DecidableEq, Repr

/-- the page `recover` writes for an update entry, from the bucket's current content -/
def redoPage (old pid : Bytes) (d : PageDiff) (nodes : List Bytes) (el : Nat) : Out Bytes :=
  if d.count ≠ nodes.length then .err .countMismatch else
  match d.unpack nodes old with
  | .ok p =>
    -- `page[PAGE_SIZE - 32..].copy_from_slice(&page_id)`; `page[PAGE_SIZE - 40..PAGE_SIZE - 32] = elided.to_bytes()`
    if p.length ≠ PAGE_SIZE then .panic "recover: copy_from_slice" else
    .ok (writeAt (writeAt p (PAGE_SIZE - 32) pid) (PAGE_SIZE - 40) (leBytes 8 el))
  | .err e => .err e
  | .panic s => .panic s

/-- one iteration of the `while let Some(entry)` loop of `recover` -/
def redoEntry (hash : Bytes → Nat) (T : Table) : Entry → Out Table
  | .clear bucket =>
    -- `meta_map.set_tombstone(bucket as usize)`: `bitvec[bucket] = TOMBSTONE`
    if bucket ≥ T.meta.length then .panic "set_tombstone: bitvec[bucket]" else
    .ok { T with «meta» := T.meta.set bucket TOMBSTONE }
  | .update pid d nodes el bucket =>
    if bucket ≥ T.meta.length then .panic "hint_not_match: bitvec[bucket]" else
    let m := if T.meta[bucket]? ≠ some (fullEntry (hash pid)) then T.meta.set bucket (fullEntry (hash pid)) else T.meta
    match T.pages[bucket]? with
    | none => .err .htEof
    | some old =>
      match redoPage old pid d nodes el with
      | .ok p => .ok { «meta» := m, pages := T.pages.set bucket p }
      | .err e => .err e
      | .panic s => .panic s

def redoAll (hash : Bytes → Nat) (T : Table) : List Entry → Out Table
  | [] => .ok T
  | e :: es =>
    match redoEntry hash T e with
    | .ok T' => redoAll hash T' es
    | o => o

/-- `bitbox::recover(sync_seqn, …)` on a non-empty WAL file: the table afterwards (the WAL is truncated in every
`ok` case).  A WAL of another sync is discarded. -/
def recover (hash : Bytes → Nat) (syncSeqn : Nat) (T : Table) (walFile : Array UInt8) : Out Table :=
  match Reader.new walFile with
  | .err e => .err e
  | .panic s => .panic s
  | .ok r =>
    if r.seqn ≠ syncSeqn then .ok T else
    -- entries are applied as they are read: an error in the middle leaves the earlier ones applied (not observable
    -- here: `open` fails)
    match Reader.readLoop (walFile.size + 1) r [] with
    | (.ok es, _) => redoAll hash T es
    | (.err e, es) =>
      match redoAll hash T es with
      | .ok _ => .err e
      | o => o
    | (.panic s, es) =>
      match redoAll hash T es with
      | .ok _ => .panic s
      | o => o

end Nomt.Wal
