import NomtModel.Store.StageGlueTracker
import NomtModel.Store.StageGlueMap
import NomtModel.Store.StageGlueEnforce
/-!
# From the tracker to the new leaf level

The leaf changeset (`trackerChanges` of the worker's tracker) applied to the old leaf level — what the branch stage does
with it — gives exactly the leaves the leaf stage leaves behind (`lvlOf`: untouched old leaves under their old page
numbers, produced leaves under the page numbers `handle_new_leaf` allocated), in order.
-/
namespace Nomt.StageGlue
open Nomt
open Nomt.LeafUpd (Entry DbLeaf OutLeaf Leaf CellSize Sorted write1 applyAll)
open Nomt.ExtRange (Tracker TE Inner Pn upsert lookupE)
open Nomt.BranchUpd (chs chOf)

variable {V : Type} [CellSize V] {N : Type}

/-! ## the calls in terms of the lists of the bookkeeping -/

def expDelL : List (Nat × Nat) → Nat → Option Nat
  | [], _ => none
  | (k', pn) :: r, k => match expDelL r k with | some p => some p | none => if k' = k then some pn else none

def expInsL : Nat → List (Nat × N) → Nat → Option (N × Pn)
  | _, [], _ => none
  | a, (k', n) :: r, k =>
    match expInsL (a + 1) r k with | some x => some x | none => if k' = k then some (n, .new 0 a) else none

theorem expDel_eq : ∀ (evs : List (Ev N)) (k : Nat), expDel evs k = expDelL (delsOf evs) k
  | [], _ => rfl
  | .del k' pn _ :: r, k => by
    simp only [expDel, delsOf, expDelL, expDel_eq r k]
    cases expDelL (delsOf r) k <;> rfl
  | .ins _ _ _ :: r, k => by simp [expDel, delsOf, expDel_eq r k]

theorem expIns_eq : ∀ (evs : List (Ev N)) (a k : Nat), expIns a evs k = expInsL a (insOf evs) k
  | [], _, _ => rfl
  | .del _ _ _ :: r, a, k => by simp [expIns, insOf, expIns_eq r a k]
  | .ins k' n _ :: r, a, k => by
    simp only [expIns, insOf, expInsL, expIns_eq r (a + 1) k]
    cases expInsL (a + 1) (insOf r) k <;> rfl

theorem expDelL_none {k : Nat} : ∀ {l : List (Nat × Nat)}, (∀ x ∈ l, x.1 ≠ k) → expDelL l k = none
  | [], _ => rfl
  | (k', pn) :: r, h => by
    have := h (k', pn) (by simp)
    simp [expDelL, expDelL_none (l := r) (fun x hx => h x (by simp [hx])), this]

theorem expDelL_consumed (lpn : Nat → Nat) (k : Nat) : ∀ (c : List (DbLeaf V)),
    expDelL (c.map fun l => (l.sep, lpn l.sep)) k = if k ∈ c.map (·.sep) then some (lpn k) else none
  | [] => rfl
  | l :: c => by
    simp only [List.map_cons, expDelL, expDelL_consumed lpn k c, List.mem_cons]
    by_cases h1 : k ∈ c.map (·.sep)
    · simp [h1]
    · by_cases h2 : l.sep = k
      · subst h2; simp [h1]
      · have : ¬ k = l.sep := fun e => h2 e.symm
        simp [h1, h2, this]

theorem delOnce_nil : ∀ (evs : List (Ev N)), ((delsOf evs).map (·.1)).Nodup → DelOnce ([] : Inner N) evs
  | [], _ => trivial
  | .del k pn nx :: r, h => by
    simp only [delsOf, List.map_cons, List.nodup_cons] at h
    refine ⟨rfl, ?_, delOnce_nil r h.2⟩
    rw [expDel_eq]
    apply expDelL_none
    intro x hx e
    exact h.1 (List.mem_map.2 ⟨x, hx, e⟩)
  | .ins _ _ _ :: r, h => by
    simp only [delsOf] at h
    exact delOnce_nil r h

/-! ## the page number of a produced leaf -/

/-- the page number `handle_new_leaf` allocated for the produced leaf with separator `k` -/
def newAt (fresh : Nat → Nat) : Nat → List (Leaf V) → Nat → Option Nat
  | _, [], _ => none
  | a, l :: t, k => if l.sep = k then some (fresh a) else newAt fresh (a + 1) t k

theorem newAt_none {fresh : Nat → Nat} {k : Nat} : ∀ {news : List (Leaf V)} {a : Nat}, (∀ l ∈ news, l.sep ≠ k) →
    newAt fresh a news k = none
  | [], _, _ => rfl
  | l :: t, a, h => by
    simp [newAt, h l (by simp), newAt_none (news := t) (a := a + 1) (fun x hx => h x (by simp [hx]))]

theorem expInsL_none {k : Nat} : ∀ {l : List (Nat × N)} {a : Nat}, (∀ x ∈ l, x.1 ≠ k) → expInsL a l k = none
  | [], _, _ => rfl
  | (k', n) :: r, a, h => by
    have := h (k', n) (by simp)
    simp [expInsL, expInsL_none (l := r) (a := a + 1) (fun x hx => h x (by simp [hx])), this]

theorem expInsL_news (fresh : Nat → Nat) (k : Nat) : ∀ (news : List (Leaf V)) (a : Nat),
    news.Pairwise (fun x y => x.sep < y.sep) →
    (expInsL a (news.map fun l => (l.sep, l)) k).map (fun x => resolve fresh x.2) = newAt fresh a news k
  | [], _, _ => rfl
  | l :: t, a, h => by
    have h' := List.pairwise_cons.1 h
    simp only [List.map_cons, expInsL, newAt]
    by_cases hk : l.sep = k
    · subst hk
      rw [expInsL_none (by
        intro x hx e
        obtain ⟨y, hy, rfl⟩ := List.mem_map.1 hx
        have := h'.1 y hy
        simp only at e
        omega)]
      simp [resolve]
    · rw [if_neg hk, ← expInsL_news fresh k t (a + 1) h'.2]
      cases expInsL (a + 1) (t.map fun l => (l.sep, l)) k <;> simp [hk]

/-! ## the leaf level the stage leaves behind -/

/-- untouched leaves keep their page number, the `i`-th produced leaf gets the `i`-th page allocated after the overflow
pages -/
def lvlOf (lpn fresh : Nat → Nat) : Nat → List (OutLeaf V) → Level
  | _, [] => []
  | a, .old l :: t => (l.sep, lpn l.sep) :: lvlOf lpn fresh a t
  | a, .new l :: t => (l.sep, fresh a) :: lvlOf lpn fresh (a + 1) t

def OutAsc (out : List (OutLeaf V)) : Prop := out.Pairwise fun a b => a.sep < b.sep

theorem lvlOf_keys (lpn fresh : Nat → Nat) : ∀ (out : List (OutLeaf V)) (a : Nat),
    (lvlOf lpn fresh a out).map (·.1) = out.map (·.sep)
  | [], _ => rfl
  | .old l :: t, a => by simp [lvlOf, lvlOf_keys lpn fresh t a, OutLeaf.sep]
  | .new l :: t, a => by simp [lvlOf, lvlOf_keys lpn fresh t (a + 1), OutLeaf.sep]

theorem lvlOf_asc (lpn fresh : Nat → Nat) (out : List (OutLeaf V)) (a : Nat) (h : OutAsc out) :
    LvlAsc (lvlOf lpn fresh a out) := by
  have : ((lvlOf lpn fresh a out).map (·.1)).Pairwise (· < ·) := by
    rw [lvlOf_keys]; exact (List.pairwise_map).2 h
  exact (List.pairwise_map).1 this

theorem mem_newsOf {l : Leaf V} : ∀ {out : List (OutLeaf V)}, l ∈ newsOf out → OutLeaf.new l ∈ out
  | .old _ :: t, h => List.mem_cons_of_mem _ (mem_newsOf (out := t) h)
  | .new l' :: t, h => by
    rcases List.mem_cons.1 h with rfl | h
    · simp
    · exact List.mem_cons_of_mem _ (mem_newsOf (out := t) h)

theorem mem_oldsOf {l : DbLeaf V} : ∀ {out : List (OutLeaf V)}, l ∈ oldsOf out → OutLeaf.old l ∈ out
  | .new _ :: t, h => List.mem_cons_of_mem _ (mem_oldsOf (out := t) h)
  | .old l' :: t, h => by
    rcases List.mem_cons.1 h with rfl | h
    · simp
    · exact List.mem_cons_of_mem _ (mem_oldsOf (out := t) h)

theorem getE_lvlOf (lpn fresh : Nat → Nat) (k : Nat) : ∀ (out : List (OutLeaf V)) (a : Nat), OutAsc out →
    getE (lvlEnts (lvlOf lpn fresh a out)) k =
      match newAt fresh a (newsOf out) k with
      | some p => some (p, false)
      | none => if k ∈ (oldsOf out).map (·.sep) then some (lpn k, false) else none
  | [], _, _ => rfl
  | .old l :: t, a, h => by
    have h' := List.pairwise_cons.1 h
    simp only [lvlOf, lvlEnts_cons, getE_cons, newsOf, oldsOf, List.map_cons, List.mem_cons]
    by_cases hk : l.sep = k
    · subst hk
      rw [newAt_none (by
        intro n hn e
        have := h'.1 _ (mem_newsOf hn)
        simp only [OutLeaf.sep] at this
        omega)]
      simp
    · have : ¬ k = l.sep := fun e => hk e.symm
      simp only [hk, if_false, this, false_or]
      exact getE_lvlOf lpn fresh k t a h'.2
  | .new l :: t, a, h => by
    have h' := List.pairwise_cons.1 h
    simp only [lvlOf, lvlEnts_cons, getE_cons, newsOf, oldsOf, newAt]
    by_cases hk : l.sep = k
    · simp [hk]
    · simp only [hk, if_false]
      exact getE_lvlOf lpn fresh k t (a + 1) h'.2

/-! ## the changeset of a tracker -/

theorem trackerChanges_asc (fresh : Nat → Nat) (inner : Inner N) (h : InnerAsc inner) :
    CsAsc (trackerChanges fresh inner) := by
  unfold trackerChanges CsAsc
  rw [List.pairwise_map]
  exact List.Pairwise.filter _ h

theorem getC_trackerChanges (fresh : Nat → Nat) (k : Nat) : ∀ (inner : Inner N), InnerAsc inner →
    getC (chs (trackerChanges fresh inner)) k =
      if (insV inner k).isSome || (delV inner k).isSome then
        some ((insV inner k).map fun x => (resolve fresh x.2, false))
      else none
  | [], _ => rfl
  | (k0, e) :: t, h => by
    have h' := List.pairwise_cons.1 h
    have ih := getC_trackerChanges fresh k t h'.2
    by_cases hk : k0 = k
    · subst hk
      have hn : lookupE k0 t = none := lookupE_none_of_lt (fun y hy => h'.1 y hy)
      have i0 : insV t k0 = none := by simp [insV, hn]
      have d0 : delV t k0 = none := by simp [delV, hn]
      rw [i0, d0] at ih
      simp only [Option.isSome_none, Bool.or_self, Bool.false_eq_true, if_false] at ih
      have iv : insV ((k0, e) :: t) k0 = e.inserted := by simp [insV, lookupE]
      have dv : delV ((k0, e) :: t) k0 = e.deleted := by simp [delV, lookupE]
      rw [iv, dv]
      unfold trackerChanges at ih ⊢
      by_cases hp : (e.inserted.isSome || e.deleted.isSome) = true
      · simp only [List.filter_cons, hp, if_true, List.map_cons, chs_cons, getC_cons]
        cases hi : e.inserted with
        | none => simp [chOf]
        | some x => obtain ⟨n, p⟩ := x; simp [chOf]
      · simp only [List.filter_cons, hp, Bool.false_eq_true, if_false]
        exact ih
    · have iv : insV ((k0, e) :: t) k = insV t k := by
        have : ¬ k = k0 := fun e' => hk e'.symm
        simp [insV, lookupE, this]
      have dv : delV ((k0, e) :: t) k = delV t k := by
        have : ¬ k = k0 := fun e' => hk e'.symm
        simp [delV, lookupE, this]
      rw [iv, dv, ← ih]
      unfold trackerChanges
      by_cases hp : (e.inserted.isSome || e.deleted.isSome) = true
      · simp only [List.filter_cons, hp, if_true, List.map_cons, chs_cons, getC_cons, hk, if_false]
      · simp only [List.filter_cons, hp, Bool.false_eq_true, if_false]

theorem getE_lvlEnts_db (lpn : Nat → Nat) (k : Nat) : ∀ (db : List (DbLeaf V)),
    getE (lvlEnts (db.map fun l => (l.sep, lpn l.sep))) k = if k ∈ db.map (·.sep) then some (lpn k, false) else none
  | [] => rfl
  | l :: db => by
    simp only [List.map_cons, lvlEnts_cons, getE_cons, List.mem_cons, getE_lvlEnts_db lpn k db]
    by_cases hk : l.sep = k
    · subst hk; simp
    · have : ¬ k = l.sep := fun e => hk e.symm
      simp [hk, this]

end Nomt.StageGlue
