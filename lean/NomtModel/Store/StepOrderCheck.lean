import NomtModel.Generated.StepOrder
/-!
# Order predicates over the generated step lists (`Generated/StepOrder.lean`, regenerated from the Rust sources on every run)
-/
namespace Nomt.GenOrder

/-- positions of the steps called `n` -/
def positions (n : N) (l : List Step) : List Nat :=
  ((List.range l.length).zip (names l)).filterMap fun p => if p.2 = n then some p.1 else none

def occurs (n : N) (l : List Step) : Bool := !(positions n l).isEmpty

/-- `a` occurs, and every occurrence of `a` is before every occurrence of `b` (vacuous in `b` if `b` does not occur) -/
def allBefore (a b : N) (l : List Step) : Bool :=
  occurs a l && (positions a l).all fun i => (positions b l).all fun j => decide (i < j)

/-- `a` occurs and every step called `a` propagates its failure -/
def allFallible (a : N) (l : List Step) : Bool :=
  occurs a l && l.all fun s => if s.name = a then s.fallible else true

/-- every occurrence of `a` is immediately followed by the steps `bs` -/
def followedBy (a : N) (bs : List N) (l : List Step) : Bool :=
  occurs a l && (positions a l).all fun i => ((names l).drop (i + 1)).take bs.length = bs

/-- no step of the list sits in a loop -/
def straight (l : List Step) : Bool := l.all fun s => !s.inLoop

/-- the four commit entry points -/
def commitFns : List (List Step) := [finished_commit, finished_try_commit, overlay_commit, overlay_try_commit]

end Nomt.GenOrder
