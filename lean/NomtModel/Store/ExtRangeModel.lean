/-!
Mirror of the multi-worker split of the beatree update and of its extend-range protocol:
`nomt/src/beatree/ops/update/mod.rs` (`NodesTracker`, `ChangedNodeEntry`), `extend_range_protocol.rs` (all of it) and the
per-worker driver of `leaf_stage.rs` / `branch_stage.rs` (`run_worker`, `reset_*_base`, `reset_*_base_fresh`, the final
wait loop, `apply_*_changes`, `filter_*_changeset`).  `prepare_workers` is in `Store/ExtRangePrep.lean`.

The node updater (`LeafUpdater` / `BranchUpdater`) is a PARAMETER `Upd` (the existing one-worker mirrors
`Store/LeafUpdModel.lean` / `Store/BranchUpdModel.lean` are instances, `Driver/ExtRangeMode.lean`); everything around it —
the tracker, the channels, the request / response messages, the order of the calls — is mirrored here.

The protocol is a labelled transition system: the global state `G` holds the workers (indexed by position, `ws : Nat → W`),
one request channel per worker (`chans j` = the `Receiver<ExtendRangeRequest>` of worker `j`; a request is the index of the
requester, its private response channel is the slot `resp` of the requester).  `step g i` performs ONE step of worker `i`
(at most one channel operation per step): `Res.ok g'`, `Res.blocked` (a blocking `recv` on an empty channel) or
`Res.panic site`.  A schedule is a list of worker indices; EVERY interleaving of the threads is such a list.

Who holds the `Sender` of channel `j`: the worker whose `right = some j` (not yet returned from `run_worker`) or the
response in flight whose `newRight = some (some j)`; `Disconnected` = nobody.
-/
namespace Nomt.ExtRange

/-- the interface of `LeafUpdater` / `BranchUpdater` as `run_worker` uses it (`none` = a panic site of the updater) -/
structure Upd (σ N C : Type) where
  /-- `Updater::new(page_pool, None, None)` -/
  init : σ
  inScope : σ → Nat → Bool
  /-- `reset_base(Some(Base::new(node, separator)), cutoff)` -/
  resetBase : σ → Option (Nat × N) → Option Nat → σ
  removeCutoff : σ → σ
  ingest : σ → Nat → C → Option σ
  /-- the nodes handed to `handle_new_*` (separator, node, cutoff) and `Some c` for `NeedsMerge(c)` -/
  digest : σ → Option (σ × List (Nat × N × Option Nat) × Option Nat)

/-- page numbers: the ones of the level before the update, and the `k`-th allocation of worker `w` (the real allocator is
shared; which number a new node gets depends on the schedule and is irrelevant for everything below) -/
inductive Pn where
  | old (n : Nat)
  | new (w k : Nat)
deriving DecidableEq, Repr

/-- a node of the level before the update -/
structure DbN (N : Type) where
  sep : Nat
  pn : Nat
  node : N
deriving Repr

/-- `ChangedNodeEntry` -/
structure TE (N : Type) where
  deleted : Option Nat := none
  inserted : Option (N × Pn) := none
  next : Option Nat := none
deriving Repr

/-- `BTreeMap<Key, ChangedNodeEntry>`: ascending association list -/
abbrev Inner (N : Type) := List (Nat × TE N)

/-- `inner.entry(key).or_insert(dflt)` followed by `f` on the entry -/
def upsert {N : Type} (key : Nat) (f : TE N → TE N) (dflt : TE N) : Inner N → Inner N
  | [] => [(key, f dflt)]
  | (k, e) :: t =>
    if key < k then (key, f dflt) :: (k, e) :: t
    else if key = k then (k, f e) :: t
    else (k, e) :: upsert key f dflt t

def lookupE {N : Type} (key : Nat) : Inner N → Option (TE N)
  | [] => none
  | (k, e) :: t => if key = k then some e else lookupE key t

/-- `NodesTracker` (`deferred_drop_pages`, `new_inserted` have no influence on anything) -/
structure Tracker (N : Type) where
  inner : Inner N := []
  pendingBase : Option (Nat × N × Option Nat) := none
  extraFreed : List Pn := []
deriving Repr

/-- `NodesTracker::delete` (`none` = `assert!(entry.deleted.is_none())`) -/
def Tracker.delete {N : Type} (t : Tracker N) (key pn : Nat) (next : Option Nat) : Option (Tracker N) :=
  match (lookupE key t.inner).bind (·.deleted) with
  | some _ => none
  | none => some { t with inner := upsert key (fun e => { e with deleted := some pn, next := next }) { next := next } t.inner }

/-- `NodesTracker::insert` -/
def Tracker.insert {N : Type} (t : Tracker N) (key : Nat) (node : N) (next : Option Nat) (pn : Pn) : Tracker N :=
  { t with inner := upsert key (fun e => { e with next := next, inserted := some (node, pn) }) { next := next } t.inner }

/-- `inner.extend(changed)`: later entries overwrite -/
def extend {N : Type} (inner : Inner N) : Inner N → Inner N
  | [] => inner
  | (k, e) :: t => extend (upsert k (fun _ => e) e inner) t

/-! ## `try_answer_left_neighbor` -/

/-- `ExtendRangeResponse`; `newRight = some r`: "left neighbor consumed our entire range, link them up with our right
neighbor" (`r = none`: there is none) -/
structure Resp (N : Type) where
  changed : Inner N
  newHigh : Option Nat
  newRight : Option (Option Nat)
deriving Repr

/-- where the `take_while` over the tracker stops -/
inductive Scan where
  /-- `found_unchanged_range`: `cnt` entries passed, `new_high_range = Some(key)` -/
  | unch (cnt key : Nat)
  /-- `found_next_node`: `cnt` entries passed, the next one has an inserted node, `new_high_range = its next_separator` -/
  | next (cnt : Nat) (nh : Option Nat)
  /-- the end of the tracker; `separator` as the closure left it -/
  | fin (cnt : Nat) (sep : Option Nat)
deriving DecidableEq, Repr

/-- `if let Some(low) = separator { if low < **key { … } }` -/
def gapBefore (sep : Option Nat) (key : Nat) : Bool :=
  match sep with
  | some low => decide (low < key)
  | none => false

def scan {N : Type} (sep : Option Nat) (cnt : Nat) : Inner N → Scan
  | [] => .fin cnt sep
  | (key, e) :: t =>
    if gapBefore sep key then .unch cnt key
    else if e.inserted.isSome then .next cnt e.next
    else scan e.next (cnt + 1) t

/-- "special case where there is one unchanged range left, which is the last one, up to the worker.range.high" -/
def unchAtEnd (sep high : Option Nat) : Bool :=
  match sep with
  | some low => (match high with | none => true | some h => decide (low < h))
  | none => false

/-- the answer to one request: `none` = the request stays pending; else the response, what is left of the tracker, and
whether `left_neighbor` / `right_neighbor` are given up (`relink`) -/
def answer {N : Type} (inner : Inner N) (low high : Option Nat) (right : Option Nat) (finished : Bool) :
    Option (Resp N × Inner N × Bool) :=
  match scan low 0 inner with
  | .unch cnt key => some (⟨inner.take cnt, some key, none⟩, inner.drop cnt, false)
  | .next cnt nh => some (⟨inner.take (cnt + 1), nh, none⟩, inner.drop (cnt + 1), false)
  | .fin cnt sep =>
    if finished then
      if unchAtEnd sep high then some (⟨inner.take cnt, high, none⟩, inner.drop cnt, false)
      else some (⟨inner.take cnt, high, some right⟩, inner.drop cnt, true)
    else none

/-! ## the workers -/

/-- where a worker is in `run_worker` -/
inductive Pc where
  /-- before the first `reset_*_base(changeset[op_range.start].0)` -/
  | start
  /-- top of `for (key, op)` / `while !is_in_scope(key)` -/
  | loop
  /-- the `digest` of the scope loop returned `Finished`: about to call `try_answer_left_neighbor` -/
  | poll (key : Nat)
  /-- about to test `k >= range.high`; `fin`: in the final merge loop -/
  | ext (k : Nat) (fin : Bool)
  /-- in `request_range_extension`, blocked in `rx.recv()` -/
  | wait (k : Nat) (fin : Bool)
  /-- `while let NeedsMerge(cutoff) = digest` -/
  | fin
  /-- seeded change `single-merge`: the one `digest` after the only merge, result ignored -/
  | finOnce
  /-- `while left_neighbor.is_some()`: about to call `try_answer_left_neighbor(.., true)` -/
  | final
  /-- blocked in `left_neighbor.rx.recv()` -/
  | finalRecv
  /-- returned (`WorkerParams` dropped) -/
  | done
deriving DecidableEq, Repr

/-- variants of the mirror: `leaf` = `leaf_stage.rs` (prepared leaves, `assert!(prepared_leaves.peek().is_none())`);
`staleHigh` = seeded change `C01-branch-stage-stale-range-high` (`range.high` read once before the final merge loop);
`singleMerge` = seeded change `C01-branch-stage-single-merge`; `highMax` = seeded change `C13-extend-range-high-max`
(`range.high = range.high.max(response.new_high_range)`, where `None` — unbounded — sorts below `Some`) -/
structure Cfg where
  leaf : Bool := false
  staleHigh : Bool := false
  singleMerge : Bool := false
  highMax : Bool := false
deriving DecidableEq, Repr

/-- a prepared leaf (`preload_and_prepare`) -/
structure Prep (N : Type) where
  sep : Nat
  node : N
  cutoff : Option Nat
  pn : Nat
deriving Repr

structure W (σ N C : Type) where
  st : σ
  tr : Tracker N := {}
  /-- `left_neighbor.is_some()` (its `Receiver` is the worker's own channel) -/
  left : Bool
  /-- `right_neighbor`: the worker whose channel the `Sender` feeds -/
  right : Option Nat
  low : Option Nat
  high : Option Nat
  /-- `range.high` as it was before the final merge loop (read by the `staleHigh` variant only) -/
  high0 : Option Nat := none
  /-- `changeset[op_range]`, the part not yet ingested -/
  ops : List (Nat × C)
  prepared : List (Prep N) := []
  /-- `pending_left_request` (the requester) -/
  pending : Option Nat := none
  finished : Bool := false
  pc : Pc := .start
  /-- number of pages allocated so far -/
  alloc : Nat := 0
  /-- the worker's private response channel -/
  resp : Option (Resp N) := none

structure G (σ N C : Type) where
  n : Nat
  ws : Nat → W σ N C
  chans : Nat → List Nat

inductive Res (α : Type) where
  | ok (a : α)
  | blocked
  | panic (site : String)

def upd {α : Type} (f : Nat → α) (i : Nat) (v : α) : Nat → α := fun j => if j = i then v else f j

@[simp] theorem upd_same {α : Type} (f : Nat → α) (i : Nat) (v : α) : upd f i v i = v := by simp [upd]
@[simp] theorem upd_other {α : Type} (f : Nat → α) (i j : Nat) (v : α) (h : j ≠ i) : upd f i v j = f j := by simp [upd, h]

variable {σ N C : Type}

/-- `bbn_index.lookup(key)` / `indexed_leaf(bbn_index, key)`: the node with the greatest separator `≤ key`, and
`next_key(key)`: the smallest separator `> key` -/
def lookupDb (key : Nat) : List (DbN N) → Option (DbN N × Option Nat)
  | [] => none
  | a :: rest =>
    if key < a.sep then none else
    match rest with
    | [] => some (a, none)
    | b :: _ => if key < b.sep then some (a, some b.sep) else lookupDb key rest

/-- `preload_and_prepare` -/
def prepare (db : List (DbN N)) : List Nat → List (Prep N) → List (Prep N)
  | [], acc => acc.reverse
  | key :: ks, acc =>
    match acc with
    | last :: _ =>
      if (match last.cutoff with | none => true | some c => decide (key < c)) then prepare db ks acc
      else match lookupDb key db with
        | none => acc.reverse       -- `assert!(changeset_leaves.is_empty())` cannot hold here: see `prepare_no_assert`
        | some (nd, cutoff) => prepare db ks (⟨nd.sep, nd.node, cutoff, nd.pn⟩ :: acc)
    | [] =>
      match lookupDb key db with
      | none => []
      | some (nd, cutoff) => prepare db ks [⟨nd.sep, nd.node, cutoff, nd.pn⟩]

/-- `reset_*_base_fresh` (`none` = the `assert!` of `NodesTracker::delete`) -/
def resetFresh (U : Upd σ N C) (cfg : Cfg) (db : List (DbN N)) (w : W σ N C) (key : Nat) : Option (W σ N C) :=
  match (if cfg.leaf then w.prepared else []) with
  | p :: ps =>
    if p.sep ≤ key then
      match w.tr.delete p.sep p.pn p.cutoff with
      | none => none
      | some tr => some { w with tr := tr, prepared := ps, st := U.resetBase w.st (some (p.sep, p.node)) p.cutoff }
    else
      match lookupDb key db with
      | none => some w
      | some (nd, cutoff) =>
        match w.tr.delete nd.sep nd.pn cutoff with
        | none => none
        | some tr => some { w with tr := tr, st := U.resetBase w.st (some (nd.sep, nd.node)) cutoff }
  | [] =>
    match lookupDb key db with
    | none => some w
    | some (nd, cutoff) =>
      match w.tr.delete nd.sep nd.pn cutoff with
      | none => none
      | some tr => some { w with tr := tr, st := U.resetBase w.st (some (nd.sep, nd.node)) cutoff }

def lastNext (inner : Inner N) : Option Nat := inner.getLast?.bind (·.2.next)

/-- `reset_leaf_base` / `reset_branch_base` -/
def resetBaseW (U : Upd σ N C) (cfg : Cfg) (db : List (DbN N)) (w : W σ N C) (hasExt : Bool) (key : Nat) :
    Res (W σ N C) :=
  if !hasExt then
    match resetFresh U cfg db w key with
    | none => .panic "tracker.delete: deleted twice"
    | some w => .ok w
  else if cfg.leaf && !w.prepared.isEmpty then .panic "assert!(prepared_leaves.peek().is_none())"
  else
    match w.tr.pendingBase with
    | some (sep, node, next) =>
      .ok { w with tr := { w.tr with pendingBase := none }, st := U.resetBase w.st (some (sep, node)) next }
    | none =>
      match lastNext w.tr.inner with
      | some s =>
        match resetFresh U cfg db w (if s > key then s else key) with
        | none => .panic "tracker.delete: deleted twice"
        | some w => .ok w
      | none => .ok { w with st := U.removeCutoff w.st }

/-- `handle_new_leaf` / `handle_new_branch` for the nodes of one `digest` -/
def handleNew (i : Nat) (w : W σ N C) : List (Nat × N × Option Nat) → W σ N C
  | [] => w
  | (key, node, cutoff) :: rest =>
    handleNew i { w with tr := w.tr.insert key node cutoff (.new i w.alloc), alloc := w.alloc + 1 } rest

/-- nobody holds a `Sender` of channel `j` -/
def disconnected (g : G σ N C) (j : Nat) : Bool :=
  (List.range g.n).all fun i =>
    !(((g.ws i).pc != .done && (g.ws i).right == some j) ||
      (match (g.ws i).resp with | some r => r.newRight == some (some j) | none => false))

def setW (g : G σ N C) (i : Nat) (w : W σ N C) : G σ N C := { g with ws := upd g.ws i w }

/-- `pending_request.take()` or else `left_neighbor.rx.try_recv()`: the requester and what is left in the channel -/
def takeReq (g : G σ N C) (i : Nat) : Option (Nat × List Nat) :=
  match (g.ws i).pending with
  | some r => some (r, g.chans i)
  | none => match g.chans i with
    | r :: rest => some (r, rest)
    | [] => none

/-- the rest of `try_answer_left_neighbor` once a request of `r` has been taken -/
def answerWith (g : G σ N C) (i : Nat) (finished : Bool) (next : Pc) (r : Nat) (chan : List Nat) : Res (G σ N C) :=
  let w := g.ws i
  match answer w.tr.inner w.low w.high w.right finished with
  | none => .ok { setW g i { w with pending := some r, pc := next } with chans := upd g.chans i chan }
  | some (resp, inner', relink) =>
    if (g.ws r).pc matches .wait _ _ then
      if (g.ws r).resp.isSome || r = i then .panic "response channel used twice" else
      if relink && !chan.isEmpty then .panic "a request is dropped with the Receiver" else
      let w' : W σ N C :=
        { w with pending := none, tr := { w.tr with inner := inner' }, low := resp.newHigh, pc := next,
                 left := if relink then false else w.left, right := if relink then none else w.right }
      let wr := g.ws r
      .ok { g with ws := upd (upd g.ws i w') r { wr with resp := some resp }, chans := upd g.chans i chan }
    else .panic "request.tx.send(..).unwrap(): the requester is gone"

/-- `try_answer_left_neighbor(&mut pending, &mut params, &mut tracker, finished)` of worker `i`, then `pc := next` -/
def tryAnswer (g : G σ N C) (i : Nat) (finished : Bool) (next : Pc) : Res (G σ N C) :=
  let w := g.ws i
  if !w.left then .ok (setW g i { w with pc := next }) else
  match takeReq g i with
  | none =>
    if disconnected g i then .ok (setW g i { w with left := false, pc := next })
    else .ok (setW g i { w with pc := next })
  | some (r, chan) => answerWith g i finished next r chan

/-- send an `ExtendRangeRequest` to `right_neighbor` and block -/
def sendRequest (g : G σ N C) (i : Nat) (w : W σ N C) (k : Nat) (fin : Bool) : Res (G σ N C) :=
  match w.right with
  | none => .panic "right_neighbor.as_ref().unwrap()"
  | some j =>
    if !(g.ws j).left || (g.ws j).pc == .done || j = i then .panic "right_neighbor.tx.send(request).unwrap()"
    else .ok { setW g i { w with pc := .wait k fin } with chans := upd g.chans j (g.chans j ++ [i]) }

/-- the continuation after a `reset_*_base` in the final merge loop -/
def afterReset (cfg : Cfg) (fin : Bool) : Pc := if fin then (if cfg.singleMerge then .finOnce else .fin) else .loop

/-- what `request_range_extension` does with a response: the last entry's inserted node becomes the pending base -/
def takeResp (w : W σ N C) (r : Resp N) : W σ N C :=
  let (changed, tr) : Inner N × Tracker N :=
    match r.changed.getLast? with
    | some (lastKey, e) =>
      match e.inserted with
      | some (node, pn) =>
        (r.changed.dropLast ++ [(lastKey, { e with inserted := none })],
         { w.tr with extraFreed := w.tr.extraFreed ++ [pn], pendingBase := some (lastKey, node, e.next) })
      | none => (r.changed, w.tr)
    | none => (r.changed, w.tr)
  { w with high := r.newHigh, resp := none, tr := { tr with inner := extend tr.inner changed } }

/-- `Option::max` of the standard library: `None < Some(_)` -/
def optMax : Option Nat → Option Nat → Option Nat
  | some a, some b => some (if a < b then b else a)
  | some a, none => some a
  | none, b => b

/-- `worker_params.range.high = response.new_high_range` — or, with the seeded change `highMax`, the `max` of both -/
def takeRespC (cfg : Cfg) (w : W σ N C) (r : Resp N) : W σ N C :=
  if cfg.highMax then { takeResp w r with high := optMax w.high r.newHigh } else takeResp w r

/-- ONE step of worker `i` -/
def step (U : Upd σ N C) (cfg : Cfg) (db : List (DbN N)) (g : G σ N C) (i : Nat) : Res (G σ N C) :=
  let w := g.ws i
  match w.pc with
  | .done => .blocked
  | .start =>
    match w.ops with
    | [] => .panic "changeset[worker_params.op_range.start]"
    | (k, _) :: _ =>
      match resetBaseW U cfg db w false k with
      | .ok w' => .ok (setW g i { w' with pc := .loop })
      | .panic s => .panic s
      | .blocked => .blocked
  | .loop =>
    match w.ops with
    | [] => .ok (setW g i { w with pc := .fin, high0 := w.high })
    | (key, c) :: rest =>
      if U.inScope w.st key then
        match U.ingest w.st key c with
        | none => .panic "updater.ingest"
        | some st => .ok (setW g i { w with st := st, ops := rest })
      else
        match U.digest w.st with
        | none => .panic "updater.digest"
        | some (st, outs, res) =>
          let w' := handleNew i { w with st := st } outs
          match res with
          | some cutoff => .ok (setW g i { w' with pc := .ext cutoff false })
          | none => .ok (setW g i { w' with pc := .poll key })
  | .poll key => tryAnswer g i false (.ext key false)
  | .ext k fin =>
    let high := if cfg.staleHigh && fin then w.high0 else w.high
    if (match high with | some h => decide (k ≥ h) | none => false) then sendRequest g i w k fin
    else
      match resetBaseW U cfg db w false k with
      | .ok w' => .ok (setW g i { w' with pc := afterReset cfg fin })
      | .panic s => .panic s
      | .blocked => .blocked
  | .wait k fin =>
    match w.resp with
    | none => .blocked
    | some r =>
      let w' := takeRespC cfg w r
      match r.newRight with
      | some nr =>
        let w'' := { w' with right := nr }
        match nr with
        | some _ => sendRequest g i w'' k fin
        | none =>
          match resetBaseW U cfg db w'' true k with
          | .ok w3 => .ok (setW g i { w3 with pc := afterReset cfg fin })
          | .panic s => .panic s
          | .blocked => .blocked
      | none =>
        match resetBaseW U cfg db w' true k with
        | .ok w3 => .ok (setW g i { w3 with pc := afterReset cfg fin })
        | .panic s => .panic s
        | .blocked => .blocked
  | .fin =>
    match U.digest w.st with
    | none => .panic "updater.digest"
    | some (st, outs, res) =>
      let w' := handleNew i { w with st := st } outs
      match res with
      | some cutoff => .ok (setW g i { w' with pc := .ext cutoff true })
      | none => .ok (setW g i { w' with pc := .final, finished := true })
  | .finOnce =>
    match U.digest w.st with
    | none => .panic "updater.digest"
    | some (st, outs, _) => .ok (setW g i { handleNew i { w with st := st } outs with pc := .final, finished := true })
  | .final =>
    if !w.left then .ok (setW g i { w with pc := .done, right := none })
    else
      match tryAnswer g i true .finalRecv with
      | .ok g' => if (g'.ws i).pending.isSome then .panic "assert!(pending_left_request.is_none())" else .ok g'
      | r => r
  | .finalRecv =>
    if !w.left then .ok (setW g i { w with pc := .final })
    else
      match g.chans i with
      | r :: rest => .ok { setW g i { w with pending := some r, pc := .final } with chans := upd g.chans i rest }
      | [] =>
        if disconnected g i then .ok (setW g i { w with left := false, pc := .final })
        else .blocked

/-! ## schedules -/

def allDone (g : G σ N C) : Bool := (List.range g.n).all fun i => (g.ws i).pc == .done

/-- run a schedule (a step of a blocked / finished worker or of an index `≥ n` is skipped); `inl` = the panic site -/
def runSched (U : Upd σ N C) (cfg : Cfg) (db : List (DbN N)) : List Nat → G σ N C → String ⊕ G σ N C
  | [], g => .inr g
  | i :: s, g =>
    if i < g.n then
      match step U cfg db g i with
      | .ok g' => runSched U cfg db s g'
      | .blocked => runSched U cfg db s g
      | .panic site => .inl site
    else runSched U cfg db s g

/-- a schedule policy for the driver: in every round the workers step in the order `order`, each up to `burst` times -/
def burstSteps (U : Upd σ N C) (cfg : Cfg) (db : List (DbN N)) (i : Nat) : Nat → G σ N C → String ⊕ G σ N C
  | 0, g => .inr g
  | b + 1, g =>
    match step U cfg db g i with
    | .ok g' => burstSteps U cfg db i b g'
    | .blocked => .inr g
    | .panic s => .inl s

def roundOf (U : Upd σ N C) (cfg : Cfg) (db : List (DbN N)) (burst : Nat) : List Nat → G σ N C → String ⊕ G σ N C
  | [], g => .inr g
  | i :: r, g =>
    match burstSteps U cfg db i burst g with
    | .inl s => .inl s
    | .inr g' => roundOf U cfg db burst r g'

/-- `none`: fuel exhausted -/
def runPolicy (U : Upd σ N C) (cfg : Cfg) (db : List (DbN N)) (order : List Nat) (burst : Nat) :
    Nat → G σ N C → Option (String ⊕ G σ N C)
  | 0, _ => none
  | f + 1, g =>
    if allDone g then some (.inr g) else
    match roundOf U cfg db burst order g with
    | .inl s => some (.inl s)
    | .inr g' => runPolicy U cfg db order burst f g'

/-! ## the output of the stage: `apply_*_changes`, `filter_*_changeset` -/

/-- `apply_bbn_changes` / `apply_worker_changes` of one worker: the changeset entries and the freed pages -/
def workerChanges (w : W σ N C) : List (Nat × Option (N × Pn)) × List Pn :=
  let kept := w.tr.inner.filter fun (_, e) => e.inserted.isSome || e.deleted.isSome
  (kept.map fun (k, e) => (k, e.inserted),
   (kept.filterMap fun (_, e) => e.deleted.map Pn.old) ++ w.tr.extraFreed)

/-- insertion into the stable sort of the changeset -/
def insSorted {α : Type} (x : Nat × α) : List (Nat × α) → List (Nat × α)
  | [] => [x]
  | y :: t => if x.1 < y.1 then x :: y :: t else y :: insSorted x t

def sortCs {α : Type} (l : List (Nat × α)) : List (Nat × α) := l.foldl (fun acc x => insSorted x acc) []

/-- the indices `filter_*_changeset` removes (`none` = one of its two `assert!`s) -/
def filterIdx {α : Type} : Nat → List (Nat × Option α) → Option (List Nat)
  | _, [] => some []
  | _, [_] => some []
  | i, a :: b :: t =>
    match filterIdx (i + 1) (b :: t) with
    | none => none
    | some r =>
      if a.1 = b.1 then
        if a.2.isSome then (if b.2.isNone then some ((i + 1) :: r) else none)
        else (if b.2.isSome then some (i :: r) else none)
      else some r

def removeIdx {α : Type} (l : List α) (idx : List Nat) : List α :=
  idx.reverse.foldl (fun l i => l.eraseIdx i) l

/-- `filter_*_changeset` (`none` = a panic: an `assert!`, or `len() - 1` on the empty changeset of the BRANCH stage) -/
def filterCs {α : Type} (leaf : Bool) (l : List (Nat × Option α)) : Option (List (Nat × Option α)) :=
  if l.isEmpty && !leaf then none else
  let s := sortCs l
  (filterIdx 0 s).map (removeIdx s)

/-- the stage's output for the workers in completion order `order`: the filtered changeset and the freed pages -/
def assemble (cfg : Cfg) (g : G σ N C) (order : List Nat) : Option (List (Nat × Option (N × Pn)) × List Pn) :=
  let parts := order.map fun i => workerChanges (g.ws i)
  (filterCs cfg.leaf (parts.flatMap (·.1))).map fun cs => (cs, parts.flatMap (·.2))

/-- a node of the level after the stage -/
inductive OutN (N : Type) where
  | old (d : DbN N)
  | new (sep : Nat) (node : N) (pn : Pn)

def OutN.sep : OutN N → Nat
  | .old d => d.sep
  | .new s _ _ => s

/-- `apply_changes_to_index` (and the effect of the leaf changeset on the leaf level): remove / replace / insert -/
def applyCs (lvl : List (OutN N)) : List (Nat × Option (N × Pn)) → List (OutN N)
  | [] => lvl
  | (k, ch) :: cs =>
    let without := lvl.filter fun o => o.sep != k
    let lvl' := match ch with
      | none => without
      | some (node, pn) =>
        (without.filter fun o => decide (o.sep < k)) ++ [OutN.new k node pn] ++ (without.filter fun o => decide (k < o.sep))
    applyCs lvl' cs

end Nomt.ExtRange
