import NomtModel.Store.BitOpsBranchRt
import NomtModel.Store.PushChunkRt
/-!
# Which base nodes `T16_branch_push_chunk_rt` applies to: every page the branch encoder produces under `branchOK`

`ChunkPre` asks of the base node its layout (`Lay`), non-decreasing cells, the capacity bound (`Fit`) and separators of
at most a key.  Every page `encodeBranch x` with `branchOK x` (the guard of the branch round trip `T16_rt_branch` /
`T16_reconstruct_rt`: the pages `decodeBranch` reads back as `x`) has them, with the cells `sepEnd x`.
-/
namespace Nomt.Store
open Nomt.BitOps

theorem sumL_storedLens_le (pc pl : Nat) : ∀ (items : List BItem) (i0 : Nat), (∀ it ∈ items, it.sepLen ≤ 256) →
    sumL (storedLens pc pl items i0) ≤ 256 * items.length := by
  intro items
  induction items with
  | nil => intro _ _; simp [storedLens, sumL]
  | cons it r ih =>
    intro i0 h
    have h1 := h it (List.mem_cons_self)
    have h2 := ih (i0 + 1) (fun a ha => h a (List.mem_cons_of_mem _ ha))
    simp only [storedLens, sumL, List.length_cons]
    have : sepStored pc pl i0 it.sepLen ≤ 256 := by unfold sepStored; split <;> omega
    omega

theorem base_of_branchOK (x : BranchIn) (hok : branchOK x = true) :
    Lay (pageNats x) x.items.length x.pc x.pl (sepEnd x) x.items.length ∧
    (∀ i, i < x.items.length → prevCell (sepEnd x) i ≤ sepEnd x i) ∧
    (∀ i, i < x.items.length → sepEnd x i ≤ sumL (storedLens x.pc x.pl x.items 0)) ∧
    Fit x.items.length x.pl (sumL (storedLens x.pc x.pl x.items 0)) ∧
    (∀ i, i < x.items.length → i < x.pc → x.pl + (sepEnd x i - prevCell (sepEnd x) i) ≤ 256) := by
  have F := branchOK_facts hok
  have hfit := F.fit
  have hbits := F.bits
  have hPAGE : PAGE = 4096 := rfl
  have hBH : Nomt.Store.BRANCH_HEADER = 10 := rfl
  obtain ⟨_, hn, hpc, hpl⟩ := branch_header_fields x F
  have hprev : ∀ i, prevCell (sepEnd x) i = sepBegin x i := by
    intro i
    unfold prevCell
    by_cases h0 : i = 0
    · subst h0; simp [sepBegin, sumL]
    · rw [if_neg h0]; unfold sepEnd sepBegin
      rw [show i - 1 + 1 = i by omega]
  have hstep : ∀ i, i < x.items.length → ∃ it, it ∈ x.items ∧ sepEnd x i = sepBegin x i + sepStored x.pc x.pl i it.sepLen := by
    intro i hi
    have hj : x.items[i]? = some x.items[i] := List.getElem?_eq_getElem hi
    have hst := getElem?_storedLens x.pc x.pl x.items 0 i _ hj
    rw [Nat.zero_add] at hst
    exact ⟨x.items[i], List.getElem_mem hi, sumL_take_succ _ i _ hst⟩
  refine ⟨⟨bytes_pageNats x, length_pageNats x F, ?_, ?_, ?_, ?_⟩, ?_, fun i _ => sumL_take_le _ _, ⟨?_, ?_, F.pl, F.npos⟩, ?_⟩
  · unfold nodeN; rw [u16At_pageNats x F 4 (by omega), hn]
  · unfold nodePc; rw [u16At_pageNats x F 6 (by omega), hpc]
  · unfold nodePl; rw [u16At_pageNats x F 8 (by omega), hpl]
  · intro i hi
    unfold nodeCell
    rw [u16At_pageNats x F _ (by simp only [BitOps.BRANCH_HEADER]; omega)]
    have := branch_cell x F i hi
    rw [hBH] at this
    simp only [BitOps.BRANCH_HEADER]
    rw [this]
  · intro i hi
    obtain ⟨it, _, h⟩ := hstep i hi
    rw [hprev, h]; omega
  · omega
  · have := sumL_storedLens_le x.pc x.pl x.items 0 (fun it hit => (F.items it hit).2.1)
    omega
  · intro i hi hc
    obtain ⟨it, hit, h⟩ := hstep i hi
    have hL := (F.items it hit).2.1
    have hpl' := F.pl
    rw [hprev, h]
    unfold sepStored
    rw [if_pos hc]
    omega

end Nomt.Store
