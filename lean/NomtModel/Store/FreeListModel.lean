/-!
# Model of the paginated, copy-on-write free list (`beatree/allocator/free_list.rs`) and of the
sync allocator (`beatree/allocator/mod.rs`), at the level of page-number bookkeeping (no bytes).

Representation.  `portions` is the Rust `portions` vector **reversed** (head portion first) and every portion's
item vector reversed (top of the stack first), so that `Vec::pop` is "take the head of the list" and
`Vec::push` is `cons`.  The page capacity `MAX_PNS_PER_PAGE` (1022 in the code) is the parameter `cap`.

What is mirrored statement by statement: `FreeList::pop` (`popP`), `discard` (`discardP`), `commit` =
`preallocate` (`paStart`, `paLoop`, with `new_full_portion`, the cursor `i`, the fragmentation fix-up and the
forced fragmentation) followed by `push_and_encode` (`pushEnc`, with `head_full` / `fragmentation` and the list
of pages handed to `encode_head`), `SyncAllocator::allocate` and `SyncFinisher::finish`.

What is abstracted (stated again at the theorems):
* `released_portions` is empty when `preallocate` starts (it was drained into `to_push`), so the
  `released_portions.pop()` that follows every `self.pop()` there returns exactly the head released by that
  `pop`; `popP` returns it directly;
* `CleanFreeList::get_nth_pop` / `len` are used here through their specification, the `n`-th element of the pop
  sequence `itemsOf portions` and its length; `Store/FreeListNthPop.lean` mirrors their index arithmetic over
  the Rust-order representation and proves it equal to that specification on well-shaped lists;
* Rust panics (`unwrap` on an empty portion / on exhausted `new_pages`, the `assert!`s of `push` and
  `push_and_encode`) and exhaustion of the loop fuel make the model answer `none` (`Store/FreeListTotal.lean`:
  never on well-shaped lists, for every capacity ≥ 2);
* `usize` arithmetic is natural-number arithmetic (`MAX - len` truncates instead of overflowing), file growth
  (`max_bump`, `grow`) and the atomics of the allocation counter are not modelled: allocation indices are
  `0 … allocations-1`.
-/
namespace Nomt.Store.FreeList

/-- a free-list page: its own page number and the page numbers stored in it (top of the stack first);
page numbers are natural numbers (`PageNumber(u32)`; 0 is the nil page) -/
abbrev Portion := Nat × List Nat

/-- all page numbers tracked by a list of portions: the free pages and the free-list pages themselves
(`all_tracked_pages`) -/
def pagesOf (ps : List Portion) : List Nat := ps.flatMap (fun p => p.1 :: p.2)
/-- the free pages, in pop order -/
def itemsOf (ps : List Portion) : List Nat := ps.flatMap (fun p => p.2)

/-! ### `FreeList::pop` -/

inductive PopR where
  | empty                                            -- `None`: no portion left
  | panic                                            -- `head.1.pop().unwrap()` on an empty portion
  | ok (pn : Nat) (released : Option Nat) (ps : List Portion)

def popP : List Portion → PopR
  | [] => .empty
  | (_, []) :: _ => .panic
  | (h, [x]) :: rest => .ok x (some h) rest
  | (h, x :: y :: xs) :: rest => .ok x none ((h, y :: xs) :: rest)

/-! ### `FreeList::discard` -/

/-- `discardP n ps rel = (ps', rel', discarded)`; `rel` most recently released first -/
def discardP (n : Nat) : List Portion → List Nat → List Portion × List Nat × Nat
  | [], rel => ([], rel, 0)
  | (h, items) :: rest, rel =>
    if n = 0 then ((h, items) :: rest, rel, 0)
    else if n < items.length then ((h, items.drop n) :: rest, rel, n)
    else
      let r := discardP (n - items.length) rest (h :: rel)
      (r.1, r.2.1, items.length + r.2.2)

/-! ### `FreeList::preallocate` -/

structure PA where
  ps : List Portion
  toPush : List Nat          -- in push order
  newPages : List Nat        -- in the order they will be consumed
  bump : Nat
  i : Nat
  nfp : Bool                -- `new_full_portion`
deriving Repr, DecidableEq

/-- the part of `preallocate` before the loop -/
def paStart (cap : Nat) (ps : List Portion) (toPush : List Nat) (bump : Nat) : Option PA :=
  match popP ps with
  | .empty => some { ps := ps, toPush := toPush, newPages := [], bump := bump, i := 0, nfp := true }
  | .panic => none
  | .ok pn (some x) ps' =>
    match ps' with
    | (nh, nitems) :: rest =>
      if nitems.length = cap - 1 then
        -- fix up fragmentation: `pn` rewrites the second-to-last page
        some { ps := (pn, nitems) :: rest, toPush := toPush ++ [nh, x], newPages := [], bump := bump,
               i := cap - nitems.length, nfp := false }
      else
        some { ps := ps', toPush := toPush ++ [x], newPages := [pn], bump := bump, i := cap, nfp := true }
    | [] => some { ps := [], toPush := toPush ++ [x], newPages := [pn], bump := bump, i := cap, nfp := true }
  | .ok pn none ps' =>
    match ps' with
    | (h, items) :: rest =>
      some { ps := (pn, items) :: rest, toPush := toPush ++ [h], newPages := [], bump := bump,
             i := cap - items.length, nfp := false }
    | [] => none

/-- the `while i < to_push.len()` loop -/
def paLoop (cap : Nat) : Nat → PA → Option PA
  | 0, st => if st.i < st.toPush.length then none else some st
  | fuel+1, st =>
    if st.i < st.toPush.length then
      match st.nfp, st.ps with
      | true, (h, x :: xs) :: rest =>
        paLoop cap fuel { st with ps := (x, xs) :: rest, toPush := st.toPush ++ [h], nfp := false, i := st.i + 1 }
      | true, (_, []) :: _ => none
      | _, _ =>
        match popP st.ps with
        | .ok pn rel ps' =>
          paLoop cap fuel { st with ps := ps', newPages := st.newPages ++ pn :: rel.toList,
                                    nfp := rel.isSome || st.nfp, i := st.i + 1 + cap }
        | .empty =>
          paLoop cap fuel { st with newPages := st.newPages ++ [st.bump], bump := st.bump + 1, i := st.i + cap }
        | .panic => none
    else some st

/-! ### `FreeList::push_and_encode` -/

def headPn (ps : List Portion) : List Nat := match ps with | [] => [] | (h, _) :: _ => [h]

/-- `head_full`: no head, or the head holds `MAX_PNS_PER_PAGE` items -/
def headFull (cap : Nat) : List Portion → Bool
  | [] => true
  | (_, items) :: _ => items.length == cap

/-- first conjunct of `fragmentation`: the head holds `MAX_PNS_PER_PAGE - 1` items -/
def headFrag (cap : Nat) : List Portion → Bool
  | [] => false
  | (_, items) :: _ => items.length == cap - 1

/-- returns the new portions and the page numbers handed to `encode_head` (the pages written).
`unt` is `head_untouched` (repair F18): the head was merely uncovered by pops, it is what the previous state has
on disk under that page number, and the encode that precedes the first new page is skipped for it. -/
def pushEnc (cap : Nat) : List Nat → List Nat → List Portion → List Nat → Bool → Option (List Portion × List Nat)
  | [], newPages, ps, written, _ =>
    if newPages.isEmpty then some (ps, written ++ headPn ps) else none
  | pn :: rest, newPages, ps, written, unt =>
    if headFull cap ps || (headFrag cap ps && !newPages.isEmpty && rest.isEmpty) then
      match newPages with
      | [] => none
      | np :: nps =>
        -- `self.push(pn)` into the fresh, empty head asserts `0 < MAX`
        if 0 < cap then pushEnc cap rest nps ((np, [pn]) :: ps) (if unt then written else written ++ headPn ps) false else none
    else
      match ps with
      | (h, items) :: r => if items.length < cap then pushEnc cap rest newPages ((h, pn :: items) :: r) written unt else none
      | [] => none

/-! ### `FreeList::commit`, `SyncAllocator::allocate`, `SyncFinisher::finish` -/

structure State where
  portions : List Portion
  released : List Nat        -- most recently released first
  pop : Bool
  bump : Nat
deriving Repr, DecidableEq

structure Committed where
  state : State
  written : List Nat         -- page numbers of the free-list pages to write
  exhausted : Bool          -- `preallocate` consumed the old list completely
deriving Repr, DecidableEq

def commitFuel (ps : List Portion) (toPush : List Nat) : Nat := 2 * (toPush.length + ps.length) + 8

/-- `FreeList::commit(to_push = freed, bump)` -/
def commit (cap : Nat) (s : State) (freed : List Nat) : Option Committed :=
  if !s.pop && freed.isEmpty then
    some { state := s, written := [], exhausted := false }
  else
    let toPush := freed ++ s.released.reverse
    match paStart cap s.portions toPush s.bump with
    | none => none
    | some st0 =>
      match paLoop cap (commitFuel s.portions toPush) st0 with
      | none => none
      | some st =>
        match pushEnc cap st.toPush st.newPages st.ps [] (st.nfp && !st.ps.isEmpty) with
        | none => none
        | some (ps', written) =>
          some { state := { portions := ps', released := [], pop := false, bump := st.bump },
                 written := written, exhausted := st.ps.isEmpty }

/-- `SyncAllocator::allocate` for allocation index `i` (the state is the one at `start_sync`) -/
def allocate (s : State) (i : Nat) : Nat :=
  if i < (itemsOf s.portions).length then (itemsOf s.portions).getD i 0
  else s.bump + (i - (itemsOf s.portions).length)

/-- the pages handed out by `allocations` calls of `allocate` -/
def handedOut (s : State) (allocations : Nat) : List Nat := (List.range allocations).map (allocate s)

/-- `SyncFinisher::finish(freed)` after `allocations` calls of `allocate` -/
def finish (cap : Nat) (s : State) (allocations : Nat) (freed : List Nat) : Option Committed :=
  let d := discardP allocations s.portions s.released
  let bumps := allocations - d.2.2
  commit cap { portions := d.1, released := d.2.1,
               pop := s.pop || (decide (0 < allocations) && !s.portions.isEmpty),
               bump := s.bump + bumps } freed

end Nomt.Store.FreeList
