import NomtModel.Store.SeekRun
/-!
# The specification `reconSpec` fulfils the contract `ReconOK`

`ReconOK` (`Store/SeekInv.lean`) is what the seek theorems ASSUME about `page_walker::reconstruct_pages` (mirrored in
another unit).  Here: the executable specification `reconSpec` (`Store/SeekRecon.lean`) the driver runs in its place —
and which the real function agrees with on every differential run (the reconstructed pages are compared slot by slot) —
satisfies it for every world; so the assumption is satisfiable and every theorem has a non-vacuous instance.
-/
namespace Nomt.Seek
open Nomt Nomt.Ovl Nomt.TriePos

variable {Node VH V : Type} [DecidableEq Node] [DecidableEq VH]

/-! ### `restrict` as one filter -/

def matchD : Nat → List Bool → Key → Bool
  | _, [], _ => true
  | d, b :: ps, k => (k.getD d false == b) && matchD (d + 1) ps k

theorem restrict_eq_filterD : ∀ (path : List Bool) (d : Nat) (s : List (Key × VH)),
    restrict d path s = s.filter (fun kv => matchD d path kv.1) := by
  intro path
  induction path with
  | nil => intro d s; simp only [restrict, matchD]; exact (List.filter_eq_self.2 (fun _ _ => rfl)).symm
  | cons b ps ih =>
    intro d s
    simp only [restrict, matchD]
    rw [ih (d + 1) (side d b s)]
    unfold side
    rw [List.filter_filter]
    apply List.filter_congr
    intro kv _
    rw [Bool.and_comm]

theorem matchD_append : ∀ (p y : List Bool) (d : Nat) (k : Key),
    matchD d (p ++ y) k = (matchD d p k && matchD (d + p.length) y k) := by
  intro p
  induction p with
  | nil => intro y d k; simp [matchD]
  | cons b ps ih =>
    intro y d k
    simp only [List.cons_append, matchD, ih, List.length_cons, Bool.and_assoc]
    have : d + 1 + ps.length = d + (ps.length + 1) := by omega
    rw [this]

/-- below a bit path, only what is below a prefix of it matters -/
theorem under_under (p y : List Bool) (s : List (Key × VH)) : under (p ++ y) (under p s) = under (p ++ y) s := by
  unfold under
  rw [restrict_eq_filterD, restrict_eq_filterD, restrict_eq_filterD, List.filter_filter]
  apply List.filter_congr
  intro kv _
  rw [matchD_append]
  cases matchD 0 p kv.1 <;> simp

theorem under_under_self (p : List Bool) (s : List (Key × VH)) : under p (under p s) = under p s := by
  have := under_under p [] s
  rwa [List.append_nil] at this

theorem under_length_le (x : List Bool) (s : List (Key × VH)) : (under x s).length ≤ s.length := by
  unfold under
  rw [restrict_eq_filterD]
  exact List.length_filter_le _ _

/-! ### the pages `specPagesBelow` lists -/

theorem spb_mem (H : Hasher Node VH) (s : List (Key × VH)) : ∀ (fuel : Nat) (p q : PageId) (pg : MPage Node) (o : Origin),
    (q, pg, o) ∈ specPagesBelow H s fuel p → (∃ t, q = p ++ t) ∧ pg = specPageOf H s q := by
  intro fuel
  induction fuel with
  | zero => intro p q pg o h; simp [specPagesBelow] at h
  | succ fuel ih =>
    intro p q pg o h
    unfold specPagesBelow at h
    split at h
    · cases h
    · rcases List.mem_cons.1 h with h | h
      · cases h
        exact ⟨⟨[], by simp⟩, rfl⟩
      · obtain ⟨c, _, hc⟩ := List.mem_flatMap.1 h
        obtain ⟨⟨t, ht⟩, hpg⟩ := ih (p ++ [c]) q pg o hc
        exact ⟨⟨c :: t, by rw [ht]; simp⟩, hpg⟩

theorem spb_head (H : Hasher Node VH) (s : List (Key × VH)) (fuel : Nat) (p : PageId)
    (h2 : 2 ≤ (under (pidBits p) s).length) :
    (specPagesBelow H s (fuel + 1) p).lookup p = some (specPageOf H s p, .reconstructed) := by
  unfold specPagesBelow
  rw [if_neg (by omega)]
  simp [List.lookup_cons]

theorem lookup_mem {α β : Type} [BEq α] [LawfulBEq α] : ∀ (l : List (α × β)) (a : α) (b : β), l.lookup a = some b → (a, b) ∈ l
  | [], _, _, h => by simp at h
  | (k, v) :: rest, a, b, h => by
    rw [List.lookup_cons] at h
    by_cases hk : (a == k) = true
    · rw [hk] at h
      have : a = k := by simpa using hk
      cases h
      rw [this]
      exact List.mem_cons_self ..
    · have hk' : (a == k) = false := by simpa using hk
      rw [hk'] at h
      exact List.mem_cons_of_mem _ (lookup_mem rest a b h)

/-! ### a specified page is good -/

theorem specPage_faithful (W : World Node VH V) (path : List Bool) (Q : PageId) (t : List Bool)
    (hq : pidBits Q = path ++ t) :
    Faithful W.H W.view Q (specPageOf W.H (under path W.view) Q) := by
  intro bs hne hlen hsp hthr
  have hslot : pidBits Q ++ idxBits 6 (specIndex bs) = bs := by
    have := slotPath_spec bs hne
    rw [hsp] at this
    exact this
  have hQl : (pidBits Q).length = 6 * Q.length := pidBits_length Q
  -- below `path`, the leaves handed in and the view agree
  have hsame : ∀ y, under (pidBits Q ++ y) (under path W.view) = under (pidBits Q ++ y) W.view := by
    intro y
    rw [hq, List.append_assoc]
    exact under_under path (t ++ y) W.view
  unfold specPageOf
  simp only
  have hreach : reachable (under path W.view) (pidBits Q) (idxBits 6 (specIndex bs)) = true := by
    unfold reachable
    rw [List.all_eq_true]
    intro j hj
    have hj' : j < (idxBits 6 (specIndex bs)).length := by simpa using hj
    simp only [decide_eq_true_eq]
    rw [hsame]
    have := hthr (6 * Q.length + j) (by omega) (by rw [← hslot, List.length_append, hQl]; omega)
    rw [← hslot, List.take_append, hQl] at this
    have e1 : (pidBits Q).take (6 * Q.length + j) = pidBits Q := List.take_of_length_le (by rw [hQl]; omega)
    have e2 : 6 * Q.length + j - 6 * Q.length = j := by omega
    rw [e1, e2] at this
    exact this
  rw [if_pos hreach]
  unfold specNode
  rw [hsame, hslot]

theorem specPage_childOK (W : World Node VH V) (ps : PageSet Node) (path : List Bool) (Q : PageId) (t : List Bool)
    (hq : pidBits Q = path ++ t) (hsmall : (under path W.view).length < THRESHOLD) :
    ChildOK W.view W.G ps Q (specPageOf W.H (under path W.view) Q) := by
  intro bs hl hlen hsp hthr h2
  have hne : bs ≠ [] := by intro e; rw [e] at hl; simp at hl
  have hlp : (lp bs).length = 6 := by
    rw [lp_length bs hne]; unfold specR; omega
  have hel : (specPageOf W.H (under path W.view) Q).isElided (loadBE (lp bs)) = true := by
    unfold MPage.isElided specPageOf
    simp only
    rw [Nat.testBit_two_pow_sub_one]
    simpa using loadBE_lt_64 (lp bs) hlp
  refine ⟨fun _ => ?_, fun h => by rw [hel] at h; cases h⟩
  -- `bs` lies below `path`
  have hbs : ∃ y, bs = path ++ y := by
    have := pidBits_specPage_append_lp bs
    rw [hsp, hq] at this
    exact ⟨t ++ lp bs, by rw [← List.append_assoc]; exact this.symm⟩
  obtain ⟨y, hy⟩ := hbs
  have : under bs W.view = under bs (under path W.view) := by
    rw [hy]; exact (under_under path y W.view).symm
  rw [this]
  exact Nat.lt_of_le_of_lt (under_length_le _ _) hsmall

/-! ### the contract -/

theorem pidBits_prefix (p t : PageId) : pidBits (p ++ t) = pidBits p ++ pidBits t := pidBits_append p t

/-- **the specification of `reconstruct_pages` fulfils the contract the seek theorems assume** -/
theorem reconSpec_ok (W : World Node VH V) (hrec : W.env.recon = reconSpec W.H) : ReconOK W := by
  intro page P pos ps hwf hne h6 hP
  have hdl : pos.depth ≤ KEY_BITS := hwf.depthLe
  have hplen := pos.path_length hwf
  have h1 : 1 ≤ pos.depth := by
    rcases Nat.eq_zero_or_pos pos.depth with h | h
    · rw [h] at hplen; exact absurd (List.length_eq_zero_iff.mp hplen) hne
    · exact h
  have hKB : KEY_BITS = 256 := rfl
  have hidx : pos.nodeIndex < NODES_PER_PAGE := by rw [hwf.idx]; exact specIndex_lt _ hne
  have hcpi := childPageIndex_eq pos hwf h1 h6
  have hchild : childPageId P (loadBE (lp pos.path)) = .ok (sextetsOf pos.path) := by
    unfold childPageId MAX_PAGE_DEPTH
    rw [← hP, if_neg (by rw [specPage_length, hplen]; omega), ← sextetsOf_bottom _ (by rw [hplen]; exact h6) hne]
  have hpb : pidBits (sextetsOf pos.path) = pos.path := pidBits_sextetsOf _ (by rw [hplen]; exact h6)
  rw [hrec]
  refine ⟨?_, ?_⟩
  · intro hc leaves
    unfold reconSpec
    simp only [MPage.node, if_pos hidx, hcpi, hchild, hc, if_true]
  · intro hc h2 hsmall hnode hps
    have hroot : specNode W.H (under pos.path W.view) pos.path = page.nodes pos.nodeIndex := by
      unfold MPage.node at hnode
      rw [if_pos hidx] at hnode
      rw [Option.some.inj hnode]
      unfold specNode
      rw [under_under_self]
    unfold reconSpec
    simp only [MPage.node, if_pos hidx, hcpi, hchild, hc, Bool.false_eq_true, if_false, hroot, ne_eq, not_true_eq_false]
    have hfuel : MAX_PAGE_DEPTH + 1 - (sextetsOf pos.path).length = (MAX_PAGE_DEPTH - (sextetsOf pos.path).length) + 1 := by
      unfold MAX_PAGE_DEPTH; rw [sextetsOf_length, hplen]; omega
    rw [hfuel]
    have h2' : 2 ≤ (under (pidBits (sextetsOf pos.path)) (under pos.path W.view)).length := by
      rw [hpb, under_under_self]; exact h2
    have hhead := spb_head W.H (under pos.path W.view) (MAX_PAGE_DEPTH - (sextetsOf pos.path).length) (sextetsOf pos.path) h2'
    -- the new page set
    have hget : ∀ Q, (({ ps with map := (specPagesBelow W.H (under pos.path W.view)
          (MAX_PAGE_DEPTH - (sextetsOf pos.path).length + 1) (sextetsOf pos.path) ++ ps.map) } : PageSet Node).get Q) =
        match (specPagesBelow W.H (under pos.path W.view) (MAX_PAGE_DEPTH - (sextetsOf pos.path).length + 1)
            (sextetsOf pos.path)).lookup Q with
        | some x => some x
        | none => ps.get Q := by
      intro Q
      unfold PageSet.get
      simp only [List.lookup_append]
      cases (specPagesBelow W.H (under pos.path W.view) (MAX_PAGE_DEPTH - (sextetsOf pos.path).length + 1)
          (sextetsOf pos.path)).lookup Q <;> simp [Option.or]
    have hext : Ext ps { ps with map := (specPagesBelow W.H (under pos.path W.view)
        (MAX_PAGE_DEPTH - (sextetsOf pos.path).length + 1) (sextetsOf pos.path) ++ ps.map) } := by
      intro Q ⟨x, hx⟩
      rw [hget]
      cases (specPagesBelow W.H (under pos.path W.view) (MAX_PAGE_DEPTH - (sextetsOf pos.path).length + 1)
          (sextetsOf pos.path)).lookup Q with
      | some y => exact ⟨y, rfl⟩
      | none => exact ⟨x, hx⟩
    refine ⟨_, rfl, ?_, hext, ?_⟩
    · intro Q pg o hq
      rw [hget] at hq
      cases hl : (specPagesBelow W.H (under pos.path W.view) (MAX_PAGE_DEPTH - (sextetsOf pos.path).length + 1)
          (sextetsOf pos.path)).lookup Q with
      | some x =>
        rw [hl] at hq
        cases hq
        obtain ⟨⟨t, ht⟩, hpg⟩ := spb_mem W.H _ _ _ _ _ _ (lookup_mem _ _ _ hl)
        have hqb : pidBits Q = pos.path ++ pidBits t := by rw [ht, pidBits_prefix, hpb]
        rw [hpg]
        exact ⟨specPage_faithful W pos.path Q (pidBits t) hqb, specPage_childOK W _ pos.path Q (pidBits t) hqb hsmall⟩
      | none =>
        rw [hl] at hq
        exact pgood_mono hext (hps Q pg o hq)
    · rw [hget, hhead]
      exact ⟨_, rfl⟩

end Nomt.Seek
