import NomtModel.Store.SeekFetch
/-!
# `continue_seek`: the walk through one page (helper lemmas for `Props/C05_Seek.lean`)
-/
namespace Nomt.Seek
open Nomt Nomt.Ovl Nomt.TriePos

variable {Node VH V : Type} [DecidableEq Node] [DecidableEq VH]

/-! ### addressing -/

theorem specPage_snoc_any (X : List Bool) (c c' : Bool) : specPage (X ++ [c]) = specPage (X ++ [c']) := by
  unfold specPage specPageBits
  simp only [List.length_append, List.length_singleton, Nat.add_sub_cancel]
  rw [List.take_append_of_le_length (by omega), List.take_append_of_le_length (by omega)]

theorem specPage_take_in_page (k : Key) (D d : Nat) (hD : D % 6 = 0) (h1 : D ≤ d) (h2 : d < D + 6) (hk : d < k.length) :
    specPage (k.take (d + 1)) = sextetsOf (k.take D) := by
  unfold specPage specPageBits
  rw [List.length_take]
  have e1 : min (d + 1) k.length = d + 1 := by omega
  rw [e1]
  have e2 : (d + 1 - 1) / 6 * 6 = D := by omega
  rw [e2, List.take_take]
  have e3 : min D (d + 1) = D := by omega
  rw [e3]

theorem sextets_len (k : Key) (D : Nat) (hD : D % 6 = 0) (hk : D ≤ k.length) : 6 * (sextetsOf (k.take D)).length = D := by
  rw [sextetsOf_length, List.length_take]
  have : min D k.length = D := by omega
  rw [this]; omega

theorem raw_set (k : Key) (d : Nat) (hk : k.length = KEY_BITS) (hd : d < KEY_BITS) :
    (k.take d ++ List.replicate (KEY_BITS - d) false).set d (k.getD d false) =
      k.take (d + 1) ++ List.replicate (KEY_BITS - (d + 1)) false := by
  have hl : (k.take d).length = d := by rw [List.length_take]; omega
  rw [List.set_append_right _ _ (by omega), hl, Nat.sub_self]
  have : KEY_BITS - d = (KEY_BITS - (d + 1)) + 1 := by omega
  rw [this, List.replicate_succ, List.set_cons_zero, take_succ_of_getD k d (by omega)]
  simp

theorem two_lt {W : World Node VH V} (hOK : W.OK) (bs : List Bool) (hb : bs.length ≤ KEY_BITS)
    (h2 : 2 ≤ (under bs W.view).length) : bs.length < KEY_BITS := by
  rcases specNode_cases W.H (view_canon W hOK) bs hb with ⟨hu, _⟩ | ⟨k, v, hu, _⟩ | ⟨_, hl, _⟩
  · rw [hu] at h2; simp at h2
  · rw [hu] at h2; simp at h2
  · exact hl

theorem trail_congr {W : World Node VH V} {r r' : Req Node VH V} (ht : Trail W r) (h1 : r'.key = r.key) (h2 : r'.pos = r.pos)
    (h3 : r'.sibs = r.sibs) : Trail W r' := by
  refine ⟨?_, ?_, ?_, ?_, ?_⟩
  · rw [h1]; exact ht.klen
  · rw [h2]; exact ht.wf
  · rw [h1, h2]; exact ht.raw
  · rw [h1, h2]; exact ht.through
  · rw [h1, h2, h3]; exact ht.sibs

/-- one step down along the key through an internal node: the position, the node read and the sibling read -/
theorem trail_down {W : World Node VH V} (hOK : W.OK) {r : Req Node VH V} (ht : Trail W r)
    (h2 : 2 ≤ (under (r.key.take r.pos.depth) W.view).length) (page : MPage Node) (D : Nat) (hD6 : D % 6 = 0)
    (hD1 : D ≤ r.pos.depth) (hD2 : r.pos.depth < D + 6) (hfaith : Faithful W.H W.view (sextetsOf (r.key.take D)) page) :
    ∃ pos', r.pos.down (r.key.getD r.pos.depth false) = some pos' ∧ pos'.depth = r.pos.depth + 1 ∧
      page.node pos'.nodeIndex = some (specNode W.H W.view (r.key.take (r.pos.depth + 1))) ∧
      page.node pos'.siblingIndex =
        some (specNode W.H W.view (r.key.take r.pos.depth ++ [!(r.key.getD r.pos.depth false)])) ∧
      ∀ r' : Req Node VH V, r'.key = r.key → r'.pos = pos' →
        r'.sibs = (if W.env.record then r.sibs ++ [specNode W.H W.view (r.key.take r.pos.depth ++ [!(r.key.getD r.pos.depth false)])]
                   else r.sibs) → Trail W r' := by
  have hlen := ht.takeLen
  have hd : r.pos.depth < KEY_BITS := by
    have := two_lt hOK (r.key.take r.pos.depth) (by rw [hlen]; exact ht.wf.depthLe) h2
    rw [hlen] at this; exact this
  have hpath := ht.path
  have hsucc : r.key.take (r.pos.depth + 1) = r.key.take r.pos.depth ++ [r.key.getD r.pos.depth false] :=
    take_succ_of_getD r.key r.pos.depth (by rw [ht.klen]; exact hd)
  have hDk : D ≤ r.key.length := by rw [ht.klen]; omega
  have hPlen := sextets_len r.key D hD6 hDk
  refine ⟨_, down_eq r.pos _ ht.wf hd, rfl, ?_, ?_, ?_⟩
  · -- the node on the key's path
    simp only
    rw [hpath, ← hsucc]
    have hne : r.key.take (r.pos.depth + 1) ≠ [] := by rw [hsucc]; simp
    have hlt := specIndex_lt _ hne
    unfold MPage.node
    rw [if_pos hlt]
    congr 1
    apply hfaith _ hne
    · rw [List.length_take, ht.klen]; omega
    · exact specPage_take_in_page r.key D r.pos.depth hD6 hD1 hD2 (by rw [ht.klen]; exact hd)
    · intro j hj1 hj2
      rw [List.length_take, ht.klen] at hj2
      rw [List.take_take]
      have e : min j (r.pos.depth + 1) = j := by omega
      rw [e]
      by_cases hjd : j < r.pos.depth
      · exact ht.thr j hjd
      · have : j = r.pos.depth := by omega
        rw [this]; exact h2
  · -- its sibling
    unfold Pos.siblingIndex
    simp only
    rw [hpath, siblingIndexOf_snoc]
    have hne : r.key.take r.pos.depth ++ [!(r.key.getD r.pos.depth false)] ≠ [] := by simp
    have hlt := specIndex_lt _ hne
    unfold MPage.node
    rw [if_pos hlt]
    congr 1
    apply hfaith _ hne
    · rw [List.length_append, hlen, List.length_singleton]; omega
    · rw [specPage_snoc_any _ _ (r.key.getD r.pos.depth false), ← hsucc]
      exact specPage_take_in_page r.key D r.pos.depth hD6 hD1 hD2 (by rw [ht.klen]; exact hd)
    · intro j hj1 hj2
      rw [List.length_append, hlen, List.length_singleton] at hj2
      rw [List.take_append_of_le_length (by rw [hlen]; omega), List.take_take]
      have e : min j r.pos.depth = j := by omega
      rw [e]
      by_cases hjd : j < r.pos.depth
      · exact ht.thr j hjd
      · have : j = r.pos.depth := by omega
        rw [this]; exact h2
  · -- the trail of the request moved down
    intro r' hk hp hs
    refine ⟨by rw [hk]; exact ht.klen, ?_, ?_, ?_, ?_⟩
    · rw [hp, hpath]
      have := down_wf r.pos (r.key.getD r.pos.depth false) ht.wf hd
      rw [hpath] at this
      exact this
    · rw [hp, hk]
      simp only
      rw [ht.raw, raw_set r.key r.pos.depth ht.klen hd]
    · rw [hp, hk]
      simp only
      intro j _ hj2
      rw [List.length_take, ht.klen] at hj2
      rw [List.take_take]
      have e : min j (r.pos.depth + 1) = j := by omega
      rw [e]
      by_cases hjd : j < r.pos.depth
      · exact ht.thr j hjd
      · have : j = r.pos.depth := by omega
        rw [this]; exact h2
    · rw [hs, hp, hk]
      simp only
      rw [specSibs_succ, ht.sibs]
      cases W.env.record <;> rfl

/-! ### the `for bit in bits` loop -/

inductive WalkOK (W : World Node VH V) (ps : PageSet Node) (k : Key) (D ios : Nat) (pid : Option PageId) :
    Walk Node VH V → Prop where
  | returned {r' : Req Node VH V} : r'.key = k → r'.ios = ios → Trail W r' → PidOK r' → StOK W ps r' none →
      D < r'.pos.depth → WalkOK W ps k D ios pid (.returned r')
  | bottom {r' : Req Node VH V} : r'.key = k → r'.ios = ios → Trail W r' → r'.st = .seeking → r'.pageId = pid →
      r'.pos.depth = D + 6 → 2 ≤ (under (k.take (D + 6)) W.view).length → WalkOK W ps k D ios pid (.bottom r')

theorem walkPage_ok (W : World Node VH V) (hOK : W.OK) (ps : PageSet Node) (k : Key) (page : MPage Node) (D : Nat)
    (hD6 : D % 6 = 0) (hfaith : Faithful W.H W.view (sextetsOf (k.take D)) page) :
    ∀ (bits : List Bool) (r : Req Node VH V), r.key = k → Trail W r → r.st = .seeking →
      r.pageId = some (sextetsOf (k.take D)) → D ≤ r.pos.depth → bits = (k.drop r.pos.depth).take bits.length →
      r.pos.depth + bits.length = min (D + 6) KEY_BITS → 2 ≤ (under (k.take r.pos.depth) W.view).length →
      ∃ w, walkPage W.env page bits r = .ok w ∧ WalkOK W ps k D r.ios r.pageId w := by
  intro bits
  induction bits with
  | nil =>
    intro r hk ht hst hpid hD1 _ hsum h2
    refine ⟨.bottom r, rfl, ?_⟩
    have hlt := two_lt hOK (k.take r.pos.depth) (by rw [← hk, ht.takeLen]; exact ht.wf.depthLe) h2
    rw [← hk, ht.takeLen] at hlt
    simp only [List.length_nil, Nat.add_zero] at hsum
    have hd : r.pos.depth = D + 6 := by omega
    exact WalkOK.bottom hk rfl ht hst rfl hd (by rw [← hd]; exact h2)
  | cons b bs ih =>
    intro r hk ht hst hpid hD1 hbits hsum h2
    simp only [List.length_cons] at hsum hbits
    have hlt := two_lt hOK (k.take r.pos.depth) (by rw [← hk, ht.takeLen]; exact ht.wf.depthLe) h2
    rw [← hk, ht.takeLen] at hlt
    have hD2 : r.pos.depth < D + 6 := by omega
    -- the head of `bits` is the key's next bit
    have hdrop : k.drop r.pos.depth = k.getD r.pos.depth false :: k.drop (r.pos.depth + 1) := by
      have hl : r.pos.depth < k.length := by rw [← hk, ht.klen]; exact hlt
      rw [List.drop_eq_getElem_cons hl]
      simp [List.getD, List.getElem?_eq_getElem hl]
    rw [hdrop, List.take_succ_cons] at hbits
    have hb : b = k.getD r.pos.depth false := (List.cons.inj hbits).1
    have hbs : bs = (k.drop (r.pos.depth + 1)).take bs.length := (List.cons.inj hbits).2
    subst hk
    obtain ⟨pos', hdown, hdep, hnode, hsib, htr⟩ := trail_down hOK ht h2 page D hD6 hD1 hD2 hfaith
    rw [← hb] at hdown hsib htr
    unfold walkPage
    simp only [hdown, hnode]
    have hsO : (if W.env.record = true then Option.map (fun s => r.sibs ++ [s]) (page.node pos'.siblingIndex) else some r.sibs)
        = some (if W.env.record then r.sibs ++ [specNode W.H W.view (r.key.take r.pos.depth ++ [!b])] else r.sibs) := by
      rw [hsib]; cases W.env.record <;> rfl
    rw [hsO]
    simp only
    -- the request moved down
    have ht1 := htr { r with pos := pos', sibs := (if W.env.record then r.sibs ++ [specNode W.H W.view (r.key.take r.pos.depth ++ [!b])] else r.sibs) } rfl rfl rfl
    have hdl : (r.key.take (r.pos.depth + 1)).length = r.pos.depth + 1 := by rw [List.length_take, ht.klen]; omega
    have hpg : specPage (r.key.take (r.pos.depth + 1)) = sextetsOf (r.key.take D) :=
      specPage_take_in_page r.key D r.pos.depth hD6 hD1 hD2 (by rw [ht.klen]; exact hlt)
    rw [hOK.kind]
    by_cases hleaf : W.H.kind (specNode W.H W.view (r.key.take (r.pos.depth + 1))) = .leaf
    · -- a leaf: the leaf fetch
      have hbeq : (W.H.kind (specNode W.H W.view (r.key.take (r.pos.depth + 1))) == Kind.leaf) = true := by simp [hleaf]
      rw [if_pos hbeq]
      obtain ⟨k0, v0, hu⟩ := kind_leaf_under hOK.sound (view_canon W hOK) _ (by rw [hdl]; omega) hleaf
      have hu' : under (List.take ({ r with pos := pos', sibs := (if W.env.record then r.sibs ++ [specNode W.H W.view (r.key.take r.pos.depth ++ [!b])] else r.sibs) } : Req Node VH V).pos.depth r.key) W.view = [(k0, v0)] := by
        simp only [hdep]; exact hu
      obtain ⟨r', e1, e2, e3, e4, e5, e6, e7⟩ := startLeafFetch_ok W hOK ps _ k0 v0 ht1 hu'
      rw [e1]
      refine ⟨.returned r', rfl, WalkOK.returned e2 e6 (trail_congr ht1 e2 e3 e5) ?_ e7 (by rw [e3]; simp only [hdep]; omega)⟩
      unfold PidOK
      rw [e4, e3, e2]
      simp only [hdep]
      rw [if_neg (by omega), hpid, hpg]
    · have hbeq : (W.H.kind (specNode W.H W.view (r.key.take (r.pos.depth + 1))) == Kind.leaf) = false := by simp [hleaf]
      rw [hbeq]
      simp only [Bool.false_eq_true, if_false]
      by_cases hterm : W.H.kind (specNode W.H W.view (r.key.take (r.pos.depth + 1))) = .terminator
      · -- a terminator: completed
        have hbeq2 : (W.H.kind (specNode W.H W.view (r.key.take (r.pos.depth + 1))) == Kind.terminator) = true := by simp [hterm]
        rw [if_pos hbeq2]
        have hu := kind_term_under hOK.sound (view_canon W hOK) _ (by rw [hdl]; omega) hterm
        refine ⟨_, rfl, WalkOK.returned rfl rfl ?_ ?_ ?_ (by simp only [hdep]; omega)⟩
        · exact trail_congr ht1 rfl rfl rfl
        · unfold PidOK
          simp only [hdep]
          rw [if_neg (by omega), hpid, hpg]
        · have := completed_term_ok W ps _ ht1 (by simp only [hdep]; exact hu)
          exact this
      · -- internal: on with the next bit
        have hbeq2 : (W.H.kind (specNode W.H W.view (r.key.take (r.pos.depth + 1))) == Kind.terminator) = false := by simp [hterm]
        rw [hbeq2]
        simp only [Bool.false_eq_true, if_false]
        obtain ⟨h2', _⟩ := kind_internal_under hOK.sound (view_canon W hOK) _ (by rw [hdl]; omega) hleaf hterm
        have := ih { r with pos := pos', sibs := (if W.env.record then r.sibs ++ [specNode W.H W.view (r.key.take r.pos.depth ++ [!b])] else r.sibs) }
          rfl ht1 hst hpid (by simp only [hdep]; omega) (by simp only [hdep]; exact hbs) (by simp only [hdep]; omega)
          (by simp only [hdep]; exact h2')
        exact this

end Nomt.Seek
