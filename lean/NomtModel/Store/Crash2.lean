import NomtModel.Store.Crash
namespace NomtDisk
variable {Content MetaRec WalRec LogRec TreeAbs : Type}
variable (P : Params Content MetaRec WalRec TreeAbs)

/-! ## Phases B and C: the meta write and everything after it -/
section phaseC
variable (dA : Disk Content MetaRec WalRec LogRec) (m1 : MetaRec) (w1 : WalRec)

/-- the new abstract state -/
def absNew : TreeAbs × (Nat → Content) :=
  (P.absTree m1 dA.pages,
   fun b => match lookupD (P.walDiffs w1) b with | some c => c | none => dA.pages File.fHt b)

def FullHt (d : Disk Content MetaRec WalRec LogRec) : Prop :=
  ∀ b c, lookupD (P.walDiffs w1) b = some c → d.pages File.fHt b = c

def GoodC (d : Disk Content MetaRec WalRec LogRec) : Prop :=
  d.mt = m1 ∧
  (∀ f pn, f ≠ File.fHt → d.pages f pn = dA.pages f pn) ∧
  (∀ b, d.pages File.fHt b = dA.pages File.fHt b ∨ lookupD (P.walDiffs w1) b = some (d.pages File.fHt b)) ∧
  (d.wal = some w1 ∨ (d.wal = none ∧ FullHt P w1 d))

theorem goodC_abs (hseq : P.walSeqn w1 = P.seqn m1) (d : Disk Content MetaRec WalRec LogRec)
    (hg : GoodC P dA m1 w1 d) : absOf P d = absNew P dA m1 w1 := by
  obtain ⟨hm, hp, hh, hw⟩ := hg
  have htree : P.absTree d.mt d.pages = P.absTree m1 dA.pages := by
    rw [hm]
    apply P.frame
    intro f pn hr
    apply hp
    rcases P.reach_tree _ _ _ hr with h | h <;> rw [h] <;> simp
  have hht : htView P d = fun b => match lookupD (P.walDiffs w1) b with
      | some c => c | none => dA.pages File.fHt b := by
    funext b
    rcases hw with hw | ⟨hw, hfull⟩
    · simp only [htView, hw, hm, hseq, if_true]
      cases hl : lookupD (P.walDiffs w1) b with
      | some c => rfl
      | none =>
        rcases hh b with h | h
        · exact h
        · rw [hl] at h; cases h
    · simp only [htView, hw]
      cases hl : lookupD (P.walDiffs w1) b with
      | some c => exact hfull b c hl
      | none =>
        rcases hh b with h | h
        · exact h
        · rw [hl] at h; cases h
  simp [absOf, absNew, htree, hht]

/-- effects allowed after the meta fsync -/
def AllowedPost : Eff Content MetaRec WalRec LogRec → Prop
  | .page f b c => f = File.fHt ∧ lookupD (P.walDiffs w1) b = some c
  | .walSet none => True
  | _ => False

def IsTrunc : Eff Content MetaRec WalRec LogRec → Prop
  | .walSet none => True
  | _ => False

theorem fullHt_applyEff (d : Disk Content MetaRec WalRec LogRec) (e : Eff Content MetaRec WalRec LogRec)
    (ha : AllowedPost P w1 e) (hf : FullHt P w1 d) : FullHt P w1 (applyEff d e) := by
  cases e with
  | page f b c =>
    obtain ⟨rfl, hl⟩ := ha
    intro b' c' hl'
    simp only [applyEff]
    by_cases heq : b' = b
    · subst heq; rw [hl] at hl'; injection hl' with hl'; simp [hl']
    · simp [heq]; exact hf b' c' hl'
  | walSet w => cases w <;> first | exact hf | exact absurd ha (by simp [AllowedPost])
  | setMeta m => exact absurd ha (by simp [AllowedPost])
  | logSet l => exact absurd ha (by simp [AllowedPost])

theorem goodC_applyEff (d : Disk Content MetaRec WalRec LogRec) (e : Eff Content MetaRec WalRec LogRec)
    (hg : GoodC P dA m1 w1 d) (ha : AllowedPost P w1 e) (ht : IsTrunc e → FullHt P w1 d) :
    GoodC P dA m1 w1 (applyEff d e) := by
  obtain ⟨hm, hp, hh, hw⟩ := hg
  cases e with
  | page f b c =>
    obtain ⟨rfl, hl⟩ := ha
    refine ⟨hm, ?_, ?_, ?_⟩
    · intro f' pn' hne
      simp only [applyEff]
      have : ¬ (f' = File.fHt ∧ pn' = b) := fun h => hne h.1
      rw [if_neg this]; exact hp f' pn' hne
    · intro b'
      simp only [applyEff]
      by_cases heq : b' = b
      · subst heq; simp [hl]
      · simp [heq]; exact hh b'
    · rcases hw with hw | ⟨hw, hfull⟩
      · exact Or.inl hw
      · exact Or.inr ⟨hw, fullHt_applyEff P w1 d _ ⟨rfl, hl⟩ hfull⟩
  | walSet w =>
    cases w with
    | none => exact ⟨hm, hp, hh, Or.inr ⟨rfl, ht trivial⟩⟩
    | some w => exact absurd ha (by simp [AllowedPost])
  | setMeta m => exact absurd ha (by simp [AllowedPost])
  | logSet l => exact absurd ha (by simp [AllowedPost])

theorem goodC_applyEffs (es : List (Eff Content MetaRec WalRec LogRec)) :
    ∀ (d : Disk Content MetaRec WalRec LogRec), GoodC P dA m1 w1 d →
      (∀ e ∈ es, AllowedPost P w1 e) → ((∃ e ∈ es, IsTrunc e) → FullHt P w1 d) →
      GoodC P dA m1 w1 (applyEffs d es) ∧ (FullHt P w1 d → FullHt P w1 (applyEffs d es)) := by
  induction es with
  | nil => intro d hg _ _; exact ⟨hg, id⟩
  | cons e es ih =>
    intro d hg ha ht
    simp only [applyEffs, List.foldl_cons]
    have hae := ha e (by simp)
    have hg' := goodC_applyEff P dA m1 w1 d e hg hae (fun hte => ht ⟨e, by simp, hte⟩)
    have hfull' : FullHt P w1 d → FullHt P w1 (applyEff d e) := fullHt_applyEff P w1 d e hae
    have := ih (applyEff d e) hg' (fun e' he' => ha e' (by simp [he']))
      (fun ⟨e', he', hte'⟩ => hfull' (ht ⟨e', by simp [he'], hte'⟩))
    exact ⟨this.1, fun hf => this.2 (hfull' hf)⟩

/-- execution invariant of phase C -/
def InvC (s : Exec Content MetaRec WalRec LogRec) : Prop :=
  GoodC P dA m1 w1 s.dur ∧ (∀ e ∈ s.vol, AllowedPost P w1 e) ∧ ((∃ e ∈ s.vol, IsTrunc e) → FullHt P w1 s.dur)

/-- acceptance of post-meta events: hash-table writes must replay the WAL; the WAL may be
    truncated only once every diff is durably in the table -/
def EvPostOK (s : Exec Content MetaRec WalRec LogRec) : Ev Content MetaRec WalRec LogRec → Prop
  | .eff (.page f b c) => f = File.fHt ∧ lookupD (P.walDiffs w1) b = some c
  | .eff (.walSet none) => FullHt P w1 s.dur
  | .eff _ => False
  | .fsync _ => True

def PostOK : Exec Content MetaRec WalRec LogRec → List (Ev Content MetaRec WalRec LogRec) → Prop
  | _, [] => True
  | s, ev :: rest => EvPostOK P w1 s ev ∧ PostOK (step s ev) rest

theorem invC_step (s : Exec Content MetaRec WalRec LogRec) (ev : Ev Content MetaRec WalRec LogRec)
    (hi : InvC P dA m1 w1 s) (hev : EvPostOK P w1 s ev) : InvC P dA m1 w1 (step s ev) := by
  obtain ⟨hg, hv, ht⟩ := hi
  cases ev with
  | eff e =>
    cases e with
    | page f b c =>
      refine ⟨hg, ?_, ?_⟩
      · intro e' he'
        simp only [step, List.mem_append, List.mem_singleton] at he'
        rcases he' with he' | rfl
        · exact hv e' he'
        · exact hev
      · rintro ⟨e', he', hte'⟩
        simp only [step, List.mem_append, List.mem_singleton] at he'
        rcases he' with he' | rfl
        · exact ht ⟨e', he', hte'⟩
        · cases hte'
    | walSet w =>
      cases w with
      | none =>
        refine ⟨hg, ?_, fun _ => hev⟩
        intro e' he'
        simp only [step, List.mem_append, List.mem_singleton] at he'
        rcases he' with he' | rfl
        · exact hv e' he'
        · trivial
      | some w => exact absurd hev (by simp [EvPostOK])
    | setMeta m => exact absurd hev (by simp [EvPostOK])
    | logSet l => exact absurd hev (by simp [EvPostOK])
  | fsync f =>
    have hsub : ∀ e ∈ s.vol.filter (fun e => decide (e.file = f)), e ∈ s.vol :=
      fun e he => (List.mem_filter.mp he).1
    have h := goodC_applyEffs P dA m1 w1 (s.vol.filter (fun e => decide (e.file = f))) s.dur hg
      (fun e he => hv e (hsub e he)) (fun ⟨e, he, hte⟩ => ht ⟨e, hsub e he, hte⟩)
    refine ⟨h.1, ?_, ?_⟩
    · intro e he; exact hv e (List.mem_filter.mp he).1
    · rintro ⟨e, he, hte⟩
      exact h.2 (ht ⟨e, (List.mem_filter.mp he).1, hte⟩)

theorem invC_run (tr : List (Ev Content MetaRec WalRec LogRec)) :
    ∀ (s : Exec Content MetaRec WalRec LogRec), InvC P dA m1 w1 s → PostOK P w1 s tr →
      InvC P dA m1 w1 (run s tr) := by
  induction tr with
  | nil => intro s hi _; exact hi
  | cons ev tr ih =>
    intro s hi hok
    simp only [run, List.foldl_cons]
    exact ih _ (invC_step P dA m1 w1 s ev hi hok.1) hok.2

/-- **Phase C**: every crash image after the meta fsync abstracts to the new state -/
theorem phaseC_images (hseq : P.walSeqn w1 = P.seqn m1)
    (s : Exec Content MetaRec WalRec LogRec) (hi : InvC P dA m1 w1 s)
    (img : Disk Content MetaRec WalRec LogRec) (himg : IsImage s img) :
    absOf P img = absNew P dA m1 w1 := by
  obtain ⟨sub, hsub, rfl⟩ := himg
  apply goodC_abs P dA m1 w1 hseq
  exact (goodC_applyEffs P dA m1 w1 sub s.dur hi.1 (fun e he => hi.2.1 e (hsub.subset he))
    (fun ⟨e, he, hte⟩ => hi.2.2 ⟨e, hsub.subset he, hte⟩)).1

theorem PostOK_prefix : ∀ (q r : List (Ev Content MetaRec WalRec LogRec)) (s : Exec Content MetaRec WalRec LogRec),
    PostOK P w1 s (q ++ r) → PostOK P w1 s q := by
  intro q
  induction q with
  | nil => intro r s _; trivial
  | cons ev q ih => intro r s h; exact ⟨h.1, ih r _ h.2⟩

end phaseC
end NomtDisk
