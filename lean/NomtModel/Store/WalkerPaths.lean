import NomtModel.Store.WalkerTree
import NomtModel.Core.BitsLemmas
/-!
# Order facts about bit paths (`LeftOf`, prefixes, `sharedBits`) for the walker proofs
-/
namespace Nomt.Walker
open Nomt Nomt.TriePos

theorem sharedBits_append (p a b : Path) : sharedBits (p ++ a) (p ++ b) = p.length + sharedBits a b := by
  induction p with
  | nil => simp
  | cons x xs ih => simp [sharedBits, ih]; omega

theorem sharedBits_leftOf (p s r : Path) : sharedBits (p ++ false :: s) (p ++ true :: r) = p.length := by
  rw [sharedBits_append]; simp [sharedBits]

/-- two paths that branch apart -/
def Diverge (q u : Path) : Prop := LeftOf q u ∨ LeftOf u q

theorem leftOf_not_prefix {q c : Path} (h : LeftOf q c) : ¬ q <+: c ∧ ¬ c <+: q := by
  obtain ⟨p, r, s, rfl, rfl⟩ := h
  constructor
  · intro ⟨t, ht⟩
    have := congrArg (fun l => l.getD p.length true) ht
    simp [List.getD, List.getElem?_append_right] at this
  · intro ⟨t, ht⟩
    have := congrArg (fun l => l.getD p.length true) ht
    simp [List.getD, List.getElem?_append_right] at this

theorem diverge_not_comparable {q u : Path} (h : Diverge q u) : ¬ q <+: u ∧ ¬ u <+: q := by
  rcases h with h | h
  · exact leftOf_not_prefix h
  · exact (leftOf_not_prefix h).symm

theorem leftOf_extend_left {q c q' : Path} (h : LeftOf q c) (hq : q <+: q') : LeftOf q' c := by
  obtain ⟨p, r, s, rfl, rfl⟩ := h
  obtain ⟨t, rfl⟩ := hq
  exact ⟨p, r ++ t, s, by simp, rfl⟩

theorem leftOf_extend_right {q c c' : Path} (h : LeftOf q c) (hc : c <+: c') : LeftOf q c' := by
  obtain ⟨p, r, s, rfl, rfl⟩ := h
  obtain ⟨t, rfl⟩ := hc
  exact ⟨p, r, s ++ t, rfl, by simp⟩

theorem diverge_extend {q u q' : Path} (h : Diverge q u) (hq : q <+: q') : Diverge q' u := by
  rcases h with h | h
  · exact Or.inl (leftOf_extend_left h hq)
  · exact Or.inr (leftOf_extend_right h hq)

theorem diverge_symm {q u : Path} (h : Diverge q u) : Diverge u q := h.symm

/-- the two prefixes of one path are comparable -/
theorem prefix_comparable {x y q : Path} (hx : x <+: q) (hy : y <+: q) : x <+: y ∨ y <+: x :=
  List.prefix_or_prefix_of_prefix hx hy

/-- decomposition of a path along a prefix of given length of another one -/
theorem take_prefix_of_le {x c : Path} (h : x <+: c) (n : Nat) (hn : x.length ≤ n) : x <+: c.take n := by
  obtain ⟨t, rfl⟩ := h
  rw [List.take_append_of_le_length' hn]
  exact List.prefix_append _ _
where
  List.take_append_of_le_length' {a b : Path} {n : Nat} (h : a.length ≤ n) :
      (a ++ b).take n = a ++ b.take (n - a.length) := by
    rw [List.take_append]
    rw [List.take_of_length_le h]

/-- if `c` branches left of `t` at `p`, any path branching right of `t` later branches right of `c` no deeper than `p` -/
theorem leftOf_trans_depth (p s r t'' : Path) (h : LeftOf (p ++ true :: r) t'') :
    ∃ p0 s0 r0, p0.length ≤ p.length ∧ p ++ false :: s = p0 ++ false :: s0 ∧ t'' = p0 ++ true :: r0 := by
  obtain ⟨p', r', s', h1, h2⟩ := h
  -- compare `p'` with `p`
  by_cases hlt : p'.length < p.length
  · -- the later branch point lies above `p`
    have hpp : (p' ++ [false]) <+: p := by
      have e : (p ++ true :: r).take (p'.length + 1) = p.take (p'.length + 1) := by
        rw [List.take_append_of_le_length (by omega)]
      have e2 : (p' ++ false :: r').take (p'.length + 1) = p' ++ [false] := by
        have : p' ++ false :: r' = (p' ++ [false]) ++ r' := by simp
        rw [this, List.take_append_of_le_length (by simp)]
        exact List.take_of_length_le (by simp)
      rw [h1, e2] at e
      rw [e]; exact List.take_prefix _ _
    obtain ⟨u, hu⟩ := hpp
    refine ⟨p', u ++ false :: s, s', by omega, ?_, h2⟩
    rw [← hu]; simp
  · -- the later branch point lies at or below `p`: then `t''` continues `p ++ [true]`
    have hge : p.length ≤ p'.length := by omega
    have hne : p'.length ≠ p.length := by
      intro e
      have := congrArg (fun l => l.getD p.length true) h1
      simp only [List.getD, List.getElem?_append_right (Nat.le_refl _), Nat.sub_self, List.getElem?_cons_zero,
        Option.getD_some] at this
      rw [← e] at this
      simp [List.getElem?_append_right] at this
    have hpp : (p ++ [true]) <+: p' := by
      have e : (p ++ true :: r).take (p.length + 1) = p ++ [true] := by
        have : p ++ true :: r = (p ++ [true]) ++ r := by simp
        rw [this, List.take_append_of_le_length (by simp)]
        exact List.take_of_length_le (by simp)
      have e2 : (p' ++ false :: r').take (p.length + 1) = p'.take (p.length + 1) := by
        rw [List.take_append_of_le_length (by omega)]
      rw [h1, e2] at e
      rw [← e]; exact List.take_prefix _ _
    obtain ⟨u, hu⟩ := hpp
    refine ⟨p, s, u ++ true :: s', Nat.le_refl _, rfl, ?_⟩
    rw [h2, ← hu]; simp

end Nomt.Walker

namespace Nomt.Walker
open Nomt Nomt.TriePos

/-- two decompositions of one path: the branch points are nested or equal -/
theorem split_cases (p y : Path) (a b : Bool) (s w : Path) (h : p ++ a :: s = y ++ b :: w) :
    (y ++ [b]) <+: p ∨ (y = p ∧ a = b ∧ s = w) ∨ (p ++ [a]) <+: y := by
  rcases List.append_eq_append_iff.mp h with ⟨a', h1, h2⟩ | ⟨c', h1, h2⟩
  · cases a' with
    | nil =>
      simp only [List.append_nil, List.nil_append, List.cons.injEq] at h1 h2
      exact Or.inr (Or.inl ⟨h1, h2.1, h2.2⟩)
    | cons x xs =>
      simp only [List.cons_append, List.cons.injEq] at h2
      right; right
      rw [h1, h2.1]
      exact ⟨xs, by simp⟩
  · cases c' with
    | nil =>
      simp only [List.append_nil, List.nil_append, List.cons.injEq] at h1 h2
      exact Or.inr (Or.inl ⟨h1.symm, h2.1.symm, h2.2.symm⟩)
    | cons x xs =>
      simp only [List.cons_append, List.cons.injEq] at h2
      left
      rw [h1, h2.1]
      exact ⟨xs, by simp⟩

/-- `c` continues with `0` after `x`, `q` with `1` -/
theorem leftOf_of_branch {x c q : Path} (hc : (x ++ [false]) <+: c) (hq : (x ++ [true]) <+: q) : LeftOf c q := by
  obtain ⟨s, rfl⟩ := hc
  obtain ⟨r, rfl⟩ := hq
  exact ⟨x, s, r, by simp, by simp⟩

theorem leftOf_snoc (x : Path) : LeftOf (x ++ [false]) (x ++ [true]) := ⟨x, [], [], rfl, rfl⟩

/-- anything that lies under or left of `c` branches away from a right sibling `x ++ [true]` on the path of `c` -/
theorem leftOf_rightSib_of_under {x c u : Path} (hx : (x ++ [false]) <+: c) (hu : c <+: u) : LeftOf u (x ++ [true]) :=
  leftOf_of_branch (List.IsPrefix.trans hx hu) (List.prefix_refl _)

theorem diverge_rightSib_of_left {x c u : Path} (hx : (x ++ [false]) <+: c) (hu : LeftOf u c) :
    Diverge u (x ++ [true]) := by
  obtain ⟨y, r, s, rfl, hc⟩ := hu
  obtain ⟨w, hw⟩ := hx
  -- c = x ++ false :: w = y ++ true :: s
  have h : x ++ false :: w = y ++ true :: s := by rw [← hc, ← hw]; simp
  rcases split_cases x y false true w s h with h1 | ⟨_, h2, _⟩ | h3
  · -- y ++ [true] <+: x : u = y·0.., R = y·1..
    left
    exact leftOf_of_branch (x := y) ⟨r, by simp⟩ (List.IsPrefix.trans h1 (List.prefix_append _ _))
  · cases h2
  · -- x ++ [false] <+: y : u = x·0.., R = x·1
    left
    exact leftOf_of_branch (List.IsPrefix.trans h3 (List.prefix_append _ _)) (List.prefix_refl _)

/-- a path that branches right of `c` no deeper than `n` branches right of every right... of the prefix `c.take m`, `m > n` -/
theorem leftOf_take {c t : Path} (p s r : Path) (hc : c = p ++ false :: s) (ht : t = p ++ true :: r) (m : Nat)
    (hm : p.length < m) : LeftOf (c.take m) t := by
  subst hc ht
  have : (p ++ [false]) <+: (p ++ false :: s).take m := by
    apply take_prefix_of_le
    · exact ⟨s, by simp⟩
    · simp; omega
  exact leftOf_of_branch this ⟨r, by simp⟩

/-- what lies under or left of `c` lies under or left of every prefix of `c` -/
theorem under_or_left_take {c u : Path} (h : c <+: u ∨ LeftOf u c) (m : Nat) :
    (c.take m) <+: u ∨ LeftOf u (c.take m) := by
  rcases h with h | h
  · exact Or.inl (List.IsPrefix.trans (List.take_prefix _ _) h)
  · obtain ⟨y, r, s, rfl, rfl⟩ := h
    by_cases hm : y.length < m
    · right
      have : (y ++ [true]) <+: (y ++ true :: s).take m := by
        apply take_prefix_of_le
        · exact ⟨s, by simp⟩
        · simp; omega
      exact leftOf_of_branch ⟨r, by simp⟩ this
    · left
      have : (y ++ true :: s).take m = y.take m := by
        rw [List.take_append_of_le_length (by omega)]
      rw [this]
      exact List.IsPrefix.trans (List.take_prefix _ _) (List.prefix_append _ _)

end Nomt.Walker
