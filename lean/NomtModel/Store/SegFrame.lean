import NomtModel.Store.SegModel
/-!
# Record framing of a segment file (`seglog/segment_rw.rs`) at byte level

`encRec` is what `SegmentFileWriter::{write_header, write_payload}` append for one record when the file size is a
multiple of 4096 (it always is: a new file is empty, `truncate_head_segment` cuts at a record end, every record
ends aligned): `payload_length: u32 LE ‖ record_id: u64 LE ‖ payload ‖ zero padding to the next multiple of 4096`.
`bytesOf` is the content of a modelled file.  `parse` mirrors `SegmentFileReader` (`read_header`, `skip_payload` /
`read_payload`, `seek_next`) on arbitrary bytes and `Store/SegFrameLemmas.lean` proves `parse (bytesOf f)` = the view
of `f` the model of `open` works with.
-/
namespace Nomt.Seg

/-- `n` as `k` little-endian bytes (truncating, as `as u32`) -/
def leBytes : Nat → Nat → List UInt8
  | 0, _ => []
  | k + 1, n => UInt8.ofNat (n % 256) :: leBytes k (n / 256)

def leVal : List UInt8 → Nat
  | [] => 0
  | b :: bs => b.toNat + 256 * leVal bs

def encHeader (r : Rec) : List UInt8 := leBytes 4 r.payload.length ++ leBytes 8 r.id

def padLen (r : Rec) : Nat := r.size - (HDR + r.payload.length)

def encRec (r : Rec) : List UInt8 := encHeader r ++ r.payload ++ List.replicate (padLen r) 0

def tornBytes : Option (Rec × Nat) → List UInt8
  | none => []
  | some (r, k) => (encRec r).take k

def bytesOf (f : SegFile) : List UInt8 := f.recs.flatMap encRec ++ tornBytes f.torn

/-! ## The reader -/

/-- what the reader finds at a record position -/
inductive Frame where
  /-- header and payload present (the padding may be short) -/
  | full (r : Rec)
  /-- header present, payload short: `skip_payload` works, `read_payload` fails -/
  | short (id len : Nat) (avail : List UInt8)
deriving DecidableEq, Repr

/-- how the sequence of frames ends -/
inductive FrameEnd where
  | eof                 -- `next_pos >= file_size`
  | shortHeader         -- 1 … 11 bytes left: `read_exact(&mut header)` fails
  | tooLarge (len : Nat) -- declared payload length > `MAX_RECORD_PAYLOAD_SIZE`
deriving DecidableEq, Repr

/-- `SegmentFileReader` on the bytes `bs` of a file that start at a record position: `fuel` bounds the number of
records (every record consumes at least 4096 bytes or ends the file) -/
def parse : Nat → List UInt8 → List Frame × FrameEnd
  | 0, _ => ([], .eof)
  | fuel + 1, bs =>
    if bs.length = 0 then ([], .eof)
    else if bs.length < HDR then ([], .shortHeader)
    else
      let len := leVal (bs.take 4)
      let id := leVal ((bs.drop 4).take 8)
      if MAXPAY < len then ([], .tooLarge len)
      else
        let body := bs.drop HDR
        let next := roundUp (HDR + len)
        let fr := if len ≤ body.length then Frame.full ⟨id, body.take len⟩ else Frame.short id len body
        if bs.length ≤ next then ([fr], .eof)
        else
          let p := parse fuel (bs.drop next)
          (fr :: p.1, p.2)

def parseFile (bs : List UInt8) : List Frame × FrameEnd := parse (bs.length / ALIGN + 1) bs

/-- the view of a modelled file: complete records, then the torn tail as the reader classifies it -/
def framesOf (f : SegFile) : List Frame × FrameEnd :=
  match f.torn with
  | none => (f.recs.map Frame.full, .eof)
  | some (r, k) =>
    if k = 0 then (f.recs.map Frame.full, .eof)
    else if k < HDR then (f.recs.map Frame.full, .shortHeader)
    else if HDR + r.payload.length ≤ k then (f.recs.map Frame.full ++ [.full r], .eof)
    else (f.recs.map Frame.full ++ [.short r.id r.payload.length (r.payload.take (k - HDR))], .eof)

/-! ## FNV-1a (64 bit) of a file, for the directory listings of the differential run -/

def fnvPrime : UInt64 := 0x100000001b3
def fnvInit : UInt64 := 0xcbf29ce484222325

def fnvBytes (h : UInt64) (l : List UInt8) : UInt64 := l.foldl (fun h b => (h ^^^ b.toUInt64) * fnvPrime) h

def powU64 (p : UInt64) : Nat → UInt64
  | 0 => 1
  | n + 1 => p * powU64 p n

/-- FNV-1a over `encRec r` without materialising the padding -/
def fnvRec (h : UInt64) (r : Rec) : UInt64 :=
  fnvBytes (fnvBytes h (encHeader r)) r.payload * powU64 fnvPrime (padLen r)

def fnvFile (f : SegFile) : UInt64 :=
  fnvBytes (f.recs.foldl fnvRec fnvInit) (tornBytes f.torn)

end Nomt.Seg
