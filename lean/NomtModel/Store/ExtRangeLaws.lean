import NomtModel.Store.ExtRangeRun
/-!
The laws a node updater has to satisfy for the CONTENT theorems of the multi-worker stage (`UpdLaws`), and the parts of
the argument that are proved from them for every schedule.

Why laws are needed at all: the protocol theorems (`T13_protocol_invariant_every_schedule`, `T13_no_deadlock`,
`T16_ranges_adjacent_every_schedule`) hold for ANY updater; that the produced level holds the right content does not — an
updater that forgets an entry, emits separators out of order, or answers `NeedsMerge` with a key that is not its cutoff breaks
it.  The one-worker theorems (`T1_leaf_update_is_kvApply`, `T1_branch_update_is_kvApply`) establish these facts for the two
real updaters along ONE worker's run over a whole level, but not in the form of per-call laws.

`answer_stable` is the core of schedule independence: an answer computed from a tracker is not changed by entries appended
behind the place where the scan stopped — so polling later (when the worker has produced more nodes, all with larger
separators: `UpdLaws.digest_keys`) gives the same answer as polling earlier.
-/
namespace Nomt.ExtRange

/-- ascending keys -/
def KeysAsc (l : List Nat) : Prop := l.Pairwise (· < ·)

/-- The laws.  `E` = what a node holds (key with payload), `items nd` the entries of a node, `cont st` the entries the updater
holds (its pending ops applied to what is left of its base), `lb st` a lower bound for the separator of the next node it
will emit, `key e` the key of an entry, `put c` the entry a change writes (`none` = delete). -/
structure UpdLaws {σ N C E : Type} (U : Upd σ N C) (items : N → List E) (cont : σ → List E) (key : E → Nat)
    (put : Nat → C → Option E) (cutoffOf : σ → Option Nat) (lb : σ → Nat) : Prop where
  /-- a fresh updater holds nothing and has no cutoff -/
  init_cont : cont U.init = [] ∧ cutoffOf U.init = none
  /-- `is_in_scope(key) = cutoff.map_or(true, |c| key < c)` -/
  scope : ∀ st k, U.inScope st k = (match cutoffOf st with | none => true | some c => decide (k < c))
  /-- `reset_base` appends the new base to what the updater still holds (its old base is used up after a `digest`) -/
  reset_cont : ∀ st s nd c, cont (U.resetBase st (some (s, nd)) c) = cont st ++ items nd ∧
    cutoffOf (U.resetBase st (some (s, nd)) c) = c
  /-- `remove_cutoff` -/
  rmcut : ∀ st, cont (U.removeCutoff st) = cont st ∧ cutoffOf (U.removeCutoff st) = none
  /-- `ingest` of an in-scope key above everything ingested before: the entry with that key is replaced / removed / added -/
  ingest_cont : ∀ st k c st', U.ingest st k c = some st' →
    cont st' = (cont st).filter (fun e => key e != k) ++ (put k c).toList ∧ cutoffOf st' = cutoffOf st
  /-- `digest` emits a prefix of what the updater holds, in order; `Finished` ⇒ nothing is left; `NeedsMerge(c)` ⇒ `c` is the
  cutoff -/
  digest_cont : ∀ st st' outs r, U.digest st = some (st', outs, r) →
    cont st = outs.flatMap (fun o => items o.2.1) ++ cont st' ∧ cutoffOf st' = cutoffOf st ∧
      (r = none → cont st' = []) ∧ (∀ c, r = some c → cutoffOf st = some c)
  /-- "tracker keys produced later are larger": the separators `digest` emits ascend, start at `lb st`, stay below the
  cutoff, and the next ones start above them -/
  digest_keys : ∀ st st' outs r, U.digest st = some (st', outs, r) →
    KeysAsc (outs.map (·.1)) ∧ (∀ o ∈ outs, lb st ≤ o.1 ∧ o.1 < lb st') ∧ lb st ≤ lb st' ∧
      (∀ o ∈ outs, ∀ c, cutoffOf st = some c → o.1 < c)
  /-- the other calls do not lower the bound -/
  lb_mono : (∀ st b c, lb st ≤ lb (U.resetBase st b c)) ∧ (∀ st, lb st ≤ lb (U.removeCutoff st)) ∧
    (∀ st k c st', U.ingest st k c = some st' → lb st ≤ lb st')

/-! ### an answer does not depend on what is appended behind the place where the scan stopped -/

theorem scan_append {N : Type} (ext : Inner N) : ∀ (inner : Inner N) (sep : Option Nat) (cnt : Nat),
    (∀ c s, scan sep cnt inner ≠ .fin c s) → scan sep cnt (inner ++ ext) = scan sep cnt inner
  | [], sep, cnt, h => absurd rfl (h cnt sep)
  | (key, e) :: t, sep, cnt, h => by
    simp only [List.cons_append, scan] at h ⊢
    by_cases h1 : gapBefore sep key = true
    · simp only [h1, if_true]
    · simp only [h1, if_false] at h ⊢
      by_cases h2 : e.inserted.isSome = true
      · simp only [h2, if_true]
      · simp only [h2, if_false] at h ⊢
        exact scan_append ext t e.next (cnt + 1) h

theorem scan_cnt_le {N : Type} : ∀ (inner : Inner N) (sep : Option Nat) (cnt : Nat),
    (∀ c k, scan sep cnt inner = .unch c k → c ≤ cnt + inner.length) ∧
    (∀ c nh, scan sep cnt inner = .next c nh → c + 1 ≤ cnt + inner.length)
  | [], sep, cnt => by simp [scan]
  | (key, e) :: t, sep, cnt => by
    simp only [scan, List.length_cons]
    by_cases h1 : gapBefore sep key = true
    · simp only [h1, if_true]
      exact ⟨fun c k h => (by cases h; omega), fun c nh h => (by cases h)⟩
    · simp only [h1, if_false]
      by_cases h2 : e.inserted.isSome = true
      · simp only [h2, if_true]
        exact ⟨fun c k h => (by cases h), fun c nh h => (by cases h; omega)⟩
      · simp only [h2, if_false]
        obtain ⟨h3, h4⟩ := scan_cnt_le t e.next (cnt + 1)
        exact ⟨fun c k h => (by have := h3 c k h; omega), fun c nh h => (by have := h4 c nh h; omega)⟩

/-- **answer stability**: if a request can be answered from the tracker `inner` before the worker has finished its
workload, then from any tracker `inner ++ ext` (the same entries followed by later ones) it is answered with the same
response, and the later entries stay with the responder — whether or not the workload is finished by then. -/
theorem answer_stable {N : Type} (inner ext : Inner N) (low high right : Option Nat) (fin : Bool) (resp : Resp N)
    (inner' : Inner N) (relink : Bool) (h : answer inner low high right false = some (resp, inner', relink)) :
    answer (inner ++ ext) low high right fin = some (resp, inner' ++ ext, relink) := by
  unfold answer at h ⊢
  have hnf : ∀ c s, scan low 0 inner ≠ .fin c s := by
    intro c s hs; rw [hs] at h; simp at h
  rw [scan_append ext inner low 0 hnf]
  obtain ⟨hc1, hc2⟩ := scan_cnt_le inner low 0
  cases hs : scan low 0 inner with
  | unch c k =>
    rw [hs] at h
    have := hc1 c k hs
    simp only [Option.some.injEq, Prod.mk.injEq] at h ⊢
    obtain ⟨h1, h2, h3⟩ := h
    subst h1 h2 h3
    refine ⟨?_, ?_, rfl⟩
    · rw [List.take_append_of_le_length (by omega)]
    · rw [List.drop_append_of_le_length (by omega)]
  | next c nh =>
    rw [hs] at h
    have := hc2 c nh hs
    simp only [Option.some.injEq, Prod.mk.injEq] at h ⊢
    obtain ⟨h1, h2, h3⟩ := h
    subst h1 h2 h3
    refine ⟨?_, ?_, rfl⟩
    · rw [List.take_append_of_le_length (by omega)]
    · rw [List.drop_append_of_le_length (by omega)]
  | fin c s => exact absurd hs (hnf c s)

end Nomt.ExtRange
