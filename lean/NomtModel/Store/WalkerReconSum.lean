import NomtModel.Store.WalkerCount
/-!
# The leaves counted in distinct pages are distinct keys

`pageCount S c` = the number of leaves of the trie of `S` in the page below the position `c` (a page boundary).  Over any
duplicate-free list of page prefixes below `q` that hold an internal node, the page counts add up to at most the number of
keys below `q` (`pageCount_sum_le`): no key is counted in two pages.
-/
namespace Nomt.Walker
open Nomt Nomt.TriePos

variable {VH : Type} [DecidableEq VH]

/-- the leaves in the page whose two top slots are the children of position `c` -/
def pageCount (S : List (Key × VH)) (c : Path) : Nat :=
  specCountIn S 6 (c ++ [false]) + specCountIn S 6 (c ++ [true])

/-- the page counts of the prefixes of `L` that extend `q` -/
def wsum (S : List (Key × VH)) (L : List Path) (q : Path) : Nat :=
  ((L.filter (fun c => q.isPrefixOf c)).map (pageCount S)).sum

theorem wsum_nil (S : List (Key × VH)) (q : Path) : wsum S [] q = 0 := rfl

theorem wsum_cons (S : List (Key × VH)) (c : Path) (L : List Path) (q : Path) :
    wsum S (c :: L) q = (if q.isPrefixOf c then pageCount S c else 0) + wsum S L q := by
  unfold wsum
  rw [List.filter_cons]
  split <;> simp

/-- a proper extension of `q` extends exactly one child of `q` -/
theorem isPrefixOf_split (q c : Path) :
    q.isPrefixOf c = (decide (c = q) || (q ++ [false]).isPrefixOf c || (q ++ [true]).isPrefixOf c) := by
  by_cases h : q <+: c
  · obtain ⟨t, rfl⟩ := h
    have hq : q.isPrefixOf (q ++ t) = true := List.isPrefixOf_iff_prefix.mpr (List.prefix_append _ _)
    rw [hq]
    cases t with
    | nil => simp
    | cons b rest =>
      have : (q ++ [b]).isPrefixOf (q ++ b :: rest) = true :=
        List.isPrefixOf_iff_prefix.mpr ⟨rest, by simp⟩
      cases b <;> simp [this]
  · have hq : q.isPrefixOf c = false := by
      cases hh : q.isPrefixOf c with
      | false => rfl
      | true => exact absurd (List.isPrefixOf_iff_prefix.mp hh) h
    rw [hq]
    have h0 : ∀ b : Bool, (q ++ [b]).isPrefixOf c = false := by
      intro b
      cases hh : (q ++ [b]).isPrefixOf c with
      | false => rfl
      | true =>
        exact absurd (List.IsPrefix.trans (List.prefix_append _ _) (List.isPrefixOf_iff_prefix.mp hh)) h
    have hne : c ≠ q := by intro e; apply h; rw [e]; exact List.prefix_refl _
    simp [h0, hne]

theorem not_both_children (q c : Path) (h0 : (q ++ [false]).isPrefixOf c = true) : (q ++ [true]).isPrefixOf c = false := by
  cases hh : (q ++ [true]).isPrefixOf c with
  | false => rfl
  | true =>
    obtain ⟨u, hu⟩ := List.isPrefixOf_iff_prefix.mp h0
    obtain ⟨v, hv⟩ := List.isPrefixOf_iff_prefix.mp hh
    rw [← hu] at hv
    simp only [List.append_assoc, List.cons_append, List.nil_append] at hv
    have := List.append_cancel_left hv
    simp at this

/-- the prefixes that extend `q`: `q` itself, those below its left child, those below its right child -/
theorem wsum_split (S : List (Key × VH)) : ∀ (L : List Path) (q : Path),
    wsum S L q = wsum S (L.filter (fun c => decide (c = q))) q + wsum S L (q ++ [false]) + wsum S L (q ++ [true]) := by
  intro L
  induction L with
  | nil => intro q; rfl
  | cons c L ih =>
    intro q
    have h2 : ∀ (x : Path) (b : Bool), (x ++ [b]).isPrefixOf x = false := by
      intro x b
      cases hh : (x ++ [b]).isPrefixOf x with
      | false => rfl
      | true =>
        exfalso
        have := (List.isPrefixOf_iff_prefix.mp hh).length_le
        simp at this
        omega
    by_cases hc : c = q
    · subst hc
      have h1 : c.isPrefixOf c = true := List.isPrefixOf_iff_prefix.mpr (List.prefix_refl _)
      have hfil : (c :: L).filter (fun x => decide (x = c)) = c :: L.filter (fun x => decide (x = c)) := by
        rw [List.filter_cons]; simp
      rw [hfil, wsum_cons S c L c, wsum_cons S c L (c ++ [false]), wsum_cons S c L (c ++ [true]), wsum_cons, ih c,
        h1, h2 c false, h2 c true]
      simp only [if_true, Bool.false_eq_true, if_false]
      omega
    · have hfil : (c :: L).filter (fun x => decide (x = q)) = L.filter (fun x => decide (x = q)) := by
        rw [List.filter_cons]; simp [hc]
      have hsplit := isPrefixOf_split q c
      simp only [hc, decide_false, Bool.false_or] at hsplit
      rw [hfil, wsum_cons S c L q, wsum_cons S c L (q ++ [false]), wsum_cons S c L (q ++ [true]), ih q, hsplit]
      cases h0 : (q ++ [false]).isPrefixOf c with
      | true =>
        have h1 := not_both_children q c h0
        rw [h1]
        simp only [Bool.true_or, if_true, Bool.false_eq_true, if_false]
        omega
      | false =>
        simp only [Bool.false_or, Bool.false_eq_true, if_false]
        omega

/-- a duplicate-free list holds `q` at most once -/
theorem wsum_self_le (S : List (Key × VH)) : ∀ (L : List Path) (q : Path), L.Nodup →
    wsum S (L.filter (fun c => decide (c = q))) q ≤ (if q ∈ L then pageCount S q else 0) := by
  intro L
  induction L with
  | nil => intro q _; simp [wsum]
  | cons c L ih =>
    intro q hnd
    obtain ⟨hnotin, hnd'⟩ := List.nodup_cons.mp hnd
    rw [List.filter_cons]
    by_cases hc : c = q
    · subst hc
      simp only [decide_true, if_true]
      rw [wsum_cons]
      have h1 : c.isPrefixOf c = true := List.isPrefixOf_iff_prefix.mpr (List.prefix_refl _)
      have := ih c hnd'
      rw [if_neg hnotin] at this
      simp only [h1, if_true, List.mem_cons, true_or]
      omega
    · rw [if_neg (by simpa using hc)]
      have := ih q hnd'
      have hmem : (q ∈ c :: L) ↔ q ∈ L := by
        simp only [List.mem_cons]
        constructor
        · rintro (h | h)
          · exact absurd h.symm hc
          · exact h
        · exact Or.inr
      by_cases hq : q ∈ L
      · rw [if_pos (hmem.mpr hq)]; rw [if_pos hq] at this; exact this
      · rw [if_neg (fun h => hq (hmem.mp h))]; rw [if_neg hq] at this; exact this

theorem specBelow_le (S : List (Key × VH)) (rem : Nat) (q : Path) (h : 1 ≤ rem) : specBelow S rem q ≤ (sub S q).length := by
  have := specCount_add_below S rem q h
  omega

theorem specBelow_zero_of_small (S : List (Key × VH)) (rem : Nat) (q : Path) (h : (sub S q).length < 2) :
    specBelow S (rem + 1) q = 0 := by
  simp only [specBelow]
  rw [if_neg (by omega)]

theorem sub_child_le (S : List (Key × VH)) (q : Path) (b : Bool) : (sub S (q ++ [b])).length ≤ (sub S q).length := by
  have := sub_length_split (S := S) q
  cases b <;> omega

/-- **no key is counted twice**: the page counts of a duplicate-free list of page prefixes (page boundaries that hold internal
nodes) that extend `q` add up to at most the keys below `q` that lie below the page of `q` -/
theorem wsum_le (S : List (Key × VH)) (L : List Path) (hnd : L.Nodup)
    (hL : ∀ c ∈ L, c.length % 6 = 0 ∧ 2 ≤ (sub S c).length ∧ c.length < 256) :
    ∀ (fuel : Nat) (q : Path), 256 - q.length = fuel → q ≠ [] → wsum S L q ≤ specBelow S (7 - specR q.length) q := by
  intro fuel
  induction fuel with
  | zero =>
    intro q hf _
    -- nothing in `L` extends a full-length position
    have : wsum S L q = 0 := by
      unfold wsum
      have : L.filter (fun c => q.isPrefixOf c) = [] := by
        rw [List.filter_eq_nil_iff]
        intro c hc hp
        have := (List.isPrefixOf_iff_prefix.mp hp).length_le
        have := (hL c hc).2.2
        omega
      rw [this]; rfl
    omega
  | succ fuel ih =>
    intro q hf hq
    have h1 : 1 ≤ q.length := List.length_pos_iff.mpr hq
    rw [wsum_split S L q]
    have hself := wsum_self_le S L q hnd
    have hlen : ∀ b : Bool, 256 - (q ++ [b]).length = fuel := by intro b; simp; omega
    have i0 := ih (q ++ [false]) (hlen false) (by simp)
    have i1 := ih (q ++ [true]) (hlen true) (by simp)
    by_cases h6 : q.length % 6 = 0
    · -- `q` is a page boundary: its children are the top slots of the next page
      have hr : specR q.length = 6 := by unfold specR; omega
      have hrc : ∀ b : Bool, specR (q ++ [b]).length = 1 := by intro b; simp; unfold specR; omega
      rw [hrc false] at i0
      rw [hrc true] at i1
      rw [hr]
      have e71 : 7 - 1 = 6 := rfl
      rw [e71] at i0 i1
      have hb : specBelow S (7 - 6) q = if 2 ≤ (sub S q).length then (sub S q).length else 0 := by
        show specBelow S 1 q = _
        simp [specBelow]
      rw [hb]
      have a0 := specCount_add_below S 6 (q ++ [false]) (by omega)
      have a1 := specCount_add_below S 6 (q ++ [true]) (by omega)
      have hs := sub_length_split (S := S) q
      by_cases hmem : q ∈ L
      · rw [if_pos hmem] at hself
        rw [if_pos (hL q hmem).2.1]
        unfold pageCount at hself
        omega
      · rw [if_neg hmem] at hself
        by_cases h2 : 2 ≤ (sub S q).length
        · rw [if_pos h2]; omega
        · rw [if_neg h2]
          have z0 : specBelow S 6 (q ++ [false]) = 0 :=
            specBelow_zero_of_small S 5 (q ++ [false]) (by have := sub_child_le S q false; omega)
          have z1 : specBelow S 6 (q ++ [true]) = 0 :=
            specBelow_zero_of_small S 5 (q ++ [true]) (by have := sub_child_le S q true; omega)
          omega
    · -- inside a page: `q` is not in `L`
      have hmem : q ∉ L := fun h => h6 (hL q h).1
      rw [if_neg hmem] at hself
      have hr : specR q.length ≤ 5 := by unfold specR; omega
      have hrc : ∀ b : Bool, specR (q ++ [b]).length = specR q.length + 1 := by
        intro b; simp; unfold specR; omega
      rw [hrc false] at i0
      rw [hrc true] at i1
      obtain ⟨k, hk⟩ : ∃ k, 7 - specR q.length = k + 2 := ⟨5 - specR q.length, by omega⟩
      have hk' : 7 - (specR q.length + 1) = k + 1 := by omega
      rw [hk'] at i0 i1
      rw [hk]
      simp only [specBelow]
      by_cases h2 : 2 ≤ (sub S q).length
      · rw [if_pos h2, if_pos (by omega)]
        simp only [specBelow] at i0 i1
        omega
      · rw [if_neg h2]
        have z0 := specBelow_zero_of_small S k (q ++ [false]) (by have := sub_child_le S q false; omega)
        have z1 := specBelow_zero_of_small S k (q ++ [true]) (by have := sub_child_le S q true; omega)
        omega

/-- the form used for the reconstruction of an elided sub-trie: all prefixes extend the page boundary `p` -/
theorem pageCount_sum_le (S : List (Key × VH)) (L : List Path) (hnd : L.Nodup) (p : Path) (hp : p ≠ [])
    (hp6 : p.length % 6 = 0) (hpl : p.length ≤ 256)
    (hL : ∀ c ∈ L, p <+: c ∧ c.length % 6 = 0 ∧ 2 ≤ (sub S c).length ∧ c.length < 256) :
    (L.map (pageCount S)).sum ≤ (sub S p).length := by
  have hall : L.filter (fun c => p.isPrefixOf c) = L := by
    rw [List.filter_eq_self]
    intro c hc
    exact List.isPrefixOf_iff_prefix.mpr (hL c hc).1
  have := wsum_le S L hnd (fun c hc => (hL c hc).2) (256 - p.length) p rfl hp
  unfold wsum at this
  rw [hall] at this
  have hr : specR p.length = 6 := by
    have : 1 ≤ p.length := List.length_pos_iff.mpr hp
    unfold specR; omega
  rw [hr] at this
  have hb : specBelow S (7 - 6) p ≤ (sub S p).length := by
    show specBelow S 1 p ≤ _
    simp only [specBelow]
    split <;> simp
  omega

end Nomt.Walker
