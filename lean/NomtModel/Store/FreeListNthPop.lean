import NomtModel.Store.FreeListShape
/-!
`CleanFreeList::get_nth_pop` and `len_and_fragmented` (`free_list.rs`), mirrored over the representation the
Rust code uses — `portions` with the head portion LAST and every item vector with the top of the stack LAST
(`toRust`) — with their index arithmetic (`fragmented` / non-fragmented cases, `n / MAX`, `n % MAX`,
`MAX - n - 1`), and the proof that on well-shaped lists they compute the `n`-th element and the length of the
pop sequence `itemsOf ps` — the specification `allocate` of `FreeListModel.lean` uses.
Rust indexing `v[i]` panics out of range; here it is `getD … 0`; the theorems are about `n < len`, where every
index that is evaluated is shown to be in range (it yields the element of the pop sequence).
-/
namespace Nomt.Store.FreeList

/-- the Rust-order representation of a list of portions -/
def toRust (ps : List Portion) : List Portion := (ps.map (fun p => (p.1, p.2.reverse))).reverse

/-- `portions[k].1[j]` -/
def atR (rp : List Portion) (k j : Nat) : Nat := ((rp.getD k (0, [])).2).getD j 0

/-- mirror of `len_and_fragmented` -/
def lenAndFragmented (cap : Nat) (rp : List Portion) : Nat × Bool :=
  match rp.getLast? with
  | none => (0, false)
  | some (_, p) =>
    if rp.length > 1 ∧ p.length = 1 then
      let pen := (rp.getD (rp.length - 2) (0, [])).2.length
      ((rp.length - 2) * cap + pen + 1, pen != cap)
    else ((rp.length - 1) * cap + p.length, false)

/-- mirror of `CleanFreeList::get_nth_pop` -/
def getNthPop (cap : Nat) (rp : List Portion) (fragmented : Bool) (n : Nat) : Nat :=
  let np := rp.length
  if fragmented then
    if n = 0 then atR rp (np - 1) 0
    else if n < cap then atR rp (np - 2) (cap - n - 1)
    else atR rp (np - (2 + n / cap)) (cap - n % cap - 1)
  else
    let hl := (rp.getD (np - 1) (0, [])).2.length
    if n < hl then atR rp (np - 1) (hl - n - 1)
    else atR rp (np - (2 + (n - hl) / cap)) (cap - (n - hl) % cap - 1)

/-! ### index translation -/

/-- `ps[k].2[j]` in the model's order -/
def atM (ps : List Portion) (k j : Nat) : Nat := ((ps.getD k (0, [])).2).getD j 0

theorem toRust_length (ps : List Portion) : (toRust ps).length = ps.length := by simp [toRust]

theorem getD_reverse_nat (l : List Nat) (j : Nat) (hj : j < l.length) :
    l.reverse.getD (l.length - 1 - j) 0 = l.getD j 0 := by
  simp only [List.getD_eq_getElem?_getD]
  rw [List.getElem?_reverse (by omega)]
  congr 2
  omega

theorem toRust_getD (ps : List Portion) (k : Nat) (hk : k < ps.length) :
    (toRust ps).getD (ps.length - 1 - k) (0, []) = ((ps.getD k (0, [])).1, (ps.getD k (0, [])).2.reverse) := by
  simp only [toRust, List.getD_eq_getElem?_getD]
  rw [List.getElem?_reverse (by simp; omega)]
  simp only [List.length_map]
  have : ps.length - 1 - (ps.length - 1 - k) = k := by omega
  rw [this, List.getElem?_map, List.getElem?_eq_getElem hk]
  rfl

/-- `portions[np-1-k].1[len-1-j]` in Rust order is `ps[k].2[j]` -/
theorem atR_toRust (ps : List Portion) (k j : Nat) (hk : k < ps.length)
    (hj : j < (ps.getD k (0, [])).2.length) :
    atR (toRust ps) (ps.length - 1 - k) ((ps.getD k (0, [])).2.length - 1 - j) = atM ps k j := by
  unfold atR atM
  rw [toRust_getD ps k hk]
  exact getD_reverse_nat _ j hj

theorem toRust_len_at (ps : List Portion) (k : Nat) (hk : k < ps.length) :
    ((toRust ps).getD (ps.length - 1 - k) (0, [])).2.length = (ps.getD k (0, [])).2.length := by
  rw [toRust_getD ps k hk]; simp

/-! ### the pop sequence, indexed -/

theorem getD_append_left' (a b : List Nat) (n : Nat) (h : n < a.length) : (a ++ b).getD n 0 = a.getD n 0 := by
  simp only [List.getD_eq_getElem?_getD, List.getElem?_append_left h]

theorem getD_append_right' (a b : List Nat) (n : Nat) (h : a.length ≤ n) :
    (a ++ b).getD n 0 = b.getD (n - a.length) 0 := by
  simp only [List.getD_eq_getElem?_getD, List.getElem?_append_right h]

theorem length_itemsOf_tailFull (cap : Nat) : ∀ ps : List Portion, TailFull cap ps →
    (itemsOf ps).length = cap * ps.length := by
  intro ps
  induction ps with
  | nil => intro _; simp [itemsOf]
  | cons p rest ih =>
    intro ht
    obtain ⟨h, items⟩ := p
    have := ht.head
    simp only at this
    rw [itemsOf_cons, List.length_append, ih ht.tail, List.length_cons, Nat.mul_add, Nat.mul_one, this]
    omega

theorem getD_itemsOf_tailFull {cap : Nat} (hc : 0 < cap) : ∀ (ps : List Portion) (n : Nat), TailFull cap ps →
    n < cap * ps.length →
    (itemsOf ps).getD n 0 = atM ps (n / cap) (n % cap) ∧ n / cap < ps.length ∧
      n % cap < (ps.getD (n / cap) (0, [])).2.length := by
  intro ps
  induction ps with
  | nil => intro n _ h; simp at h
  | cons p rest ih =>
    intro n ht hn
    obtain ⟨h, items⟩ := p
    have hfull : items.length = cap := ht.head
    rw [itemsOf_cons]
    by_cases hlt : n < cap
    · rw [Nat.div_eq_of_lt hlt, Nat.mod_eq_of_lt hlt, getD_append_left' _ _ _ (by omega)]
      simp [atM, hfull, hlt]
    · have hle : cap ≤ n := Nat.le_of_not_lt hlt
      simp only [List.length_cons, Nat.mul_add, Nat.mul_one] at hn
      obtain ⟨i1, i2, i3⟩ := ih (n - cap) ht.tail (by omega)
      rw [getD_append_right' _ _ _ (by omega), hfull, i1, Nat.div_eq_sub_div hc hle, Nat.mod_eq_sub_mod hle]
      refine ⟨?_, ?_, ?_⟩
      · simp [atM]
      · simp only [List.length_cons]; omega
      · simpa using i3

/-! ### the two cases of `get_nth_pop` -/

/-- non-fragmented case: every portion below the head is full -/
theorem getNthPop_plain {cap : Nat} (hc : 0 < cap) (h : Nat) (items : List Nat) (rest : List Portion)
    (ht : TailFull cap rest) (n : Nat) (hn : n < (itemsOf ((h, items) :: rest)).length) :
    getNthPop cap (toRust ((h, items) :: rest)) false n = (itemsOf ((h, items) :: rest)).getD n 0 := by
  have hlen := length_itemsOf_tailFull cap rest ht
  rw [itemsOf_cons, List.length_append, hlen] at hn
  have hnp : (toRust ((h, items) :: rest)).length = rest.length + 1 := by rw [toRust_length]; rfl
  have hhl : ((toRust ((h, items) :: rest)).getD (rest.length + 1 - 1) (0, [])).2.length = items.length := by
    have := toRust_len_at ((h, items) :: rest) 0 (by simp)
    simpa using this
  simp only [getNthPop, hnp, hhl, Bool.false_eq_true, if_false]
  rw [itemsOf_cons]
  by_cases hlt : n < items.length
  · rw [if_pos hlt, getD_append_left' _ _ _ hlt]
    have := atR_toRust ((h, items) :: rest) 0 n (by simp) (by simpa using hlt)
    simp only [List.length_cons, List.getD_cons_zero, atM] at this
    have e1 : rest.length + 1 - 1 - 0 = rest.length + 1 - 1 := by omega
    have e2 : items.length - 1 - n = items.length - n - 1 := by omega
    rw [e1, e2] at this
    exact this
  · rw [if_neg hlt, getD_append_right' _ _ _ (by omega)]
    obtain ⟨i1, i2, i3⟩ := getD_itemsOf_tailFull hc rest (n - items.length) ht (by omega)
    rw [i1]
    have hk : (n - items.length) / cap + 1 < ((h, items) :: rest).length := by simp only [List.length_cons]; omega
    have hgd : ((h, items) :: rest).getD ((n - items.length) / cap + 1) (0, []) =
        rest.getD ((n - items.length) / cap) (0, []) := by simp
    have hfull : (rest.getD ((n - items.length) / cap) (0, [])).2.length = cap := by
      have hm : rest.getD ((n - items.length) / cap) (0, []) ∈ rest := by
        rw [List.getD_eq_getElem?_getD, List.getElem?_eq_getElem i2]
        exact List.getElem_mem i2
      exact ht _ hm
    have := atR_toRust ((h, items) :: rest) ((n - items.length) / cap + 1) ((n - items.length) % cap) hk
      (by rw [hgd]; exact i3)
    rw [hgd, hfull] at this
    simp only [List.length_cons, atM] at this
    rw [hgd] at this
    have e1 : rest.length + 1 - 1 - ((n - items.length) / cap + 1) = rest.length + 1 - (2 + (n - items.length) / cap) := by
      omega
    have e2 : cap - 1 - (n - items.length) % cap = cap - (n - items.length) % cap - 1 := by omega
    rw [e1, e2] at this
    exact this

/-- fragmented case: the head holds one item, the second portion `cap - 1`, the others are full -/
theorem getNthPop_frag {cap : Nat} (hc : 2 ≤ cap) (h x nh : Nat) (second : List Nat) (rest : List Portion)
    (hs : second.length + 1 = cap) (ht : TailFull cap rest) (n : Nat)
    (hn : n < (itemsOf ((h, [x]) :: (nh, second) :: rest)).length) :
    getNthPop cap (toRust ((h, [x]) :: (nh, second) :: rest)) true n =
      (itemsOf ((h, [x]) :: (nh, second) :: rest)).getD n 0 := by
  have hlen := length_itemsOf_tailFull cap rest ht
  rw [itemsOf_cons, itemsOf_cons, List.length_append, List.length_append, hlen] at hn
  simp only [List.length_cons, List.length_nil] at hn
  have hnp : (toRust ((h, [x]) :: (nh, second) :: rest)).length = rest.length + 2 := by rw [toRust_length]; rfl
  simp only [getNthPop, hnp, if_true]
  rw [itemsOf_cons, itemsOf_cons]
  by_cases h0 : n = 0
  · subst h0
    rw [if_pos rfl]
    have := atR_toRust ((h, [x]) :: (nh, second) :: rest) 0 0 (by simp) (by simp)
    simp only [List.length_cons, List.getD_cons_zero, atM, List.length_nil] at this
    have e1 : rest.length + 1 + 1 - 1 - 0 = rest.length + 2 - 1 := by omega
    rw [e1] at this
    simpa using this
  · rw [if_neg h0]
    have hn1 : 1 ≤ n := Nat.pos_of_ne_zero h0
    rw [getD_append_right' _ _ _ (by simpa using hn1)]
    simp only [List.length_cons, List.length_nil]
    by_cases hlt : n < cap
    · rw [if_pos hlt, getD_append_left' _ _ _ (by omega)]
      have := atR_toRust ((h, [x]) :: (nh, second) :: rest) 1 (n - 1) (by simp) (by simp; omega)
      simp only [List.length_cons, atM, List.getD_cons_succ, List.getD_cons_zero] at this
      have e1 : rest.length + 1 + 1 - 1 - 1 = rest.length + 2 - 2 := by omega
      have e2 : second.length - 1 - (n - 1) = cap - n - 1 := by omega
      rw [e1, e2] at this
      have e3 : n - (0 + 1) = n - 1 := by omega
      rw [e3]
      exact this
    · rw [if_neg hlt]
      have hle : cap ≤ n := Nat.le_of_not_lt hlt
      rw [getD_append_right' _ _ _ (by omega)]
      have hidx : n - (0 + 1) - second.length = n - cap := by omega
      rw [hidx]
      obtain ⟨i1, i2, i3⟩ := getD_itemsOf_tailFull (by omega) rest (n - cap) ht (by omega)
      rw [i1]
      have hdiv : n / cap = (n - cap) / cap + 1 := Nat.div_eq_sub_div (by omega) hle
      have hmod : n % cap = (n - cap) % cap := Nat.mod_eq_sub_mod hle
      have hk : (n - cap) / cap + 2 < ((h, [x]) :: (nh, second) :: rest).length := by
        simp only [List.length_cons]; omega
      have hgd : ((h, [x]) :: (nh, second) :: rest).getD ((n - cap) / cap + 2) (0, []) =
          rest.getD ((n - cap) / cap) (0, []) := by simp
      have hfull : (rest.getD ((n - cap) / cap) (0, [])).2.length = cap := by
        have hm : rest.getD ((n - cap) / cap) (0, []) ∈ rest := by
          rw [List.getD_eq_getElem?_getD, List.getElem?_eq_getElem i2]
          exact List.getElem_mem i2
        exact ht _ hm
      have := atR_toRust ((h, [x]) :: (nh, second) :: rest) ((n - cap) / cap + 2) ((n - cap) % cap) hk
        (by rw [hgd]; exact i3)
      rw [hgd, hfull] at this
      simp only [List.length_cons, atM] at this
      rw [hgd] at this
      have e1 : rest.length + 1 + 1 - 1 - ((n - cap) / cap + 2) = rest.length + 2 - (2 + n / cap) := by omega
      have e2 : cap - 1 - (n - cap) % cap = cap - n % cap - 1 := by omega
      rw [e1, e2] at this
      exact this

/-! ### `len_and_fragmented` and the theorem -/

theorem toRust_getLast? (p : Portion) (rest : List Portion) :
    (toRust (p :: rest)).getLast? = some (p.1, p.2.reverse) := by
  simp [toRust]

/-- **`len` / `get_nth_pop` are the length / the `n`-th element of the pop sequence** on well-shaped lists -/
theorem getNthPop_spec {cap : Nat} (hc : 2 ≤ cap) (ps : List Portion) (hw : WellShaped cap ps) :
    (lenAndFragmented cap (toRust ps)).1 = (itemsOf ps).length ∧
    ∀ n, n < (itemsOf ps).length →
      getNthPop cap (toRust ps) (lenAndFragmented cap (toRust ps)).2 n = (itemsOf ps).getD n 0 := by
  match ps, hw with
  | [], _ => simp [lenAndFragmented, toRust, itemsOf]
  | [(h, items)], hw =>
    have hl : (lenAndFragmented cap (toRust [(h, items)])) = (items.length, false) := by
      simp [lenAndFragmented, toRust]
    rw [hl]
    refine ⟨by simp [itemsOf], ?_⟩
    intro n hn
    exact getNthPop_plain (by omega) h items [] (TailFull.nil cap) n hn
  | (h, items) :: (nh, second) :: rest, hw =>
    obtain ⟨hb, ht⟩ := hw.below
    have hil := hw.head_len
    have hlenr := length_itemsOf_tailFull cap rest ht
    have hpen : ((toRust ((h, items) :: (nh, second) :: rest)).getD (rest.length + 2 - 2) (0, [])).2.length
        = second.length := by
      have := toRust_len_at ((h, items) :: (nh, second) :: rest) 1 (by simp)
      simpa using this
    have hnp : (toRust ((h, items) :: (nh, second) :: rest)).length = rest.length + 2 := by
      rw [toRust_length]; rfl
    have hitems : (itemsOf ((h, items) :: (nh, second) :: rest)).length
        = items.length + second.length + cap * rest.length := by
      rw [itemsOf_cons, itemsOf_cons, List.length_append, List.length_append, hlenr]; omega
    by_cases h1 : items.length = 1
    · -- the head holds one item: `fragmented` is decided by the second portion
      have hl : lenAndFragmented cap (toRust ((h, items) :: (nh, second) :: rest)) =
          (rest.length * cap + second.length + 1, second.length != cap) := by
        simp only [lenAndFragmented, toRust_getLast?, hnp, List.length_reverse, h1, hpen]
        rw [if_pos ⟨by omega, trivial⟩]
        simp
      rw [hl]
      refine ⟨by rw [hitems, h1, Nat.mul_comm]; omega, ?_⟩
      intro n hn
      rcases hb with e | ⟨_, e⟩
      · have : (second.length != cap) = false := by simp [e]
        rw [this]
        exact getNthPop_plain (by omega) h items _ (TailFull.cons e ht) n hn
      · have : (second.length != cap) = true := by simp; omega
        rw [this]
        match items, h1 with
        | [x], _ => exact getNthPop_frag hc h x nh second rest e ht n hn
    · have hfull : second.length = cap := by
        rcases hb with e | ⟨e, _⟩
        · exact e
        · exact absurd e h1
      have hl : lenAndFragmented cap (toRust ((h, items) :: (nh, second) :: rest)) =
          ((rest.length + 1) * cap + items.length, false) := by
        simp only [lenAndFragmented, toRust_getLast?, hnp, List.length_reverse]
        rw [if_neg (by intro hh; exact h1 hh.2)]
        simp
      rw [hl]
      refine ⟨?_, ?_⟩
      · rw [hitems, hfull, Nat.add_mul, Nat.one_mul, Nat.mul_comm]; omega
      · intro n hn
        exact getNthPop_plain (by omega) h items _ (TailFull.cons hfull ht) n hn

end Nomt.Store.FreeList
