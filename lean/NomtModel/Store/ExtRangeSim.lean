import NomtModel.Store.ExtRangeProtoInv
/-!
Every step of the mirror (`step`) is a move of the protocol skeleton (`ATrans`) on the protocol view (`absG`); hence
`AInv ∘ absG` is an invariant of EVERY interleaving (`inv_runSched`).  Under the invariant no protocol panic site is
reachable (`step_panic_sites`) and some worker can always move until all have returned (`progress`).
-/
namespace Nomt.ExtRange

variable {σ N C : Type}

def kindOf : Pc → Kind
  | .wait _ _ => .wait
  | .finalRecv => .frecv
  | .done => .done
  | _ => .run

def finOf : Pc → Bool
  | .final | .finalRecv | .done => true
  | _ => false

def respView (r : Resp N) : Bool × Option (Option Nat) := (r.newHigh.isSome, r.newRight)

def view (w : W σ N C) : PV :=
  { left := w.left, right := w.right, pending := w.pending, resp := w.resp.map respView,
    highSome := w.high.isSome, kind := kindOf w.pc, fin := finOf w.pc }

def absG (g : G σ N C) : AG := { n := g.n, pv := fun i => view (g.ws i), chans := g.chans }

theorem view_upd (ws : Nat → W σ N C) (i : Nat) (w : W σ N C) :
    (fun j => view (upd ws i w j)) = upd (fun j => view (ws j)) i (view w) := by
  funext j; by_cases h : j = i <;> simp [upd, h]

theorem absG_setW (g : G σ N C) (i : Nat) (w : W σ N C) :
    absG (setW g i w) = { absG g with pv := upd (absG g).pv i (view w) } := by
  simp only [absG, setW, view_upd]

/-- the protocol fields of two workers agree (everything `view` reads but the program counter) -/
def SameP (w w' : W σ N C) : Prop :=
  w'.left = w.left ∧ w'.right = w.right ∧ w'.pending = w.pending ∧ w'.resp = w.resp ∧ w'.high = w.high ∧ w'.pc = w.pc

theorem SameP.refl (w : W σ N C) : SameP w w := ⟨rfl, rfl, rfl, rfl, rfl, rfl⟩
theorem SameP.trans {a b c : W σ N C} (h1 : SameP a b) (h2 : SameP b c) : SameP a c := by
  obtain ⟨a1, a2, a3, a4, a5, a6⟩ := h1
  obtain ⟨b1, b2, b3, b4, b5, b6⟩ := h2
  exact ⟨b1.trans a1, b2.trans a2, b3.trans a3, b4.trans a4, b5.trans a5, b6.trans a6⟩

theorem SameP.trans' {a b c : W σ N C} (h2 : SameP b c) (h1 : SameP a b) : SameP a c := h1.trans h2

theorem SameP.view_pc {w w' : W σ N C} (h : SameP w w') (pc : Pc) :
    view { w' with pc := pc } = { view w with kind := kindOf pc, fin := finOf pc } := by
  obtain ⟨h1, h2, h3, h4, h5, _⟩ := h
  simp [view, h1, h2, h3, h4, h5]

theorem handleNew_same (i : Nat) : ∀ (outs : List (Nat × N × Option Nat)) (w : W σ N C), SameP w (handleNew i w outs)
  | [], w => SameP.refl w
  | (k, nd, c) :: rest, w => by
    simp only [handleNew]
    exact SameP.trans ⟨rfl, rfl, rfl, rfl, rfl, rfl⟩ (handleNew_same i rest _)

theorem resetFresh_same (U : Upd σ N C) (cfg : Cfg) (db : List (DbN N)) (w w' : W σ N C) (key : Nat)
    (h : resetFresh U cfg db w key = some w') : SameP w w' := by
  unfold resetFresh at h
  split at h
  · split at h
    · split at h
      · cases h
      · cases h; exact ⟨rfl, rfl, rfl, rfl, rfl, rfl⟩
    · split at h
      · cases h; exact SameP.refl _
      · split at h
        · cases h
        · cases h; exact ⟨rfl, rfl, rfl, rfl, rfl, rfl⟩
  · split at h
    · cases h; exact SameP.refl _
    · split at h
      · cases h
      · cases h; exact ⟨rfl, rfl, rfl, rfl, rfl, rfl⟩

/-- the panic sites that depend on the node updater and the trackers (everything else is a protocol site) -/
def updSites : List String :=
  ["changeset[worker_params.op_range.start]", "updater.ingest", "updater.digest", "tracker.delete: deleted twice",
   "assert!(prepared_leaves.peek().is_none())"]

theorem resetBaseW_cases (U : Upd σ N C) (cfg : Cfg) (db : List (DbN N)) (w : W σ N C) (b : Bool) (key : Nat) :
    (∃ w', resetBaseW U cfg db w b key = .ok w' ∧ SameP w w') ∨
    (∃ s, resetBaseW U cfg db w b key = .panic s ∧ s ∈ updSites) := by
  unfold resetBaseW
  split
  · split
    · right; exact ⟨_, rfl, by simp [updSites]⟩
    · rename_i w' hw; left; exact ⟨w', rfl, resetFresh_same U cfg db w w' key hw⟩
  · split
    · right; exact ⟨_, rfl, by simp [updSites]⟩
    · split
      · left; exact ⟨_, rfl, ⟨rfl, rfl, rfl, rfl, rfl, rfl⟩⟩
      · split
        · split
          · right; exact ⟨_, rfl, by simp [updSites]⟩
          · rename_i w' hw; left; exact ⟨w', rfl, resetFresh_same U cfg db w w' _ hw⟩
        · left; exact ⟨_, rfl, ⟨rfl, rfl, rfl, rfl, rfl, rfl⟩⟩

theorem kindOf_done (pc : Pc) : kindOf pc = .done ↔ pc = .done := by cases pc <;> simp [kindOf]
theorem kindOf_wait (pc : Pc) : kindOf pc = .wait ↔ ∃ k f, pc = .wait k f := by cases pc <;> simp [kindOf]

theorem disconnected_iff (g : G σ N C) (j : Nat) : disconnected g j = true ↔ ¬ AHolder (absG g) j := by
  simp only [disconnected, List.all_eq_true, List.mem_range, AHolder, absG, view]
  constructor
  · intro h ⟨i, hi, hc⟩
    have := h i hi
    rcases hc with ⟨h1, h2⟩ | ⟨hh, h1⟩
    · have hpc : (g.ws i).pc ≠ .done := fun e => h1 ((kindOf_done _).2 e)
      simp [hpc, h2] at this
    · cases hr : (g.ws i).resp with
      | none => rw [hr] at h1; cases h1
      | some r =>
        rw [hr] at h1
        simp only [Option.map_some, respView, Option.some.injEq, Prod.mk.injEq] at h1
        simp [hr, h1.2] at this
  · intro h i hi
    cases hb : (!(((g.ws i).pc != .done && (g.ws i).right == some j) ||
      (match (g.ws i).resp with | some r => r.newRight == some (some j) | none => false))) with
    | true => rfl
    | false =>
      exfalso; apply h
      simp only [Bool.not_eq_false', Bool.or_eq_true, Bool.and_eq_true, bne_iff_ne, ne_eq, beq_iff_eq] at hb
      refine ⟨i, hi, ?_⟩
      rcases hb with ⟨h1, h2⟩ | h2
      · left; exact ⟨fun e => h1 ((kindOf_done _).1 e), h2⟩
      · right
        cases hr : (g.ws i).resp with
        | none => rw [hr] at h2; cases h2
        | some r =>
          rw [hr] at h2
          simp only [beq_iff_eq] at h2
          exact ⟨r.newHigh.isSome, by simp [respView, h2]⟩

theorem answer_fin (inner : Inner N) (low high right : Option Nat) :
    answer inner low high right true ≠ none := by
  unfold answer
  cases scan low 0 inner with
  | unch c k => simp
  | next c nh => simp
  | fin c sep =>
    simp only [if_true]
    cases unchAtEnd sep high <;> simp

/-- what `answer` puts into the response -/
theorem answer_resp (inner : Inner N) (low high right : Option Nat) (fin : Bool) (resp : Resp N) (inner' : Inner N)
    (relink : Bool) (h : answer inner low high right fin = some (resp, inner', relink)) :
    resp.newRight = (if relink then some right else none) ∧ (relink = true → resp.newHigh = high ∧ fin = true) := by
  unfold answer at h
  cases hs : scan low 0 inner with
  | unch c k => rw [hs] at h; simp only [Option.some.injEq, Prod.mk.injEq] at h; obtain ⟨h1, _, h3⟩ := h; subst h1 h3; simp
  | next c nh => rw [hs] at h; simp only [Option.some.injEq, Prod.mk.injEq] at h; obtain ⟨h1, _, h3⟩ := h; subst h1 h3; simp
  | fin c sep =>
    rw [hs] at h
    simp only at h
    cases fin with
    | false => simp at h
    | true =>
      simp only [if_true] at h
      cases hu : unchAtEnd sep high with
      | true => rw [hu] at h; simp only [if_true, Option.some.injEq, Prod.mk.injEq] at h; obtain ⟨h1, _, h3⟩ := h; subst h1 h3; simp
      | false =>
        rw [hu] at h
        simp only [Bool.false_eq_true, if_false, Option.some.injEq, Prod.mk.injEq] at h
        obtain ⟨h1, _, h3⟩ := h; subst h1 h3; simp

theorem view_pc (w : W σ N C) (pc : Pc) : view { w with pc := pc } = { view w with kind := kindOf pc, fin := finOf pc } := rfl

theorem absG_pv (g : G σ N C) (i : Nat) : (absG g).pv i = view (g.ws i) := rfl

theorem resp_none_of_run {g : G σ N C} (hinv : AInv (absG g)) {i : Nat} (hi : i < g.n)
    (hk : kindOf (g.ws i).pc ≠ .wait) : (g.ws i).resp = none := by
  cases hr : (g.ws i).resp with
  | none => rfl
  | some r =>
    have := hinv.respWait i hi (by simp [absG, view, hr])
    exact absurd this hk

theorem AG_eq (a b : AG) (hn : a.n = b.n) (hpv : ∀ x, a.pv x = b.pv x) (hc : ∀ x, a.chans x = b.chans x) : a = b := by
  cases a; cases b
  simp only at hn hpv hc
  subst hn
  have : ‹Nat → PV› = ‹Nat → PV› := rfl
  congr
  · funext x; exact hpv x
  · funext x; exact hc x

theorem takeReq_some {g : G σ N C} {i r : Nat} {chan : List Nat} (h : takeReq g i = some (r, chan)) :
    (((absG g).pv i).pending = some r ∧ chan = (absG g).chans i) ∨
      (((absG g).pv i).pending = none ∧ (absG g).chans i = r :: chan) := by
  unfold takeReq at h
  split at h
  · rename_i r' hp; cases h; exact Or.inl ⟨hp, rfl⟩
  · rename_i hp
    split at h
    · rename_i r' rest hc; cases h; exact Or.inr ⟨hp, hc⟩
    · cases h

theorem takeReq_none {g : G σ N C} {i : Nat} (h : takeReq g i = none) :
    ((absG g).pv i).pending = none ∧ (absG g).chans i = [] := by
  unfold takeReq at h
  split at h
  · cases h
  · rename_i hp
    split at h
    · cases h
    · rename_i hc; exact ⟨hp, hc⟩

/-- answering a taken request never panics under the invariant, and is a move of the skeleton -/
theorem answerWith_sim (g : G σ N C) (i r : Nat) (chan : List Nat) (finished : Bool) (next : Pc) (hi : i < g.n)
    (hinv : AInv (absG g)) (hk : kindOf (g.ws i).pc = .run)
    (hnk : kindOf next = .run ∨ (kindOf next = .frecv ∧ finished = true))
    (hfin : finOf next = finOf (g.ws i).pc) (hff : finished = true → finOf (g.ws i).pc = true)
    (hl : (g.ws i).left = true) (hreq : takeReq g i = some (r, chan)) :
    ∃ g', answerWith g i finished next r chan = .ok g' ∧ ATrans (absG g) (absG g') ∧
      (finished = true → (g'.ws i).pending = none) := by
  have hkv : ((absG g).pv i).kind = .run := hk
  have hreq' := takeReq_some hreq
  obtain ⟨hrn, hrk, hrr, hrresp, hrest, hrj, hjresp⟩ := hinv.requester i r chan hi hkv hreq'
  subst hrest
  unfold answerWith
  simp only []
  cases ha : answer (g.ws i).tr.inner (g.ws i).low (g.ws i).high (g.ws i).right finished with
  | none =>
    have hf : finished = false := by
      cases finished with
      | false => rfl
      | true => exact absurd ha (answer_fin _ _ _ _)
    refine ⟨_, rfl, ?_, fun e => by rw [hf] at e; cases e⟩
    have hkn : kindOf next = .run := by
      rcases hnk with h | ⟨_, h⟩
      · exact h
      · rw [hf] at h; cases h
    have e : absG { setW g i { g.ws i with pending := some r, pc := next } with chans := upd g.chans i [] } =
        { absG g with pv := upd (absG g).pv i { (absG g).pv i with pending := some r, kind := .run },
                      chans := upd (absG g).chans i [] } := by
      apply AG_eq
      · rfl
      · intro x; by_cases hx : x = i
        · subst hx; simp [absG, setW, view, hkn, hfin]
        · simp [absG, setW, hx]
      · intro x; rfl
    rw [e]
    exact ATrans.pend i r [] hi (Or.inl hkv) hl hreq'
  | some x =>
    obtain ⟨resp, inner', relink⟩ := x
    obtain ⟨hnr, hrel⟩ := answer_resp _ _ _ _ _ _ _ _ ha
    simp only []
    have hrpc : ∃ k f, (g.ws r).pc = .wait k f := (kindOf_wait _).1 hrk
    obtain ⟨k0, f0, hrpc⟩ := hrpc
    have hrresp' : (g.ws r).resp = none := by
      cases hr : (g.ws r).resp with
      | none => rfl
      | some z => simp [absG, view, hr] at hrresp
    simp only [hrpc, hrresp', Option.isSome_none, Bool.false_or, decide_eq_true_eq, hrj, if_false, List.isEmpty_nil,
      Bool.not_true, Bool.and_false, Bool.false_eq_true]
    refine ⟨_, rfl, ?_, fun _ => by simp [upd, Ne.symm hrj]⟩
    have hnk' : kindOf next = .run ∨ kindOf next = .frecv := by
      rcases hnk with h | h
      · exact Or.inl h
      · exact Or.inr h.1
    have key : ∀ G' : G σ N C, absG G' = ansAG (absG g) i r (kindOf next) relink resp.newHigh.isSome →
        ATrans (absG g) (absG G') := by
      intro G' e
      rw [e]
      exact ATrans.ans i r [] (kindOf next) relink resp.newHigh.isSome hi hkv hnk' hl hreq'
        (fun e => by
          obtain ⟨h1, h2⟩ := hrel e
          exact ⟨by simp [absG, view, h1], hff h2⟩)
    apply key
    apply AG_eq
    · rfl
    · intro x
      by_cases hx : x = r
      · subst hx; simp [absG, ansAG, upd, view, respView, hnr, hrresp', hrpc]
      · by_cases hx' : x = i
        · subst hx'; simp [absG, ansAG, upd, hx, view, hfin]
        · simp [absG, ansAG, upd, hx, hx']
    · intro x; rfl

/-- `try_answer_left_neighbor` never panics under the invariant, and is a move of the skeleton -/
theorem tryAnswer_sim (g : G σ N C) (i : Nat) (finished : Bool) (next : Pc) (hi : i < g.n) (hinv : AInv (absG g))
    (hk : kindOf (g.ws i).pc = .run) (hnk : kindOf next = .run ∨ (kindOf next = .frecv ∧ finished = true))
    (hfin : finOf next = finOf (g.ws i).pc) (hff : finished = true → finOf (g.ws i).pc = true) :
    ∃ g', tryAnswer g i finished next = .ok g' ∧ ATrans (absG g) (absG g') ∧
      (finished = true → (g'.ws i).pending = none) := by
  have hkv : ((absG g).pv i).kind = .run := hk
  have hnk' : kindOf next = .run ∨ kindOf next = .frecv := by
    rcases hnk with h | h
    · exact Or.inl h
    · exact Or.inr h.1
  have hpl : (g.ws i).left = false → (g.ws i).pending = none := by
    intro hl
    cases hp : (g.ws i).pending with
    | none => rfl
    | some r =>
      have := hinv.pendLeft i hi (by simp [absG, view, hp])
      simp [absG, view, hl] at this
  have e0 : ∀ (w' : W σ N C), view w' = { (absG g).pv i with kind := kindOf next } →
      absG (setW g i w') = { absG g with pv := upd (absG g).pv i { (absG g).pv i with kind := kindOf next } } := by
    intro w' hw; rw [absG_setW, hw]
  unfold tryAnswer
  simp only []
  by_cases hl : (g.ws i).left = true
  · rw [if_neg (by simp [hl])]
    cases hreq : takeReq g i with
    | none =>
      obtain ⟨hp, hc⟩ := takeReq_none hreq
      simp only []
      by_cases hd : disconnected g i = true
      · rw [if_pos hd]
        refine ⟨_, rfl, ?_, fun _ => by simp only [setW, upd_same]; exact hp⟩
        have e : absG (setW g i { g.ws i with left := false, pc := next }) =
            { absG g with pv := upd (absG g).pv i { (absG g).pv i with left := false, kind := kindOf next } } := by
          rw [absG_setW]; congr 2; simp [absG, view, hfin]
        rw [e]
        exact ATrans.disc i (kindOf next) hi (Or.inl hkv) hnk' hp hc ((disconnected_iff g i).1 hd)
      · rw [if_neg hd]
        refine ⟨_, rfl, ?_, fun _ => by simp only [setW, upd_same]; exact hp⟩
        rw [e0 _ (by simp [absG, view, hfin])]
        exact ATrans.poll0 i (kindOf next) hi hkv (by
          rcases hnk' with h | h
          · exact Or.inl h
          · exact Or.inr ⟨h, hp⟩)
    | some x =>
      obtain ⟨r, chan⟩ := x
      exact answerWith_sim g i r chan finished next hi hinv hk hnk hfin hff hl hreq
  · have hl' : (g.ws i).left = false := by simpa using hl
    rw [if_pos (by simp [hl'])]
    refine ⟨_, rfl, ?_, fun _ => by simp only [setW, upd_same]; exact hpl hl'⟩
    rw [e0 _ (by simp [absG, view, hfin])]
    exact ATrans.poll0 i (kindOf next) hi hkv (by
      rcases hnk' with h | h
      · exact Or.inl h
      · exact Or.inr ⟨h, by simpa [absG, view] using hpl hl'⟩)

end Nomt.ExtRange
