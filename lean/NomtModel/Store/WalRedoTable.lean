import NomtModel.Store.WalRedoLemmas
import NomtModel.Store.WalEncode
/-!
The redo loop of `bitbox::recover` on a whole hash table: **the result depends only on the table content outside the
positions the log writes**.  Hence redo of the whole log is idempotent, and recovery started on a table on which any
prefix of the log (or any part of the post-meta write-out) was already applied gives the same table — a crash during
recovery is harmless.

Positions: a meta byte of a bucket, or a byte of a bucket page.  An entry writes its bucket's meta byte; an update
entry also writes the bytes of the slots named by its diff and the bytes from offset 4056 (elided children, label).
-/
namespace Nomt.Wal
open PageDiff

inductive Pos where
  | «meta» (b : Nat)
  | byte (b o : Nat)

def Table.at (T : Table) : Pos → Option UInt8
  | .meta b => T.meta[b]?
  | .byte b o => (T.pages[b]?).bind (·[o]?)

/-- every bucket page is a page -/
def Table.WF (T : Table) : Prop := ∀ p ∈ T.pages, p.length = PAGE_SIZE

def Table.SameSize (T1 T2 : Table) : Prop := T1.meta.length = T2.meta.length ∧ T1.pages.length = T2.pages.length

theorem Table.ext_at {T1 T2 : Table} (h1 : T1.WF) (h2 : T2.WF) (hs : T1.SameSize T2)
    (h : ∀ p, T1.at p = T2.at p) : T1 = T2 := by
  obtain ⟨m1, p1⟩ := T1
  obtain ⟨m2, p2⟩ := T2
  have hm : m1 = m2 := List.ext_getElem? (fun b => h (.meta b))
  have hp : p1 = p2 := by
    apply List.ext_getElem?
    intro b
    have hl : p1.length = p2.length := hs.2
    by_cases hb : b < p1.length
    · have hb2 : b < p2.length := by omega
      rw [List.getElem?_eq_getElem hb, List.getElem?_eq_getElem hb2]
      congr 1
      apply List.ext_getElem?
      intro o
      have := h (.byte b o)
      simp only [Table.at, List.getElem?_eq_getElem hb, List.getElem?_eq_getElem hb2, Option.bind_some] at this
      exact this
    · rw [List.getElem?_eq_none (by omega), List.getElem?_eq_none (by omega)]
  rw [hm, hp]

/-- the positions an entry writes -/
def Entry.writes : Entry → Pos → Prop
  | .clear b, .meta b' => b' = b
  | .clear _, .byte _ _ => False
  | .update _ _ _ _ b, .meta b' => b' = b
  | .update _ d _ _ b, .byte b' o => b' = b ∧ (4056 ≤ o ∨ o / 32 ∈ d.ones)

/-- the entry's bucket exists in a table with `nm` meta bytes and `np` bucket pages -/
def Entry.fits (nm np : Nat) : Entry → Prop
  | .clear b => b < nm
  | .update _ _ _ _ b => b < nm ∧ b < np

/-- one entry on two tables of the same size: same verdict; the written positions get the same bytes, the other
positions keep theirs -/
theorem redoEntry_two (hash : Bytes → Nat) {T1 T2 : Table} (w1 : T1.WF) (w2 : T2.WF) (hs : T1.SameSize T2)
    {e : Entry} (he : e.Honest) {U1 : Table} (h : redoEntry hash T1 e = .ok U1) :
    ∃ U2, redoEntry hash T2 e = .ok U2 ∧ U1.WF ∧ U2.WF ∧ T1.SameSize U1 ∧ U1.SameSize U2 ∧
      (∀ p, e.writes p → U1.at p = U2.at p) ∧
      (∀ p, ¬ e.writes p → U1.at p = T1.at p ∧ U2.at p = T2.at p) := by
  cases e with
  | clear b =>
    unfold redoEntry at h ⊢
    by_cases hb : b ≥ T1.meta.length
    · simp [hb] at h
    · have hb2 : ¬ (b ≥ T2.meta.length) := by rw [← hs.1]; exact hb
      simp only [hb, if_false] at h
      injection h with h
      subst h
      simp only [hb2, if_false]
      refine ⟨_, rfl, w1, w2, ⟨by simp, rfl⟩, ⟨by simp [hs.1], hs.2⟩, ?_, ?_⟩
      · intro p hp
        cases p with
        | «meta» b' =>
          have : b' = b := hp
          subst this
          simp only [Table.at]
          rw [List.getElem?_set_self (by omega), List.getElem?_set_self (by omega)]
        | byte b' o => exact hp.elim
      · intro p hp
        cases p with
        | «meta» b' =>
          have : b ≠ b' := fun e => hp e.symm
          simp only [Table.at]
          rw [List.getElem?_set_ne this, List.getElem?_set_ne this]
          exact ⟨rfl, rfl⟩
        | byte b' o => exact ⟨rfl, rfl⟩
  | update pid d nodes el b =>
    obtain ⟨hp, hd, hn, hel, hb64, hcnt, h126, h127⟩ := he
    unfold redoEntry at h ⊢
    by_cases hb : b ≥ T1.meta.length
    · simp [hb] at h
    · have hb2 : ¬ (b ≥ T2.meta.length) := by rw [← hs.1]; exact hb
      simp only [hb, if_false] at h
      simp only [hb2, if_false]
      cases ho1 : T1.pages[b]? with
      | none => rw [ho1] at h; cases h
      | some old1 =>
        rw [ho1] at h
        have hbp : b < T1.pages.length := by
          apply Nat.lt_of_not_le
          intro hle
          rw [List.getElem?_eq_none hle] at ho1
          cases ho1
        have hbp2 : b < T2.pages.length := by rw [← hs.2]; exact hbp
        have ho2 : T2.pages[b]? = some (T2.pages[b]) := List.getElem?_eq_getElem hbp2
        rw [ho2]
        have hold1 : old1.length = PAGE_SIZE := w1 old1 (List.mem_of_getElem? ho1)
        have hold2 : (T2.pages[b]).length = PAGE_SIZE := w2 _ (List.getElem_mem hbp2)
        obtain ⟨F1, a1, a2, a3, a4, a5, a6⟩ := redoPage_char (pid := pid) (el := el) hold1 ⟨h126, h127⟩ hcnt hn hp
        obtain ⟨F2, b1, b2, b3, b4, b5, b6⟩ := redoPage_char (pid := pid) (el := el) hold2 ⟨h126, h127⟩ hcnt hn hp
        simp only [a1] at h
        injection h with h
        subst h
        simp only [b1]
        -- the meta maps
        have hmeta : ∀ (m : Bytes), b < m.length → ∀ b',
            (if m[b]? ≠ some (fullEntry (hash pid)) then m.set b (fullEntry (hash pid)) else m)[b']? =
              if b' = b then some (fullEntry (hash pid)) else m[b']? := by
          intro m hm b'
          by_cases hc : m[b]? ≠ some (fullEntry (hash pid))
          · rw [if_pos hc]
            by_cases e : b' = b
            · subst e; rw [List.getElem?_set_self hm, if_pos rfl]
            · rw [List.getElem?_set_ne (fun x => e x.symm), if_neg e]
          · rw [if_neg hc]
            by_cases e : b' = b
            · subst e; rw [if_pos rfl]; exact Classical.not_not.1 hc
            · rw [if_neg e]
        have hmlen : ∀ (m : Bytes),
            (if m[b]? ≠ some (fullEntry (hash pid)) then m.set b (fullEntry (hash pid)) else m).length = m.length := by
          intro m; split <;> simp
        have wf_set : ∀ (ps : List Bytes) (F : Bytes), (∀ p ∈ ps, p.length = PAGE_SIZE) → F.length = PAGE_SIZE →
            ∀ p ∈ ps.set b F, p.length = PAGE_SIZE := by
          intro ps F hps hF p hmem
          rcases List.mem_or_eq_of_mem_set hmem with h | h
          · exact hps p h
          · rw [h]; exact hF
        refine ⟨_, rfl, wf_set _ _ w1 a2, wf_set _ _ w2 b2, ⟨(hmlen T1.meta).symm, by simp⟩,
          ⟨(hmlen T1.meta).trans (hs.1.trans (hmlen T2.meta).symm), by simp [hs.2]⟩, ?_, ?_⟩
        · intro p hw
          cases p with
          | «meta» b' =>
            have : b' = b := hw
            subst this
            simp only [Table.at]
            rw [hmeta _ (by omega), hmeta _ (by omega), if_pos rfl, if_pos rfl]
          | byte b' o =>
            obtain ⟨e, ho⟩ := hw
            subst e
            simp only [Table.at]
            rw [List.getElem?_set_self hbp, List.getElem?_set_self hbp2]
            simp only [Option.bind_some]
            by_cases lo : o < 4056
            · have hmem : o / 32 ∈ d.ones := by rcases ho with h | h; omega; exact h
              obtain ⟨n, hz⟩ := exists_mem_zip (m := nodes) (by rw [hcnt, count_eq]) hmem
              have hj : o % 32 < 32 := Nat.mod_lt _ (by omega)
              have x := a3 _ _ hz (o % 32) hj
              have y := b3 _ _ hz (o % 32) hj
              have e : o / 32 * 32 + o % 32 = o := by omega
              rw [e] at x y
              rw [x, y]
            · by_cases c1 : o < 4064
              · have x := a5 (o - 4056) (by omega)
                have y := b5 (o - 4056) (by omega)
                have e : 4056 + (o - 4056) = o := by omega
                rw [e] at x y
                rw [x, y]
              · by_cases c2 : o < 4096
                · have x := a4 (o - 4064) (by omega)
                  have y := b4 (o - 4064) (by omega)
                  have e : 4064 + (o - 4064) = o := by omega
                  rw [e] at x y
                  rw [x, y]
                · rw [List.getElem?_eq_none (by rw [a2]; unfold PAGE_SIZE; omega),
                    List.getElem?_eq_none (by rw [b2]; unfold PAGE_SIZE; omega)]
        · intro p hw
          cases p with
          | «meta» b' =>
            have hne : ¬ b' = b := hw
            simp only [Table.at]
            rw [hmeta _ (by omega), hmeta _ (by omega), if_neg hne, if_neg hne]
            exact ⟨rfl, rfl⟩
          | byte b' o =>
            simp only [Table.at]
            by_cases e : b' = b
            · subst e
              have hnw : ¬ (4056 ≤ o ∨ o / 32 ∈ d.ones) := fun x => hw ⟨rfl, x⟩
              have lo : o < 4056 := by
                apply Nat.lt_of_not_le; intro x; exact hnw (Or.inl x)
              have hno : o / 32 ∉ d.ones := fun x => hnw (Or.inr x)
              rw [List.getElem?_set_self hbp, List.getElem?_set_self hbp2, ho1, ho2]
              simp only [Option.bind_some]
              exact ⟨a6 o lo hno, b6 o lo hno⟩
            · rw [List.getElem?_set_ne (fun x => e x.symm), List.getElem?_set_ne (fun x => e x.symm)]
              exact ⟨rfl, rfl⟩

/-- the positions a log writes -/
def writesAll (es : List Entry) (p : Pos) : Prop := ∃ e ∈ es, e.writes p

/-- **the result of the redo loop depends only on the table outside the written positions**: two tables of the same
size that agree everywhere except (possibly) on positions the log writes are taken to the SAME table -/
theorem redoAll_agree (hash : Bytes → Nat) (es : List Entry) (hes : ∀ e ∈ es, e.Honest) :
    ∀ {T1 T2 : Table}, T1.WF → T2.WF → T1.SameSize T2 → (∀ p, ¬ writesAll es p → T1.at p = T2.at p) →
    ∀ {U : Table}, redoAll hash T1 es = .ok U → redoAll hash T2 es = .ok U := by
  induction es with
  | nil =>
    intro T1 T2 w1 w2 hs hag U h
    have : T1 = T2 := Table.ext_at w1 w2 hs (fun p => hag p (fun ⟨e, he, _⟩ => by cases he))
    rw [← this]; exact h
  | cons e es ih =>
    intro T1 T2 w1 w2 hs hag U h
    simp only [redoAll] at h ⊢
    cases h1 : redoEntry hash T1 e with
    | ok U1 =>
      rw [h1] at h
      obtain ⟨U2, g1, wu1, wu2, _, hsu, hw, hnw⟩ := redoEntry_two hash w1 w2 hs (hes e (by simp)) h1
      rw [g1]
      apply ih (fun x hx => hes x (by simp [hx])) wu1 wu2 hsu _ h
      intro p hp
      by_cases hwp : e.writes p
      · exact hw p hwp
      · obtain ⟨x, y⟩ := hnw p hwp
        rw [x, y]
        exact hag p (fun ⟨e', he', hw'⟩ => by
          rcases List.mem_cons.1 he' with r | r
          · subst r; exact hwp hw'
          · exact hp ⟨e', r, hw'⟩)
    | err x => rw [h1] at h; cases h
    | panic s => rw [h1] at h; cases h

/-- the redo loop changes only positions the log writes, and keeps the shape of the table -/
theorem redoAll_frame (hash : Bytes → Nat) (es : List Entry) (hes : ∀ e ∈ es, e.Honest) :
    ∀ {T U : Table}, T.WF → redoAll hash T es = .ok U →
    U.WF ∧ T.SameSize U ∧ ∀ p, ¬ writesAll es p → U.at p = T.at p := by
  induction es with
  | nil =>
    intro T U w h
    injection h with h; subst h
    exact ⟨w, ⟨rfl, rfl⟩, fun _ _ => rfl⟩
  | cons e es ih =>
    intro T U w h
    simp only [redoAll] at h
    cases h1 : redoEntry hash T e with
    | ok U1 =>
      rw [h1] at h
      obtain ⟨_, _, wu1, _, hs1, _, _, hnw⟩ := redoEntry_two hash w w ⟨rfl, rfl⟩ (hes e (by simp)) h1
      obtain ⟨a, b, c⟩ := ih (fun x hx => hes x (by simp [hx])) wu1 h
      refine ⟨a, ⟨hs1.1.trans b.1, hs1.2.trans b.2⟩, ?_⟩
      intro p hp
      rw [c p (fun ⟨e', he', hw'⟩ => hp ⟨e', by simp [he'], hw'⟩)]
      exact (hnw p (fun hw' => hp ⟨e, by simp, hw'⟩)).1
    | err x => rw [h1] at h; cases h
    | panic s => rw [h1] at h; cases h

theorem redoAll_append (hash : Bytes → Nat) (xs ys : List Entry) (T : Table) :
    redoAll hash T (xs ++ ys) = (match redoAll hash T xs with | .ok U => redoAll hash U ys | o => o) := by
  induction xs generalizing T with
  | nil => rfl
  | cons x xs ih =>
    simp only [List.cons_append, redoAll]
    cases redoEntry hash T x with
    | ok U => exact ih U
    | err e => rfl
    | panic s => rfl

/-- **redo of the log is idempotent, also after a crash in the middle of it**: if recovery of table `T` with log `es`
succeeds with `U`, then recovery started from the table left after ANY prefix of the log was applied — in particular
after the whole log (`k = es.length`) — succeeds with the same `U` -/
theorem redoAll_prefix_absorbed (hash : Bytes → Nat) (es : List Entry) (hes : ∀ e ∈ es, e.Honest)
    {T U : Table} (w : T.WF) (h : redoAll hash T es = .ok U) (k : Nat) :
    ∃ Tk, redoAll hash T (es.take k) = .ok Tk ∧ redoAll hash Tk es = .ok U := by
  have hsplit := redoAll_append hash (es.take k) (es.drop k) T
  rw [List.take_append_drop, h] at hsplit
  cases hk : redoAll hash T (es.take k) with
  | ok Tk =>
    refine ⟨Tk, rfl, ?_⟩
    have hpre : ∀ e ∈ es.take k, e.Honest := fun e he => hes e (List.mem_of_mem_take he)
    obtain ⟨wk, hs, hfr⟩ := redoAll_frame hash (es.take k) hpre w hk
    apply redoAll_agree hash es hes w wk hs _ h
    intro p hp
    exact (hfr p (fun ⟨e, he, hw⟩ => hp ⟨e, List.mem_of_mem_take he, hw⟩)).symm
  | err x => rw [hk] at hsplit; cases hsplit
  | panic s => rw [hk] at hsplit; cases hsplit

/-- an honest entry whose bucket exists is applied without error or panic -/
theorem redoEntry_ok (hash : Bytes → Nat) {T : Table} (w : T.WF) {e : Entry} (he : e.Honest)
    (hf : e.fits T.meta.length T.pages.length) : ∃ U, redoEntry hash T e = .ok U := by
  cases e with
  | clear b =>
    have : ¬ (b ≥ T.meta.length) := Nat.not_le.2 hf
    refine ⟨{ T with «meta» := T.meta.set b TOMBSTONE }, ?_⟩
    simp only [redoEntry, this, if_false]
  | update pid d nodes el b =>
    obtain ⟨hp, hd, hn, hel, hb64, hcnt, h126, h127⟩ := he
    have h1 : ¬ (b ≥ T.meta.length) := Nat.not_le.2 hf.1
    have ho : T.pages[b]? = some (T.pages[b]'hf.2) := List.getElem?_eq_getElem hf.2
    obtain ⟨F, a1, _⟩ := redoPage_char (old := T.pages[b]'hf.2) (pid := pid) (el := el)
      (w _ (List.getElem_mem hf.2)) ⟨h126, h127⟩ hcnt hn hp
    refine ⟨{ «meta» := if T.meta[b]? ≠ some (fullEntry (hash pid)) then T.meta.set b (fullEntry (hash pid)) else T.meta,
              pages := T.pages.set b F }, ?_⟩
    simp only [redoEntry, h1, if_false, ho, a1]

/-- **the redo loop cannot fail on a log written by the builder for this table**: honest entries whose buckets exist -/
theorem redoAll_ok (hash : Bytes → Nat) (es : List Entry) (hes : ∀ e ∈ es, e.Honest) :
    ∀ {T : Table}, T.WF → (∀ e ∈ es, e.fits T.meta.length T.pages.length) → ∃ U, redoAll hash T es = .ok U := by
  induction es with
  | nil => intro T _ _; exact ⟨T, rfl⟩
  | cons e es ih =>
    intro T w hf
    obtain ⟨U1, h1⟩ := redoEntry_ok hash w (hes e (by simp)) (hf e (by simp))
    obtain ⟨_, _, wu, _, hs, _, _, _⟩ := redoEntry_two hash w w ⟨rfl, rfl⟩ (hes e (by simp)) h1
    obtain ⟨U, h2⟩ := ih (fun x hx => hes x (by simp [hx])) wu
      (fun x hx => by rw [← hs.1, ← hs.2]; exact hf x (by simp [hx]))
    exact ⟨U, by simp only [redoAll, h1, h2]⟩

/-- **recovery = reader ∘ redo**: `bitbox::recover(sync_seqn)` on the blob the builder wrote for `(seqn, entries)`
discards it when the sequence numbers differ (a sync that never reached its meta write, or one that concluded) and
otherwise applies exactly `entries`, in order -/
theorem recover_encode (hash : Bytes → Nat) (syncSeqn : Nat) (T : Table) (seqn : Nat) (hs : seqn < 2 ^ 32)
    (es : List Entry) (hes : ∀ e ∈ es, e.Honest) :
    recover hash syncSeqn T (encode seqn es).toArray = if seqn ≠ syncSeqn then .ok T else redoAll hash T es := by
  obtain ⟨r, h1, h2, h3⟩ := reader_encode seqn hs es hes
  unfold recover
  rw [h1]
  simp only [h2]
  by_cases h : seqn ≠ syncSeqn
  · rw [if_pos h, if_pos h]
  · rw [if_neg h, if_neg h, h3]

end Nomt.Wal
