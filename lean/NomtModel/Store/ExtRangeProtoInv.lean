import NomtModel.Store.ExtRangeProto
/-! every move of the protocol skeleton keeps `AInv` (one lemma per move) -/
namespace Nomt.ExtRange

theorem upd_apply {α : Type} (f : Nat → α) (i j : Nat) (v : α) : upd f i v j = if j = i then v else f j := rfl

macro "inv_auto" h:ident : tactic => `(tactic| (
  obtain ⟨topo, uniq, chanReq, pendReq, waitOk, respWait, highRight, frecvPend, pendLeft, chanLeft, doneOk, chanOut⟩ := $h
  constructor <;> simp only [upd_apply, effRight, effHigh, AHolder, rightAfter] at * <;> grind))

/-- all fields but `waitOk` (whose existential `grind` does not instantiate) -/
macro "inv_auto'" h:ident : tactic => `(tactic| (
  have hw := AInv.waitOk $h
  obtain ⟨topo, uniq, chanReq, pendReq, waitOk, respWait, highRight, frecvPend, pendLeft, chanLeft, doneOk, chanOut⟩ := $h
  constructor <;> simp only [upd_apply, effRight, effHigh, AHolder, rightAfter] at * <;> (try grind)))

/-- the holder of a channel that is not waiting has nothing outstanding there -/
theorem AInv.idle_holder {a : AG} (h : AInv a) (i j : Nat) (hi : i < a.n) (hk : (a.pv i).kind ≠ .wait ∨ (a.pv i).resp.isSome)
    (hr : effRight (a.pv i) = some j) : a.chans j = [] ∧ (a.pv j).pending = none := by
  have hj := (h.topo i j hi hr).2.1
  constructor
  · cases hc : a.chans j with
    | nil => rfl
    | cons r t =>
      have hm : r ∈ a.chans j := by rw [hc]; simp
      obtain ⟨hrn, hkw, hrr, hresp, _, _⟩ := h.chanReq j r hj hm
      have : r = i := h.uniq r i j hrn hi (by rw [effRight_of_resp_none hresp]; exact hrr) hr
      subst this
      rcases hk with hk | hk
      · exact absurd hkw hk
      · rw [hresp] at hk; simp at hk
  · cases hp : (a.pv j).pending with
    | none => rfl
    | some r =>
      obtain ⟨hrn, hkw, hrr, hresp, _⟩ := h.pendReq j r hj hp
      have : r = i := h.uniq r i j hrn hi (by rw [effRight_of_resp_none hresp]; exact hrr) hr
      subst this
      rcases hk with hk | hk
      · exact absurd hkw hk
      · rw [hresp] at hk; simp at hk

theorem ATrans.inv_loc {a : AG} (h : AInv a) (i : Nat) (f : Bool) (hi : i < a.n)
    (hk : (a.pv i).kind = .run ∨ ((a.pv i).kind = .frecv ∧ (a.pv i).left = false))
    (hf : (a.pv i).fin = true → f = true) :
    AInv { a with pv := upd a.pv i { a.pv i with kind := .run, fin := f } } := by
  inv_auto h

theorem ATrans.inv_send {a : AG} (h : AInv a) (i j : Nat) (hi : i < a.n) (hk : (a.pv i).kind = .run)
    (hr : (a.pv i).right = some j) :
    AInv { a with pv := upd a.pv i { a.pv i with kind := .wait }, chans := upd a.chans j (a.chans j ++ [i]) } := by
  have hrn : (a.pv i).resp = none := by
    cases hr' : (a.pv i).resp with
    | none => rfl
    | some x => have := h.respWait i hi (by rw [hr']; rfl); rw [hk] at this; cases this
  obtain ⟨hc, hp⟩ := h.idle_holder i j hi (Or.inl (by rw [hk]; decide)) (by rw [effRight_of_resp_none hrn]; exact hr)
  have htopo := h.topo i j hi (by rw [effRight_of_resp_none hrn]; exact hr)
  rw [hc]
  have hw0 := h.waitOk
  inv_auto' h
  intro i' hi' hkw
  by_cases hii : i' = i
  · subst hii; right; exact ⟨j, by simp [hr], Or.inl (by simp)⟩
  · simp only [hii, if_false] at hkw ⊢
    rcases hw0 i' hi' hkw with h1 | ⟨j0, hj0, hm⟩
    · left; exact h1
    · right; refine ⟨j0, hj0, ?_⟩
      rcases hm with hm | hm
      · left; by_cases hj : j0 = j
        · subst hj; rw [hc] at hm; simp at hm
        · simp [hj, hm]
      · right; by_cases hj : j0 = i
        · subst hj; simp [hm]
        · simp [hj, hm]

theorem ATrans.inv_poll0 {a : AG} (h : AInv a) (j : Nat) (k : Kind) (hj : j < a.n) (hk : (a.pv j).kind = .run)
    (hk' : k = .run ∨ (k = .frecv ∧ (a.pv j).pending = none)) :
    AInv { a with pv := upd a.pv j { a.pv j with kind := k } } := by
  inv_auto h

theorem ATrans.inv_disc {a : AG} (h : AInv a) (j : Nat) (k : Kind) (hj : j < a.n)
    (hk : (a.pv j).kind = .run ∨ (a.pv j).kind = .frecv) (hk' : k = .run ∨ k = .frecv)
    (hp : (a.pv j).pending = none) (hc : a.chans j = []) (hd : ¬ AHolder a j) :
    AInv { a with pv := upd a.pv j { a.pv j with left := false, kind := k } } := by
  inv_auto h

theorem ATrans.inv_pend {a : AG} (h : AInv a) (j r : Nat) (rest : List Nat) (hj : j < a.n)
    (hk : (a.pv j).kind = .run ∨ (a.pv j).kind = .frecv) (hl : (a.pv j).left = true)
    (hreq : ((a.pv j).pending = some r ∧ rest = a.chans j) ∨ ((a.pv j).pending = none ∧ a.chans j = r :: rest)) :
    AInv { a with pv := upd a.pv j { a.pv j with pending := some r, kind := .run }, chans := upd a.chans j rest } := by
  have hw0 := h.waitOk
  have hcr := h.chanReq
  have hpr := h.pendReq
  inv_auto' h
  intro i' hi' hkw
  by_cases hii : i' = j
  · subst hii; simp at hkw
  · simp only [hii, if_false] at hkw ⊢
    rcases hw0 i' hi' hkw with h1 | ⟨j0, hj0, hm⟩
    · left; exact h1
    · right; refine ⟨j0, hj0, ?_⟩
      by_cases hj : j0 = j
      · subst hj
        right
        simp only [if_true]
        rcases hreq with ⟨hp, _⟩ | ⟨hp, hc⟩
        · rcases hm with hm | hm
          · have := (hcr j0 i' hj hm).2.2.2.2.2; rw [hp] at this; cases this
          · rw [hp] at hm; exact hm
        · rcases hm with hm | hm
          · have h5 := (hcr j0 i' hj hm).2.2.2.2.1
            rw [hc] at h5; simp at h5; rw [h5.1]
          · rw [hp] at hm; cases hm
      · simp only [hj, if_false]; exact hm

theorem ATrans.inv_recv {a : AG} (h : AInv a) (i : Nat) (hh : Bool) (nr : Option (Option Nat)) (hi : i < a.n)
    (hresp : (a.pv i).resp = some (hh, nr)) (hgo : ∀ x, nr ≠ some (some x)) :
    AInv { a with pv := upd a.pv i { a.pv i with resp := none, highSome := hh, kind := .run,
                                                 right := rightAfter nr (a.pv i).right } } := by
  inv_auto h

theorem ATrans.inv_resend {a : AG} (h : AInv a) (i j : Nat) (hh : Bool) (hi : i < a.n)
    (hresp : (a.pv i).resp = some (hh, some (some j))) :
    AInv { a with pv := upd a.pv i { a.pv i with resp := none, highSome := hh, right := some j },
                  chans := upd a.chans j (a.chans j ++ [i]) } := by
  have heff : effRight (a.pv i) = some j := by simp [effRight, hresp]
  obtain ⟨hc, hp⟩ := h.idle_holder i j hi (Or.inr (by rw [hresp]; rfl)) heff
  have htopo := h.topo i j hi heff
  have hkw := h.respWait i hi (by rw [hresp]; rfl)
  rw [hc]
  have hw0 := h.waitOk
  inv_auto' h
  intro i' hi' hkw'
  by_cases hii : i' = i
  · subst hii; right; exact ⟨j, by simp, Or.inl (by simp)⟩
  · simp only [hii, if_false] at hkw' ⊢
    rcases hw0 i' hi' hkw' with h1 | ⟨j0, hj0, hm⟩
    · left; exact h1
    · right; refine ⟨j0, hj0, ?_⟩
      rcases hm with hm | hm
      · left; by_cases hj : j0 = j
        · subst hj; rw [hc] at hm; simp at hm
        · simp [hj, hm]
      · right; by_cases hj : j0 = i
        · subst hj; simp [hm]
        · simp [hj, hm]

theorem ATrans.inv_fin {a : AG} (h : AInv a) (i : Nat) (hi : i < a.n) (hk : (a.pv i).kind = .run)
    (hl : (a.pv i).left = false) :
    AInv { a with pv := upd a.pv i { a.pv i with kind := .done, right := none } } := by
  inv_auto h

/-- what the invariant says about the requester of a request taken by `j` -/
theorem AInv.requester {a : AG} (h : AInv a) (j r : Nat) (rest : List Nat) (hj : j < a.n) (hk : (a.pv j).kind = .run)
    (hreq : ((a.pv j).pending = some r ∧ rest = a.chans j) ∨ ((a.pv j).pending = none ∧ a.chans j = r :: rest)) :
    r < a.n ∧ (a.pv r).kind = .wait ∧ (a.pv r).right = some j ∧ (a.pv r).resp = none ∧ rest = [] ∧ r ≠ j ∧
      (a.pv j).resp = none := by
  have hjresp : (a.pv j).resp = none := by
    cases hr' : (a.pv j).resp with
    | none => rfl
    | some x => have := h.respWait j hj (by rw [hr']; rfl); rw [hk] at this; cases this
  rcases hreq with ⟨hp, hrest⟩ | ⟨hp, hc⟩
  · obtain ⟨h1, h2, h3, h4, h5⟩ := h.pendReq j r hj hp
    refine ⟨h1, h2, h3, h4, by rw [hrest, h5], ?_, hjresp⟩
    intro e; subst e; rw [hk] at h2; cases h2
  · obtain ⟨h1, h2, h3, h4, h5, _⟩ := h.chanReq j r hj (by rw [hc]; simp)
    refine ⟨h1, h2, h3, h4, ?_, ?_, hjresp⟩
    · rw [hc] at h5; simp at h5; exact h5
    · intro e; subst e; rw [hk] at h2; cases h2

/-- the state after worker `j` answered requester `r` -/
def ansAG (a : AG) (j r : Nat) (k : Kind) (relink hh : Bool) : AG :=
  { a with
    pv := upd (upd a.pv j { a.pv j with pending := none, kind := k, left := if relink then false else (a.pv j).left,
                                         right := if relink then none else (a.pv j).right })
          r { a.pv r with resp := some (hh, if relink then some (a.pv j).right else none) },
    chans := upd a.chans j [] }

/-- the facts available when worker `j` answers requester `r` -/
structure AnsPre (a : AG) (j r : Nat) (k : Kind) (relink hh : Bool) : Prop where
  inv : AInv a
  hj : j < a.n
  hk : (a.pv j).kind = .run
  hk' : k = .run ∨ k = .frecv
  hl : (a.pv j).left = true
  hrn : r < a.n
  hrk : (a.pv r).kind = .wait
  hrr : (a.pv r).right = some j
  hrresp : (a.pv r).resp = none
  hrj : r ≠ j
  hjresp : (a.pv j).resp = none
  hreq : ((a.pv j).pending = some r ∧ a.chans j = []) ∨ ((a.pv j).pending = none ∧ a.chans j = [r])
  hhigh : relink = true → hh = (a.pv j).highSome ∧ (a.pv j).fin = true

set_option hygiene false in
macro "ans_field" p:ident : tactic => `(tactic| (
  obtain ⟨⟨topo, uniq, chanReq, pendReq, waitOk, respWait, highRight, frecvPend, pendLeft, chanLeft, doneOk, chanOut⟩,
    hj, hk, hk', hl, hrn, hrk, hrr, hrresp, hrj, hjresp, hreq, hhigh⟩ := $p
  have e0 : effRight (a.pv r) = some j := by rw [effRight_of_resp_none hrresp]; exact hrr
  have e1 := topo r j hrn e0
  have e2 : ∀ y, (a.pv j).right = some y → j < y ∧ y < a.n ∧ (a.pv y).left = true ∧ (a.pv y).kind ≠ .done :=
    fun y hy => topo j y hj (by rw [effRight_of_resp_none hjresp]; exact hy)
  have e3 : ∀ x, x < a.n → effRight (a.pv x) = some j → x = r := fun x hx he => uniq x r j hx hrn he e0
  have e4 : ∀ x y, x < a.n → (a.pv j).right = some y → effRight (a.pv x) = some y → x = j :=
    fun x y hx hy he => uniq x j y hx hj he (by rw [effRight_of_resp_none hjresp]; exact hy)
  have e5 : (a.pv j).highSome = true → ((a.pv j).right).isSome := fun hh' => by
    have := highRight j hj (by rw [hk]; decide) (Or.inr hl) (by rw [effHigh_of_resp_none hjresp]; exact hh')
    rw [effRight_of_resp_none hjresp] at this; exact this
  clear e0
  simp only [ansAG, upd_apply, effRight, effHigh] at *
  grind))

section
variable {a : AG} {j r : Nat} {k : Kind} {relink hh : Bool} (p : AnsPre a j r k relink hh)
include p

theorem ans_pv_r : (ansAG a j r k relink hh).pv r =
    { a.pv r with resp := some (hh, if relink then some (a.pv j).right else none) } := by
  simp [ansAG, upd_apply]

theorem ans_pv_j : (ansAG a j r k relink hh).pv j =
    { a.pv j with pending := none, kind := k, left := if relink then false else (a.pv j).left,
                  right := if relink then none else (a.pv j).right } := by
  have := p.hrj
  simp [ansAG, upd_apply, Ne.symm this]

theorem ans_pv_o (x : Nat) (h1 : x ≠ r) (h2 : x ≠ j) : (ansAG a j r k relink hh).pv x = a.pv x := by
  simp [ansAG, upd_apply, h1, h2]

theorem ans_eff_r : effRight ((ansAG a j r k relink hh).pv r) = if relink then (a.pv j).right else some j := by
  rw [ans_pv_r p]
  cases relink <;> simp [effRight, p.hrr]

theorem ans_eff_j : effRight ((ansAG a j r k relink hh).pv j) = if relink then none else (a.pv j).right := by
  rw [ans_pv_j p]
  simp [effRight, p.hjresp]

theorem ans_r_lt_j : r < j ∧ j < a.n := by
  have := p.inv.topo r j p.hrn (by rw [effRight_of_resp_none p.hrresp]; exact p.hrr)
  exact ⟨this.1, this.2.1⟩

theorem ans_topo : ∀ x y, x < (ansAG a j r k relink hh).n → effRight ((ansAG a j r k relink hh).pv x) = some y →
    x < y ∧ y < (ansAG a j r k relink hh).n ∧ ((ansAG a j r k relink hh).pv y).left = true ∧
      ((ansAG a j r k relink hh).pv y).kind ≠ .done := by
  intro x y hx he
  have hn : (ansAG a j r k relink hh).n = a.n := rfl
  rw [hn] at hx ⊢
  obtain ⟨hrj, hjn⟩ := ans_r_lt_j p
  have hjr : effRight (a.pv j) = (a.pv j).right := effRight_of_resp_none p.hjresp
  by_cases hxr : x = r
  · subst hxr
    rw [ans_eff_r p] at he
    by_cases hrel : relink = true
    · simp only [hrel, if_true] at he
      obtain ⟨h1, h2, h3, h4⟩ := p.inv.topo j y p.hj (by rw [hjr]; exact he)
      rw [ans_pv_o p y (by omega) (by omega)]
      exact ⟨by omega, h2, h3, h4⟩
    · simp only [hrel, Bool.false_eq_true, if_false, Option.some.injEq] at he
      subst he
      rw [ans_pv_j p]
      refine ⟨hrj, hjn, ?_, ?_⟩
      · simp [hrel, p.hl]
      · rcases p.hk' with h | h <;> simp [h]
  · by_cases hxj : x = j
    · subst hxj
      rw [ans_eff_j p] at he
      by_cases hrel : relink = true
      · simp [hrel] at he
      · simp only [hrel, Bool.false_eq_true, if_false] at he
        obtain ⟨h1, h2, h3, h4⟩ := p.inv.topo x y p.hj (by rw [hjr]; exact he)
        rw [ans_pv_o p y (by omega) (by omega)]
        exact ⟨h1, h2, h3, h4⟩
    · rw [ans_pv_o p x hxr hxj] at he
      obtain ⟨h1, h2, h3, h4⟩ := p.inv.topo x y hx he
      have hyj : y ≠ j := by
        intro e; subst e
        exact hxr (p.inv.uniq x r y hx p.hrn he (by rw [effRight_of_resp_none p.hrresp]; exact p.hrr))
      by_cases hyr : y = r
      · subst hyr
        rw [ans_pv_r p]
        exact ⟨h1, h2, h3, h4⟩
      · rw [ans_pv_o p y hyr hyj]
        exact ⟨h1, h2, h3, h4⟩

theorem ans_uniq : ∀ x x' y, x < (ansAG a j r k relink hh).n → x' < (ansAG a j r k relink hh).n →
    effRight ((ansAG a j r k relink hh).pv x) = some y → effRight ((ansAG a j r k relink hh).pv x') = some y → x = x' := by
  have hjr : effRight (a.pv j) = (a.pv j).right := effRight_of_resp_none p.hjresp
  have hrr : effRight (a.pv r) = some j := by rw [effRight_of_resp_none p.hrresp]; exact p.hrr
  -- the new effective right neighbour of any worker is the old one of a worker determined by it
  have key : ∀ x y, x < a.n → effRight ((ansAG a j r k relink hh).pv x) = some y →
      ∃ x0, x0 < a.n ∧ effRight (a.pv x0) = some y ∧ (x0 = x ∨ (x = r ∧ x0 = j ∧ relink = true)) ∧
        (x = j → relink = false) := by
    intro x y hx he
    by_cases hxr : x = r
    · subst hxr
      rw [ans_eff_r p] at he
      cases hrel : relink with
      | true =>
        rw [hrel] at he; simp only [if_true] at he
        exact ⟨j, p.hj, by rw [hjr]; exact he, Or.inr ⟨rfl, rfl, rfl⟩, fun e => absurd e p.hrj⟩
      | false =>
        rw [hrel] at he; simp only [Bool.false_eq_true, if_false] at he
        exact ⟨x, hx, by rw [hrr]; exact he, Or.inl rfl, fun _ => rfl⟩
    · by_cases hxj : x = j
      · subst hxj
        rw [ans_eff_j p] at he
        cases hrel : relink with
        | true => rw [hrel] at he; simp at he
        | false =>
          rw [hrel] at he; simp only [Bool.false_eq_true, if_false] at he
          exact ⟨x, hx, by rw [hjr]; exact he, Or.inl rfl, fun _ => rfl⟩
      · rw [ans_pv_o p x hxr hxj] at he
        exact ⟨x, hx, he, Or.inl rfl, fun e => absurd e hxj⟩
  intro x x' y hx hx' he he'
  obtain ⟨x0, h0, e0, c0, d0⟩ := key x y hx he
  obtain ⟨x1, h1, e1, c1, d1⟩ := key x' y hx' he'
  have := p.inv.uniq x0 x1 y h0 h1 e0 e1
  rcases c0 with c0 | ⟨c0, c0', c0''⟩ <;> rcases c1 with c1 | ⟨c1, c1', c1''⟩
  · omega
  · -- x0 = x, x' = r, x1 = j, relink: then x = j, but `j` has no right neighbour any more
    have : x = j := by omega
    have := d0 this
    rw [c1''] at this; cases this
  · have : x' = j := by omega
    have := d1 this
    rw [c0''] at this; cases this
  · omega

theorem ans_highRight : ∀ x, x < (ansAG a j r k relink hh).n → ((ansAG a j r k relink hh).pv x).kind ≠ .done →
    (((ansAG a j r k relink hh).pv x).fin = false ∨ ((ansAG a j r k relink hh).pv x).left = true) →
    effHigh ((ansAG a j r k relink hh).pv x) = true → (effRight ((ansAG a j r k relink hh).pv x)).isSome := by
  intro x hx hkd hfl hh'
  have hjr : effRight (a.pv j) = (a.pv j).right := effRight_of_resp_none p.hjresp
  by_cases hxr : x = r
  · subst hxr
    rw [ans_eff_r p]
    rw [ans_pv_r p] at hh'
    simp only [effHigh] at hh'
    cases hrel : relink with
    | true =>
      simp only [if_true]
      have := p.inv.highRight j p.hj (by rw [p.hk]; decide) (Or.inr p.hl)
        (by rw [effHigh_of_resp_none p.hjresp, ← (p.hhigh hrel).1]; exact hh')
      rw [hjr] at this; exact this
    | false => simp
  · by_cases hxj : x = j
    · subst hxj
      rw [ans_eff_j p]
      rw [ans_pv_j p] at hh' hfl
      simp only [effHigh, p.hjresp] at hh'
      cases hrel : relink with
      | true =>
        rw [hrel] at hfl
        simp only [if_true] at hfl
        rcases hfl with hfl | hfl
        · rw [(p.hhigh hrel).2] at hfl; cases hfl
        · cases hfl
      | false =>
        simp only [Bool.false_eq_true, if_false]
        have := p.inv.highRight x p.hj (by rw [p.hk]; decide) (Or.inr p.hl)
          (by rw [effHigh_of_resp_none p.hjresp]; exact hh')
        rw [hjr] at this; exact this
    · rw [ans_pv_o p x hxr hxj] at hkd hh' hfl ⊢
      exact p.inv.highRight x hx hkd hfl hh'

theorem ans_chans_o (y : Nat) (h : y ≠ j) : (ansAG a j r k relink hh).chans y = a.chans y := by
  simp [ansAG, upd_apply, h]

theorem ans_only_r (x : Nat) (h : x ∈ a.chans j ∨ (a.pv j).pending = some x) : x = r := by
  rcases p.hreq with ⟨hp, hc⟩ | ⟨hp, hc⟩
  · rcases h with h | h
    · rw [hc] at h; simp at h
    · rw [hp] at h; cases h; rfl
  · rcases h with h | h
    · rw [hc] at h; simpa using h
    · rw [hp] at h; cases h

theorem ans_pendReq : ∀ y x, y < (ansAG a j r k relink hh).n → ((ansAG a j r k relink hh).pv y).pending = some x →
    x < (ansAG a j r k relink hh).n ∧ ((ansAG a j r k relink hh).pv x).kind = .wait ∧
      ((ansAG a j r k relink hh).pv x).right = some y ∧ ((ansAG a j r k relink hh).pv x).resp = none ∧
      (ansAG a j r k relink hh).chans y = [] := by
  intro y x hy hp
  have hn : (ansAG a j r k relink hh).n = a.n := rfl
  rw [hn] at hy ⊢
  by_cases hyj : y = j
  · subst hyj; rw [ans_pv_j p] at hp; cases hp
  · have hp' : (a.pv y).pending = some x := by
      by_cases hyr : y = r
      · subst hyr; rw [ans_pv_r p] at hp; exact hp
      · rw [ans_pv_o p y hyr hyj] at hp; exact hp
    obtain ⟨h1, h2, h3, h4, h5⟩ := p.inv.pendReq y x hy hp'
    have hxj : x ≠ j := by intro e; subst e; rw [p.hk] at h2; cases h2
    have hxr : x ≠ r := by intro e; subst e; rw [p.hrr] at h3; cases h3; exact hyj rfl
    rw [ans_pv_o p x hxr hxj, ans_chans_o p y hyj]
    exact ⟨h1, h2, h3, h4, h5⟩

theorem ans_waitOk : ∀ x, x < (ansAG a j r k relink hh).n → ((ansAG a j r k relink hh).pv x).kind = .wait →
    ((ansAG a j r k relink hh).pv x).resp.isSome ∨
      ∃ y, ((ansAG a j r k relink hh).pv x).right = some y ∧
        (x ∈ (ansAG a j r k relink hh).chans y ∨ ((ansAG a j r k relink hh).pv y).pending = some x) := by
  intro x hx hkw
  have hn : (ansAG a j r k relink hh).n = a.n := rfl
  rw [hn] at hx
  by_cases hxr : x = r
  · subst hxr; left; rw [ans_pv_r p]; rfl
  · by_cases hxj : x = j
    · subst hxj; rw [ans_pv_j p] at hkw
      rcases p.hk' with h | h <;> rw [h] at hkw <;> cases hkw
    · rw [ans_pv_o p x hxr hxj] at hkw ⊢
      rcases p.inv.waitOk x hx hkw with h | ⟨y, hy, hm⟩
      · left; exact h
      · right
        have hyj : y ≠ j := by
          intro e; subst e
          exact hxr (ans_only_r p x hm)
        refine ⟨y, hy, ?_⟩
        rw [ans_chans_o p y hyj]
        by_cases hyr : y = r
        · subst hyr; rw [ans_pv_r p]; exact hm
        · rw [ans_pv_o p y hyr hyj]; exact hm

end

theorem ans_chanReq {a : AG} {j r : Nat} {k : Kind} {relink hh : Bool} (p : AnsPre a j r k relink hh) :
    ∀ y x, y < (ansAG a j r k relink hh).n → x ∈ (ansAG a j r k relink hh).chans y → x < (ansAG a j r k relink hh).n ∧ ((ansAG a j r k relink hh).pv x).kind = .wait ∧ ((ansAG a j r k relink hh).pv x).right = some y ∧ ((ansAG a j r k relink hh).pv x).resp = none ∧ (ansAG a j r k relink hh).chans y = [x] ∧ ((ansAG a j r k relink hh).pv y).pending = none := by
  ans_field p

theorem ans_respWait {a : AG} {j r : Nat} {k : Kind} {relink hh : Bool} (p : AnsPre a j r k relink hh) :
    ∀ x, x < (ansAG a j r k relink hh).n → ((ansAG a j r k relink hh).pv x).resp.isSome → ((ansAG a j r k relink hh).pv x).kind = .wait := by
  ans_field p

theorem ans_frecvPend {a : AG} {j r : Nat} {k : Kind} {relink hh : Bool} (p : AnsPre a j r k relink hh) :
    ∀ x, x < (ansAG a j r k relink hh).n → ((ansAG a j r k relink hh).pv x).kind = .frecv → ((ansAG a j r k relink hh).pv x).pending = none := by
  ans_field p

theorem ans_pendLeft {a : AG} {j r : Nat} {k : Kind} {relink hh : Bool} (p : AnsPre a j r k relink hh) :
    ∀ y, y < (ansAG a j r k relink hh).n → ((ansAG a j r k relink hh).pv y).pending.isSome → ((ansAG a j r k relink hh).pv y).left = true := by
  ans_field p

theorem ans_chanLeft {a : AG} {j r : Nat} {k : Kind} {relink hh : Bool} (p : AnsPre a j r k relink hh) :
    ∀ y, y < (ansAG a j r k relink hh).n → (ansAG a j r k relink hh).chans y ≠ [] → ((ansAG a j r k relink hh).pv y).left = true := by
  ans_field p

theorem ans_doneOk {a : AG} {j r : Nat} {k : Kind} {relink hh : Bool} (p : AnsPre a j r k relink hh) :
    ∀ x, x < (ansAG a j r k relink hh).n → ((ansAG a j r k relink hh).pv x).kind = .done → ((ansAG a j r k relink hh).pv x).right = none ∧ ((ansAG a j r k relink hh).pv x).left = false := by
  ans_field p

theorem ans_chanOut {a : AG} {j r : Nat} {k : Kind} {relink hh : Bool} (p : AnsPre a j r k relink hh) :
    ∀ y, (ansAG a j r k relink hh).n ≤ y → (ansAG a j r k relink hh).chans y = [] := by
  ans_field p

theorem ATrans.inv_ans {a : AG} {j r : Nat} {k : Kind} {relink hh : Bool} (p : AnsPre a j r k relink hh) :
    AInv (ansAG a j r k relink hh) :=
  ⟨ans_topo p, ans_uniq p, ans_chanReq p, ans_pendReq p, ans_waitOk p, ans_respWait p, ans_highRight p, ans_frecvPend p,
    ans_pendLeft p, ans_chanLeft p, ans_doneOk p, ans_chanOut p⟩

/-- every move keeps the invariant -/
theorem ATrans.inv {a a' : AG} (h : AInv a) (t : ATrans a a') : AInv a' := by
  cases t with
  | loc i f hi hk hf => exact ATrans.inv_loc h i f hi hk hf
  | send i j hi hk hr => exact ATrans.inv_send h i j hi hk hr
  | poll0 j k hj hk hk' => exact ATrans.inv_poll0 h j k hj hk hk'
  | disc j k hj hk hk' hp hc hd => exact ATrans.inv_disc h j k hj hk hk' hp hc hd
  | pend j r rest hj hk hl hreq => exact ATrans.inv_pend h j r rest hj hk hl hreq
  | recv i hh nr hi hresp hgo => exact ATrans.inv_recv h i hh nr hi hresp hgo
  | resend i j hh hi hresp => exact ATrans.inv_resend h i j hh hi hresp
  | fin i hi hk hl => exact ATrans.inv_fin h i hi hk hl
  | ans j r rest k relink hh hj hk hk' hl hreq hhigh =>
    obtain ⟨hrn, hrk, hrr, hrresp, hrest, hrj, hjresp⟩ := h.requester j r rest hj hk hreq
    subst hrest
    have hreq' : ((a.pv j).pending = some r ∧ a.chans j = []) ∨ ((a.pv j).pending = none ∧ a.chans j = [r]) := by
      rcases hreq with ⟨h1, h2⟩ | ⟨h1, h2⟩
      · exact Or.inl ⟨h1, h2.symm⟩
      · exact Or.inr ⟨h1, h2⟩
    exact ATrans.inv_ans ⟨h, hj, hk, hk', hl, hrn, hrk, hrr, hrresp, hrj, hjresp, hreq', hhigh⟩

end Nomt.ExtRange
