import NomtModel.Store.ImgCheck
/-!
# Ownership marks of the walk `wfDetailM`: what a successful `claim` / `claimAll` / `claimFreeList` says

`MarksLe a b`: the marks only grow — an entry that is claimed (non-zero) in `a` has the same value in `b`.  Every
walker of `wfDetailM` only ever calls `claim`, which refuses a page that is already claimed; so whatever a page is
claimed as at some point of the walk is what the FINAL marks (the ones `checkPlacement` consults) say about it.
-/
namespace Nomt.Store

def MarksLe (a b : Array UInt8) : Prop := a.size = b.size ∧ ∀ i : Nat, a[i]! ≠ 0 → b[i]! = a[i]!

theorem MarksLe.refl (a : Array UInt8) : MarksLe a a := ⟨rfl, fun _ _ => rfl⟩

theorem MarksLe.trans {a b c : Array UInt8} (h1 : MarksLe a b) (h2 : MarksLe b c) : MarksLe a c := by
  refine ⟨h1.1.trans h2.1, fun i hi => ?_⟩
  have hb := h1.2 i hi
  rw [h2.2 i (by rw [hb]; exact hi), hb]

theorem get!_set! (a : Array UInt8) (p i : Nat) (t : UInt8) :
    (a.set! p t)[i]! = if i = p ∧ p < a.size then t else a[i]! := by
  simp only [Array.set!, getElem!_def, Array.getElem?_setIfInBounds]
  by_cases h : p = i
  · subst h
    by_cases hp : p < a.size
    · simp [hp]
    · simp [hp]
  · have h' : ¬ i = p := fun e => h e.symm
    simp [h, h']

theorem get!_replicate_zero (n i : Nat) : (Array.replicate n (0 : UInt8))[i]! = 0 := by
  simp only [getElem!_def, Array.getElem?_replicate]
  by_cases h : i < n <;> simp [h] <;> rfl

theorem claim_ok {marks : Array UInt8} {bump pn : Nat} {tag : UInt8} {what : String} {mk' : Array UInt8}
    (h : claim marks bump pn tag what = .ok mk') :
    pn ≠ 0 ∧ pn < bump ∧ marks[pn]! = 0 ∧ mk' = marks.set! pn tag := by
  unfold claim at h
  split at h
  · cases h
  · rename_i h1
    split at h
    · cases h
    · rename_i h2
      simp only [pure, Except.pure, Except.ok.injEq] at h
      simp only [Bool.or_eq_true, beq_iff_eq, decide_eq_true_eq, not_or, Nat.not_le] at h1
      simp only [bne_iff_ne, ne_eq, Decidable.not_not] at h2
      exact ⟨h1.1, h1.2, h2, h.symm⟩

/-- a claim succeeds exactly on the state it would succeed on: it depends on nothing else -/
theorem claim_spec {marks : Array UInt8} {bump pn : Nat} {tag : UInt8} {what : String} {mk' : Array UInt8}
    (h : claim marks bump pn tag what = .ok mk') (hsz : marks.size = bump) :
    mk'.size = bump ∧ MarksLe marks mk' ∧ mk'[pn]! = tag ∧ pn ≠ 0 ∧ pn < bump ∧
    (∀ i : Nat, mk'[i]! = marks[i]! ∨ (i = pn ∧ mk'[i]! = tag)) := by
  obtain ⟨h0, hlt, hz, rfl⟩ := claim_ok h
  have hle : MarksLe marks (marks.set! pn tag) := by
    refine ⟨by simp [Array.set!], fun i hi => ?_⟩
    rw [get!_set!]
    by_cases hip : i = pn
    · subst hip; exact absurd hz hi
    · simp [hip]
  have htag : (marks.set! pn tag)[pn]! = tag := by
    rw [get!_set!]; simp [hsz, hlt]
  have hch : ∀ i : Nat, (marks.set! pn tag)[i]! = marks[i]! ∨ (i = pn ∧ (marks.set! pn tag)[i]! = tag) := by
    intro i
    rw [get!_set!]
    by_cases hip : i = pn ∧ pn < marks.size
    · right; rw [if_pos hip]; exact ⟨hip.1, rfl⟩
    · left; rw [if_neg hip]
  exact ⟨by simp [Array.set!, hsz], hle, htag, h0, hlt, hch⟩

theorem claimAll_spec (bump : Nat) (tag : UInt8) (what : String) (htag : tag ≠ 0) :
    ∀ (pns : List Nat) (marks mk' : Array UInt8), claimAll marks bump tag what pns = .ok mk' → marks.size = bump →
      mk'.size = bump ∧ MarksLe marks mk' ∧ (∀ p ∈ pns, mk'[p]! = tag ∧ p ≠ 0 ∧ p < bump) ∧
      (∀ i : Nat, mk'[i]! = marks[i]! ∨ (i ∈ pns ∧ mk'[i]! = tag)) := by
  intro pns
  induction pns with
  | nil =>
    intro marks mk' h hsz
    simp only [claimAll, pure, Except.pure, Except.ok.injEq] at h
    subst h
    exact ⟨hsz, MarksLe.refl _, fun p hp => (by cases hp), fun i => Or.inl rfl⟩
  | cons p ps ih =>
    intro marks mk' h hsz
    simp only [claimAll, bind, Except.bind] at h
    cases hc : claim marks bump p tag what with
    | error e => rw [hc] at h; cases h
    | ok mk1 =>
      rw [hc] at h
      simp only at h
      obtain ⟨hs1, hle1, hp1, hp0, hplt, hch1⟩ := claim_spec hc hsz
      obtain ⟨hs2, hle2, hall2, hch2⟩ := ih mk1 mk' h hs1
      refine ⟨hs2, hle1.trans hle2, ?_, ?_⟩
      · intro q hq
        rcases List.mem_cons.1 hq with rfl | hq
        · refine ⟨?_, hp0, hplt⟩
          rw [hle2.2 q (by rw [hp1]; exact htag), hp1]
        · exact hall2 q hq
      · intro i
        rcases hch2 i with h2 | ⟨h2, h2'⟩
        · rcases hch1 i with h1 | ⟨h1, h1'⟩
          · left; rw [h2, h1]
          · right; exact ⟨by rw [h1]; exact List.mem_cons_self, by rw [h2, h1']⟩
        · right; exact ⟨List.mem_cons_of_mem _ h2, h2'⟩

theorem claimFreeList_spec (bump : Nat) (what : String) :
    ∀ (fl : List (Nat × List Nat)) (marks mk' : Array UInt8), claimFreeList marks bump fl what = .ok mk' → marks.size = bump →
      mk'.size = bump ∧ MarksLe marks mk' ∧ (∀ x ∈ fl, mk'[x.1]! = 3 ∧ x.1 < bump) ∧
      (∀ i : Nat, mk'[i]! = marks[i]! ∨ (i ∈ trackedOf fl ∧ (mk'[i]! = 3 ∨ mk'[i]! = 4))) := by
  intro fl
  induction fl with
  | nil =>
    intro marks mk' h hsz
    simp only [claimFreeList, pure, Except.pure, Except.ok.injEq] at h
    subst h
    exact ⟨hsz, MarksLe.refl _, fun p hp => (by cases hp), fun i => Or.inl rfl⟩
  | cons x rest ih =>
    obtain ⟨pn, items⟩ := x
    intro marks mk' h hsz
    simp only [claimFreeList, bind, Except.bind] at h
    cases hc : claim marks bump pn 3 (what ++ " free-list page") with
    | error e => rw [hc] at h; cases h
    | ok mk1 =>
      rw [hc] at h
      simp only at h
      cases hc2 : claimAll mk1 bump 4 (what ++ " free page") items with
      | error e => rw [hc2] at h; cases h
      | ok mk2 =>
        rw [hc2] at h
        simp only at h
        obtain ⟨hs1, hle1, hp1, _, hplt, hch1⟩ := claim_spec hc hsz
        obtain ⟨hs2, hle2, _, hch2⟩ := claimAll_spec bump 4 _ (by decide) items mk1 mk2 hc2 hs1
        obtain ⟨hs3, hle3, hall3, hch3⟩ := ih mk2 mk' h hs2
        refine ⟨hs3, (hle1.trans hle2).trans hle3, ?_, ?_⟩
        · intro y hy
          rcases List.mem_cons.1 hy with rfl | hy
          · refine ⟨?_, hplt⟩
            have : mk2[pn]! = 3 := by rw [hle2.2 pn (by rw [hp1]; decide), hp1]
            rw [hle3.2 pn (by rw [this]; decide), this]
          · exact hall3 y hy
        · intro i
          rcases hch3 i with h3 | ⟨h3, hv3⟩
          · rcases hch2 i with h2 | ⟨h2, hv2⟩
            · rcases hch1 i with h1 | ⟨h1, hv1⟩
              · left; rw [h3, h2, h1]
              · right; exact ⟨by simp [trackedOf, h1], Or.inl (by rw [h3, h2, hv1])⟩
            · right; exact ⟨by simp [trackedOf, h2], Or.inr (by rw [h3, hv2])⟩
          · right
            refine ⟨?_, hv3⟩
            simp only [trackedOf, List.flatMap_cons, List.mem_append] at h3 ⊢
            exact Or.inr h3

end Nomt.Store
