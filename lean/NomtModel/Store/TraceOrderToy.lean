import NomtModel.Store.TraceOrderSim
import NomtModel.Store.ConcToy
/-!
# Concrete renderings of the two toy traces (`Store/ConcToy.lean`) in the format of the real I/O trace

`goodLines` / `badLines` are traces as the cfg(nomt_verif) hook writes them (kind, file, offset, thread).  Their
abstraction with the contents `C` IS `CToy.good` / `CToy.bad`; the order monitor `checkOrder` accepts the first and
rejects the second.
-/
namespace Nomt.Store.OToy
open NomtDisk NomtDisk.Toy

def ln (b : Bool) (kind file : String) (off : Nat) (th : String) : IoEv2 :=
  { isBegin := b, ev := { kind := kind, file := file, offset := off, len := if kind = "Write" then PAGE else 0, site := "toy" },
    thread := th }

def preLines : List IoEv2 :=
  [ln true "Write" "ln" (2 * PAGE) "t5",
   ln true "Append" "wal" 0 "t2",
   ln false "Append" "wal" 0 "t2",
   ln true "Fsync" "wal" 0 "t2",
   ln true "Fsync" "ln" 0 "t3",          -- issued while the write of page 2 is in flight
   ln false "Write" "ln" (2 * PAGE) "t4",
   ln false "Fsync" "wal" 0 "t2",
   ln false "Fsync" "ln" 0 "t3"]

def goodLines : List IoEv2 :=
  preLines ++
  [ln true "Fsync" "ln" 0 "t3",
   ln false "Fsync" "ln" 0 "t3",
   ln true "Write" "meta" 0 "t1",
   ln false "Write" "meta" 0 "t1",
   ln true "Fsync" "meta" 0 "t1",
   ln false "Fsync" "meta" 0 "t1",
   ln true "Write" "ht" (5 * PAGE) "t1",
   ln false "Write" "ht" (5 * PAGE) "t4",
   ln true "Fsync" "ht" 0 "t1",
   ln false "Fsync" "ht" 0 "t1",
   ln true "SetLen" "wal" 0 "t1",
   ln false "SetLen" "wal" 0 "t1"]

def badLines : List IoEv2 :=
  preLines ++
  [ln true "Write" "meta" 0 "t1",
   ln false "Write" "meta" 0 "t1",
   ln true "Fsync" "meta" 0 "t1",
   ln false "Fsync" "meta" 0 "t1"]

/-- the WAL truncation the previous sync left un-synced, as an entry of the monitor's pending list -/
def pendingTrunc : Pend :=
  { id := 0, kind := "SetLen", file := "wal", name := "wal", offset := 0, site := "wal.truncate", ended := true }

/-- the contents the trace does not carry -/
def C : Contents Nat TMeta (Nat × List (Nat × Nat)) where
  page := fun i => if i = 0 then 7 else 9
  mt := fun _ => m1
  wal := fun _ => w1

theorem good_accepted : (checkOrder goodLines).toBool = true := by decide
theorem bad_rejected : (checkOrder badLines).toBool = false := by decide

theorem good_abs : absTrace (LogRec := Nat) C {} 0 goodLines = CToy.good := by rfl
/-- the abstraction stops at the first line the monitor rejects: the Begin of the meta write -/
theorem bad_abs : absTrace (LogRec := Nat) C {} 0 badLines = CToy.badCut := by rfl

end Nomt.Store.OToy
