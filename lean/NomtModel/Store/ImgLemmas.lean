import NomtModel.Store.ImgCheck
/-!
Helper lemmas for `Props/C16.lean`: reading little-endian numbers back from encoded byte lists
(round trips of the format encoders), and sortedness facts behind `wfImage`.
-/
namespace Nomt.Store
set_option linter.unusedSimpArgs false

/-! ## bytes -/

theorem get!_toByteArray (l : List UInt8) (i : Nat) : l.toByteArray.get! i = l.getD i 0 := by
  show l.toByteArray.data[i]! = _
  rw [List.data_toByteArray]
  simp [List.getD_eq_getElem?_getD]
  rfl

theorem u8_toByteArray (l : List UInt8) (i : Nat) : u8 l.toByteArray i = (l.getD i 0).toNat := by
  simp [u8, get!_toByteArray]

theorem u8_append_right (a b : List UInt8) (i : Nat) :
    u8 (a ++ b).toByteArray (a.length + i) = u8 b.toByteArray i := by
  rw [u8_toByteArray, u8_toByteArray]
  simp [List.getD_eq_getElem?_getD, List.getElem?_append_right]

theorem u16le_append_right (a b : List UInt8) (i : Nat) :
    u16le (a ++ b).toByteArray (a.length + i) = u16le b.toByteArray i := by
  simp only [u16le, Nat.add_assoc, u8_append_right]

theorem u32le_append_right (a b : List UInt8) (i : Nat) :
    u32le (a ++ b).toByteArray (a.length + i) = u32le b.toByteArray i := by
  simp only [u32le, Nat.add_assoc, u16le_append_right]

theorem u64le_append_right (a b : List UInt8) (i : Nat) :
    u64le (a ++ b).toByteArray (a.length + i) = u64le b.toByteArray i := by
  simp only [u64le, Nat.add_assoc, u32le_append_right]

theorem length_le16 (n : Nat) : (le16 n).length = 2 := rfl
theorem length_le32 (n : Nat) : (le32 n).length = 4 := rfl
theorem length_le64 (n : Nat) : (le64 n).length = 8 := rfl

theorem u16le_le16 (n : Nat) (r : List UInt8) (h : n < 65536) : u16le (le16 n ++ r).toByteArray 0 = n := by
  simp [u16le, u8_toByteArray, le16]; omega

theorem u32le_le32 (n : Nat) (r : List UInt8) (h : n < 2^32) : u32le (le32 n ++ r).toByteArray 0 = n := by
  simp [u32le, u16le, u8_toByteArray, le32, le16]; omega

theorem u64le_le64 (n : Nat) (r : List UInt8) (h : n < 2^64) : u64le (le64 n ++ r).toByteArray 0 = n := by
  simp [u64le, u32le, u16le, u8_toByteArray, le64, le32, le16]; omega

theorem length_flatMap_le32 (items : List Nat) : (items.flatMap le32).length = 4 * items.length := by
  induction items with
  | nil => rfl
  | cons x xs ih => simp [List.flatMap_cons, ih, length_le32]; omega

/-- reading the `i`-th u32 of a `flatMap le32` block -/
theorem u32le_flatMap (items : List Nat) (post : List UInt8) (hb : ∀ x ∈ items, x < 2^32) :
    ∀ i (hi : i < items.length), u32le (items.flatMap le32 ++ post).toByteArray (4 * i) = items[i] := by
  induction items with
  | nil => intro i hi; cases hi
  | cons x xs ih =>
    intro i hi
    cases i with
    | zero =>
      simp only [List.flatMap_cons, List.append_assoc, Nat.mul_zero, List.getElem_cons_zero]
      exact u32le_le32 x _ (hb x (List.mem_cons_self))
    | succ j =>
      have : 4 * (j + 1) = (le32 x).length + 4 * j := by simp [length_le32]; omega
      simp only [List.flatMap_cons, List.append_assoc, List.getElem_cons_succ]
      rw [this, u32le_append_right]
      exact ih (fun y hy => hb y (List.mem_cons_of_mem _ hy)) j (by simpa using hi)

theorem map_range_u32le (pre items post : List UInt8) (its : List Nat) (hits : items = its.flatMap le32)
    (hb : ∀ x ∈ its, x < 2^32) (o : Nat) (ho : o = pre.length) :
    (List.range its.length).map (fun i => u32le (pre ++ (items ++ post)).toByteArray (o + 4 * i)) = its := by
  subst hits ho
  apply List.ext_getElem
  · simp
  · intro i h1 h2
    simp only [List.getElem_map, List.getElem_range]
    rw [u32le_append_right]
    exact u32le_flatMap its post hb i h2

/-! ## round trips -/

theorem meta_rt (m : Meta) (h : m.WF) : decodeMeta (encodeMeta m) = some m := by
  obtain ⟨h1,h2,h3,h4,h5,h6,h7,h8,h9,h10,h11,h12⟩ := h
  have hs : (encodeMeta m).size = 64 := by
    simp [encodeMeta, encodeMetaL, le64, le32, le16, List.size_toByteArray]
  simp only [decodeMeta, hs, META_SIZE]
  simp only [Nat.lt_irrefl, if_false, Option.some.injEq]
  cases m
  simp only [Meta.mk.injEq]
  simp only [encodeMeta, encodeMetaL, u64le, u32le, u16le, u8_toByteArray, le64, le32, le16, List.cons_append, List.nil_append,
    List.getD_cons_succ, List.getD_cons_zero, UInt8.toNat_ofNat']
  simp at *
  omega

theorem recordHeader_rt (len id : Nat) (hl : len < 2^32) (hi : id < 2^64) :
    decodeRecordHeader (encodeRecordHeader len id) 0 = some (len, id) := by
  have hs : (encodeRecordHeader len id).size = 12 := by
    simp only [encodeRecordHeader, encodeRecordHeaderL, List.size_toByteArray, List.length_append, length_le32, length_le64]
  unfold decodeRecordHeader
  rw [if_neg (by omega)]
  have e1 : u32le (encodeRecordHeader len id) 0 = len := u32le_le32 _ _ hl
  have e2 : u64le (encodeRecordHeader len id) (0 + 4) = id := by
    have := u64le_append_right (le32 len) (le64 id ++ []) 0
    simp only [length_le32, Nat.add_zero, List.append_nil] at this
    simp only [encodeRecordHeader, encodeRecordHeaderL]
    rw [show 0 + 4 = 4 from rfl, this]
    simpa using u64le_le64 id [] hi
  rw [e1, e2]

theorem freelist_rt (prev : Nat) (items : List Nat) (hp : prev < 2^32) (hb : ∀ x ∈ items, x < 2^32)
    (hl : items.length ≤ MAX_PNS_PER_FREELIST_PAGE) :
    decodeFreeListPage (encodeFreeListPage prev items) = some (prev, items) := by
  have hl' : items.length ≤ 1022 := hl
  have hlen : (encodeFreeListPageL prev items).length = 6 + 4 * items.length := by
    simp only [encodeFreeListPageL, List.length_append, length_le32, length_le16, length_flatMap_le32]
  have hsz : (encodeFreeListPage prev items).size = PAGE := by
    simp only [encodeFreeListPage, List.size_toByteArray, List.length_append, List.length_replicate, hlen, PAGE]
    omega
  unfold decodeFreeListPage
  simp only [hsz, Nat.lt_irrefl, if_false]
  have hcnt : u16le (encodeFreeListPage prev items) 4 = items.length := by
    have := u16le_append_right (le32 prev) (le16 items.length ++ (items.flatMap le32 ++ List.replicate (PAGE - (encodeFreeListPageL prev items).length) 0)) 0
    simp only [length_le32, Nat.add_zero] at this
    simp only [encodeFreeListPage, encodeFreeListPageL, List.append_assoc] at this ⊢
    rw [this]
    exact u16le_le16 _ _ (by omega)
  have hprev : u32le (encodeFreeListPage prev items) 0 = prev := by
    simp only [encodeFreeListPage, encodeFreeListPageL, List.append_assoc]
    exact u32le_le32 _ _ hp
  rw [hcnt, hprev]
  have : ¬ items.length > MAX_PNS_PER_FREELIST_PAGE := by omega
  simp only [this, if_false]
  congr 2
  have := map_range_u32le (le32 prev ++ le16 items.length) (items.flatMap le32)
    (List.replicate (PAGE - (encodeFreeListPageL prev items).length) 0) items rfl hb 6 (by simp [length_le32, length_le16])
  simpa only [encodeFreeListPage, encodeFreeListPageL, List.append_assoc] using this

theorem toByteArray_data_toList (b : ByteArray) : b.data.toList.toByteArray = b := by
  apply ByteArray.ext
  simp [List.data_toByteArray]

theorem overflowCell_rt (c : OverflowCell) (hh : c.valueHash.size = 32) (hs : c.valueSize < 2^64)
    (hb : ∀ x ∈ c.pages, x < 2^32) (hne : c.pages ≠ []) :
    decodeOverflowCell (encodeOverflowCell c) = some c := by
  obtain ⟨vs, vh, pages⟩ := c
  simp only at hh hs hb hne
  have hhl : vh.data.toList.length = 32 := by rw [Array.length_toList, ByteArray.size_data]; exact hh
  have hpl : 0 < pages.length := List.length_pos_iff.2 hne
  have hsz : (encodeOverflowCell ⟨vs, vh, pages⟩).size = 40 + 4 * pages.length := by
    simp only [encodeOverflowCell, encodeOverflowCellL, List.size_toByteArray, List.length_append, length_le64, hhl,
      length_flatMap_le32]
  unfold decodeOverflowCell
  have hc : ¬ ((encodeOverflowCell ⟨vs, vh, pages⟩).size < 44 ∨ (encodeOverflowCell ⟨vs, vh, pages⟩).size % 4 ≠ 0) := by
    rw [hsz]; omega
  rw [if_neg hc]
  congr 1
  rw [hsz]
  have e1 : u64le (encodeOverflowCell ⟨vs, vh, pages⟩) 0 = vs := by
    simp only [encodeOverflowCell, encodeOverflowCellL, List.append_assoc]
    exact u64le_le64 _ _ hs
  have e2 : (encodeOverflowCell ⟨vs, vh, pages⟩).extract 8 40 = vh := by
    simp only [encodeOverflowCell, encodeOverflowCellL, List.append_assoc, List.toByteArray_append]
    rw [show (40 : Nat) = 8 + 32 from rfl, show (8 : Nat) = 8 + 0 from rfl]
    rw [ByteArray.extract_append_size_add' (by simp [List.size_toByteArray, length_le64])]
    rw [ByteArray.extract_append_eq_left (by simp [List.size_toByteArray, hhl])]
    exact toByteArray_data_toList vh
  have e3 : (List.range ((40 + 4 * pages.length - 40) / 4)).map (fun i => u32le (encodeOverflowCell ⟨vs, vh, pages⟩) (40 + 4 * i)) = pages := by
    have hn : (40 + 4 * pages.length - 40) / 4 = pages.length := by omega
    rw [hn]
    have := map_range_u32le (le64 vs ++ vh.data.toList) (pages.flatMap le32) [] pages rfl hb 40
      (by rw [List.length_append, length_le64, hhl])
    simpa only [encodeOverflowCell, encodeOverflowCellL, List.append_assoc, List.append_nil] using this
  rw [e1, e2, e3]

/-! ## sortedness -/

theorem pairwise_of_strictlySorted : ∀ l : List Nat, strictlySorted l = true → l.Pairwise (· < ·)
  | [], _ => List.Pairwise.nil
  | [a], _ => by simp
  | a :: b :: t, h => by
    simp only [strictlySorted, Bool.and_eq_true, decide_eq_true_eq] at h
    have ih := pairwise_of_strictlySorted (b :: t) h.2
    refine List.pairwise_cons.2 ⟨?_, ih⟩
    intro x hx
    rcases List.mem_cons.1 hx with rfl | hx
    · exact h.1
    · exact Nat.lt_trans h.1 ((List.pairwise_cons.1 ih).1 x hx)

/-- strictly increasing key numbers: no key twice -/
theorem nodup_keys_of_sorted {kvs : List (ByteArray × ByteArray)}
    (h : (kvs.map (fun kv => keyNat kv.1)).Pairwise (· < ·)) : (kvs.map Prod.fst).Nodup := by
  rw [List.pairwise_map] at h
  rw [List.Nodup, List.pairwise_map]
  exact h.imp (fun {a b} hab heq => by rw [heq] at hab; exact Nat.lt_irrefl _ hab)

/-- the key lists of the leaves are ordered: within a leaf and from every earlier leaf to every later one -/
theorem leaves_ordered {ls : List (List (ByteArray × ByteArray))}
    (h : (ls.flatten.map (fun kv => keyNat kv.1)).Pairwise (· < ·)) :
    ls.Pairwise (fun l₁ l₂ => ∀ a ∈ l₁, ∀ b ∈ l₂, keyNat a.1 < keyNat b.1) ∧
    ∀ l ∈ ls, (l.map (fun kv => keyNat kv.1)).Pairwise (· < ·) := by
  rw [List.pairwise_map, List.pairwise_flatten] at h
  refine ⟨h.2, fun l hl => ?_⟩
  rw [List.pairwise_map]
  exact h.1 l hl

/-- a manifest as found in a real directory (used by the `example` of `Props/C16.lean`) -/
def sampleMeta : Meta :=
  { magic := MAGIC, version := 1, lnFreelistPn := 141, lnBump := 142, bbnFreelistPn := 3, bbnBump := 5,
    syncSeqn := 6, bitboxNumPages := 4096, seed0 := 7, seed1 := 9, rollbackStartLive := 1, rollbackEndLive := 4 }

/-! ## structure of `wfImage` / `absImage`, and the read path -/

theorem wfImage_decoded {img : Image} {st : Stats} (h : wfImage img = .ok st) :
    ∃ d, decodeAll img = .ok d ∧ strictlySorted (imageKeys d.ls) = true ∧
      strictlySorted (d.seps.map (·.1)) = true ∧ leavesInRange d.seps d.ls = true := by
  unfold wfImage at h
  cases hd : decodeAll img with
  | error e => rw [hd] at h; cases h
  | ok d =>
    rw [hd] at h
    refine ⟨d, rfl, ?_⟩
    by_cases h1 : strictlySorted (imageKeys d.ls) = true
    · by_cases h2 : strictlySorted (d.seps.map (·.1)) = true
      · by_cases h3 : leavesInRange d.seps d.ls = true
        · exact ⟨h1, h2, h3⟩
        · simp [h1, h2, h3, bind, Except.bind, throw, throwThe, MonadExceptOf.throw] at h
      · simp [h1, h2, bind, Except.bind, throw, throwThe, MonadExceptOf.throw] at h
    · simp [h1, bind, Except.bind, throw, throwThe, MonadExceptOf.throw] at h

theorem absImage_of_decodeAll {img : Image} {d : Decoded} (h : decodeAll img = .ok d) :
    absLeaves img = .ok d.ls ∧ absImage img = .ok d.ls.flatten := by
  have h1 : absLeaves img = .ok d.ls := by
    simp [absLeaves, h, bind, Except.bind, pure, Except.pure]
  exact ⟨h1, by simp [absImage, h1, bind, Except.bind, pure, Except.pure]⟩

theorem decodeAll_parts {img : Image} {d : Decoded} (h : decodeAll img = .ok d) :
    imageMeta img = .ok d.m ∧ imageSeps img d.m = .ok d.seps ∧
    d.seps.mapM (fun s => leafKVs img.ln d.m.lnBump s.2) = .ok d.ls := by
  unfold decodeAll at h
  cases h1 : imageMeta img with
  | error e => rw [h1] at h; cases h
  | ok m =>
    rw [h1] at h
    simp only [bind, Except.bind] at h
    cases h2 : imageSeps img m with
    | error e => rw [h2] at h; cases h
    | ok seps =>
      rw [h2] at h
      simp only at h
      cases h3 : seps.mapM (fun s => leafKVs img.ln m.lnBump s.2) with
      | error e => rw [h3] at h; cases h
      | ok ls =>
        rw [h3] at h
        simp only [pure, Except.pure, Except.ok.injEq] at h
        subst h
        exact ⟨rfl, h2, h3⟩

theorem mapM_nil_ok {α β : Type} (f : α → Except String β) {r : List β}
    (h : ([] : List α).mapM f = .ok r) : r = [] := by
  simp [List.mapM_nil, pure, Except.pure] at h
  exact h

theorem mapM_cons_ok {α β : Type} (f : α → Except String β) {a : α} {l : List α} {r : List β}
    (h : (a :: l).mapM f = .ok r) : ∃ b bs, f a = .ok b ∧ l.mapM f = .ok bs ∧ r = b :: bs := by
  rw [List.mapM_cons] at h
  cases ha : f a with
  | error e => rw [ha] at h; cases h
  | ok b =>
    rw [ha] at h
    simp only [bind, Except.bind] at h
    cases hl : l.mapM f with
    | error e => rw [hl] at h; cases h
    | ok bs =>
      rw [hl] at h
      simp only [pure, Except.pure, Except.ok.injEq] at h
      exact ⟨b, bs, rfl, rfl, h.symm⟩
abbrev KV := ByteArray × ByteArray

theorem kvGet_none_of_ne {l : List KV} {k : Nat} (h : ∀ kv ∈ l, keyNat kv.1 ≠ k) : kvGet l k = none := by
  unfold kvGet
  rw [List.find?_eq_none.2 (fun kv hkv => by simpa using h kv hkv)]
  rfl

theorem kvGet_append_left_none {l r : List KV} {k : Nat} (h : ∀ kv ∈ l, keyNat kv.1 ≠ k) :
    kvGet (l ++ r) k = kvGet r k := by
  unfold kvGet
  rw [List.find?_append, List.find?_eq_none.2 (fun kv hkv => by simpa using h kv hkv)]
  rfl

theorem kvGet_append_right_none {l r : List KV} {k : Nat} (h : ∀ kv ∈ r, keyNat kv.1 ≠ k) :
    kvGet (l ++ r) k = kvGet l k := by
  unfold kvGet
  have hr : r.find? (fun kv => keyNat kv.1 == k) = none :=
    List.find?_eq_none.2 (fun kv hkv => by simpa using h kv hkv)
  rw [List.find?_append, hr, Option.or_none]

theorem findLeaf_cons_none {s pn : Nat} {rest : List (Nat × Nat)} {k : Nat} :
    findLeaf ((s, pn) :: rest) k = none ↔ k < s := by
  unfold findLeaf
  by_cases h : k < s
  · simp [h]
  · simp only [h, if_false, iff_false]
    cases findLeaf rest k <;> simp

theorem sorted_tail {a : Nat} {l : List Nat} (h : strictlySorted (a :: l) = true) : strictlySorted l = true := by
  cases l with
  | nil => rfl
  | cons b t => simp only [strictlySorted, Bool.and_eq_true] at h; exact h.2

/-- every key of the leaves after a separator is at least that separator -/
theorem keys_ge_first : ∀ (seps : List (Nat × Nat)) (ls : List (List KV)) (s pn : Nat),
    strictlySorted (((s, pn) :: seps).map (·.1)) = true → leavesInRange ((s, pn) :: seps) ls = true →
    ∀ kv ∈ ls.flatten, s ≤ keyNat kv.1
  | seps, [], s, pn, _, hr => by simp [leavesInRange] at hr
  | [], l :: ls, s, pn, _, hr => by
    cases ls with
    | cons l' ls' => simp [leavesInRange] at hr
    | nil =>
      intro kv hkv
      simp only [leavesInRange, Bool.and_true, List.all_eq_true, Bool.and_eq_true, decide_eq_true_eq] at hr
      simp only [List.flatten_cons, List.flatten_nil, List.append_nil] at hkv
      exact (hr kv hkv)
  | (s', pn') :: seps, l :: ls, s, pn, hs, hr => by
    intro kv hkv
    simp only [leavesInRange, List.all_eq_true, Bool.and_eq_true, decide_eq_true_eq] at hr
    simp only [List.flatten_cons, List.mem_append] at hkv
    rcases hkv with hkv | hkv
    · exact (hr.1 kv hkv).1
    · have hlt : s < s' := by
        simp only [List.map_cons, strictlySorted, Bool.and_eq_true, decide_eq_true_eq] at hs; exact hs.1
      have := keys_ge_first seps ls s' pn' (sorted_tail hs) (by simpa [leavesInRange] using hr.2) kv hkv
      omega

theorem lookup_core (f : Nat → Except String (List KV)) :
    ∀ (seps : List (Nat × Nat)) (ls : List (List KV)),
      seps.mapM (fun s => f s.2) = .ok ls → strictlySorted (seps.map (·.1)) = true →
      leavesInRange seps ls = true → ∀ k,
      match findLeaf seps k with
      | none => kvGet ls.flatten k = none
      | some pn => ∃ l, f pn = .ok l ∧ kvGet l k = kvGet ls.flatten k
  | [], ls, hm, _, _, k => by
    have : ls = [] := by simpa [List.mapM_nil, pure, Except.pure] using hm.symm
    subst this
    simp [findLeaf, kvGet]
  | (s, pn) :: rest, ls, hm, hs, hr, k => by
    -- invert mapM
    rw [List.mapM_cons] at hm
    cases hfa : f pn with
    | error e => rw [show f (s, pn).2 = f pn from rfl, hfa] at hm; cases hm
    | ok l =>
      rw [show f (s, pn).2 = f pn from rfl, hfa] at hm
      simp only [bind, Except.bind] at hm
      cases hml : rest.mapM (fun s => f s.2) with
      | error e => rw [hml] at hm; cases hm
      | ok ls' =>
        rw [hml] at hm
        simp only [pure, Except.pure, Except.ok.injEq] at hm
        subst hm
        have hge := keys_ge_first rest (l :: ls') s pn hs hr
        have hs' : strictlySorted (rest.map (·.1)) = true := sorted_tail hs
        have hr' : leavesInRange rest ls' = true := by
          cases rest <;> simp only [leavesInRange, Bool.and_eq_true] at hr <;> exact hr.2
        have ih := lookup_core f rest ls' hml hs' hr' k
        by_cases hk : k < s
        · rw [findLeaf_cons_none.2 hk]
          exact kvGet_none_of_ne (fun kv hkv => by have := hge kv hkv; omega)
        · simp only [findLeaf, hk, if_false]
          cases hfr : findLeaf rest k with
          | some p =>
            rw [hfr] at ih
            obtain ⟨l', hl', he⟩ := ih
            refine ⟨l', hl', ?_⟩
            rw [he, List.flatten_cons]
            -- keys of `l` are below the first separator of `rest`, which is ≤ k
            cases rest with
            | nil => simp [findLeaf] at hfr
            | cons sp rest' =>
              obtain ⟨s', pn'⟩ := sp
              have hk' : ¬ k < s' := fun hlt => by rw [findLeaf_cons_none.2 hlt] at hfr; cases hfr
              simp only [leavesInRange, List.all_eq_true, Bool.and_eq_true, decide_eq_true_eq] at hr
              exact (kvGet_append_left_none (fun kv hkv => by have := (hr.1 kv hkv).2; omega)).symm
          | none =>
            rw [hfr] at ih
            refine ⟨l, hfa, ?_⟩
            rw [List.flatten_cons]
            cases rest with
            | nil =>
              have : ls' = [] := by simpa [List.mapM_nil, pure, Except.pure] using hml.symm
              subst this; simp
            | cons sp rest' =>
              obtain ⟨s', pn'⟩ := sp
              have hlt : k < s' := findLeaf_cons_none.1 hfr
              have hge' := keys_ge_first rest' ls' s' pn' hs' hr'
              exact (kvGet_append_right_none (fun kv hkv => by have := hge' kv hkv; omega)).symm

theorem lookup_eq_kvGet {img : Image} {st : Stats} (h : wfImage img = .ok st) (k : Nat) :
    ∃ kvs, absImage img = .ok kvs ∧ lookup img k = .ok (kvGet kvs k) := by
  obtain ⟨d, hd, _, hs, hr⟩ := wfImage_decoded h
  obtain ⟨hm, hsep, hls⟩ := decodeAll_parts hd
  refine ⟨d.ls.flatten, (absImage_of_decodeAll hd).2, ?_⟩
  have hc := lookup_core (leafKVs img.ln d.m.lnBump) d.seps d.ls hls hs hr k
  unfold lookup
  rw [hm]
  simp only [bind, Except.bind]
  rw [hsep]
  simp only
  cases hf : findLeaf d.seps k with
  | none =>
    rw [hf] at hc
    simp only [hc, pure, Except.pure]
  | some pn =>
    rw [hf] at hc
    obtain ⟨l, hl, he⟩ := hc
    simp only [hl, he, pure, Except.pure]

end Nomt.Store
