import NomtModel.Store.WalkerSimTop
import NomtModel.Core.TermHasher
/-!
# A concrete walk for the non-vacuity examples of `Props/C02_PageWalker.lean` / `Props/C16_PageWalker.lean`

Building the two-key trie `{0…0 ↦ 1, 10…0 ↦ 2}` from the empty one with a single `advance_and_replace` at the root position,
over the empty page set, with the free term hasher `TH`.
-/
namespace Nomt.Walker.Ex
open Nomt Nomt.Walker Nomt.TriePos

def k0 : Key := List.replicate 256 false
def k1 : Key := true :: List.replicate 255 false
def exS' : List (Key × Nat) := [(k0, 1), (k1, 2)]
def exSteps : List (Step Nat) := [([], some exS')]
def exPs : PageSet T := { get := fun _ => none, fresh := fun _ => List.replicate 126 T.term }

theorem exBit0 : (k0.getD 0 false == false) = true ∧ (k1.getD 0 false == true) = true ∧
    (k0.getD 0 false == true) = false ∧ (k1.getD 0 false == false) = false := by decide

theorem exSide0 : side 0 false exS' = [(k0, 1)] := by
  simp only [side, exS', List.filter, exBit0.1, exBit0.2.2.2]

theorem exSide1 : side 0 true exS' = [(k1, 2)] := by
  simp only [side, exS', List.filter, exBit0.2.1, exBit0.2.2.1]

theorem exKeys' : KeysOK exS' := by
  constructor
  · show Canon 256 0 [(k0, 1), (k1, 2)]
    have h0 : side 0 false [(k0, 1), (k1, 2)] = [(k0, 1)] := exSide0
    have h1 : side 0 true [(k0, 1), (k1, 2)] = [(k1, 2)] := exSide1
    refine ⟨by rw [h0, h1]; rfl, by rw [h0]; trivial, by rw [h1]; trivial⟩
  · intro kv hkv
    simp only [exS', List.mem_cons, List.mem_nil_iff, or_false] at hkv
    rcases hkv with h | h <;> rw [h]
    · exact List.length_replicate ..
    · show (true :: List.replicate 255 false).length = 256
      rw [List.length_cons, List.length_replicate]

theorem exKeys : KeysOK ([] : List (Key × Nat)) := ⟨trivial, fun _ h => by cases h⟩

theorem exScript : ScriptOK ([] : List (Key × Nat)) exS' exSteps := by
  refine ⟨by simp [exSteps], ?_, ?_, ?_, ?_⟩
  · intro s hs; simp only [exSteps, List.mem_singleton] at hs; rw [hs]; simp
  · intro s hs; simp only [exSteps, List.mem_singleton] at hs; rw [hs]
    exact ⟨by simp [sub, restrict], Or.inl rfl⟩
  · intro s hs ops hop
    simp only [exSteps, List.mem_singleton] at hs
    rw [hs] at hop ⊢
    simp only [Option.some.injEq] at hop
    rw [← hop]; rfl
  · intro q _ h
    have := h ([], some exS') (by simp [exSteps]) rfl
    rcases this with ⟨p, r, s, e, _⟩ | ⟨p, r, s, _, e⟩ <;> simp at e

theorem exPSOK : PSOK exPs exSteps := by
  refine ⟨fun _ => by simp [exPs], ?_⟩
  intro s hs hne
  simp only [exSteps, List.mem_singleton] at hs
  rw [hs] at hne; exact absurd rfl hne

theorem exRep : Represents TH exPs T.term ([] : List (Key × Nat)) := by
  intro q _ _ hm
  rcases hm with h | h
  · subst h; rfl
  · simp [sub, restrict] at h
    have : ∀ (p : Path) (d : Nat), restrict d p ([] : List (Key × Nat)) = [] := by
      intro p; induction p with
      | nil => intro d; rfl
      | cons b bs ih => intro d; simp [restrict, side, ih]
    rw [this] at h; simp at h


end Nomt.Walker.Ex
