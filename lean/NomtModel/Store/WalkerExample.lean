import NomtModel.Store.WalkerSimTop
import NomtModel.Core.TermHasher
import NomtModel.Core.Sorted
/-!
# A concrete walk for the non-vacuity examples of `Props/C02_PageWalker.lean` / `Props/C16_PageWalker.lean`

Building the two-key trie `{0…0 ↦ 1, 10…0 ↦ 2}` from the empty one with a single `advance_and_replace` at the root position,
over the empty page set, with the free term hasher `TH`.
-/
namespace Nomt.Walker.Ex
open Nomt Nomt.Walker Nomt.TriePos

def k0 : Key := List.replicate 256 false
def k1 : Key := true :: List.replicate 255 false
def exS' : List (Key × Nat) := [(k0, 1), (k1, 2)]
def exSteps : List (Step Nat) := [([], some exS')]
def exPs : PageSet T := { get := fun _ => none, fresh := fun _ => List.replicate 126 T.term }

theorem exBit0 : (k0.getD 0 false == false) = true ∧ (k1.getD 0 false == true) = true ∧
    (k0.getD 0 false == true) = false ∧ (k1.getD 0 false == false) = false := by decide

theorem exSide0 : side 0 false exS' = [(k0, 1)] := by
  simp only [side, exS', List.filter, exBit0.1, exBit0.2.2.2]

theorem exSide1 : side 0 true exS' = [(k1, 2)] := by
  simp only [side, exS', List.filter, exBit0.2.1, exBit0.2.2.1]

theorem exKeys' : KeysOK exS' := by
  constructor
  · show Canon 256 0 [(k0, 1), (k1, 2)]
    have h0 : side 0 false [(k0, 1), (k1, 2)] = [(k0, 1)] := exSide0
    have h1 : side 0 true [(k0, 1), (k1, 2)] = [(k1, 2)] := exSide1
    refine ⟨by rw [h0, h1]; rfl, by rw [h0]; trivial, by rw [h1]; trivial⟩
  · intro kv hkv
    simp only [exS', List.mem_cons, List.mem_nil_iff, or_false] at hkv
    rcases hkv with h | h <;> rw [h]
    · exact List.length_replicate ..
    · show (true :: List.replicate 255 false).length = 256
      rw [List.length_cons, List.length_replicate]

theorem exKeys : KeysOK ([] : List (Key × Nat)) := ⟨trivial, fun _ h => by cases h⟩

theorem exScript : ScriptOK ([] : List (Key × Nat)) exS' exSteps := by
  refine ⟨by simp [exSteps], ?_, ?_, ?_, ?_⟩
  · intro s hs; simp only [exSteps, List.mem_singleton] at hs; rw [hs]; simp
  · intro s hs; simp only [exSteps, List.mem_singleton] at hs; rw [hs]
    exact ⟨by simp [sub, restrict], Or.inl rfl⟩
  · intro s hs ops hop
    simp only [exSteps, List.mem_singleton] at hs
    rw [hs] at hop ⊢
    simp only [Option.some.injEq] at hop
    rw [← hop]; rfl
  · intro q _ h
    have := h ([], some exS') (by simp [exSteps]) rfl
    rcases this with ⟨p, r, s, e, _⟩ | ⟨p, r, s, _, e⟩ <;> simp at e

theorem exPSOK : PSOK exPs exSteps := by
  refine ⟨fun _ => by simp [exPs], ?_⟩
  intro s hs hne
  simp only [exSteps, List.mem_singleton] at hs
  rw [hs] at hne; exact absurd rfl hne

theorem exRep : Represents TH exPs T.term ([] : List (Key × Nat)) := by
  intro q _ _ hm
  rcases hm with h | h
  · subst h; rfl
  · simp [sub, restrict] at h
    have : ∀ (p : Path) (d : Nat), restrict d p ([] : List (Key × Nat)) = [] := by
      intro p; induction p with
      | nil => intro d; rfl
      | cons b bs ih => intro d; simp [restrict, side, ih]
    rw [this] at h; simp at h


end Nomt.Walker.Ex

/-!
# A concrete walk below a parent page (non-vacuity of `Props/C13_PageWalker.lean`)

The trie `{0^256 ↦ 1, 0^6·1·0^249 ↦ 2}` (the keys part at depth 6, so the two leaves sit in the child page `[0]` of the
root page); both pages are in the page set.  A sub-walker with parent page ROOT replaces the terminal `0^7` by the leaf
that is there already.
-/
namespace Nomt.Walker.Ex2
open Nomt Nomt.Walker Nomt.TriePos

def ka : Key := List.replicate 256 false
def kb : Key := List.replicate 6 false ++ true :: List.replicate 249 false
def S2 : List (Key × Nat) := [(ka, 1), (kb, 2)]
def t2 : Path := List.replicate 7 false
def steps2 : List (Step Nat) := [(t2, some [(ka, 1)])]

/-- the meaningful slots of `S2` -/
def slots2 : List Path :=
  (List.range 7).flatMap (fun j => [List.replicate j false ++ [false], List.replicate j false ++ [true]])

def nodes2 (P : PageId) : List T :=
  (List.range 126).map (fun i =>
    match slots2.find? (fun q => decide (specPage q = P) && decide (specIndex q = i)) with
    | some q => specNode TH S2 q
    | none => T.term)

def ps2 : PageSet T where
  get := fun P => if P = [] ∨ P = [0] then some (⟨nodes2 P, 0⟩, .persisted (some 0)) else none
  fresh := fun _ => List.replicate 126 T.term

def root2 : T := specNode TH S2 []

theorem restrict_nil' : ∀ (p : Path) (d : Nat), restrict d p ([] : List (Key × Nat)) = [] := by
  intro p; induction p with
  | nil => intro d; rfl
  | cons b bs ih => intro d; simp [restrict, side, ih]

theorem restrict_length_le : ∀ (p : Path) (d : Nat) (S : List (Key × Nat)), (restrict d p S).length ≤ S.length := by
  intro p; induction p with
  | nil => intro d S; exact Nat.le_refl _
  | cons b bs ih =>
    intro d S
    exact Nat.le_trans (ih (d + 1) (side d b S)) (List.length_filter_le _ _)

theorem side_upper : ∀ d, d < 6 → side d true S2 = [] ∧ side d false S2 = S2 := by decide +kernel

theorem side_six : ∀ b, (side 6 b S2).length = 1 := by decide +kernel

/-- only the all-zero prefixes of length ≤ 6 have both keys below them -/
theorem two_below : ∀ (n : Nat), n ≤ 6 → ∀ x : Path, 2 ≤ (restrict (6 - n) x S2).length →
    ∃ j, j ≤ n ∧ x = List.replicate j false := by
  intro n
  induction n with
  | zero =>
    intro _ x h
    cases x with
    | nil => exact ⟨0, Nat.le_refl _, rfl⟩
    | cons b bs =>
      exfalso
      have h1 := restrict_length_le bs 7 (side 6 b S2)
      rw [side_six b] at h1
      have : restrict (6 - 0) (b :: bs) S2 = restrict 7 bs (side 6 b S2) := rfl
      rw [this] at h; omega
  | succ n ih =>
    intro hn x h
    cases x with
    | nil => exact ⟨0, Nat.zero_le _, rfl⟩
    | cons b bs =>
      have hd : 6 - (n + 1) < 6 := by omega
      have e : restrict (6 - (n + 1)) (b :: bs) S2 = restrict (6 - (n + 1) + 1) bs (side (6 - (n + 1)) b S2) := rfl
      rw [e] at h
      cases b with
      | true =>
        rw [(side_upper _ hd).1, restrict_nil'] at h
        simp at h
      | false =>
        rw [(side_upper _ hd).2] at h
        have e2 : 6 - (n + 1) + 1 = 6 - n := by omega
        rw [e2] at h
        obtain ⟨j, hj, hx⟩ := ih (by omega) bs h
        exact ⟨j + 1, by omega, by rw [hx]; rfl⟩

theorem mean_slots2 (q : Path) (hm : Mean S2 q) : q = [] ∨ q ∈ slots2 := by
  rcases hm with h | h
  · exact Or.inl h
  · by_cases hne : q = []
    · exact Or.inl hne
    right
    obtain ⟨j, hj, hx⟩ := two_below 6 (Nat.le_refl _) q.dropLast h
    have hq := eq_dropLast_append_getLast q hne
    rw [hx] at hq
    rw [hq]
    simp only [slots2, List.mem_flatMap, List.mem_range]
    refine ⟨j, by omega, ?_⟩
    cases q.getLast hne <;> simp

theorem slots2_ok : ∀ q ∈ slots2, flatStore TH ps2 root2 q = specNode TH S2 q := by decide +kernel

theorem rep2 : Represents TH ps2 root2 S2 := by
  intro q _ _ hm
  rcases mean_slots2 q hm with h | h
  · subst h; rfl
  · exact slots2_ok q h

theorem keys2 : KeysOK S2 := by
  constructor
  · refine canon_of_sorted 256 0 S2 [] ?_ ?_ (fun _ _ => rfl)
    · have : ∀ n (r s : List Bool), lexLt (List.replicate n false ++ false :: r) (List.replicate n false ++ true :: s) := by
        intro n; induction n with
        | zero => intro r s; exact Or.inl ⟨rfl, rfl⟩
        | succ n ih => intro r s; exact Or.inr ⟨rfl, ih r s⟩
      have e : ka = List.replicate 6 false ++ false :: List.replicate 249 false := by decide +kernel
      show List.Pairwise _ [(ka, 1), (kb, 2)]
      refine List.pairwise_cons.mpr ⟨?_, List.pairwise_cons.mpr ⟨fun _ h => (by cases h), List.Pairwise.nil⟩⟩
      intro y hy
      simp only [List.mem_singleton] at hy
      rw [hy, e]
      exact this 6 _ _
    · decide +kernel
  · decide +kernel

theorem script2 : ScriptOK S2 S2 steps2 := by
  refine ⟨by simp [steps2], by decide +kernel, ?_, ?_, fun _ _ _ => rfl⟩
  · intro s hs; simp only [steps2, List.mem_singleton] at hs; rw [hs]
    exact ⟨by decide +kernel, Or.inr (by decide +kernel)⟩
  · intro s hs ops hop
    simp only [steps2, List.mem_singleton] at hs
    rw [hs] at hop ⊢
    simp only [Option.some.injEq] at hop
    rw [← hop]; decide +kernel

theorem specPage_t2 : specPage t2 = [0] := by decide +kernel

theorem psok2 : PSOK ps2 steps2 := by
  refine ⟨fun _ => by simp [ps2], ?_⟩
  intro s hs _ Q hQ
  simp only [steps2, List.mem_singleton] at hs
  rw [hs] at hQ
  change Q <+: specPage t2 at hQ
  rw [specPage_t2] at hQ
  have hQ' : Q = [] ∨ Q = [0] := by
    obtain ⟨r, hr⟩ := hQ
    cases Q with
    | nil => exact Or.inl rfl
    | cons a as =>
      right
      cases as with
      | nil => simp at hr; rw [hr.1]
      | cons _ _ => simp at hr
  refine ⟨⟨nodes2 Q, 0⟩, some 0, ?_, by simp [nodes2]⟩
  simp [ps2, hQ']

theorem scope2 : InScope (some []) steps2 := by
  intro P0 hp s hs
  simp only [Option.some.injEq] at hp
  simp only [steps2, List.mem_singleton] at hs
  rw [hs, ← hp]
  change [] <+: specPage t2 ∧ [] ≠ specPage t2
  rw [specPage_t2]
  exact ⟨List.nil_prefix, by simp⟩

end Nomt.Walker.Ex2

