import NomtModel.Store.BranchUpdKeep
/-!
# Branch updater: one step of `extract_ops_until` — `takeOp`, `try_split_keep_chunk`, `extract_insert_from_keep_chunk`
-/
namespace Nomt.BranchUpd
open Nomt.LeafUpd (Entry Sorted slice_length slice_append slice_succ slice_cons_of_lt mem_slice slice_self)

theorem gauge_ingestOp_pc (kf : KF) (g g' : Gauge) (b? : Option Base) (op : Op) (h : g.ingestOp kf b? op = some g') :
    g'.pc = g.pc := by
  cases op with
  | ins k pn =>
    simp only [Gauge.ingestOp, Option.some.injEq] at h
    subst h; exact ingestKey_pc _ _ _ _
  | upd pos pn =>
    simp only [Gauge.ingestOp] at h
    cases b? with
    | none => simp at h
    | some b =>
      simp only at h
      cases hk : b.node.key pos with
      | none => simp [hk] at h
      | some key =>
        simp only [hk, Option.map_some, Option.some.injEq] at h
        subst h; exact ingestKey_pc _ _ _ _
  | keep s e sum =>
    simp only [Gauge.ingestOp] at h
    cases b? with
    | none => simp at h
    | some b =>
      simp only [Gauge.ingestChunk] at h
      split at h
      · simp at h
      · split at h
        · split at h
          · split at h
            · simp at h
            · split at h
              · simp at h
              · simp only [Option.some.injEq] at h; subst h; rfl
          · simp only [Option.some.injEq] at h; subst h; rfl
        · split at h
          · simp at h
          · split at h
            · split at h
              · simp at h
              · simp only [Option.some.injEq] at h; subst h; rfl
            · simp at h

/-- the entries an op adds, as keys -/
theorem denOp_keep_keys (b : Base) (s e sum : Nat) : ekeys (denOp (some b) (.keep s e sum)) = chunkKeys b s e := by
  simp [denOp, baseItems, chunkKeys_eq]

/-- `gauge.ingest_branch_op(base, &ops[pos])` followed by the replacement by `Insert`s when prefix compression is stopped -/
theorem takeOp_spec {kf : KF} (hkf : KFOK kf) (b? : Option Base) (hbase : BaseOK kf b?) (done : List Op) (g : Gauge)
    (htr : TrOK kf b? done g) (op : Op) (hop : OpOK kf b? op)
    (hs : SortedK (ekeys (den b? done) ++ ekeys (denOp b? op)))
    (hbl : Below (ekeys (den b? done) ++ ekeys (denOp b? op))) :
    ∃ g' r, takeOp kf b? g op = some (g', r) ∧ g.ingestOp kf b? op = some g' ∧ den b? r = denOp b? op ∧
      TrOK kf b? (done ++ r) g' ∧ r.length ≤ op.count ∧ (∀ o ∈ r, o = op ∨ (∃ k p, o = .ins k p)) := by
  have hpcle := hbase.pc_le
  -- the common part: `g'` is the gauge of the longer key list
  have fin : ∀ g', g.ingestOp kf b? op = some g' → GOK kf g' (ekeys (den b? done) ++ ekeys (denOp b? op)) →
      ∃ g'' r, takeOp kf b? g op = some (g'', r) ∧ g.ingestOp kf b? op = some g'' ∧ den b? r = denOp b? op ∧
        TrOK kf b? (done ++ r) g'' ∧ r.length ≤ op.count ∧ (∀ o ∈ r, o = op ∨ (∃ k p, o = .ins k p)) := by
    intro g' hi hg
    have hpc := gauge_ingestOp_pc kf g g' b? op hi
    simp only [takeOp, hi]
    by_cases hsome : g'.pc.isSome = true
    · simp only [hsome, if_true]
      obtain ⟨r, q1, q2, q3, q4⟩ := replaceOp_spec hpcle hop
      simp only [q1, Option.map_some]
      refine ⟨g', r, rfl, rfl, q2, ⟨wf_append.2 ⟨htr.wf, wf_allIns q3⟩, by simpa [q2] using hg, ?_⟩, by omega, ?_⟩
      · apply PCOK.append_allIns _ q3
        apply htr.pc.mono
        simp only [Gauge.pcItems, hpc]
        cases hx : g.pc with
        | none => rw [hpc, hx] at hsome; simp at hsome
        | some c => simp
      · intro o ho
        right
        clear q1 q2 q4
        induction r with
        | nil => cases ho
        | cons a r ih =>
          cases a with
          | ins k p =>
            rcases List.mem_cons.1 ho with h1 | h1
            · exact ⟨k, p, h1⟩
            · exact ih q3 h1
          | upd _ _ => exact q3.elim
          | keep _ _ _ => exact q3.elim
    · simp only [hsome, Bool.false_eq_true, if_false]
      have hwf : WF kf b? (done ++ [op]) := wf_append.2 ⟨htr.wf, wf_cons.2 ⟨hop, wf_nil _ _⟩⟩
      have hnone : g'.pc = none := by
        cases hx : g'.pc with
        | none => rfl
        | some c => rw [hx] at hsome; simp at hsome
      refine ⟨g', [op], rfl, rfl, by simp, ⟨hwf, by simpa using hg, ?_⟩, by
        have := count_pos_of_ok hop; simpa using this, by intro o ho; left; simpa using ho⟩
      apply PCOK.of_count
      rw [pcItems_ge_of_none hnone, hg.n, ← ekeys_append, ekeys_length, ← den_length hpcle hwf]
      simp
  cases op with
  | ins k pn =>
    have hd : ekeys (denOp b? (.ins k pn)) = [k] := rfl
    rw [hd] at hs hbl
    exact fin _ rfl (by rw [hd]; exact htr.gauge.ingestKey hkf k hs hbl)
  | upd pos pn =>
    obtain ⟨b, eb, h1, _⟩ := hop
    subst eb
    have hp : pos < b.node.items.length := by have := hpcle b rfl; omega
    have hd : ekeys (denOp (some b) (.upd pos pn)) = [b.node.items[pos].key] := by
      simp [denOp, baseItems, List.getElem?_eq_getElem hp]
    rw [hd] at hs hbl
    have hi : g.ingestOp kf (some b) (.upd pos pn) =
        some (g.ingestKey kf b.node.items[pos].key (kf.sl b.node.items[pos].key)) := by
      simp [Gauge.ingestOp, Node.key_of_lt _ _ hp]
    exact fin _ hi (by rw [hd]; exact htr.gauge.ingestKey hkf _ hs hbl)
  | keep s e sum =>
    obtain ⟨b, eb, h1, h2, h3, _⟩ := hop
    subst eb
    have hel : e ≤ b.node.items.length := by have := hpcle b rfl; omega
    rw [denOp_keep_keys] at hs hbl
    obtain ⟨g', g1, g2, _, _⟩ := htr.gauge.ingestChunk hkf b s e h1 hel hs hbl
    have hi : g.ingestOp kf (some b) (.keep s e sum) = some g' := by
      simp only [Gauge.ingestOp, h3]; exact g1
    exact fin _ hi (by rw [denOp_keep_keys]; exact g2)

/-! ## `try_split_keep_chunk` -/

/-- the loop of `try_split_keep_chunk`, started after `n` items of the chunk `s .. e` with the gauge of those items -/
theorem splitLoop_spec {kf : KF} (hkf : KFOK kf) (b : Base) (target limit : Nat) (g0 : Gauge) (L : List Nat)
    (hg0 : GOK kf g0 L) (s e : Nat) (hel : e ≤ b.node.items.length)
    (hs : SortedK (L ++ chunkKeys b s e)) (hbl : Below (L ++ chunkKeys b s e)) :
    ∀ cnt n, s + n + cnt = e →
      (n = 0 ∨ ∃ bd, (g0.ingestKeys kf (chunkKeys b s (s + n))).body = some bd ∧ bd < target) →
      ∃ ln, splitLoop kf b target limit cnt (s + n) (g0.ingestKeys kf (chunkKeys b s (s + n))) n
          (slSum kf (chunkKeys b s (s + n))) = some (ln, slSum kf (chunkKeys b s (s + ln))) ∧
        n ≤ ln ∧ s + ln ≤ e ∧
        (ln = 0 ∨ ∃ bd, (g0.ingestKeys kf (chunkKeys b s (s + ln))).body = some bd ∧ (bd ≤ limit ∨ bd < target)) := by
  intro cnt
  induction cnt with
  | zero =>
    intro n hn hpre
    refine ⟨n, rfl, Nat.le_refl _, by omega, ?_⟩
    rcases hpre with h | ⟨bd, h1, h2⟩
    · exact Or.inl h
    · exact Or.inr ⟨bd, h1, Or.inr h2⟩
  | succ cnt ih =>
    intro n hn hpre
    have hp : s + n < b.node.items.length := by omega
    have hsplit : chunkKeys b s (s + (n + 1)) = chunkKeys b s (s + n) ++ [b.node.items[s + n].key] := by
      have := chunkKeys_snoc b s (s + (n + 1)) (by omega) (by omega)
      simpa [Nat.add_sub_cancel] using this
    have hpre_keys : chunkKeys b s (s + (n + 1)) ++ chunkKeys b (s + (n + 1)) e = chunkKeys b s e :=
      chunkKeys_append b s _ e (by omega) (by omega)
    have hs1 : SortedK (L ++ chunkKeys b s (s + (n + 1))) := by
      rw [← hpre_keys, ← List.append_assoc] at hs; exact hs.append_left
    have hb1 : Below (L ++ chunkKeys b s (s + (n + 1))) := by
      rw [← hpre_keys, ← List.append_assoc] at hbl; exact hbl.append_left
    have hs0 : SortedK (L ++ chunkKeys b s (s + n)) := by
      rw [hsplit, ← List.append_assoc] at hs1; exact hs1.append_left
    have hb0 : Below (L ++ chunkKeys b s (s + n)) := by
      rw [hsplit, ← List.append_assoc] at hb1; exact hb1.append_left
    have hgn := hg0.ingestKeys hkf (chunkKeys b s (s + n)) hs0 hb0
    have hgn1 := hg0.ingestKeys hkf (chunkKeys b s (s + (n + 1))) hs1 hb1
    have hstep : (g0.ingestKeys kf (chunkKeys b s (s + n))).ingestKey kf b.node.items[s + n].key
        (kf.sl b.node.items[s + n].key) = g0.ingestKeys kf (chunkKeys b s (s + (n + 1))) := by
      rw [hsplit]
      generalize chunkKeys b s (s + n) = C
      clear hgn hgn1 hs0 hb0 hs1 hb1 hpre_keys hsplit hpre ih hg0 hs hbl
      induction C generalizing g0 with
      | nil => rfl
      | cons a r ih => simp only [List.cons_append, Gauge.ingestKeys]; exact ih _
    obtain ⟨bd1, hbd1⟩ : ∃ bd, (g0.ingestKeys kf (chunkKeys b s (s + (n + 1)))).body = some bd :=
      ⟨_, hgn1.body hkf hs1 hb1⟩
    have hafter : (g0.ingestKeys kf (chunkKeys b s (s + n))).bodyAfter kf b.node.items[s + n].key
        (kf.sl b.node.items[s + n].key) = some bd1 := by
      rw [hgn.bodyAfter_eq, hstep, hbd1]
    have hsum1 : slSum kf (chunkKeys b s (s + (n + 1))) =
        slSum kf (chunkKeys b s (s + n)) + kf.sl b.node.items[s + n].key := by
      rw [hsplit]; simp
    simp only [splitLoop, Node.key_of_lt _ _ hp, hafter]
    by_cases h1 : bd1 ≥ target
    · simp only [h1, if_true]
      by_cases h2 : bd1 > limit
      · simp only [h2, if_true]
        refine ⟨n, rfl, Nat.le_refl _, by omega, ?_⟩
        rcases hpre with h | ⟨bd, h1, h2⟩
        · exact Or.inl h
        · exact Or.inr ⟨bd, h1, Or.inr h2⟩
      · simp only [h2, if_false]
        refine ⟨n + 1, by rw [hsum1], by omega, by omega, Or.inr ⟨bd1, hbd1, Or.inl (by omega)⟩⟩
    · simp only [h1, if_false]
      rw [hstep, ← hsum1]
      have e1 : s + n + 1 = s + (n + 1) := by omega
      rw [e1]
      obtain ⟨ln, r1, r2, r3, r4⟩ := ih (n + 1) (by omega) (Or.inr ⟨bd1, hbd1, by omega⟩)
      exact ⟨ln, r1, by omega, r3, r4⟩

theorem trySplitKeep_spec {kf : KF} (hkf : KFOK kf) (b : Base) (target limit : Nat) (g : Gauge) (L : List Nat)
    (hg : GOK kf g L) (s e : Nat) (rest : List Op) (hse : s < e) (hel : e ≤ b.node.items.length)
    (hs : SortedK (L ++ chunkKeys b s e)) (hbl : Below (L ++ chunkKeys b s e)) :
    ∃ ln todo', trySplitKeep kf b g (.keep s e (slSum kf (chunkKeys b s e)) :: rest) target limit = some (ln, todo') ∧
      ln ≤ e - s ∧
      (ln = 0 → todo' = .keep s e (slSum kf (chunkKeys b s e)) :: rest) ∧
      (0 < ln → (∃ bd, (g.ingestKeys kf (chunkKeys b s (s + ln))).body = some bd ∧ (bd ≤ limit ∨ bd < target)) ∧
        ((ln = e - s ∧ todo' = .keep s e (slSum kf (chunkKeys b s e)) :: rest) ∨
         (ln < e - s ∧ todo' = .keep s (s + ln) (slSum kf (chunkKeys b s (s + ln))) ::
            .keep (s + ln) e (slSum kf (chunkKeys b (s + ln) e)) :: rest))) := by
  obtain ⟨ln, r1, _, r3, r4⟩ := splitLoop_spec hkf b target limit g L hg s e hel hs hbl (e - s) 0 (by omega) (Or.inl rfl)
  have h0 : chunkKeys b s (s + 0) = [] := by simp [chunkKeys, slice_self]
  rw [h0] at r1
  simp only [Gauge.ingestKeys, slSum_nil, Nat.add_zero] at r1
  have hsum : slSum kf (chunkKeys b s e) = slSum kf (chunkKeys b s (s + ln)) + slSum kf (chunkKeys b (s + ln) e) := by
    rw [← slSum_append, chunkKeys_append b s (s + ln) e (by omega) r3]
  simp only [trySplitKeep, r1]
  by_cases hc : (ln != 0 && e - s != ln) = true
  · simp only [hc, if_true]
    simp only [Bool.and_eq_true, bne_iff_ne, ne_eq] at hc
    have hlt : ¬ slSum kf (chunkKeys b s e) < slSum kf (chunkKeys b s (s + ln)) := by omega
    simp only [hlt, if_false]
    refine ⟨ln, _, rfl, by omega, fun h => absurd h hc.1, ?_⟩
    intro hpos
    refine ⟨?_, Or.inr ⟨by omega, ?_⟩⟩
    · rcases r4 with h | h
      · omega
      · exact h
    · have : slSum kf (chunkKeys b s e) - slSum kf (chunkKeys b s (s + ln)) = slSum kf (chunkKeys b (s + ln) e) := by omega
      rw [this]
  · simp only [hc]
    simp only [Bool.and_eq_true, bne_iff_ne, ne_eq, not_and, Decidable.not_not] at hc
    refine ⟨ln, _, rfl, by omega, fun _ => rfl, ?_⟩
    intro hpos
    refine ⟨?_, Or.inl ⟨(hc (by omega)).symm, rfl⟩⟩
    rcases r4 with h | h
    · omega
    · exact h

theorem extractInsert_spec {kf : KF} (b : Base) (s e : Nat) (rest : List Op) (hse : s < e)
    (hel : e ≤ b.node.items.length) :
    ∃ k pn, b.node.keyValue s = some (k, pn) ∧
      ((s + 1 = e ∧ extractInsert kf b (.keep s e (slSum kf (chunkKeys b s e)) :: rest) = some (.ins k pn :: rest)) ∨
       (s + 1 < e ∧ extractInsert kf b (.keep s e (slSum kf (chunkKeys b s e)) :: rest) =
          some (.ins k pn :: .keep (s + 1) e (slSum kf (chunkKeys b (s + 1) e)) :: rest))) ∧
      [(⟨k, pn, false⟩ : Entry Nat)] ++ ents (slice b.node.items (s + 1) e) = ents (slice b.node.items s e) := by
  have hp : s < b.node.items.length := by omega
  refine ⟨b.node.items[s].key, b.node.items[s].pn, by simp [Node.keyValue, List.getElem?_eq_getElem hp], ?_, ?_⟩
  · have he0 : ¬ e = 0 := by omega
    simp only [extractInsert, Node.keyValue, List.getElem?_eq_getElem hp, Option.map_some, he0, if_false]
    by_cases h1 : s + 1 = e
    · left
      have : (s == e - 1) = true := by simp; omega
      exact ⟨h1, by simp [this]⟩
    · right
      have : (s == e - 1) = false := by simp; omega
      have hc := chunkKeys_cons b s e hse hp
      have hlt : ¬ slSum kf (chunkKeys b s e) < kf.sl b.node.items[s].key := by rw [hc]; simp
      refine ⟨by omega, ?_⟩
      simp only [this, Bool.false_eq_true, if_false, hlt]
      rw [hc]; simp
  · rw [slice_cons_of_lt _ _ _ hse hp]; simp [Item.ent]

end Nomt.BranchUpd
