import NomtModel.Store.ImgLemmas
import NomtModel.Store.CacheNew
import NomtModel.Api.OvlBtNew
import NomtModel.Api.Flock
import NomtModel.Generated.Functions
import NomtModel.Core.Outcome
/-!
# The OPEN path: mirror of `Nomt::open`, `compute_root_node`, `Store::open` / `create`, `Meta::{read, validate,
create_new}`, `ht_file::{open, create}`, `Flock::lock`, `Options` (C10, C02, C20, C13, C03)

Every `panic!` / `unwrap` / `assert!` / arithmetic overflow / division of the mirrored Rust is an `Outcome.panic` value,
every `Err` an `Outcome.err`.  `dbg` = `cfg!(debug_assertions)` (overflow checks on; the harness builds so): the integer
functions of `ht_file.rs` are the ones REGENERATED from the source (`GenFn.num_meta_byte_pages`, `GenFn.expected_file_len`,
`none` = overflow panic); with `dbg = false` they wrap.

Already modelled elsewhere and therefore PARAMETERS here (`Parts`): `beatree::Tree::open` (free lists `Store/FreeList*`,
index reconstruction — agent Q32), `bitbox::recover` (`Store/Wal*.lean`, `RecoverReal.lean`), `Rollback::read`
(`Store/Seg*.lean`, `Store/Rb*.lean`), `Store::load_page` (`Store/ProbeModel.lean`).  Each part returns its outcome AND the
file effects it performs, so the order theorem speaks about them too.

The B-tree iterator `compute_root_node` drives is the existing mirror `Ovl.BtIt` (`Api/OvlBtIter.lean`), instantiated with
empty staging maps (nothing is staged at open) and values `Stored` = inline bytes | overflow cell (its STORED hash).
-/
namespace Nomt.OpenPath
open Nomt Nomt.Store Nomt.Ovl

/-! ## `Options` (`nomt/src/options.rs`) -/

/-- the fields of `Options` (path and metrics omitted); defaults = `Options::new()` (the seed is random there) -/
structure Options where
  commitConcurrency : Nat := 1
  ioWorkers : Nat := 3
  bitboxNumPages : Nat := 64000
  seed0 : Nat := 0
  seed1 : Nat := 0
  panicOnSync : Bool := false
  rollback : Bool := false
  maxRollbackLogLen : Nat := 100
  warmUp : Bool := false
  preallocateHt : Bool := true
  pageCacheSize : Nat := 256
  leafCacheSize : Nat := 256
  prepopulate : Bool := false
  upperLevels : Nat := 2
deriving Repr, DecidableEq

/-- `Options::io_workers`: the only setter with a check (`assert!(io_workers > 0)`) -/
def Options.setIoWorkers (o : Options) (n : Nat) : Outcome String Options :=
  if n = 0 then .panic "assert!(io_workers > 0)" else .ok { o with ioWorkers := n }

def MAX_COMMIT_CONCURRENCY : Nat := 64

/-- the first lines of `Nomt::open`: zero workers is an `Err`, more than 64 is clamped -/
def clampOptions (o : Options) : Outcome String Options :=
  if o.commitConcurrency = 0 then .err "commit concurrency must be greater than zero"
  else if o.commitConcurrency > MAX_COMMIT_CONCURRENCY then .ok { o with commitConcurrency := MAX_COMMIT_CONCURRENCY }
  else .ok o

/-- what the handle runs with, as a function of `Options` alone -/
structure Effective where
  /-- threads of `UpdatePool`, page-cache shards, beatree sync threads − 1 -/
  workers : Nat
  warmUp : Bool
  /-- page limit of every page-cache shard (`make_shards`) -/
  pageLimits : List Nat
  fixedLevels : Nat
  /-- `LeafCache::new(32, leaf_cache_size)`: `max_items` of each of the 32 shards -/
  leafMaxItems : List Nat
  ioWorkers : Nat
  prepopulate : Bool
  rollback : Bool
  maxRollbackLogLen : Nat
deriving Repr, DecidableEq

def liftU {α : Type} : Outcome Unit α → Outcome String α
  | .ok a => .ok a
  | .err _ => .err "()"
  | .panic s => .panic s

/-- the configuration part of `Nomt::open`: `clampOptions`, `LeafCache::new(32, _)` (inside `Tree::open`),
`PageCache::new` (`make_shards`) — the existing mirrors of agent Q31 (`Store/CacheModel.lean`) -/
def effective (dbg : Bool) (o : Options) : Outcome String Effective :=
  match clampOptions o with
  | .err e => .err e
  | .panic s => .panic s
  | .ok o =>
    match liftU (Cache.LeafCache.new (L := Unit) dbg 32 o.leafCacheSize) with
    | .err e => .err e
    | .panic s => .panic s
    | .ok lc =>
      match liftU (Cache.PageCache.new (P := Unit) {} dbg none o.commitConcurrency o.pageCacheSize o.upperLevels) with
      | .err e => .err e
      | .panic s => .panic s
      | .ok pc =>
        .ok { workers := o.commitConcurrency, warmUp := o.warmUp, pageLimits := pc.shards.map (·.pageLimit),
              fixedLevels := pc.fixedLevels, leafMaxItems := lc.shards.map (·.maxItems), ioWorkers := o.ioWorkers,
              prepopulate := o.prepopulate, rollback := o.rollback, maxRollbackLogLen := o.maxRollbackLogLen }

/-! ## `Meta` (`nomt/src/store/meta.rs`); decoder / encoder = `Store/ImgFormats.lean` -/

/-- `Meta::create_new` -/
def createNew (seed0 seed1 numPages : Nat) : Meta :=
  { magic := MAGIC, version := VERSION, lnFreelistPn := 0, lnBump := 1, bbnFreelistPn := 0, bbnBump := 1,
    syncSeqn := 0, bitboxNumPages := numPages, seed0 := seed0, seed1 := seed1, rollbackStartLive := 0,
    rollbackEndLive := 0 }

/-- the messages `Meta::validate` collects -/
inductive MetaErr where
  | magic | version0 | versionNewer | rollbackHalfNil
deriving Repr, DecidableEq

/-- `Meta::validate`: ALL complaints, in the code's order -/
def validateErrs (m : Meta) : List MetaErr :=
  (if m.magic ≠ MAGIC then [.magic] else []) ++
  (if m.version < 1 then [.version0] else if m.version > VERSION then [.versionNewer] else []) ++
  (if (m.rollbackStartLive == 0) != (m.rollbackEndLive == 0) then [.rollbackHalfNil] else [])

def validate (m : Meta) : Outcome (List MetaErr) Unit :=
  if validateErrs m = [] then .ok () else .err (validateErrs m)

/-- `Meta::read`: `io::read_page(fd, 0)` (`read_exact_at` of 4096 bytes: a shorter file is an `Err`), then
`Meta::decode(&page[..64])` (its `assert!` and `try_into().unwrap()`s cannot fail on 64 bytes) -/
def metaRead (file : ByteArray) : Outcome String Meta :=
  if file.size < PAGE then .err "meta: failed to fill whole buffer"
  else match decodeMeta file with
    | some m => .ok m
    | none => .panic "Meta::decode: assert!(buf.len() >= META_SIZE)"

/-- `Meta::encode_to` into a zeroed page (what `Meta::write` writes) -/
def pagePad : List UInt8 := List.replicate (PAGE - META_SIZE) 0
def metaPage (m : Meta) : ByteArray := (encodeMetaL m ++ pagePad).toByteArray

/-! ## `ht_file.rs` -/

/-- `num_meta_byte_pages` in `u32` arithmetic -/
def numMetaBytePagesU32 (dbg : Bool) (n : Nat) : Outcome String Nat :=
  if dbg then
    match GenFn.num_meta_byte_pages n with
    | some r => .ok r
    | none => .panic "num_meta_byte_pages: attempt to add with overflow"
  else .ok ((n + 4095) % 2 ^ 32 / 4096)

/-- `expected_file_len` -/
def expectedFileLen (dbg : Bool) (n : Nat) : Outcome String Nat :=
  if dbg then
    match GenFn.expected_file_len n with
    | some r => .ok r
    | none => .panic "expected_file_len: attempt to add with overflow"
  else .ok (((n + 4095) % 2 ^ 32 / 4096 + n) % 2 ^ 32 * 4096)

/-- `MetaMap::full_count`: EVERY byte of the meta pages with the top bit, padding included -/
def fullCount (metaBytes : ByteArray) : Nat := (metaBytes.data.toList.filter (fun b => b.toNat ≥ 128)).length

structure HtOpened where
  dataPageOffset : Nat
  metaBytes : ByteArray
  buckets : Nat

/-- the arithmetic and the checks of `ht_file::open` on a file of `fileLen` bytes: the data page offset -/
def htOpenCore (dbg : Bool) (numPages fileLen : Nat) : Outcome String Nat :=
  match expectedFileLen dbg numPages with
  | .panic s => .panic s
  | .err e => .err e
  | .ok len =>
    if fileLen ≠ len then .err "Store corrupted; unexpected file length"
    else match numMetaBytePagesU32 dbg numPages with
      | .panic s => .panic s
      | .err e => .err e
      | .ok mp =>
        if fileLen < mp * PAGE then .err "ht: failed to fill whole buffer"
        else .ok mp

/-- `ht_file::open`: length check, then the meta pages (`io::read_page` each; inside the checked length these reads
cannot come back short), `MetaMap::from_bytes` (its `assert_eq!(len % 4096, 0)` holds by construction) -/
def htOpen (dbg : Bool) (numPages : Nat) (ht : ByteArray) : Outcome String HtOpened :=
  match htOpenCore dbg numPages ht.size with
  | .panic s => .panic s
  | .err e => .err e
  | .ok mp => .ok { dataPageOffset := mp, metaBytes := ht.extract 0 (mp * PAGE), buckets := numPages }

/-- the length `ht_file::create` gives the file: `(num_pages + num_meta_byte_pages(num_pages)) as usize * PAGE_SIZE` -/
def htCreateLen (dbg : Bool) (numPages : Nat) : Outcome String Nat :=
  match numMetaBytePagesU32 dbg numPages with
  | .panic s => .panic s
  | .err e => .err e
  | .ok mp =>
    if dbg && decide (numPages + mp ≥ 2 ^ 32) then .panic "ht_file::create: attempt to add with overflow"
    else .ok ((numPages + mp) % 2 ^ 32 * PAGE)

/-! ## `compute_root_node` (`nomt/src/lib.rs`) -/

/-- a value as the leaf page holds it: the bytes themselves, or an overflow cell (of which the iterator hands out the
value hash STORED in the cell) -/
inductive Stored (VH B : Type) where
  | inline (bytes : B)
  | overflow (storedHash : VH) (cell : B)
deriving Repr, DecidableEq

/-- the value hash `compute_root_node` puts into the leaf: `H::hash_value(value)` for `IterOutput::Item`, the stored
hash for `IterOutput::OverflowItem` -/
def vhOf {VH B : Type} (hv : B → VH) : Stored VH B → VH
  | .inline b => hv b
  | .overflow h _ => h

/-- the seeded change `C10-root-at-open-overflow-cell-hash`: `IterOutput::OverflowItem(key, _, cell)` handled by the arm
of `Item`, i.e. `H::hash_value` applied to the bytes of the overflow CELL (length, hash, page numbers) -/
def vhCell {VH B : Type} (hv : B → VH) : Stored VH B → VH
  | .inline b => hv b
  | .overflow _ cell => hv cell

/-- variants of the function, for counterexamples -/
structure RootFlags where
  /-- the tempting simplification `if left != TERMINATOR { case 3 }` -/
  leftOnly : Bool := false
  /-- the tempting simplification "a missing root page means an empty store" -/
  missingMeansEmpty : Bool := false
  /-- seeded `C10-root-at-open-overflow-cell-hash`: an overflow item is hashed like an inline one (over its cell) -/
  overflowHashesCell : Bool := false
deriving Repr, DecidableEq

variable {Node VH B : Type} [DecidableEq Node]

/-- `Key::default()` -/
def zeroKey : Key := List.replicate 256 false

/-- the `loop { match iterator.next() … }` of `compute_root_node`; fuel = one step per `Blocked` + one -/
def rootLoop (H : Hasher Node VH) (vf : Stored VH B → VH) : Nat → BtIt (Stored VH B) → Outcome Unit Node
  | 0, _ => .panic "fuel"
  | fuel + 1, it =>
    match it.next with
    | .panic m => .panic m
    | .err e => .err e
    | .ok (_, none) => .ok H.term                                                   -- case 1
    | .ok (it', some .blocked) =>
      -- `iterator.needed_leaves().next().unwrap()`, the load (`io_handle.recv().unwrap()`; the completion's
      -- `result` is NOT looked at — observation in notes/Q37.md), `provide_leaf`
      match it'.leaf.pending with
      | [] => .panic "needed_leaves().next().unwrap()"
      | _ :: _ =>
        match it'.leaf.provide with
        | .ok lf => rootLoop H vf fuel { it' with leaf := lf }
        | .panic m => .panic m
        | .err e => .err e
    | .ok (_, some (.item k v)) => .ok (H.leaf k (vf v))                      -- case 2

/-- `compute_root_node`: `rootPage` = the two top slots of `page_cache.get(ROOT_PAGE_ID)`, `leaves` = the B-tree -/
def computeRootNode (fl : RootFlags) (H : Hasher Node VH) (hv : B → VH) (rootPage : Option (Node × Node))
    (leaves : List (Leaf (Stored VH B))) : Outcome Unit Node :=
  let cases12 : Outcome Unit Node :=
    rootLoop H (if fl.overflowHashesCell then vhCell hv else vhOf hv) (2 * (leaves.map (fun l => l.entries.length + 1)).sum + 2) (BtIt.new [] [] leaves zeroKey none)
  match rootPage with
  | some (l, r) =>
    if l ≠ H.term ∨ (fl.leftOnly = false ∧ r ≠ H.term) then .ok (H.internal l r)   -- case 3
    else cases12
  | none => if fl.missingMeansEmpty then .ok H.term else cases12

/-- the committed set as the trie sees it -/
def trieSet {VH B : Type} (hv : B → VH) (S : KVL (Stored VH B)) : KVL VH := S.map (fun e => (e.1, vhOf hv e.2))

/-- **the invariant `compute_root_node` relies on** (= what `checkMerkle` establishes for the root page, see
`rootInv_is_monitor_clause`): with two or more items the root page is stored and its two top slots are the reference
nodes of the two halves; with fewer, it is not stored, or it is stored with two terminators -/
def RootInv (H : Hasher Node VH) (T : KVL VH) (rootPage : Option (Node × Node)) : Prop :=
  (2 ≤ T.length → rootPage = some (nodeAt H 255 1 (side 0 false T), nodeAt H 255 1 (side 0 true T))) ∧
  (T.length ≤ 1 → rootPage = none ∨ rootPage = some (H.term, H.term))

/-! ## `Store::open` / `create` (`nomt/src/store/mod.rs`), `Flock::lock` -/

inductive FileName where
  | lock | manifest | ln | bbn | ht | wal | seg (i : Nat)
deriving Repr, DecidableEq

/-- the file-system effects of the open path, in program order -/
inductive Eff where
  /-- `create_dir_all(path)` -/
  | mkdirAll
  /-- `File::open(path)` of the directory, read-only -/
  | openDir
  /-- `OpenOptions::new().read(true).write(true).create(true).open(".lock")`: creates the lock file when it is
  missing, never truncates or writes it -/
  | openLockCreate
  /-- `flock(LOCK_EX | LOCK_NB)` and its verdict -/
  | flock (ok : Bool)
  /-- `File::create` / `OpenOptions … create(true)` of a database file -/
  | create (f : FileName)
  | write (f : FileName)
  | setLen (f : FileName)
  | fsync (f : FileName)
  | fsyncDir
  /-- `OpenOptions::new().read(true).write(true).open(f)`: no `O_CREAT`, no `O_TRUNC` -/
  | openRW (f : FileName)
  | read (f : FileName)
  | unlink (f : FileName)
  | startIoPool
deriving Repr, DecidableEq

/-- creates, writes, truncates / resizes or unlinks a file of the directory -/
def Eff.mutates : Eff → Bool
  | .create _ | .write _ | .setLen _ | .unlink _ | .mkdirAll | .openLockCreate => true
  | _ => false

/-- … other than creating the directory itself and the lock file (which must exist to be locked) -/
def Eff.mutatesDb : Eff → Bool
  | .create _ | .write _ | .setLen _ | .unlink _ => true
  | _ => false

structure Dir where
  /-- `o.path.exists()` -/
  present : Bool
  files : List (FileName × ByteArray)
  /-- another handle holds the `flock` on `.lock` -/
  lockedByOther : Bool

def Dir.get (d : Dir) (f : FileName) : Option ByteArray := (d.files.find? (fun p => p.1 == f)).map (·.2)

def Dir.put (d : Dir) (f : FileName) (b : ByteArray) : Dir :=
  { d with present := true, files := (f, b) :: d.files.filter (fun p => p.1 != f) }

/-- the parts modelled elsewhere; each returns its outcome and the file effects it performed -/
structure Parts (Tree Log : Type) where
  /-- `beatree::Tree::open(ln_freelist_pn, bbn_freelist_pn, ln_bump, bbn_bump, bbn, ln, workers, leaf_cache_size)` -/
  treeOpen : (ln bbn : ByteArray) → (lnFl bbnFl lnBump bbnBump : Nat) → Outcome String Tree × List Eff
  /-- `bitbox::recover(sync_seqn, ht, wal, meta_map, seed)`: the table file and the bytes of the meta map afterwards
  (the map is mutated in place: its bucket count cannot change) -/
  recover : (seqn : Nat) → (seed0 seed1 : Nat) → (ht wal : ByteArray) → HtOpened →
    Outcome String (ByteArray × ByteArray) × List Eff
  /-- `Rollback::read(max_rollback_log_len, dir, start_live, end_live)` -/
  rollbackRead : (maxLen start stop : Nat) → List (FileName × ByteArray) → Outcome String Log × List Eff

/-- what `Store::open` returns, as far as parameters go -/
structure Opened (Tree Log : Type) where
  /-- `Sync::new(..)`: the values the NEXT manifest is written from -/
  syncSeqn : Nat
  syncNumPages : Nat
  syncSeed0 : Nat
  syncSeed1 : Nat
  panicOnSync : Bool
  /-- `bitbox::DB`: what pages are probed with -/
  bitboxSeed0 : Nat
  bitboxSeed1 : Nat
  capacity : Nat
  occupied : Nat
  ht : ByteArray
  /-- the arguments `Tree::open` got, and its result -/
  treeArgs : Nat × Nat × Nat × Nat
  tree : Tree
  /-- the arguments `Rollback::read` got (`None` when `o.rollback` is off), and its result -/
  rollbackArgs : Option (Nat × Nat × Nat)
  rollback : Option Log

/-- variants of `Store::open`, for counterexamples -/
structure OpenFlags where
  /-- seeded change `C13-sync-uses-option-seed`: `Sync::new(meta.sync_seqn, meta.bitbox_num_pages, o.bitbox_seed, …)` -/
  syncSeedFromOptions : Bool := false
  /-- a tempting "repair" of a mismatching table: trust `o.bitbox_num_pages` -/
  numPagesFromOptions : Bool := false
deriving Repr, DecidableEq

/-- what precedes the `flock` call: (`create_dir_all` when creating,) opening the directory, opening the lock file -/
def lockPre (d : Dir) : List Eff :=
  if !d.present || d.files.isEmpty then [Eff.mkdirAll, .openDir, .openLockCreate] else [.openDir, .openLockCreate]

/-- **phase 1**: everything up to and including `Flock::lock` — `should_create`, then either the head of `create`
(`create_dir_all`, open the directory, lock) or the `else` branch (open the directory, lock).  Result: whether the
database is to be created; `err` when the lock is refused -/
def lockPhase (d : Dir) : Outcome String Bool × List Eff :=
  let shouldCreate := !d.present || d.files.isEmpty
  if d.lockedByOther then (.err "Failed to lock directory", lockPre d ++ [.flock false])
  else (.ok shouldCreate, lockPre d ++ [.flock true])

/-- the rest of `create` (after the lock): `meta` (`File::create`, `Meta::write` = write + fsync), `bitbox::create`
(`ht`: create, `set_len`, fsync; `wal`: create, fsync), `beatree::create` (`ln`, `bbn`: create, `set_len` to one page,
fsync), directory fsync -/
def createFiles (dbg : Bool) (o : Options) (d : Dir) : Outcome String Dir × List Eff :=
  let e1 := [Eff.create .manifest, .write .manifest, .fsync .manifest, .create .ht]
  match htCreateLen dbg o.bitboxNumPages with
  | .panic s => (.panic s, e1)
  | .err e => (.err e, e1)
  | .ok len =>
    let zeros (n : Nat) : ByteArray := (List.replicate n (0 : UInt8)).toByteArray
    let d := ((((({ d with present := true, files := (FileName.lock, ByteArray.empty) :: d.files }).put .manifest
      (metaPage (createNew o.seed0 o.seed1 o.bitboxNumPages))).put .ht (zeros len)).put .wal ByteArray.empty).put .ln
      (zeros PAGE)).put .bbn (zeros PAGE)
    (.ok d, e1 ++ [.setLen .ht, .fsync .ht, .create .wal, .fsync .wal, .create .ln, .create .bbn, .setLen .ln,
      .setLen .bbn, .fsync .ln, .fsync .bbn, .fsyncDir])

variable {Tree Log : Type}

/-- `bitbox::DB::open`: `ht_file::open`, `recover` iff the WAL file is not empty, `full_count` -/
def dbOpen (dbg : Bool) (P : Parts Tree Log) (seqn numPages seed0 seed1 : Nat) (ht wal : ByteArray) :
    Outcome String (ByteArray × HtOpened) × List Eff :=
  match htOpen dbg numPages ht with
  | .panic s => (.panic s, [.read .ht])
  | .err e => (.err ("encountered error in opening store: " ++ e), [.read .ht])
  | .ok h =>
    if wal.size > 0 then
      let r := P.recover seqn seed0 seed1 ht wal h
      (match r.1 with
        | .ok (ht', mb) => .ok (ht', { h with metaBytes := mb })
        | .err e => .err e
        | .panic s => .panic s, .read .ht :: r.2)
    else (.ok (ht, h), [.read .ht])

/-- **phase 2** of `Store::open` on a directory whose lock is held: the I/O pool, the five files opened read-write
(a missing one is an `Err`), `Meta::read`, `validate`, `Tree::open`, `bitbox::DB::open`, `Rollback::read`, `Sync::new` -/
def openFiles (fl : OpenFlags) (dbg : Bool) (P : Parts Tree Log) (o : Options) (d : Dir) :
    Outcome String (Opened Tree Log) × List Eff :=
  let t0 := [Eff.startIoPool, .openRW .manifest]
  match d.get .manifest with
  | none => (.err "meta: No such file or directory", t0)
  | some metaF =>
  match d.get .ln with
  | none => (.err "ln: No such file or directory", t0 ++ [.openRW .ln])
  | some lnF =>
  match d.get .bbn with
  | none => (.err "bbn: No such file or directory", t0 ++ [.openRW .ln, .openRW .bbn])
  | some bbnF =>
  match d.get .ht with
  | none => (.err "ht: No such file or directory", t0 ++ [.openRW .ln, .openRW .bbn, .openRW .ht])
  | some htF =>
  match d.get .wal with
  | none => (.err "wal: No such file or directory", t0 ++ [.openRW .ln, .openRW .bbn, .openRW .ht, .openRW .wal])
  | some walF =>
  let t1 := t0 ++ [.openRW .ln, .openRW .bbn, .openRW .ht, .openRW .wal, .read .manifest]
  match metaRead metaF with
  | .panic s => (.panic s, t1)
  | .err e => (.err e, t1)
  | .ok m =>
  match validate m with
  | .panic s => (.panic s, t1)
  | .err _ => (.err "invalid manifest", t1)
  | .ok _ =>
  let tr := P.treeOpen lnF bbnF m.lnFreelistPn m.bbnFreelistPn m.lnBump m.bbnBump
  match tr.1 with
  | .panic s => (.panic s, t1 ++ tr.2)
  | .err e => (.err e, t1 ++ tr.2)
  | .ok tree =>
  let numPages := if fl.numPagesFromOptions then o.bitboxNumPages else m.bitboxNumPages
  let db := dbOpen dbg P m.syncSeqn numPages m.seed0 m.seed1 htF walF
  match db.1 with
  | .panic s => (.panic s, t1 ++ tr.2 ++ db.2)
  | .err e => (.err e, t1 ++ tr.2 ++ db.2)
  | .ok (ht', h) =>
  let rb : Outcome String (Option Log) × List Eff :=
    if o.rollback then
      let r := P.rollbackRead o.maxRollbackLogLen m.rollbackStartLive m.rollbackEndLive d.files
      (match r.1 with | .ok l => .ok (some l) | .err e => .err e | .panic s => .panic s, r.2)
    else (.ok none, [])
  match rb.1 with
  | .panic s => (.panic s, t1 ++ tr.2 ++ db.2 ++ rb.2)
  | .err e => (.err e, t1 ++ tr.2 ++ db.2 ++ rb.2)
  | .ok log =>
    (.ok { syncSeqn := m.syncSeqn, syncNumPages := m.bitboxNumPages,
           syncSeed0 := if fl.syncSeedFromOptions then o.seed0 else m.seed0,
           syncSeed1 := if fl.syncSeedFromOptions then o.seed1 else m.seed1,
           panicOnSync := o.panicOnSync, bitboxSeed0 := m.seed0, bitboxSeed1 := m.seed1, capacity := h.buckets,
           occupied := fullCount h.metaBytes, ht := ht',
           treeArgs := (m.lnFreelistPn, m.bbnFreelistPn, m.lnBump, m.bbnBump), tree := tree,
           rollbackArgs := if o.rollback then some (o.maxRollbackLogLen, m.rollbackStartLive, m.rollbackEndLive) else none,
           rollback := log },
     t1 ++ tr.2 ++ db.2 ++ rb.2)

/-- **`Store::open`** = phase 1, then (only with the lock) `create`'s files if needed, then phase 2 -/
def storeOpen (fl : OpenFlags) (dbg : Bool) (P : Parts Tree Log) (o : Options) (d : Dir) :
    Outcome String (Opened Tree Log) × List Eff :=
  let p1 := lockPhase d
  match p1.1 with
  | .panic s => (.panic s, p1.2)
  | .err e => (.err e, p1.2)
  | .ok shouldCreate =>
    if shouldCreate then
      let c := createFiles dbg o d
      match c.1 with
      | .panic s => (.panic s, p1.2 ++ c.2)
      | .err e => (.err e, p1.2 ++ c.2)
      | .ok d' =>
        let r := openFiles fl dbg P o d'
        (r.1, p1.2 ++ c.2 ++ r.2)
    else
      let r := openFiles fl dbg P o d
      (r.1, p1.2 ++ r.2)

/-! ## `Nomt::open` -/

/-- the handle as far as this unit goes -/
structure Handle (Node Tree Log : Type) where
  root : Node
  store : Opened Tree Log
  eff : Effective

/-- **`Nomt::open`**: clamp, `Store::open`, `load_page(ROOT_PAGE_ID)` (a part: `Store/ProbeModel.lean`),
`PageCache::new`, `compute_root_node`, (`prepopulate_cache`: reads only), `UpdatePool::new`.  `leavesOf` reads the
B-tree of the opened store (the iterator's view). -/
def nomtOpen (fl : OpenFlags) (rf : RootFlags) (dbg : Bool) (P : Parts Tree Log) (H : Hasher Node VH) (hv : B → VH)
    (loadRoot : Opened Tree Log → Outcome String (Option (Node × Node)))
    (leavesOf : Tree → List (Leaf (Stored VH B))) (o : Options) (d : Dir) :
    Outcome String (Handle Node Tree Log) × List Eff :=
  match clampOptions o with
  | .err e => (.err e, [])
  | .panic s => (.panic s, [])
  | .ok o =>
    let s := storeOpen fl dbg P o d
    match s.1 with
    | .err e => (.err e, s.2)
    | .panic m => (.panic m, s.2)
    | .ok st =>
      match loadRoot st with
      | .err e => (.err e, s.2 ++ [.read .ht])
      | .panic m => (.panic m, s.2 ++ [.read .ht])
      | .ok rp =>
        match effective dbg o with
        | .err e => (.err e, s.2 ++ [.read .ht])
        | .panic m => (.panic m, s.2 ++ [.read .ht])
        | .ok eff =>
          match liftU (computeRootNode rf H hv rp (leavesOf st.tree)) with
          | .err e => (.err e, s.2 ++ [.read .ht, .read .ln])
          | .panic m => (.panic m, s.2 ++ [.read .ht, .read .ln])
          | .ok root => (.ok { root := root, store := st, eff := eff }, s.2 ++ [.read .ht, .read .ln])

end Nomt.OpenPath
