import NomtModel.Store.WalRedoLemmas
/-!
A concrete page / bucket / diffs used by the non-vacuity examples and the counterexample of `Props/C03_Wal.lean`.
-/
namespace Nomt.Wal
open PageDiff

/-- a page of 4096 bytes whose first two node slots are non-zero -/
def exPage : Bytes := List.replicate 64 1 ++ List.replicate 4032 0
/-- an empty bucket -/
def exOld : Bytes := List.replicate 4096 0

theorem exPage_length : exPage.length = PAGE_SIZE := by
  unfold exPage; rw [List.length_append, List.length_replicate, List.length_replicate]; rfl
theorem exOld_length : exOld.length = PAGE_SIZE := by
  unfold exOld; rw [List.length_replicate]; rfl

theorem ones_3 : (⟨3, 0⟩ : PageDiff).ones = [0, 1] := by decide
theorem ones_2 : (⟨2, 0⟩ : PageDiff).ones = [1] := by decide
theorem plain_3 : PageDiff.Plain ⟨3, 0⟩ := ⟨by decide, by decide⟩
theorem plain_2 : PageDiff.Plain ⟨2, 0⟩ := ⟨by decide, by decide⟩
theorem plain_1 : PageDiff.Plain ⟨1, 0⟩ := ⟨by decide, by decide⟩

theorem exAgree : ∀ o, o < 4056 → o / 32 ∉ (⟨3, 0⟩ : PageDiff).ones → exOld[o]? = exPage[o]? := by
  intro o ho hn
  rw [ones_3] at hn
  have h64 : 64 ≤ o := by
    apply Nat.le_of_not_lt
    intro h
    have : o / 32 = 0 ∨ o / 32 = 1 := by omega
    rcases this with e | e <;> simp [e] at hn
  unfold exOld exPage
  rw [List.getElem?_append_right (by rw [List.length_replicate]; omega)]
  simp only [List.length_replicate, List.getElem?_replicate]
  have a : o < 4096 := by omega
  have b : o - 64 < 4032 := by omega
  rw [if_pos a, if_pos b]

end Nomt.Wal
