import NomtModel.Core.TriePos
/-!
# Mirror of the merkle-page layout (`nomt/src/page_cache.rs`, `merkle::ElidedChildren`)

A page is 4096 bytes: node `i < 126` at `[32·i, 32·i + 32)`, 24 unused bytes, the elided-children bitfield (u64,
little endian) at `[4056, 4064)`, the label (`PageId::encode`) at `[4064, 4096)`.  `none` = the `assert!(index <
NODES_PER_PAGE)` of `read_node` / `set_node`.  No proofs here (the driver imports this file).
-/
namespace Nomt.PageLayout

def PAGE_SIZE : Nat := 4096
def NODES_PER_PAGE : Nat := 126
def ELIDED_OFF : Nat := PAGE_SIZE - 32 - 8
def LABEL_OFF : Nat := PAGE_SIZE - 32

abbrev PageBytes := List UInt8

/-- `dst[off .. off + data.len()].copy_from_slice(data)` -/
def splice (pg : PageBytes) (off : Nat) (data : List UInt8) : PageBytes :=
  pg.take off ++ data ++ pg.drop (off + data.length)

/-- `read_node` -/
def readNode (pg : PageBytes) (i : Nat) : Option (List UInt8) :=
  if i < NODES_PER_PAGE then some ((pg.drop (32 * i)).take 32) else none

/-- `set_node` -/
def setNode (pg : PageBytes) (i : Nat) (node : List UInt8) : Option PageBytes :=
  if i < NODES_PER_PAGE then some (splice pg (32 * i) node) else none

def le64 (n : Nat) : List UInt8 := (List.range 8).map fun k => UInt8.ofNat (n / 256 ^ k % 256)
def ofLe (bs : List UInt8) : Nat := bs.foldr (fun b acc => b.toNat + 256 * acc) 0
def be32 (n : Nat) : List UInt8 := (List.range 32).map fun k => UInt8.ofNat (n / 256 ^ (31 - k) % 256)

/-- `read_elided_children` (as the raw `u64`) -/
def readElided (pg : PageBytes) : Nat := ofLe ((pg.drop ELIDED_OFF).take 8)

/-- `PageMut::set_elided_children` -/
def setElided (pg : PageBytes) (e : Nat) : PageBytes := splice pg ELIDED_OFF (le64 e)

/-- the label bytes -/
def label (pg : PageBytes) : List UInt8 := pg.drop LABEL_OFF

/-- the last 40 bytes `PageMut::pristine_empty` writes: a cleared bitfield and the label -/
def pristineTail (pid : Nomt.TriePos.PageId) : List UInt8 := le64 0 ++ be32 (Nomt.TriePos.pidEncode pid)

/-- `ElidedChildren::is_elided`: `(elided >> c) & 1 == 1` -/
def elidedGet (bits c : Nat) : Bool := bits.testBit c

/-- `ElidedChildren::set_elide` on a `u64`: `elided |= 1 << c` / `elided &= !(1 << c)` -/
def U64_MAX : Nat := 2 ^ 64 - 1

def elidedSet (bits c : Nat) (on : Bool) : Nat :=
  if on then bits ||| 2 ^ c else bits &&& (U64_MAX ^^^ 2 ^ c)

end Nomt.PageLayout
