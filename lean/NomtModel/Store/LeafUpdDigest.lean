import NomtModel.Store.LeafUpdInv
/-!
# `prepare_merge_ops`, `digest`

`digest` on a state satisfying `Inv`: no panic; the produced leaves followed by what the updater keeps (`NeedsMerge`)
are exactly its content; every leaf is non-empty, at most `LEAF_NODE_BODY_SIZE`, at least `LEAF_MERGE_THRESHOLD` unless
it is the leaf handed the cutoff `None` (the rightmost leaf of the tree); the separators form a chain; `Inv` holds again.
-/
namespace Nomt.LeafUpd
variable {V : Type} [CellSize V]

/-! ## op lists made of `Insert`s only -/

def AllIns (ops : List (Op V)) : Prop := ∀ op ∈ ops, ∃ e, op = .ins e

theorem den_allIns {ops : List (Op V)} (h : AllIns ops) (b1 b2 : Option (Base V)) : den b1 ops = den b2 ops := by
  induction ops with
  | nil => rfl
  | cons op r ih =>
    obtain ⟨e, rfl⟩ := h op (List.mem_cons_self ..)
    simp only [den_cons, denOp]
    rw [ih (fun o ho => h o (List.mem_cons_of_mem _ ho))]

theorem wf_allIns {ops : List (Op V)} (h : AllIns ops) (b? : Option (Base V)) : WF b? ops := by
  intro op hop
  obtain ⟨e, rfl⟩ := h op hop
  trivial

theorem ops_nil_of_den_nil {b? : Option (Base V)} : ∀ {ops : List (Op V)}, WF b? ops → den b? ops = [] → ops = []
  | [], _, _ => rfl
  | op :: r, hwf, hd => by
    exfalso
    have hop := (wf_cons.1 hwf).1
    simp only [den_cons, List.append_eq_nil_iff] at hd
    cases op with
    | ins e => simp [denOp] at hd
    | keep f t vs =>
      obtain ⟨_, h1, h2, _⟩ := hop
      have := slice_length (baseEnts b?) f t h2
      simp only [denOp] at hd
      rw [hd.1] at this
      simp at this; omega

/-! ## `prepare_merge_ops` -/

theorem keyCells_spec (b : Base V) : ∀ cnt pos, pos + cnt ≤ b.ents.length →
    ∃ r, keyCells b cnt pos = some r ∧ AllIns r ∧ ∀ b?, den b? r = slice b.ents pos (pos + cnt) := by
  intro cnt
  induction cnt with
  | zero => intro pos _; exact ⟨[], rfl, by intro op h; simp at h, by intro b?; simp [slice_self]⟩
  | succ cnt ih =>
    intro pos h
    have hp : pos < b.ents.length := by omega
    obtain ⟨r, e1, e2, e3⟩ := ih (pos + 1) (by omega)
    refine ⟨.ins b.ents[pos] :: r, by simp [keyCells, List.getElem?_eq_getElem hp, e1], ?_, ?_⟩
    · intro op hop
      rcases List.mem_cons.1 hop with rfl | hop
      · exact ⟨_, rfl⟩
      · exact e2 op hop
    · intro b?
      simp only [den_cons, denOp, e3 b?]
      rw [slice_cons_of_lt _ _ _ (by omega) hp]
      have : pos + 1 + cnt = pos + (cnt + 1) := by omega
      rw [this]; rfl

theorem mergeOps_spec (b : Base V) : ∀ ops : List (Op V), WF (some b) ops →
    ∃ ops', mergeOps b ops = some ops' ∧ AllIns ops' ∧ ∀ b?, den b? ops' = den (some b) ops := by
  intro ops
  induction ops with
  | nil => intro _; exact ⟨[], rfl, by intro op h; simp at h, by intro b?; rfl⟩
  | cons op r ih =>
    intro hwf
    obtain ⟨hop, hr⟩ := wf_cons.1 hwf
    obtain ⟨r', e1, e2, e3⟩ := ih hr
    cases op with
    | ins e =>
      refine ⟨.ins e :: r', by simp [mergeOps, e1], ?_, ?_⟩
      · intro op hop
        rcases List.mem_cons.1 hop with rfl | hop
        · exact ⟨_, rfl⟩
        · exact e2 op hop
      · intro b?; simp [denOp, e3 b?]
    | keep f t vs =>
      obtain ⟨_, h1, h2, _⟩ := hop
      simp only [baseEnts] at h2
      obtain ⟨a, a1, a2, a3⟩ := keyCells_spec b (t - f) f (by omega)
      refine ⟨a ++ r', ?_, ?_, ?_⟩
      · simp [mergeOps, Nat.not_le.mpr h1, a1, e1]
      · intro op hop
        rcases List.mem_append.1 hop with hop | hop
        · exact a2 op hop
        · exact e2 op hop
      · intro b?
        simp only [den_append, den_cons, denOp, baseEnts, a3 b?, e3 b?]
        have : f + (t - f) = t := by omega
        rw [this]

/-! ## the two `try_build_leaves` calls -/

theorem digestBuild_spec (sepf : Nat → Nat → Option Nat) (KB : Nat) (hsep : SepOK sepf KB) (st : St V)
    (hwf : WF st.base st.ops) (hg : st.gauge = gaugeOf (den st.base st.ops))
    (hsz : SizeOK (den st.base st.ops)) (hsort : Sorted (den st.base st.ops))
    (hkb : KeysBelow KB (den st.base st.ops)) (hlo : ∀ e ∈ den st.base st.ops, separator st ≤ e.key) :
    ∃ st' leaves target, digestBuild sepf st = some (st', leaves) ∧ MERGE ≤ target ∧
      BuildOut target st.cutoff (separator st) st st' leaves ∧ bodyOf (den st.base st'.ops) ≤ BODY := by
  have hB := BODY_eq
  have hM := MERGE_eq
  have hT := BULK_THRESHOLD_eq
  have hG := BULK_TARGET_eq
  have hgb : st.gauge.body = bodyOf (den st.base st.ops) := by rw [hg]; rfl
  by_cases hbulk : st.gauge.body > BULK_THRESHOLD
  · -- bulk split; what remains is below the bulk target, so no second call
    obtain ⟨st1, l1, e1, o1⟩ := tryBuildLeaves_spec sepf KB hsep BULK_TARGET (by omega) (by omega) st hwf hsz hsort hkb
      (by omega) hlo
    have hb1 : st1.gauge.body = bodyOf (den st.base st1.ops) := by rw [o1.gauge]; rfl
    have hlt := o1.below
    have hno : ¬ st1.gauge.body > BODY := by omega
    refine ⟨st1, l1, BULK_TARGET, ?_, by omega, o1, by omega⟩
    simp [digestBuild, hbulk, e1, hno]
  · by_cases hsplit : st.gauge.body > BODY
    · have h1 : MERGE ≤ st.gauge.body / 2 := by omega
      have h2 : st.gauge.body / 2 ≤ BODY := by omega
      obtain ⟨st1, l1, e1, o1⟩ := tryBuildLeaves_spec sepf KB hsep (st.gauge.body / 2) h1 h2 st hwf hsz hsort hkb
        (by omega) hlo
      have hlt := o1.below
      refine ⟨st1, l1, st.gauge.body / 2, ?_, h1, o1, by omega⟩
      simp [digestBuild, hbulk, hsplit, e1]
    · refine ⟨st, [], BODY + 1, by simp [digestBuild, hbulk, hsplit], by omega, ?_, by omega⟩
      refine ⟨rfl, rfl, by simp, hwf, hg, by omega, by simp, fun _ => rfl, ?_, fun _ => trivial, by simp⟩
      intro _
      exact ⟨separator st, rfl, rfl, hlo⟩

/-! ## `digest` -/

structure DigestOut (KB : Nat) (st st' : St V) (leaves : List (Leaf V)) (res : DigestResult) : Prop where
  content_eq : leaves.flatMap (·.ents) ++ den st'.base st'.ops = content st
  rest_nil : restOf st'.base = []
  cutoff : st'.cutoff = st.cutoff
  sizes : ∀ l ∈ leaves, l.ents ≠ [] ∧ bodyOf l.ents ≤ BODY ∧ (MERGE ≤ bodyOf l.ents ∨ l.cutoff = none)
  inv : Inv KB st'
  fin : res = .finished → st'.ops = [] ∧ st'.gauge = {} ∧ st'.sepOv = none ∧
    SepChainEnd st.cutoff (separator st) leaves
  merge : ∀ c, res = .needsMerge c → st.cutoff = some c ∧ AllIns st'.ops ∧ den st'.base st'.ops ≠ [] ∧
    bodyOf (den st'.base st'.ops) < MERGE ∧ SepChain (separator st) leaves (separator st') ∧
    st'.sepOv = some (separator st')

theorem digest_spec (sepf : Nat → Nat → Option Nat) (KB : Nat) (hsep : SepOK sepf KB) (st : St V) (hinv : Inv KB st) :
    ∃ st' leaves res, digest sepf st = some (st', leaves, res) ∧ DigestOut KB st st' leaves res := by
  have hB := BODY_eq
  have hM := MERGE_eq
  have hV := MAXV_eq
  obtain ⟨k1, k2, k3, k4, k5, k6, k7, k8, k9, k10, _⟩ := keepUpToG_none_spec false st hinv.wf hinv.gauge hinv.low_le
  generalize hst0 : (keepUpToG false st none).1 = st0 at k1 k2 k3 k4 k5 k6 k7 k8 k9 k10
  have hk : (keepUpTo st none).1 = st0 := hst0
  have hden0 : den st0.base st0.ops = content st := k1
  have hsep0 : separator st0 = separator st := separator_congr k9 k7
  obtain ⟨st2, ls, target, eb, ht, ob, hle⟩ := digestBuild_spec sepf KB hsep st0 k3 k4
    (by rw [hden0]; exact hinv.size) (by rw [hden0]; exact hinv.sorted) (by rw [hden0]; exact hinv.keys)
    (by rw [hden0, hsep0]; exact hinv.lo)
  rw [hsep0, k8] at ob
  have hbase : st2.base = st0.base := ob.base
  have hR : ls.flatMap (·.ents) ++ den st0.base st2.ops = content st := by rw [ob.den_eq, hden0]
  have hgb : st2.gauge.body = bodyOf (den st0.base st2.ops) := by rw [ob.gauge]; rfl
  have hrest2 : restOf st2.base = [] := by rw [hbase]; exact k2
  have hsub : ∀ e ∈ den st0.base st2.ops, e ∈ content st := by
    intro e he; rw [← hR]; exact List.mem_append_right _ he
  have hsorted2 : Sorted (den st0.base st2.ops) := by
    have := hinv.sorted; rw [← hR] at this; exact this.append_right
  have hsizes : ∀ l ∈ ls, l.ents ≠ [] ∧ bodyOf l.ents ≤ BODY ∧ (MERGE ≤ bodyOf l.ents ∨ l.cutoff = none) := by
    intro l hl
    obtain ⟨a, b, c⟩ := ob.sizes l hl
    exact ⟨a, b, Or.inl (by omega)⟩
  have hcut2 : st2.cutoff = st.cutoff := by rw [ob.cutoff, k8]
  have hll2 : ∀ b, st2.base = some b → b.low ≤ b.ents.length := by rw [hbase]; exact k10
  have hcb2 : st2.cutoff.isSome = true → st2.base.isSome = true := by
    rw [hcut2, hbase, k6]; exact hinv.cutbase
  simp only [digest, hk, eb]
  by_cases hz : st2.gauge.body = 0
  · -- nothing left
    have hdn : den st0.base st2.ops = [] := eq_nil_of_bodyOf_zero (by omega)
    have hops : st2.ops = [] := ops_nil_of_den_nil ob.wf hdn
    have hbeq : (st2.gauge.body == 0) = true := by simp [hz]
    simp only [hbeq, if_true]
    refine ⟨_, ls, .finished, rfl, ?_⟩
    have hcont : content ({ st2 with sepOv := none } : St V) = [] := by
      simp only [content, hbase, hops, den_nil, List.nil_append]; rw [← hbase]; exact hrest2
    refine ⟨by simpa [hbase, hdn] using hR, hrest2, hcut2, hsizes, ?_, ?_, by intro c h; cases h⟩
    · refine ⟨by simp [hops, WF.nil], by simp only [hbase, hops, den_nil]; rw [ob.gauge, hdn], hll2, ?_, ?_, ?_, ?_, ?_,
        fun _ => rfl, hcb2⟩
      · rw [hcont]; exact List.Pairwise.nil
      · rw [hcont]; intro e he; simp at he
      · rw [hcont]; intro e he; simp at he
      · rw [hcont]; intro e he; simp at he
      · intro c _ e he; rw [hcont] at he; simp at he
    · intro _
      exact ⟨hops, by rw [ob.gauge, hdn]; rfl, rfl, ob.chain_end hdn⟩
  · have hbeq : (st2.gauge.body == 0) = false := by simp [hz]
    simp only [hbeq, Bool.false_eq_true, if_false]
    have hdne : den st0.base st2.ops ≠ [] := by
      intro h; rw [h] at hgb; simp at hgb; omega
    obtain ⟨lo', hch, hsep2, hlo2⟩ := ob.chain_more hdne
    by_cases hfin : (decide (st2.gauge.body ≥ MERGE) || st2.cutoff.isNone) = true
    · -- the last leaf
      simp only [hfin, if_true]
      have hbl : buildLeaf st2.base st2.ops = some (den st0.base st2.ops) := by
        rw [hbase]; exact buildLeaf_of_wf ob.wf hle
      simp only [hbl]
      refine ⟨_, ls ++ [⟨separator st2, den st0.base st2.ops, st2.cutoff⟩], .finished, rfl, ?_⟩
      have hcont : content ({ st2 with ops := [], gauge := {}, sepOv := none } : St V) = [] := by
        simp only [content, den_nil, List.nil_append]; exact hrest2
      refine ⟨?_, hrest2, hcut2, ?_, ?_, ?_, by intro c h; cases h⟩
      · simp only [List.flatMap_append, List.flatMap_cons, List.flatMap_nil, List.append_nil, den_nil]
        exact hR
      · intro l hl
        rcases List.mem_append.1 hl with hl | hl
        · exact hsizes l hl
        · simp at hl; subst hl
          refine ⟨hdne, hle, ?_⟩
          simp only [Bool.or_eq_true, decide_eq_true_eq, Option.isNone_iff_eq_none] at hfin
          rcases hfin with h | h
          · left; show MERGE ≤ bodyOf (den st0.base st2.ops); omega
          · right; exact h
      · refine ⟨WF.nil _, rfl, hll2, ?_, ?_, ?_, ?_, ?_, fun _ => rfl, hcb2⟩
        · rw [hcont]; exact List.Pairwise.nil
        · rw [hcont]; intro e he; simp at he
        · rw [hcont]; intro e he; simp at he
        · rw [hcont]; intro e he; simp at he
        · intro c _ e he; rw [hcont] at he; simp at he
      · intro _
        refine ⟨rfl, rfl, rfl, ?_⟩
        apply SepChain.append_end (by simp) hch
        exact ⟨hsep2, hlo2, hcut2⟩
    · -- needs a merge with the next leaf
      simp only [hfin, Bool.false_eq_true, if_false]
      simp only [Bool.or_eq_true, decide_eq_true_eq, Option.isNone_iff_eq_none, not_or] at hfin
      obtain ⟨hsmall, hcne⟩ := hfin
      obtain ⟨c, hc⟩ := Option.ne_none_iff_exists'.1 hcne
      have hbs : st2.base.isSome = true := hcb2 (by simp [hc])
      obtain ⟨b, hb⟩ := Option.isSome_iff_exists.1 hbs
      have hwfb : WF (some b) st2.ops := by rw [← hb, hbase]; exact ob.wf
      obtain ⟨ops', m1, m2, m3⟩ := mergeOps_spec b st2.ops hwfb
      have hsov : mergeSep st2 = some (separator st2) := by
        unfold mergeSep separator
        cases st2.sepOv with
        | some s => rfl
        | none => simp [hb]
      simp only [hsov, prepareMergeOps, hb, m1, Option.map_some, hc]
      refine ⟨_, ls, .needsMerge c, rfl, ?_⟩
      have hden' : den (some b) ops' = den st0.base st2.ops := by rw [m3, ← hb, hbase]
      have hrestb : restOf (some b) = [] := by rw [← hb]; exact hrest2
      have hsep' : separator ({ base := some b, cutoff := some c, sepOv := some (separator st2), ops := ops', gauge := st2.gauge } : St V) = separator st2 := rfl
      have hcont : content ({ base := some b, cutoff := some c, sepOv := some (separator st2), ops := ops', gauge := st2.gauge } : St V) = den st0.base st2.ops := by
        simp only [content]
        rw [hden', hrestb]; simp
      have hcutc : some c = st.cutoff := by rw [← hc]; exact hcut2
      refine ⟨?_, hrestb, hcutc, hsizes, ?_, (by intro h; cases h), ?_⟩
      · simp only; rw [hden']; exact hR
      · refine ⟨wf_allIns m2 _, ?_, by rw [← hb]; exact hll2, ?_, ?_, ?_, ?_, ?_, ?_, fun _ => rfl⟩
        · simp only; rw [hden']; exact ob.gauge
        · rw [hcont]; exact hsorted2
        · rw [hcont]; exact fun e he => hinv.size e (hsub e he)
        · rw [hcont]; exact fun e he => hinv.keys e (hsub e he)
        · rw [hcont, hsep', hsep2]; exact hlo2
        · intro c' hc' e he; rw [hcont] at he
          exact hinv.hi c' (by rw [← hcutc]; exact hc') e (hsub e he)
        · intro hn; simp only at hn; rw [hden'] at hn; exact absurd hn hdne
      · intro c' hc'
        cases hc'
        refine ⟨hcutc.symm, m2, ?_, ?_, ?_, rfl⟩
        · simp only; rw [hden']; exact hdne
        · simp only; rw [hden']; omega
        · rw [hsep', hsep2]; exact hch

end Nomt.LeafUpd
