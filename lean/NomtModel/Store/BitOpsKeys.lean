import NomtModel.Store.BitOpsBits
/-!
# `prefix_len`, `separator_len`, `separate`: mirror = specification, and the order properties of `separate`
-/
namespace Nomt.BitOps

/-! ## common prefix of two bit strings -/

/-- number of positions from `p` on at which `f` and `g` agree before the first difference, at most `fuel` -/
def commonPrefix (f g : Nat → Bool) : (fuel p : Nat) → Nat
  | 0, _ => 0
  | k + 1, p => if f p = g p then 1 + commonPrefix f g k (p + 1) else 0

theorem commonPrefix_le (f g : Nat → Bool) : ∀ fuel p, commonPrefix f g fuel p ≤ fuel := by
  intro fuel
  induction fuel with
  | zero => intro p; simp [commonPrefix]
  | succ k ih =>
    intro p; simp only [commonPrefix]
    split
    · have := ih (p + 1); omega
    · omega

theorem commonPrefix_agree (f g : Nat → Bool) : ∀ fuel p j, j < commonPrefix f g fuel p → f (p + j) = g (p + j) := by
  intro fuel
  induction fuel with
  | zero => intro p j h; simp [commonPrefix] at h
  | succ k ih =>
    intro p j h
    simp only [commonPrefix] at h
    split at h
    · rename_i heq
      cases j with
      | zero => exact heq
      | succ j =>
        have := ih (p + 1) j (by omega)
        have e : p + 1 + j = p + (j + 1) := by omega
        rw [e] at this; exact this
    · omega

theorem commonPrefix_differ (f g : Nat → Bool) : ∀ fuel p, commonPrefix f g fuel p < fuel →
    f (p + commonPrefix f g fuel p) ≠ g (p + commonPrefix f g fuel p) := by
  intro fuel
  induction fuel with
  | zero => intro p h; omega
  | succ k ih =>
    intro p h
    simp only [commonPrefix] at h ⊢
    split
    · rename_i heq
      rw [if_pos heq] at h
      have := ih (p + 1) (by omega)
      have e : p + 1 + commonPrefix f g k (p + 1) = p + (1 + commonPrefix f g k (p + 1)) := by omega
      rw [e] at this; exact this
    · rename_i hne
      simpa using hne

theorem commonPrefix_congr (f g f' g' : Nat → Bool) : ∀ fuel p p',
    (∀ j, j < fuel → f (p + j) = f' (p' + j) ∧ g (p + j) = g' (p' + j)) →
    commonPrefix f g fuel p = commonPrefix f' g' fuel p' := by
  intro fuel
  induction fuel with
  | zero => intro p p' _; rfl
  | succ k ih =>
    intro p p' h
    simp only [commonPrefix]
    have h0 := h 0 (by omega)
    simp only [Nat.add_zero] at h0
    rw [h0.1, h0.2, ih (p + 1) (p' + 1) (fun j hj => by
      have := h (j + 1) (by omega)
      have e1 : p + 1 + j = p + (j + 1) := by omega
      have e2 : p' + 1 + j = p' + (j + 1) := by omega
      rw [e1, e2]; exact this)]

theorem commonPrefix_add (f g : Nat → Bool) : ∀ m k p,
    commonPrefix f g (m + k) p =
      if commonPrefix f g m p < m then commonPrefix f g m p else m + commonPrefix f g k (p + m) := by
  intro m
  induction m with
  | zero => intro k p; simp [commonPrefix]
  | succ m ih =>
    intro k p
    have e : m + 1 + k = (m + k) + 1 := by omega
    rw [e]
    simp only [commonPrefix]
    by_cases heq : f p = g p
    · simp only [if_pos heq]
      rw [ih k (p + 1)]
      have e2 : p + 1 + m = p + (m + 1) := by omega
      rw [e2]
      by_cases hlt : commonPrefix f g m (p + 1) < m
      · simp only [if_pos hlt]; rw [if_pos (by omega)]
      · simp only [if_neg hlt]; rw [if_neg (by omega)]; omega
    · simp only [if_neg heq]; rw [if_pos (by omega)]

/-! ## `prefix_len` -/

theorem and_shl_ne (x y b : Nat) :
    ((x &&& 1 <<< (7 - b)) ≠ (y &&& 1 <<< (7 - b))) ↔ x.testBit (7 - b) ≠ y.testBit (7 - b) := by
  rw [Nat.one_shiftLeft]
  constructor
  · intro h heq
    apply h
    apply Nat.eq_of_testBit_eq
    intro i
    rw [Nat.testBit_and, Nat.testBit_and, Nat.testBit_two_pow]
    by_cases hi : 7 - b = i
    · subst hi; simp [heq]
    · simp [hi]
  · intro h heq
    apply h
    have := congrArg (fun z => z.testBit (7 - b)) heq
    simpa [Nat.testBit_and, Nat.testBit_two_pow] using this

theorem plBits_eq (x y : Nat) : ∀ fuel bit,
    plBits x y fuel bit =
      (commonPrefix (fun t => x.testBit (7 - t)) (fun t => y.testBit (7 - t)) fuel bit,
       decide (commonPrefix (fun t => x.testBit (7 - t)) (fun t => y.testBit (7 - t)) fuel bit < fuel)) := by
  intro fuel
  induction fuel with
  | zero => intro bit; simp [plBits, commonPrefix]
  | succ k ih =>
    intro bit
    simp only [plBits, commonPrefix]
    by_cases h : x.testBit (7 - bit) = y.testBit (7 - bit)
    · have hn : ¬ ((x &&& 1 <<< (7 - bit)) ≠ (y &&& 1 <<< (7 - bit))) := by
        rw [and_shl_ne]; simpa using h
      simp only [if_neg hn, if_pos h, ih (bit + 1), Prod.mk.injEq]
      refine ⟨by omega, ?_⟩
      rw [decide_eq_decide]
      constructor <;> intro <;> omega
    · have hn : (x &&& 1 <<< (7 - bit)) ≠ (y &&& 1 <<< (7 - bit)) := by
        rw [and_shl_ne]; exact h
      simp only [if_pos hn, if_neg h]
      simp

/-- bits of byte `byte` of a byte string, as a bit function -/
theorem bitOf_byte (l : List Nat) (byte t : Nat) (ht : t < 8) : bitOf l (8 * byte + t) = (l.getD byte 0).testBit (7 - t) := by
  unfold bitOf
  have e1 : (8 * byte + t) / 8 = byte := by omega
  have e2 : (8 * byte + t) % 8 = t := by omega
  rw [e1, e2]

theorem plBytes_eq (a b : List Nat) : ∀ fuel byte,
    plBytes a b fuel byte = commonPrefix (bitOf a) (bitOf b) (8 * fuel) (8 * byte) := by
  intro fuel
  induction fuel with
  | zero => intro byte; simp [plBytes, commonPrefix]
  | succ k ih =>
    intro byte
    have e : 8 * (k + 1) = 8 + 8 * k := by omega
    rw [e, commonPrefix_add]
    simp only [plBytes, plBits_eq]
    have hc : commonPrefix (fun t => (a.getD byte 0).testBit (7 - t)) (fun t => (b.getD byte 0).testBit (7 - t)) 8 0 =
        commonPrefix (bitOf a) (bitOf b) 8 (8 * byte) := by
      apply commonPrefix_congr
      intro j hj
      rw [bitOf_byte a byte j hj, bitOf_byte b byte j hj]
      simp
    rw [hc]
    by_cases hlt : commonPrefix (bitOf a) (bitOf b) 8 (8 * byte) < 8
    · simp only [hlt, decide_true, if_true]
    · simp only [hlt, decide_false, Bool.false_eq_true, if_false]
      have h8 := commonPrefix_le (bitOf a) (bitOf b) 8 (8 * byte)
      rw [ih (byte + 1)]
      have e2 : 8 * (byte + 1) = 8 * byte + 8 := by omega
      rw [e2]; omega

/-- **`prefix_len` = length of the longest common bit prefix** (of the first 256 bits) -/
theorem prefixLen_eq (a b : List Nat) : prefixLen a b = commonPrefix (bitOf a) (bitOf b) 256 0 := by
  unfold prefixLen
  rw [plBytes_eq]

theorem prefixLen_le (a b : List Nat) : prefixLen a b ≤ 256 := by
  rw [prefixLen_eq]; exact commonPrefix_le _ _ _ _

theorem prefixLen_agree (a b : List Nat) (j : Nat) (h : j < prefixLen a b) : bitOf a j = bitOf b j := by
  rw [prefixLen_eq] at h
  have := commonPrefix_agree _ _ _ _ j h
  simpa using this

theorem prefixLen_differ (a b : List Nat) (h : prefixLen a b < 256) :
    bitOf a (prefixLen a b) ≠ bitOf b (prefixLen a b) := by
  rw [prefixLen_eq] at h ⊢
  have := commonPrefix_differ _ _ _ _ h
  simpa using this

/-! ## trailing zeros and `separator_len` -/

/-- number of `false` positions below `m`, going down from `m - 1`, before the first `true` -/
def trailingZeros (f : Nat → Bool) : Nat → Nat
  | 0 => 0
  | k + 1 => if f k then 0 else 1 + trailingZeros f k

theorem trailingZeros_le (f : Nat → Bool) : ∀ m, trailingZeros f m ≤ m := by
  intro m
  induction m with
  | zero => simp [trailingZeros]
  | succ k ih => simp only [trailingZeros]; split <;> omega

theorem trailingZeros_zero (f : Nat → Bool) : ∀ m j, m - trailingZeros f m ≤ j → j < m → f j = false := by
  intro m
  induction m with
  | zero => intro j _ h; omega
  | succ k ih =>
    intro j h1 h2
    simp only [trailingZeros] at h1
    split at h1
    · omega
    · rename_i hk
      by_cases hj : j = k
      · subst hj; simpa using hk
      · exact ih j (by omega) (by omega)

theorem trailingZeros_one (f : Nat → Bool) : ∀ m, trailingZeros f m < m → f (m - trailingZeros f m - 1) = true := by
  intro m
  induction m with
  | zero => intro h; omega
  | succ k ih =>
    intro h
    simp only [trailingZeros] at h ⊢
    split
    · rename_i hk; simpa using hk
    · rename_i hk
      rw [if_neg hk] at h
      have := ih (by omega)
      have e : k + 1 - (1 + trailingZeros f k) - 1 = k - trailingZeros f k - 1 := by omega
      rw [e]; exact this

theorem trailingZeros_congr (f f' : Nat → Bool) : ∀ m, (∀ j, j < m → f j = f' j) → trailingZeros f m = trailingZeros f' m := by
  intro m
  induction m with
  | zero => intro _; rfl
  | succ k ih =>
    intro h
    simp only [trailingZeros]
    rw [h k (by omega), ih (fun j hj => h j (by omega))]

theorem trailingZeros_add (f : Nat → Bool) (m : Nat) : ∀ k,
    trailingZeros f (m + k) =
      if trailingZeros (fun t => f (m + t)) k < k then trailingZeros (fun t => f (m + t)) k else k + trailingZeros f m := by
  intro k
  induction k with
  | zero => simp [trailingZeros]
  | succ k ih =>
    have e : m + (k + 1) = (m + k) + 1 := by omega
    rw [e]
    simp only [trailingZeros]
    by_cases hk : f (m + k) = true
    · simp only [if_pos hk]; rw [if_pos (by omega)]
    · simp only [if_neg hk]
      rw [ih]
      by_cases hlt : trailingZeros (fun t => f (m + t)) k < k
      · simp only [if_pos hlt]; rw [if_pos (by omega)]
      · simp only [if_neg hlt]; rw [if_neg (by omega)]; omega

theorem and_shl_eq (x b : Nat) : ((x &&& 1 <<< (7 - b)) = 1 <<< (7 - b)) ↔ x.testBit (7 - b) = true := by
  rw [Nat.one_shiftLeft]
  constructor
  · intro h
    have := congrArg (fun z => z.testBit (7 - b)) h
    simpa [Nat.testBit_and, Nat.testBit_two_pow] using this
  · intro h
    apply Nat.eq_of_testBit_eq
    intro i
    rw [Nat.testBit_and, Nat.testBit_two_pow]
    by_cases hi : 7 - b = i
    · subst hi; simp [h]
    · simp [hi]

theorem tzBits_eq (x : Nat) : ∀ fuel,
    tzBits x fuel = (trailingZeros (fun t => x.testBit (7 - t)) fuel,
                     decide (trailingZeros (fun t => x.testBit (7 - t)) fuel < fuel)) := by
  intro fuel
  induction fuel with
  | zero => simp [tzBits, trailingZeros]
  | succ k ih =>
    simp only [tzBits, trailingZeros]
    by_cases h : x.testBit (7 - k) = true
    · have hn : (x &&& 1 <<< (7 - k)) = 1 <<< (7 - k) := (and_shl_eq x k).mpr h
      simp only [if_pos hn, if_pos h]
      simp
    · have hn : ¬ ((x &&& 1 <<< (7 - k)) = 1 <<< (7 - k)) := fun hh => h ((and_shl_eq x k).mp hh)
      simp only [if_neg hn, if_neg h, ih, Prod.mk.injEq]
      refine ⟨by omega, ?_⟩
      rw [decide_eq_decide]
      constructor <;> intro <;> omega

theorem tzBytes_eq (k : List Nat) : ∀ fuel, tzBytes k fuel = trailingZeros (bitOf k) (8 * fuel) := by
  intro fuel
  induction fuel with
  | zero => simp [tzBytes, trailingZeros]
  | succ m ih =>
    have e : 8 * (m + 1) = 8 * m + 8 := by omega
    rw [e, trailingZeros_add]
    simp only [tzBytes, tzBits_eq]
    have hc : trailingZeros (fun t => (k.getD m 0).testBit (7 - t)) 8 = trailingZeros (fun t => bitOf k (8 * m + t)) 8 := by
      apply trailingZeros_congr
      intro j hj
      rw [bitOf_byte k m j hj]
    rw [hc]
    by_cases hlt : trailingZeros (fun t => bitOf k (8 * m + t)) 8 < 8
    · simp only [hlt, decide_true, if_true]
    · simp only [hlt, decide_false, Bool.false_eq_true, if_false]
      have h8 := trailingZeros_le (fun t => bitOf k (8 * m + t)) 8
      rw [ih]; omega

theorem bitOf_replicate_zero (n p : Nat) : bitOf (List.replicate n 0) p = false := by
  unfold bitOf
  rw [List.getD_eq_getElem?_getD, List.getElem?_replicate]
  split <;> simp

theorem bytes_replicate_zero (n : Nat) : Bytes (List.replicate n 0) := by
  intro b hb
  rw [List.mem_replicate] at hb
  omega

/-- **`separator_len` = 256 − trailing zero bits, but at least 1** -/
theorem separatorLen_eq (k : List Nat) :
    separatorLen k = if k = List.replicate 32 0 then 1 else 256 - trailingZeros (bitOf k) 256 := by
  unfold separatorLen
  rw [tzBytes_eq]

/-- a 32-byte key that is not all zero has a set bit, so its separator length is 256 − trailing zeros ≥ 1 -/
theorem trailingZeros_lt_of_ne (k : List Nat) (hk : Bytes k) (hl : k.length = 32) (hne : k ≠ List.replicate 32 0) :
    trailingZeros (bitOf k) 256 < 256 := by
  apply Nat.lt_of_le_of_ne (trailingZeros_le _ _)
  intro h
  apply hne
  apply bytes_ext_bits hk (bytes_replicate_zero 32) (by simp [hl])
  intro p hp
  rw [bitOf_replicate_zero]
  exact trailingZeros_zero (bitOf k) 256 p (by omega) (by omega)

theorem separatorLen_bounds (k : List Nat) (hk : Bytes k) (hl : k.length = 32) : 1 ≤ separatorLen k ∧ separatorLen k ≤ 256 := by
  rw [separatorLen_eq]
  by_cases h : k = List.replicate 32 0
  · rw [if_pos h]; omega
  · rw [if_neg h]
    have := trailingZeros_lt_of_ne k hk hl h
    omega

/-- every bit from `separator_len` on is zero -/
theorem separatorLen_zero_after (k : List Nat) (hl : k.length = 32) (p : Nat) (h1 : separatorLen k ≤ p) : bitOf k p = false := by
  rw [separatorLen_eq] at h1
  by_cases h : k = List.replicate 32 0
  · rw [h]; exact bitOf_replicate_zero 32 p
  · rw [if_neg h] at h1
    by_cases hp : p < 256
    · exact trailingZeros_zero (bitOf k) 256 p (by omega) hp
    · exact bitOf_beyond k p (by omega)

/-- the last bit of the separator is set (unless the key is all zero) -/
theorem separatorLen_last_one (k : List Nat) (hk : Bytes k) (hl : k.length = 32) (hne : k ≠ List.replicate 32 0) :
    bitOf k (separatorLen k - 1) = true := by
  rw [separatorLen_eq, if_neg hne]
  exact trailingZeros_one (bitOf k) 256 (trailingZeros_lt_of_ne k hk hl hne)

/-! ## byte-string surgery: bits of `take`, `writeAt`, `setIdx` -/

theorem getD_take (l : List Nat) (m i : Nat) : (l.take m).getD i 0 = if i < m then l.getD i 0 else 0 := by
  rw [List.getD_eq_getElem?_getD, List.getD_eq_getElem?_getD, List.getElem?_take]
  split <;> simp

theorem bitOf_take (l : List Nat) (m p : Nat) : bitOf (l.take m) p = (decide (p < 8 * m) && bitOf l p) := by
  unfold bitOf
  rw [getD_take]
  by_cases h : p / 8 < m
  · have : p < 8 * m := by omega
    simp [h, this]
  · have : ¬ p < 8 * m := by omega
    simp [h, this]

theorem getD_writeAt (l : List Nat) (off : Nat) (bs : List Nat) (i : Nat) (h : off ≤ l.length) :
    (writeAt l off bs).getD i 0 =
      if i < off then l.getD i 0 else if i < off + bs.length then bs.getD (i - off) 0 else l.getD i 0 := by
  unfold writeAt
  have hl : (l.take off).length = off := by simp; omega
  rw [List.getD_eq_getElem?_getD, List.getD_eq_getElem?_getD, List.getD_eq_getElem?_getD]
  by_cases h1 : i < off
  · rw [if_pos h1, List.append_assoc, List.getElem?_append_left (by omega), List.getElem?_take_of_lt h1]
  · rw [if_neg h1, List.append_assoc, List.getElem?_append_right (by omega), hl]
    by_cases h2 : i < off + bs.length
    · rw [if_pos h2, List.getElem?_append_left (by omega)]
    · rw [if_neg h2, List.getElem?_append_right (by omega), List.getElem?_drop]
      congr 2; omega

theorem bitOf_writeAt (l : List Nat) (off : Nat) (bs : List Nat) (p : Nat) (h : off ≤ l.length) :
    bitOf (writeAt l off bs) p =
      if p < 8 * off then bitOf l p else if p < 8 * (off + bs.length) then bitOf bs (p - 8 * off) else bitOf l p := by
  unfold bitOf
  rw [getD_writeAt _ _ _ _ h]
  by_cases h1 : p / 8 < off
  · rw [if_pos h1, if_pos (show p < 8 * off by omega)]
  · rw [if_neg h1, if_neg (show ¬ p < 8 * off by omega)]
    by_cases h2 : p / 8 < off + bs.length
    · rw [if_pos h2, if_pos (show p < 8 * (off + bs.length) by omega)]
      have e1 : (p - 8 * off) / 8 = p / 8 - off := by omega
      have e2 : (p - 8 * off) % 8 = p % 8 := by omega
      rw [e1, e2]
    · rw [if_neg h2, if_neg (show ¬ p < 8 * (off + bs.length) by omega)]

theorem length_writeAt (l : List Nat) (off : Nat) (bs : List Nat) (h : off + bs.length ≤ l.length) :
    (writeAt l off bs).length = l.length := by
  simp [writeAt]; omega

theorem bytes_append {l m : List Nat} (hl : Bytes l) (hm : Bytes m) : Bytes (l ++ m) := by
  intro b hb
  rcases List.mem_append.mp hb with h | h
  · exact hl b h
  · exact hm b h

theorem bytes_take {l : List Nat} (hl : Bytes l) (m : Nat) : Bytes (l.take m) :=
  fun b hb => hl b (List.mem_of_mem_take hb)

theorem bytes_drop {l : List Nat} (hl : Bytes l) (m : Nat) : Bytes (l.drop m) :=
  fun b hb => hl b (List.mem_of_mem_drop hb)

theorem bytes_writeAt {l bs : List Nat} (hl : Bytes l) (hb : Bytes bs) (off : Nat) : Bytes (writeAt l off bs) :=
  bytes_append (bytes_append (bytes_take hl _) hb) (bytes_drop hl _)

theorem getD_setIdx (l : List Nat) (i v j : Nat) :
    (setIdx l i v).getD j 0 = if i = j ∧ i < l.length then v else l.getD j 0 := by
  unfold setIdx
  rw [List.getD_eq_getElem?_getD, List.getD_eq_getElem?_getD, List.getElem?_set]
  by_cases h1 : i = j
  · subst h1
    by_cases h2 : i < l.length
    · simp [h2]
    · simp [h2, List.getElem?_eq_none (Nat.le_of_not_lt h2)]
  · simp [h1]

theorem bitOf_setIdx (l : List Nat) (i v p : Nat) :
    bitOf (setIdx l i v) p = if i = p / 8 ∧ i < l.length then v.testBit (7 - p % 8) else bitOf l p := by
  unfold bitOf
  rw [getD_setIdx]
  split <;> rfl

theorem length_setIdx (l : List Nat) (i v : Nat) : (setIdx l i v).length = l.length := by simp [setIdx]

theorem bytes_setIdx {l : List Nat} (hl : Bytes l) (i : Nat) {v : Nat} (hv : v < 256) : Bytes (setIdx l i v) := by
  intro b hb
  unfold setIdx at hb
  rcases List.mem_or_eq_of_mem_set hb with h | h
  · exact hl b h
  · rw [h]; exact hv

/-! ## `separate` -/

theorem length_prefixPad (k : List Nat) (n : Nat) : (prefixPad k n).length = 32 := length_bytesOfBits _ _
theorem bytes_prefixPad (k : List Nat) (n : Nat) : Bytes (prefixPad k n) := bytes_bytesOfBits _ _
theorem bitOf_prefixPad (k : List Nat) (n p : Nat) (hp : p < 256) : bitOf (prefixPad k n) p = (decide (p < n) && bitOf k p) :=
  bitOf_bytesOfBits _ 32 p (by omega)

/-- **`separate a b` = the first `prefix_len a b + 1` bits of `b`, zero padded** (whenever the keys differ) -/
theorem separate_eq (a b : List Nat) (hb : Bytes b) (hbl : b.length = 32) (h : prefixLen a b < 256) :
    separate a b = some (prefixPad b (prefixLen a b + 1)) := by
  unfold separate
  simp only []
  have hfb : ¬ (32 < (prefixLen a b + 1) / 8) := by omega
  rw [if_neg hfb]
  have hz := bytes_replicate_zero 32
  have hlen0 : (writeAt (List.replicate 32 0) 0 (b.take ((prefixLen a b + 1) / 8))).length = 32 := by
    rw [length_writeAt] <;> simp <;> omega
  have hB0 : Bytes (writeAt (List.replicate 32 0) 0 (b.take ((prefixLen a b + 1) / 8))) :=
    bytes_writeAt hz (bytes_take hb _) 0
  have hlt : (b.take ((prefixLen a b + 1) / 8)).length = (prefixLen a b + 1) / 8 := by simp; omega
  by_cases hr : (prefixLen a b + 1) % 8 ≠ 0
  · rw [if_pos hr, if_neg (by omega)]
    congr 1
    have hv : b.getD ((prefixLen a b + 1) / 8) 0 &&& (255 ^^^ (1 <<< (8 - (prefixLen a b + 1) % 8) - 1)) < 256 :=
      Nat.lt_of_le_of_lt Nat.and_le_left (getD_lt_of_bytes hb _)
    apply bytes_ext_bits (bytes_setIdx hB0 _ hv) (bytes_prefixPad _ _) (by rw [length_setIdx, hlen0, length_prefixPad])
    intro p hp
    rw [length_setIdx, hlen0] at hp
    rw [bitOf_prefixPad _ _ _ (by omega), bitOf_setIdx, hlen0, bitOf_writeAt _ _ _ _ (by simp), hlt, bitOf_take,
      bitOf_replicate_zero]
    have h255 : (255 : Nat) = 2 ^ 8 - 1 := by decide
    simp only [Nat.one_shiftLeft, h255, Nat.testBit_and, Nat.testBit_xor, Nat.testBit_two_pow_sub_one]
    unfold bitOf
    grind
  · rw [if_neg hr]
    congr 1
    apply bytes_ext_bits hB0 (bytes_prefixPad _ _) (by rw [hlen0, length_prefixPad])
    intro p hp
    rw [hlen0] at hp
    rw [bitOf_prefixPad _ _ _ (by omega), bitOf_writeAt _ _ _ _ (by simp), hlt, bitOf_take, bitOf_replicate_zero]
    grind

/-- equal keys: `separator[32]` is out of bounds -/
theorem separate_panics (a b : List Nat) (h : prefixLen a b = 256) : separate a b = none := by
  unfold separate
  simp [h]

end Nomt.BitOps
