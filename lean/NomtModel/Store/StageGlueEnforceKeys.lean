import NomtModel.Store.StageGlueEnforce
/-!
# `enforce_first_leaf_separator` invents no separator

Every key of the changeset it leaves is a key of the input changeset or a separator of the leaf level (for any input, also
for the seeded variant).
-/
namespace Nomt.StageGlue
open Nomt

theorem indexedLeaf_mem : ∀ (lvl : Level) (key s pn : Nat) (c : Option Nat), indexedLeaf lvl key = some (s, c, pn) →
    (s, pn) ∈ lvl
  | [], _, _, _, _, h => by simp [indexedLeaf] at h
  | (s0, pn0) :: rest, key, s, pn, c, h => by
    unfold indexedLeaf at h
    split at h
    · cases h
    · cases rest with
      | nil =>
        simp only [Option.some.injEq, Prod.mk.injEq] at h
        obtain ⟨rfl, _, rfl⟩ := h
        simp
      | cons y r =>
        obtain ⟨s2, pn2⟩ := y
        simp only at h
        split at h
        · simp only [Option.some.injEq, Prod.mk.injEq] at h
          obtain ⟨rfl, _, rfl⟩ := h
          simp
        · exact List.mem_cons_of_mem _ (indexedLeaf_mem ((s2, pn2) :: r) key s pn c h)

theorem nextCandidate_mem (lvl : Level) (sep : Nat) (s pn sep' : Nat)
    (h : nextCandidate lvl sep = some (some (s, pn), sep')) : (s, pn) ∈ lvl := by
  unfold nextCandidate at h
  split at h
  · cases h
  · rename_i ns _
    split at h
    · cases h
    · rename_i s' c' pn' hi
      simp only [Option.some.injEq, Prod.mk.injEq] at h
      obtain ⟨⟨rfl, rfl⟩, _⟩ := h
      exact indexedLeaf_mem lvl ns _ _ c' hi

theorem enforceLoop_mem (seeded : Bool) (lvl : Level) (cs : List (Nat × Option Nat)) : ∀ (fuel sep idx : Nat) (s pn idx' : Nat),
    enforceLoop seeded lvl cs fuel sep idx = some (some (s, pn), idx') → (s, pn) ∈ lvl
  | 0, _, _, _, _, _, h => by simp [enforceLoop] at h
  | fuel + 1, sep, idx, s, pn, idx', h => by
    unfold enforceLoop at h
    cases hn : nextCandidate lvl sep with
    | none => rw [hn] at h; cases h
    | some t =>
      obtain ⟨cand, sep'⟩ := t
      rw [hn] at h
      simp only at h
      have hc : ∀ i, some (cand, i) = some (some (s, pn), idx') → (s, pn) ∈ lvl := by
        intro i e
        simp only [Option.some.injEq, Prod.mk.injEq] at e
        obtain ⟨rfl, _⟩ := e
        exact nextCandidate_mem lvl sep s pn sep' hn
      split at h
      · exact hc _ h
      · split at h
        · exact enforceLoop_mem seeded lvl cs fuel _ _ s pn idx' h
        · exact hc _ h
      · exact hc _ h

theorem setFirst_keys (cs : List (Nat × Option Nat)) (v : Option Nat) (c : Nat × Option Nat) (h : c ∈ setFirst cs v) :
    ∃ c0 ∈ cs, c0.1 = c.1 := by
  cases cs with
  | nil => cases h
  | cons x t =>
    obtain ⟨k, w⟩ := x
    rcases List.mem_cons.1 h with rfl | h
    · exact ⟨(k, w), by simp, rfl⟩
    · exact ⟨c, by simp [h], rfl⟩

theorem keys_insert (lvl : Level) (cs : List (Nat × Option Nat)) (s pn idx : Nat) (hmem : (s, pn) ∈ lvl) :
    ∀ c ∈ (setFirst cs (some pn)).insertIdx idx (s, none), (∃ c0 ∈ cs, c0.1 = c.1) ∨ (∃ x ∈ lvl, x.1 = c.1) := by
  intro c hc
  by_cases hle : idx ≤ (setFirst cs (some pn)).length
  · rcases (List.mem_insertIdx hle).1 hc with rfl | hc
    · exact Or.inr ⟨(s, pn), hmem, rfl⟩
    · exact Or.inl (setFirst_keys _ _ c hc)
  · rw [List.insertIdx_of_length_lt (by omega)] at hc
    exact Or.inl (setFirst_keys _ _ c hc)

theorem keys_set (cs : List (Nat × Option Nat)) (v w : Option Nat) (idx k : Nat) (hk : (k, w) ∈ cs) :
    ∀ c ∈ (setFirst cs v).set idx (k, none), ∃ c0 ∈ cs, c0.1 = c.1 := by
  intro c hc
  rcases List.mem_or_eq_of_mem_set hc with hc | rfl
  · exact setFirst_keys _ _ c hc
  · exact ⟨(k, w), hk, rfl⟩

theorem keys_erase (cs : List (Nat × Option Nat)) (v : Option Nat) (idx : Nat) :
    ∀ c ∈ (setFirst cs v).eraseIdx idx, ∃ c0 ∈ cs, c0.1 = c.1 :=
  fun c hc => setFirst_keys _ _ c (List.mem_of_mem_eraseIdx hc)

/-- the keys of the result: keys of the input, or separators of the level -/
theorem enforceFirst_keys (seeded : Bool) (lvl : Level) (cs cs' : List (Nat × Option Nat))
    (h : enforceFirst seeded lvl cs = some cs') :
    ∀ c ∈ cs', (∃ c0 ∈ cs, c0.1 = c.1) ∨ (∃ x ∈ lvl, x.1 = c.1) := by
  unfold enforceFirst at h
  split at h
  · rename_i t
    cases hl : enforceLoop seeded lvl ((0, none) :: t) (((0, none) :: t).length + 1) 0 1 with
    | none => rw [hl] at h; cases h
    | some r =>
      obtain ⟨cand, idx⟩ := r
      rw [hl] at h
      simp only at h
      cases cand with
      | none =>
        cases hget : ((0, none) :: t : List (Nat × Option Nat))[idx]? with
        | none =>
          rw [hget] at h
          simp only [Option.some.injEq] at h
          subst h
          exact fun c hc => Or.inl ⟨c, hc, rfl⟩
        | some q =>
          obtain ⟨k, w⟩ := q
          rw [hget] at h
          cases w with
          | none =>
            simp only [Option.some.injEq] at h
            subst h
            exact fun c hc => Or.inl ⟨c, hc, rfl⟩
          | some pn =>
            simp only [if_true, Bool.false_eq_true, if_false, Option.some.injEq] at h
            subst h
            exact fun c hc => Or.inl (keys_erase _ _ _ c hc)
      | some sp =>
        obtain ⟨s, pn0⟩ := sp
        have hmem := enforceLoop_mem seeded lvl _ _ _ _ s pn0 idx hl
        cases hget : ((0, none) :: t : List (Nat × Option Nat))[idx]? with
        | none =>
          rw [hget] at h
          simp only [Option.some.injEq] at h
          subst h
          exact keys_insert lvl _ s pn0 idx hmem
        | some q =>
          obtain ⟨k, w⟩ := q
          rw [hget] at h
          have hk : (k, w) ∈ ((0, none) :: t : List (Nat × Option Nat)) := List.mem_of_getElem? hget
          cases w with
          | none =>
            simp only [Option.some.injEq] at h
            subst h
            exact keys_insert lvl _ s pn0 idx hmem
          | some pn =>
            simp only [] at h
            by_cases hge : s ≥ k
            · simp only [hge, decide_true, if_true] at h
              by_cases heq : s = k
              · simp only [heq, decide_true, if_true, Option.some.injEq] at h
                subst h
                exact fun c hc => Or.inl (keys_set _ (some pn) (some pn) idx k hk c hc)
              · simp only [heq, decide_false, Bool.false_eq_true, if_false, Option.some.injEq] at h
                subst h
                exact fun c hc => Or.inl (keys_erase _ _ _ c hc)
            · simp only [hge, decide_false, Bool.false_eq_true, if_false, Option.some.injEq] at h
              subst h
              exact keys_insert lvl _ s pn0 idx hmem
  · simp only [Option.some.injEq] at h
    subst h
    intro c hc
    exact Or.inl ⟨c, hc, rfl⟩

end Nomt.StageGlue
